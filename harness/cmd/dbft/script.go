package main

// script.go: the fixed corpus. A scripted case is a hand-written schedule (the random profiles are very
// unlikely to hit a particular interleaving of seven validators); it runs on the same real cluster,
// through the same event functions, and is checked by the same model comparison and oracles.
//
// Script steps (tokens; `*` matches anything):
//   D <to> <TYPE> <from> <view>   deliver every in-flight payload matching, in network order
//   C <to> <TYPE> <from> <view>   the same, but the copies stay in flight and the extensible pool's
//                                 de-duplication is bypassed (a payload handed to the service again)
//   X <to> <TYPE> <from> <view>   drop every match
//   T <i>                         fire validator i's timer
//   F <blocks>                    the synchronous schedule for that many blocks
//   I <to>                        a new transaction into validator <to>'s mempool only
//   P <to> <kind>                 a crafted PrepareRequest violating rule <kind> for backup <to> (probe.go)
//   R <to> <kind>                 a validator-signed RecoveryMessage whose compact entry <kind> = cv|ps|cm-n|255 names
//                                 a validator index outside the list (probe.go probeRecovery)

import (
	"fmt"
	"strconv"
	"strings"
)

type script struct {
	name  string
	n     int
	steps string
	opts  func(o *clusterOpts)
}

// relabelledCommit: seven validators (f = 2, M = 5), height 1. Validator 6 signs in view 0 and is
// frozen there; the others move to view 1, where 0 (the new primary) proposes and signs while
// holding 6's view-0 Commit. Validator 5 has not seen the view-1 PrepareRequest, has asked for view
// 2 and has heard from everybody, so it takes only the Commits out of 0's RecoveryMessage — among
// them 6's, which recovery_message.go GetCommits re-labels with the recovery message's view (1).
// Without a header it cannot be checked (dbft.go:455-466 / 630-642), and when the PrepareRequest
// arrives dbft checks the stored Commits before the request is stored (dbft.go:355-357: MakeHeader
// is still nil), so 6's signature over the view-0 header is counted for view 1.
var relabelledCommit = script{name: "relabelled-commit", n: 7, steps: `
D * PR 1 0
D 6 PS 2 0
D 6 PS 3 0
D 6 PS 4 0
D * PS 6 0
D 0 CM 6 0
X * CM 6 0
X * PS * 0
T 0
T 1
T 2
T 3
T 4
T 5
D * RR * 0
X * RM * *
T 0
T 1
T 2
T 3
T 4
T 5
D * CV * 0
X * RM * *
T 0
D 1 PR 0 1
D 2 PR 0 1
D 3 PR 0 1
D 4 PR 0 1
D 0 PS * 1
D 5 PS * 1
D 5 CM 0 1
T 5
D 0 CV 5 1
D 5 RM 0 1
D 5 PR 0 1
D 2 PS * 1
D 3 PS * 1
D 5 CM 2 1
D 5 CM 3 1
D * CM * 1
X * * * *
F 2
`}

// relabelledChecked: four validators. Validator 3 signs in view 0; 0, 1, 2 move to view 1, 0 proposes and
// signs there and, on its next timeout, re-sends its Commits in a RecoveryMessage — among them 3's
// view-0 signature, re-labelled view 1. Validator 1 holds the view-1 PrepareRequest, so it checks the
// signature against its header and drops it (dbft.go:630-642, block.go:33-40).
var relabelledChecked = script{name: "relabelled-commit-checked", n: 4, steps: `
D * PR 1 0
D 3 PS 2 0
D 0 CM 3 0
X * CM 3 0
X * PS * 0
T 0
T 1
T 2
D * RR * 0
X * RM * *
T 0
T 1
T 2
D * CV * 0
X * RM * *
T 0
D 1 PR 0 1
D 2 PR 0 1
D 0 PS * 1
T 0
D 1 RM 0 1
D * * * *
D * * * *
F 2
`}

// probes: crafted PrepareRequests, each violating one rule of verifyRequest / verifyBlock (probe.go).
// Validator 1 is the primary of height 1, view 0; 0, 2, 3 are backups. A request that fails
// verifyRequest is not stored, so one backup can be probed repeatedly; one that reaches verifyBlock is.
var probesA = script{name: "probes-stateroot-sysfee", n: 4,
	opts: func(o *clusterOpts) { o.stateRoot = true; o.maxTxPerBlock = 3; o.maxBlockSysFee = 250000 },
	steps: `
P 0 prev
P 0 ver
P 0 sroot
P 0 count
P 0 ts
P 2 sysfee
P 3 conflict
X * * * *
`}

var probesB = script{name: "probes-size-unknown", n: 4,
	opts: func(o *clusterOpts) { o.stateRoot = false; o.maxTxPerBlock = 8; o.maxBlockSize = 458 + 2*398 + 100 },
	steps: `
P 0 prev
P 0 count
P 0 ts+1
P 2 size
P 3 unknown
X * * * *
`}

// oversizedOnly: MaxBlockSize leaves no room for a single generated transaction next to the default block
// witness (490 + 398 > 700). The primary of height 2 holds exactly ONE pending transaction:
// ApplyPolicyToTxSet must cut it (an empty proposal), also when the set it is given has a single element
// (consensus.go:727-729).
var oversizedOnly = script{name: "single-oversized-tx", n: 4,
	opts: func(o *clusterOpts) { o.maxBlockSize = 700 },
	steps: `
F 1
I 2
F 2
`}

// lateValidator: the schedule class "one validator is last within a single view". At height 1 (primary 1,
// view 0) every payload reaches everybody but `victim` first: the others prepare, sign and commit. Then the
// victim receives ALL their Commits (stored unchecked: it has no header yet, dbft.go:630-642), then the
// PrepareResponses, and the PrepareRequest last. On that one delivery it answers, counts M preparations,
// signs and calls checkCommit holding N > M Commits of the view: getBlockWitness must take exactly M of
// them, in validator order (consensus.go:666-696, the `j < m` cap; seeded C19-m7 removes it).
func lateValidator(n, victim int, tail string) script {
	var b strings.Builder
	for j := 0; j < n; j++ {
		if j != victim && j != 1 {
			fmt.Fprintf(&b, "D %d PR 1 0\n", j)
		}
	}
	for _, typ := range []string{"PS", "CM"} {
		for j := 0; j < n; j++ {
			if j != victim {
				fmt.Fprintf(&b, "D %d %s * 0\n", j, typ)
			}
		}
	}
	fmt.Fprintf(&b, "D %d CM * 0\nD %d PS * 0\nD %d PR 1 0\n", victim, victim, victim)
	b.WriteString(tail)
	return script{name: fmt.Sprintf("late-validator-%d-of-%d", victim, n), n: n, steps: b.String()}
}

// recoveryIndex: one faulty validator per probe sends a RecoveryMessage with an out-of-range compact index;
// nobody may die of it and the heights still complete.
func recoveryIndex(n int) script {
	return script{name: fmt.Sprintf("recovery-index-%d", n), n: n, steps: `
R 0 cv-n
R 0 cv-255
R 2 ps-n
R 2 ps-255
R 3 cm-n
R 3 cm-255
F 1
R 1 cm-n
R 1 cv-255
F 2
`}
}

var corpus = []script{relabelledCommit, relabelledChecked, probesA, probesB, oversizedOnly,
	lateValidator(4, 3, "D * * * *\nF 2\n"), lateValidator(7, 0, "D * * * *\nF 2\n"),
	recoveryIndex(4), recoveryIndex(7)}

func match(pat, s string) bool { return pat == "*" || pat == s }

// matching returns the indices of the in-flight payloads matching (to, typ, from, view).
func (r *run) matching(to, typ, from, view string) []int {
	var idx []int
	for i, fl := range r.net {
		w := strings.Fields(fl.m.desc)
		if len(w) < 4 {
			continue
		}
		if match(to, strconv.Itoa(fl.to)) && match(typ, w[0]) && match(from, w[1]) && match(view, w[3]) {
			idx = append(idx, i)
		}
	}
	return idx
}

func (r *run) runScript(sc script) {
	for ln, line := range strings.Split(sc.steps, "\n") {
		w := strings.Fields(line)
		if len(w) == 0 || !r.ok() {
			continue
		}
		bad := func() {
			if r.machinery == nil {
				r.machinery = fmt.Errorf("script %s line %d: %q", sc.name, ln, line)
			}
		}
		switch w[0] {
		case "D", "C", "X":
			if len(w) != 5 {
				bad()
				return
			}
			// the matches as of now; a delivery changes the network, so each is looked up again
			var snap []flight
			for _, i := range r.matching(w[1], w[2], w[3], w[4]) {
				snap = append(snap, r.net[i])
			}
			for _, fl := range snap {
				found := -1
				for i := range r.net {
					if r.net[i] == fl {
						found = i
						break
					}
				}
				if found < 0 {
					continue
				}
				switch w[0] {
				case "D":
					r.deliver(found, true, false)
				case "C":
					r.deliver(found, false, true)
				case "X":
					r.net = append(r.net[:found], r.net[found+1:]...)
					r.o.Count("drop")
				}
				if !r.ok() {
					return
				}
			}
		case "T":
			i, err := strconv.Atoi(w[1])
			if err != nil || i >= len(r.cl.nodes) {
				bad()
				return
			}
			r.fireTimer(r.cl.nodes[i])
		case "I":
			i, err := strconv.Atoi(w[1])
			if err != nil || i >= len(r.cl.nodes) {
				bad()
				return
			}
			r.injectTxTo([]int{i}, nil)
		case "P":
			i, err := strconv.Atoi(w[1])
			if err != nil || i >= len(r.cl.nodes) || len(w) != 3 {
				bad()
				return
			}
			r.probe(i, w[2])
		case "R":
			i, err := strconv.Atoi(w[1])
			if err != nil || i >= len(r.cl.nodes) || len(w) != 3 {
				bad()
				return
			}
			r.probeRecovery(i, w[2])
		case "F":
			k, err := strconv.Atoi(w[1])
			if err != nil {
				bad()
				return
			}
			r.fair(k)
		default:
			bad()
			return
		}
	}
}
