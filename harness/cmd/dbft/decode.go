package main

// decode.go: turn a broadcast Extensible into the canonical trace form, using the REAL decoders
// of pkg/consensus (payload.go, recovery_message.go, ...). Hashes become small per-case ids in
// order of first appearance (the proposal nonce comes from crypto/rand, so raw hashes differ
// between runs).

import (
	"encoding/binary"
	"errors"
	"fmt"
	"slices"
	"strings"

	"github.com/nspcc-dev/dbft"
	"github.com/nspcc-dev/neo-go/pkg/consensus"
	"github.com/nspcc-dev/neo-go/pkg/core/block"
	"github.com/nspcc-dev/neo-go/pkg/crypto/hash"
	"github.com/nspcc-dev/neo-go/pkg/crypto/keys"
	"github.com/nspcc-dev/neo-go/pkg/io"
	npayload "github.com/nspcc-dev/neo-go/pkg/network/payload"
	"github.com/nspcc-dev/neo-go/pkg/smartcontract"
	"github.com/nspcc-dev/neo-go/pkg/util"
)

// names gives hashes stable small names within one case.
type names struct {
	prop  map[util.Uint256]int // PrepareRequest payload hash -> n  (printed pN)
	nprop int
	blk   map[util.Uint256]int // block hash -> n                   (printed bN)
}

func newNames() *names {
	return &names{prop: map[util.Uint256]int{}, blk: map[util.Uint256]int{}}
}

func (n *names) p(h util.Uint256) string {
	if _, ok := n.prop[h]; !ok {
		n.nprop++
		n.prop[h] = n.nprop
	}
	return fmt.Sprintf("p%d", n.prop[h])
}

// pnum is p without the letter (state observations).
func (n *names) pnum(h util.Uint256) string { return n.p(h)[1:] }

func (n *names) b(h util.Uint256) string {
	if _, ok := n.blk[h]; !ok {
		n.blk[h] = len(n.blk) + 1
	}
	return fmt.Sprintf("b%d", n.blk[h])
}

// proposal is what the harness knows about a PrepareRequest seen on the wire.
type proposal struct {
	h      uint32
	v      byte
	from   int
	hash   util.Uint256 // payload hash (the "preparation hash")
	hdr    *block.Header
	txs    []util.Uint256
	tstamp uint64
	num    int
	prev   util.Uint256
	ver    uint32
	sroot  util.Uint256
	srOK   bool // the state root it carries is the sender's own root at h-1
}

type hvKey struct {
	h uint32
	v byte
}

// msg is one consensus payload in canonical form.
type msg struct {
	from int
	typ  dbft.MessageType
	h    uint32
	v    byte
	desc string // canonical text, e.g. "PR 1 5 0 p3 b2"
	raw  []byte // wire form of the Extensible
	hash util.Uint256
}

func wire(e *npayload.Extensible) []byte {
	bw := io.NewBufBinWriter()
	e.EncodeBinary(bw.BinWriter)
	return bw.Bytes()
}

func unwire(b []byte) (*npayload.Extensible, error) {
	e := npayload.NewExtensible()
	r := io.NewBinReaderFromBuf(b)
	e.DecodeBinary(r)
	if r.Err != nil {
		return nil, r.Err
	}
	return e, nil
}

// decoder keeps the per-case tables needed to name things.
type decoder struct {
	cl    *cluster
	nm    *names
	props map[hvKey][]*proposal
	// a second, different PrepareRequest for one (height, view) is an oracle failure
	doubleProposal []string
	newProps       []*proposal // registered since the trace last reported proposals
	sigCache       map[string]sigRes
	genesis        util.Uint256
	forging        bool // the payload being decoded was crafted by the harness
}

func newDecoder(cl *cluster) *decoder {
	return &decoder{cl: cl, nm: newNames(), props: map[hvKey][]*proposal{}, sigCache: map[string]sigRes{},
		genesis: cl.nodes[0].bc.GetHeaderHash(0)}
}

// propOfBlock names the proposal a block hash belongs to (0 = genesis, 999999 = unknown).
func (d *decoder) propOfBlock(h util.Uint256) int {
	if h == d.genesis {
		return 0
	}
	for _, prs := range d.props {
		for _, pr := range prs {
			if pr.hdr != nil && pr.hdr.Hash() == h {
				return pr.num
			}
		}
	}
	return 999999
}

// header rebuilds the block header a validator derives from a PrepareRequest (consensus.go
// newBlockFromContext), on the ledger of node nd (which must be at height h-1).
func (d *decoder) header(nd *node, h uint32, v byte, prev util.Uint256, ts uint64, nonce uint64, txs []util.Uint256) (*block.Header, error) {
	if nd.bc.BlockHeight()+1 != h {
		return nil, errors.New("ledger not at h-1")
	}
	vals := nd.bc.ComputeNextBlockValidators()
	script, err := smartcontract.CreateDefaultMultiSigRedeemScript(vals)
	if err != nil {
		return nil, err
	}
	n := len(d.cl.pubs)
	pi := (int(h) - int(v)) % n
	if pi < 0 {
		pi += n
	}
	hdr := &block.Header{
		Version:       0,
		PrevHash:      prev,
		MerkleRoot:    hash.CalcMerkleRoot(slices.Clone(txs)),
		Timestamp:     ts,
		Nonce:         nonce,
		Index:         h,
		NextConsensus: hash.Hash160(script),
		PrimaryIndex:  byte(pi),
	}
	if d.cl.sr {
		sr, err := nd.bc.GetStateRoot(h - 1)
		if err != nil {
			return nil, err
		}
		hdr.StateRootEnabled = true
		hdr.PrevStateRoot = sr.Root
	}
	return hdr, nil
}

func (d *decoder) payload(e *npayload.Extensible) (*consensus.Payload, []byte, error) {
	raw := wire(e)
	p := consensus.NewPayload(magic, d.cl.sr)
	r := io.NewBinReaderFromBuf(raw)
	p.DecodeBinary(r)
	if r.Err != nil {
		return nil, nil, r.Err
	}
	return p, raw, nil
}

// blockOfCommit finds which known header of height h the signature signs and returns the view
// the header belongs to and the block's name. A commit relayed inside a RecoveryMessage is
// re-labelled with the recovery message's view by recovery_message.go GetCommits; what the
// validator really signed is what matters for the model, so the view is taken from the header.
func (d *decoder) blockOfCommit(from int, h uint32, v byte, sig []byte) (byte, string) {
	if from < 0 || from >= len(d.cl.pubs) {
		return v, "b?"
	}
	try := func(vv byte) (string, bool) {
		for _, pr := range d.props[hvKey{h, vv}] {
			if pr.hdr != nil && d.cl.pubs[from].VerifyHashable(sig, magic, pr.hdr) {
				return d.nm.b(pr.hdr.Hash()), true
			}
		}
		return "", false
	}
	if b, ok := try(v); ok {
		return v, b
	}
	for vv := 0; vv < 256; vv++ {
		if _, ok := d.props[hvKey{h, byte(vv)}]; !ok || byte(vv) == v {
			continue
		}
		if b, ok := try(byte(vv)); ok {
			return byte(vv), b
		}
	}
	return v, "b?"
}

// decode turns the payload broadcast by node `sender` (nil when unknown) into a msg.
func (d *decoder) decode(e *npayload.Extensible, sender *node) (*msg, error) {
	p, raw, err := d.payload(e)
	if err != nil {
		return nil, err
	}
	m := &msg{from: int(p.ValidatorIndex()), typ: p.Type(), h: p.Height(), v: p.ViewNumber(), raw: raw, hash: e.Hash()}
	pubs := make([]dbft.PublicKey, len(d.cl.pubs))
	for i := range pubs {
		pubs[i] = d.cl.pubs[i]
	}
	head := fmt.Sprintf("%d %d %d", m.from, m.h, m.v)
	switch p.Type() {
	case dbft.PrepareRequestType:
		m.desc = "PR " + head + " " + d.request(p, e, sender)
	case dbft.PrepareResponseType:
		m.desc = "PS " + head + " " + d.nm.p(p.GetPrepareResponse().PreparationHash())
	case dbft.CommitType:
		_, b := d.blockOfCommit(m.from, m.h, m.v, p.GetCommit().Signature())
		m.desc = "CM " + head + " " + b
	case dbft.ChangeViewType:
		cv := p.GetChangeView()
		m.desc = fmt.Sprintf("CV %s %d %d", head, cv.NewViewNumber(), byte(cv.Reason()))
	case dbft.RecoveryRequestType:
		m.desc = "RR " + head
	case dbft.RecoveryMessageType:
		rm := p.GetRecoveryMessage()
		var parts []string
		n := len(d.cl.pubs)
		pi := (int(m.h) - int(m.v)) % n
		if pi < 0 {
			pi += n
		}
		// the same accessors the receiving dBFT uses (dbft.go onRecoveryMessage)
		for _, cvp := range rm.GetChangeViews(p, pubs) {
			parts = append(parts, fmt.Sprintf("CV %d %d %d %d %d", cvp.ValidatorIndex(), cvp.Height(), cvp.ViewNumber(), cvp.GetChangeView().NewViewNumber(), byte(cvp.GetChangeView().Reason())))
		}
		if req := rm.GetPrepareRequest(p, pubs, uint16(pi)); req != nil {
			rp := req.(*consensus.Payload)
			parts = append(parts, fmt.Sprintf("PR %d %d %d %s", rp.ValidatorIndex(), rp.Height(), rp.ViewNumber(), d.nm.p(rp.Hash())))
		}
		// preparations: with the request on board the decoded message has no preparation hash
		// yet (consensus.go eventLoop fills it from the request before dBFT sees it), so the
		// compact preparation entries are read from the wire form here.
		prepHash := rm.PreparationHash()
		if req := rm.GetPrepareRequest(p, pubs, uint16(pi)); req != nil {
			hh := req.Hash()
			prepHash = &hh
		}
		if prepHash != nil {
			for _, vi := range prepIndices(e.Data, d.cl.sr) {
				if vi == pi {
					continue // the primary's compact entry stands for its request
				}
				parts = append(parts, fmt.Sprintf("PS %d %d %d %s", vi, m.h, m.v, d.nm.p(*prepHash)))
			}
		}
		for _, cm := range rm.GetCommits(p, pubs) {
			cv, b := d.blockOfCommit(int(cm.ValidatorIndex()), cm.Height(), cm.ViewNumber(), cm.GetCommit().Signature())
			parts = append(parts, fmt.Sprintf("CM %d %d %d %s", cm.ValidatorIndex(), cm.Height(), cv, b))
		}
		m.desc = fmt.Sprintf("RM %s %d", head, len(parts))
		if len(parts) > 0 {
			m.desc += " " + strings.Join(parts, " ")
		}
		// the compact wire content, for the machine model
		m.desc += " # " + d.rawRecString(e.Data, m.h, rm)
	default:
		m.desc = fmt.Sprintf("?? %s type=%d", head, p.Type())
	}
	return m, nil
}

// request registers a PrepareRequest and returns "pN bM".
func (d *decoder) request(p *consensus.Payload, e *npayload.Extensible, sender *node) string {
	data := e.Data
	req := p.GetPrepareRequest()
	ph := p.Hash()
	key := hvKey{p.Height(), p.ViewNumber()}
	for _, pr := range d.props[key] {
		if pr.hash == ph {
			if pr.hdr == nil {
				return d.nm.p(ph) + " b?"
			}
			return d.nm.p(ph) + " " + d.nm.b(pr.hdr.Hash())
		}
	}
	pr := &proposal{h: p.Height(), v: p.ViewNumber(), from: int(p.ValidatorIndex()), hash: ph, txs: req.TransactionHashes(), tstamp: req.Timestamp()}
	// message header is 7 bytes (type, index, validator, view), then version(4), prevHash(32)
	var prev util.Uint256
	if len(data) >= 7+4+32 {
		copy(prev[:], data[11:43])
		pr.ver = binary.LittleEndian.Uint32(data[7:11])
	}
	pr.prev = prev
	d.nm.p(ph)
	pr.num = d.nm.prop[ph]
	if d.cl.sr && len(data) >= 32 {
		copy(pr.sroot[:], data[len(data)-32:])
		if sender != nil && pr.h > 0 {
			if sr, err := sender.bc.GetStateRoot(pr.h - 1); err == nil {
				pr.srOK = sr.Root == pr.sroot
			}
		}
	}
	d.newProps = append(d.newProps, pr)
	d.relabelled(e, pr.num)
	if sender != nil {
		if hdr, err := d.header(sender, pr.h, pr.v, prev, req.Timestamp()/1000000, req.Nonce(), req.TransactionHashes()); err == nil {
			pr.hdr = hdr
		}
	}
	if len(d.props[key]) > 0 && !d.forging {
		d.doubleProposal = append(d.doubleProposal, fmt.Sprintf("height %d view %d: two different PrepareRequests (validators %d and %d)", pr.h, pr.v, d.props[key][0].from, pr.from))
	}
	d.props[key] = append(d.props[key], pr)
	if pr.hdr == nil {
		return d.nm.p(ph) + " b?"
	}
	return d.nm.p(ph) + " " + d.nm.b(pr.hdr.Hash())
}

// prepIndices reads the validator indices of the compact preparation entries of a
// RecoveryMessage from its wire form (recovery_message.go EncodeBinary).
func prepIndices(data []byte, sr bool) []int {
	r := io.NewBinReaderFromBuf(data)
	r.ReadB()     // type
	r.ReadU32LE() // block index
	r.ReadB()     // validator
	r.ReadB()     // view
	ncv := r.ReadVarUint()
	for i := uint64(0); i < ncv && r.Err == nil; i++ {
		r.ReadB()
		r.ReadB()
		r.ReadU64LE()
		r.ReadVarBytes(1024)
	}
	if r.ReadBool() {
		r.ReadB()
		r.ReadU32LE()
		r.ReadB()
		r.ReadB()
		r.ReadU32LE() // version
		var h util.Uint256
		r.ReadBytes(h[:])
		r.ReadU64LE()
		r.ReadU64LE()
		n := r.ReadVarUint()
		for i := uint64(0); i < n && r.Err == nil; i++ {
			r.ReadBytes(h[:])
		}
		if sr {
			r.ReadBytes(h[:])
		}
	} else {
		l := r.ReadVarUint()
		if l == 32 {
			var h util.Uint256
			r.ReadBytes(h[:])
		}
	}
	np := r.ReadVarUint()
	var res []int
	for i := uint64(0); i < np && r.Err == nil; i++ {
		res = append(res, int(r.ReadB()))
		r.ReadVarBytes(1024)
	}
	if r.Err != nil {
		return nil
	}
	return res
}

var _ = keys.PublicKeys{}

// rawRecString renders the compact content of a RecoveryMessage:
// ncv (validator origView)* R<pN|-> H<pN|-> np idx* ncm (view validator bN)*
func (d *decoder) rawRecString(data []byte, h uint32, rm dbft.RecoveryMessage[util.Uint256]) string {
	rr := parseRec(data, d.cl.sr)
	if rr == nil {
		return "?"
	}
	var w []string
	w = append(w, fmt.Sprint(len(rr.cvs)))
	for _, c := range rr.cvs {
		w = append(w, fmt.Sprint(c[0]), fmt.Sprint(c[1]))
	}
	req := "R-"
	if rr.hasReq {
		// the carried request, re-addressed to the primary of the message's (height, view) the way
		// recovery_message.go GetPrepareRequest does it: its payload hash names the proposal
		if hh := d.reqHashOf(data, rr); hh != nil {
			req = "R" + d.nm.p(*hh)
		} else {
			req = "R?"
		}
	}
	w = append(w, req)
	if rr.ph != nil {
		w = append(w, "H"+d.nm.p(*rr.ph))
	} else {
		w = append(w, "H-")
	}
	w = append(w, fmt.Sprint(len(rr.preps)))
	for _, i := range rr.preps {
		w = append(w, fmt.Sprint(i))
	}
	w = append(w, fmt.Sprint(len(rr.commits)))
	for _, c := range rr.commits {
		_, b := d.blockOfCommit(c.vi, h, byte(c.view), c.sig)
		w = append(w, fmt.Sprint(c.view), fmt.Sprint(c.vi), b)
	}
	return strings.Join(w, " ")
}

// reqHashOf computes the payload hash of the request a recovery message carries, addressed to the
// primary of the message's height and view.
func (d *decoder) reqHashOf(data []byte, rr *rawRec) *util.Uint256 {
	if len(data) < 7 || rr.reqRaw == nil {
		return nil
	}
	h := binary.LittleEndian.Uint32(data[1:5])
	v := data[6]
	n := len(d.cl.pubs)
	pi := (int(h) - int(v)) % n
	if pi < 0 {
		pi += n
	}
	body := []byte{0x20, data[1], data[2], data[3], data[4], byte(pi), v}
	body = append(body, rr.reqRaw...)
	x := &npayload.Extensible{
		Category:      npayload.ConsensusCategory,
		ValidBlockEnd: h,
		Sender:        d.cl.pubs[pi].GetScriptHash(),
		Data:          body,
	}
	hh := x.Hash()
	return &hh
}
