package main

// sched.go: one case = one cluster + one schedule. The scheduler owns the network (in-flight
// copies of every broadcast payload), the clock and the mempools; it draws every decision from
// the case PRNG. Every event and everything a node does in reaction is one trace line; the
// property's oracles run on the real ledgers/services as the run proceeds.

import (
	"errors"
	"fmt"
	"slices"
	"sort"
	"strings"
	"time"

	"github.com/nspcc-dev/dbft"
	"github.com/nspcc-dev/neo-go/pkg/core"
	"github.com/nspcc-dev/neo-go/pkg/core/block"
	"github.com/nspcc-dev/neo-go/pkg/core/fee"
	"github.com/nspcc-dev/neo-go/pkg/core/mempool"
	"github.com/nspcc-dev/neo-go/pkg/core/transaction"
	"github.com/nspcc-dev/neo-go/pkg/crypto/hash"
	"github.com/nspcc-dev/neo-go/pkg/io"
	"github.com/nspcc-dev/neo-go/pkg/network/extpool"
	npayload "github.com/nspcc-dev/neo-go/pkg/network/payload"
	"github.com/nspcc-dev/neo-go/pkg/smartcontract"
	"github.com/nspcc-dev/neo-go/pkg/util"
	"github.com/nspcc-dev/neo-go/pkg/vm/emit"
	"github.com/nspcc-dev/neo-go/pkg/vm/opcode"

	"verif/harness/internal/hx"
	"verif/harness/internal/prng"
)

type flight struct {
	m  *msg
	to int
}

type profile struct {
	name                                                string
	wDeliver, wDrop, wDup, wTimer, wSilence, wTx, wGive int
	wRelay                                              int
	steps                                               int
	fairBlocks                                          int
}

type run struct {
	o   *hx.Out
	k   int
	r   *prng.R
	cl  *cluster
	dec *decoder
	pf  profile

	net       []flight
	silent    map[int]bool
	txs       map[util.Uint256]*transaction.Transaction
	txOrder   []util.Uint256
	txNonce   uint32
	committed map[uint32]*block.Block // first block any validator's consensus produced per height
	maxTx     int
	machinery error
	failed    map[string]int
	aborted   bool // an oracle failure that makes the rest of the case meaningless
	fails     int
	events    int
	maxView   byte
	snap      *fairSnapshot
	commitAt  map[uint32]map[int]byte // height -> validator -> view in which it sent its Commit
	hadAsync  bool                    // the case had an adversarial prefix
	tight     bool                    // small MaxBlockSystemFee / MaxBlockSize: pools exceed a block
	tn        *txNames
	quiet     bool // scripted case: the fair phase injects no transactions of its own
	forged    bool // the payload being delivered was crafted by the harness (trace op `forge`)
	probeNonce int
	emits     map[string]int // "<node>/<type>" -> payloads broadcast so far
}

func (r *run) fail(key, format string, a ...any) {
	r.fails++
	if r.failed == nil {
		r.failed = map[string]int{}
	}
	r.failed[key]++
	if r.failed[key] > 1 { // one line per shape and case
		return
	}
	r.o.Fail(key, r.k, format, a...)
}

func (r *run) ok() bool { return r.machinery == nil && !r.aborted }

func (r *run) line(op string) { r.o.Line(op, "ok") }

// ---------------------------------------------------------------- observing a node's reaction

// settle waits for node nd, then turns everything it did into trace lines and new in-flight
// messages, and runs the per-event oracles.
func (r *run) settle(nd *node) {
	if err := nd.sync(); err != nil {
		if errors.Is(err, errNoReset) {
			if !r.aborted {
				r.fail("no-reset", "node %d: %v", nd.idx, err)
			}
			r.aborted = true
			return
		}
		if r.ok() {
			r.machinery = fmt.Errorf("node %d: %w", nd.idx, err)
		}
		return
	}
	acts, errs, hints := nd.collect()
	for _, e := range errs {
		// an Error/Fatal-level log line of the service itself
		r.o.Count("service-error-log")
		r.fail("service-error", "node %d logged %s", nd.idx, e)
	}
	// decode what was broadcast first: a proposal made in this event must be known to the model
	// (its hash contains a random nonce) before the model computes the node's reaction
	msgs := make([]*msg, len(acts))
	fresh := 0
	for i, a := range acts {
		if a.kind != 'E' {
			continue
		}
		m, err := r.dec.decode(a.ext, nd)
		if err != nil {
			r.fail("emit-undecodable", "node %d broadcast a payload its own decoder rejects: %v", nd.idx, err)
			continue
		}
		msgs[i] = m
		if m.typ == dbft.PrepareRequestType {
			fresh = r.dec.nm.prop[m.hash]
		}
	}
	for _, pr := range r.dec.newProps {
		sroot := 0
		if r.cl.sr {
			sroot = 999998
			if pr.srOK {
				sroot = r.dec.propOfBlock(pr.prev)
			}
		}
		txs := ""
		for _, h := range pr.txs {
			txs += " " + r.tn.name(h)
		}
		r.line(fmt.Sprintf("prop %d %d %d %d %d %d %d %d %d%s", pr.num, pr.h, pr.v, pr.from, pr.tstamp/1000000,
			r.dec.propOfBlock(pr.prev), sroot, pr.ver, len(pr.txs), txs))
	}
	r.dec.newProps = nil
	hs := ""
	for _, h := range hints {
		hs += fmt.Sprintf(" %d", h)
	}
	r.line(fmt.Sprintf("hint %d %d %d %d%s", nd.idx, nd.evNow, fresh, len(hints), hs))
	if len(hints) > 1 {
		r.o.Count("event:nested-onreceive")
	}
	for i, a := range acts {
		switch a.kind {
		case 'E':
			m := msgs[i]
			if m == nil {
				continue
			}
			if m.from != nd.idx {
				r.fail("emit-wrong-index", "node %d broadcast a payload with validator index %d", nd.idx, m.from)
			}
			r.line(fmt.Sprintf("emit %d %s", nd.idx, m.desc))
			r.o.Count("emit:" + m.desc[:2])
			if r.emits == nil {
				r.emits = map[string]int{}
			}
			r.emits[fmt.Sprintf("%d/%s", nd.idx, m.desc[:2])]++
			if m.v > r.maxView {
				r.maxView = m.v
			}
			if m.desc[:2] == "CM" {
				if r.commitAt[m.h] == nil {
					r.commitAt[m.h] = map[int]byte{}
				}
				r.commitAt[m.h][nd.idx] = m.v
			}
			for j := range r.cl.nodes {
				if j != nd.idx {
					r.net = append(r.net, flight{m, j})
				}
			}
		case 'P':
			r.onPut(nd, a.put)
		case 'V':
			r.line(fmt.Sprintf("view %d %d %d %d", nd.idx, a.hv.h, a.hv.v, int64(a.dur)))
		case 'X':
			r.line(fmt.Sprintf("ext %d %d", nd.idx, int64(a.dur)))
		case 'Q':
			r.line(fmt.Sprintf("rtx %d %s", nd.idx, r.tn.list(a.req)))
		case 'S':
			r.line(fmt.Sprintf("stx %d", nd.idx))
		}
	}
	for _, s := range r.dec.doubleProposal {
		r.fail("double-proposal", "%s", s)
	}
	r.dec.doubleProposal = nil
	_, th, tv, _ := nd.tm.state()
	r.o.Line(fmt.Sprintf("st %d", nd.idx), fmt.Sprintf("%d %d", th, tv))
	// the machine model's state against the real dBFT context
	r.o.Line(fmt.Sprintf("obs %d", nd.idx), r.observe(nd))
}

// onPut handles a block the node's consensus collected and handed to its ledger.
func (r *run) onPut(nd *node, p putResult) {
	b := p.b
	name := r.dec.nm.b(b.Hash())
	first, seen := r.committed[b.Index]
	rejected := p.err != nil && !errors.Is(p.err, core.ErrAlreadyExists)
	if !seen {
		if !rejected { // a block the node's own ledger turned down is not relayed to the others
			r.committed[b.Index] = b
		}
	} else if first.Hash() != b.Hash() {
		r.fail("fork", "height %d: validators committed different blocks %s and %s", b.Index, first.Hash().StringLE(), b.Hash().StringLE())
	}
	switch {
	case p.err == nil:
		r.line(fmt.Sprintf("accept %d %d %s ok", nd.idx, b.Index, name))
	case errors.Is(p.err, core.ErrAlreadyExists):
		// the ledger already has a block at this height (it arrived by relay first)
		if nd.bc.GetHeaderHash(b.Index) != b.Hash() {
			r.fail("fork", "height %d: node %d committed %s but its ledger holds %s", b.Index, nd.idx, b.Hash().StringLE(), nd.bc.GetHeaderHash(b.Index).StringLE())
		}
		r.line(fmt.Sprintf("accept %d %d %s dup", nd.idx, b.Index, name))
	default:
		key := "commit-rejected"
		if j, jv, ok := r.relabelledSigner(nd, b); ok {
			key = "relabelled-commit-witness"
			r.fail(key, "height %d view %d: node %d's consensus assembled block %s with validator %d's Commit signature, which signs the header of view %d (validator %d is frozen there); the Commit reached node %d inside a RecoveryMessage of view %d, was re-labelled with that view (recovery_message.go GetCommits ignores commitCompact.ViewNumber) and was never checked against the header (dbft.go:355-357: stored commits are checked before the PrepareRequest is stored); the node's own ledger rejects the block: %v",
				b.Index, viewOf(b, r.cl.n), nd.idx, b.Hash().StringLE(), j, jv, j, nd.idx, viewOf(b, r.cl.n), p.err)
		} else {
			r.fail(key, "height %d: node %d's own ledger rejected the block its consensus committed: %v", b.Index, nd.idx, p.err)
		}
		r.line(fmt.Sprintf("accept %d %d %s rej", nd.idx, b.Index, name))
	}
	r.o.Count("block-committed")
}

// ---------------------------------------------------------------- events

// deliver hands in-flight message i to its destination the way network.Server does:
// wire decoding, the extensible pool's checks (witness, validity window, sender), OnPayload.
func (r *run) deliver(i int, remove bool, bypassPool bool) {
	fl := r.net[i]
	if remove {
		r.net = append(r.net[:i], r.net[i+1:]...)
	}
	nd := r.cl.nodes[fl.to]
	e, err := unwire(fl.m.raw)
	if err != nil {
		r.fail("wire-roundtrip", "payload %s does not survive its wire form: %v", fl.m.desc, err)
		return
	}
	if !bypassPool {
		ok, err := nd.pool.Add(e)
		if err != nil {
			if errors.Is(err, extpool.ErrInvalidHeight) {
				r.o.Count("deliver:stale-height")
				return
			}
			r.fail("payload-rejected", "node %d's extensible pool rejects an honestly produced payload %s: %v", nd.idx, fl.m.desc, err)
			return
		}
		if !ok {
			r.o.Count("deliver:pool-dup-or-stale")
			return
		}
	}
	r.pre(nd)
	op := "deliver"
	if r.forged {
		op = "forge"
	}
	r.line(fmt.Sprintf("%s %d %s", op, nd.idx, fl.m.desc))
	r.o.Count("deliver:" + fl.m.desc[:2])
	if err := nd.srv.OnPayload(e); err != nil {
		r.fail("onpayload-error", "node %d OnPayload(%s): %v", nd.idx, fl.m.desc, err)
	}
	r.settle(nd)
	r.events++
}

// corrupted offers the destination a copy of an in-flight payload with one byte flipped. Every byte
// of an Extensible is covered either by the sender's signature or by the sender hash, so the
// node's front door (wire decoding + extensible pool, as in network.Server.handleExtensibleCmd)
// must turn it away; the service never sees it and the trace has no line for it.
func (r *run) corrupted(fl flight) {
	raw := append([]byte(nil), fl.m.raw...)
	i := r.r.Intn(len(raw))
	raw[i] ^= byte(1 << uint(r.r.Intn(8)))
	e, err := unwire(raw)
	if err != nil {
		r.o.Count("corrupt:undecodable")
		return
	}
	nd := r.cl.nodes[fl.to]
	ok, err := hxSafePool(nd, e)
	switch {
	case err != nil:
		r.o.Count("corrupt:rejected")
	case !ok:
		r.o.Count("corrupt:stale-or-known")
	default:
		if e.Hash() == fl.m.hash && string(wire(e)) == string(fl.m.raw) {
			r.o.Count("corrupt:no-op")
			return
		}
		r.fail("forged-payload-accepted", "node %d's extensible pool accepted %s with byte %d of its wire form changed", nd.idx, fl.m.desc, i)
	}
}

func hxSafePool(nd *node, e *npayload.Extensible) (ok bool, err error) {
	defer func() {
		if p := recover(); p != nil {
			err = fmt.Errorf("panic: %v", p)
		}
	}()
	return nd.pool.Add(e)
}

func (r *run) fireTimer(nd *node) {
	_, h, v, _ := nd.tm.state()
	if !nd.tm.fire() {
		return
	}
	r.pre(nd) // after fire(): the clock has moved to the deadline
	r.line(fmt.Sprintf("timeout %d %d %d", nd.idx, h, v))
	r.o.Count("timeout")
	r.settle(nd)
	r.events++
}

// relay feeds node nd the next committed block it lacks (what block sync does).
func (r *run) relay(nd *node) bool {
	h := nd.bc.BlockHeight() + 1
	b, ok := r.committed[h]
	if !ok {
		return false
	}
	// the ledger gets its own copy, as it would from the wire
	bw := io.NewBufBinWriter()
	b.EncodeBinary(bw.BinWriter)
	nb := block.New(r.cl.sr)
	br := io.NewBinReaderFromBuf(bw.Bytes())
	nb.DecodeBinary(br)
	if br.Err != nil {
		r.fail("block-wire", "committed block %d does not survive its wire form: %v", h, br.Err)
		return false
	}
	r.pre(nd)
	err := nd.bc.AddBlock(nb)
	if err != nil {
		r.fail("relay-rejected", "height %d: node %d's ledger rejects a block committed by a validator: %v", h, nd.idx, err)
		return false
	}
	r.line(fmt.Sprintf("block %d %d %s", nd.idx, h, r.dec.nm.b(b.Hash())))
	r.o.Count("relay")
	r.settle(nd)
	r.events++
	return true
}

// ---------------------------------------------------------------- transactions

func (r *run) newTx(vub uint32, conflicts *util.Uint256) *transaction.Transaction {
	cl := r.cl
	pubs := cl.pubs.Copy()
	sort.Sort(pubs)
	m := smartcontract.GetDefaultHonestNodeCount(len(pubs))
	script, err := smartcontract.CreateMultiSigRedeemScript(m, pubs)
	if err != nil {
		panic(err)
	}
	bc := cl.nodes[0].bc
	r.txNonce++
	tx := transaction.New([]byte{byte(opcode.PUSH1)}, 100000+int64(r.r.Intn(5))*10000)
	tx.Nonce = r.txNonce
	tx.ValidUntilBlock = vub
	tx.Signers = []transaction.Signer{{Account: hash.Hash160(script), Scopes: transaction.CalledByEntry}}
	if conflicts != nil {
		tx.Attributes = append(tx.Attributes, transaction.Attribute{Type: transaction.ConflictsT, Value: &transaction.Conflicts{Hash: *conflicts}})
	}
	size := io.GetVarSize(tx)
	netFee, sizeDelta := fee.Calculate(bc.GetBaseExecFee(), script)
	size += sizeDelta
	tx.NetworkFee = netFee + int64(size)*bc.FeePerByte() + bc.CalculateAttributesFee(tx) + int64(r.r.Intn(7))*1000
	if conflicts != nil {
		tx.NetworkFee += 50000 // outbids whatever it names
	}
	buf := io.NewBufBinWriter()
	cnt := 0
	for _, pub := range pubs {
		if cnt == m {
			break
		}
		for _, nd := range cl.nodes {
			if nd.priv.PublicKey().Equal(pub) {
				emit.Bytes(buf.BinWriter, nd.priv.SignHashable(magic, tx))
				cnt++
			}
		}
	}
	tx.Scripts = []transaction.Witness{{InvocationScript: buf.Bytes(), VerificationScript: script}}
	return tx
}

// injectTx makes a new transaction and puts it into the mempools of the given nodes.
func (r *run) injectTx(to []int) {
	var conf *util.Uint256
	if len(r.txOrder) > 0 && r.r.Chance(1, 8) {
		h := r.txOrder[r.r.Intn(len(r.txOrder))]
		conf = &h
		r.o.Count("tx:conflicting")
	}
	r.injectTxTo(to, conf)
}

func (r *run) countEmits(i int, typ string) int { return r.emits[fmt.Sprintf("%d/%s", i, typ)] }

// injectTxTo makes a new transaction (naming `conf` in a Conflicts attribute, if given, and then paying
// more than any other generated transaction) and pools it on the given nodes.
func (r *run) injectTxTo(to []int, conf *util.Uint256) util.Uint256 {
	maxH := uint32(0)
	for _, nd := range r.cl.nodes {
		if h := nd.bc.BlockHeight(); h > maxH {
			maxH = h
		}
	}
	tx := r.newTx(maxH+20+uint32(r.r.Intn(5)), conf)
	r.txs[tx.Hash()] = tx
	r.txOrder = append(r.txOrder, tx.Hash())
	r.tn.n[tx.Hash()] = len(r.tn.n) + 1
	r.line(fmt.Sprintf("txinfo %s %d %d", r.tn.name(tx.Hash()), tx.SystemFee, tx.Size()))
	for _, j := range to {
		err := r.cl.nodes[j].bc.PoolTx(tx)
		if err != nil {
			r.o.Count("tx:pool-refused")
		} else {
			r.o.Count("tx:pooled")
		}
	}
	return tx.Hash()
}

// giveTx serves one transaction the node's service asked for (Config.RequestTx), the way
// network.Server.txHandlerLoop does: consensus callback first, then the mempool.
// poolable tells whether the node's ledger would still take the transaction into a fresh pool.
func (r *run) poolable(nd *node, tx *transaction.Transaction) bool {
	return nd.bc.PoolTx(tx, mempool.New(1, false, nil)) == nil
}

func (r *run) giveTx(nd *node, once bool) bool {
	nd.mu.Lock()
	req := append([]util.Uint256(nil), nd.requested...)
	nd.mu.Unlock()
	if len(req) == 0 {
		return false
	}
	h := req[r.r.Intn(len(req))]
	if once {
		h = req[0]
		nd.mu.Lock()
		nd.requested = slices.DeleteFunc(nd.requested, func(x util.Uint256) bool { return x == h })
		nd.mu.Unlock()
	}
	tx, ok := r.txs[h]
	if !ok {
		return false
	}
	// each node decodes its own copy from the wire
	cp, err := transaction.NewTransactionFromBytes(tx.Bytes())
	if err != nil {
		r.fail("tx-wire", "tx does not survive its wire form: %v", err)
		return false
	}
	r.pre(nd)
	r.line(fmt.Sprintf("tx %d %s", nd.idx, r.tn.name(h)))
	r.o.Count("tx:given")
	// a remote peer answers the server's getdata: P2P `tx` message -> handleTxCmd -> txIn ->
	// txHandlerLoop (consensus callback if the hash is on the server's wish list, then the pool)
	if err := nd.peer.sendTx(cp); err != nil {
		if r.machinery == nil {
			r.machinery = err
		}
		return false
	}
	// the server's tx handler runs on its own goroutines: wait until the message has been taken
	// (ping/pong behind it) and the handler is through with it (consensus callback, pool)
	if err := nd.peer.roundTrip(); err != nil {
		if r.machinery == nil {
			r.machinery = err
		}
		return false
	}
	for i := 0; ; i++ {
		n := txInFlight(nd.server)
		if n == 0 {
			break
		}
		if n < 0 { // layout changed: settle for the pool/ledger having it, or a pause
			if nd.bc.GetMemPool().ContainsKey(h) || i > 40 {
				break
			}
			if _, _, err := nd.bc.GetTransaction(h); err == nil {
				break
			}
		}
		if i > 100000 {
			r.machinery = errors.New("the server's transaction handler does not finish")
			return false
		}
		time.Sleep(200 * time.Microsecond)
	}
	// the request list shrinks as the server's would not; keep it, dBFT ignores repeats
	r.settle(nd)
	r.events++
	return true
}

// ---------------------------------------------------------------- phases

func (r *run) deliverable() []int {
	// payloads for heights the destination's ledger has already decided are dead letters (the
	// extensible pool turns them away): forget them instead of spending scheduler steps on them
	live := r.net[:0]
	for _, fl := range r.net {
		if fl.m.h <= r.cl.nodes[fl.to].bc.BlockHeight() {
			r.o.Count("deliver:dead-letter")
			continue
		}
		live = append(live, fl)
	}
	r.net = live
	var idx []int
	for i, fl := range r.net {
		if r.silent[fl.to] || r.silent[fl.m.from] {
			continue
		}
		idx = append(idx, i)
	}
	return idx
}

func (r *run) adversarial() {
	pf := r.pf
	w := []int{pf.wDeliver, pf.wDrop, pf.wDup, pf.wTimer, pf.wSilence, pf.wTx, pf.wGive, pf.wRelay, 2}
	for step := 0; step < pf.steps && r.ok(); step++ {
		switch r.r.Weighted(w) {
		case 0:
			if d := r.deliverable(); len(d) > 0 {
				// mostly oldest-first with jitter, sometimes anything
				var i int
				if r.r.Chance(2, 3) {
					i = d[r.r.Intn(min(len(d), 4))]
				} else {
					i = d[r.r.Intn(len(d))]
				}
				r.deliver(i, true, false)
			}
		case 1:
			if len(r.net) > 0 {
				i := r.r.Intn(len(r.net))
				r.net = append(r.net[:i], r.net[i+1:]...)
				r.o.Count("drop")
			}
		case 2:
			if d := r.deliverable(); len(d) > 0 {
				r.o.Count("duplicate")
				// the copy stays in flight; half of the duplicates skip the pool's de-duplication
				// (a payload evicted from the pool is handed to the service again)
				r.deliver(d[r.r.Intn(len(d))], false, r.r.Bool())
			}
		case 3:
			var armed []*node
			for _, nd := range r.cl.nodes {
				if a, _, _, _ := nd.tm.state(); a && !r.silent[nd.idx] {
					armed = append(armed, nd)
				}
			}
			if len(armed) > 0 {
				r.fireTimer(armed[r.r.Intn(len(armed))])
			}
		case 4:
			if len(r.silent) < r.cl.f() && r.r.Bool() {
				j := r.r.Intn(r.cl.n)
				r.silent[j] = true
				r.o.Count("silence")
			} else if len(r.silent) > 0 {
				lowest := -1 // not the map's iteration order: schedules must be reproducible
				for j := range r.silent {
					if lowest < 0 || j < lowest {
						lowest = j
					}
				}
				delete(r.silent, lowest)
			}
		case 5:
			var to []int
			for j := range r.cl.nodes {
				if r.r.Chance(2, 3) {
					to = append(to, j)
				}
			}
			r.injectTx(to)
		case 6:
			nd := r.cl.nodes[r.r.Intn(r.cl.n)]
			if !r.silent[nd.idx] {
				r.giveTx(nd, false)
			}
		case 7:
			nd := r.cl.nodes[r.r.Intn(r.cl.n)]
			r.relay(nd)
		case 8:
			if len(r.net) > 0 {
				r.corrupted(r.net[r.r.Intn(len(r.net))])
			}
		}
	}
}

func (r *run) heights() (lo, hi uint32) {
	lo = ^uint32(0)
	for _, nd := range r.cl.nodes {
		h := nd.bc.BlockHeight()
		lo, hi = min(lo, h), max(hi, h)
	}
	return
}

// fair is the synchronous schedule: nobody is silent, every message is delivered (oldest
// first), requested transactions and missing blocks are served, and only when nothing is left
// to deliver does the earliest timer fire. Blocks must keep coming.
func (r *run) fair(blocks int) {
	r.silent = map[int]bool{}
	budgetPerBlock := 100 * r.cl.n
	_, start := r.heights()
	target := start + uint32(blocks)
	fires, total := 0, 0
	lastHi := start
	r.snap = nil
	first := true
	for r.ok() {
		// deliver until quiet
		for guard := 0; r.ok(); guard++ {
			progressed := false
			if len(r.net) > 0 {
				r.deliver(0, true, false)
				progressed = true
			}
			for _, nd := range r.cl.nodes {
				for r.giveTx(nd, true) {
					progressed = true
				}
				for r.relay(nd) {
					progressed = true
				}
			}
			if !progressed {
				break
			}
			if guard > 200000 {
				r.machinery = errors.New("fair phase: message storm does not end")
				return
			}
		}
		lo, hi := r.heights()
		if hi > lastHi || (first && !r.hadAsync) {
			r.checkFairBlocks(lastHi, hi)
			lastHi = hi
			fires, total = 0, 0
			// new pending transactions, the same or different ones on different validators; with
			// tight limits enough of them to exceed a block
			// sometimes a burst that (almost) only the next primary holds: its proposal then carries
			// several transactions the backups have to fetch one after another
			if lo == hi && !r.quiet && r.r.Chance(1, 3) {
				pi := int(hi+1) % r.cl.n
				for i := 2 + r.r.Intn(2); i > 0; i-- {
					to := []int{pi}
					for j := range r.cl.nodes {
						if j != pi && r.r.Chance(1, 4) {
							to = append(to, j)
						}
					}
					r.injectTx(to)
				}
				r.o.Count("fair:primary-only-burst")
			}
			for i := r.r.Intn(3) + 2*b2i(r.tight); i > 0 && lo == hi && !r.quiet; i-- {
				var to []int
				all := r.r.Chance(2, 3)
				for j := range r.cl.nodes {
					if all || r.r.Chance(3, 4) {
						to = append(to, j)
					}
				}
				r.injectTx(to)
			}
			r.snapshot()
		}
		first = false
		if lo >= target {
			return
		}
		if hi >= target+20 {
			r.fail("lagging-node", "fair schedule: the chain is at height %d but a validator is still at %d although every committed block is relayed to it", hi, lo)
			return
		}
		// the known lock is permanent once its shape is reached: report it without burning the budget
		if r.hadAsync && r.stallKey(hi+1) == "dbft20-liveness-lock" {
			var st []string
			for _, nd := range r.cl.nodes {
				_, th, tv, _ := nd.tm.state()
				c := ""
				if cv, ok := r.commitAt[th][nd.idx]; ok {
					c = fmt.Sprintf(",committed@v%d", cv)
				}
				st = append(st, fmt.Sprintf("n%d:h%d/v%d%s", nd.idx, th, tv, c))
			}
			r.fail("dbft20-liveness-lock", "fair schedule after an asynchronous prefix: no view can gather M validators any more at height %d (%s)", hi+1, strings.Join(st, " "))
			return
		}
		// earliest deadline
		var best *node
		var bd int64
		for _, nd := range r.cl.nodes {
			armed, _, _, d := nd.tm.state()
			if armed && (best == nil || d < bd) {
				best, bd = nd, d
			}
		}
		if best == nil {
			r.fail("stall", "fair schedule: no block after height %d, no message in flight and no timer armed", hi)
			return
		}
		if fires >= budgetPerBlock {
			var st []string
			for _, nd := range r.cl.nodes {
				_, th, tv, _ := nd.tm.state()
				st = append(st, fmt.Sprintf("n%d:h%d/v%d", nd.idx, th, tv))
			}
			r.fail(r.stallKey(hi+1), "fair schedule: no new block after height %d within %d timeouts (%s)", hi, fires, strings.Join(st, " "))
			return
		}
		// A validator that has sent its Commit only re-sends it on timeout, every 2*timePerBlock,
		// while the others wait timePerBlock<<(view+1): only the timeouts of validators that can
		// still change view count against the budget.
		_, bh, _, _ := best.tm.state()
		_, frozen := r.commitAt[bh][best.idx]
		r.fireTimer(best)
		if !frozen {
			fires++
		}
		total++
		if total > 3000 {
			// committed validators re-send every 2*timePerBlock while the others wait
			// timePerBlock<<(view+1): at high views the budget above is not reached in reasonable
			// time. No verdict on liveness for this case (counted, not a failure).
			r.o.Count("fair:inconclusive")
			return
		}
		r.o.Count("fair:timer")
	}
}

// stallKey classifies a stall of the synchronous suffix at height h. dBFT 2.0 has a known liveness
// lock (nspcc-dev/dbft formal-models/README.md, neo-project/neo-modules#792): validators that sent
// their Commit are frozen in their view, the others have moved to higher views, and no view can
// gather M participants any more. That shape, reached through an asynchronous prefix, gets its own
// key; every other stall (in particular any stall of a run that was synchronous from the start) is
// "stall".
func (r *run) stallKey(h uint32) string {
	if !r.hadAsync {
		return "stall"
	}
	m := r.cl.m()
	committed := r.commitAt[h]
	views := map[int]byte{} // current view of the uncommitted validators
	maxV := byte(0)
	for _, nd := range r.cl.nodes {
		_, th, tv, _ := nd.tm.state()
		if th != h {
			return "stall"
		}
		if _, ok := committed[nd.idx]; !ok {
			views[nd.idx] = tv
		}
		if tv > maxV {
			maxV = tv
		}
	}
	if len(committed) == 0 {
		return "stall"
	}
	for v := 0; v <= int(maxV)+1; v++ {
		cnt := 0
		for _, cv := range committed {
			if int(cv) == v {
				cnt++
			}
		}
		for _, uv := range views {
			if int(uv) <= v {
				cnt++
			}
		}
		if cnt >= m {
			return "stall"
		}
	}
	return "dbft20-liveness-lock"
}

// fairSnapshot is taken when the fair phase finds every node on the same height with nothing
// in flight: the transactions every validator holds must be carried by the next block.
type fairSnapshot struct {
	h      uint32
	common []util.Uint256
	pools  [][]util.Uint256
}

func (r *run) snapshot() {
	lo, hi := r.heights()
	if lo != hi {
		r.snap = nil
		return
	}
	s := &fairSnapshot{h: hi}
	cnt := map[util.Uint256]int{}
	for _, nd := range r.cl.nodes {
		var hs []util.Uint256
		for _, tx := range nd.bc.GetMemPool().GetVerifiedTransactions() {
			hs = append(hs, tx.Hash())
			cnt[tx.Hash()]++
		}
		s.pools = append(s.pools, hs)
	}
	for h, c := range cnt {
		if c == r.cl.n {
			s.common = append(s.common, h)
		}
	}
	r.snap = s
}

// checkFairBlocks runs after the fair phase produced blocks (from, to].
func (r *run) checkFairBlocks(from, to uint32) {
	for h := from + 1; h <= to; h++ {
		b, ok := r.committed[h]
		if !ok {
			continue
		}
		r.o.Count(fmt.Sprintf("fair:block-at-view-%d", min(int(viewOf(b, r.cl.n)), 3)))
		if !r.hadAsync && viewOf(b, r.cl.n) != 0 {
			r.fail("sync-view-change", "synchronous run from the start: block %d was decided in view %d, not 0", h, viewOf(b, r.cl.n))
		}
		if r.snap != nil && r.snap.h+1 == h && viewOf(b, r.cl.n) == 0 {
			in := map[util.Uint256]bool{}
			for _, tx := range b.Transactions {
				in[tx.Hash()] = true
			}
			pi := int(b.PrimaryIndex)
			pool := r.snap.pools[pi] // what the primary held, in proposal (priority) order
			k := len(b.Transactions)
			cfg := r.cl.nodes[pi].bc.GetConfig()
			// the block carries the first k pending transactions of its proposer ...
			prefix := k <= len(pool)
			for i := 0; prefix && i < k; i++ {
				prefix = b.Transactions[i].Hash() == pool[i]
			}
			if !prefix {
				r.fail("tx-missing", "fair schedule: block %d (%d transactions) is not the head of the %d transactions its proposer had pending", h, k, len(pool))
			} else if k < len(pool) && k < r.maxTx {
				// ... and stops only at a limit: one more would not fit
				next := r.txs[pool[k]]
				fee, size := next.SystemFee, b.GetExpectedBlockSizeWithoutTransactions(k+1)+next.Size()
				for _, tx := range b.Transactions {
					fee += tx.SystemFee
					size += tx.Size()
				}
				if fee <= cfg.MaxBlockSystemFee && size <= int(cfg.MaxBlockSize) {
					r.fail("tx-missing", "fair schedule: block %d carries %d of the %d transactions its proposer had pending although one more fits (system fee %d <= %d, size %d <= %d, count < %d)", h, k, len(pool), fee, cfg.MaxBlockSystemFee, size, cfg.MaxBlockSize, r.maxTx)
				}
				r.o.Count("fair:block-cut-at-limit")
			}
			_ = in
			r.o.Count("fair:tx-checked")
		}
	}
}

func viewOf(b *block.Block, n int) byte {
	// primary = (index - view) mod n
	v := (int(b.Index) - int(b.PrimaryIndex)) % n
	if v < 0 {
		v += n
	}
	return byte(v)
}

// final: every committed block must be accepted by every ledger, and all ledgers must agree.
func (r *run) final() {
	for _, nd := range r.cl.nodes {
		for r.ok() && r.relay(nd) {
		}
	}
	_, hi := r.heights()
	for h := uint32(1); h <= hi; h++ {
		var ref util.Uint256
		var have bool
		for _, nd := range r.cl.nodes {
			if nd.bc.BlockHeight() < h {
				continue
			}
			hh := nd.bc.GetHeaderHash(h)
			if !have {
				ref, have = hh, true
			} else if hh != ref {
				r.fail("fork", "height %d: ledgers hold different blocks %s and %s", h, ref.StringLE(), hh.StringLE())
			}
		}
	}
}

// relabelledSigner tells whether the node's dBFT context holds, labelled with the block's view, the Commit
// of a validator that really sent its Commit in another view of this height.
func (r *run) relabelledSigner(nd *node, b *block.Block) (int, byte, bool) {
	db := dbftOf(nd.srv)
	if db == nil {
		return 0, 0, false
	}
	v := viewOf(b, r.cl.n)
	for j, cp := range db.Context.CommitPayloads {
		if cp == nil || cp.ViewNumber() != v {
			continue
		}
		if jv, ok := r.commitAt[b.Index][j]; ok && jv != v {
			return j, jv, true
		}
	}
	return 0, 0, false
}
