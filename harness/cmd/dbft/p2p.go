package main

// p2p.go: the transaction-request path runs through the REAL network.Server of every node.
// dBFT's RequestTx / StopTxFlow callbacks are the server's own methods (as in cli/server
// mkConsensus), the consensus service is registered with AddConsensusService, and a requested
// transaction reaches the node as a P2P `tx` message over a loopback TCP connection from a
// harness-owned peer: handleMessage -> handleTxCmd -> txIn -> txHandlerLoop -> consensus callback
// -> verifyAndPoolTX. The harness peer also sees the `getdata` the server broadcasts for the
// missing transactions. Consensus payloads and blocks keep their harness-owned routes.

import (
	"errors"
	"fmt"
	"net"
	"reflect"
	"sync"
	"time"

	"github.com/nspcc-dev/neo-go/pkg/config"
	"github.com/nspcc-dev/neo-go/pkg/core/transaction"
	"github.com/nspcc-dev/neo-go/pkg/io"
	"github.com/nspcc-dev/neo-go/pkg/network"
	"github.com/nspcc-dev/neo-go/pkg/network/capability"
	"github.com/nspcc-dev/neo-go/pkg/network/payload"
	"github.com/nspcc-dev/neo-go/pkg/util"
	"go.uber.org/zap"
)

type p2pPeer struct {
	conn net.Conn
	wmu  sync.Mutex
	mu   sync.Mutex
	// transaction hashes the server asked its peers for (getdata), in arrival order
	asked [][]util.Uint256
	err   error
	sr    bool
	pong  chan struct{}
}

// newServer builds the node's network.Server (no seeds, no peers wanted) on a loopback port.
func newServer(nd *node, lg *zap.Logger) (*network.Server, int, error) {
	cfg := network.ServerConfig{
		UserAgent:         "/verif-dbft/",
		Addresses:         []config.AnnounceableAddress{{Address: "127.0.0.1:0"}}, // the kernel picks the port
		Net:               magic,
		Relay:             true,
		DialTimeout:       time.Second,
		ProtoTickInterval: time.Hour,
		PingInterval:      time.Hour,
		PingTimeout:       2 * time.Hour,
		MaxPeers:          4,
		AttemptConnPeers:  1,
		MinPeers:          0,
	}
	s, err := network.NewServer(cfg, nd.bc, nd.bc.GetStateSyncModule(), lg)
	return s, 0, err
}

func (p *p2pPeer) send(m *network.Message) error {
	b, err := m.Bytes()
	if err != nil {
		return err
	}
	p.wmu.Lock()
	defer p.wmu.Unlock()
	_, err = p.conn.Write(b)
	return err
}

// listenPort waits for the server's listener and returns the port the kernel gave it.
func listenPort(s *network.Server) (int, error) {
	for i := 0; i < 4000; i++ {
		if p, err := s.Port(nil); err == nil && p != 0 {
			return int(p), nil
		}
		time.Sleep(500 * time.Microsecond)
	}
	return 0, errors.New("the node's server does not listen")
}

// dialPeer connects to the node's server and completes the version handshake.
func dialPeer(port int, nonce uint32, sr bool) (*p2pPeer, error) {
	var conn net.Conn
	var err error
	for i := 0; i < 200; i++ { // the listener comes up asynchronously in Server.Start
		conn, err = net.DialTimeout("tcp", fmt.Sprintf("127.0.0.1:%d", port), time.Second)
		if err == nil {
			break
		}
		time.Sleep(5 * time.Millisecond)
	}
	if err != nil {
		return nil, err
	}
	p := &p2pPeer{conn: conn, sr: sr, pong: make(chan struct{}, 16)}
	r := io.NewBinReaderFromIO(conn)
	read := func() (*network.Message, error) {
		m := &network.Message{StateRootInHeader: sr}
		if err := m.Decode(r); err != nil {
			return nil, err
		}
		return m, nil
	}
	_ = conn.SetDeadline(time.Now().Add(10 * time.Second))
	m, err := read()
	if err != nil || m.Command != network.CMDVersion {
		return nil, fmt.Errorf("handshake: expected version: %v", err)
	}
	ver := payload.NewVersion(magic, nonce, "/verif-peer/", []capability.Capability{
		{Type: capability.FullNode, Data: &capability.Node{StartHeight: 0}},
	})
	if err := p.send(network.NewMessage(network.CMDVersion, ver)); err != nil {
		return nil, err
	}
	m, err = read()
	if err != nil || m.Command != network.CMDVerack {
		return nil, fmt.Errorf("handshake: expected verack: %v", err)
	}
	if err := p.send(network.NewMessage(network.CMDVerack, payload.NewNullPayload())); err != nil {
		return nil, err
	}
	_ = conn.SetDeadline(time.Time{})
	go func() {
		for {
			m, err := read()
			if err != nil {
				p.mu.Lock()
				p.err = err
				p.mu.Unlock()
				return
			}
			switch m.Command {
			case network.CMDGetData:
				inv := m.Payload.(*payload.Inventory)
				if inv.Type == payload.TXType {
					p.mu.Lock()
					p.asked = append(p.asked, append([]util.Uint256(nil), inv.Hashes...))
					p.mu.Unlock()
				}
			case network.CMDPing:
				_ = p.send(network.NewMessage(network.CMDPong, m.Payload))
			case network.CMDPong:
				select {
				case p.pong <- struct{}{}:
				default:
				}
			}
		}
	}()
	return p, nil
}

var errPeerGone = errors.New("harness peer lost its connection to the node's server")

// sendTx hands the node a transaction the way a remote peer does.
func (p *p2pPeer) sendTx(tx *transaction.Transaction) error {
	p.mu.Lock()
	err := p.err
	p.mu.Unlock()
	if err != nil {
		return fmt.Errorf("%w: %v", errPeerGone, err)
	}
	return p.send(network.NewMessage(network.CMDTX, tx))
}

// roundTrip sends a ping and waits for the pong: the server handles one peer's messages in
// order, so everything sent before has been through handleMessage when the pong is here.
func (p *p2pPeer) roundTrip() error {
	for {
		select {
		case <-p.pong:
			continue
		default:
		}
		break
	}
	if err := p.send(network.NewMessage(network.CMDPing, payload.NewPing(0, 7))); err != nil {
		return err
	}
	select {
	case <-p.pong:
		return nil
	case <-time.After(30 * time.Second):
		return errPeerGone
	}
}

// txInFlight reads the size of the server's map of incoming transactions that its handler
// goroutines have not finished yet (unexported: through reflection). -1 when it cannot be found.
func txInFlight(s *network.Server) int {
	v := reflect.ValueOf(s).Elem().FieldByName("txIn")
	if !v.IsValid() || v.Kind() != reflect.Pointer || v.IsNil() {
		return -1
	}
	m := v.Elem().FieldByName("m")
	if !m.IsValid() || m.Kind() != reflect.Map {
		return -1
	}
	return m.Len()
}

// waitHandshaked waits until the server counts the harness peer as handshaked (so that its
// broadcasts reach it).
func waitHandshaked(s *network.Server) error {
	for i := 0; i < 2000; i++ {
		if s.HandshakedPeersCount() >= 1 {
			return nil
		}
		time.Sleep(time.Millisecond)
	}
	return errors.New("harness peer never became a handshaked peer of the node's server")
}
