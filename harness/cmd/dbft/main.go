// Command dbft: trace-validation + safety/liveness oracle stream for C19.
//
// Every case builds a cluster of real consensus.Service instances (4 validators; the thorough
// tier also 7), each on its own real Blockchain, connected by a harness-owned network and a
// harness-owned clock (consensus.VerifSetTimer), and runs one PRNG-drawn schedule against it:
// an adversarial prefix (delay, reorder, duplicate, drop, timeouts in any order, up to f
// validators silent, differing mempools) followed by the fair schedule. ops.txt carries the
// trace for the Lean driver (which checks every step is enabled in the protocol model),
// oracle.txt the failures of the property's oracles on the real run.
//
// Cases 0..8 are the scripted corpus (script.go), cases 9..11 the epoch cases (epoch.go: seven nodes,
// the validator set changes at epoch boundaries by ValidatorsHistory and by votes; tied to
// Model/DbftEpoch.lean), the random profiles start at case 12.
package main

import (
	"fmt"
	"os"
	"time"

	"github.com/nspcc-dev/neo-go/pkg/core/block"
	"github.com/nspcc-dev/neo-go/pkg/core/transaction"
	"github.com/nspcc-dev/neo-go/pkg/util"

	"verif/harness/internal/hx"
	"verif/harness/internal/prng"
)

func profileFor(r *prng.R, k int, thorough bool) profile {
	switch k % 5 {
	case 0: // the synchronous network only
		return profile{name: "fair", steps: 0, fairBlocks: 12}
	case 1: // mild: reordering, few timeouts
		return profile{name: "reorder", wDeliver: 80, wDrop: 1, wDup: 4, wTimer: 3, wSilence: 1, wTx: 4, wGive: 6, wRelay: 2, steps: 1200, fairBlocks: 3}
	case 2: // lossy
		return profile{name: "lossy", wDeliver: 60, wDrop: 12, wDup: 6, wTimer: 8, wSilence: 2, wTx: 4, wGive: 5, wRelay: 3, steps: 1200, fairBlocks: 3}
	case 3: // timer storm: views diverge
		return profile{name: "timers", wDeliver: 50, wDrop: 4, wDup: 4, wTimer: 25, wSilence: 3, wTx: 3, wGive: 5, wRelay: 3, steps: 1200, fairBlocks: 3}
	default: // silence-heavy
		return profile{name: "silence", wDeliver: 60, wDrop: 3, wDup: 3, wTimer: 12, wSilence: 8, wTx: 4, wGive: 5, wRelay: 4, steps: 1200, fairBlocks: 3}
	}
}

func b2i(b bool) int {
	if b {
		return 1
	}
	return 0
}

func main() {
	f := hx.ParseFlags()
	o := hx.NewOut(f.Out)
	defer o.Close()
	dir, err := os.MkdirTemp("", "verif-dbft")
	if err != nil {
		panic(err)
	}
	defer os.RemoveAll(dir)
	thorough := f.Tier == "thorough"
	n := f.N(40, 1000)
	verbose := os.Getenv("DBFT_VERBOSE") != ""
	t0 := time.Now()
	for k := 0; k < n; k++ {
		if !f.Want(k) {
			continue
		}
		r := prng.ForCase(f.Seed, k)
		o.Case(k)
		nv := 4
		if (thorough && k%4 == 3) || (!thorough && k%8 == 7) {
			nv = 7 // f = 2
		}
		pf := profileFor(r, k, thorough)
		if thorough {
			pf.steps *= 2
		}
		// the fixed corpus runs first
		var sc *script
		if k < len(corpus) {
			sc = &corpus[k]
			nv = sc.n
			pf = profile{name: "script:" + sc.name}
		}
		opts := clusterOpts{n: nv, verbose: verbose, stateRoot: r.Chance(1, 4), maxTxPerBlock: uint16(2 + r.Intn(6)), memPoolSize: 50}
		// Boundary load: in half of the cases a handful of the generated transactions (system fee
		// 100000..140000, 398 bytes with 4 validators, 637 with 7) crosses MaxBlockSystemFee or
		// MaxBlockSize, so proposals have to be cut exactly at the limit (ApplyPolicyToTxSet) —
		// one transaction too many and every backup rejects the proposal (verifyBlock).
		limits := "default"
		switch r.Intn(4) {
		case 0:
			limits = "sysfee"
			opts.maxBlockSysFee = 250000 + int64(r.Intn(4))*50000
		case 1:
			limits = "size"
			txSize, base := 398, 458
			if nv == 7 {
				txSize, base = 637, 697
			}
			if opts.stateRoot {
				base += 32
			}
			opts.maxBlockSize = uint32(base + 2*txSize + txSize/2 + r.Intn(2*txSize))
			opts.maxTxPerBlock = 8
		}
		var ep *epochSpec
		if sc == nil && k < len(corpus)+len(epochCorpus) {
			spec := epochCorpus[k-len(corpus)]
			if spec.random {
				a := 4 + r.Intn(4)
				b := 4 + r.Intn(4)
				for b == a {
					b = 4 + r.Intn(4)
				}
				spec.history = map[uint32]uint32{0: uint32(a), 7: uint32(b), 14: uint32(4 + r.Intn(4)), 21: uint32(4 + r.Intn(4))}
			}
			ep = &spec
			nv = epochFirst(ep)
			pf = profile{name: ep.name}
			opts = clusterOpts{n: epochFirst(ep), extraCommittee: epochCommittee - epochFirst(ep), allNodes: true, valHistory: ep.history, verbose: verbose,
				maxTxPerBlock: 20, memPoolSize: 50, stateRoot: k%2 == 0, maxBlockSysFee: 900000000000}
			limits = "default"
		}
		if sc != nil {
			opts = clusterOpts{n: nv, verbose: verbose, maxTxPerBlock: 6, memPoolSize: 50}
			limits = "default"
			if sc.opts != nil {
				sc.opts(&opts)
			}
		}
		cl, err := newCluster(dir, opts)
		if err != nil {
			fmt.Fprintln(os.Stderr, "cluster:", err)
			os.Exit(3)
		}
		run := &run{o: o, k: k, r: r, cl: cl, dec: newDecoder(cl), pf: pf, silent: map[int]bool{},
			txs: map[util.Uint256]*transaction.Transaction{}, committed: map[uint32]*block.Block{}, maxTx: int(opts.maxTxPerBlock),
			commitAt: map[uint32]map[int]byte{}, hadAsync: pf.steps > 0, tn: &txNames{n: map[util.Uint256]int{}}}
		// init n tpb maxTx maxSize maxSysFee sr baseV baseP gts
		if ep != nil {
			run.runEpoch(*ep)
		} else {
			bc := cl.nodes[0].bc
			cfg := bc.GetConfig()
			gen, _ := bc.GetBlock(bc.GetHeaderHash(0))
			eb := block.New(opts.stateRoot)
			baseV := eb.GetExpectedBlockSizeWithoutTransactions(0)
			baseP := policyBase(bc, opts.stateRoot, nv)
			run.line(fmt.Sprintf("init %d %d %d %d %d %d %d %d %d", nv, int64(timePerBlock), cfg.MaxTransactionsPerBlock,
				cfg.MaxBlockSize, cfg.MaxBlockSystemFee, b2i(opts.stateRoot), baseV, baseP, gen.Timestamp))
		}
		for _, nd := range cl.nodes {
			if ep != nil {
				break
			}
			run.pre(nd)
			run.line(fmt.Sprintf("start %d", nd.idx))
			if err := nd.start(); err != nil {
				fmt.Fprintln(os.Stderr, "start:", err)
				os.Exit(3)
			}
			run.settle(nd)
		}
		run.tight = limits != "default"
		// some transactions to start with
		for i := r.Intn(4) + 2*b2i(run.tight); i > 0 && sc == nil && ep == nil; i-- {
			var to []int
			for j := range cl.nodes {
				if r.Chance(3, 4) {
					to = append(to, j)
				}
			}
			run.injectTx(to)
		}
		if ep != nil {
			// runEpoch has done everything
		} else if sc != nil {
			run.hadAsync = true
			run.quiet = true
			run.runScript(*sc)
		} else {
			// a quarter of the random cases starts in the class "one validator is last within the view"
			if r.Chance(1, 4) {
				victim := r.Intn(nv - 1)
				if victim >= 1 {
					victim++ // not the primary of height 1
				}
				run.hadAsync = true
				run.runScript(lateValidator(nv, victim, ""))
				o.Count("class:late-validator")
			}
			run.adversarial()
			if run.ok() {
				run.fair(pf.fairBlocks)
			}
		}
		if run.ok() && ep == nil {
			run.final()
		}
		_, hi := run.heights()
		o.Count("profile:" + pf.name)
		o.Count("limits:" + limits)
		o.Count(fmt.Sprintf("validators:%d", nv))
		o.Add("heights", int(hi))
		o.Add("events", run.events)
		o.Count(fmt.Sprintf("max-view:%d", min(int(run.maxView), 4)))
		o.Seen(fmt.Sprintf("%s/%d/%d/%d/%d", pf.name, nv, hi, run.events, run.maxView))
		if k < 3 {
			o.Sample(fmt.Sprintf("case %d: profile %s, %d validators, %d events, reached height %d, max view %d", k, pf.name, nv, run.events, hi, run.maxView))
		}
		cl.close()
		if run.machinery != nil {
			fmt.Fprintf(os.Stderr, "case %d: harness machinery failed: %v\n", k, run.machinery)
			o.Close()
			os.Exit(4)
		}
		if verbose {
			fmt.Fprintf(os.Stderr, "case %d done: height %d events %d fails %d (%.1fs)\n", k, hi, run.events, run.fails, time.Since(t0).Seconds())
		}
	}
}
