// Command dbft: trace-validation + safety/liveness oracle stream for C19.
package main

import (
	"fmt"
	"os"
	"time"
)

func main() {
	dir, _ := os.MkdirTemp("", "dbft")
	defer os.RemoveAll(dir)
	t0 := time.Now()
	c, err := newCluster(dir, clusterOpts{n: 4, maxTxPerBlock: 10, verbose: os.Getenv("V") != ""})
	if err != nil {
		panic(err)
	}
	fmt.Println("cluster", time.Since(t0))
	if err := c.start(); err != nil {
		panic(err)
	}
	fmt.Println("started", time.Since(t0))
	for round := 0; round < 30; round++ {
		// deliver everything
		progress := true
		for progress {
			progress = false
			for _, nd := range c.nodes {
				out, puts, views, errs := nd.collect()
				for _, e := range out {
					progress = true
					for _, dst := range c.nodes {
						if dst == nd {
							continue
						}
						if err := dst.srv.OnPayload(e); err != nil {
							panic(err)
						}
						if err := dst.sync(); err != nil {
							panic(err)
						}
					}
				}
				for _, p := range puts {
					fmt.Printf("n%d put block %d %s err=%v\n", nd.idx, p.b.Index, p.b.Hash().StringLE()[:8], p.err)
				}
				_ = views
				for _, e := range errs {
					fmt.Println("n", nd.idx, "ERR", e)
				}
			}
		}
		// fire earliest
		var best *node
		var bd int64
		for _, nd := range c.nodes {
			armed, _, _, d := nd.tm.state()
			if armed && (best == nil || d < bd) {
				best, bd = nd, d
			}
		}
		if best == nil {
			fmt.Println("no timers")
			break
		}
		_, h, v, _ := best.tm.state()
		fmt.Printf("fire n%d h=%d v=%d at %v\n", best.idx, h, v, time.Duration(bd))
		best.tm.fire()
		if err := best.sync(); err != nil {
			panic(err)
		}
	}
	fmt.Println("done", time.Since(t0))
	c.close()
}
