package main

// probe.go: crafted PrepareRequests. The harness holds every validator's key, so it can build a
// request that is correctly signed by the primary of the view but violates exactly ONE rule a
// backup checks (consensus.go verifyRequest / verifyBlock, dbft hasAllTransactions), hand it to one
// backup and compare the backup's reaction with the machine model's (ChangeView with the reason the
// failed check gives, a transaction request, or — when nothing is violated — a PrepareResponse).
// The guarded-command model has no Byzantine validator: a forged payload is a `forge` trace line,
// which only the machine model sees.

import (
	"encoding/binary"
	"fmt"
	"strings"

	"github.com/nspcc-dev/dbft"

	"github.com/nspcc-dev/neo-go/pkg/core/transaction"
	"github.com/nspcc-dev/neo-go/pkg/io"
	npayload "github.com/nspcc-dev/neo-go/pkg/network/payload"
	"github.com/nspcc-dev/neo-go/pkg/util"
	"github.com/nspcc-dev/neo-go/pkg/vm/emit"

	"verif/harness/internal/hx"
)

type forgeSpec struct {
	prev    util.Uint256
	version uint32
	ts      uint64 // ms
	nonce   uint64
	txs     []util.Uint256
	sroot   util.Uint256
}

// forgeRequest builds a PrepareRequest of validator `from` for (h, v), signed with its key.
func (r *run) forgeRequest(from int, h uint32, v byte, f forgeSpec) *npayload.Extensible {
	w := io.NewBufBinWriter()
	w.WriteB(0x20)
	w.WriteU32LE(h)
	w.WriteB(byte(from))
	w.WriteB(v)
	w.WriteU32LE(f.version)
	w.WriteBytes(f.prev[:])
	w.WriteU64LE(f.ts)
	w.WriteU64LE(f.nonce)
	w.WriteVarUint(uint64(len(f.txs)))
	for i := range f.txs {
		w.WriteBytes(f.txs[i][:])
	}
	if r.cl.sr {
		w.WriteBytes(f.sroot[:])
	}
	priv := r.cl.nodes[from].priv
	e := &npayload.Extensible{
		Category:        npayload.ConsensusCategory,
		ValidBlockStart: 0,
		ValidBlockEnd:   h,
		Sender:          priv.PublicKey().GetScriptHash(),
		Data:            w.Bytes(),
	}
	sig := priv.SignHashable(magic, e)
	buf := io.NewBufBinWriter()
	emit.Bytes(buf.BinWriter, sig)
	e.Witness = transaction.Witness{InvocationScript: buf.Bytes(), VerificationScript: priv.PublicKey().GetVerificationScript()}
	return e
}

// probe hands backup `to` a request of the current primary that violates rule `kind` (or none).
func (r *run) probe(to int, kind string) {
	nd := r.cl.nodes[to]
	db := dbftOf(nd.srv)
	if db == nil {
		r.machinery = fmt.Errorf("probe: dBFT context not reachable")
		return
	}
	h, v := db.Context.BlockIndex, db.Context.ViewNumber
	from := int(db.Context.PrimaryIndex)
	if from == to {
		r.machinery = fmt.Errorf("probe: node %d is the primary", to)
		return
	}
	prevBlock, _ := nd.bc.GetBlock(nd.bc.CurrentBlockHash())
	r.probeNonce++
	f := forgeSpec{prev: nd.bc.CurrentBlockHash(), ts: prevBlock.Timestamp + 1000 + uint64(r.probeNonce), nonce: 0xabcdef00 + uint64(r.probeNonce)}
	if r.cl.sr {
		if sr, err := nd.bc.GetStateRoot(h - 1); err == nil {
			f.sroot = sr.Root
		}
	}
	cfg := nd.bc.GetConfig()
	mkTxs := func(k int, pooled bool) []util.Uint256 {
		var hs []util.Uint256
		for i := 0; i < k; i++ {
			var dst []int
			if pooled {
				dst = []int{to}
			}
			hs = append(hs, r.injectTxTo(dst, nil))
		}
		return hs
	}
	switch kind {
	case "none": // a well-formed request without transactions: the backup must answer it
	case "prev":
		f.prev[0] ^= 0x40
	case "ver":
		f.version = 1
	case "sroot":
		f.sroot[3] ^= 0x01
	case "count": // one hash more than MaxTransactionsPerBlock (the hashes need not exist: the count is checked first)
		for i := 0; i <= int(cfg.MaxTransactionsPerBlock); i++ {
			var x util.Uint256
			binary.LittleEndian.PutUint32(x[:], uint32(0x77000000+i))
			f.txs = append(f.txs, x)
		}
	case "ts": // not above the previous block's timestamp
		f.ts = prevBlock.Timestamp
	case "ts+1": // the smallest admissible timestamp
		f.ts = prevBlock.Timestamp + 1
	case "sysfee": // pooled transactions whose system fees sum up above MaxBlockSystemFee
		k := int(cfg.MaxBlockSystemFee/100000) + 1
		f.txs = mkTxs(k, true)
	case "size": // pooled transactions that do not fit MaxBlockSize
		k := int(cfg.MaxBlockSize)/390 + 1
		f.txs = mkTxs(k, true)
	case "unknown": // a transaction the backup has never seen: it must ask for it
		f.txs = mkTxs(1, false)
	case "conflict": // two transactions, the second naming the first in a Conflicts attribute and paying more
		a := r.injectTxTo(nil, nil)
		b := r.injectTxTo(nil, &a)
		f.txs = []util.Uint256{a, b}
	default:
		r.machinery = fmt.Errorf("probe: unknown kind %q", kind)
		return
	}
	e := r.forgeRequest(from, h, v, f)
	r.dec.forging = true
	m, err := r.dec.decode(e, r.cl.nodes[from])
	r.dec.forging = false
	if err != nil {
		r.machinery = fmt.Errorf("probe: %v", err)
		return
	}
	r.o.Count("probe:" + kind)
	r.net = append(r.net, flight{m, to})
	before := r.countEmits(to, "PS")
	r.forged = true
	r.deliver(len(r.net)-1, true, false)
	r.forged = false
	if kind == "unknown" || kind == "conflict" {
		for r.ok() && r.giveTx(nd, true) {
		}
	}
	answered := r.countEmits(to, "PS") > before
	switch kind {
	case "none", "ts+1":
		if !answered {
			r.fail("probe-refused", "backup %d did not answer a well-formed PrepareRequest (%s)", to, kind)
		}
	case "conflict":
		// outside the property's fault model (an honest primary proposes from its own mempool, which never
		// holds both); Proofs/DbftProposal.lean conflicting_proposal_accepted_by_backup states what happens
		if answered {
			r.o.Count("probe:conflict-answered")
		} else {
			r.o.Count("probe:conflict-refused")
		}
	case "unknown":
		// answered once the transaction has been served
	default:
		if answered {
			r.fail("probe-answered", "backup %d sent a PrepareResponse for a PrepareRequest that violates the rule %q", to, kind)
		}
	}
}

// probeRecovery hands validator `to` a RecoveryMessage correctly signed by another validator (the one
// faulty validator of the case) whose compact ChangeView / PrepareResponse / Commit entry names a
// validator index outside the list: kind = cv|ps|cm "-" n|255 (the first index past the list; the
// largest byte). The wire decoder does not look at the index (recovery_message.go DecodeBinary), the
// service's front door checks only the OUTER sender, so the entry reaches recoveryMessage.GetChangeViews
// / GetPrepareResponses / GetCommits inside dBFT's onRecoveryMessage, which must skip it (e644244) —
// an index expression there panics in the service's only goroutine and takes the node down.
//
// A panic in that goroutine cannot be caught from here, so the very accessors dBFT is about to call
// are called first on the decoded payload with the same validator list, under recover: a panic is the
// oracle failure (and the payload is then NOT given to the service); otherwise the payload goes through
// the extensible pool and OnPayload like any other, the machine model is told what the fixed code sees
// (a RecoveryMessage with no usable entry) and is compared as usual, and the script goes on with the
// synchronous schedule: the round must complete with the forger still counted among the <= f faulty.
func (r *run) probeRecovery(to int, kind string) {
	nd := r.cl.nodes[to]
	db := dbftOf(nd.srv)
	if db == nil {
		r.machinery = fmt.Errorf("probe: dBFT context not reachable")
		return
	}
	n := len(r.cl.pubs)
	from := (to + 1) % n
	h, v := db.Context.BlockIndex, db.Context.ViewNumber
	parts := strings.SplitN(kind, "-", 2)
	if len(parts) != 2 {
		r.machinery = fmt.Errorf("probe: unknown recovery kind %q", kind)
		return
	}
	idx := byte(n)
	if parts[1] == "255" {
		idx = 255
	}
	view := v
	if parts[0] == "cv" {
		view = v + 1 // ChangeViews are read from a message of a higher view only (dbft.go onRecoveryMessage)
	}
	r.probeNonce++
	var ph util.Uint256
	binary.LittleEndian.PutUint32(ph[:], 0x52000000+uint32(r.probeNonce))
	sig := make([]byte, 64)
	w := io.NewBufBinWriter()
	w.WriteB(0x41)
	w.WriteU32LE(h)
	w.WriteB(byte(from))
	w.WriteB(view)
	if parts[0] == "cv" { // changeViewCompact: index, original view, timestamp, invocation script
		w.WriteVarUint(1)
		w.WriteB(idx)
		w.WriteB(v)
		w.WriteU64LE(1)
		w.WriteVarBytes(append([]byte{0x0c, 0x40}, sig...))
	} else {
		w.WriteVarUint(0)
	}
	w.WriteBool(false) // no PrepareRequest on board: a preparation hash instead
	w.WriteVarUint(util.Uint256Size)
	w.WriteBytes(ph[:])
	if parts[0] == "ps" { // preparationCompact: index, invocation script
		w.WriteVarUint(1)
		w.WriteB(idx)
		w.WriteVarBytes(append([]byte{0x0c, 0x40}, sig...))
	} else {
		w.WriteVarUint(0)
	}
	if parts[0] == "cm" { // commitCompact: view, index, signature, invocation script
		w.WriteVarUint(1)
		w.WriteB(view)
		w.WriteB(idx)
		w.WriteBytes(sig)
		w.WriteVarBytes(append([]byte{0x0c, 0x40}, sig...))
	} else {
		w.WriteVarUint(0)
	}
	priv := r.cl.nodes[from].priv
	e := &npayload.Extensible{
		Category:      npayload.ConsensusCategory,
		ValidBlockEnd: h,
		Sender:        priv.PublicKey().GetScriptHash(),
		Data:          w.Bytes(),
	}
	buf := io.NewBufBinWriter()
	emit.Bytes(buf.BinWriter, priv.SignHashable(magic, e))
	e.Witness = transaction.Witness{InvocationScript: buf.Bytes(), VerificationScript: priv.PublicKey().GetVerificationScript()}
	p, raw, err := r.dec.payload(e)
	if err != nil || p.Type() != dbft.RecoveryMessageType {
		r.machinery = fmt.Errorf("probe: forged recovery message does not decode: %v", err)
		return
	}
	r.o.Count("probe:recovery-" + kind)
	pubs := make([]dbft.PublicKey, n)
	for i := range pubs {
		pubs[i] = r.cl.pubs[i]
	}
	// what dBFT's onRecoveryMessage is about to call, with the list it calls them with
	usable := -1
	res := hx.Safe(func() string {
		rm := p.GetRecoveryMessage()
		usable = len(rm.GetChangeViews(p, pubs)) + len(rm.GetPrepareResponses(p, pubs)) + len(rm.GetCommits(p, pubs))
		return "ok"
	})
	if res != "ok" {
		r.fail("recovery-index-panic", "a RecoveryMessage signed by validator %d for height %d view %d whose compact %s entry names validator %d of %d makes recoveryMessage.Get* panic (index out of range): node %d's consensus goroutine would die on it; payload %s",
			from, h, view, parts[0], idx, n, to, hx.Hex(raw))
		return
	}
	if usable != 0 {
		r.fail("recovery-index-used", "a compact %s entry naming validator %d of %d is turned into a payload", parts[0], idx, n)
		return
	}
	m := &msg{from: from, typ: p.Type(), h: h, v: view, raw: raw, hash: e.Hash(),
		desc: fmt.Sprintf("RM %d %d %d 0 # 0 R- H%s 0 0", from, h, view, r.dec.nm.p(ph))}
	r.net = append(r.net, flight{m, to})
	r.forged = true
	r.deliver(len(r.net)-1, true, false)
	r.forged = false
	if got := dbftOf(nd.srv); got == nil || got.Context.BlockIndex != h {
		r.fail("recovery-index-effect", "node %d left height %d on a RecoveryMessage without a usable entry", to, h)
	}
}
