package main

// probe.go: crafted PrepareRequests. The harness holds every validator's key, so it can build a
// request that is correctly signed by the primary of the view but violates exactly ONE rule a
// backup checks (consensus.go verifyRequest / verifyBlock, dbft hasAllTransactions), hand it to one
// backup and compare the backup's reaction with the machine model's (ChangeView with the reason the
// failed check gives, a transaction request, or — when nothing is violated — a PrepareResponse).
// The guarded-command model has no Byzantine validator: a forged payload is a `forge` trace line,
// which only the machine model sees.

import (
	"encoding/binary"
	"fmt"

	"github.com/nspcc-dev/neo-go/pkg/core/transaction"
	"github.com/nspcc-dev/neo-go/pkg/io"
	npayload "github.com/nspcc-dev/neo-go/pkg/network/payload"
	"github.com/nspcc-dev/neo-go/pkg/util"
	"github.com/nspcc-dev/neo-go/pkg/vm/emit"
)

type forgeSpec struct {
	prev    util.Uint256
	version uint32
	ts      uint64 // ms
	nonce   uint64
	txs     []util.Uint256
	sroot   util.Uint256
}

// forgeRequest builds a PrepareRequest of validator `from` for (h, v), signed with its key.
func (r *run) forgeRequest(from int, h uint32, v byte, f forgeSpec) *npayload.Extensible {
	w := io.NewBufBinWriter()
	w.WriteB(0x20)
	w.WriteU32LE(h)
	w.WriteB(byte(from))
	w.WriteB(v)
	w.WriteU32LE(f.version)
	w.WriteBytes(f.prev[:])
	w.WriteU64LE(f.ts)
	w.WriteU64LE(f.nonce)
	w.WriteVarUint(uint64(len(f.txs)))
	for i := range f.txs {
		w.WriteBytes(f.txs[i][:])
	}
	if r.cl.sr {
		w.WriteBytes(f.sroot[:])
	}
	priv := r.cl.nodes[from].priv
	e := &npayload.Extensible{
		Category:        npayload.ConsensusCategory,
		ValidBlockStart: 0,
		ValidBlockEnd:   h,
		Sender:          priv.PublicKey().GetScriptHash(),
		Data:            w.Bytes(),
	}
	sig := priv.SignHashable(magic, e)
	buf := io.NewBufBinWriter()
	emit.Bytes(buf.BinWriter, sig)
	e.Witness = transaction.Witness{InvocationScript: buf.Bytes(), VerificationScript: priv.PublicKey().GetVerificationScript()}
	return e
}

// probe hands backup `to` a request of the current primary that violates rule `kind` (or none).
func (r *run) probe(to int, kind string) {
	nd := r.cl.nodes[to]
	db := dbftOf(nd.srv)
	if db == nil {
		r.machinery = fmt.Errorf("probe: dBFT context not reachable")
		return
	}
	h, v := db.Context.BlockIndex, db.Context.ViewNumber
	from := int(db.Context.PrimaryIndex)
	if from == to {
		r.machinery = fmt.Errorf("probe: node %d is the primary", to)
		return
	}
	prevBlock, _ := nd.bc.GetBlock(nd.bc.CurrentBlockHash())
	r.probeNonce++
	f := forgeSpec{prev: nd.bc.CurrentBlockHash(), ts: prevBlock.Timestamp + 1000 + uint64(r.probeNonce), nonce: 0xabcdef00 + uint64(r.probeNonce)}
	if r.cl.sr {
		if sr, err := nd.bc.GetStateRoot(h - 1); err == nil {
			f.sroot = sr.Root
		}
	}
	cfg := nd.bc.GetConfig()
	mkTxs := func(k int, pooled bool) []util.Uint256 {
		var hs []util.Uint256
		for i := 0; i < k; i++ {
			var dst []int
			if pooled {
				dst = []int{to}
			}
			hs = append(hs, r.injectTxTo(dst, nil))
		}
		return hs
	}
	switch kind {
	case "none": // a well-formed request without transactions: the backup must answer it
	case "prev":
		f.prev[0] ^= 0x40
	case "ver":
		f.version = 1
	case "sroot":
		f.sroot[3] ^= 0x01
	case "count": // one hash more than MaxTransactionsPerBlock (the hashes need not exist: the count is checked first)
		for i := 0; i <= int(cfg.MaxTransactionsPerBlock); i++ {
			var x util.Uint256
			binary.LittleEndian.PutUint32(x[:], uint32(0x77000000+i))
			f.txs = append(f.txs, x)
		}
	case "ts": // not above the previous block's timestamp
		f.ts = prevBlock.Timestamp
	case "ts+1": // the smallest admissible timestamp
		f.ts = prevBlock.Timestamp + 1
	case "sysfee": // pooled transactions whose system fees sum up above MaxBlockSystemFee
		k := int(cfg.MaxBlockSystemFee/100000) + 1
		f.txs = mkTxs(k, true)
	case "size": // pooled transactions that do not fit MaxBlockSize
		k := int(cfg.MaxBlockSize)/390 + 1
		f.txs = mkTxs(k, true)
	case "unknown": // a transaction the backup has never seen: it must ask for it
		f.txs = mkTxs(1, false)
	case "conflict": // two transactions, the second naming the first in a Conflicts attribute and paying more
		a := r.injectTxTo(nil, nil)
		b := r.injectTxTo(nil, &a)
		f.txs = []util.Uint256{a, b}
	default:
		r.machinery = fmt.Errorf("probe: unknown kind %q", kind)
		return
	}
	e := r.forgeRequest(from, h, v, f)
	r.dec.forging = true
	m, err := r.dec.decode(e, r.cl.nodes[from])
	r.dec.forging = false
	if err != nil {
		r.machinery = fmt.Errorf("probe: %v", err)
		return
	}
	r.o.Count("probe:" + kind)
	r.net = append(r.net, flight{m, to})
	before := r.countEmits(to, "PS")
	r.forged = true
	r.deliver(len(r.net)-1, true, false)
	r.forged = false
	if kind == "unknown" || kind == "conflict" {
		for r.ok() && r.giveTx(nd, true) {
		}
	}
	answered := r.countEmits(to, "PS") > before
	switch kind {
	case "none", "ts+1":
		if !answered {
			r.fail("probe-refused", "backup %d did not answer a well-formed PrepareRequest (%s)", to, kind)
		}
	case "conflict":
		// outside the property's fault model (an honest primary proposes from its own mempool, which never
		// holds both); Proofs/DbftProposal.lean conflicting_proposal_accepted_by_backup states what happens
		if answered {
			r.o.Count("probe:conflict-answered")
		} else {
			r.o.Count("probe:conflict-refused")
		}
	case "unknown":
		// answered once the transaction has been served
	default:
		if answered {
			r.fail("probe-answered", "backup %d sent a PrepareResponse for a PrepareRequest that violates the rule %q", to, kind)
		}
	}
}
