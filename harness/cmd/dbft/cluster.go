package main

// cluster.go: N real consensus.Service instances, each over its own real core.Blockchain
// (MemoryStore), wired to a harness-owned network and to a harness-driven clock. Nothing here
// depends on wall-clock time (see fakeTimer); the only concurrency is the services' own event
// loops and the chains' notification dispatchers, which the harness waits out (node.sync).

import (
	"crypto/sha256"
	"errors"
	"fmt"
	"os"
	"path/filepath"
	"reflect"
	"sort"
	"sync"
	"sync/atomic"
	"time"

	"github.com/nspcc-dev/dbft"
	"github.com/nspcc-dev/neo-go/pkg/config"
	"github.com/nspcc-dev/neo-go/pkg/consensus"
	"github.com/nspcc-dev/neo-go/pkg/core"
	"github.com/nspcc-dev/neo-go/pkg/core/block"
	"github.com/nspcc-dev/neo-go/pkg/core/storage"
	"github.com/nspcc-dev/neo-go/pkg/crypto/keys"
	"github.com/nspcc-dev/neo-go/pkg/network"
	"github.com/nspcc-dev/neo-go/pkg/network/extpool"
	npayload "github.com/nspcc-dev/neo-go/pkg/network/payload"
	"github.com/nspcc-dev/neo-go/pkg/util"
	"github.com/nspcc-dev/neo-go/pkg/wallet"
	"go.uber.org/zap"
	"go.uber.org/zap/zapcore"
)

const (
	magic        = 42
	walletPass   = "verif"
	timePerBlock = time.Second
)

// fakeEpoch is the origin of the harness clock. It must lie in the FUTURE of the wall clock:
// dbft.go:515 measures round trips with time.Since(Timer.Now()-value), i.e. against the wall
// clock; with a clock behind the wall clock the estimate becomes years and every timeout 0.
var fakeEpoch = time.Date(2035, 1, 1, 0, 0, 0, 0, time.UTC)

// ---------------------------------------------------------------- clock and timers

type clock struct {
	ns atomic.Int64 // virtual nanoseconds since fakeEpoch
}

func (c *clock) now() time.Time { return fakeEpoch.Add(time.Duration(c.ns.Load())) }

// fakeTimer implements dbft.Timer. It never fires by itself: the scheduler calls fire().
type fakeTimer struct {
	mu       sync.Mutex
	clk      *clock
	height   uint32
	view     byte
	armed    bool
	deadline int64 // virtual ns
	start    int64
	dur      time.Duration
	resets   int
	ch       chan time.Time
	onReset  func(h uint32, v byte, d time.Duration)
	onExtend func(d time.Duration)
}

func newFakeTimer(c *clock) *fakeTimer { return &fakeTimer{clk: c, ch: make(chan time.Time, 1)} }

func (t *fakeTimer) Now() time.Time { return t.clk.now() }

func (t *fakeTimer) Reset(height uint32, view byte, d time.Duration) {
	t.mu.Lock()
	t.height, t.view = height, view
	t.start = t.clk.ns.Load()
	t.dur = d
	t.deadline = t.start + int64(d)
	t.armed = true
	t.resets++
	select { // a stale tick must not survive a reset (timer.go drains it as well)
	case <-t.ch:
	default:
	}
	cb := t.onReset
	t.mu.Unlock()
	if cb != nil {
		cb(height, view, d)
	}
}

func (t *fakeTimer) Extend(d time.Duration) {
	t.mu.Lock()
	t.dur += d
	t.deadline = t.start + int64(t.dur)
	cb := t.onExtend
	t.mu.Unlock()
	if cb != nil {
		cb(d)
	}
}

// full is what the model's timer is compared with.
func (t *fakeTimer) full() (armed bool, h uint32, v byte, dur time.Duration) {
	t.mu.Lock()
	defer t.mu.Unlock()
	return t.armed, t.height, t.view, t.dur
}

func (t *fakeTimer) Height() uint32 {
	t.mu.Lock()
	defer t.mu.Unlock()
	return t.height
}

func (t *fakeTimer) View() byte {
	t.mu.Lock()
	defer t.mu.Unlock()
	return t.view
}

func (t *fakeTimer) C() <-chan time.Time { return t.ch }

func (t *fakeTimer) state() (armed bool, h uint32, v byte, deadline int64) {
	t.mu.Lock()
	defer t.mu.Unlock()
	return t.armed, t.height, t.view, t.deadline
}

// fire makes the service see a tick. The virtual clock is advanced to the deadline first.
func (t *fakeTimer) fire() bool {
	t.mu.Lock()
	if !t.armed {
		t.mu.Unlock()
		return false
	}
	t.armed = false
	if t.clk.ns.Load() < t.deadline {
		t.clk.ns.Store(t.deadline)
	}
	t.mu.Unlock()
	select {
	case t.ch <- t.clk.now():
	default:
	}
	return true
}

var _ dbft.Timer = (*fakeTimer)(nil)

// ---------------------------------------------------------------- logger used as a barrier

// barrierCore is a zap core that drops everything but recognises the line dBFT prints for the
// harness' sentinel payload (height 0 => "ignoring old height"). The service's event loop is
// single-threaded, so once the sentinel is seen everything injected before it has been handled.
type barrierCore struct {
	n       *node
	fatal   atomic.Bool
	lastMsg atomic.Value
}

func (c *barrierCore) Enabled(zapcore.Level) bool        { return true }
func (c *barrierCore) With([]zapcore.Field) zapcore.Core { return c }
func (c *barrierCore) Sync() error                       { return nil }
func (c *barrierCore) Check(e zapcore.Entry, ce *zapcore.CheckedEntry) *zapcore.CheckedEntry {
	return ce.AddCore(e, c)
}
func (c *barrierCore) Write(e zapcore.Entry, fs []zapcore.Field) error {
	if e.Message == "ignoring old height" {
		select {
		case c.n.barrier <- struct{}{}:
		default:
		}
	}
	if e.Message == "received message" {
		// dbft.go:260-266 (OnReceive) logs from/height/view; consensus.go:398 (event loop) has no height.
		// The harness' own barrier payload carries height 0.
		from, height := int64(-1), int64(0)
		for _, f := range fs {
			switch f.Key {
			case "from":
				from = f.Integer
			case "height":
				height = f.Integer
			}
		}
		if height > 0 && from >= 0 {
			c.n.mu.Lock()
			c.n.hints = append(c.n.hints, int(from))
			c.n.mu.Unlock()
		}
	}
	if e.Level >= zapcore.ErrorLevel {
		c.n.logErr(e.Level.String() + ": " + e.Message)
	}
	if c.n.verbose {
		s := fmt.Sprintf("  [n%d] %s %s", c.n.idx, e.Level, e.Message)
		enc := zapcore.NewMapObjectEncoder()
		for _, f := range fs {
			f.AddTo(enc)
		}
		ks := make([]string, 0, len(enc.Fields))
		for k := range enc.Fields {
			ks = append(ks, k)
		}
		sort.Strings(ks)
		for _, k := range ks {
			if k == "dump" || k == "cache" {
				continue
			}
			s += fmt.Sprintf(" %s=%v", k, enc.Fields[k])
		}
		fmt.Fprintln(os.Stderr, s)
	}
	return nil
}

// ---------------------------------------------------------------- node

// act is one thing a node's service did, in the order it did it.
type act struct {
	kind byte // 'E' broadcast a payload, 'P' handed a block to its BlockQueue, 'V' reset its timer,
	// 'X' extended its timer, 'Q' asked for transactions (RequestTx), 'S' StopTxFlow
	ext *npayload.Extensible
	put putResult
	hv  hv
	dur time.Duration
	req []util.Uint256
}

type node struct {
	idx     int // validator index = position in the ledger's validator list
	cl      *cluster
	priv    *keys.PrivateKey
	bc      *core.Blockchain
	srv     consensus.Service
	tm      *fakeTimer
	pool    *extpool.Pool
	server  *network.Server // the node's real P2P server: transaction requests and deliveries
	port    int
	peer    *p2pPeer // the harness' connection to that server
	barrier chan struct{}
	verbose bool

	mu        sync.Mutex
	acts      []act          // what the service did since the last collect, in order
	requested []util.Uint256 // transactions the service asked for (Config.RequestTx)
	reqCalls  int
	errs      []string
	hints     []int  // senders of the payloads dBFT's OnReceive handled since the last collect, in order
	lastPool  string // the verified pool as last reported to the model
	evNow     int64  // the virtual clock (UnixNano) when the current event was handed to the service
}

type hv struct {
	h uint32
	v byte
}

type putResult struct {
	b   *block.Block
	err error
}

func (n *node) logErr(s string) {
	n.mu.Lock()
	n.errs = append(n.errs, s)
	n.mu.Unlock()
}

// blockQueuer is the BlockQueuer given to the service: the block goes straight into the node's
// own ledger (what bqueue does asynchronously) and the outcome is recorded.
type blockQueuer struct{ n *node }

func (q blockQueuer) Put(b *block.Block) error {
	err := q.n.bc.AddBlock(b)
	q.n.mu.Lock()
	q.n.acts = append(q.n.acts, act{kind: 'P', put: putResult{b, err}})
	q.n.mu.Unlock()
	return err
}

type cluster struct {
	n     int
	clk   *clock
	nodes []*node
	pubs  keys.PublicKeys // in validator order
	dir   string
	sr    bool
	epoch bool // the validator set changes: nodes are numbered by key, not by validator index
}

func (c *cluster) f() int { return (c.n - 1) / 3 }
func (c *cluster) m() int { return c.n - c.f() }

func privKey(i int) *keys.PrivateKey {
	h := sha256.Sum256([]byte(fmt.Sprintf("verif-dbft-validator-%d", i)))
	k, err := keys.NewPrivateKeyFromBytes(h[:])
	if err != nil {
		panic(err)
	}
	return k
}

type clusterOpts struct {
	n                int
	stateRoot        bool
	maxTxPerBlock    uint16
	verbose          bool
	maxTimePerBlock  time.Duration
	memPoolSize      int
	extraCommittee   int
	maxBlockSysFee   int64
	maxBlockSize     uint32
	validUntilIncr   uint32
	skipVerification bool
	// epoch cases (epoch.go): a node for every committee member (node index = key index), the
	// number of validators by height
	allNodes   bool
	valHistory map[uint32]uint32
}

var walletCache sync.Map // key index -> wallet file path (within this process)

func walletFor(dir string, keyIdx int) string {
	p := filepath.Join(dir, fmt.Sprintf("w%d.json", keyIdx))
	if _, ok := walletCache.Load(p); ok {
		return p
	}
	w, err := wallet.NewWallet(p)
	if err != nil {
		panic(err)
	}
	w.Scrypt = keys.ScryptParams{N: 2, R: 1, P: 1}
	acc := wallet.NewAccountFromPrivateKey(privKey(keyIdx))
	if err := acc.Encrypt(walletPass, w.Scrypt); err != nil {
		panic(err)
	}
	w.AddAccount(acc)
	if err := w.Save(); err != nil {
		panic(err)
	}
	w.Close()
	walletCache.Store(p, true)
	return p
}

func newCluster(dir string, o clusterOpts) (*cluster, error) {
	if !time.Now().Before(fakeEpoch.Add(-24 * time.Hour)) {
		return nil, errors.New("harness clock origin is not in the future of the wall clock; move fakeEpoch")
	}
	c := &cluster{n: o.n, clk: &clock{}, dir: dir, sr: o.stateRoot, epoch: o.allNodes}
	total := o.n + o.extraCommittee
	privs := make([]*keys.PrivateKey, total)
	committee := make([]string, total)
	for i := range privs {
		privs[i] = privKey(i)
		committee[i] = privs[i].PublicKey().StringCompressed()
	}
	mkCfg := func() config.Blockchain {
		vc := uint32(o.n)
		if o.valHistory != nil {
			vc = 0
		}
		return config.Blockchain{
			ProtocolConfiguration: config.ProtocolConfiguration{
				ValidatorsHistory:           o.valHistory,
				Magic:                       magic,
				MemPoolSize:                 o.memPoolSize,
				MaxTraceableBlocks:          10000,
				MaxTransactionsPerBlock:     o.maxTxPerBlock,
				MaxBlockSystemFee:           o.maxBlockSysFee,
				MaxBlockSize:                o.maxBlockSize,
				MaxValidUntilBlockIncrement: o.validUntilIncr,
				StandbyCommittee:            committee,
				ValidatorsCount:             vc,
				StateRootInHeader:           o.stateRoot,
				TimePerBlock:                timePerBlock,
				MaxTimePerBlock:             o.maxTimePerBlock,
				VerifyTransactions:          true,
				P2PSigExtensions:            false,
				Hardforks:                   map[string]uint32{},
			},
		}
	}
	numNodes := o.n
	if o.allNodes {
		numNodes = total
	}
	for i := 0; i < numNodes; i++ {
		nd := &node{cl: c, barrier: make(chan struct{}, 4), verbose: o.verbose}
		// the ledger's own log is not this property's business
		bc, err := newChain(mkCfg(), zap.NewNop())
		if err != nil {
			return nil, err
		}
		nd.bc = bc
		c.nodes = append(c.nodes, nd)
	}
	// validator order as the ledger reports it
	vals, err := c.nodes[0].bc.GetNextBlockValidators()
	if err != nil {
		return nil, err
	}
	c.pubs = vals
	byPub := map[string]int{}
	for i, p := range privs {
		byPub[p.PublicKey().StringCompressed()] = i
	}
	for i, nd := range c.nodes {
		ki := i
		if !o.allNodes {
			ki = byPub[vals[i].StringCompressed()]
		}
		nd.idx = i
		nd.priv = privs[ki]
		nd.tm = newFakeTimer(c.clk)
		ndd := nd
		nd.tm.onReset = func(h uint32, v byte, d time.Duration) {
			ndd.mu.Lock()
			ndd.acts = append(ndd.acts, act{kind: 'V', hv: hv{h, v}, dur: d})
			ndd.mu.Unlock()
		}
		nd.tm.onExtend = func(d time.Duration) {
			ndd.mu.Lock()
			ndd.acts = append(ndd.acts, act{kind: 'X', dur: d})
			ndd.mu.Unlock()
		}
		nd.pool = extpool.New(nd.bc, 100, func([]util.Uint256) {})
		lg := zap.New(&barrierCore{n: nd}, zap.WithFatalHook(zapcore.WriteThenPanic))
		server, port, err := newServer(nd, zap.NewNop())
		if err != nil {
			return nil, err
		}
		nd.server, nd.port = server, port
		srv, err := consensus.NewService(consensus.Config{
			Logger: lg,
			Broadcast: func(e *npayload.Extensible) {
				ndd.mu.Lock()
				ndd.acts = append(ndd.acts, act{kind: 'E', ext: e})
				ndd.mu.Unlock()
			},
			Chain:                 nd.bc,
			BlockQueue:            blockQueuer{nd},
			ProtocolConfiguration: nd.bc.GetConfig().ProtocolConfiguration,
			// cli/server mkConsensus: RequestTx: serv.RequestTx, StopTxFlow: serv.StopTxFlow. The
			// wrappers only take a copy for the scheduler and pass dBFT's own slice through.
			RequestTx: func(h ...util.Uint256) {
				ndd.mu.Lock()
				ndd.requested = append([]util.Uint256(nil), h...)
				ndd.reqCalls++
				ndd.acts = append(ndd.acts, act{kind: 'Q', req: append([]util.Uint256(nil), h...)})
				ndd.mu.Unlock()
				server.RequestTx(h...)
			},
			StopTxFlow: func() {
				ndd.mu.Lock()
				ndd.requested = nil
				ndd.acts = append(ndd.acts, act{kind: 'S'})
				ndd.mu.Unlock()
				server.StopTxFlow()
			},
			Wallet: config.Wallet{Path: walletFor(dir, ki), Password: walletPass},
		})
		if err != nil {
			return nil, err
		}
		consensus.VerifSetTimer(srv, nd.tm)
		nd.srv = srv
		server.AddConsensusService(srv, srv.OnPayload, srv.OnTransaction)
	}
	return c, nil
}

func newChain(cfg config.Blockchain, lg *zap.Logger) (*core.Blockchain, error) {
	bc, err := core.NewBlockchain(storage.NewMemoryStore(), cfg, lg)
	if err != nil {
		return nil, err
	}
	go bc.Run()
	return bc, nil
}

func (c *cluster) start() error {
	for _, nd := range c.nodes {
		if err := nd.start(); err != nil {
			return err
		}
	}
	for _, nd := range c.nodes {
		if err := nd.sync(); err != nil {
			return err
		}
	}
	return nil
}

func (c *cluster) close() {
	for _, nd := range c.nodes {
		if nd.peer != nil {
			nd.peer.conn.Close()
		}
		nd.server.Shutdown()
		nd.srv.Shutdown()
		nd.bc.Close()
	}
}

// start brings up the node's server (which starts the consensus service: MinPeers = 0 means "in
// sync") and connects the harness peer to it.
func (n *node) start() error {
	n.server.Start()
	n.srv.Start() // no-op when the server has started it
	port, err := listenPort(n.server)
	if err != nil {
		return fmt.Errorf("node %d: %w", n.idx, err)
	}
	n.port = port
	p, err := dialPeer(n.port, uint32(1000+n.idx), n.cl.sr)
	if err != nil {
		return fmt.Errorf("node %d: %w", n.idx, err)
	}
	n.peer = p
	return waitHandshaked(n.server)
}

// pending tells how many items wait in the service's input channels (read through reflection:
// the service type is not exported). -1 when the fields cannot be found.
func (n *node) pending() int {
	v := reflect.ValueOf(n.srv)
	if v.Kind() == reflect.Pointer {
		v = v.Elem()
	}
	if v.Kind() != reflect.Struct {
		return -1
	}
	total := 0
	for _, f := range []string{"messages", "transactions"} {
		ch := v.FieldByName(f)
		if !ch.IsValid() || ch.Kind() != reflect.Chan {
			return -1
		}
		total += ch.Len()
	}
	return total
}

var errSync = errors.New("service did not become quiescent")

// errNoReset: the service answers, but its dBFT context does not move to the height after its
// ledger's tip (consensus.go handleChainBlock / dbft Reset never happened).
var errNoReset = errors.New("service stays on a height its ledger has already decided")

// sentinel builds the harness' barrier payload: a RecoveryRequest "from" validator 0 at height 0.
func (n *node) sentinel() *npayload.Extensible {
	data := []byte{0x40, 0, 0, 0, 0, 0, 0}  // type, block index (LE32) = 0, validator 0, view 0
	data = append(data, make([]byte, 8)...) // timestamp
	return &npayload.Extensible{
		Category:      npayload.ConsensusCategory,
		ValidBlockEnd: 0,
		Sender:        n.sentinelSender(),
		Data:          data,
	}
}

// sentinelSender: the service checks the sender against validator 0 of its ledger's current list.
func (n *node) sentinelSender() util.Uint160 {
	if n.cl.epoch {
		if vals, err := n.bc.GetNextBlockValidators(); err == nil && len(vals) > 0 {
			return vals[0].GetScriptHash()
		}
	}
	return n.cl.pubs[0].GetScriptHash()
}

// workingHeight is the height the node's dBFT works on. The timer shows it for a validator; a
// watch-only node never arms its timer (dbft.go:137), so epoch cases read the context.
func (n *node) workingHeight() uint32 {
	if n.cl.epoch {
		if d := dbftOf(n.srv); d != nil {
			return d.BlockIndex
		}
	}
	_, th, _, _ := n.tm.state()
	return th
}

// sync waits until the node's service has handled everything injected so far, including the
// chain's block notification when the ledger is ahead of the dBFT context.
func (n *node) sync() error {
	deadline := time.Now().Add(90 * time.Second)
	resetBy := time.Now().Add(20 * time.Second)
	drained, rounds, confirmed := false, 0, false
	for {
		// drain stale barrier tokens
		for {
			select {
			case <-n.barrier:
				continue
			default:
			}
			break
		}
		if err := n.srv.OnPayload(n.sentinel()); err != nil {
			return err
		}
		wait := time.Until(deadline)
		if n.cl.epoch && wait > 2*time.Second {
			// the validator list may have changed between building the sentinel and its check
			wait = 2 * time.Second
		}
		select {
		case <-n.barrier:
		case <-time.After(wait):
			if time.Now().Before(deadline) {
				drained, confirmed = false, false
				continue
			}
			return errSync
		}
		// The barrier travels through the payload channel; a transaction handed over by the
		// server waits in another one and the loop's select picks at random. Only when both are
		// empty does one more barrier prove that everything dequeued before it has been handled.
		pend := n.pending()
		switch {
		case pend > 0:
			drained, confirmed = false, false
			continue
		case pend == 0 && !drained:
			drained = true
			continue
		case pend < 0 && rounds < 6: // field names changed: fall back on repeated barriers
			rounds++
			continue
		}
		// dBFT must be working on the height after the ledger's tip.
		th := n.workingHeight()
		if th == n.bc.BlockHeight()+1 {
			// The chain's block notification reaches the service on its own channel, which pending()
			// does not see, and the timer shows the new height as soon as a view change nested in
			// Reset (replayed ChangeViews) re-arms it — before Reset is through. One more barrier
			// that finds the same picture proves the loop was idle when the picture was taken.
			if confirmed {
				return nil
			}
			confirmed = true
			continue
		}
		confirmed = false
		if time.Now().After(resetBy) {
			return fmt.Errorf("%w: dBFT height %d, ledger height %d", errNoReset, th, n.bc.BlockHeight())
		}
		time.Sleep(50 * time.Microsecond)
	}
}

// collect returns what the node did since the previous collect.
func (n *node) collect() (acts []act, errs []string, hints []int) {
	n.mu.Lock()
	acts, errs, hints = n.acts, n.errs, n.hints
	n.acts, n.errs, n.hints = nil, nil, nil
	n.mu.Unlock()
	return
}
