package main

// observe.go: what the deterministic machine model (lean/NeoModel/Model/DbftMach.lean) is compared
// with after every event: the protocol state of the REAL dBFT context of a node (read through the
// exported fields of dbft.Context; the unexported service/cache fields through reflection), and the
// inputs the model cannot know: the node's verified pool, the content of a fresh proposal, the
// virtual clock, the order in which Go iterated the maps of cached payloads.

import (
	"fmt"
	"reflect"
	"sort"
	"strings"
	"unsafe"

	"github.com/nspcc-dev/dbft"
	"github.com/nspcc-dev/neo-go/pkg/consensus"
	"github.com/nspcc-dev/neo-go/pkg/core/block"
	"github.com/nspcc-dev/neo-go/pkg/core/transaction"
	"github.com/nspcc-dev/neo-go/pkg/crypto/keys"
	"github.com/nspcc-dev/neo-go/pkg/smartcontract"
	"github.com/nspcc-dev/neo-go/pkg/io"
	npayload "github.com/nspcc-dev/neo-go/pkg/network/payload"
	"github.com/nspcc-dev/neo-go/pkg/util"
)

// readable returns a reflect.Value for an unexported field that may be read with Interface().
func readable(f reflect.Value) reflect.Value {
	return reflect.NewAt(f.Type(), unsafe.Pointer(f.UnsafeAddr())).Elem()
}

// dbftOf digs the *dbft.DBFT out of the (unexported) service struct.
func dbftOf(srv consensus.Service) *dbft.DBFT[util.Uint256] {
	v := reflect.ValueOf(srv)
	if v.Kind() != reflect.Pointer || v.Elem().Kind() != reflect.Struct {
		return nil
	}
	f := v.Elem().FieldByName("dbft")
	if !f.IsValid() {
		return nil
	}
	d, _ := readable(f).Interface().(*dbft.DBFT[util.Uint256])
	return d
}

func svcUint64(srv consensus.Service, name string) (uint64, bool) {
	f := reflect.ValueOf(srv).Elem().FieldByName(name)
	if !f.IsValid() || f.Kind() != reflect.Uint64 {
		return 0, false
	}
	return f.Uint(), true
}

func svcHashes(srv consensus.Service, name string) ([]util.Uint256, bool) {
	f := reflect.ValueOf(srv).Elem().FieldByName(name)
	if !f.IsValid() {
		return nil, false
	}
	hs, ok := readable(f).Interface().([]util.Uint256)
	return hs, ok
}

// txNames: transactions get small names in creation order.
type txNames struct {
	n map[util.Uint256]int
}

func (t *txNames) name(h util.Uint256) string {
	if k, ok := t.n[h]; ok {
		return fmt.Sprintf("t%d", k)
	}
	return "t0"
}

func (t *txNames) list(hs []util.Uint256) string {
	if len(hs) == 0 {
		return "-"
	}
	parts := make([]string, len(hs))
	for i, h := range hs {
		parts[i] = t.name(h)
	}
	return strings.Join(parts, ",")
}

// signedBy finds the known header of height h that signature sig of validator `from` signs.
func (d *decoder) signedBy(from int, h uint32, sig []byte) (v byte, pnum int, ok bool) {
	key := fmt.Sprintf("%d/%d/%x", from, h, sig)
	if c, hit := d.sigCache[key]; hit {
		return c.v, c.p, true
	}
	if from < 0 || from >= len(d.cl.pubs) {
		return 0, 0, false
	}
	for vv := 0; vv < 256; vv++ {
		prs, have := d.props[hvKey{h, byte(vv)}]
		if !have {
			continue
		}
		for _, pr := range prs {
			if pr.hdr != nil && d.cl.pubs[from].VerifyHashable(sig, magic, pr.hdr) {
				d.sigCache[key] = sigRes{byte(vv), d.nm.prop[pr.hash]}
				return byte(vv), d.nm.prop[pr.hash], true
			}
		}
	}
	return 0, 0, false
}

type sigRes struct {
	v byte
	p int
}

func (d *decoder) slotPrep(m dbft.ConsensusPayload[util.Uint256]) string {
	if m == nil {
		return "-"
	}
	switch m.Type() {
	case dbft.PrepareRequestType:
		return "R" + d.nm.pnum(m.Hash())
	case dbft.PrepareResponseType:
		return "S" + d.nm.pnum(m.GetPrepareResponse().PreparationHash())
	}
	return "?"
}

func (d *decoder) slotCommit(m dbft.ConsensusPayload[util.Uint256]) string {
	if m == nil {
		return "-"
	}
	v, p, ok := d.signedBy(int(m.ValidatorIndex()), m.Height(), m.GetCommit().Signature())
	if !ok {
		return fmt.Sprintf("%d:?", m.ViewNumber())
	}
	return fmt.Sprintf("%d:%d.%d", m.ViewNumber(), v, p)
}

func slotCV(m dbft.ConsensusPayload[util.Uint256]) string {
	if m == nil {
		return "-"
	}
	return fmt.Sprintf("%dr%d", m.ViewNumber(), byte(m.GetChangeView().Reason()))
}

func join[T any](xs []T, f func(T) string) string {
	parts := make([]string, len(xs))
	for i, x := range xs {
		parts[i] = f(x)
	}
	return strings.Join(parts, ",")
}

// cacheString renders dbft's cache of future payloads (helpers.go), read through reflection.
func (d *decoder) cacheString(db *dbft.DBFT[util.Uint256]) string {
	f := reflect.ValueOf(db).Elem().FieldByName("cache")
	if !f.IsValid() {
		return "?"
	}
	mail := readable(f).FieldByName("mail")
	if !mail.IsValid() || mail.Kind() != reflect.Map {
		return "?"
	}
	mail = readable(mail)
	var hs []int
	boxes := map[int]reflect.Value{}
	it := mail.MapRange()
	for it.Next() {
		h := int(it.Key().Uint())
		hs = append(hs, h)
		boxes[h] = it.Value()
	}
	sort.Ints(hs)
	var parts []string
	for _, h := range hs {
		box := boxes[h]
		if box.IsNil() {
			continue
		}
		var kinds []string
		for _, kind := range []struct{ field, tag string }{{"prepare", "P"}, {"chViews", "V"}, {"commit", "C"}} {
			m := box.Elem().FieldByName(kind.field)
			if !m.IsValid() || m.Kind() != reflect.Map {
				return "?"
			}
			m = readable(m)
			var es []string
			var ks []int
			vals := map[int]dbft.ConsensusPayload[util.Uint256]{}
			mi := m.MapRange()
			for mi.Next() {
				k := int(mi.Key().Uint())
				ks = append(ks, k)
				p, _ := mi.Value().Interface().(dbft.ConsensusPayload[util.Uint256])
				vals[k] = p
			}
			sort.Ints(ks)
			for _, k := range ks {
				p := vals[k]
				body := ""
				switch kind.tag {
				case "P":
					body = d.slotPrep(p)
				case "C":
					body = d.slotCommit(p)
				}
				es = append(es, fmt.Sprintf("%d@%d%s", k, p.ViewNumber(), body))
			}
			kinds = append(kinds, kind.tag+strings.Join(es, "+"))
		}
		parts = append(parts, fmt.Sprintf("%d:%s", h, strings.Join(kinds, ";")))
	}
	if len(parts) == 0 {
		return "-"
	}
	return strings.Join(parts, "|")
}

// observe renders the node's protocol state in the canonical form the Lean driver prints for the model.
func (r *run) observe(nd *node) string {
	db := dbftOf(nd.srv)
	if db == nil {
		return "unobservable"
	}
	c := &db.Context
	d := r.dec
	var b strings.Builder
	fmt.Fprintf(&b, "h=%d v=%d p=%d bs=%d", c.BlockIndex, c.ViewNumber, c.PrimaryIndex, b2i(c.BlockSent()))
	fmt.Fprintf(&b, " prep=%s", join(c.PreparationPayloads, d.slotPrep))
	fmt.Fprintf(&b, " cm=%s", join(c.CommitPayloads, d.slotCommit))
	fmt.Fprintf(&b, " cv=%s", join(c.ChangeViewPayloads, slotCV))
	fmt.Fprintf(&b, " lcv=%s", join(c.LastChangeViewPayloads, slotCV))
	fmt.Fprintf(&b, " ls=%s", join(c.LastSeenMessage, func(hv *dbft.HeightView) string {
		if hv == nil {
			return "-"
		}
		return fmt.Sprintf("%d.%d", hv.Height, hv.View)
	}))
	fmt.Fprintf(&b, " th=%s ms=%s tx=%d", r.tn.list(c.TransactionHashes), r.tn.list(c.MissingTransactions), len(c.Transactions))
	armed, th, tv, dur := nd.tm.full()
	fmt.Fprintf(&b, " tm=%d/%d/%d/%d", th, tv, int64(dur), b2i(armed))
	lts, _ := svcUint64(nd.srv, "lastTimestamp")
	lp, _ := svcHashes(nd.srv, "lastProposal")
	fmt.Fprintf(&b, " ch=%d lts=%d lp=%s", nd.bc.BlockHeight(), lts, r.tn.list(lp))
	fmt.Fprintf(&b, " cache=%s", d.cacheString(db))
	return b.String()
}

// poolLine reports the node's verified pool to the model when it changed.
func (r *run) pre(nd *node) {
	var hs []util.Uint256
	for _, tx := range nd.bc.GetMemPool().GetVerifiedTransactions() {
		hs = append(hs, tx.Hash())
	}
	s := r.tn.list(hs)
	if s != nd.lastPool {
		nd.lastPool = s
		r.line(fmt.Sprintf("mp %d %s", nd.idx, s))
	}
	nd.evNow = r.cl.clk.now().UnixNano()
}

// rawRec is the compact content of a RecoveryMessage as it is on the wire.
type rawRec struct {
	cvs     [][2]int // validator, original view
	hasReq  bool
	reqRaw  []byte // the carried prepareRequest's payload bytes (after the 7-byte message header)
	reqEnd  int
	ph      *util.Uint256
	preps   []int
	commits []rawCommit
}

type rawCommit struct {
	view, vi int
	sig      []byte
}

// parseRec reads recovery_message.go's wire form (EncodeBinary) from a payload's Data.
func parseRec(data []byte, sr bool) *rawRec {
	r := io.NewBinReaderFromBuf(data)
	r.ReadB()     // type
	r.ReadU32LE() // block index
	r.ReadB()     // validator
	r.ReadB()     // view
	res := &rawRec{}
	ncv := r.ReadVarUint()
	for i := uint64(0); i < ncv && r.Err == nil; i++ {
		vi := r.ReadB()
		ov := r.ReadB()
		r.ReadU64LE()
		r.ReadVarBytes(1024)
		res.cvs = append(res.cvs, [2]int{int(vi), int(ov)})
	}
	if r.ReadBool() {
		res.hasReq = true
		r.ReadB()
		r.ReadU32LE()
		r.ReadB()
		r.ReadB()
		bodyStart := len(data) - r.Len()
		defer func() {
			if res.reqEnd > bodyStart && res.reqEnd <= len(data) {
				res.reqRaw = data[bodyStart:res.reqEnd]
			}
		}()
		r.ReadU32LE() // version
		var h util.Uint256
		r.ReadBytes(h[:])
		r.ReadU64LE()
		r.ReadU64LE()
		n := r.ReadVarUint()
		for i := uint64(0); i < n && r.Err == nil; i++ {
			r.ReadBytes(h[:])
		}
		if sr {
			r.ReadBytes(h[:])
		}
		res.reqEnd = len(data) - r.Len()
	} else {
		l := r.ReadVarUint()
		if l == 32 {
			var h util.Uint256
			r.ReadBytes(h[:])
			res.ph = &h
		}
	}
	np := r.ReadVarUint()
	for i := uint64(0); i < np && r.Err == nil; i++ {
		res.preps = append(res.preps, int(r.ReadB()))
		r.ReadVarBytes(1024)
	}
	nc := r.ReadVarUint()
	for i := uint64(0); i < nc && r.Err == nil; i++ {
		v := r.ReadB()
		vi := r.ReadB()
		sig := make([]byte, 64)
		r.ReadBytes(sig)
		r.ReadVarBytes(1024)
		res.commits = append(res.commits, rawCommit{int(v), int(vi), sig})
	}
	if r.Err != nil {
		return nil
	}
	return res
}

// relabelled registers the hashes a PrepareRequest gets when a RecoveryMessage's receiver re-addresses
// it to another validator index (recovery_message.go:206-210 with a primary index that is not the
// request's sender): proposal N re-addressed to validator j is named 1000000*(j+1)+N.
func (d *decoder) relabelled(e *npayload.Extensible, n int) {
	if len(e.Data) < 7 {
		return
	}
	for j, pub := range d.cl.pubs {
		if j == int(e.Data[5]) {
			continue
		}
		data := append([]byte(nil), e.Data...)
		data[5] = byte(j)
		x := &npayload.Extensible{
			Category:        e.Category,
			ValidBlockStart: e.ValidBlockStart,
			ValidBlockEnd:   e.ValidBlockEnd,
			Sender:          pub.GetScriptHash(),
			Data:            data,
		}
		d.nm.prop[x.Hash()] = 1000000*(j+1) + n
	}
}

// policyBase is the size ApplyPolicyToTxSet (blockchain.go:2905-2939) starts from: a block without
// transactions that carries the default witness of n validators (66 bytes per signature, the multisig
// verification script).
func policyBase(bc interface {
	GetNextBlockValidators() ([]*keys.PublicKey, error)
}, sr bool, n int) int {
	vals, err := bc.GetNextBlockValidators()
	if err != nil {
		return 0
	}
	verif, err := smartcontract.CreateDefaultMultiSigRedeemScript(vals)
	if err != nil {
		return 0
	}
	m := smartcontract.GetDefaultHonestNodeCount(n)
	b := &block.Block{Header: block.Header{StateRootEnabled: sr, Script: transaction.Witness{InvocationScript: make([]byte, 66*m), VerificationScript: verif}}}
	return b.GetExpectedBlockSizeWithoutTransactions(1)
}
