package main

// epoch.go: clusters whose validator set changes at dBFT epoch boundaries.
//
// Seven nodes, one per key of the standby committee (an epoch is seven blocks). Which of them run
// the consensus for a block is what each node's own ledger says (service.getValidators ->
// Blockchain.GetNextBlockValidators at every dBFT Reset); the others are watch-only for that
// block. The set changes
//   - by configuration: ValidatorsHistory {0: 4, 7: 7, 14: 4} (f = 1, then f = 2, then f = 1 again);
//   - by votes: NEO is handed out, every key registers and votes for itself, the four richest keys
//     take over at block 7; the richest ones move their votes before block 14 and the set changes
//     once more.
// The network is synchronous (every payload reaches every node in the order sent; the timer with
// the earliest deadline fires when nothing is in flight), all nodes are honest, and the case runs
// through three epoch boundaries. Oracles on the real run: a block at every height, accepted by the
// ledger of the node whose consensus assembled it and by every other ledger, the same block
// everywhere, pending transactions included. Tie with the model (Model/DbftEpoch.lean): for every
// block the driver predicts the validator set named by the header's NextConsensus and the two
// cached lists of the NEO contract after it (GetNextBlockValidators, ComputeNextBlockValidators)
// from the elections alone; the elections are computed here independently of the ledger (standby
// order and GetNumOfCNs for the configured history, the vote table for the voted one).

import (
	"errors"
	"fmt"
	"sort"
	"strings"

	"github.com/nspcc-dev/neo-go/pkg/core"
	"github.com/nspcc-dev/neo-go/pkg/core/block"
	"github.com/nspcc-dev/neo-go/pkg/core/transaction"
	"github.com/nspcc-dev/neo-go/pkg/crypto/hash"
	"github.com/nspcc-dev/neo-go/pkg/crypto/keys"
	"github.com/nspcc-dev/neo-go/pkg/io"
	"github.com/nspcc-dev/neo-go/pkg/network/extpool"
	"github.com/nspcc-dev/neo-go/pkg/smartcontract"
	"github.com/nspcc-dev/neo-go/pkg/util"
	"github.com/nspcc-dev/neo-go/pkg/vm/emit"
)

const (
	epochCommittee = 7
	epochGAS       = 100000000
)

type epochSpec struct {
	name    string
	history map[uint32]uint32 // nil: four validators, elected
	heights uint32
	random  bool
}

var epochCorpus = []epochSpec{
	// the scenario of seeded/C19-m6/README.md: 4 validators up to block 7, 7 after it; and back
	{name: "epoch-history", history: map[uint32]uint32{0: 4, 7: 7, 14: 4}, heights: 16},
	// the README's first variant: the validators are voted out
	{name: "epoch-votes", heights: 16},
	// validator counts drawn per seed (4..7 each epoch, not all equal)
	{name: "epoch-random", random: true, heights: 23},
}

type epochMsg struct {
	from int
	raw  []byte
}

type epochRun struct {
	r       *run
	sp      epochSpec
	queue   []epochMsg
	commits []struct {
		node int
		p    putResult
	}
	sets    map[util.Uint160]string // consensus address -> name of the validator set
	nonce   uint32
	pending []*transaction.Transaction
}

// setName: the keys of a validator list as node numbers, in the list's order.
func (e *epochRun) setName(pubs keys.PublicKeys) string {
	var ids []string
	for _, p := range pubs {
		id := "?"
		for _, nd := range e.r.cl.nodes {
			if nd.priv.PublicKey().Equal(p) {
				id = fmt.Sprint(nd.idx)
			}
		}
		ids = append(ids, id)
	}
	name := strings.Join(ids, ",")
	if script, err := smartcontract.CreateDefaultMultiSigRedeemScript(pubs.Copy()); err == nil {
		e.sets[hash.Hash160(script)] = name
	}
	return name
}

// setOf: the validator list made of the given nodes (sorted by key, as the ledger keeps it).
func (e *epochRun) setOf(ids []int) string {
	var pubs keys.PublicKeys
	for _, i := range ids {
		pubs = append(pubs, e.r.cl.nodes[i].priv.PublicKey())
	}
	sort.Sort(pubs)
	return e.setName(pubs)
}

func (e *epochRun) addrName(a util.Uint160) string {
	if s, ok := e.sets[a]; ok {
		return s
	}
	return "unknown-" + a.StringLE()[:8]
}

// elected: the validators an election on the ledger with block h gives for block h+1 (consulted
// when h+1 starts an epoch), from the scenario alone.
func (e *epochRun) elected(h uint32) string {
	if e.sp.history != nil {
		best, k := uint32(0), uint32(0)
		for from, n := range e.sp.history {
			if from >= best && from <= h+1 {
				best, k = from, n
			}
		}
		var ids []int
		for i := 0; i < int(k); i++ {
			ids = append(ids, i) // no votes: the standby committee in its configured order
		}
		return e.setOf(ids)
	}
	switch {
	case h+1 < 7: // not consulted
		return e.setOf([]int{0, 1, 2, 3})
	case h+1 < 14:
		return e.setOf([]int{3, 4, 5, 6}) // 10+i millions of NEO vote for key i
	default:
		return e.setOf([]int{0, 1, 2, 3}) // keys 4, 5, 6 gave their votes to 0, 1, 2; 3 has 13 millions
	}
}

func (e *epochRun) fail(key, format string, a ...any) { e.r.fail(key, format, a...) }

// collect routes what a node did: broadcasts go to the network, committed blocks are recorded.
func (e *epochRun) collect(nd *node) {
	if err := nd.sync(); err != nil {
		e.r.machinery = fmt.Errorf("epoch: node %d: %w", nd.idx, err)
		e.r.aborted = true
		return
	}
	acts, errs, _ := nd.collect()
	for _, s := range errs {
		e.fail("service-error", "node %d logged: %s", nd.idx, s)
	}
	for _, a := range acts {
		switch a.kind {
		case 'E':
			e.queue = append(e.queue, epochMsg{from: nd.idx, raw: wire(a.ext)})
			e.r.o.Count("epoch:payload")
		case 'P':
			e.commits = append(e.commits, struct {
				node int
				p    putResult
			}{nd.idx, a.put})
		}
	}
}

func (e *epochRun) deliverAll() {
	for len(e.queue) > 0 && e.r.ok() {
		m := e.queue[0]
		e.queue = e.queue[1:]
		for _, nd := range e.r.cl.nodes {
			if nd.idx == m.from {
				continue
			}
			ext, err := unwire(m.raw)
			if err != nil {
				e.fail("wire-roundtrip", "a payload of node %d does not survive its wire form: %v", m.from, err)
				continue
			}
			if ok, err := hxSafePool(nd, ext); err != nil {
				if !errors.Is(err, extpool.ErrInvalidHeight) {
					e.fail("payload-rejected", "node %d's extensible pool rejects an honestly produced payload of node %d: %v", nd.idx, m.from, err)
				}
				continue
			} else if !ok {
				continue
			}
			if err := nd.srv.OnPayload(ext); err != nil {
				e.fail("onpayload-error", "node %d OnPayload: %v", nd.idx, err)
			}
			e.collect(nd)
			e.r.events++
		}
	}
}

// validators: the nodes whose dBFT takes part in the current block.
func (e *epochRun) validators() []int {
	var res []int
	for _, nd := range e.r.cl.nodes {
		if d := dbftOf(nd.srv); d != nil && d.MyIndex >= 0 {
			res = append(res, nd.idx)
		}
	}
	return res
}

// fireEarliest fires the timer with the earliest deadline among the validators working on height h.
func (e *epochRun) fireEarliest(h uint32) bool {
	var best *node
	var bd int64
	for _, nd := range e.r.cl.nodes {
		d := dbftOf(nd.srv)
		if d == nil || d.MyIndex < 0 {
			continue
		}
		armed, th, _, dl := nd.tm.state()
		if !armed || th != h {
			continue
		}
		if best == nil || dl < bd {
			best, bd = nd, dl
		}
	}
	if best == nil || !best.tm.fire() {
		return false
	}
	e.r.o.Count("epoch:timeout")
	e.collect(best)
	e.r.events++
	return true
}

// tx builds a transaction invoking a native method, signed by m of the given nodes' keys.
func (e *epochRun) tx(sysFee int64, m int, signers []int, contract util.Uint160, method string, params ...any) *transaction.Transaction {
	b := smartcontract.NewBuilder()
	b.InvokeWithAssert(contract, method, params...)
	script, err := b.Script()
	if err != nil {
		panic(err)
	}
	var privs []*keys.PrivateKey
	for _, i := range signers {
		privs = append(privs, e.r.cl.nodes[i].priv)
	}
	sort.Slice(privs, func(i, j int) bool { return privs[i].PublicKey().Cmp(privs[j].PublicKey()) < 0 })
	var pubs keys.PublicKeys
	for _, p := range privs {
		pubs = append(pubs, p.PublicKey())
	}
	var verif []byte
	if len(privs) == 1 {
		verif = pubs[0].GetVerificationScript()
	} else if verif, err = smartcontract.CreateMultiSigRedeemScript(m, pubs); err != nil {
		panic(err)
	}
	t := transaction.New(script, sysFee)
	e.nonce++
	t.Nonce = e.nonce
	t.ValidUntilBlock = e.r.cl.nodes[0].bc.BlockHeight() + 5
	t.NetworkFee = epochGAS
	t.Signers = []transaction.Signer{{Account: hash.Hash160(verif), Scopes: transaction.Global}}
	inv := io.NewBufBinWriter()
	for _, p := range privs[:m] {
		emit.Bytes(inv.BinWriter, p.SignHashable(magic, t))
	}
	t.Scripts = []transaction.Witness{{InvocationScript: inv.Bytes(), VerificationScript: verif}}
	return t
}

func acct(nd *node) util.Uint160 { return nd.priv.GetScriptHash() }

// txsFor: the transactions pending when block h is to be made.
func (e *epochRun) txsFor(h uint32) []*transaction.Transaction {
	cl := e.r.cl
	bc := cl.nodes[0].bc
	var txs []*transaction.Transaction
	if e.sp.history != nil {
		return nil
	}
	standby := []int{0, 1, 2, 3}
	var pubs keys.PublicKeys
	for _, i := range standby {
		pubs = append(pubs, cl.nodes[i].priv.PublicKey())
	}
	verif, err := smartcontract.CreateDefaultMultiSigRedeemScript(pubs)
	if err != nil {
		panic(err)
	}
	holder := hash.Hash160(verif)
	switch h {
	case 2: // key i gets 10+i millions of NEO and some GAS
		for _, nd := range cl.nodes {
			txs = append(txs,
				e.tx(epochGAS, 3, standby, bc.GoverningTokenHash(), "transfer", holder, acct(nd), (10+nd.idx)*1000000, nil),
				e.tx(epochGAS, 3, standby, bc.UtilityTokenHash(), "transfer", holder, acct(nd), 1100*epochGAS, nil))
		}
	case 3:
		for _, nd := range cl.nodes {
			txs = append(txs, e.tx(1001*epochGAS, 1, []int{nd.idx}, bc.GoverningTokenHash(), "registerCandidate", nd.priv.PublicKey().Bytes()))
		}
	case 4:
		for _, nd := range cl.nodes {
			txs = append(txs, e.tx(epochGAS, 1, []int{nd.idx}, bc.GoverningTokenHash(), "vote", acct(nd), nd.priv.PublicKey().Bytes()))
		}
	case 11: // the three richest keys move their votes: 0 gets 14, 1 gets 15, 2 gets 16 millions more
		for i := 4; i <= 6; i++ {
			nd := cl.nodes[i]
			txs = append(txs, e.tx(epochGAS, 1, []int{i}, bc.GoverningTokenHash(), "vote", acct(nd), cl.nodes[i-4].priv.PublicKey().Bytes()))
		}
	default:
		if h >= 5 { // one more pending transaction for every block
			txs = append(txs, e.tx(epochGAS, 1, []int{6}, bc.UtilityTokenHash(), "transfer", acct(cl.nodes[6]), acct(cl.nodes[0]), int(h), nil))
		}
	}
	return txs
}

func (r *run) runEpoch(sp epochSpec) {
	cl := r.cl
	e := &epochRun{r: r, sp: sp, sets: map[util.Uint160]string{}}
	gvals, err := cl.nodes[0].bc.GetNextBlockValidators()
	if err != nil {
		r.machinery = err
		return
	}
	r.line(fmt.Sprintf("epoch %d %s", epochCommittee, e.setName(gvals)))
	for _, nd := range cl.nodes {
		if err := nd.start(); err != nil {
			r.machinery = err
			return
		}
		e.collect(nd)
	}
	for h := uint32(1); h <= sp.heights && r.ok(); h++ {
		txs := e.txsFor(h)
		for _, nd := range cl.nodes {
			for _, t := range txs {
				if err := nd.bc.PoolTx(t); err != nil {
					r.machinery = fmt.Errorf("epoch: height %d: node %d does not pool a scenario transaction: %w", h, nd.idx, err)
					return
				}
			}
		}
		vals := e.validators()
		want := epochFirst(&sp)
		if first := (h - 1) - (h-1)%epochCommittee; first > 0 { // block `first` switches the list: its successors are signed by the new one
			want = len(strings.Split(e.elected(first-1), ","))
		}
		if len(vals) != want {
			e.fail("epoch-validators", "height %d: %d nodes take part in the consensus (%v), the scenario has %d validators here", h, len(vals), vals, want)
		}
		for _, nd := range cl.nodes {
			if wh := nd.workingHeight(); wh != h {
				e.fail("epoch-height", "node %d works on height %d, the network is at %d", nd.idx, wh, h)
			}
		}
		e.commits = e.commits[:0]
		// the synchronous schedule
		for step := 0; r.ok(); step++ {
			e.deliverAll()
			done := true
			for _, nd := range cl.nodes {
				if nd.bc.BlockHeight() < h {
					done = false
				}
			}
			if done || len(e.commits) > 0 {
				break
			}
			if step > 3*epochCommittee || !e.fireEarliest(h) {
				break
			}
		}
		if !r.ok() {
			return
		}
		if len(e.commits) == 0 {
			e.fail("stall", "height %d: synchronous network, all %d nodes honest, validators are nodes %v: no block", h, len(cl.nodes), vals)
			return
		}
		first := e.commits[0].p.b
		for _, c := range e.commits {
			b := c.p.b
			if b.Hash() != first.Hash() {
				e.fail("fork", "height %d: nodes %d and %d committed different blocks", h, e.commits[0].node, c.node)
			}
			if c.p.err != nil && !errors.Is(c.p.err, core.ErrAlreadyExists) {
				e.fail("commit-rejected", "height %d: node %d's own ledger rejected the block its consensus committed (validators are nodes %v): %v", b.Index, c.node, vals, c.p.err)
				return
			}
			r.o.Count("block-committed")
		}
		// every other ledger must take it too (or hold exactly this block)
		for _, nd := range cl.nodes {
			if nd.bc.BlockHeight() < h {
				if err := nd.bc.AddBlock(first); err != nil && !errors.Is(err, core.ErrAlreadyExists) {
					e.fail("relay-rejected", "height %d: the block committed by node %d is rejected by the ledger of node %d: %v", h, e.commits[0].node, nd.idx, err)
					return
				}
				r.o.Count("epoch:relayed")
			}
			if nd.bc.GetHeaderHash(h) != first.Hash() {
				e.fail("fork", "height %d: the ledger of node %d holds another block", h, nd.idx)
			}
			e.collect(nd)
		}
		e.deliverAll() // recovery answers and the like
		for _, t := range txs {
			if _, th, err := cl.nodes[0].bc.GetTransaction(t.Hash()); err != nil || th != h {
				e.fail("tx-not-included", "height %d: a pending transaction every node holds is not in the block (%d of %d pending are; lookup: height %d, %v)", h, len(first.Transactions), len(txs), th, err)
			}
		}
		r.committed[h] = first
		e.report(h, first)
	}
}

// report prints the model line of block h: the elections are the input, the ledger's lists and
// the header's NextConsensus the observation the driver's prediction is compared with.
func (e *epochRun) report(h uint32, b *block.Block) {
	bc := e.r.cl.nodes[0].bc
	elected := "-"
	if (h+1)%epochCommittee == 0 {
		elected = e.elected(h)
	}
	next, err1 := bc.GetNextBlockValidators()
	cnbv, err2 := keys.PublicKeys(bc.ComputeNextBlockValidators()), error(nil)
	if err1 != nil || err2 != nil {
		e.r.machinery = fmt.Errorf("epoch: validators of height %d: %v %v", h, err1, err2)
		return
	}
	nextN, cnbvN := e.setName(next), e.setName(cnbv)
	for _, nd := range e.r.cl.nodes[1:] {
		n2, _ := nd.bc.GetNextBlockValidators()
		if e.setName(n2) != nextN || e.setName(nd.bc.ComputeNextBlockValidators()) != cnbvN {
			e.fail("epoch-ledgers-differ", "height %d: the ledgers of nodes 0 and %d name different validators", h, nd.idx)
		}
	}
	e.r.o.Line(fmt.Sprintf("vblock %d %s", h, elected), fmt.Sprintf("nc=%s next=%s cnbv=%s", e.addrName(b.NextConsensus), nextN, cnbvN))
	e.r.o.Count("epoch:block")
	if nextN != cnbvN {
		e.r.o.Count("epoch:boundary-change")
	}
}

// epochFirst: the number of validators of the first epoch.
func epochFirst(sp *epochSpec) int {
	if sp.history != nil {
		return int(sp.history[0])
	}
	return 4
}
