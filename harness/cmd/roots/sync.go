package main

// A state-synced node (C03 on a node whose storage was produced by state sync, not by block execution): a
// fresh node is brought to the sync point P of the generated chain by the real statesync module (headers,
// the MPT nodes of the state root of P in the order the module asks for them, blocks), then the storage
// it serves is compared with what the state root of P commits to and with what the source served at P.

import (
	"bytes"
	"fmt"

	"github.com/nspcc-dev/neo-go/pkg/config"
	"github.com/nspcc-dev/neo-go/pkg/core"
	"github.com/nspcc-dev/neo-go/pkg/core/block"
	"github.com/nspcc-dev/neo-go/pkg/core/mpt"
	"github.com/nspcc-dev/neo-go/pkg/core/storage"
	"github.com/nspcc-dev/neo-go/pkg/neotest"
	"github.com/nspcc-dev/neo-go/pkg/neotest/chain"
	"github.com/nspcc-dev/neo-go/pkg/util"

	"verif/harness/internal/hx"
)

func syncedNode(o *hx.Out, k int, t *tb, src *core.Blockchain, acc neotest.Signer, recs map[uint32]*heightRec, ids []int32, finds []*findRead, gets []*getRead) {
	top := src.BlockHeight()
	if top%syncInterval == 0 {
		top-- // the module also needs the header after the sync point (it carries the state root of P)
	}
	P := (top / syncInterval) * syncInterval
	rec := recs[P]
	if P < 2*syncInterval || rec == nil {
		return
	}
	nodes := map[util.Uint256][]byte{}
	if err := src.GetStateSyncModule().Traverse(rec.root, func(n mpt.Node, nb []byte) bool {
		nodes[n.Hash()] = bytes.Clone(nb)
		return false
	}); err != nil {
		o.Fail("harness-sync-traverse", k, "%v", err)
		return
	}
	sb, _ := chain.NewSingleWithCustomConfigAndStore(t, func(c *config.Blockchain) {
		c.StateRootInHeader = true
		c.P2PStateExchangeExtensions = true
		c.StateSyncInterval = syncInterval
		c.Ledger.KeepOnlyLatestState = true
		c.Ledger.RemoveUntraceableBlocks = true
	}, storage.NewMemoryStore(), false)
	go sb.Run()
	defer sb.Close()
	mod := sb.GetStateSyncModule()
	if err := mod.Init(top); err != nil {
		o.Fail("sync-init", k, "Init(%d): %v", top, err)
		return
	}
	for round := 0; mod.IsActive(); round++ {
		if round > 20000 {
			o.Fail("sync-no-end", k, "state sync to %d (top %d) does not finish: headers %v data %v blocks %v, header height %d, unknown nodes %d", P, top, mod.NeedHeaders(), mod.NeedStorageData(), mod.NeedBlocks(), sb.HeaderHeight(), len(mod.GetUnknownMPTNodesBatch(8)))
			return
		}
		var err error
		switch {
		case mod.NeedHeaders():
			from := sb.HeaderHeight() + 1
			var hs []*block.Header
			for i := from; i <= min(top, from+5); i++ {
				h, herr := src.GetHeader(src.GetHeaderHash(i))
				if herr != nil {
					o.Fail("harness-sync-header", k, "%v", herr)
					return
				}
				hs = append(hs, h)
			}
			err = mod.AddHeaders(hs...)
		case mod.NeedStorageData():
			var batch [][]byte
			for _, h := range mod.GetUnknownMPTNodesBatch(8) {
				nb, ok := nodes[h]
				if !ok {
					o.Fail("sync-unknown-node", k, "the module asks for %s, not a node of the state of %d", h.StringLE(), P)
					return
				}
				batch = append(batch, nb)
			}
			err = mod.AddMPTNodes(batch)
		case mod.NeedBlocks():
			b, berr := src.GetBlock(src.GetHeaderHash(mod.BlockHeight() + 1))
			if berr != nil {
				o.Fail("harness-sync-block", k, "%v", berr)
				return
			}
			err = mod.AddBlock(b)
		default:
			o.Fail("sync-stuck", k, "module is active but needs nothing")
			return
		}
		if err != nil {
			o.Fail("sync-error", k, "state sync to %d: %v", P, err)
			return
		}
	}
	o.Count("statesync:done")
	if sb.BlockHeight() != P {
		o.Fail("sync-height", k, "synced node is at %d, sync point %d", sb.BlockHeight(), P)
		return
	}
	sm := sb.GetStateModule()
	sr, err := sm.GetStateRoot(P)
	if err != nil || sr.Root != rec.root {
		o.Fail("sync-state-root", k, "state root of %d on the synced node: %v (err %v)", P, sr, err)
		return
	}
	// the trie named by the root of P on the synced node = the storage it serves = the storage of P
	trie := dump{}
	sm.SeekStates(rec.root, []byte{}, func(kk, v []byte) bool {
		trie[string(kk)] = bytes.Clone(v)
		return true
	})
	flat := dumpAll(sb, ids)
	if !sameDump(flat, trie) {
		o.Fail("sync-storage-vs-trie", k, "sync point %d: the contract storage the synced node serves differs from the trie its state root names: %s", P, diffDump(flat, trie))
	}
	if !sameDump(flat, rec.d) {
		o.Fail("sync-storage-mismatch", k, "sync point %d: the contract storage the synced node serves differs from the storage of %d on the source: %s", P, P, diffDump(flat, rec.d))
	}
	// point reads and proofs for every key of the first contract
	pre := string(idKey(ids[0], nil))
	for kk, v := range rec.d {
		if len(kk) < 4 || kk[:4] != pre {
			continue
		}
		gs, gerr := sm.GetState(rec.root, []byte(kk))
		it := sb.GetStorageItem(ids[0], []byte(kk[4:]))
		if gerr != nil || !bytes.Equal(gs, v) || !bytes.Equal(it, v) {
			o.Fail("sync-get-mismatch", k, "sync point %d key %x: getstate %x (%v), storage item %x, source had %x", P, kk, gs, gerr, []byte(it), v)
			break
		}
		if proof, perr := sm.GetStateProof(rec.root, []byte(kk)); perr != nil {
			o.Fail("sync-proof-missing", k, "sync point %d key %x: %v", P, kk, perr)
			break
		} else if val, ok := mpt.VerifyProof(rec.root, []byte(kk), proof); !ok || !bytes.Equal(val, v) {
			o.Fail("sync-proof-incomplete", k, "sync point %d key %x", P, kk)
			break
		}
		o.Count("statesync:keys")
	}
	// live invocations on the synced node = what the source answered at P
	e := neotest.NewExecutor(t, sb, acc, acc)
	for i, fr := range finds {
		if got := runFind(sb, e, fr.script, 0, false); got != rec.finds[i] {
			o.Fail("sync-find-mismatch", k, "sync point %d %s: synced node %s, source %s", P, fr.line("live"), got, rec.finds[i])
			break
		}
	}
	for i, g := range gets {
		if got := runGet(sb, e, g.script, 0, false); got != rec.gets[i] {
			o.Fail("sync-get-invoke-mismatch", k, "sync point %d %s: synced node %s, source %s", P, g.line("live"), got, rec.gets[i])
			break
		}
	}
	_ = fmt.Sprint
}
