// Command roots: C03 — the state root of every height commits exactly to contract storage.
//
// Per case: a neotest chain (all states kept), a hand-assembled storage contract S, a random
// history of blocks with puts/deletes (some transactions faulting). After every block the live
// storage of every contract id is dumped and a sample of live reads (get / find with every option
// set) is recorded. At the end, for every height h, the trie named by the state root of h is read
// through every historic path (SeekStates, FindStates, GetState, GetStateProof+VerifyProof,
// GetTestHistoricVM) and compared with what the live node held/returned at height h.
//
// Stream lines (for the Lean driver, which keeps a model trie per case):
//
//	batch <h> <k1> <v1|del> ...        -> <state root hex>      (MPT keys = id(4 LE)||key, sorted)
//	get <h> <key>                      -> <value hex>|none
package main

import (
	"bytes"
	"encoding/binary"
	"encoding/hex"
	"fmt"
	"sort"
	"strings"

	"github.com/nspcc-dev/neo-go/pkg/config"
	"github.com/nspcc-dev/neo-go/pkg/core"
	"github.com/nspcc-dev/neo-go/pkg/core/interop/interopnames"
	"github.com/nspcc-dev/neo-go/pkg/core/mpt"
	"github.com/nspcc-dev/neo-go/pkg/core/native/nativenames"
	"github.com/nspcc-dev/neo-go/pkg/core/native/noderoles"
	"github.com/nspcc-dev/neo-go/pkg/crypto/keys"
	"github.com/nspcc-dev/neo-go/pkg/core/state"
	"github.com/nspcc-dev/neo-go/pkg/core/transaction"
	"github.com/nspcc-dev/neo-go/pkg/io"
	"github.com/nspcc-dev/neo-go/pkg/neotest"
	"github.com/nspcc-dev/neo-go/pkg/neotest/chain"
	"github.com/nspcc-dev/neo-go/pkg/smartcontract"
	"github.com/nspcc-dev/neo-go/pkg/smartcontract/callflag"
	"github.com/nspcc-dev/neo-go/pkg/smartcontract/manifest"
	"github.com/nspcc-dev/neo-go/pkg/smartcontract/nef"
	"github.com/nspcc-dev/neo-go/pkg/smartcontract/trigger"
	"github.com/nspcc-dev/neo-go/pkg/util"
	"github.com/nspcc-dev/neo-go/pkg/vm/emit"
	"github.com/nspcc-dev/neo-go/pkg/vm/opcode"
	"github.com/nspcc-dev/neo-go/pkg/vm/stackitem"
	"github.com/nspcc-dev/neo-go/pkg/vm/vmstate"

	"verif/harness/internal/hx"
	"verif/harness/internal/prng"
)

// ---- the storage contract, assembled by hand ---------------------------------------------

type method struct {
	name   string
	params []smartcontract.ParamType
	ret    smartcontract.ParamType
	safe   bool
	code   func(w *io.BinWriter)
}

func buildContract(sender util.Uint160, name string) *neotest.Contract {
	ba, in := smartcontract.ByteArrayType, smartcontract.IntegerType
	ms := []method{
		{"put", []smartcontract.ParamType{ba, ba}, smartcontract.VoidType, false, func(w *io.BinWriter) {
			emit.Instruction(w, opcode.INITSLOT, []byte{0, 2})
			emit.Opcodes(w, opcode.LDARG1, opcode.LDARG0)
			emit.Syscall(w, interopnames.SystemStorageGetContext)
			emit.Syscall(w, interopnames.SystemStoragePut)
			emit.Opcodes(w, opcode.RET)
		}},
		{"del", []smartcontract.ParamType{ba}, smartcontract.VoidType, false, func(w *io.BinWriter) {
			emit.Instruction(w, opcode.INITSLOT, []byte{0, 1})
			emit.Opcodes(w, opcode.LDARG0)
			emit.Syscall(w, interopnames.SystemStorageGetContext)
			emit.Syscall(w, interopnames.SystemStorageDelete)
			emit.Opcodes(w, opcode.RET)
		}},
		{"putAbort", []smartcontract.ParamType{ba, ba}, smartcontract.VoidType, false, func(w *io.BinWriter) {
			emit.Instruction(w, opcode.INITSLOT, []byte{0, 2})
			emit.Opcodes(w, opcode.LDARG1, opcode.LDARG0)
			emit.Syscall(w, interopnames.SystemStorageGetContext)
			emit.Syscall(w, interopnames.SystemStoragePut)
			emit.Opcodes(w, opcode.ABORT)
		}},
		{"get", []smartcontract.ParamType{ba}, ba, true, func(w *io.BinWriter) {
			emit.Instruction(w, opcode.INITSLOT, []byte{0, 1})
			emit.Opcodes(w, opcode.LDARG0)
			emit.Syscall(w, interopnames.SystemStorageGetReadOnlyContext)
			emit.Syscall(w, interopnames.SystemStorageGet)
			emit.Opcodes(w, opcode.RET)
		}},
		{"find", []smartcontract.ParamType{ba, in}, smartcontract.ArrayType, true, func(w *io.BinWriter) {
			emit.Instruction(w, opcode.INITSLOT, []byte{2, 2})
			emit.Opcodes(w, opcode.NEWARRAY0, opcode.STLOC0)
			emit.Opcodes(w, opcode.LDARG1, opcode.LDARG0)
			emit.Syscall(w, interopnames.SystemStorageGetReadOnlyContext)
			emit.Syscall(w, interopnames.SystemStorageFind)
			emit.Opcodes(w, opcode.STLOC1)
			// loop (offset L): LDLOC1 SYSCALL(next) JMPIFNOT +end ; LDLOC0 LDLOC1 SYSCALL(value) APPEND ; JMP L
			// sizes: LDLOC1(1) SYSCALL(5) JMPIFNOT(2) LDLOC0(1) LDLOC1(1) SYSCALL(5) APPEND(1) JMP(2)
			emit.Opcodes(w, opcode.LDLOC1)
			emit.Syscall(w, interopnames.SystemIteratorNext)
			emit.Instruction(w, opcode.JMPIFNOT, []byte{2 + 1 + 1 + 5 + 1 + 2})
			emit.Opcodes(w, opcode.LDLOC0, opcode.LDLOC1)
			emit.Syscall(w, interopnames.SystemIteratorValue)
			emit.Opcodes(w, opcode.APPEND)
			emit.Instruction(w, opcode.JMP, []byte{byte(256 - (1 + 5 + 2 + 1 + 1 + 5 + 1))})
			emit.Opcodes(w, opcode.LDLOC0, opcode.RET)
		}},
	}
	w := io.NewBufBinWriter()
	m := manifest.NewManifest(name)
	for _, md := range ms {
		off := w.Len()
		md.code(w.BinWriter)
		ps := make([]manifest.Parameter, len(md.params))
		for i, p := range md.params {
			ps[i] = manifest.NewParameter(fmt.Sprintf("p%d", i), p)
		}
		m.ABI.Methods = append(m.ABI.Methods, manifest.Method{Name: md.name, Offset: off, Parameters: ps, ReturnType: md.ret, Safe: md.safe})
	}
	script := w.Bytes()
	ne, err := nef.NewFile(script)
	if err != nil {
		panic(err)
	}
	return &neotest.Contract{Hash: state.CreateContractHash(sender, ne.Checksum, name), NEF: ne, Manifest: m}
}

// ---- helpers --------------------------------------------------------------------------------

type kv struct{ k, v []byte }

type dump map[string][]byte // MPT key (id||key) -> value

func idKey(id int32, key []byte) []byte {
	b := make([]byte, 4, 4+len(key))
	binary.LittleEndian.PutUint32(b, uint32(id))
	return append(b, key...)
}

func dumpAll(bc *core.Blockchain, ids []int32) dump {
	d := dump{}
	for _, id := range ids {
		bc.SeekStorage(id, nil, func(k, v []byte) bool {
			d[string(idKey(id, k))] = bytes.Clone(v)
			return true
		})
	}
	return d
}

func sortedKeys(d dump) []string {
	ks := make([]string, 0, len(d))
	for k := range d {
		ks = append(ks, k)
	}
	sort.Strings(ks)
	return ks
}

func itemStr(it stackitem.Item) string {
	switch it.Type() {
	case stackitem.ArrayT, stackitem.StructT:
		arr := it.Value().([]stackitem.Item)
		s := make([]string, len(arr))
		for i := range arr {
			s[i] = itemStr(arr[i])
		}
		return "[" + strings.Join(s, ",") + "]"
	case stackitem.AnyT:
		return "null"
	default:
		b, err := it.TryBytes()
		if err != nil {
			return "?" + it.Type().String()
		}
		return hx.Hex(b)
	}
}

// runRO executes script in a test VM: live (historic=0) or on the state of height h (historic=h+1).
func runRO(bc *core.Blockchain, e *neotest.Executor, script []byte, nextHeight uint32, historic bool) string {
	return hx.Safe(func() string {
		tx := transaction.New(script, 0)
		tx.Signers = []transaction.Signer{{Account: e.Validator.ScriptHash(), Scopes: transaction.Global}}
		tx.ValidUntilBlock = bc.BlockHeight() + 1
		var (
			vmState vmstate.State
			res     string
		)
		if historic {
			ic, err := bc.GetTestHistoricVM(trigger.Application, tx, nextHeight)
			if err != nil {
				return "err:" + err.Error()
			}
			defer ic.Finalize()
			ic.VM.LoadWithFlags(script, callflag.All)
			_ = ic.VM.Run()
			vmState = ic.VM.State()
			if vmState == vmstate.Halt && ic.VM.Estack().Len() > 0 {
				res = itemStr(ic.VM.Estack().Pop().Item())
			}
		} else {
			ic, err := bc.GetTestVM(trigger.Application, tx, nil)
			if err != nil {
				return "err:" + err.Error()
			}
			defer ic.Finalize()
			ic.VM.LoadWithFlags(script, callflag.All)
			_ = ic.VM.Run()
			vmState = ic.VM.State()
			if vmState == vmstate.Halt && ic.VM.Estack().Len() > 0 {
				res = itemStr(ic.VM.Estack().Pop().Item())
			}
		}
		return vmState.String() + ":" + res
	})
}

func callScript(h util.Uint160, method string, args ...any) []byte {
	w := io.NewBufBinWriter()
	emit.AppCall(w.BinWriter, h, method, callflag.All, args...)
	return w.Bytes()
}

var alphabet = []byte{0x01, 0x02, 0x10, 0x12}

func genKey(r *prng.R, minLen int) []byte {
	n := r.Range(minLen, 3)
	if r.Chance(1, 12) {
		n = r.Range(4, 9)
	}
	k := make([]byte, n)
	for i := range k {
		k[i] = alphabet[r.Intn(len(alphabet))]
	}
	return k
}

func genVal(r *prng.R) []byte {
	switch r.Intn(6) {
	case 0:
		return []byte{} // empty value
	case 1:
		return []byte{0xAA} // shared by many keys
	case 2:
		return r.Bytes(r.Range(30, 70)) // longer than a hash
	default:
		return r.Bytes(r.Range(1, 3))
	}
}

var findOpts = []int{0, 1, 2, 3, 4, 128, 129, 130, 131, 132}

// reads is a sample of read-only scripts evaluated live at every height and historically later.
type read struct {
	desc   string
	script []byte
}

type heightRec struct {
	d     dump
	root  util.Uint256
	reads []string // results of the fixed read sample at this height
}

func main() {
	f := hx.ParseFlags()
	o := hx.NewOut(f.Out)
	defer o.Close()
	n := f.N(25, 1500)
	for k := 0; k < n; k++ {
		if !f.Want(k) {
			continue
		}
		o.Case(k)
		t := &tb{}
		func() {
			defer t.done()
			defer func() {
				if r := recover(); r != nil {
					if fn, ok := r.(failNow); ok {
						o.Fail("harness-failnow", k, "neotest assertion failed: %s", fn.msg)
					} else {
						o.Fail("panic", k, "panic: %v", r)
					}
				}
			}()
			runCase(o, f, k, t)
		}()
	}
}

func runCase(o *hx.Out, f *hx.Flags, k int, t *tb) {
	r := prng.ForCase(f.Seed, k)
	// node-local state retention mode: 0 = keep every state (default), 1 = RemoveUntraceableBlocks
	// (reference-counted MPT with GC flags; all heights of a short chain are still retained),
	// 2 = KeepOnlyLatestState (reference-counted, only the latest root is readable)
	stMode := r.Weighted([]int{5, 3, 2})
	o.Count(fmt.Sprintf("state-mode:%d", stMode))
	bc, acc := chain.NewSingleWithCustomConfig(t, func(c *config.Blockchain) {
		switch stMode {
		case 1:
			c.Ledger.RemoveUntraceableBlocks = true
		case 2:
			c.Ledger.KeepOnlyLatestState = true
		}
	})
	e := neotest.NewExecutor(t, bc, acc, acc)
	c := buildContract(e.Validator.ScriptHash(), "S")
	c2 := buildContract(e.Validator.ScriptHash(), "S2")
	e.DeployContract(t, c, nil)
	e.DeployContract(t, c2, nil)
	cs, err := bc.GetContractState(c.Hash), error(nil)
	_ = err
	cs2 := bc.GetContractState(c2.Hash)
	if cs == nil || cs2 == nil {
		o.Fail("harness-deploy", k, "contract not deployed")
		return
	}
	ids := []int32{cs.ID, cs2.ID}
	for _, nc := range bc.GetNatives() {
		ids = append(ids, nc.ID)
	}
	contracts := []*neotest.Contract{c, c2}

	// the fixed sample of read-only scripts
	var reads []read
	prefixes := [][]byte{{}, {0x01}, {0x01, 0x02}, {0x10}, {0x12, 0x01}, {0x02, 0x02, 0x02}}
	for _, p := range prefixes {
		for _, op := range findOpts {
			reads = append(reads, read{fmt.Sprintf("find %x %d", p, op), callScript(c.Hash, "find", p, op)})
		}
	}
	for i := 0; i < 6; i++ {
		key := genKey(r, 0)
		reads = append(reads, read{fmt.Sprintf("get %x", key), callScript(c.Hash, "get", key)})
	}
	roleHash := e.NativeHash(t, nativenames.Designation)
	roles := []noderoles.Role{noderoles.StateValidator, noderoles.Oracle}
	for _, role := range roles {
		for _, idx := range []int{0, 1, 2, 3, 5, 8, 13, 21, 40} {
			reads = append(reads, read{fmt.Sprintf("role %d %d", role, idx), callScript(roleHash, "getDesignatedByRole", int64(role), idx)})
		}
	}
	var rolePubs []any
	for i := 0; i < 3; i++ {
		pk, err := keys.NewPrivateKeyFromBytes(append(make([]byte, 31), byte(i+1)))
		if err != nil {
			panic(err)
		}
		rolePubs = append(rolePubs, pk.PublicKey().Bytes())
	}

	recs := map[uint32]*heightRec{}
	record := func() {
		h := bc.BlockHeight()
		sr, err := bc.GetStateModule().GetStateRoot(h)
		if err != nil {
			o.Fail("no-state-root", k, "height %d: %v", h, err)
			return
		}
		rec := &heightRec{d: dumpAll(bc, ids), root: sr.Root}
		for _, rd := range reads {
			rec.reads = append(rec.reads, runRO(bc, e, rd.script, 0, false))
		}
		recs[h] = rec
	}
	h0 := bc.BlockHeight()
	record()
	prev := dump{}
	emitBatch := func(h uint32, prev, cur dump) {
		var parts []string
		keys := map[string]bool{}
		for kk := range prev {
			keys[kk] = true
		}
		for kk := range cur {
			keys[kk] = true
		}
		ks := make([]string, 0, len(keys))
		for kk := range keys {
			ks = append(ks, kk)
		}
		sort.Strings(ks)
		for _, kk := range ks {
			pv, pok := prev[kk]
			cv, cok := cur[kk]
			switch {
			case cok && (!pok || !bytes.Equal(pv, cv)):
				parts = append(parts, hx.Hex([]byte(kk)), hx.Hex(cv))
			case pok && !cok:
				parts = append(parts, hx.Hex([]byte(kk)), "del")
			}
		}
		o.Line(fmt.Sprintf("batch %d %s", h, strings.Join(parts, " ")), hex.EncodeToString(recs[h].root[:]))
		o.Add("batch-changes", len(parts)/2)
	}
	// the whole storage at h0 (genesis + deployments) as one batch from the empty trie
	emitBatch(h0, prev, recs[h0].d)
	prev = recs[h0].d

	nBlocks := r.Range(8, 25)
	live := map[string]bool{}
	var usedKeys [][]byte
	for b := 0; b < nBlocks; b++ {
		ntx := r.Range(0, 4)
		var txs []*transaction.Transaction
		for i := 0; i < ntx; i++ {
			cc := contracts[r.Weighted([]int{4, 1})]
			w := io.NewBufBinWriter()
			nops := r.Range(1, 5)
			abort := r.Chance(1, 8)
			for j := 0; j < nops; j++ {
				var key []byte
				if len(usedKeys) > 0 && r.Chance(1, 2) {
					key = usedKeys[r.Intn(len(usedKeys))]
				} else {
					key = genKey(r, 0)
					usedKeys = append(usedKeys, key)
				}
				if r.Chance(1, 3) {
					emit.AppCall(w.BinWriter, cc.Hash, "del", callflag.All, key)
					o.Count("op:del")
					if live[string(key)] {
						o.Count("op:del-present")
					}
				} else {
					emit.AppCall(w.BinWriter, cc.Hash, "put", callflag.All, key, genVal(r))
					o.Count("op:put")
					live[string(key)] = true
				}
			}
			if abort {
				emit.AppCall(w.BinWriter, cc.Hash, "putAbort", callflag.All, genKey(r, 0), []byte{0xEE})
				o.Count("tx:faulting")
			}
			tx := e.PrepareInvocation(t, w.Bytes(), []neotest.Signer{e.Validator})
			txs = append(txs, tx)
		}
		if r.Chance(1, 4) {
			role := roles[r.Intn(len(roles))]
			n := r.Range(1, 3)
			w := io.NewBufBinWriter()
			emit.AppCall(w.BinWriter, roleHash, "designateAsRole", callflag.All, int64(role), rolePubs[:n])
			txs = append(txs, e.PrepareInvocation(t, w.Bytes(), []neotest.Signer{e.Committee}))
			o.Count("op:designate")
		}
		e.AddNewBlock(t, txs...)
		record()
		h := bc.BlockHeight()
		cur := recs[h].d
		emitBatch(h, prev, cur)
		prev = cur
	}
	top := bc.BlockHeight()
	o.Seen(recs[top].root.StringLE())
	if k < 2 {
		o.Sample(fmt.Sprintf("case %d: %d blocks, total storage: %d keys, root %s", k, nBlocks, len(recs[top].d), recs[top].root.StringLE()))
	}

	// ---- historic reads of every height --------------------------------------------------
	sm := bc.GetStateModule()
	for h := h0; h <= top; h++ {
		rec := recs[h]
		if rec == nil {
			continue
		}
		if stMode == 2 && h != top {
			continue // only the latest state is retained
		}
		o.Count("heights-checked")
		// (1) whole trie = whole storage: nothing missing, nothing extra
		got := dump{}
		sm.SeekStates(rec.root, []byte{}, func(kk, v []byte) bool {
			got[string(kk)] = bytes.Clone(v)
			return true
		})
		if len(got) != len(rec.d) {
			o.Fail("trie-content-size", k, "height %d: trie has %d pairs, storage had %d", h, len(got), len(rec.d))
		}
		for kk, v := range rec.d {
			gv, ok := got[kk]
			if !ok {
				o.Fail("trie-missing-key", k, "height %d key %x", h, kk)
				break
			}
			if !bytes.Equal(gv, v) {
				o.Fail("trie-wrong-value", k, "height %d key %x: trie %x storage %x", h, kk, gv, v)
				break
			}
		}
		for kk := range got {
			if _, ok := rec.d[kk]; !ok {
				o.Fail("trie-extra-key", k, "height %d key %x", h, kk)
				break
			}
		}
		// (2) SeekStates / FindStates by prefix, GetState, proofs — on contract S
		sKeys := []string{}
		pre := string(idKey(ids[0], nil))
		for _, kk := range sortedKeys(rec.d) {
			if strings.HasPrefix(kk, pre) {
				sKeys = append(sKeys, kk)
			}
		}
		for _, p := range prefixes {
			full := string(idKey(ids[0], p))
			var want []string
			for _, kk := range sKeys {
				if strings.HasPrefix(kk, full) {
					want = append(want, kk)
				}
			}
			var gotK []string
			okOrder := true
			sm.SeekStates(rec.root, []byte(full), func(kk, v []byte) bool {
				key := full + string(kk)
				if !bytes.Equal(rec.d[key], v) {
					okOrder = false
				}
				gotK = append(gotK, key)
				return true
			})
			if !okOrder || strings.Join(gotK, "|") != strings.Join(want, "|") {
				o.Fail("seekstates-mismatch", k, "height %d prefix %x: got %x want %x", h, full, gotK, want)
			}
			o.Count("seekstates")
			// FindStates with from = nil / each present key / an absent key
			froms := [][]byte{nil, {}}
			for _, kk := range want {
				froms = append(froms, []byte(kk[len(full):]))
			}
			froms = append(froms, []byte{0x01, 0x11}, []byte{0x00}, []byte{0xff})
			for _, from := range froms {
				maxN := []int{1, 2, 1000}[r.Intn(3)]
				res, err := sm.FindStates(rec.root, []byte(full), from, maxN)
				var exp []string
				for _, kk := range want {
					suffix := kk[len(full):]
					if from == nil || bytes.Compare([]byte(suffix), from) > 0 {
						exp = append(exp, kk)
					}
				}
				if len(exp) > maxN {
					exp = exp[:maxN]
				}
				if err != nil {
					// Find reports an error when the prefix path does not exist in the trie at all.
					if len(want) != 0 {
						o.Fail("findstates-error", k, "height %d prefix %x from %x: %v (expected %d results)", h, full, from, err, len(exp))
					}
					continue
				}
				var gk []string
				bad := false
				for _, kvp := range res {
					gk = append(gk, string(kvp.Key))
					if !bytes.Equal(rec.d[string(kvp.Key)], kvp.Value) {
						bad = true
					}
				}
				if bad || strings.Join(gk, "|") != strings.Join(exp, "|") {
					o.Fail("findstates-mismatch", k, "height %d prefix %x from %x max %d: got %x want %x", h, full, from, maxN, gk, exp)
				}
				o.Count("findstates")
			}
		}
		// GetState + proofs for present and absent keys
		probe := [][]byte{}
		for _, kk := range sKeys {
			probe = append(probe, []byte(kk))
		}
		for i := 0; i < 6; i++ {
			probe = append(probe, idKey(ids[0], genKey(r, 0)))
		}
		var someProof [][]byte
		var someProofKey []byte
		for _, pk := range probe {
			want, present := rec.d[string(pk)]
			v, err := sm.GetState(rec.root, pk)
			if present {
				if err != nil || !bytes.Equal(v, want) {
					o.Fail("getstate-present", k, "height %d key %x: got %x err %v want %x", h, pk, v, err, want)
				}
			} else if err == nil {
				o.Fail("getstate-absent", k, "height %d key %x: got %x for an absent key", h, pk, v)
			}
			if present {
				o.Line(fmt.Sprintf("get %d %s", h, hx.Hex(pk)), hx.Hex(want))
			} else {
				o.Line(fmt.Sprintf("get %d %s", h, hx.Hex(pk)), "none")
			}
			proof, perr := sm.GetStateProof(rec.root, pk)
			if present {
				if perr != nil {
					o.Fail("proof-missing", k, "height %d key %x: %v", h, pk, perr)
					continue
				}
				val, ok := mpt.VerifyProof(rec.root, pk, proof)
				if !ok || !bytes.Equal(val, want) {
					o.Fail("proof-incomplete", k, "height %d key %x: verify ok=%v val=%x want %x", h, pk, ok, val, want)
				}
				o.Count("proof-verified")
				someProof, someProofKey = proof, pk
				// tamper: flip a byte in one node / drop a node → must not verify to a different value
				if len(proof) > 0 {
					tp := make([][]byte, len(proof))
					for i := range proof {
						tp[i] = bytes.Clone(proof[i])
					}
					i := r.Intn(len(tp))
					if len(tp[i]) > 0 {
						tp[i][r.Intn(len(tp[i]))] ^= 1 << uint(r.Intn(8))
					}
					if val, ok := mpt.VerifyProof(rec.root, pk, tp); ok && !bytes.Equal(val, want) {
						o.Fail("proof-unsound-tamper", k, "height %d key %x: tampered proof verifies to %x (stored %x)", h, pk, val, want)
					}
					o.Count("proof-tampered")
				}
			} else {
				if perr == nil {
					if val, ok := mpt.VerifyProof(rec.root, pk, proof); ok {
						o.Fail("proof-unsound-absent", k, "height %d absent key %x verifies to %x", h, pk, val)
					}
				}
				// someone else's proof must not verify for an absent key
				if someProof != nil && !bytes.Equal(someProofKey, pk) {
					if val, ok := mpt.VerifyProof(rec.root, pk, someProof); ok {
						o.Fail("proof-unsound-absent", k, "height %d absent key %x verifies to %x with the proof of %x", h, pk, val, someProofKey)
					}
				}
				o.Count("proof-absent")
			}
		}
		// a proof from another height's root must not verify to a different value under this root
		if oh := h0 + uint32(r.Intn(int(top-h0)+1)); oh != h && recs[oh] != nil && len(sKeys) > 0 {
			pk := []byte(sKeys[r.Intn(len(sKeys))])
			if proof, err := sm.GetStateProof(recs[oh].root, pk); err == nil {
				if val, ok := mpt.VerifyProof(rec.root, pk, proof); ok && !bytes.Equal(val, rec.d[string(pk)]) {
					o.Fail("proof-unsound-otherroot", k, "height %d key %x: proof from height %d verifies to %x, stored %x", h, pk, oh, val, rec.d[string(pk)])
				}
				o.Count("proof-otherroot")
			}
		}
		// (3) historic invocations = live invocations at that height
		if h >= 1 && stMode != 2 {
			for i, rd := range reads {
				if r.Chance(1, 3) && h != top {
					continue // sample two thirds on inner heights
				}
				got := runRO(bc, e, rd.script, h+1, true)
				if got != rec.reads[i] {
					o.Fail("historic-invoke-mismatch:"+strings.Fields(rd.desc)[0], k, "height %d %s: historic %s live %s", h, rd.desc, got, rec.reads[i])
				}
				o.Count("historic-invoke")
			}
		}
	}
}
