// Command roots: C03 — the state root of every height commits exactly to contract storage.
//
// Per case: a neotest chain (all states kept), a hand-assembled storage contract S, a random
// history of blocks with puts/deletes (some transactions faulting). After every block the live
// storage of every contract id is dumped and a sample of live reads (get / find with every option
// set) is recorded. At the end, for every height h, the trie named by the state root of h is read
// through every historic path (SeekStates, FindStates, GetState, GetStateProof+VerifyProof,
// GetTestHistoricVM) and compared with what the live node held/returned at height h.
//
// Stream lines (for the Lean driver, which keeps a model trie per case):
//
//	batch <h> <k1> <v1|del> ...        -> <state root hex>      (MPT keys = id(4 LE)||key, sorted)
//	get <h> <key>                      -> <value hex>|none
package main

import (
	"bytes"
	"encoding/binary"
	"encoding/hex"
	"errors"
	"fmt"
	"math/big"
	"slices"
	"sort"
	"strings"

	"github.com/nspcc-dev/neo-go/pkg/config"
	"github.com/nspcc-dev/neo-go/pkg/config/limits"
	"github.com/nspcc-dev/neo-go/pkg/core"
	"github.com/nspcc-dev/neo-go/pkg/core/interop"
	"github.com/nspcc-dev/neo-go/pkg/core/interop/interopnames"
	istorage "github.com/nspcc-dev/neo-go/pkg/core/interop/storage"
	"github.com/nspcc-dev/neo-go/pkg/core/mpt"
	"github.com/nspcc-dev/neo-go/pkg/core/native/nativenames"
	"github.com/nspcc-dev/neo-go/pkg/core/native/noderoles"
	"github.com/nspcc-dev/neo-go/pkg/core/state"
	"github.com/nspcc-dev/neo-go/pkg/core/storage"
	"github.com/nspcc-dev/neo-go/pkg/core/storage/dbconfig"
	"github.com/nspcc-dev/neo-go/pkg/core/transaction"
	"github.com/nspcc-dev/neo-go/pkg/crypto/keys"
	"github.com/nspcc-dev/neo-go/pkg/encoding/bigint"
	"github.com/nspcc-dev/neo-go/pkg/io"
	"github.com/nspcc-dev/neo-go/pkg/neotest"
	"github.com/nspcc-dev/neo-go/pkg/neotest/chain"
	"github.com/nspcc-dev/neo-go/pkg/smartcontract"
	"github.com/nspcc-dev/neo-go/pkg/smartcontract/callflag"
	"github.com/nspcc-dev/neo-go/pkg/smartcontract/manifest"
	"github.com/nspcc-dev/neo-go/pkg/smartcontract/nef"
	"github.com/nspcc-dev/neo-go/pkg/smartcontract/trigger"
	"github.com/nspcc-dev/neo-go/pkg/util"
	"github.com/nspcc-dev/neo-go/pkg/vm/emit"
	"github.com/nspcc-dev/neo-go/pkg/vm/opcode"
	"github.com/nspcc-dev/neo-go/pkg/vm/stackitem"
	"github.com/nspcc-dev/neo-go/pkg/vm/vmstate"

	"verif/harness/internal/hx"
	"verif/harness/internal/prng"
)

// ---- the storage contract, assembled by hand ---------------------------------------------

type method struct {
	name   string
	params []smartcontract.ParamType
	ret    smartcontract.ParamType
	safe   bool
	code   func(w *io.BinWriter)
}

func buildContract(sender util.Uint160, name string) *neotest.Contract {
	ba, in := smartcontract.ByteArrayType, smartcontract.IntegerType
	ms := []method{
		{"put", []smartcontract.ParamType{ba, ba}, smartcontract.VoidType, false, func(w *io.BinWriter) {
			emit.Instruction(w, opcode.INITSLOT, []byte{0, 2})
			emit.Opcodes(w, opcode.LDARG1, opcode.LDARG0)
			emit.Syscall(w, interopnames.SystemStorageGetContext)
			emit.Syscall(w, interopnames.SystemStoragePut)
			emit.Opcodes(w, opcode.RET)
		}},
		{"del", []smartcontract.ParamType{ba}, smartcontract.VoidType, false, func(w *io.BinWriter) {
			emit.Instruction(w, opcode.INITSLOT, []byte{0, 1})
			emit.Opcodes(w, opcode.LDARG0)
			emit.Syscall(w, interopnames.SystemStorageGetContext)
			emit.Syscall(w, interopnames.SystemStorageDelete)
			emit.Opcodes(w, opcode.RET)
		}},
		{"putAbort", []smartcontract.ParamType{ba, ba}, smartcontract.VoidType, false, func(w *io.BinWriter) {
			emit.Instruction(w, opcode.INITSLOT, []byte{0, 2})
			emit.Opcodes(w, opcode.LDARG1, opcode.LDARG0)
			emit.Syscall(w, interopnames.SystemStorageGetContext)
			emit.Syscall(w, interopnames.SystemStoragePut)
			emit.Opcodes(w, opcode.ABORT)
		}},
		{"get", []smartcontract.ParamType{ba}, ba, true, func(w *io.BinWriter) {
			emit.Instruction(w, opcode.INITSLOT, []byte{0, 1})
			emit.Opcodes(w, opcode.LDARG0)
			emit.Syscall(w, interopnames.SystemStorageGetReadOnlyContext)
			emit.Syscall(w, interopnames.SystemStorageGet)
			emit.Opcodes(w, opcode.RET)
		}},
		{"find", []smartcontract.ParamType{ba, in}, smartcontract.ArrayType, true, func(w *io.BinWriter) {
			emit.Instruction(w, opcode.INITSLOT, []byte{2, 2})
			emit.Opcodes(w, opcode.NEWARRAY0, opcode.STLOC0)
			emit.Opcodes(w, opcode.LDARG1, opcode.LDARG0)
			emit.Syscall(w, interopnames.SystemStorageGetReadOnlyContext)
			emit.Syscall(w, interopnames.SystemStorageFind)
			emit.Opcodes(w, opcode.STLOC1)
			// loop (offset L): LDLOC1 SYSCALL(next) JMPIFNOT +end ; LDLOC0 LDLOC1 SYSCALL(value) APPEND ; JMP L
			// sizes: LDLOC1(1) SYSCALL(5) JMPIFNOT(2) LDLOC0(1) LDLOC1(1) SYSCALL(5) APPEND(1) JMP(2)
			emit.Opcodes(w, opcode.LDLOC1)
			emit.Syscall(w, interopnames.SystemIteratorNext)
			emit.Instruction(w, opcode.JMPIFNOT, []byte{2 + 1 + 1 + 5 + 1 + 2})
			emit.Opcodes(w, opcode.LDLOC0, opcode.LDLOC1)
			emit.Syscall(w, interopnames.SystemIteratorValue)
			emit.Opcodes(w, opcode.APPEND)
			emit.Instruction(w, opcode.JMP, []byte{byte(256 - (1 + 5 + 2 + 1 + 1 + 5 + 1))})
			emit.Opcodes(w, opcode.LDLOC0, opcode.RET)
		}},
		// putN(key, n): stores a value of n zero bytes built inside the VM (a value at the MaxStorageValueLen
		// limit does not fit into a transaction script)
		{"putN", []smartcontract.ParamType{ba, in}, smartcontract.VoidType, false, func(w *io.BinWriter) {
			emit.Instruction(w, opcode.INITSLOT, []byte{0, 2})
			emit.Opcodes(w, opcode.LDARG1, opcode.NEWBUFFER, opcode.LDARG0)
			emit.Syscall(w, interopnames.SystemStorageGetContext)
			emit.Syscall(w, interopnames.SystemStoragePut)
			emit.Opcodes(w, opcode.RET)
		}},
		// wget(key, value, delKey, readKey): the invocation writes and deletes first, then reads one key
		{"wget", []smartcontract.ParamType{ba, ba, ba, ba}, ba, false, func(w *io.BinWriter) {
			emit.Instruction(w, opcode.INITSLOT, []byte{0, 4})
			emit.Opcodes(w, opcode.LDARG1, opcode.LDARG0)
			emit.Syscall(w, interopnames.SystemStorageGetContext)
			emit.Syscall(w, interopnames.SystemStoragePut)
			emit.Opcodes(w, opcode.LDARG2)
			emit.Syscall(w, interopnames.SystemStorageGetContext)
			emit.Syscall(w, interopnames.SystemStorageDelete)
			emit.Opcodes(w, opcode.LDARG3)
			emit.Syscall(w, interopnames.SystemStorageGetContext)
			emit.Syscall(w, interopnames.SystemStorageGet)
			emit.Opcodes(w, opcode.RET)
		}},
		// wfind(key, value, delKey, prefix, opts): the invocation writes and deletes first, then searches
		// (the search sees its own uncommitted writes through the private cache layer)
		{"wfind", []smartcontract.ParamType{ba, ba, ba, ba, in}, smartcontract.ArrayType, false, func(w *io.BinWriter) {
			emit.Instruction(w, opcode.INITSLOT, []byte{2, 5})
			emit.Opcodes(w, opcode.LDARG1, opcode.LDARG0)
			emit.Syscall(w, interopnames.SystemStorageGetContext)
			emit.Syscall(w, interopnames.SystemStoragePut)
			emit.Opcodes(w, opcode.LDARG2)
			emit.Syscall(w, interopnames.SystemStorageGetContext)
			emit.Syscall(w, interopnames.SystemStorageDelete)
			emit.Opcodes(w, opcode.NEWARRAY0, opcode.STLOC0)
			emit.Opcodes(w, opcode.LDARG4, opcode.LDARG3)
			emit.Syscall(w, interopnames.SystemStorageGetContext)
			emit.Syscall(w, interopnames.SystemStorageFind)
			emit.Opcodes(w, opcode.STLOC1)
			emit.Opcodes(w, opcode.LDLOC1)
			emit.Syscall(w, interopnames.SystemIteratorNext)
			emit.Instruction(w, opcode.JMPIFNOT, []byte{2 + 1 + 1 + 5 + 1 + 2})
			emit.Opcodes(w, opcode.LDLOC0, opcode.LDLOC1)
			emit.Syscall(w, interopnames.SystemIteratorValue)
			emit.Opcodes(w, opcode.APPEND)
			emit.Instruction(w, opcode.JMP, []byte{byte(256 - (1 + 5 + 2 + 1 + 1 + 5 + 1))})
			emit.Opcodes(w, opcode.LDLOC0, opcode.RET)
		}},
	}
	w := io.NewBufBinWriter()
	m := manifest.NewManifest(name)
	for _, md := range ms {
		off := w.Len()
		md.code(w.BinWriter)
		ps := make([]manifest.Parameter, len(md.params))
		for i, p := range md.params {
			ps[i] = manifest.NewParameter(fmt.Sprintf("p%d", i), p)
		}
		m.ABI.Methods = append(m.ABI.Methods, manifest.Method{Name: md.name, Offset: off, Parameters: ps, ReturnType: md.ret, Safe: md.safe})
	}
	script := w.Bytes()
	ne, err := nef.NewFile(script)
	if err != nil {
		panic(err)
	}
	return &neotest.Contract{Hash: state.CreateContractHash(sender, ne.Checksum, name), NEF: ne, Manifest: m}
}

// ---- helpers --------------------------------------------------------------------------------

type kv struct{ k, v []byte }

type dump map[string][]byte // MPT key (id||key) -> value

func idKey(id int32, key []byte) []byte {
	b := make([]byte, 4, 4+len(key))
	binary.LittleEndian.PutUint32(b, uint32(id))
	return append(b, key...)
}

func dumpAll(bc *core.Blockchain, ids []int32) dump {
	d := dump{}
	for _, id := range ids {
		bc.SeekStorage(id, nil, func(k, v []byte) bool {
			d[string(idKey(id, k))] = bytes.Clone(v)
			return true
		})
	}
	return d
}

// keepStore is a MemoryStore that survives Blockchain.Close (the node's database on disk). While
// rec is set it records the write batches that reach it (the crash points of a state reset).
type keepStore struct {
	storage.Store
	// failNext makes the next PutChangeSet fail without writing anything (a write error of the DB)
	failNext bool
	failed   int
	rec      bool
	batches  []changeSet
}

type changeSet struct{ puts, stor map[string][]byte }

func (*keepStore) Close() error { return nil }

func (s *keepStore) PutChangeSet(puts, stor map[string][]byte) error {
	if s.failNext {
		s.failNext = false
		s.failed++
		return errors.New("verif: injected write error")
	}
	if s.rec {
		cp := func(m map[string][]byte) map[string][]byte {
			r := make(map[string][]byte, len(m))
			for k, v := range m {
				if v == nil {
					r[k] = nil
				} else {
					r[k] = bytes.Clone(v)
				}
			}
			return r
		}
		s.batches = append(s.batches, changeSet{cp(puts), cp(stor)})
	}
	return s.Store.PutChangeSet(puts, stor)
}

// snapshot copies the whole database.
func (s *keepStore) snapshot() changeSet {
	cs := changeSet{map[string][]byte{}, map[string][]byte{}}
	for b := 0; b < 256; b++ {
		s.Store.Seek(storage.SeekRange{Prefix: []byte{byte(b)}}, func(k, v []byte) bool {
			if b == int(storage.STStorage) || b == int(storage.STTempStorage) {
				cs.stor[string(k)] = bytes.Clone(v)
			} else {
				cs.puts[string(k)] = bytes.Clone(v)
			}
			return true
		})
	}
	return cs
}

// crashedCopy is the database a crash after the first n recorded batches leaves behind.
func crashedCopy(snap changeSet, batches []changeSet, n int) *keepStore {
	st := &keepStore{Store: storage.NewMemoryStore()}
	_ = st.Store.PutChangeSet(snap.puts, snap.stor)
	for _, b := range batches[:n] {
		_ = st.Store.PutChangeSet(b.puts, b.stor)
	}
	return st
}

func sameDump(a, b dump) bool {
	if len(a) != len(b) {
		return false
	}
	for k, v := range a {
		if w, ok := b[k]; !ok || !bytes.Equal(v, w) {
			return false
		}
	}
	return true
}

func diffDump(got, want dump) string {
	var parts []string
	for _, k := range sortedKeys(want) {
		if v, ok := got[k]; !ok {
			parts = append(parts, fmt.Sprintf("missing %x", k))
		} else if !bytes.Equal(v, want[k]) {
			parts = append(parts, fmt.Sprintf("value of %x is %x, committed %x", k, v, want[k]))
		}
	}
	for _, k := range sortedKeys(got) {
		if _, ok := want[k]; !ok {
			parts = append(parts, fmt.Sprintf("extra %x", k))
		}
	}
	if len(parts) > 4 {
		parts = append(parts[:4], fmt.Sprintf("... %d differences", len(parts)))
	}
	return strings.Join(parts, "; ")
}

func sortedKeys(d dump) []string {
	ks := make([]string, 0, len(d))
	for k := range d {
		ks = append(ks, k)
	}
	sort.Strings(ks)
	return ks
}

func itemStr(it stackitem.Item) string {
	switch it.Type() {
	case stackitem.ArrayT, stackitem.StructT:
		arr := it.Value().([]stackitem.Item)
		s := make([]string, len(arr))
		for i := range arr {
			s[i] = itemStr(arr[i])
		}
		return "[" + strings.Join(s, ",") + "]"
	case stackitem.AnyT:
		return "null"
	default:
		b, err := it.TryBytes()
		if err != nil {
			return "?" + it.Type().String()
		}
		return hx.Hex(b)
	}
}

// runRO executes script in a test VM: live (historic=0) or on the state of height h (historic=h+1).
func runRO(bc *core.Blockchain, e *neotest.Executor, script []byte, nextHeight uint32, historic bool) string {
	return hx.Safe(func() string {
		tx := transaction.New(script, 0)
		tx.Signers = []transaction.Signer{{Account: e.Validator.ScriptHash(), Scopes: transaction.Global}}
		tx.ValidUntilBlock = bc.BlockHeight() + 1
		var (
			vmState vmstate.State
			res     string
		)
		if historic {
			ic, err := bc.GetTestHistoricVM(trigger.Application, tx, nextHeight)
			if err != nil {
				return "err:" + err.Error()
			}
			defer ic.Finalize()
			ic.VM.LoadWithFlags(script, callflag.All)
			_ = ic.VM.Run()
			vmState = ic.VM.State()
			if vmState == vmstate.Halt && ic.VM.Estack().Len() > 0 {
				res = itemStr(ic.VM.Estack().Pop().Item())
			}
		} else {
			ic, err := bc.GetTestVM(trigger.Application, tx, nil)
			if err != nil {
				return "err:" + err.Error()
			}
			defer ic.Finalize()
			ic.VM.LoadWithFlags(script, callflag.All)
			_ = ic.VM.Run()
			vmState = ic.VM.State()
			if vmState == vmstate.Halt && ic.VM.Estack().Len() > 0 {
				res = itemStr(ic.VM.Estack().Pop().Item())
			}
		}
		return vmState.String() + ":" + res
	})
}

// itemCanon prints an item with its type (the Lean driver prints the model's items the same way).
func itemCanon(it stackitem.Item) string {
	switch it.Type() {
	case stackitem.ByteArrayT:
		return "B" + hx.Hex(it.Value().([]byte))
	case stackitem.BufferT:
		return "U" + hx.Hex(it.Value().([]byte))
	case stackitem.BooleanT:
		if it.Value().(bool) {
			return "T"
		}
		return "F"
	case stackitem.IntegerT:
		return "I" + hx.Hex(bigint.ToBytes(it.Value().(*big.Int)))
	case stackitem.ArrayT, stackitem.StructT:
		arr := it.Value().([]stackitem.Item)
		s := make([]string, len(arr))
		for i := range arr {
			s[i] = itemCanon(arr[i])
		}
		if it.Type() == stackitem.ArrayT {
			return "A[" + strings.Join(s, ",") + "]"
		}
		return "S[" + strings.Join(s, ",") + "]"
	case stackitem.MapT:
		els := it.Value().([]stackitem.MapElement)
		s := make([]string, len(els))
		for i := range els {
			s[i] = itemCanon(els[i].Key) + ":" + itemCanon(els[i].Value)
		}
		return "M[" + strings.Join(s, ",") + "]"
	case stackitem.AnyT:
		return "N"
	case stackitem.InteropT:
		return "X"
	case stackitem.PointerT:
		return "P"
	}
	return "?"
}

// the messages of the option checks of findWithContext, in source order (find.go:103-120)
var findCheckMsgs = []string{"unknown flag", "KeysOnly conflicts with other options", "KeysOnly conflicts with ValuesOnly",
	"Pick0 conflicts with Pick1", "PickN is specified without Deserialize"}

// runFind runs a script whose result is the array of items a Storage.Find iterator yields, live or on
// the state of height nextHeight-1: "invalid:<i>" (option check i failed), "fault", "ok:[items]".
func runFind(bc *core.Blockchain, e *neotest.Executor, script []byte, nextHeight uint32, historic bool) string {
	return hx.Safe(func() string {
		ic, err := newCtx(bc, e, script, nextHeight, historic)
		if err != nil {
			return "err:" + err.Error()
		}
		return execFind(ic, script)
	})
}

func runGet(bc *core.Blockchain, e *neotest.Executor, script []byte, nextHeight uint32, historic bool) string {
	return hx.Safe(func() string {
		ic, err := newCtx(bc, e, script, nextHeight, historic)
		if err != nil {
			return "err:" + err.Error()
		}
		return execGet(ic, script)
	})
}

// newCtx only CREATES the invocation context (live, or historic on the state of nextHeight-1); the
// script is executed later with execFind / execGet — possibly after further blocks were stored.
func newCtx(bc *core.Blockchain, e *neotest.Executor, script []byte, nextHeight uint32, historic bool) (*interop.Context, error) {
	tx := transaction.New(script, 0)
	tx.Signers = []transaction.Signer{{Account: e.Validator.ScriptHash(), Scopes: transaction.Global}}
	tx.ValidUntilBlock = bc.BlockHeight() + 1
	if historic {
		return bc.GetTestHistoricVM(trigger.Application, tx, nextHeight)
	}
	return bc.GetTestVM(trigger.Application, tx, nil)
}

func execFind(ic *interop.Context, script []byte) string {
	return hx.Safe(func() string {
		defer ic.Finalize()
		ic.VM.LoadWithFlags(script, callflag.All)
		rerr := ic.VM.Run()
		if ic.VM.State() != vmstate.Halt {
			if rerr != nil && strings.Contains(rerr.Error(), "invalid Find options") {
				for i, m := range findCheckMsgs {
					if strings.Contains(rerr.Error(), m) {
						return fmt.Sprintf("invalid:%d", i+1)
					}
				}
			}
			return "fault"
		}
		if ic.VM.Estack().Len() != 1 {
			return "stack:" + fmt.Sprint(ic.VM.Estack().Len())
		}
		res := ic.VM.Estack().Pop().Item()
		arr, ok := res.Value().([]stackitem.Item)
		if !ok || res.Type() != stackitem.ArrayT {
			return "notarray"
		}
		s := make([]string, len(arr))
		for i := range arr {
			s[i] = itemCanon(arr[i])
		}
		return "ok:[" + strings.Join(s, ",") + "]"
	})
}

// execGet runs a `get key` script in an earlier-created context: the value hex, "none", or "fault".
func execGet(ic *interop.Context, script []byte) string {
	return hx.Safe(func() string {
		defer ic.Finalize()
		ic.VM.LoadWithFlags(script, callflag.All)
		_ = ic.VM.Run()
		if ic.VM.State() != vmstate.Halt || ic.VM.Estack().Len() != 1 {
			return "fault"
		}
		it := ic.VM.Estack().Pop().Item()
		if it.Type() == stackitem.AnyT {
			return "none"
		}
		b, err := it.TryBytes()
		if err != nil {
			return "fault"
		}
		return hx.Hex(b)
	})
}

// expectFind: the property's direct oracle for valid option words: the image of the ordered prefix
// range of the storage dump d (MPT keys id||key) under Iterator.Value (values deserialised with
// pkg/vm/stackitem where the options ask for it; a value that does not deserialise or cannot be
// picked from faults the invocation).
func expectFind(d dump, id int32, prefix []byte, opts int) string {
	full := string(idKey(id, prefix))
	var ks []string
	for _, kk := range sortedKeys(d) {
		if strings.HasPrefix(kk, full) {
			ks = append(ks, kk)
		}
	}
	if opts&istorage.FindBackwards != 0 {
		slices.Reverse(ks)
	}
	s := make([]string, len(ks))
	for i, kk := range ks {
		key := []byte(kk[4:])
		if opts&istorage.FindRemovePrefix != 0 {
			key = key[len(prefix):]
		}
		if opts&istorage.FindKeysOnly != 0 {
			s[i] = "B" + hx.Hex(key)
			continue
		}
		val := "B" + hx.Hex(d[kk])
		if opts&istorage.FindDeserialize != 0 {
			it, err := stackitem.Deserialize(d[kk])
			if err != nil {
				return "fault"
			}
			if opts&(istorage.FindPick0|istorage.FindPick1) != 0 {
				idx := 0
				if opts&istorage.FindPick0 == 0 {
					idx = 1
				}
				arr, ok := it.Value().([]stackitem.Item)
				if !ok || (it.Type() != stackitem.ArrayT && it.Type() != stackitem.StructT) || idx >= len(arr) {
					return "fault"
				}
				it = arr[idx]
			}
			val = itemCanon(it)
		}
		if opts&istorage.FindValuesOnly != 0 {
			s[i] = val
		} else {
			s[i] = "S[B" + hx.Hex(key) + "," + val + "]"
		}
	}
	return "ok:[" + strings.Join(s, ",") + "]"
}

// the option words that pass the checks of findWithContext
var validFindOpts = func() []int {
	var res []int
	for _, base := range []int{0, 1, 2, 3, 4, 8, 10, 12, 24, 26, 28, 40, 42, 44} {
		res = append(res, base, base|128)
	}
	return res
}()

func isValidFindOpt(o int) bool { return slices.Contains(validFindOpts, o) }

// genOpts: an option word: mostly valid ones, any byte, and integers outside the byte / int64 range.
func genOpts(r *prng.R) *big.Int {
	switch r.Weighted([]int{6, 3, 1}) {
	case 0:
		return big.NewInt(int64(validFindOpts[r.Intn(len(validFindOpts))]))
	case 1:
		return big.NewInt(int64(r.Intn(256)))
	}
	v := big.NewInt(int64(validFindOpts[r.Intn(len(validFindOpts))]))
	one := big.NewInt(1)
	switch r.Intn(7) {
	case 0:
		return big.NewInt(-1 - int64(r.Intn(200)))
	case 1:
		return v.Add(v, big.NewInt(256<<uint(r.Intn(40))))
	case 2:
		return v.Add(v, new(big.Int).Lsh(one, 64)) // low 64 bits are a valid word
	case 3:
		return v.Sub(v, new(big.Int).Lsh(one, 64)) // negative, |x| mod 2^64 != 0
	case 4:
		return v.Neg(new(big.Int).Lsh(one, 64)) // Int64() == 0
	case 5:
		return v.Add(v, new(big.Int).Lsh(one, 63))
	default:
		return v.Sub(new(big.Int).Lsh(one, 255), one)
	}
}

// genItem: a random stack item (for values that System.Storage.Find deserialises and picks from).
func genItem(r *prng.R, depth int) stackitem.Item {
	k := r.Intn(8)
	if depth <= 0 && k >= 5 {
		k = r.Intn(5)
	}
	switch k {
	case 0:
		return stackitem.NewByteArray(r.Bytes(r.Range(0, 4)))
	case 1:
		return stackitem.NewBigInteger(big.NewInt(int64(r.Intn(70000)) - 300))
	case 2:
		return stackitem.NewBool(r.Chance(1, 2))
	case 3:
		return stackitem.Null{}
	case 4:
		return stackitem.NewBuffer(r.Bytes(r.Range(0, 3)))
	case 5, 6:
		n := r.Range(0, 3)
		its := make([]stackitem.Item, n)
		for i := range its {
			its[i] = genItem(r, depth-1)
		}
		if k == 5 {
			return stackitem.NewArray(its)
		}
		return stackitem.NewStruct(its)
	default:
		m := stackitem.NewMap()
		for i := r.Range(0, 2); i > 0; i-- {
			m.Add(stackitem.NewByteArray(r.Bytes(1)), genItem(r, depth-1))
		}
		return m
	}
}

func callScript(h util.Uint160, method string, args ...any) []byte {
	w := io.NewBufBinWriter()
	emit.AppCall(w.BinWriter, h, method, callflag.All, args...)
	return w.Bytes()
}

const syncInterval = 4

var alphabet = []byte{0x01, 0x02, 0x10, 0x12}

// The limit family: keys that sit at the length limits of the stack they pass through.
// limitStem has 62 bytes; limitKey(n, ...) has n = 63, 64 (= limits.MaxStorageKeyLen: with the 4-byte
// contract id the trie key has exactly mpt.MaxKeyLength = 68 bytes) or 65 bytes (refused by Storage.Put).
var limitStem = bytes.Repeat([]byte{0x12}, 62)

func limitKey(n int, suffix ...byte) []byte {
	k := append(bytes.Clone(limitStem), suffix...)
	for len(k) < n {
		k = append(k, 0x01)
	}
	return k[:n]
}

func genLimitKey(r *prng.R) []byte {
	n := 63 + r.Intn(2)
	return limitKey(n, alphabet[r.Intn(2)], alphabet[r.Intn(len(alphabet))])
}

// lenClass names the length class of a key or prefix (input-distribution counters).
func lenClass(k []byte) string {
	switch n := len(k); {
	case n == 0:
		return "0"
	case n == 1:
		return "1"
	case n <= 8:
		return "2-8"
	case n <= 62:
		return "9-62"
	case n <= 65:
		return fmt.Sprint(n)
	default:
		return "66+"
	}
}

func genKey(r *prng.R, minLen int) []byte {
	if r.Chance(1, 9) {
		return genLimitKey(r)
	}
	n := r.Range(minLen, 3)
	if r.Chance(1, 12) {
		n = r.Range(4, 9)
	}
	k := make([]byte, n)
	for i := range k {
		k[i] = alphabet[r.Intn(len(alphabet))]
	}
	return k
}

func genVal(r *prng.R) []byte {
	if r.Chance(2, 5) {
		// a serialised stack item (what FindDeserialize / FindPick0 / FindPick1 work on), sometimes
		// followed by garbage, cut short, or with a non-minimal integer inside
		it := genItem(r, 2)
		if r.Chance(2, 3) {
			n := r.Range(1, 3)
			its := make([]stackitem.Item, n)
			for i := range its {
				its[i] = genItem(r, 1)
			}
			if r.Chance(1, 4) {
				it = stackitem.NewStruct(its)
			} else {
				it = stackitem.NewArray(its)
			}
		}
		b, err := stackitem.Serialize(it)
		if err != nil {
			return []byte{0x40, 0x00}
		}
		switch r.Intn(10) {
		case 0:
			return append(b, r.Bytes(r.Range(1, 3))...)
		case 1:
			return b[:r.Intn(len(b))]
		case 2:
			return []byte{0x40, 0x02, 0x21, 0x02, 0x05, 0x00, 0x21, 0x03, 0xff, 0xff, 0xff} // non-minimal integers
		}
		return b
	}
	switch r.Intn(6) {
	case 0:
		return []byte{} // empty value
	case 1:
		return []byte{0xAA} // shared by many keys
	case 2:
		return r.Bytes(r.Range(30, 70)) // longer than a hash
	default:
		return r.Bytes(r.Range(1, 3))
	}
}

// reads is a sample of read-only scripts evaluated live at every height and historically later.
type read struct {
	desc   string
	script []byte
}

type heightRec struct {
	d     dump
	root  util.Uint256
	reads []string // results of the fixed read sample at this height
	finds []string // results of the case's System.Storage.Find sample at this height
	gets  []string // results of the case's System.Storage.Get sample at this height
}

// findRead is one System.Storage.Find invocation: contract, prefix, option word and (wfind) the
// invocation's own put and delete before the search.
type findRead struct {
	id     int32
	prefix []byte
	opts   *big.Int
	write  bool
	key    []byte
	val    []byte
	del    []byte
	script []byte
}

// getRead is one System.Storage.Get invocation, optionally after the invocation's own put and delete.
type getRead struct {
	id     int32
	key    []byte
	write  bool
	wk     []byte
	wv     []byte
	wd     []byte
	script []byte
}

func (g *getRead) line(at string) string {
	l := fmt.Sprintf("getw %s %s %s", at, hx.Hex(idKey(g.id, nil)), hx.Hex(g.key))
	if g.write {
		l += fmt.Sprintf(" %s %s %s del", hx.Hex(g.wk), hx.Hex(g.wv), hx.Hex(g.wd))
	}
	return l
}

// expect: the value the read must give on storage dump d.
func (g *getRead) expect(d dump) string {
	if len(g.key) > limits.MaxStorageKeyLen {
		return "fault" // the private DAO's key buffer holds 64 key bytes (dao.go:994-1000)
	}
	rk := string(idKey(g.id, g.key))
	if g.write {
		if bytes.Equal(g.key, g.wd) {
			return "none"
		}
		if bytes.Equal(g.key, g.wk) {
			return hx.Hex(g.wv)
		}
	}
	if v, ok := d[rk]; ok {
		return hx.Hex(v)
	}
	return "none"
}

// line is the op line for the Lean driver: at = "live" / a height.
func (fr *findRead) line(at string) string {
	id4 := hx.Hex(idKey(fr.id, nil))
	if !fr.write {
		if at == "live" {
			return fmt.Sprintf("findl %s %s %s", id4, hx.Hex(fr.prefix), fr.opts.String())
		}
		return fmt.Sprintf("findh %s %s %s %s", at, id4, hx.Hex(fr.prefix), fr.opts.String())
	}
	return fmt.Sprintf("findw %s %s %s %s %s %s %s del", at, id4, hx.Hex(fr.prefix), fr.opts.String(),
		hx.Hex(fr.key), hx.Hex(fr.val), hx.Hex(fr.del))
}

func main() {
	f := hx.ParseFlags()
	o := hx.NewOut(f.Out)
	defer o.Close()
	n := f.N(25, 1000)
	for k := 0; k < n; k++ {
		if !f.Want(k) {
			continue
		}
		o.Case(k)
		t := &tb{}
		func() {
			defer t.done()
			defer func() {
				if r := recover(); r != nil {
					if fn, ok := r.(failNow); ok {
						o.Fail("harness-failnow", k, "neotest assertion failed: %s", fn.msg)
					} else {
						o.Fail("panic", k, "panic: %v", r)
					}
				}
			}()
			runCase(o, f, k, t)
		}()
	}
}

func runCase(o *hx.Out, f *hx.Flags, k int, t *tb) {
	r := prng.ForCase(f.Seed, k)
	// case 0 is the fixed corpus case (the same for every seed): all states kept, no reset, a deferred
	// historic evaluation (context created, later blocks rewrite what it reads, then executed) after
	// every third block
	corpus := k == 0
	if corpus {
		r = prng.ForCase(0xC03, 0)
	}
	// node-local state retention mode: 0 = keep every state (default), 1 = RemoveUntraceableBlocks
	// (reference-counted MPT with GC flags; all heights of a short chain are still retained),
	// 2 = KeepOnlyLatestState (reference-counted, only the latest root is readable)
	stMode := r.Weighted([]int{5, 3, 2})
	if corpus {
		stMode = 0
	}
	o.Count(fmt.Sprintf("state-mode:%d", stMode))
	// the node's database outlives the Blockchain object (restart / reset scenarios)
	// state-sync class: the chain runs with state roots in headers and the state exchange extensions, no
	// restart / reset scenario; at the end a fresh node is brought to the sync point by the real statesync
	// module and must serve exactly the storage the state root of the sync point commits to
	syncClass := stMode == 0 && !corpus && r.Chance(1, 4)
	if syncClass {
		o.Count("class:statesync")
	}
	// failing-flush schedule class: one write of the DB fails at a random flush with blocks waiting; on
	// MemoryStore or on a disk backend (LevelDB in a temporary directory)
	flushFail := (stMode != 2 && r.Chance(1, 3)) || corpus
	var backend storage.Store = storage.NewMemoryStore()
	if flushFail && (r.Chance(1, 2) || corpus) {
		ldb, err := storage.NewLevelDBStore(dbconfig.LevelDBOptions{DataDirectoryPath: t.TempDir()})
		if err != nil {
			o.Fail("harness-leveldb", k, "%v", err)
			return
		}
		t.Cleanup(func() { _ = ldb.Close() })
		backend = ldb
		o.Count("flush:backend-leveldb")
	}
	st := &keepStore{Store: backend}
	openOn := func(st storage.Store, run bool) (*core.Blockchain, neotest.Signer) {
		b, a := chain.NewSingleWithCustomConfigAndStore(t, func(c *config.Blockchain) {
			switch stMode {
			case 1:
				c.Ledger.RemoveUntraceableBlocks = true
			case 2:
				c.Ledger.KeepOnlyLatestState = true
			}
			if syncClass {
				c.StateRootInHeader = true
				c.P2PStateExchangeExtensions = true
				c.StateSyncInterval = syncInterval
			}
		}, st, false)
		if run {
			go b.Run()
		}
		return b, a
	}
	open := func(run bool) (*core.Blockchain, neotest.Signer) { return openOn(st, run) }
	bc, acc := open(true)
	closed := false
	closeNode := func() {
		if !closed {
			closed = true
			bc.Close()
		}
	}
	defer closeNode()
	e := neotest.NewExecutor(t, bc, acc, acc)
	c := buildContract(e.Validator.ScriptHash(), "S")
	c2 := buildContract(e.Validator.ScriptHash(), "S2")
	// deployed in blocks 1 and 2: the first two contract ids
	const deployedAt = 2
	ids := []int32{1, 2}
	for _, nc := range bc.GetNatives() {
		ids = append(ids, nc.ID)
	}
	contracts := []*neotest.Contract{c, c2}

	// the fixed sample of read-only scripts
	var reads []read
	prefixes := [][]byte{{}, {0x01}, {0x01, 0x02}, {0x10}, {0x12, 0x01}, {0x02, 0x02, 0x02},
		limitKey(63, 0x01), limitKey(64, 0x01, 0x02), limitKey(65, 0x01, 0x02, 0x10)}
	// the case's sample of System.Storage.Find invocations (run live at every height, then
	// historically; both results also go to the Lean driver)
	var finds []*findRead
	for i := 0; i < 44; i++ {
		fr := &findRead{id: ids[0], prefix: prefixes[r.Weighted([]int{6, 4, 2, 4, 1, 1, 2, 2, 1})], opts: genOpts(r)}
		hash := c.Hash
		if r.Chance(1, 8) {
			fr.id, hash = ids[1], c2.Hash
		}
		if r.Chance(1, 6) {
			fr.prefix = genKey(r, 0)
		}
		if i >= 36 {
			fr.write = true
			fr.key, fr.val, fr.del = genKey(r, 0), genVal(r), genKey(r, 0)
			if r.Chance(1, 2) {
				fr.key = append(bytes.Clone(fr.prefix), genKey(r, 0)...)
			}
			if len(fr.key) > limits.MaxStorageKeyLen { // the own write must be accepted by Storage.Put
				fr.key = fr.key[:limits.MaxStorageKeyLen]
			}
			fr.script = callScript(hash, "wfind", fr.key, fr.val, fr.del, fr.prefix, fr.opts)
		} else {
			fr.script = callScript(hash, "find", fr.prefix, fr.opts)
		}
		// the first reads of every case sit at the limits: a 64-byte prefix that is a whole key, a 63-byte
		// prefix (forwards and backwards), a 65-byte prefix nothing can match
		switch i {
		case 0:
			fr.id, fr.prefix, fr.opts = ids[0], limitKey(64, 0x01, 0x02), big.NewInt(0)
		case 1:
			fr.id, fr.prefix, fr.opts = ids[0], limitKey(63, 0x01), big.NewInt(0)
		case 2:
			fr.id, fr.prefix, fr.opts = ids[0], limitKey(63, 0x01), big.NewInt(int64(istorage.FindBackwards|istorage.FindKeysOnly|istorage.FindRemovePrefix))
		case 3:
			fr.id, fr.prefix, fr.opts = ids[0], limitKey(65, 0x01, 0x02, 0x10), big.NewInt(0)
		}
		if i < 4 {
			fr.script = callScript(c.Hash, "find", fr.prefix, fr.opts)
		}
		o.Count("find-prefix-len:" + lenClass(fr.prefix))
		finds = append(finds, fr)
	}
	for i := 0; i < 6; i++ {
		key := genKey(r, 0)
		reads = append(reads, read{fmt.Sprintf("get %x", key), callScript(c.Hash, "get", key)})
	}
	// the case's sample of System.Storage.Get invocations (half of them after own writes), run live
	// at every height and historically; both results also go to the Lean driver
	var gets []*getRead
	for i := 0; i < 10; i++ {
		g := &getRead{id: ids[0], key: genKey(r, 0)}
		if i >= 5 {
			g.write = true
			g.wk, g.wv, g.wd = genKey(r, 0), genVal(r), genKey(r, 0)
			switch r.Intn(3) {
			case 0:
				g.key = g.wk
			case 1:
				g.key = g.wd
			}
			g.script = callScript(c.Hash, "wget", g.wk, g.wv, g.wd, g.key)
		} else {
			switch i {
			case 0:
				g.key = limitKey(64, 0x01, 0x02)
			case 1:
				g.key = limitKey(63, 0x01)
			case 2:
				g.key = limitKey(65, 0x01, 0x02, 0x10)
			}
			g.script = callScript(c.Hash, "get", g.key)
		}
		o.Count("get-key-len:" + lenClass(g.key))
		gets = append(gets, g)
	}
	roleHash := e.NativeHash(t, nativenames.Designation)
	roles := []noderoles.Role{noderoles.StateValidator, noderoles.Oracle}
	for _, role := range roles {
		for _, idx := range []int{0, 1, 2, 3, 5, 8, 13, 21, 40} {
			reads = append(reads, read{fmt.Sprintf("role %d %d", role, idx), callScript(roleHash, "getDesignatedByRole", int64(role), idx)})
		}
	}
	var rolePubs []any
	var rolePrivs []*keys.PrivateKey
	// the state validators designated so far: (first height they are in charge of, how many of rolePrivs)
	type svEntry struct {
		from uint32
		n    int
	}
	var svs []svEntry
	for i := 0; i < 3; i++ {
		pk, err := keys.NewPrivateKeyFromBytes(append(make([]byte, 31), byte(i+1)))
		if err != nil {
			panic(err)
		}
		rolePubs = append(rolePubs, pk.PublicKey().Bytes())
		rolePrivs = append(rolePrivs, pk)
	}

	recs := map[uint32]*heightRec{}
	record := func() {
		h := bc.BlockHeight()
		sr, err := bc.GetStateModule().GetStateRoot(h)
		if err != nil {
			o.Fail("no-state-root", k, "height %d: %v", h, err)
			return
		}
		rec := &heightRec{d: dumpAll(bc, ids), root: sr.Root}
		for _, rd := range reads {
			rec.reads = append(rec.reads, runRO(bc, e, rd.script, 0, false))
		}
		for _, fr := range finds {
			rec.finds = append(rec.finds, runFind(bc, e, fr.script, 0, false))
		}
		for _, g := range gets {
			rec.gets = append(rec.gets, runGet(bc, e, g.script, 0, false))
		}
		recs[h] = rec
	}
	// emitFinds: the live results of height h go to the driver (whose live-side model store is at
	// the same height now) and, for option words without Deserialize, are compared with the image
	// of the ordered prefix range of the storage dump.
	emitFinds := func(h uint32) {
		rec := recs[h]
		for i, g := range gets {
			o.Line(g.line("live"), rec.gets[i])
			if want := g.expect(rec.d); rec.gets[i] != want {
				o.Fail("get-live-mismatch", k, "height %d %s: got %s want %s", h, g.line("live"), rec.gets[i], want)
			}
			o.Count("get-live")
		}
		for i, fr := range finds {
			got := rec.finds[i]
			o.Line(fr.line("live"), got)
			switch {
			case strings.HasPrefix(got, "invalid"):
				o.Count("find-live:invalid")
			case got == "fault":
				o.Count("find-live:fault")
			case strings.HasPrefix(got, "ok:[]"):
				o.Count("find-live:ok-empty")
			default:
				o.Count("find-live:ok-items")
			}
			if fr.opts.IsInt64() && fr.opts.Int64() >= 0 && fr.opts.Int64() < 256 {
				ov := int(fr.opts.Int64())
				if isValidFindOpt(ov) != !strings.HasPrefix(got, "invalid") {
					o.Fail("find-option-validity", k, "height %d opts %d: %s", h, ov, got)
				}
				if isValidFindOpt(ov) {
					d := rec.d
					if fr.write {
						// the invocation's own put and delete come first
						d = dump{}
						for kk, v := range rec.d {
							d[kk] = v
						}
						d[string(idKey(fr.id, fr.key))] = fr.val
						delete(d, string(idKey(fr.id, fr.del)))
					}
					want := expectFind(d, fr.id, fr.prefix, ov)
					if len(fr.prefix) > limits.MaxStorageKeyLen {
						want = "fault" // the private DAO's key buffer holds 64 key bytes (dao.go:994-1000)
					}
					if got != want {
						o.Fail("find-live-mismatch", k, "height %d id %d prefix %x opts %d: got %s want %s", h, fr.id, fr.prefix, ov, got, want)
					}
					o.Count("find-live:oracle")
				}
			} else if !strings.HasPrefix(got, "invalid") && !(fr.opts.BitLen() > 64 || fr.opts.Sign() < 0) {
				o.Fail("find-option-validity", k, "height %d opts %s accepted: %s", h, fr.opts, got)
			}
		}
	}
	h0 := bc.BlockHeight() // 0: genesis
	record()
	prev := dump{}
	emitBatch := func(h uint32, prev, cur dump) {
		var parts []string
		keys := map[string]bool{}
		for kk := range prev {
			keys[kk] = true
		}
		for kk := range cur {
			keys[kk] = true
		}
		ks := make([]string, 0, len(keys))
		for kk := range keys {
			ks = append(ks, kk)
		}
		sort.Strings(ks)
		for _, kk := range ks {
			pv, pok := prev[kk]
			cv, cok := cur[kk]
			switch {
			case cok && (!pok || !bytes.Equal(pv, cv)):
				parts = append(parts, hx.Hex([]byte(kk)), hx.Hex(cv))
			case pok && !cok:
				parts = append(parts, hx.Hex([]byte(kk)), "del")
			}
		}
		o.Line(fmt.Sprintf("batch %d %s", h, strings.Join(parts, " ")), hex.EncodeToString(recs[h].root[:]))
		o.Add("batch-changes", len(parts)/2)
	}
	// the whole storage of genesis as one batch from the empty trie, then the two deployments
	emitBatch(h0, prev, recs[h0].d)
	prev = recs[h0].d
	for i, cc := range contracts {
		e.DeployContract(t, cc, nil)
		if cs := bc.GetContractState(cc.Hash); cs == nil || cs.ID != ids[i] {
			o.Fail("harness-deploy", k, "contract %d not deployed with id %d", i, ids[i])
			return
		}
		record()
		h := bc.BlockHeight()
		emitBatch(h, prev, recs[h].d)
		prev = recs[h].d
	}
	emitFinds(deployedAt)
	if syncClass || corpus {
		// twin keys: one differing half-byte, the same tail and the same value: the same extension+leaf
		// subtree sits at two positions of the trie
		w := io.NewBufBinWriter()
		emit.AppCall(w.BinWriter, c.Hash, "put", callflag.All, []byte{0x31, 0x77, 0x77}, []byte{0x7a})
		emit.AppCall(w.BinWriter, c.Hash, "put", callflag.All, []byte{0x32, 0x77, 0x77}, []byte{0x7a})
		e.AddNewBlock(t, e.PrepareInvocation(t, w.Bytes(), []neotest.Signer{e.Validator}))
		record()
		h := bc.BlockHeight()
		emitBatch(h, prev, recs[h].d)
		emitFinds(h)
		prev = recs[h].d
	}

	nBlocks := r.Range(8, 25)
	live := map[string]bool{}
	// the limit family is part of the keys the blocks write, rewrite and delete
	usedKeys := [][]byte{limitKey(64, 0x01, 0x02), limitKey(63, 0x01), limitKey(64, 0x01, 0x10)}
	checkVisible := func(tag string, h uint32) (ok bool) {
		ok = true
		rec := recs[h]
		if bc.BlockHeight() != h {
			ok = false
			o.Fail(tag+"height", k, "node is at %d, expected %d", bc.BlockHeight(), h)
			return
		}
		if d := dumpAll(bc, ids); !sameDump(d, rec.d) {
			ok = false
			o.Fail(tag+"storage-mismatch", k, "height %d: storage visible through SeekStorage differs from the storage the root of %d commits to: %s", h, h, diffDump(d, rec.d))
		}
		for i, rd := range reads {
			if got := runRO(bc, e, rd.script, 0, false); got != rec.reads[i] {
				ok = false
				o.Fail(tag+"read-mismatch", k, "height %d %s: now %s, was %s", h, rd.desc, got, rec.reads[i])
				break
			}
		}
		for i, fr := range finds {
			if h < deployedAt {
				break
			}
			if got := runFind(bc, e, fr.script, 0, false); got != rec.finds[i] {
				ok = false
				o.Fail(tag+"find-mismatch", k, "height %d %s: now %s, was %s", h, fr.line("live"), got, rec.finds[i])
				break
			}
		}
		return
	}
	commitBlock := func(txs []*transaction.Transaction) {
		e.AddNewBlock(t, txs...)
		record()
		h := bc.BlockHeight()
		if recs[h] == nil {
			return
		}
		cur := recs[h].d
		for kk, v := range cur {
			if strings.HasPrefix(kk, string(idKey(ids[0], nil))) && (len(kk) > 4+limits.MaxStorageKeyLen || len(v) > limits.MaxStorageValueLen) {
				o.Fail("over-limit-item-stored", k, "height %d: key of %d bytes, value of %d bytes", h, len(kk)-4, len(v))
			}
		}
		emitBatch(h, prev, cur)
		emitFinds(h)
		prev = cur
	}
	addRandomBlock := func() {
		ntx := r.Range(0, 4)
		var txs []*transaction.Transaction
		for i := 0; i < ntx; i++ {
			cc := contracts[r.Weighted([]int{4, 1})]
			w := io.NewBufBinWriter()
			nops := r.Range(1, 5)
			abort := r.Chance(1, 8)
			for j := 0; j < nops; j++ {
				var key []byte
				if len(usedKeys) > 0 && r.Chance(1, 2) {
					key = usedKeys[r.Intn(len(usedKeys))]
				} else {
					key = genKey(r, 0)
					usedKeys = append(usedKeys, key)
				}
				if r.Chance(1, 3) {
					emit.AppCall(w.BinWriter, cc.Hash, "del", callflag.All, key)
					o.Count("op:del")
					if live[string(key)] {
						o.Count("op:del-present")
					}
				} else {
					val := genVal(r)
					if r.Chance(1, 40) {
						emit.AppCall(w.BinWriter, cc.Hash, "putN", callflag.All, key, limits.MaxStorageValueLen)
						o.Count("put-val-len:max")
					} else {
						emit.AppCall(w.BinWriter, cc.Hash, "put", callflag.All, key, val)
						if len(val) == 0 {
							o.Count("put-val-len:0")
						}
					}
					o.Count("op:put")
					o.Count("put-key-len:" + lenClass(key))
					live[string(key)] = true
				}
			}
			if abort {
				emit.AppCall(w.BinWriter, cc.Hash, "putAbort", callflag.All, genKey(r, 0), []byte{0xEE})
				o.Count("tx:faulting")
			}
			tx := e.PrepareInvocation(t, w.Bytes(), []neotest.Signer{e.Validator})
			txs = append(txs, tx)
		}
		// one byte over a limit: Storage.Put refuses, the transaction faults, nothing is stored
		if r.Chance(1, 6) {
			w := io.NewBufBinWriter()
			if r.Chance(2, 3) {
				emit.AppCall(w.BinWriter, c.Hash, "put", callflag.All, limitKey(65, 0x01, 0x02, alphabet[r.Intn(len(alphabet))]), []byte{0x65})
				o.Count("op:put-key-65-refused")
			} else {
				emit.AppCall(w.BinWriter, c.Hash, "putN", callflag.All, genKey(r, 1), limits.MaxStorageValueLen+1)
				o.Count("op:put-val-over-refused")
			}
			txs = append(txs, e.PrepareInvocation(t, w.Bytes(), []neotest.Signer{e.Validator}))
		}
		if r.Chance(1, 4) {
			role := roles[r.Intn(len(roles))]
			n := r.Range(1, 3)
			w := io.NewBufBinWriter()
			emit.AppCall(w.BinWriter, roleHash, "designateAsRole", callflag.All, int64(role), rolePubs[:n])
			txs = append(txs, e.PrepareInvocation(t, w.Bytes(), []neotest.Signer{e.Committee}))
			o.Count("op:designate")
			if role == noderoles.StateValidator {
				svs = append(svs, svEntry{bc.BlockHeight() + 2, n}) // designated in block tip+1, in charge from tip+2
			}
		}
		commitBlock(txs)
	}
	// deferredProbe: historic contexts are CREATED now (for the tip height and for an older one), then
	// blocks that delete / rewrite / create exactly the keys the scripts read are stored, and only
	// then the scripts are executed in the earlier-created contexts. A historic answer for height h
	// must be the committed map of h whenever it is evaluated (Lean: historic_view_stable).
	deferredProbe := func() {
		tip := bc.BlockHeight()
		if stMode == 2 || tip < deployedAt || recs[tip] == nil {
			return
		}
		hs := []uint32{tip}
		if tip > deployedAt {
			if h := uint32(r.Range(deployedAt, int(tip)-1)); recs[h] != nil {
				hs = append(hs, h)
			}
		}
		type pending struct {
			h      uint32
			fi     int // index into finds, -1: a get
			key    []byte
			script []byte
			ic     *interop.Context
		}
		var pend []pending
		var touch [][]byte // keys of contract S the pending scripts read
		var newKeys [][]byte
		pre := string(idKey(ids[0], nil))
		for _, h := range hs {
			rec := recs[h]
			// finds: the ones that return items at h first, one with own writes, then any
			var pick []int
			for i, fr := range finds {
				if fr.id == ids[0] && strings.HasPrefix(rec.finds[i], "ok:[") && rec.finds[i] != "ok:[]" && len(pick) < 4 {
					pick = append(pick, i)
				}
			}
			pick = append(pick, 36+r.Intn(8), r.Intn(36))
			for _, i := range pick {
				pend = append(pend, pending{h: h, fi: i, script: finds[i].script})
				newKeys = append(newKeys, append(bytes.Clone(finds[i].prefix), 0x12))
			}
			// gets: present keys of S at h and an absent one
			var present [][]byte
			for _, kk := range sortedKeys(rec.d) {
				if strings.HasPrefix(kk, pre) {
					present = append(present, []byte(kk[4:]))
				}
			}
			var gk [][]byte
			for i := 0; i < 3 && len(present) > 0; i++ {
				gk = append(gk, present[r.Intn(len(present))])
			}
			gk = append(gk, genKey(r, 1))
			for _, key := range present {
				if len(key) >= 63 {
					gk = append(gk, key)
					break
				}
			}
			for _, key := range gk {
				pend = append(pend, pending{h: h, fi: -1, key: key, script: callScript(c.Hash, "get", key)})
			}
			touch = append(touch, gk...)
			if len(present) > 0 {
				touch = append(touch, present[0], present[len(present)-1])
			}
		}
		for i := range pend {
			ic, err := newCtx(bc, e, pend[i].script, pend[i].h+1, true)
			if err != nil {
				o.Fail("deferred-context", k, "GetTestHistoricVM for height %d at tip %d: %v", pend[i].h, tip, err)
				return
			}
			pend[i].ic = ic
		}
		// the blocks in between
		w := io.NewBufBinWriter()
		for i, key := range touch {
			if i%2 == 0 {
				emit.AppCall(w.BinWriter, c.Hash, "del", callflag.All, key)
			} else {
				emit.AppCall(w.BinWriter, c.Hash, "put", callflag.All, key, append([]byte{0xD0}, r.Bytes(2)...))
			}
		}
		for _, key := range newKeys {
			emit.AppCall(w.BinWriter, c.Hash, "put", callflag.All, key, []byte{0xD1})
		}
		commitBlock([]*transaction.Transaction{e.PrepareInvocation(t, w.Bytes(), []neotest.Signer{e.Validator})})
		for i := r.Range(0, 2); i > 0; i-- {
			addRandomBlock()
		}
		// now evaluate
		for _, pd := range pend {
			rec := recs[pd.h]
			which := "older"
			if pd.h == tip {
				which = "tip"
			}
			if pd.fi >= 0 {
				got := execFind(pd.ic, pd.script)
				o.Line("d"+finds[pd.fi].line(fmt.Sprint(pd.h)), got)
				if got != rec.finds[pd.fi] {
					o.Fail("historic-deferred-mismatch:find", k, "context for height %d created at tip %d, evaluated at %d: %s gives %s, the node answered %s at height %d", pd.h, tip, bc.BlockHeight(), finds[pd.fi].line("h"), got, rec.finds[pd.fi], pd.h)
				}
				o.Count("deferred:find-" + which)
			} else {
				got := execGet(pd.ic, pd.script)
				mk := idKey(ids[0], pd.key)
				o.Line(fmt.Sprintf("dget %d %s", pd.h, hx.Hex(mk)), got)
				want := "none"
				if v, ok := rec.d[string(mk)]; ok {
					want = hx.Hex(v)
				}
				if got != want {
					o.Fail("historic-deferred-mismatch:get", k, "context for height %d created at tip %d, evaluated at %d: get %x gives %s, storage of height %d had %s", pd.h, tip, bc.BlockHeight(), pd.key, got, pd.h, want)
				}
				o.Count("deferred:get-" + which)
			}
		}
	}
	if corpus {
		// the corpus case starts with the limit family: a 64-byte key with the longest value, a 63-byte key
		// that is a prefix of it with the empty value, a sibling 64-byte key
		w := io.NewBufBinWriter()
		emit.AppCall(w.BinWriter, c.Hash, "putN", callflag.All, limitKey(64, 0x01, 0x02), limits.MaxStorageValueLen)
		emit.AppCall(w.BinWriter, c.Hash, "put", callflag.All, limitKey(63, 0x01), []byte{})
		emit.AppCall(w.BinWriter, c.Hash, "put", callflag.All, limitKey(64, 0x01, 0x10), []byte{0x64})
		commitBlock([]*transaction.Transaction{e.PrepareInvocation(t, w.Bytes(), []neotest.Signer{e.Validator})})
		deferredProbe()
	}
	// validatedProbe: a state root signed by the designated state validators arrives (AddStateRoot): with the
	// right root, with a wrong root (ErrStateMismatch), with a bad signature; the record must keep index and
	// root, only the witness appears (the driver runs the model's addStateRoot)
	validatedProbe := func() {
		tip := bc.BlockHeight()
		// only the latest designated set can verify: getKeyCacheForHeight (stateroot/validators.go:32-39)
		// never returns an older key set, roots of heights before the latest designation are refused
		if len(svs) == 0 || svs[len(svs)-1].from > tip {
			return
		}
		i := uint32(r.Range(int(svs[len(svs)-1].from), int(tip)))
		n := 0
		for _, sv := range svs {
			if sv.from <= i {
				n = sv.n
			}
		}
		rec := recs[i]
		if n == 0 || rec == nil || i < 1 {
			return
		}
		sr := &state.MPTRoot{Index: i, Root: rec.root}
		kind := r.Weighted([]int{5, 2, 2})
		if kind == 1 {
			sr.Root[r.Intn(32)] ^= 0x40
		}
		privs := slices.Clone(rolePrivs[:n])
		slices.SortFunc(privs, func(a, b *keys.PrivateKey) int { return a.PublicKey().Cmp(b.PublicKey()) })
		pubs := make(keys.PublicKeys, n)
		for j := range privs {
			pubs[j] = privs[j].PublicKey()
		}
		script, err := smartcontract.CreateDefaultMultiSigRedeemScript(pubs)
		if err != nil {
			return
		}
		w := io.NewBufBinWriter()
		for j := 0; j < smartcontract.GetDefaultHonestNodeCount(n); j++ {
			sig := privs[j].SignHashable(uint32(bc.GetConfig().Magic), sr)
			if kind == 2 {
				sig[5] ^= 1
			}
			emit.Bytes(w.BinWriter, sig)
		}
		sr.Witness = []transaction.Witness{{InvocationScript: w.Bytes(), VerificationScript: script}}
		sm := bc.GetStateModule()
		adder, isAdder := sm.(interface {
			AddStateRoot(*state.MPTRoot) error
		})
		if !isAdder {
			return
		}
		aerr := adder.AddStateRoot(sr)
		got := "none"
		if cur, err := sm.GetStateRoot(i); err == nil {
			got = fmt.Sprintf("%d %s w%d v%d", cur.Index, hex.EncodeToString(cur.Root[:]), len(cur.Witness), sm.CurrentValidatedHeight())
		}
		verified := 1
		if kind == 2 {
			verified = 0
		}
		o.Line(fmt.Sprintf("validated %d %s %d", i, hex.EncodeToString(sr.Root[:]), verified), got)
		o.Count(fmt.Sprintf("validated:kind%d", kind))
		cur, gerr := sm.GetStateRoot(i)
		switch {
		case gerr != nil || cur.Root != rec.root || cur.Index != i:
			o.Fail("validated-root-changed", k, "AddStateRoot(%d, kind %d): the record of height %d is now %s, the root computed at that height was %s", i, kind, i, got, rec.root.StringLE())
		case kind == 0 && aerr != nil:
			o.Fail("validated-root-refused", k, "AddStateRoot(%d) with the node's own root signed by the %d designated validators: %v", i, n, aerr)
		case kind != 0 && aerr == nil:
			o.Fail("validated-root-accepted", k, "AddStateRoot(%d) kind %d (1 = another root, 2 = bad signature) accepted", i, kind)
		}
	}
	// failedFlush: the DB refuses one write while blocks with storage changes are waiting to be flushed.
	// Nothing may change for the readers: the storage the node serves must still be the one its top state
	// root commits to (checked here and, through all the historic paths, at the end); the following blocks,
	// a later successful flush and the restart / reset scenarios run on top of it.
	failAt := -1
	if flushFail {
		failAt = r.Intn(nBlocks)
	}
	failedFlush := func() {
		w := io.NewBufBinWriter()
		emit.AppCall(w.BinWriter, c.Hash, "put", callflag.All, genKey(r, 1), []byte{0xF1})
		emit.AppCall(w.BinWriter, c.Hash, "del", callflag.All, usedKeys[r.Intn(len(usedKeys))])
		commitBlock([]*transaction.Transaction{e.PrepareInvocation(t, w.Bytes(), []neotest.Signer{e.Validator})})
		st.failNext = true
		perr := bc.VerifPersist()
		if st.failed == 0 {
			st.failNext = false
			return // nothing was waiting to be written
		}
		o.Line("flush 0", "ok")
		o.Count("flush:failed")
		if perr == nil {
			o.Count("flush:failed-by-timer")
		}
		if !checkVisible("flushfail-", bc.BlockHeight()) {
			return
		}
		for i := r.Range(0, 2); i > 0; i-- {
			addRandomBlock()
		}
		if err := bc.VerifPersist(); err != nil {
			o.Fail("flush-retry-error", k, "the flush after the failed one: %v", err)
		}
		o.Line("flush 1", "ok")
		checkVisible("flushretry-", bc.BlockHeight())
	}
	for b := 0; b < nBlocks; b++ {
		addRandomBlock()
		if b == failAt {
			failedFlush()
		}
		if r.Chance(1, 3) && !syncClass { // with state roots in headers every root counts as validated
			validatedProbe()
		}
		if b == nBlocks/2 || r.Chance(1, 6) || (corpus && b%3 == 0) {
			deferredProbe()
		}
	}
	// stateRoots: GetStateRoot for every height up to a few above the top, and the module's own
	// idea of the current local root (through the driver: the model of the per-height records)
	stateRoots := func(tag string) {
		top := bc.BlockHeight()
		sm := bc.GetStateModule()
		for h := uint32(0); h <= top+3; h++ {
			obs := "none"
			sr, err := sm.GetStateRoot(h)
			if err == nil {
				obs = fmt.Sprintf("%d %s", sr.Index, hex.EncodeToString(sr.Root[:]))
			}
			o.Line(fmt.Sprintf("sroot %d", h), obs)
			rec := recs[h]
			switch {
			case h > top && err == nil:
				o.Fail(tag+"stale-state-root", k, "GetStateRoot(%d) above the top %d returns %s", h, top, obs)
			case h <= top && (err != nil || rec == nil || sr.Root != rec.root || sr.Index != h):
				o.Fail(tag+"state-root-record", k, "GetStateRoot(%d): %s, err %v, the root computed at that height was %v", h, obs, err, rec != nil && err == nil && sr.Root == rec.root)
			}
			o.Count("sroot")
		}
		o.Line("local", fmt.Sprintf("%d %s", sm.CurrentLocalHeight(), hex.EncodeToString(func() []byte { u := sm.CurrentLocalStateRoot(); return u[:] }())))
		if !syncClass {
			o.Line("vheight", fmt.Sprint(sm.CurrentValidatedHeight()))
		}
		if rec := recs[top]; rec != nil && (sm.CurrentLocalHeight() != top || sm.CurrentLocalStateRoot() != rec.root) {
			o.Fail(tag+"current-local", k, "the state module's current local root is (%d, %s), the chain is at %d with root %s", sm.CurrentLocalHeight(), sm.CurrentLocalStateRoot().StringLE(), top, rec.root.StringLE())
		}
	}
	stateRoots("")
	// a healthy replica fed the same blocks must compute the same state root at every height
	if flushFail {
		rb, _ := chain.NewSingleWithCustomConfigAndStore(t, func(c *config.Blockchain) {
			if stMode == 1 {
				c.Ledger.RemoveUntraceableBlocks = true
			}
			if syncClass {
				c.StateRootInHeader = true
				c.P2PStateExchangeExtensions = true
				c.StateSyncInterval = syncInterval
			}
		}, storage.NewMemoryStore(), false)
		go rb.Run()
		func() {
			defer rb.Close()
			for h := uint32(1); h <= bc.BlockHeight(); h++ {
				blk, err := bc.GetBlock(bc.GetHeaderHash(h))
				if err != nil {
					o.Fail("replica-block", k, "block %d: %v", h, err)
					return
				}
				if err := rb.AddBlock(blk); err != nil {
					o.Fail("replica-rejects-block", k, "a healthy replica rejects block %d of the node that had a failed flush: %v", h, err)
					return
				}
				sr, err := rb.GetStateModule().GetStateRoot(h)
				if rec := recs[h]; err != nil || rec == nil || sr.Root != rec.root {
					o.Fail("replica-root-mismatch", k, "height %d: the healthy replica has another state root than the node that had a failed flush", h)
					return
				}
				o.Count("replica:heights")
			}
		}()
	}

	// ---- restart / state reset inside the history -----------------------------------------
	// after a restart or a Reset(target) the node must show, through every API, exactly the storage
	// its (new) top state root commits to; then the chain goes on with new blocks
	scenario := 0
	if stMode != 2 && !corpus && !syncClass {
		scenario = r.Weighted([]int{4, 3, 4})
	}
	switch scenario {
	case 1: // restart
		o.Count("scenario:restart")
		top := bc.BlockHeight()
		closeNode()
		bc, acc = open(true)
		closed = false
		e = neotest.NewExecutor(t, bc, acc, acc)
		o.Line("restart", "ok")
		checkVisible("restart-", top)
		stateRoots("restart-")
		for i := r.Range(1, 4); i > 0; i-- {
			addRandomBlock()
		}
	case 2: // reset
		top := bc.BlockHeight()
		target := uint32(r.Range(deployedAt, int(top)))
		if r.Chance(1, 10) {
			target = top
		}
		o.Count("scenario:reset")
		closeNode()
		snap := st.snapshot()
		bcr, _ := open(false)
		st.rec, st.batches = true, nil
		err := func() (err error) {
			defer func() {
				if rec := recover(); rec != nil {
					err = fmt.Errorf("panic: %v", rec)
				}
			}()
			return bcr.Reset(target)
		}()
		st.rec = false
		resetBatches := st.batches
		st.batches = nil
		o.Add("reset:batches", len(resetBatches))
		// with RemoveUntraceableBlocks the failures get their own keys (tag)
		tag := "reset-"
		if stMode == 1 {
			tag = "reset-rub-"
		}
		// with RemoveUntraceableBlocks a reset below the current height is refused before anything is
		// written (blockchain.go:976-978): the node must be exactly as it was
		refused := err != nil && len(resetBatches) == 0 && stMode == 1 && target < top
		if err != nil && !refused {
			o.Fail(tag+"error", k, "Reset(%d) at height %d wrote %d batches and failed: %v", target, top, len(resetBatches), err)
			return
		}
		reopened := func() (ok bool) {
			defer func() {
				if rec := recover(); rec != nil {
					msg := fmt.Sprint(rec)
					if fn, isFn := rec.(failNow); isFn {
						msg = fn.msg
					}
					if i := strings.Index(msg, "Error:"); i >= 0 {
						msg = strings.Join(strings.Fields(msg[i:]), " ")
					}
					if len(msg) > 300 {
						msg = msg[:300]
					}
					o.Fail(tag+"reopen", k, "after Reset(%d) at height %d the node cannot be opened: %s", target, top, msg)
				}
			}()
			bc, acc = open(true)
			closed = false
			return true
		}()
		if !reopened {
			return
		}
		e = neotest.NewExecutor(t, bc, acc, acc)
		if refused {
			o.Count("reset:refused-rub")
			o.Line(fmt.Sprintf("resetrefused %d", target), "ok")
			tag = "reset-refused-"
			target = top // nothing was removed: every root and the whole storage must still be there
		} else {
			o.Line(fmt.Sprintf("reset %d", target), "ok")
			o.Add("reset:removed-blocks", int(top-target))
			for h := target + 1; h <= top; h++ {
				delete(recs, h)
			}
		}
		prev = recs[target].d
		if !checkVisible(tag, target) {
			return
		}
		// crash points inside the reset: the database after the first n batches; the reopened node
		// resumes the reset by itself and must then show exactly the storage of the target height
		if stMode == 0 && len(resetBatches) > 1 {
			points := []int{len(resetBatches) - 1, len(resetBatches) - 2, 1 + r.Intn(len(resetBatches)-1)}
			seen := map[int]bool{}
			for _, n := range points {
				if n < 1 || n >= len(resetBatches) || seen[n] {
					continue
				}
				seen[n] = true
				cst := crashedCopy(snap, resetBatches, n)
				saveBc, saveE := bc, e
				resumed := func() (ok bool) {
					defer func() {
						if rec := recover(); rec != nil {
							msg := fmt.Sprint(rec)
							if fn, isFn := rec.(failNow); isFn {
								msg = fn.msg
							}
							if i := strings.Index(msg, "Error:"); i >= 0 {
								msg = strings.Join(strings.Fields(msg[i:]), " ")
							}
							if len(msg) > 300 {
								msg = msg[:300]
							}
							o.Fail("reset-resumed-reopen", k, "crash after batch %d of %d of Reset(%d): reopening failed: %s", n, len(resetBatches), target, msg)
						}
					}()
					b2, a2 := openOn(cst, false)
					bc, e = b2, neotest.NewExecutor(t, b2, a2, a2)
					return true
				}()
				if resumed {
					checkVisible("reset-resumed-", target)
					o.Count("reset:crash-points")
				}
				bc, e = saveBc, saveE
			}
		}
		stateRoots(tag)
		for i := r.Range(1, 4); i > 0; i-- {
			addRandomBlock()
		}
	default:
		o.Count("scenario:none")
	}
	if scenario != 0 {
		stateRoots("after-")
	}
	top := bc.BlockHeight()
	o.Seen(recs[top].root.StringLE())
	if k < 2 {
		o.Sample(fmt.Sprintf("case %d: %d blocks, total storage: %d keys, root %s", k, nBlocks, len(recs[top].d), recs[top].root.StringLE()))
	}

	// ---- the RPC level, at a sample of retained heights --------------------------------------
	if stMode != 2 {
		hs := []uint32{top}
		for i := 0; i < 3; i++ {
			if h := uint32(r.Range(deployedAt, int(top))); !slices.Contains(hs, h) && recs[h] != nil {
				hs = append(hs, h)
			}
		}
		rpcChecks(o, k, r, bc, recs, hs, ids[0], c.Hash, prefixes, false)
	}

	// ---- historic reads of every height --------------------------------------------------
	sm := bc.GetStateModule()
	for h := h0; h <= top; h++ {
		rec := recs[h]
		if rec == nil {
			continue
		}
		if stMode == 2 && h != top {
			continue // only the latest state is retained
		}
		o.Count("heights-checked")
		// (1) whole trie = whole storage: nothing missing, nothing extra
		got := dump{}
		sm.SeekStates(rec.root, []byte{}, func(kk, v []byte) bool {
			got[string(kk)] = bytes.Clone(v)
			return true
		})
		if len(got) != len(rec.d) {
			o.Fail("trie-content-size", k, "height %d: trie has %d pairs, storage had %d", h, len(got), len(rec.d))
		}
		for kk, v := range rec.d {
			gv, ok := got[kk]
			if !ok {
				o.Fail("trie-missing-key", k, "height %d key %x", h, kk)
				break
			}
			if !bytes.Equal(gv, v) {
				o.Fail("trie-wrong-value", k, "height %d key %x: trie %x storage %x", h, kk, gv, v)
				break
			}
		}
		for kk := range got {
			if _, ok := rec.d[kk]; !ok {
				o.Fail("trie-extra-key", k, "height %d key %x", h, kk)
				break
			}
		}
		// (2) SeekStates / FindStates by prefix, GetState, proofs — on contract S
		sKeys := []string{}
		pre := string(idKey(ids[0], nil))
		for _, kk := range sortedKeys(rec.d) {
			if strings.HasPrefix(kk, pre) {
				sKeys = append(sKeys, kk)
			}
		}
		for _, p := range prefixes {
			full := string(idKey(ids[0], p))
			var want []string
			for _, kk := range sKeys {
				if strings.HasPrefix(kk, full) {
					want = append(want, kk)
				}
			}
			var gotK []string
			okOrder := true
			sm.SeekStates(rec.root, []byte(full), func(kk, v []byte) bool {
				key := full + string(kk)
				if !bytes.Equal(rec.d[key], v) {
					okOrder = false
				}
				gotK = append(gotK, key)
				return true
			})
			if !okOrder || strings.Join(gotK, "|") != strings.Join(want, "|") {
				o.Fail("seekstates-mismatch", k, "height %d prefix %x: got %x want %x", h, full, gotK, want)
			}
			o.Count("seekstates")
			// FindStates with from = nil / each present key / an absent key
			froms := [][]byte{nil, {}}
			for _, kk := range want {
				froms = append(froms, []byte(kk[len(full):]))
			}
			froms = append(froms, []byte{0x01, 0x11}, []byte{0x00}, []byte{0xff})
			for _, from := range froms {
				maxN := []int{1, 2, 1000}[r.Intn(3)]
				res, err := sm.FindStates(rec.root, []byte(full), from, maxN)
				var exp []string
				for _, kk := range want {
					suffix := kk[len(full):]
					if from == nil || bytes.Compare([]byte(suffix), from) > 0 {
						exp = append(exp, kk)
					}
				}
				if len(exp) > maxN {
					exp = exp[:maxN]
				}
				if err != nil {
					// Find reports an error when the prefix path does not exist in the trie at all, and
					// refuses prefix / from lengths beyond MaxKeyLength (trie.go:592-597).
					if len(full) > mpt.MaxKeyLength || len(from) > mpt.MaxKeyLength-len(full) {
						continue
					}
					if len(want) != 0 {
						o.Fail("findstates-error", k, "height %d prefix %x from %x: %v (expected %d results)", h, full, from, err, len(exp))
					}
					continue
				}
				var gk []string
				bad := false
				for _, kvp := range res {
					gk = append(gk, string(kvp.Key))
					if !bytes.Equal(rec.d[string(kvp.Key)], kvp.Value) {
						bad = true
					}
				}
				if bad || strings.Join(gk, "|") != strings.Join(exp, "|") {
					o.Fail("findstates-mismatch", k, "height %d prefix %x from %x max %d: got %x want %x", h, full, from, maxN, gk, exp)
				}
				o.Count("findstates")
			}
		}
		// GetState + proofs for present and absent keys
		probe := [][]byte{}
		for _, kk := range sKeys {
			probe = append(probe, []byte(kk))
		}
		for i := 0; i < 6; i++ {
			probe = append(probe, idKey(ids[0], genKey(r, 0)))
		}
		var someProof [][]byte
		var someProofKey []byte
		for _, pk := range probe {
			want, present := rec.d[string(pk)]
			v, err := sm.GetState(rec.root, pk)
			if present {
				if err != nil || !bytes.Equal(v, want) {
					o.Fail("getstate-present", k, "height %d key %x: got %x err %v want %x", h, pk, v, err, want)
				}
			} else if err == nil {
				o.Fail("getstate-absent", k, "height %d key %x: got %x for an absent key", h, pk, v)
			}
			if present {
				o.Line(fmt.Sprintf("get %d %s", h, hx.Hex(pk)), hx.Hex(want))
			} else {
				o.Line(fmt.Sprintf("get %d %s", h, hx.Hex(pk)), "none")
			}
			proof, perr := sm.GetStateProof(rec.root, pk)
			if present {
				if perr != nil {
					o.Fail("proof-missing", k, "height %d key %x: %v", h, pk, perr)
					continue
				}
				val, ok := mpt.VerifyProof(rec.root, pk, proof)
				if !ok || !bytes.Equal(val, want) {
					o.Fail("proof-incomplete", k, "height %d key %x: verify ok=%v val=%x want %x", h, pk, ok, val, want)
				}
				o.Count("proof-verified")
				someProof, someProofKey = proof, pk
				// tamper: flip a byte in one node / drop a node → must not verify to a different value
				if len(proof) > 0 {
					tp := make([][]byte, len(proof))
					for i := range proof {
						tp[i] = bytes.Clone(proof[i])
					}
					i := r.Intn(len(tp))
					if len(tp[i]) > 0 {
						tp[i][r.Intn(len(tp[i]))] ^= 1 << uint(r.Intn(8))
					}
					if val, ok := mpt.VerifyProof(rec.root, pk, tp); ok && !bytes.Equal(val, want) {
						o.Fail("proof-unsound-tamper", k, "height %d key %x: tampered proof verifies to %x (stored %x)", h, pk, val, want)
					}
					o.Count("proof-tampered")
				}
			} else {
				if perr == nil {
					if val, ok := mpt.VerifyProof(rec.root, pk, proof); ok {
						o.Fail("proof-unsound-absent", k, "height %d absent key %x verifies to %x", h, pk, val)
					}
				}
				// someone else's proof must not verify for an absent key
				if someProof != nil && !bytes.Equal(someProofKey, pk) {
					if val, ok := mpt.VerifyProof(rec.root, pk, someProof); ok {
						o.Fail("proof-unsound-absent", k, "height %d absent key %x verifies to %x with the proof of %x", h, pk, val, someProofKey)
					}
				}
				o.Count("proof-absent")
			}
		}
		// a proof from another height's root must not verify to a different value under this root
		if oh := h0 + uint32(r.Intn(int(top-h0)+1)); oh != h && recs[oh] != nil && len(sKeys) > 0 {
			pk := []byte(sKeys[r.Intn(len(sKeys))])
			if proof, err := sm.GetStateProof(recs[oh].root, pk); err == nil {
				if val, ok := mpt.VerifyProof(rec.root, pk, proof); ok && !bytes.Equal(val, rec.d[string(pk)]) {
					o.Fail("proof-unsound-otherroot", k, "height %d key %x: proof from height %d verifies to %x, stored %x", h, pk, oh, val, rec.d[string(pk)])
				}
				o.Count("proof-otherroot")
			}
		}
		// (3) historic invocations = live invocations at that height
		if h >= 1 && stMode != 2 {
			for i, rd := range reads {
				if r.Chance(1, 3) && h != top {
					continue // sample two thirds on inner heights
				}
				got := runRO(bc, e, rd.script, h+1, true)
				if got != rec.reads[i] {
					o.Fail("historic-invoke-mismatch:"+strings.Fields(rd.desc)[0], k, "height %d %s: historic %s live %s", h, rd.desc, got, rec.reads[i])
				}
				o.Count("historic-invoke")
			}
			for i, g := range gets {
				if h < deployedAt {
					continue
				}
				got := runGet(bc, e, g.script, h+1, true)
				o.Line(g.line(fmt.Sprint(h)), got)
				if got != rec.gets[i] {
					o.Fail("historic-invoke-mismatch:getw", k, "height %d %s: historic %s live %s", h, g.line("h"), got, rec.gets[i])
				}
				o.Count("historic-get")
			}
			for i, fr := range finds {
				if h < deployedAt || (r.Chance(1, 3) && h != top) {
					continue
				}
				got := runFind(bc, e, fr.script, h+1, true)
				o.Line(fr.line(fmt.Sprint(h)), got)
				if got != rec.finds[i] {
					o.Fail("historic-invoke-mismatch:find", k, "height %d %s: historic %s live %s", h, fr.line("h"), got, rec.finds[i])
				}
				o.Count("historic-find")
				if fr.write {
					o.Count("historic-find:own-writes")
				}
			}
		}
	}
	if syncClass {
		syncedNode(o, k, t, bc, acc, recs, ids, finds, gets)
	}
}
