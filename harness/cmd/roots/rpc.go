package main

// RPC level of C03: the state methods of pkg/services/rpcsrv (getstateroot, getstate, getproof,
// verifyproof, findstates, getstoragehistoric, findstoragehistoric) are called in-process through
// Server.RegisterLocal (no sockets) at historic roots, for present and absent keys; the answers are
// compared with the storage dump of that height (oracle) and go to the Lean driver (rpcget /
// rpcproof / rpcverify / rpcfind lines: Model/StateCommit/Rpc.lean over the model trie of the height).

import (
	"bytes"
	"context"
	"encoding/base64"
	"encoding/json"
	"fmt"
	"strings"

	"github.com/nspcc-dev/neo-go/pkg/config"
	"github.com/nspcc-dev/neo-go/pkg/core"
	"github.com/nspcc-dev/neo-go/pkg/core/mpt"
	"github.com/nspcc-dev/neo-go/pkg/neorpc"
	"github.com/nspcc-dev/neo-go/pkg/neorpc/result"
	"github.com/nspcc-dev/neo-go/pkg/network"
	"github.com/nspcc-dev/neo-go/pkg/services/rpcsrv"
	"github.com/nspcc-dev/neo-go/pkg/util"
	"go.uber.org/zap"

	"verif/harness/internal/hx"
	"verif/harness/internal/prng"
)

const rpcMaxFind = 4 // MaxFindResultItems / MaxFindStorageResultItems of the RPC server (small: truncation is exercised)

type rpcNode struct {
	call   func(*neorpc.Request) (*neorpc.Response, error)
	cancel context.CancelFunc
	id     uint64
	// lastPanic is the message of the last panic a handler raised
	lastPanic string
}

func newRPC(bc *core.Blockchain) (*rpcNode, error) {
	cfg := config.Config{
		ProtocolConfiguration: bc.GetConfig().ProtocolConfiguration,
		ApplicationConfiguration: config.ApplicationConfiguration{
			RPC: config.RPC{MaxFindResultItems: rpcMaxFind, MaxFindStorageResultItems: rpcMaxFind, MaxGasInvoke: 100_0000_0000},
		},
	}
	serverConfig, err := network.NewServerConfig(cfg)
	if err != nil {
		return nil, err
	}
	serverConfig.Addresses = []config.AnnounceableAddress{{Address: ":0"}}
	log := zap.NewNop()
	server, err := network.NewServer(serverConfig, bc, bc.GetStateSyncModule(), log)
	if err != nil {
		return nil, err
	}
	srv := rpcsrv.New(bc, cfg.ApplicationConfiguration.RPC, server, nil, log, make(chan error, 4))
	ctx, cancel := context.WithCancel(context.Background())
	events := make(chan neorpc.Notification, 64)
	go func() {
		for {
			select {
			case <-ctx.Done():
				return
			case <-events:
			}
		}
	}()
	return &rpcNode{call: srv.RegisterLocal(ctx, events), cancel: cancel}, nil
}

// do performs one request: the raw result or the RPC error code ("err:<code>"); a panic inside the
// handler is an observation.
func (n *rpcNode) do(method string, params ...any) (res json.RawMessage, errs string) {
	defer func() {
		if r := recover(); r != nil {
			res, errs = nil, "panic"
			n.lastPanic = fmt.Sprint(r)
		}
	}()
	n.id++
	resp, err := n.call(&neorpc.Request{JSONRPC: neorpc.JSONRPCVersion, Method: method, Params: params, ID: n.id})
	if err != nil {
		return nil, "err:transport"
	}
	if resp.Error != nil {
		return nil, fmt.Sprintf("err:%d", resp.Error.Code)
	}
	return resp.Result, ""
}

func b64(b []byte) string { return base64.StdEncoding.EncodeToString(b) }

func nodesStr(p [][]byte) string {
	if len(p) == 0 {
		return "none"
	}
	s := make([]string, len(p))
	for i := range p {
		s[i] = hx.Hex(p[i])
	}
	return strings.Join(s, ",")
}

// rpcChecks runs the RPC reads for a sample of heights of one case.
func rpcChecks(o *hx.Out, k int, r *prng.R, bc *core.Blockchain, recs map[uint32]*heightRec, heights []uint32,
	id int32, hash util.Uint160, prefixes [][]byte, latestOnly bool) {
	n, err := newRPC(bc)
	if err != nil {
		o.Fail("harness-rpc", k, "cannot build the RPC server: %v", err)
		return
	}
	defer n.cancel()
	top := bc.BlockHeight()
	// the RPC methods are addressed by contract hash: the driver resolves the id from Management's
	// record of the hash at the same height (Model/StateCommit/RpcId.lean)
	id4 := hx.Hex(append(idKey(bc.NativeManagementID(), nil), hash.BytesBE()...))
	pre := string(idKey(id, nil))
	for _, h := range heights {
		rec := recs[h]
		if rec == nil || (latestOnly && h != top) {
			continue
		}
		o.Count("rpc:heights")
		root := "0x" + rec.root.StringLE()
		// getstateroot by height
		if raw, e := n.do("getstateroot", h); e != "" {
			o.Fail("rpc-getstateroot", k, "height %d: %s", h, e)
		} else {
			var sr struct {
				Index uint32 `json:"index"`
				Root  string `json:"roothash"`
			}
			if json.Unmarshal(raw, &sr) != nil || sr.Index != h || strings.TrimPrefix(sr.Root, "0x") != rec.root.StringLE() {
				o.Fail("rpc-getstateroot", k, "height %d: %s, recorded root %s", h, raw, rec.root.StringLE())
			}
		}
		// keys of the contract at this height + absent ones
		var present [][]byte
		for _, kk := range sortedKeys(rec.d) {
			if strings.HasPrefix(kk, pre) {
				present = append(present, []byte(kk[4:]))
			}
		}
		var probe [][]byte
		for i := 0; i < 5 && len(present) > 0; i++ {
			probe = append(probe, present[r.Intn(len(present))])
		}
		for i := 0; i < 3; i++ {
			probe = append(probe, genKey(r, 0))
		}
		// the length limits: present keys of 63 / 64 bytes, an absent 64-byte key, a 65-byte key
		nl := 0
		for _, key := range present {
			if len(key) >= 63 && nl < 2 {
				probe = append(probe, key)
				nl++
			}
		}
		probe = append(probe, limitKey(64, 0x02, 0x02), limitKey(65, 0x01, 0x02, 0x10))
		var lastProof *result.ProofWithKey
		for _, key := range probe {
			want, isPresent := rec.d[pre+string(key)]
			// getstate
			raw, e := n.do("getstate", root, hash.StringLE(), b64(key))
			obs := "none"
			if e == "" {
				var v []byte
				if json.Unmarshal(raw, &v) != nil {
					obs = "garbled"
				} else {
					obs = hx.Hex(v)
				}
			} else if e == "panic" {
				obs = e
			}
			o.Line(fmt.Sprintf("rpcget %d %s %s", h, id4, hx.Hex(key)), obs)
			if (isPresent && obs != hx.Hex(want)) || (!isPresent && obs != "none") {
				o.Fail("rpc-getstate", k, "height %d key %x: %s (%s), storage had %x present=%v", h, key, obs, e, want, isPresent)
			}
			o.Count("rpc:getstate")
			o.Count("rpc:key-len:" + lenClass(key))
			// getstoragehistoric by contract hash
			raw, e = n.do("getstoragehistoric", root, hash.StringLE(), b64(key))
			var hv []byte
			if e == "" {
				_ = json.Unmarshal(raw, &hv)
			}
			if (isPresent && (e != "" || !bytes.Equal(hv, want))) || (!isPresent && e == "") {
				o.Fail("rpc-getstoragehistoric", k, "height %d key %x: %x (%s), storage had %x present=%v", h, key, hv, e, want, isPresent)
			}
			// getproof, then verifyproof of what it returned
			raw, e = n.do("getproof", root, hash.StringLE(), b64(key))
			pobs := "none"
			var pk result.ProofWithKey
			if e == "" {
				if json.Unmarshal(raw, &pk) != nil {
					pobs = "garbled"
				} else {
					pobs = hx.Hex(pk.Key) + " " + nodesStr(pk.Proof)
				}
			} else if e == "panic" {
				pobs = e
			}
			o.Line(fmt.Sprintf("rpcproof %d %s %s", h, id4, hx.Hex(key)), pobs)
			if isPresent != (e == "") {
				o.Fail("rpc-getproof", k, "height %d key %x present=%v: %s", h, key, isPresent, e)
			}
			o.Count("rpc:getproof")
			verify := func(tag string, p *result.ProofWithKey, mustBe []byte, mustExist bool) {
				raw, e := n.do("verifyproof", root, p.String())
				vobs := "invalid"
				if e == "" {
					var v []byte
					if json.Unmarshal(raw, &v) != nil {
						vobs = "garbled"
					} else {
						vobs = hx.Hex(v)
					}
				} else if e == "panic" {
					vobs = e
				}
				o.Line(fmt.Sprintf("rpcverify %d %s %s", h, hx.Hex(p.Key), nodesStr(p.Proof)), vobs)
				cur, exists := rec.d[string(p.Key)]
				switch {
				case vobs == "invalid":
					if mustExist {
						o.Fail("rpc-proof-incomplete", k, "height %d key %x (%s): the node's own proof does not verify", h, p.Key, tag)
					}
				case !exists || vobs != hx.Hex(cur):
					o.Fail("rpc-proof-unsound", k, "height %d key %x (%s): verifies to %s, storage had %x (present=%v)", h, p.Key, tag, vobs, cur, exists)
				case mustExist && vobs != hx.Hex(mustBe):
					o.Fail("rpc-proof-incomplete", k, "height %d key %x (%s): verifies to %s, want %x", h, p.Key, tag, vobs, mustBe)
				}
				o.Count("rpc:verifyproof:" + tag)
			}
			if e == "" && pobs != "garbled" {
				verify("own", &pk, want, true)
				// a flipped bit in one node
				tp := result.ProofWithKey{Key: pk.Key}
				for _, nd := range pk.Proof {
					tp.Proof = append(tp.Proof, bytes.Clone(nd))
				}
				i := r.Intn(len(tp.Proof))
				if len(tp.Proof[i]) > 0 {
					tp.Proof[i][r.Intn(len(tp.Proof[i]))] ^= 1 << uint(r.Intn(8))
				}
				verify("tampered", &tp, nil, false)
				// the same nodes presented for another key
				op := result.ProofWithKey{Key: idKey(id, genKey(r, 0)), Proof: pk.Proof}
				verify("otherkey", &op, nil, false)
				cp := pk
				lastProof = &cp
			} else if lastProof != nil {
				// an absent key with somebody else's proof
				op := result.ProofWithKey{Key: idKey(id, key), Proof: lastProof.Proof}
				verify("absent", &op, nil, false)
			}
		}
		// a proof obtained at another height, verified against this root
		if len(heights) > 1 && len(present) > 0 {
			oh := heights[r.Intn(len(heights))]
			if orec := recs[oh]; orec != nil && oh != h && !latestOnly {
				key := present[r.Intn(len(present))]
				if raw, e := n.do("getproof", "0x"+orec.root.StringLE(), hash.StringLE(), b64(key)); e == "" {
					var pk result.ProofWithKey
					if json.Unmarshal(raw, &pk) == nil {
						raw, e := n.do("verifyproof", root, pk.String())
						vobs := "invalid"
						if e == "" {
							var v []byte
							_ = json.Unmarshal(raw, &v)
							vobs = hx.Hex(v)
						}
						o.Line(fmt.Sprintf("rpcverify %d %s %s", h, hx.Hex(pk.Key), nodesStr(pk.Proof)), vobs)
						if vobs != "invalid" && vobs != hx.Hex(rec.d[string(pk.Key)]) {
							o.Fail("rpc-proof-unsound", k, "height %d key %x: a proof of height %d verifies to %s, storage had %x", h, pk.Key, oh, vobs, rec.d[string(pk.Key)])
						}
						o.Count("rpc:verifyproof:otherroot")
					}
				}
			}
		}
		// findstates
		for _, p := range prefixes {
			var under [][]byte
			for _, key := range present {
				if bytes.HasPrefix(key, p) {
					under = append(under, key)
				}
			}
			starts := [][]byte{nil, {}}
			if len(under) > 0 {
				starts = append(starts, under[r.Intn(len(under))], under[len(under)-1])
			}
			starts = append(starts, append(bytes.Clone(p), 0x01, 0x11), append(bytes.Clone(p), 0xff), []byte{0x55})
			if r.Chance(1, 3) {
				starts = append(starts, append(bytes.Clone(p), bytes.Repeat([]byte{0x10}, 66-len(p))...)) // 66 bytes: over Trie.Find's limit
			}
			if len(p) > 0 {
				starts = append(starts, bytes.Clone(p))
			}
			for _, st := range starts {
				counts := []int{-2, 0, 1, 2, 3, rpcMaxFind, rpcMaxFind + 3}
				cnt := counts[r.Intn(len(counts))]
				params := []any{root, hash.StringLE(), b64(p)}
				keyTok := "nil"
				if st != nil {
					params = append(params, b64(st))
					keyTok = hx.Hex(st)
				} else if cnt != -2 {
					params = append(params, "")
					st = []byte{}
					keyTok = "-"
				}
				eff := rpcMaxFind
				if cnt != -2 {
					params = append(params, cnt)
					eff = min(cnt, rpcMaxFind)
				}
				raw, e := n.do("findstates", params...)
				obs := ""
				var fs result.FindStates
				switch {
				case e == "panic":
					obs = "panic"
				case e == "err:-32603":
					obs = "err:internal"
				case e != "":
					obs = "err:keyprefix"
				case json.Unmarshal(raw, &fs) != nil:
					obs = "garbled"
				default:
					kvs := make([]string, len(fs.Results))
					for i, kv := range fs.Results {
						kvs[i] = hx.Hex(kv.Key) + "=" + hx.Hex(kv.Value)
					}
					obs = "F "
					if fs.Truncated {
						obs = "T "
					}
					if len(kvs) == 0 {
						obs += "none"
					} else {
						obs += strings.Join(kvs, ",")
					}
					fk, lk := "nil", "nil"
					if fs.FirstProof != nil {
						fk = hx.Hex(fs.FirstProof.Key)
					}
					if fs.LastProof != nil {
						lk = hx.Hex(fs.LastProof.Key)
					}
					obs += " " + fk + " " + lk
				}
				o.Line(fmt.Sprintf("rpcfind %d %s %s %s %d", h, id4, hx.Hex(p), keyTok, eff), obs)
				o.Count("rpc:findstates")
				// oracle: the ordered range of the dump strictly after the start key
				if obs == "panic" || obs == "garbled" {
					o.Fail("rpc-findstates-"+obs, k, "height %d prefix %x start %s count %d", h, p, keyTok, cnt)
					continue
				}
				o.Count("rpc:findstates-prefix-len:" + lenClass(p))
				if len(st) > 0 && !bytes.HasPrefix(st, p) {
					if obs != "err:keyprefix" {
						o.Fail("rpc-findstates-mismatch", k, "height %d prefix %x start %x does not extend the prefix but is accepted: %s", h, p, st, obs)
					}
					continue
				}
				if 4+len(p) > mpt.MaxKeyLength || (len(st) > 0 && bytes.HasPrefix(st, p) && len(st)-len(p) > mpt.MaxKeyLength-4-len(p)) {
					// Trie.Find refuses the lengths (trie.go:592-597)
					if obs != "err:internal" {
						o.Fail("rpc-findstates-mismatch", k, "height %d prefix of %d bytes, start of %d bytes: %s, Trie.Find refuses these lengths", h, len(p), len(st), obs)
					}
					continue
				}
				var want []string
				for _, key := range under {
					if len(st) == 0 || bytes.Compare(key, st) > 0 {
						want = append(want, hx.Hex(key)+"="+hx.Hex(rec.d[pre+string(key)]))
					}
				}
				trunc := "F "
				if len(want) > eff {
					want, trunc = want[:eff], "T "
				}
				wobs := trunc + "none"
				if len(want) > 0 {
					wobs = trunc + strings.Join(want, ",")
				}
				if !strings.HasPrefix(obs, wobs+" ") {
					o.Fail("rpc-findstates-mismatch", k, "height %d prefix %x start %s count %d: got %s want %s", h, p, keyTok, cnt, obs, wobs)
				}
				// the proofs of the first and last result verify to their values
				for i, pr := range []*result.ProofWithKey{fs.FirstProof, fs.LastProof} {
					if pr == nil {
						continue
					}
					raw, e := n.do("verifyproof", root, pr.String())
					var v []byte
					if e == "" {
						_ = json.Unmarshal(raw, &v)
					}
					if e != "" || !bytes.Equal(v, rec.d[string(pr.Key)]) {
						o.Fail("rpc-findstates-proof", k, "height %d prefix %x: proof %d of the answer verifies to %x (%s), storage had %x", h, p, i, v, e, rec.d[string(pr.Key)])
					}
					o.Count("rpc:findstates-proof")
				}
			}
			// findstoragehistoric: pages of rpcMaxFind from the ordered range
			skip := r.Intn(len(under) + 2)
			raw, e := n.do("findstoragehistoric", root, hash.StringLE(), b64(p), skip)
			var fst result.FindStorage
			if e != "" || json.Unmarshal(raw, &fst) != nil {
				o.Fail("rpc-findstoragehistoric", k, "height %d prefix %x skip %d: %s", h, p, skip, e)
				continue
			}
			var wantK []string
			for i, key := range under {
				if i >= skip && i < skip+rpcMaxFind {
					wantK = append(wantK, hx.Hex(key)+"="+hx.Hex(rec.d[pre+string(key)]))
				}
			}
			gotK := make([]string, len(fst.Results))
			for i, kv := range fst.Results {
				gotK[i] = hx.Hex(kv.Key) + "=" + hx.Hex(kv.Value)
			}
			if strings.Join(gotK, ",") != strings.Join(wantK, ",") || fst.Truncated != (len(under) > skip+rpcMaxFind) {
				o.Fail("rpc-findstoragehistoric", k, "height %d prefix %x skip %d: got %v truncated=%v, want %v of %d", h, p, skip, gotK, fst.Truncated, wantK, len(under))
			}
			o.Count("rpc:findstoragehistoric")
		}
	}
}
