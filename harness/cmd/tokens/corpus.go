package main

import (
	"math/big"

	"github.com/nspcc-dev/neo-go/pkg/crypto/keys"
	"github.com/nspcc-dev/neo-go/pkg/util"

	"verif/harness/internal/hx"
)

// Hand-written histories that run first (cases 0..nCorpus-1): corner cases a random history
// reaches only now and then.

const nCorpus = 3

func big64(n int64) *big.Int { return big.NewInt(n) }

type scen struct {
	w *world
	o *hx.Out
	k int
}

func (s *scen) block(specs ...*txSpec) { s.w.runBlock(s.o, s.k, specs) }

func (s *scen) tx(signers []util.Uint160, calls ...*call) *txSpec {
	fee := int64(2 * gasUnit)
	for _, c := range calls {
		fee += callFee(c)
	}
	return &txSpec{calls: calls, signers: signers, sysFee: fee}
}

func xferNeo(from, to util.Uint160, n *big.Int) *call {
	return &call{kind: kTransfer, neo: true, src: from, dst: to, amt: n}
}
func xferGas(from, to util.Uint160, n *big.Int) *call {
	return &call{kind: kTransfer, src: from, dst: to, amt: n}
}
func vote(a util.Uint160, p *keys.PublicKey) *call { return &call{kind: kVote, src: a, pub: p} }

// corpus0: votes, self-transfer of a voter's whole balance, voting account emptied, candidate
// dropped / re-registered (method and NEP-27 payment), unregister while voted then votes leaving,
// rewards across epochs with a stale gas-per-vote cache entry, then the Notary deposit life cycle.
func corpus0(w *world, o *hx.Out, k int) {
	s := &scen{w, o, k}
	u := func(i int) util.Uint160 { return w.users[i].ScriptHash() }
	val := w.valSigner.ScriptHash()
	c0, cx := w.cands[0], w.cands[len(w.cands)-1]
	a0, ax := c0.GetScriptHash(), cx.GetScriptHash()
	neoOf := func(h util.Uint160) *big.Int {
		st := w.dump()
		if a := st.neo[h]; a != nil {
			return a.bal
		}
		return new(big.Int)
	}
	// make u0 and u1 large holders whatever the random funding did
	s.block(s.tx([]util.Uint160{val}, xferNeo(val, u(0), big64(21_000_000)), xferNeo(val, u(1), big64(7_000_000))))
	s.block(s.tx([]util.Uint160{a0}, &call{kind: kRegister, pub: c0.PublicKey()}),
		s.tx([]util.Uint160{ax}, &call{kind: kRegister, pub: cx.PublicKey()}))
	s.block(s.tx([]util.Uint160{u(0)}, vote(u(0), c0.PublicKey())), s.tx([]util.Uint160{u(1)}, vote(u(1), cx.PublicKey())))
	for i := 0; i < 2*w.C+1; i++ { // let both become committee members and collect gas-per-vote
		s.block()
	}
	// a voter moves its whole balance to itself, to a new account and back
	s.block(s.tx([]util.Uint160{u(0)}, xferNeo(u(0), u(0), neoOf(u(0)))))
	s.block(s.tx([]util.Uint160{u(1)}, xferNeo(u(1), u(2), neoOf(u(1)))))            // voting account deleted, cx keeps 0 votes
	s.block(s.tx([]util.Uint160{ax}, &call{kind: kUnregister, pub: cx.PublicKey()})) // dropped (cache entry stays)
	s.block(s.tx([]util.Uint160{u(2)}, vote(u(2), cx.PublicKey())))                  // unknown candidate: false
	s.block(s.tx([]util.Uint160{ax}, &call{kind: kTransfer, src: ax, dst: w.neoH, amt: big64(1000 * gasUnit), data: dPub, dpub: cx.PublicKey()}))
	s.block(s.tx([]util.Uint160{u(2)}, vote(u(2), cx.PublicKey()))) // LastGasPerVote from the stale cache entry
	for i := 0; i < w.C+1; i++ {
		s.block()
	}
	s.block(s.tx([]util.Uint160{u(2)}, xferNeo(u(2), u(2), big64(0))))               // claim
	s.block(s.tx([]util.Uint160{ax}, &call{kind: kUnregister, pub: cx.PublicKey()})) // kept: voted
	half := new(big.Int).Rsh(neoOf(u(2)), 1)
	s.block(s.tx([]util.Uint160{u(2)}, xferNeo(u(2), u(0), half)))
	s.block(s.tx([]util.Uint160{u(2)}, xferNeo(u(2), u(1), neoOf(u(2))))) // last votes leave: record dropped
	s.block(s.tx([]util.Uint160{u(0)}, vote(u(0), cx.PublicKey())),       // unknown: false
		s.tx([]util.Uint160{u(0)}, vote(u(0), nil)), s.tx([]util.Uint160{u(0)}, vote(u(0), c0.PublicKey())))
	// vote and transfer in one transaction, vote change inside a block
	s.block(s.tx([]util.Uint160{ax}, &call{kind: kRegister, pub: cx.PublicKey()}),
		s.tx([]util.Uint160{u(0)}, vote(u(0), cx.PublicKey()), xferNeo(u(0), u(2), big64(5)), vote(u(0), c0.PublicKey())))
	// Treasury: first NEO payment is accepted, the second one needs a GAS mint to it and faults
	s.block(s.tx([]util.Uint160{u(0)}, xferNeo(u(0), w.treasuryH, big64(3))))
	s.block()
	s.block(s.tx([]util.Uint160{u(0)}, xferNeo(u(0), w.treasuryH, big64(1))))
	// u3's GAS is brought down to exactly the fees of its next transaction: burning them deletes its GAS item
	{
		last := s.tx([]util.Uint160{u(3)}, xferNeo(u(3), u(3), big64(0)))
		f2 := w.buildTx(last)
		fees2 := f2.SystemFee + f2.NetworkFee
		bal := w.dump().gas[u(3)]
		guess := s.tx([]util.Uint160{u(3)}, xferGas(u(3), u(0), new(big.Int).Sub(bal, big64(10*gasUnit))))
		f1 := w.buildTx(guess)
		amt := new(big.Int).Sub(bal, big64(f1.SystemFee+f1.NetworkFee+fees2))
		s.block(s.tx([]util.Uint160{u(3)}, xferGas(u(3), u(0), amt)))
		if b := w.dump().gas[u(3)]; b != nil && b.Int64() == fees2 {
			o.Count("corpus:gas-balance-equals-next-fees")
		}
		s.block(last)
	}
	// Notary
	h := w.bc.BlockHeight()
	s.block(s.tx([]util.Uint160{u(0)}, &call{kind: kTransfer, src: u(0), dst: w.notaryH, amt: gasAmt(3), data: dNotary, till: h + 4}))
	s.block(s.tx([]util.Uint160{u(0)}, &call{kind: kLock, src: u(0), till: h + 5}),
		s.tx([]util.Uint160{u(0)}, &call{kind: kWithdraw, src: u(0), dstNil: true}))
	uu := u(1)
	s.block(s.tx([]util.Uint160{u(0)}, &call{kind: kTransfer, src: u(0), dst: w.notaryH, amt: gasAmt(1), data: dNotary, till: h + 5, dto: &uu}),
		&txSpec{notary: true, nkeys: 2, signers: []util.Uint160{u(0)}, sysFee: gasUnit / 2})
	// u1's deposit (made for it by u0) pays a notary-assisted transaction whose fees equal it exactly
	s.block(&txSpec{notary: true, nkeys: 0, signers: []util.Uint160{u(1)}, sysFee: gasUnit / 4, exhaust: 1})
	// and u0's deposit one whose fees leave one datoshi
	s.block(&txSpec{notary: true, nkeys: 1, signers: []util.Uint160{u(0)}, sysFee: gasUnit / 4, exhaust: 2})
	// u0's deposit has expired: re-locking it to the block being persisted is refused, to the next one accepted;
	// a top-up by somebody else keeps the till, a withdrawal one block before the new till is refused
	hh := w.bc.BlockHeight()
	s.block(s.tx([]util.Uint160{u(0)}, &call{kind: kLock, src: u(0), till: hh + 1}),
		s.tx([]util.Uint160{u(0)}, &call{kind: kLock, src: u(0), till: hh + 2}))
	uu0 := u(0)
	s.block(s.tx([]util.Uint160{u(2)}, &call{kind: kTransfer, src: u(2), dst: w.notaryH, amt: big64(1), data: dNotary, till: hh + 9, dto: &uu0}),
		s.tx([]util.Uint160{u(0)}, &call{kind: kWithdraw, src: u(0), dstNil: true}))
	s.block(s.tx([]util.Uint160{u(0)}, &call{kind: kWithdraw, src: u(0), dst: w.nopay}))      // faults
	s.block(s.tx([]util.Uint160{u(0)}, &call{kind: kWithdraw, src: u(0), dst: w.wallets[0]})) // succeeds
	s.block(s.tx([]util.Uint160{u(0)}, &call{kind: kWithdraw, src: u(0), dstNil: true}))      // nothing left: false
}

// corpus1: single-member committee (every block is an epoch boundary), candidate elected, dropped with
// a stale cache entry, re-elected; a Wallet contract votes and is paid its GAS.
func corpus1(w *world, o *hx.Out, k int) {
	s := &scen{w, o, k}
	u := func(i int) util.Uint160 { return w.users[i].ScriptHash() }
	val := w.valSigner.ScriptHash()
	cx := w.cands[len(w.cands)-1]
	ax := cx.GetScriptHash()
	wl := w.wallets[0]
	s.block(s.tx([]util.Uint160{val}, xferNeo(val, u(0), big64(30_000_000)), xferNeo(val, wl, big64(1_000_000))))
	s.block(s.tx([]util.Uint160{ax}, &call{kind: kRegister, pub: cx.PublicKey()}))
	s.block(s.tx([]util.Uint160{u(0)}, vote(u(0), cx.PublicKey())),
		s.tx([]util.Uint160{u(1)}, &call{kind: kVote, src: wl, pub: cx.PublicKey(), via: &wl}))
	for i := 0; i < 3; i++ {
		s.block()
	}
	s.block(s.tx([]util.Uint160{u(0)}, vote(u(0), nil)), s.tx([]util.Uint160{u(1)}, &call{kind: kVote, src: wl, via: &wl}))
	s.block(s.tx([]util.Uint160{ax}, &call{kind: kUnregister, pub: cx.PublicKey()}))
	s.block(s.tx([]util.Uint160{ax}, &call{kind: kRegister, pub: cx.PublicKey()}))
	s.block(s.tx([]util.Uint160{u(0)}, vote(u(0), cx.PublicKey())))
	for i := 0; i < 3; i++ {
		s.block()
	}
	s.block(s.tx([]util.Uint160{u(0)}, xferNeo(u(0), u(0), big64(0))))
	// a payment to the Wallet that makes it pass the tokens on, and one that makes it vote
	s.block(s.tx([]util.Uint160{u(0)}, &call{kind: kTransfer, neo: true, src: u(0), dst: wl, amt: big64(10), data: dCall,
		nested: xferNeo(wl, u(2), big64(4))}))
	s.block(s.tx([]util.Uint160{u(0)}, &call{kind: kTransfer, src: u(0), dst: wl, amt: gasAmt(1), data: dCall,
		nested: &call{kind: kVote, src: wl, pub: cx.PublicKey()}}))
	s.block()
	s.block(s.tx([]util.Uint160{u(1)}, &call{kind: kTransfer, neo: true, src: wl, dst: u(1), amt: big64(1_000_006), via: &wl}))
	// a voting account's balance goes to exactly zero and back: in one transfer, split over two transfers of one
	// transaction, split over two transactions of one block; each time the votes must leave the candidate and the
	// voters count, and come back with the NEO and a new vote
	neoOf := func(h util.Uint160) *big.Int {
		if a := w.dump().neo[h]; a != nil {
			return new(big.Int).Set(a.bal)
		}
		return new(big.Int)
	}
	all := neoOf(u(0))
	s.block(s.tx([]util.Uint160{u(0)}, xferNeo(u(0), u(2), all)))
	s.block(s.tx([]util.Uint160{u(2)}, xferNeo(u(2), u(0), all)), s.tx([]util.Uint160{u(0)}, vote(u(0), cx.PublicKey())))
	third := new(big.Int).Div(all, big64(3))
	rest := new(big.Int).Sub(all, third)
	s.block(s.tx([]util.Uint160{u(0), u(2)}, xferNeo(u(0), u(2), third), xferNeo(u(0), u(2), rest),
		xferNeo(u(2), u(0), all), vote(u(0), cx.PublicKey())))
	s.block(s.tx([]util.Uint160{u(0)}, xferNeo(u(0), u(2), third)), s.tx([]util.Uint160{u(0)}, xferNeo(u(0), u(2), rest)))
	s.block(s.tx([]util.Uint160{u(2)}, xferNeo(u(2), u(0), all)))
	s.block(s.tx([]util.Uint160{u(0)}, vote(u(0), cx.PublicKey())))
	o.Count("corpus:voter-emptied-and-refilled")
	// re-entrant receiver (seed C05-m8): the Wallet contract holds NEO, is armed and votes; the GAS reward of the vote
	// is paid with a callback that transfers 1 NEO of the Wallet's own account away -- the account item of the vote must
	// have been written before; then it changes its vote and revokes it the same way
	s.block(s.tx([]util.Uint160{val}, xferNeo(val, wl, big64(500_000))))
	for i := 0; i < 3; i++ {
		s.block()
	}
	re := func(p *keys.PublicKey) *txSpec {
		t := s.tx([]util.Uint160{u(1)}, &call{kind: kArm, src: wl, dst: u(2)},
			&call{kind: kVote, src: wl, pub: p, via: &wl, nested: xferNeo(wl, u(2), big64(1))},
			&call{kind: kDisarm, src: wl})
		t.reentrant = true
		return t
	}
	s.block(re(cx.PublicKey()))
	s.block()
	s.block(re(cx.PublicKey()))
	s.block()
	s.block(re(nil))
	o.Count("corpus:reentrant-vote-reward")
}

// corpus2: the boundaries of the election. Committee of 3 (standby = candidates 0..2), 2 validators, two extra
// candidate keys. Turnout one NEO below / exactly at 20 % of the supply, vote ties (with and without votes),
// exactly as many candidates as seats / one short, the top candidate blocked and unblocked by the committee,
// votes cast in the last and in the first block of an epoch, the elected committee signing a committee call.
func corpus2(w *world, o *hx.Out, k int) {
	s := &scen{w, o, k}
	u := func(i int) util.Uint160 { return w.users[i].ScriptHash() }
	val := w.valSigner.ScriptHash()
	neoOf := func(h util.Uint160) int64 {
		if a := w.dump().neo[h]; a != nil {
			return a.bal.Int64()
		}
		return 0
	}
	// set the NEO balance of a user exactly (from / to the genesis holder)
	setNeo := func(i int, n int64) *txSpec {
		have := neoOf(u(i))
		switch {
		case have < n:
			return s.tx([]util.Uint160{val}, xferNeo(val, u(i), big64(n-have)))
		case have > n:
			return s.tx([]util.Uint160{u(i)}, xferNeo(u(i), val, big64(have-n)))
		}
		return s.tx([]util.Uint160{val}, xferNeo(val, val, big64(0)))
	}
	toEpochEnd := func() { // add empty blocks until the next block starts an epoch
		for (w.bc.BlockHeight()+1)%uint32(w.C) != 0 {
			s.block()
		}
	}
	acc := func(i int) util.Uint160 { return w.cands[i].GetScriptHash() }
	pub := func(i int) *keys.PublicKey { return w.cands[i].PublicKey() }
	s.block(setNeo(0, 19_999_999), setNeo(1, 1), setNeo(2, 500), setNeo(3, 500))
	var regs []*txSpec
	for i := range w.cands {
		regs = append(regs, s.tx([]util.Uint160{acc(i)}, &call{kind: kRegister, pub: pub(i)}))
	}
	s.block(regs...)
	// 19 999 999 NEO vote: one below the threshold -> standby committee
	s.block(s.tx([]util.Uint160{u(0)}, vote(u(0), pub(3))))
	toEpochEnd()
	s.block()
	// exactly 20 000 000: elected; candidates 3 (19 999 999), 4 (1), then the lowest key of the three with 0 votes
	s.block(s.tx([]util.Uint160{u(1)}, vote(u(1), pub(4))))
	toEpochEnd()
	s.block()
	// a committee call signed by the elected committee
	com := w.committeeSigner()
	w.signer[com.ScriptHash()] = com
	s.block(s.tx([]util.Uint160{val, com.ScriptHash()}, &call{kind: kSetGpb, amt: big64(3 * gasUnit)}))
	// tie with votes: u2 and u3 (500 each) vote for candidates 0 and 1
	s.block(s.tx([]util.Uint160{u(2)}, vote(u(2), pub(0))), s.tx([]util.Uint160{u(3)}, vote(u(3), pub(1))))
	toEpochEnd()
	s.block()
	// the vote that keeps the turnout at the threshold is withdrawn in the LAST block of an epoch ...
	toEpochEnd()
	for (w.bc.BlockHeight()+2)%uint32(w.C) != 0 {
		s.block()
	}
	s.block(s.tx([]util.Uint160{u(1)}, vote(u(1), nil)))
	// ... and cast again in the FIRST block of the next one (gas-per-vote of that block reads the storage votes)
	s.block(s.tx([]util.Uint160{u(1)}, vote(u(1), pub(4))))
	toEpochEnd()
	s.block()
	// exactly as many candidates as seats: two of the five unregister (one voted, one not)
	s.block(s.tx([]util.Uint160{acc(2)}, &call{kind: kUnregister, pub: pub(2)}),
		s.tx([]util.Uint160{acc(1)}, &call{kind: kUnregister, pub: pub(1)}))
	toEpochEnd()
	s.block()
	// one short: standby again although the turnout is fine
	s.block(s.tx([]util.Uint160{acc(0)}, &call{kind: kUnregister, pub: pub(0)}))
	toEpochEnd()
	s.block()
	// everybody back; the committee in office blocks the account of the top candidate, later unblocks it
	s.block(s.tx([]util.Uint160{acc(0)}, &call{kind: kRegister, pub: pub(0)}),
		s.tx([]util.Uint160{acc(1)}, &call{kind: kRegister, pub: pub(1)}),
		s.tx([]util.Uint160{acc(2)}, &call{kind: kRegister, pub: pub(2)}))
	toEpochEnd()
	s.block()
	com = w.committeeSigner()
	w.signer[com.ScriptHash()] = com
	s.block(s.tx([]util.Uint160{val, com.ScriptHash()}, &call{kind: kBlock, src: acc(3)}))
	toEpochEnd()
	s.block()
	com = w.committeeSigner()
	w.signer[com.ScriptHash()] = com
	// nothing but the unblocking happens in this epoch: candidate 3 (no votes left: the blocking revoked nothing of
	// its voters', but u0 voted for it) is eligible again
	s.block(s.tx([]util.Uint160{val, com.ScriptHash()}, &call{kind: kUnblock, src: acc(3)}))
	toEpochEnd()
	s.block()
	toEpochEnd()
	s.block()
	s.block(s.tx([]util.Uint160{u(0)}, xferNeo(u(0), u(0), big64(0)))) // claim
}
