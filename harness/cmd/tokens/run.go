package main

import (
	"fmt"
	"math/big"
	"os"
	"strings"

	"github.com/nspcc-dev/neo-go/pkg/core/state"
	"github.com/nspcc-dev/neo-go/pkg/core/transaction"
	"github.com/nspcc-dev/neo-go/pkg/crypto/keys"
	"github.com/nspcc-dev/neo-go/pkg/neotest"
	"github.com/nspcc-dev/neo-go/pkg/smartcontract/trigger"
	"github.com/nspcc-dev/neo-go/pkg/util"
	"github.com/nspcc-dev/neo-go/pkg/vm/opcode"
	"github.com/nspcc-dev/neo-go/pkg/vm/stackitem"
	"github.com/nspcc-dev/neo-go/pkg/vm/vmstate"

	"verif/harness/internal/hx"
)

// txSpec is one transaction as the generator decided it.
type txSpec struct {
	calls   []*call
	abort   bool
	signers []util.Uint160 // first = sender
	sysFee  int64
	raw     []byte // non-nil: script given verbatim (deploy etc.), no model calls
	// notary-assisted transaction: sender = Notary contract, signers[0] is the payer
	notary bool
	nkeys  uint8
	// attr: an ordinary sender (signers[0]) with the NotaryAssisted attribute and the Notary contract as
	// an additional signer (the shape of a completed main transaction of the notary service)
	attr bool
	// scope of a signer (absent = Global); ordinary transactions only
	scope map[util.Uint160]sigScope
	// reentrant: the transaction of the class "re-entrant receiver"
	reentrant bool
	// emptied: class of the "voting account emptied" addition ("one", "several", "+back"), "" = none
	emptied string
	// exhaust: 1 = SystemFee chosen so that SystemFee+NetworkFee equals the payer's deposit exactly,
	// 2 = one datoshi less than the deposit, 0 = sysFee as given
	exhaust int
}

type sigScope struct {
	scopes  transaction.WitnessScope
	allowed []util.Uint160
	groups  []*keys.PublicKey
	rules   []transaction.WitnessRule
}

// condString renders a witness condition for the model: prefix notation, tokens separated by '.'; a list
// And[c1,..,cn] / Or[..] is written as nested binary A / O.
func (w *world) condString(c transaction.WitnessCondition) string {
	list := func(op string, cs []transaction.WitnessCondition) string {
		if len(cs) == 0 {
			panic("empty condition list")
		}
		r := w.condString(cs[len(cs)-1])
		for i := len(cs) - 2; i >= 0; i-- {
			r = op + "." + w.condString(cs[i]) + "." + r
		}
		return r
	}
	switch v := c.(type) {
	case *transaction.ConditionBoolean:
		if bool(*v) {
			return "T"
		}
		return "F"
	case *transaction.ConditionNot:
		return "N." + w.condString(v.Condition)
	case *transaction.ConditionAnd:
		return list("A", []transaction.WitnessCondition(*v))
	case *transaction.ConditionOr:
		return list("O", []transaction.WitnessCondition(*v))
	case *transaction.ConditionScriptHash:
		return fmt.Sprintf("S%d", w.aid(util.Uint160(*v)))
	case transaction.ConditionCalledByEntry, *transaction.ConditionCalledByEntry:
		return "E"
	case *transaction.ConditionCalledByContract:
		return fmt.Sprintf("C%d", w.aid(util.Uint160(*v)))
	case *transaction.ConditionGroup:
		return "G"
	case *transaction.ConditionCalledByGroup:
		return "H"
	}
	panic(fmt.Sprintf("condition type %T", c))
}

// newTxScoped builds and signs a transaction whose signers carry the given scopes.
func (w *world) newTxScoped(script []byte, sysFee int64, signers []neotest.Signer, scope map[util.Uint160]sigScope) *transaction.Transaction {
	tx := transaction.New(script, 0)
	w.nonce++
	tx.Nonce = w.nonce
	tx.ValidUntilBlock = w.bc.BlockHeight() + 1
	for _, sg := range signers {
		sc, ok := scope[sg.ScriptHash()]
		if !ok {
			sc = sigScope{scopes: transaction.Global}
		}
		tx.Signers = append(tx.Signers, transaction.Signer{Account: sg.ScriptHash(), Scopes: sc.scopes, AllowedContracts: sc.allowed,
			AllowedGroups: sc.groups, Rules: sc.rules})
	}
	neotest.AddNetworkFee(w.t, w.bc, tx, signers...)
	tx.SystemFee = sysFee
	for _, sg := range signers {
		if err := sg.SignTx(w.bc.GetConfig().Magic, tx); err != nil {
			panic(err)
		}
	}
	return tx
}

// signersField renders the signers of a transaction for the model: acc:scopes[:allowed contract]*
func (w *world) signersField(tx *transaction.Transaction) string {
	var es []string
	for _, sg := range tx.Signers {
		e := fmt.Sprintf("%d:%d", w.aid(sg.Account), byte(sg.Scopes))
		for _, h := range sg.AllowedContracts {
			e += fmt.Sprintf(":%d", w.aid(h))
		}
		if len(sg.Rules) > 0 {
			e += ":r"
			for _, r := range sg.Rules {
				a := "-"
				if r.Action == transaction.WitnessAllow {
					a = "+"
				}
				e += ":" + a + w.condString(r.Condition)
			}
		}
		es = append(es, e)
	}
	return strings.Join(es, ",")
}

func (w *world) committeeHash() util.Uint160 { return w.committeeSigner().ScriptHash() }

func (w *world) buildTx(s *txSpec) *transaction.Transaction {
	script := s.raw
	if script == nil {
		script = w.script(s.calls, s.abort)
	}
	if s.notary {
		return w.buildNotaryTx(s, script)
	}
	if s.attr {
		return w.buildAttrTx(s, script)
	}
	uniq := s.signers[:0:0]
	for _, h := range s.signers {
		dup := false
		for _, x := range uniq {
			dup = dup || x == h
		}
		if !dup {
			uniq = append(uniq, h)
		}
	}
	s.signers = uniq
	sg := make([]neotest.Signer, len(s.signers))
	for i, h := range s.signers {
		x, ok := w.signer[h]
		if !ok {
			if h == w.committeeHash() {
				x = w.committeeSigner()
			} else {
				panic("no signer for account")
			}
		}
		sg[i] = x
	}
	return w.newTxScoped(script, s.sysFee, sg, s.scope)
}

// buildNotaryTx: Signers = [Notary (None), payer (Global)], NotaryAssisted attribute, witness of the
// Notary signer = signature of the designated notary node (checked by Notary.verify).
func (w *world) buildNotaryTx(s *txSpec, script []byte) *transaction.Transaction {
	payer := w.signer[s.signers[0]]
	tx := transaction.New(script, s.sysFee)
	w.nonce++
	tx.Nonce = w.nonce
	tx.ValidUntilBlock = w.bc.BlockHeight() + 1
	tx.Attributes = []transaction.Attribute{{Type: transaction.NotaryAssistedT, Value: &transaction.NotaryAssisted{NKeys: s.nkeys}}}
	tx.Signers = []transaction.Signer{
		{Account: w.notaryH, Scopes: transaction.None},
		{Account: payer.ScriptHash(), Scopes: transaction.Global},
	}
	neotest.AddNetworkFee(w.t, w.bc, tx, payer)
	tx.NetworkFee += 5_000_000 // Notary.verify + its witness bytes
	if s.exhaust != 0 {
		if d := w.dump().deps[payer.ScriptHash()]; d != nil {
			sys := d.amount.Int64() - tx.NetworkFee - int64(s.exhaust-1)
			if sys >= s.sysFee {
				tx.SystemFee = sys
			}
		}
	}
	magic := uint32(w.bc.GetConfig().Magic)
	tx.Scripts = []transaction.Witness{
		{InvocationScript: append([]byte{byte(opcode.PUSHDATA1), keys.SignatureLen}, w.notaryKey.SignHashable(magic, tx)...)},
		{InvocationScript: payer.SignHashable(magic, tx), VerificationScript: payer.Script()},
	}
	return tx
}

// buildAttrTx: Signers = [sender (Global), Notary (None)], NotaryAssisted attribute; nothing is charged to a
// deposit, but the notary nodes are rewarded and the primary's reward is reduced accordingly.
func (w *world) buildAttrTx(s *txSpec, script []byte) *transaction.Transaction {
	sender := w.signer[s.signers[0]]
	tx := transaction.New(script, s.sysFee)
	w.nonce++
	tx.Nonce = w.nonce
	tx.ValidUntilBlock = w.bc.BlockHeight() + 1
	tx.Attributes = []transaction.Attribute{{Type: transaction.NotaryAssistedT, Value: &transaction.NotaryAssisted{NKeys: s.nkeys}}}
	tx.Signers = []transaction.Signer{
		{Account: sender.ScriptHash(), Scopes: transaction.Global},
		{Account: w.notaryH, Scopes: transaction.None},
	}
	neotest.AddNetworkFee(w.t, w.bc, tx, sender)
	tx.NetworkFee += 5_000_000
	magic := uint32(w.bc.GetConfig().Magic)
	tx.Scripts = []transaction.Witness{
		{InvocationScript: sender.SignHashable(magic, tx), VerificationScript: sender.Script()},
		{InvocationScript: append([]byte{byte(opcode.PUSHDATA1), keys.SignatureLen}, w.notaryKey.SignHashable(magic, tx)...)},
	}
	return tx
}

type xfer struct {
	neo      bool
	from, to *util.Uint160
	amt      *big.Int
}

func (w *world) transfers(evs []state.NotificationEvent, bad func(string)) []xfer {
	var res []xfer
	for _, ev := range evs {
		if ev.Name != "Transfer" || (ev.ScriptHash != w.neoH && ev.ScriptHash != w.gasH) {
			continue
		}
		arr := ev.Item.Value().([]stackitem.Item)
		if len(arr) != 3 {
			bad("Transfer event with wrong arity")
			continue
		}
		x := xfer{neo: ev.ScriptHash == w.neoH}
		for i, dst := range []**util.Uint160{&x.from, &x.to} {
			if _, ok := arr[i].(stackitem.Null); ok {
				continue
			}
			b, err := arr[i].TryBytes()
			if err != nil {
				bad("Transfer event address")
				continue
			}
			h, err := util.Uint160DecodeBytesBE(b)
			if err != nil {
				bad("Transfer event address length")
				continue
			}
			*dst = &h
		}
		a, err := arr[2].TryInteger()
		if err != nil {
			bad("Transfer event amount")
			continue
		}
		x.amt = a
		res = append(res, x)
	}
	return res
}

func resString(it stackitem.Item) string {
	switch v := it.(type) {
	case stackitem.Null:
		return "N"
	case stackitem.Bool:
		if v.Value().(bool) {
			return "T"
		}
		return "F"
	default:
		if b, err := it.TryBool(); err == nil {
			if b {
				return "T"
			}
			return "F"
		}
		return "?"
	}
}

// runBlock adds one block made of the given transactions, prints the operations for the model
// with the real observations, and evaluates the oracle on the real state and events.
func (w *world) runBlock(o *hx.Out, k int, specs []*txSpec) bool {
	pre := w.dump()
	txs := make([]*transaction.Transaction, len(specs))
	for i, s := range specs {
		txs[i] = w.buildTx(s)
	}
	primary := byte(w.r.Intn(w.V))
	b, err, pnc := w.addBlockSafe(primary, txs...)
	if pnc != nil {
		// the real block processing panicked: an observation the model does not share
		o.Count("block:panic")
		o.Line(fmt.Sprintf("block %d", w.bc.BlockHeight()+1), fmt.Sprintf("panic"))
		if os.Getenv("TOKENS_DEBUG") != "" {
			fmt.Fprintf(os.Stderr, "case %d: AddBlock panicked: %v\n", k, pnc)
		}
		panic(failNow{"AddBlock panicked"})
	}
	if err != nil {
		// the generator built an invalid block: harness problem, not a finding
		if strings.Contains(err.Error(), "onPersist failed") || strings.Contains(err.Error(), "postPersist failed") {
			// OnPersist / PostPersist of the natives failed on a block of verified transactions:
			// the model's onpersist / postpersist answer `ok` here unless it panics too.
			o.Count("block:persist-failed")
			op := "onpersist 0 - 0"
			if strings.Contains(err.Error(), "postPersist failed") {
				op = "postpersist -"
			}
			o.Line(fmt.Sprintf("block %d", w.bc.BlockHeight()+1), "ok")
			o.Line(op, "panic")
			panic(failNow{"block processing failed: " + err.Error()})
		}
		o.Count("block:rejected")
		if os.Getenv("TOKENS_DEBUG") != "" {
			for i, tx := range txs {
				fmt.Fprintf(os.Stderr, "  tx %d %s sender=%d sys=%d net=%d notary=%v gas=%s dep=%v\n", i, tx.Hash().StringLE(), w.aid(tx.Sender()), tx.SystemFee, tx.NetworkFee, specs[i].notary, pre.gas[tx.Sender()], pre.deps[tx.Signers[len(tx.Signers)-1].Account])
			}
		}
		panic(failNow{"block rejected: " + err.Error()})
	}
	post := w.dump()
	idx := b.Index
	o.Count("blocks")
	aers, err := w.bc.GetAppExecResults(b.Hash(), trigger.OnPersist)
	blockObs := "ok"
	if err == nil && len(aers) == 1 {
		for _, ev := range aers[0].Events {
			if ev.Name == "CommitteeChanged" && ev.ScriptHash == w.neoH {
				blockObs = "ok cc"
				o.Count("event:CommitteeChanged")
			}
		}
	}
	o.Line(fmt.Sprintf("block %d", idx), blockObs)

	bad := func(s string) { o.Fail("event-shape", k, "block %d: %s", idx, s) }
	var all []xfer
	// OnPersist: the model finds the primary's account itself (validators of the running epoch)
	var sb strings.Builder
	fmt.Fprintf(&sb, "onpersist %d %d", primary, len(txs))
	for i, tx := range txs {
		nk, payer := "-", "-"
		if specs[i].notary {
			nk = fmt.Sprint(specs[i].nkeys)
			payer = fmt.Sprint(w.aid(tx.Signers[1].Account))
		} else if specs[i].attr {
			nk = fmt.Sprint(specs[i].nkeys)
		}
		fmt.Fprintf(&sb, " %d %d %d %s %s", w.aid(tx.Sender()), tx.SystemFee, tx.NetworkFee, nk, payer)
	}
	o.Line(sb.String(), "ok")
	if err != nil || len(aers) != 1 {
		o.Fail("aer-missing", k, "block %d OnPersist", idx)
	} else {
		if aers[0].VMState != vmstate.Halt {
			o.Fail("persist-fault", k, "block %d OnPersist %s", idx, aers[0].FaultException)
		}
		all = append(all, w.transfers(aers[0].Events, bad)...)
	}
	// transactions
	for i, tx := range txs {
		s := specs[i]
		o.Line(fmt.Sprintf("tx %d %s", w.aid(tx.Sender()), w.signersField(tx)), "ok")
		for _, sg := range tx.Signers {
			o.Count(fmt.Sprintf("signer-scope:%d", byte(sg.Scopes)))
		}
		var lines []string
		for _, c := range s.calls {
			w.opLines(c, util.Uint160{}, &lines)
		}
		for _, l := range lines {
			o.Line(l, ".")
			o.Count("op:" + strings.SplitN(l, " ", 2)[0])
		}
		ra, err := w.bc.GetAppExecResults(tx.Hash(), trigger.Application)
		obs := "?"
		if err != nil || len(ra) != 1 {
			o.Fail("aer-missing", k, "block %d tx %d", idx, i)
		} else if ra[0].VMState == vmstate.Halt {
			parts := []string{"HALT"}
			if s.raw == nil && len(s.calls) > 0 {
				for _, it := range ra[0].Stack {
					parts = append(parts, resString(it))
				}
			}
			obs = strings.Join(parts, " ")
			all = append(all, w.transfers(ra[0].Events, bad)...)
			o.Count("tx:HALT")
			if s.reentrant {
				o.Count("class:reentrant-vote-reward-tx")
				n := 0
				for _, x := range w.transfers(ra[0].Events, bad) {
					if x.neo {
						n++
					}
				}
				if n > 0 {
					o.Count("class:reentrant-callback-ran")
				}
			}
			if s.emptied != "" {
				o.Count("class:voter-emptied-" + s.emptied)
			}
			if s.raw == nil && len(parts)-1 == len(s.calls) {
				for j, c := range s.calls {
					o.Count("res:" + c.label(w) + ":" + parts[j+1])
				}
			}
		} else {
			obs = "FAULT"
			o.Count("tx:FAULT")
			// (the events a faulted execution logged are not "emitted by a successful execution": ignored)
			w.lastFault = ra[0].FaultException
			if strings.Contains(ra[0].FaultException, "is blocked") {
				o.Count("fault:blocked-contract")
			}
			if os.Getenv("TOKENS_DEBUG") != "" {
				fmt.Fprintf(os.Stderr, "case %d block %d tx %d FAULT: %s\n", k, idx, i, ra[0].FaultException)
			}
		}
		o.Line(fmt.Sprintf("endtx %d", b01(s.abort)), obs)
	}
	// PostPersist: the model uses its own committee
	o.Line("postpersist", "ok")
	aers, err = w.bc.GetAppExecResults(b.Hash(), trigger.PostPersist)
	if err != nil || len(aers) != 1 {
		o.Fail("aer-missing", k, "block %d PostPersist", idx)
	} else {
		if aers[0].VMState != vmstate.Halt {
			o.Fail("persist-fault", k, "block %d PostPersist %s", idx, aers[0].FaultException)
		}
		all = append(all, w.transfers(aers[0].Events, bad)...)
	}
	o.Line("endblock", w.line(post)+w.govLine(post, all))
	w.coverage(o, pre, post, all)
	w.oracle(o, k, idx, pre, post, all)
	return true
}
