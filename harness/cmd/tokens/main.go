// Command tokens: correspondence + oracle stream for C05 (native token supply and
// governance accounting are conserved).
package main

import (
	"fmt"
	"os"

	"verif/harness/internal/hx"
	"verif/harness/internal/prng"
)

func main() {
	if len(os.Args) > 1 && os.Args[1] == "probe" {
		probe()
		return
	}
	f := hx.ParseFlags()
	o := hx.NewOut(f.Out)
	defer o.Close()
	_ = prng.ForCase
}

func probe() {
	t := &tb{}
	defer t.done()
	r := prng.ForCase(1, 0)
	w := newWorld(t, r, 3, 2, 3, 1)
	fmt.Println(w.line(w.dump()))
	wc := walletContract(w.valSigner.ScriptHash(), "W0")
	h := w.e.DeployContract(t, wc, nil)
	aer := w.e.GetTxExecResult(t, h)
	fmt.Println("deploy", aer.VMState, aer.FaultException)
	fmt.Println(w.line(w.dump()))
}
