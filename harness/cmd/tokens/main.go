// Command tokens: correspondence + oracle stream for C05 (native token supply and
// governance accounting are conserved).
package main

import (
	"fmt"
	"os"
	"runtime/debug"

	"github.com/nspcc-dev/neo-go/pkg/smartcontract/trigger"

	"verif/harness/internal/hx"
	"verif/harness/internal/prng"
)

const gasInit = 5200000000000000

func main() {
	if len(os.Args) > 2 && os.Args[1] == "probe-restart" {
		var at uint32
		fmt.Sscan(os.Args[2], &at)
		probeRestart(at)
		return
	}
	f := hx.ParseFlags()
	o := hx.NewOut(f.Out)
	defer o.Close()
	n := f.N(100, 3000)
	for k := 0; k < n; k++ {
		if !f.Want(k) {
			continue
		}
		runCase(o, f, k)
	}
}

func runCase(o *hx.Out, f *hx.Flags, k int) {
	r := prng.ForCase(f.Seed, k)
	t := &tb{}
	defer t.done()
	defer func() {
		if e := recover(); e != nil {
			// a problem of the harness itself (neotest require failed, invalid block built):
			// reported on stderr and counted, never as a finding.
			o.Count("case:aborted")
			fmt.Fprintf(os.Stderr, "case %d aborted: %v\n", k, e)
			if os.Getenv("TOKENS_DEBUG") != "" {
				debug.PrintStack()
			}
		}
	}()
	C := 1 + r.Weighted([]int{2, 3, 4, 3, 2})
	V := 1 + r.Intn(min(C, 3))
	nUsers := r.Range(3, 6)
	nExtra := r.Range(0, 2)
	switch k {
	case 0:
		C, V, nUsers, nExtra = 2, 1, 4, 1
	case 1:
		C, V, nUsers, nExtra = 1, 1, 3, 1
	case 2:
		C, V, nUsers, nExtra = 3, 2, 4, 2
	}
	w := newWorld(t, r, C, V, nUsers, nExtra)
	o.Case(k)
	attrFee := w.bc.GetNotaryServiceFeePerKey()
	o.Line(w.initLine(attrFee, gasInit), "ok")
	// block 0: PostPersist of the genesis block
	st := w.dump()
	o.Line("postpersist", "ok")
	var ev0 []xfer
	gh := w.bc.GetHeaderHash(0)
	for _, tr := range []trigger.Type{trigger.OnPersist, trigger.PostPersist} {
		if aers, err := w.bc.GetAppExecResults(gh, tr); err == nil && len(aers) == 1 {
			ev0 = append(ev0, w.transfers(aers[0].Events, func(string) {})...)
		}
	}
	o.Line("endblock", w.line(st)+w.govLine(st, ev0))
	w.oracle(o, k, 0, st, st, nil)

	w.setup(o, k)
	nb := r.Range(30, 50)
	if f.Tier == "thorough" {
		nb = r.Range(40, 120)
	}
	switch k {
	case 0:
		corpus0(w, o, k)
		nb = 10
		o.Count("case:corpus")
	case 1:
		corpus1(w, o, k)
		nb = 10
		o.Count("case:corpus")
	case 2:
		corpus2(w, o, k)
		nb = 10
		o.Count("case:corpus")
	}
	for i := 0; i < nb; i++ {
		w.randomBlock(o, k)
	}
	o.Seen(fmt.Sprintf("%d/%d", f.Seed, k))
	if k < nCorpus {
		o.Sample(fmt.Sprintf("case %d: committee %d validators %d users %d blocks %d; final %s", k, C, V, nUsers, nb, w.line(w.dump())))
	}
}
