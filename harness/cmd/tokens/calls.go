package main

import (
	"fmt"
	"math/big"
	"strings"

	"github.com/nspcc-dev/neo-go/pkg/crypto/keys"
	"github.com/nspcc-dev/neo-go/pkg/io"
	"github.com/nspcc-dev/neo-go/pkg/smartcontract/callflag"
	"github.com/nspcc-dev/neo-go/pkg/util"
	"github.com/nspcc-dev/neo-go/pkg/vm/emit"
	"github.com/nspcc-dev/neo-go/pkg/vm/opcode"
)

type callKind int

const (
	kTransfer callKind = iota
	kVote
	kRegister
	kUnregister
	kLock
	kWithdraw
	kSetGpb
	kSetRegPrice
	kBlock     // Policy.blockAccount(src)
	kUnblock   // Policy.unblockAccount(src)
	kDesignate // RoleManagement.designateAsRole(P2PNotary, nodes)
	kArm       // Wallet(src).arm(dst): the next GAS reward paid to the Wallet makes it call NEO.transfer(self, dst, 1)
	kDisarm    // Wallet(src).disarm()
)

type dataKind int

const (
	dNull        dataKind = iota
	dInt                  // an integer: Wallet throws, Notary / NEO panic
	dNotary               // [to|null, till]
	dNotaryShort          // [till] (malformed)
	dPub                  // public key bytes
	dCall                 // [hash, method, args]: the Wallet performs the nested call
)

// call is one invocation of a native method, as the generator decided it.
type call struct {
	kind   callKind
	neo    bool // token of a transfer
	src    util.Uint160
	dst    util.Uint160
	dstNil bool // withdraw(from, null)
	amt    *big.Int
	pub    *keys.PublicKey // vote target (nil = revoke), register / unregister key
	till   uint32
	data   dataKind
	dto    *util.Uint160   // dNotary: first element (nil = null)
	dpub   *keys.PublicKey // dPub
	nested *call           // dCall
	via    *util.Uint160   // the call is made by this Wallet contract (Wallet.call)
	nodes  []*keys.PrivateKey // kDesignate
}

func (w *world) target(c *call) (util.Uint160, string, []any) {
	switch c.kind {
	case kTransfer:
		h := w.gasH
		if c.neo {
			h = w.neoH
		}
		return h, "transfer", []any{c.src, c.dst, c.amt, w.dataArg(c)}
	case kVote:
		var p any
		if c.pub != nil {
			p = c.pub.Bytes()
		}
		return w.neoH, "vote", []any{c.src, p}
	case kRegister:
		return w.neoH, "registerCandidate", []any{c.pub.Bytes()}
	case kUnregister:
		return w.neoH, "unregisterCandidate", []any{c.pub.Bytes()}
	case kLock:
		return w.notaryH, "lockDepositUntil", []any{c.src, int64(c.till)}
	case kWithdraw:
		var to any
		if !c.dstNil {
			to = c.dst
		}
		return w.notaryH, "withdraw", []any{c.src, to}
	case kSetGpb:
		return w.neoH, "setGasPerBlock", []any{c.amt}
	case kSetRegPrice:
		return w.neoH, "setRegisterPrice", []any{c.amt}
	case kBlock:
		return w.policyH, "blockAccount", []any{c.src}
	case kUnblock:
		return w.policyH, "unblockAccount", []any{c.src}
	case kArm:
		return c.src, "arm", []any{c.dst}
	case kDisarm:
		return c.src, "disarm", []any{}
	case kDesignate:
		nks := []any{}
		for _, nk := range c.nodes {
			nks = append(nks, nk.PublicKey().Bytes())
		}
		return w.desigH, "designateAsRole", []any{int64(32), nks}
	}
	panic("kind")
}

func (w *world) dataArg(c *call) any {
	switch c.data {
	case dNull:
		return nil
	case dInt:
		return int64(7)
	case dNotary:
		var to any
		if c.dto != nil {
			to = *c.dto
		}
		return []any{to, int64(c.till)}
	case dNotaryShort:
		return []any{int64(c.till)}
	case dPub:
		return c.dpub.Bytes()
	case dCall:
		h, m, args := w.target(c.nested)
		return []any{h, m, args}
	}
	panic("data")
}

// emitCall appends the call to the entry script; it leaves exactly one item on the stack.
func (w *world) emitCall(bw *io.BinWriter, c *call) {
	h, m, args := w.target(c)
	if c.kind == kArm || c.kind == kDisarm {
		// not a native call: no model operation, its result is dropped
		emit.AppCall(bw, h, m, callflag.All, args...)
		emit.Opcodes(bw, opcode.DROP)
		return
	}
	if c.via != nil {
		emit.AppCall(bw, *c.via, "call", callflag.All, h, m, args)
		return
	}
	emit.AppCall(bw, h, m, callflag.All, args...)
}

func (w *world) script(calls []*call, abort bool) []byte {
	bw := io.NewBufBinWriter()
	for _, c := range calls {
		w.emitCall(bw.BinWriter, c)
	}
	if len(calls) == 0 {
		emit.Opcodes(bw.BinWriter, opcode.PUSH1)
	}
	if abort {
		emit.Opcodes(bw.BinWriter, opcode.ABORT)
	}
	if bw.Err != nil {
		panic(bw.Err)
	}
	return bw.Bytes()
}

func b01(b bool) int {
	if b {
		return 1
	}
	return 0
}

// isWallet / recvOf: how the harness classifies the receiver of a payment.
func (w *world) isWallet(h util.Uint160) bool {
	for _, x := range w.wallets {
		if x == h {
			return true
		}
	}
	return false
}

func (w *world) recvOf(dst util.Uint160, d dataKind) string {
	switch {
	case dst == w.notaryH || dst == w.neoH:
		return "n" // the model looks at the data itself
	case w.isWallet(dst):
		switch d {
		case dNull:
			return "a"
		case dCall:
			return "cb"
		default:
			return "x"
		}
	case dst == w.treasuryH:
		return "a"
	case dst == w.nopay || dst == w.gasH:
		return "x"
	}
	return "n"
}

// opLines renders the call (and its nested calls) as model operations. `caller` is the contract
// making the call (zero = the entry script); the witness decisions are the model's.
func (w *world) opLines(c *call, caller util.Uint160, out *[]string) {
	if c.via != nil {
		caller = *c.via
	}
	cl := "-"
	if (caller != util.Uint160{}) {
		cl = fmt.Sprint(w.aid(caller))
	}
	switch c.kind {
	case kTransfer:
		tok := "gas"
		if c.neo {
			tok = "neo"
		}
		data := "o"
		switch c.data {
		case dNotary:
			to := "-"
			if c.dto != nil {
				to = fmt.Sprint(w.aid(*c.dto))
			}
			data = fmt.Sprintf("nt %s %d", to, c.till)
		case dPub:
			data = fmt.Sprintf("pk %d", w.pid(c.dpub))
		}
		// the shape of the data; what the receiver does with it is the model's decision (contract registry of the
		// init line); the nested call of a [hash, method, args] payment follows whenever the receiver is a Wallet
		dk := "o"
		switch c.data {
		case dNull:
			dk = "n"
		case dCall:
			dk = "c"
		}
		*out = append(*out, fmt.Sprintf("transfer %s %d %d %s %s %s %s", tok, w.aid(c.src), w.aid(c.dst), c.amt, cl, dk, data))
		if w.recvOf(c.dst, c.data) == "cb" {
			// recorded by the model only if the transfer gets as far as the callback; the nested
			// lines are always present, the model skips them while failing / not in a callback.
			w.opLines(c.nested, c.dst, out)
			*out = append(*out, "endcb")
		}
	case kVote:
		p := "-"
		if c.pub != nil {
			p = fmt.Sprint(w.pid(c.pub))
		}
		if c.nested != nil {
			// the voter is an armed Wallet: the callback of the reward payment makes the nested call (the model runs
			// it only if the vote gets as far as paying a reward)
			*out = append(*out, fmt.Sprintf("vote %d %s %s cb", w.aid(c.src), p, cl))
			w.opLines(c.nested, c.src, out)
			*out = append(*out, "endcb")
		} else {
			*out = append(*out, fmt.Sprintf("vote %d %s %s", w.aid(c.src), p, cl))
		}
	case kRegister:
		*out = append(*out, fmt.Sprintf("register %d %s", w.pid(c.pub), cl))
	case kUnregister:
		*out = append(*out, fmt.Sprintf("unregister %d %s", w.pid(c.pub), cl))
	case kLock:
		*out = append(*out, fmt.Sprintf("lock %d %d %s", w.aid(c.src), c.till, cl))
	case kWithdraw:
		to := "-"
		if !c.dstNil {
			to = fmt.Sprint(w.aid(c.dst))
		}
		*out = append(*out, fmt.Sprintf("withdraw %d %s %s", w.aid(c.src), to, cl))
	case kSetGpb:
		*out = append(*out, fmt.Sprintf("setgpb %s %s", c.amt, cl))
	case kSetRegPrice:
		*out = append(*out, fmt.Sprintf("setregprice %s %s", c.amt, cl))
	case kBlock:
		*out = append(*out, fmt.Sprintf("blockacc %d %s", w.aid(c.src), cl))
	case kUnblock:
		*out = append(*out, fmt.Sprintf("unblockacc %d %s", w.aid(c.src), cl))
	case kDesignate:
		var ids []string
		for _, nk := range c.nodes {
			ids = append(ids, fmt.Sprint(w.aid(nk.GetScriptHash())))
		}
		ns := "-"
		if len(ids) > 0 {
			ns = strings.Join(ids, ",")
		}
		*out = append(*out, fmt.Sprintf("designate %s %s", ns, cl))
	}
}

// label names the call for the input-distribution counters.
func (c *call) label(w *world) string {
	via := ""
	if c.via != nil {
		via = "@wallet"
	}
	switch c.kind {
	case kTransfer:
		tok := "gas"
		if c.neo {
			tok = "neo"
		}
		to := "plain"
		switch {
		case c.dst == c.src:
			to = "self"
		case c.dst == w.notaryH:
			to = "notary"
		case c.dst == w.neoH:
			to = "neo-contract"
		case w.isWallet(c.dst):
			to = "wallet-" + w.recvOf(c.dst, c.data)
		case c.dst == w.treasuryH:
			to = "treasury"
		case c.dst == w.nopay || c.dst == w.gasH:
			to = "no-callback"
		}
		z := ""
		if c.amt.Sign() == 0 {
			z = "-zero"
		}
		return "transfer-" + tok + "-" + to + z + via
	case kVote:
		if c.pub == nil {
			return "unvote" + via
		}
		return "vote" + via
	case kRegister:
		return "register"
	case kUnregister:
		return "unregister"
	case kLock:
		return "lock"
	case kWithdraw:
		return "withdraw"
	case kSetGpb:
		return "setGasPerBlock"
	case kSetRegPrice:
		return "setRegisterPrice"
	case kBlock:
		return "blockAccount"
	case kUnblock:
		return "unblockAccount"
	case kDesignate:
		return "designateAsRole"
	case kArm:
		return "arm"
	case kDisarm:
		return "disarm"
	}
	return "?"
}

// coverage counts interesting state transitions of a block.
func (w *world) coverage(o interface{ Count(string) }, pre, post *absState, xs []xfer) {
	for k, c := range pre.cands {
		pc := post.cands[k]
		switch {
		case pc == nil:
			o.Count("cand:record-removed")
			if c.votes.Sign() > 0 {
				o.Count("cand:record-removed-by-vote-loss")
			}
		case c.reg && !pc.reg:
			o.Count("cand:unregistered-kept-voted")
		case !c.reg && pc.reg:
			o.Count("cand:re-registered-with-votes")
		}
	}
	for k, c := range post.cands {
		if pre.cands[k] == nil {
			o.Count("cand:record-created")
			if g := pre.gpv[k]; g != nil {
				_ = g
			}
		}
		if !c.reg && c.votes.Sign() > 0 {
			o.Count("state:unregistered-candidate-with-votes")
		}
	}
	for h, a := range pre.neo {
		pa := post.neo[h]
		if pa == nil {
			o.Count("neo:account-deleted")
			if a.vote != nil {
				o.Count("neo:voting-account-deleted")
			}
			continue
		}
		if a.vote != nil && pa.vote != nil && !a.vote.Equal(pa.vote) {
			o.Count("neo:vote-changed")
		}
		if a.vote != nil && pa.vote == nil {
			o.Count("neo:vote-revoked")
		}
		if a.vote == nil && pa.vote != nil {
			o.Count("neo:vote-cast")
		}
		if a.vote != nil && pa.vote != nil && a.bal.Cmp(pa.bal) != 0 {
			o.Count("neo:voter-balance-changed")
		}
		if pa.lgpv.Sign() != 0 {
			o.Count("state:account-with-lastGasPerVote")
		}
	}
	for h := range pre.deps {
		if post.deps[h] == nil {
			o.Count("deposit:removed")
		} else if post.deps[h].amount.Cmp(pre.deps[h].amount) < 0 {
			o.Count("deposit:charged")
		} else if post.deps[h].amount.Cmp(pre.deps[h].amount) > 0 {
			o.Count("deposit:topped-up")
		} else if post.deps[h].till != pre.deps[h].till {
			o.Count("deposit:relocked")
		}
	}
	for h := range post.deps {
		if pre.deps[h] == nil {
			o.Count("deposit:created")
		}
	}
	if len(post.gpv) > 0 {
		o.Count("state:gas-per-vote-records")
	}
	for h := range post.blocked {
		if w.isWallet(h) {
			o.Count("state:blocked-contract")
			if !pre.blocked[h] {
				o.Count("policy:contract-blocked")
				if a := pre.neo[h]; a != nil && a.vote != nil {
					o.Count("policy:voting-contract-blocked")
				}
			}
			break
		}
	}
	for i, c := range post.committee {
		if i < len(w.standby) && !c.pub.Equal(w.standby[i].PublicKey()) {
			o.Count("state:elected-committee-differs-from-standby")
			break
		}
	}
	for _, c := range post.committee {
		if c.votes.Sign() > 0 {
			o.Count("state:committee-member-with-votes")
			break
		}
	}
	for _, x := range xs {
		if !x.neo && x.from == nil && x.amt.Sign() > 0 {
			o.Count("event:gas-mint")
		}
		if !x.neo && x.to == nil {
			o.Count("event:gas-burn")
		}
	}
	for h := range pre.gas {
		if post.gas[h] == nil {
			o.Count("gas:account-deleted")
		}
	}
	if len(post.neo) != len(pre.neo) || len(post.gas) != len(pre.gas) {
		o.Count("state:account-set-changed")
	}
}
