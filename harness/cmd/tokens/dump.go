package main

import (
	"crypto/elliptic"
	"fmt"
	"math/big"
	"sort"
	"strings"

	"github.com/nspcc-dev/neo-go/pkg/core/native/nativeids"
	"github.com/nspcc-dev/neo-go/pkg/core/state"
	"github.com/nspcc-dev/neo-go/pkg/crypto/keys"
	"github.com/nspcc-dev/neo-go/pkg/encoding/bigint"
	"github.com/nspcc-dev/neo-go/pkg/util"
	"github.com/nspcc-dev/neo-go/pkg/vm/stackitem"
)

// storage prefixes, copied from the natives (native_nep17.go:24,55; native_neo.go:94-98,123; notary.go:51)
const (
	pfxAccount     = 20
	pfxCandidate   = 33
	pfxVotersCount = 1
	pfxGasPerVote  = 23
	pfxDeposit     = 1
)

var (
	keyTotalSupply = []byte{11}
	keyCommittee   = []byte{14}
)

type neoAcc struct {
	bal    *big.Int
	height uint32
	vote   *keys.PublicKey
	lgpv   *big.Int
}

type candRec struct {
	pub   *keys.PublicKey
	reg   bool
	votes *big.Int
}

type depRec struct {
	amount *big.Int
	till   uint32
}

type cvRec struct {
	pub   *keys.PublicKey
	votes *big.Int
}

// absState is what the natives' storage says, decoded.
type absState struct {
	height     uint32
	neoSupply  *big.Int
	gasSupply  *big.Int
	neo        map[util.Uint160]*neoAcc
	gas        map[util.Uint160]*big.Int
	cands      map[string]*candRec
	voters     *big.Int
	votersSet  bool
	deps       map[util.Uint160]*depRec
	gpv        map[string]*big.Int
	committee  []cvRec
	regPrice   int64
	decodeErrs []string
	// governance getters of the Blockchain
	nextVals  keys.PublicKeys         // GetNextBlockValidators
	neVals    keys.PublicKeys         // ComputeNextBlockValidators
	sortedCom keys.PublicKeys         // GetCommittee
	enroll    []state.Validator       // GetEnrollments (= NEO.getCandidates)
	blocked   map[util.Uint160]bool   // Policy storage, prefix 15
	unclaimed map[util.Uint160]string // CalculateClaimable(acc, height+1) of every NEO account
}

func (w *world) dump() *absState {
	s := &absState{
		height: w.bc.BlockHeight(),
		neo:    map[util.Uint160]*neoAcc{}, gas: map[util.Uint160]*big.Int{},
		cands: map[string]*candRec{}, deps: map[util.Uint160]*depRec{}, gpv: map[string]*big.Int{},
	}
	bad := func(f string, a ...any) { s.decodeErrs = append(s.decodeErrs, fmt.Sprintf(f, a...)) }
	supply := func(id int32) *big.Int {
		si := w.bc.GetStorageItem(id, keyTotalSupply)
		if si == nil {
			return big.NewInt(0)
		}
		return bigint.FromBytes(si)
	}
	s.neoSupply = supply(nativeids.NeoToken)
	s.gasSupply = supply(nativeids.GasToken)
	w.bc.SeekStorage(nativeids.NeoToken, []byte{pfxAccount}, func(k, v []byte) bool {
		h, err := util.Uint160DecodeBytesBE(k)
		if err != nil {
			bad("neo account key %x", k)
			return true
		}
		b, err := state.NEOBalanceFromBytes(v)
		if err != nil {
			bad("neo account %x: %v", k, err)
			return true
		}
		s.neo[h] = &neoAcc{bal: new(big.Int).Set(&b.Balance), height: b.BalanceHeight, vote: b.VoteTo, lgpv: new(big.Int).Set(&b.LastGasPerVote)}
		return true
	})
	w.bc.SeekStorage(nativeids.GasToken, []byte{pfxAccount}, func(k, v []byte) bool {
		h, err := util.Uint160DecodeBytesBE(k)
		if err != nil {
			bad("gas account key %x", k)
			return true
		}
		b, err := state.NEP17BalanceFromBytes(v)
		if err != nil {
			bad("gas account %x: %v", k, err)
			return true
		}
		s.gas[h] = new(big.Int).Set(&b.Balance)
		return true
	})
	w.bc.SeekStorage(nativeids.NeoToken, []byte{pfxCandidate}, func(k, v []byte) bool {
		pub, err := keys.NewPublicKeyFromBytes(k, elliptic.P256())
		if err != nil {
			bad("candidate key %x", k)
			return true
		}
		it, err := stackitem.Deserialize(v)
		if err != nil {
			bad("candidate %x: %v", k, err)
			return true
		}
		arr, ok := it.Value().([]stackitem.Item)
		if !ok || len(arr) != 2 {
			bad("candidate %x: shape", k)
			return true
		}
		reg, err1 := arr[0].TryBool()
		votes, err2 := arr[1].TryInteger()
		if err1 != nil || err2 != nil {
			bad("candidate %x: fields", k)
			return true
		}
		s.cands[string(k)] = &candRec{pub: pub, reg: reg, votes: votes}
		return true
	})
	if si := w.bc.GetStorageItem(nativeids.NeoToken, []byte{13}); si != nil { // prefixRegisterPrice
		s.regPrice = bigint.FromBytes(si).Int64()
	}
	if si := w.bc.GetStorageItem(nativeids.NeoToken, []byte{pfxVotersCount}); si != nil {
		s.voters = bigint.FromBytes(si)
		s.votersSet = true
	} else {
		s.voters = big.NewInt(0)
	}
	w.bc.SeekStorage(nativeids.NeoToken, []byte{pfxGasPerVote}, func(k, v []byte) bool {
		s.gpv[string(k)] = bigint.FromBytes(v)
		return true
	})
	if si := w.bc.GetStorageItem(nativeids.NeoToken, keyCommittee); si != nil {
		it, err := stackitem.Deserialize(si)
		if err != nil {
			bad("committee: %v", err)
		} else if arr, ok := it.Value().([]stackitem.Item); ok {
			for _, e := range arr {
				f, ok := e.Value().([]stackitem.Item)
				if !ok || len(f) < 2 {
					bad("committee element")
					continue
				}
				kb, _ := f[0].TryBytes()
				vs, _ := f[1].TryInteger()
				pub, err := keys.NewPublicKeyFromBytes(kb, elliptic.P256())
				if err != nil {
					bad("committee key")
					continue
				}
				s.committee = append(s.committee, cvRec{pub: pub, votes: vs})
			}
		}
	}
	s.nextVals, _ = w.bc.GetNextBlockValidators()
	s.neVals = w.bc.ComputeNextBlockValidators()
	s.sortedCom, _ = w.bc.GetCommittee()
	s.enroll, _ = w.bc.GetEnrollments()
	s.blocked = map[util.Uint160]bool{}
	w.bc.SeekStorage(nativeids.PolicyContract, []byte{15}, func(k, v []byte) bool {
		h, err := util.Uint160DecodeBytesBE(k)
		if err != nil {
			bad("blocked account key %x", k)
			return true
		}
		s.blocked[h] = true
		return true
	})
	s.unclaimed = map[util.Uint160]string{}
	for h := range s.neo {
		g, err := w.bc.CalculateClaimable(h, s.height+1)
		if err != nil {
			s.unclaimed[h] = "err"
		} else {
			s.unclaimed[h] = g.String()
		}
	}
	w.bc.SeekStorage(nativeids.Notary, []byte{pfxDeposit}, func(k, v []byte) bool {
		h, err := util.Uint160DecodeBytesBE(k)
		if err != nil {
			bad("deposit key %x", k)
			return true
		}
		d := new(state.Deposit)
		if err := stackitem.DeserializeConvertible(v, d); err != nil {
			bad("deposit %x: %v", k, err)
			return true
		}
		s.deps[h] = &depRec{amount: d.Amount, till: d.Till}
		return true
	})
	return s
}

// line renders the state canonically with the small ids of the world (sorted by id).
func (w *world) line(s *absState) string {
	var sb strings.Builder
	fmt.Fprintf(&sb, "st neo=%s", s.neoSupply)
	type ent struct {
		id int
		s  string
	}
	emitSorted := func(es []ent) {
		sort.Slice(es, func(i, j int) bool { return es[i].id < es[j].id })
		sb.WriteString("[")
		for i, e := range es {
			if i > 0 {
				sb.WriteString(",")
			}
			sb.WriteString(e.s)
		}
		sb.WriteString("]")
	}
	var es []ent
	for h, a := range s.neo {
		v := "-"
		if a.vote != nil {
			v = fmt.Sprint(w.pid(a.vote))
		}
		id := w.aid(h)
		es = append(es, ent{id, fmt.Sprintf("%d:%s:%d:%s:%s", id, a.bal, a.height, v, a.lgpv)})
	}
	emitSorted(es)
	fmt.Fprintf(&sb, " gas=%s", s.gasSupply)
	es = nil
	for h, b := range s.gas {
		id := w.aid(h)
		es = append(es, ent{id, fmt.Sprintf("%d:%s", id, b)})
	}
	emitSorted(es)
	sb.WriteString(" cands=")
	es = nil
	for _, c := range s.cands {
		id := w.pid(c.pub)
		r := 0
		if c.reg {
			r = 1
		}
		es = append(es, ent{id, fmt.Sprintf("%d:%d:%s", id, r, c.votes)})
	}
	emitSorted(es)
	fmt.Fprintf(&sb, " vc=%s dep=", s.voters)
	es = nil
	for h, d := range s.deps {
		id := w.aid(h)
		es = append(es, ent{id, fmt.Sprintf("%d:%s:%d", id, d.amount, d.till)})
	}
	emitSorted(es)
	sb.WriteString(" gpv=")
	es = nil
	for k, v := range s.gpv {
		pub, err := keys.NewPublicKeyFromBytes([]byte(k), elliptic.P256())
		if err != nil {
			continue
		}
		id := w.pid(pub)
		es = append(es, ent{id, fmt.Sprintf("%d:%s", id, v)})
	}
	emitSorted(es)
	return sb.String()
}

// govLine: the observations of the governance getters, of the unclaimed GAS of every NEO holder and of
// the block's Transfer events, in the format of the driver's `endblock` answer.
func (w *world) govLine(s *absState, xs []xfer) string {
	var sb strings.Builder
	list := func(name string, es []string) {
		sb.WriteString(" " + name + "=[" + strings.Join(es, ",") + "]")
	}
	pubs := func(ps keys.PublicKeys) []string {
		var es []string
		for _, p := range ps {
			es = append(es, fmt.Sprint(w.pid(p)))
		}
		return es
	}
	var es []string
	for _, c := range s.committee {
		es = append(es, fmt.Sprintf("%d:%s", w.pid(c.pub), c.votes))
	}
	list("cm", es)
	list("nv", pubs(s.nextVals))
	list("nev", pubs(s.neVals))
	es = nil
	for _, v := range s.enroll {
		es = append(es, fmt.Sprintf("%d:%s", w.pid(v.Key), v.Votes))
	}
	list("gc", es)
	list("gcm", pubs(s.sortedCom))
	var ids []int
	for h := range s.blocked {
		ids = append(ids, w.aid(h))
	}
	sort.Ints(ids)
	es = nil
	for _, id := range ids {
		es = append(es, fmt.Sprint(id))
	}
	list("bl", es)
	ids = nil
	byID := map[int]string{}
	for h, g := range s.unclaimed {
		id := w.aid(h)
		ids = append(ids, id)
		byID[id] = g
	}
	sort.Ints(ids)
	es = nil
	for _, id := range ids {
		es = append(es, fmt.Sprintf("%d:%s", id, byID[id]))
	}
	list("uc", es)
	opt := func(h *util.Uint160) string {
		if h == nil {
			return "-"
		}
		return fmt.Sprint(w.aid(*h))
	}
	es = nil
	for _, x := range xs {
		t := "g"
		if x.neo {
			t = "n"
		} else {
			if x.from == nil {
				w.minted.Add(w.minted, x.amt)
			}
			if x.to == nil {
				w.burned.Add(w.burned, x.amt)
			}
		}
		es = append(es, fmt.Sprintf("%s:%s:%s:%s", t, opt(x.from), opt(x.to), x.amt))
	}
	fmt.Fprintf(&sb, " mb=%s:%s", w.minted, w.burned)
	list("ev", es)
	return sb.String()
}
