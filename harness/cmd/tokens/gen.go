package main

import (
	"fmt"

	"github.com/nspcc-dev/neo-go/pkg/core/transaction"
	"github.com/nspcc-dev/neo-go/pkg/neotest"
	"math/big"

	"github.com/nspcc-dev/neo-go/pkg/crypto/keys"
	"github.com/nspcc-dev/neo-go/pkg/util"

	"verif/harness/internal/hx"
)

const gasUnit = 100_000_000

func gasAmt(g float64) *big.Int { return big.NewInt(int64(g * gasUnit)) }

func (w *world) rawSpec(script []byte, sysFee int64, signers ...util.Uint160) *txSpec {
	return &txSpec{raw: script, sysFee: sysFee, signers: signers}
}

// setup: block 1 deploys the helper contracts and designates the notary node, block 2 spreads
// GAS and NEO from the genesis holder.
func (w *world) setup(o *hx.Out, k int) {
	val := w.valSigner.ScriptHash()
	var specs []*txSpec
	nW := 2
	for i := 0; i < nW; i++ {
		c := walletContract(val, fmt.Sprintf("W%d", i))
		tx := w.e.NewDeployTxBy(w.t, w.valSigner, c, nil)
		specs = append(specs, w.rawSpec(tx.Script, tx.SystemFee, val))
		if w.wallets[i] != c.Hash {
			panic("wallet contract hash")
		}
	}
	np := nopayContract(val, "NoPay")
	tx := w.e.NewDeployTxBy(w.t, w.valSigner, np, nil)
	specs = append(specs, w.rawSpec(tx.Script, tx.SystemFee, val))
	if w.nopay != np.Hash {
		panic("nopay contract hash")
	}
	// designate the notary nodes (committee = standby committee at this height): a modelled call, the model keeps
	// the designation and rewards its nodes
	com := w.committeeSigner()
	w.signer[com.ScriptHash()] = com
	specs = append(specs, &txSpec{calls: []*call{{kind: kDesignate, nodes: w.notaryAll}}, signers: []util.Uint160{val, com.ScriptHash()}, sysFee: 3 * gasUnit})
	w.runBlock(o, k, specs)
	w.notaryFrom = w.bc.BlockHeight() + 1

	// funding
	var calls []*call
	gas := func(to util.Uint160, g float64) {
		calls = append(calls, &call{kind: kTransfer, src: val, dst: to, amt: gasAmt(g)})
	}
	neo := func(to util.Uint160, n int64) {
		calls = append(calls, &call{kind: kTransfer, neo: true, src: val, dst: to, amt: big.NewInt(n)})
	}
	for _, u := range w.users {
		gas(u.ScriptHash(), 20000)
	}
	for _, c := range w.cands {
		gas(c.GetScriptHash(), 6000)
	}
	for _, x := range w.wallets {
		gas(x, 50)
	}
	// NEO: a few large holders (so that the 20% turnout threshold can be crossed), some small ones
	left := int64(100_000_000)
	for i, u := range w.users {
		var n int64
		switch {
		case i < 2:
			n = int64(w.r.Range(5, 25)) * 1_000_000
		case w.r.Chance(1, 4):
			n = 0
		default:
			n = int64(w.r.Range(1, 5000))
		}
		if n > left/2 {
			n = left / 2
		}
		if n > 0 {
			neo(u.ScriptHash(), n)
			left -= n
		}
	}
	neo(w.wallets[0], int64(w.r.Range(1, 2_000_000)))
	if w.r.Bool() {
		neo(w.cands[0].GetScriptHash(), int64(w.r.Range(1, 1000)))
	}
	w.runBlock(o, k, []*txSpec{{calls: calls, signers: []util.Uint160{val}, sysFee: int64(len(calls)+2) * gasUnit}})
}

// gen state helpers -----------------------------------------------------------------------------

type genCtx struct {
	w        *world
	st       *absState
	spent    map[util.Uint160]int64
	depSpent map[util.Uint160]int64
}

func (g *genCtx) gasOf(h util.Uint160) *big.Int {
	if b := g.st.gas[h]; b != nil {
		return b
	}
	return new(big.Int)
}

func (g *genCtx) neoOf(h util.Uint160) *big.Int {
	if a := g.st.neo[h]; a != nil {
		return a.bal
	}
	return new(big.Int)
}

// signable accounts: users, candidate key accounts, the validators' multisig
func (w *world) signable() []util.Uint160 {
	var r []util.Uint160
	for _, u := range w.users {
		r = append(r, u.ScriptHash())
	}
	for _, c := range w.cands {
		r = append(r, c.GetScriptHash())
	}
	r = append(r, w.valSigner.ScriptHash())
	return r
}

func (w *world) anyAccount() util.Uint160 {
	r := w.r
	switch r.Weighted([]int{40, 15, 12, 6, 5, 8, 2}) {
	case 0:
		return w.users[r.Intn(len(w.users))].ScriptHash()
	case 1:
		return w.cands[r.Intn(len(w.cands))].GetScriptHash()
	case 2:
		return w.wallets[r.Intn(len(w.wallets))]
	case 3:
		return w.treasuryH
	case 4:
		return w.nopay
	case 5:
		return w.valSigner.ScriptHash()
	default:
		return w.gasH
	}
}

func (g *genCtx) amount(bal *big.Int, neo bool) *big.Int {
	r := g.w.r
	switch r.Weighted([]int{8, 10, 10, 6, 3, 63, 1}) {
	case 6:
		// the ends of the VM integer range: 2^255-1 (overdraft) and -2^255 (negative amount: panic)
		x := new(big.Int).Lsh(big.NewInt(1), 255)
		if r.Bool() {
			return x.Neg(x)
		}
		return x.Sub(x, big.NewInt(1))
	case 0:
		return big.NewInt(0)
	case 1:
		return big.NewInt(1)
	case 2:
		return new(big.Int).Set(bal)
	case 3:
		return new(big.Int).Add(bal, big.NewInt(1))
	case 4:
		return big.NewInt(-1 - int64(r.Intn(5)))
	default:
		if bal.Sign() <= 0 {
			return big.NewInt(int64(r.Intn(3)))
		}
		d := int64(1)
		if !neo {
			d = 10 // keep GAS around for fees
		}
		m := new(big.Int).Div(bal, big.NewInt(d))
		if m.Sign() == 0 {
			return big.NewInt(1)
		}
		x := new(big.Int).SetUint64(r.U64())
		x.Mod(x, m)
		return x.Add(x, big.NewInt(1))
	}
}

// withDeposit prefers a signer that has a deposit (expired if asked for).
func (g *genCtx) withDeposit(signers []util.Uint160, dflt util.Uint160, expired bool) util.Uint160 {
	if g.w.r.Chance(1, 5) {
		return dflt
	}
	h := g.w.bc.BlockHeight()
	for _, s := range signers {
		if d := g.st.deps[s]; d != nil && (!expired || d.till <= h) {
			return s
		}
	}
	for _, s := range signers {
		if g.st.deps[s] != nil {
			return s
		}
	}
	return dflt
}

func (g *genCtx) pickPub(registeredBias bool) *keys.PublicKey {
	w := g.w
	if registeredBias && w.r.Chance(3, 4) {
		var regs []*keys.PublicKey
		for _, c := range w.cands {
			if rec := g.st.cands[string(c.PublicKey().Bytes())]; rec != nil && rec.reg {
				regs = append(regs, c.PublicKey())
			}
		}
		if len(regs) > 0 {
			return regs[w.r.Intn(len(regs))]
		}
	}
	return w.cands[w.r.Intn(len(w.cands))].PublicKey()
}

// genCall makes one call. `signers` have a witness; depth > 0 = inside a Wallet callback made by `by`.
func (g *genCtx) genCall(signers []util.Uint160, by *util.Uint160, depth int) *call {
	w, r := g.w, g.w.r
	src := signers[r.Intn(len(signers))]
	if by != nil {
		src = *by
	} else if r.Chance(1, 10) {
		src = w.anyAccount() // most likely no witness
	}
	height := w.bc.BlockHeight() // the block being built is height+1
	kind := r.Weighted([]int{24, 14, 16, 5, 5, 3, 6, 7, 3, 4, 5, 6})
	switch kind {
	case 0, 1: // NEO / GAS transfer
		neo := kind == 0
		dst := w.anyAccount()
		self := r.Chance(1, 12)
		if self {
			dst = src
		}
		var bal *big.Int
		if neo {
			bal = g.neoOf(src)
		} else {
			bal = g.gasOf(src)
		}
		c := &call{kind: kTransfer, neo: neo, src: src, dst: dst, amt: g.amount(bal, neo)}
		if self && neo && r.Chance(1, 2) {
			c.amt = new(big.Int).Set(bal) // whole balance to itself
		}
		if w.isWallet(dst) && r.Chance(1, 6) {
			c.data = dInt
		}
		return c
	case 2: // vote
		return &call{kind: kVote, src: src, pub: g.pickPub(true)}
	case 3: // revoke
		return &call{kind: kVote, src: src}
	case 4: // registerCandidate (method)
		return &call{kind: kRegister, pub: g.pickPub(false)}
	case 5: // registration by payment (NEP-27)
		amt := big.NewInt(g.st.regPrice)
		if r.Chance(1, 6) {
			amt = big.NewInt(int64(r.Intn(3)) * gasUnit)
			if r.Bool() {
				amt = big.NewInt(g.st.regPrice + int64(r.Intn(3)) - 1)
			}
		}
		pub := g.pickPub(false)
		if r.Chance(3, 4) { // a key whose account signs
			for _, c := range w.cands {
				for _, s := range signers {
					if c.GetScriptHash() == s {
						pub = c.PublicKey()
					}
				}
			}
		}
		c := &call{kind: kTransfer, src: src, dst: w.neoH, amt: amt, data: dPub, dpub: pub}
		if r.Chance(1, 10) {
			c.data = dInt
		}
		return c
	case 6: // unregister
		pub := g.pickPub(true)
		if r.Chance(3, 4) {
			for _, c := range w.cands {
				for _, s := range signers {
					if c.GetScriptHash() == s {
						pub = c.PublicKey()
					}
				}
			}
		}
		return &call{kind: kUnregister, pub: pub}
	case 7: // notary deposit
		amt := gasAmt(float64(r.Range(1, 6)))
		switch r.Intn(12) {
		case 0:
			amt = big.NewInt(int64(r.Intn(1000)))
		case 1:
			amt = big.NewInt(0)
		case 2:
			amt = big.NewInt(2 * w.bc.GetNotaryServiceFeePerKey()) // the minimum of a first deposit
		case 3:
			amt = big.NewInt(2*w.bc.GetNotaryServiceFeePerKey() - 1)
		}
		c := &call{kind: kTransfer, src: src, dst: w.notaryH, amt: amt, data: dNotary, till: height + uint32(r.Range(1, 8))}
		if d := g.st.deps[src]; d != nil && r.Chance(2, 3) {
			c.till = d.till + uint32(r.Intn(3))
		}
		switch r.Intn(8) {
		case 0:
			o := w.users[r.Intn(len(w.users))].ScriptHash()
			c.dto = &o
		case 1:
			c.dto = &src
		case 2:
			c.data = dNotaryShort
		case 3:
			c.data = dNull
		}
		if r.Chance(1, 20) {
			c.neo = true
			c.amt = big.NewInt(1)
		}
		return c
	case 8: // lockDepositUntil
		src = g.withDeposit(signers, src, false)
		c := &call{kind: kLock, src: src, till: height + uint32(r.Range(0, 8))}
		if d := g.st.deps[src]; d != nil {
			c.till = d.till + uint32(r.Range(0, 4)) - 1
			if r.Chance(1, 3) {
				// the boundary of "not in the block being persisted": height+1 is refused, height+2 accepted
				// (decisive for an expired deposit, whose own till does not stand in the way)
				c.till = height + 1 + uint32(r.Intn(2))
			}
		}
		return c
	case 9: // withdraw
		src = g.withDeposit(signers, src, true)
		c := &call{kind: kWithdraw, src: src, dstNil: true}
		if r.Chance(1, 2) {
			c.dstNil = false
			c.dst = w.anyAccount()
		}
		return c
	case 10: // a call made by a Wallet contract with its own funds
		if by != nil || depth > 0 {
			return g.genCall(signers, by, depth)
		}
		wl := w.wallets[r.Intn(len(w.wallets))]
		for i := 0; i < 8; i++ {
			c := g.genCall(signers, &wl, depth)
			if c.via == nil && c.data != dCall {
				c.via = &wl
				return c
			}
		}
		return &call{kind: kVote, src: wl, via: &wl}
	default: // transfer to a Wallet that calls back into the natives
		if depth > 0 {
			return g.genCall(signers, by, depth)
		}
		wl := w.wallets[r.Intn(len(w.wallets))]
		neo := r.Bool()
		var bal *big.Int
		if neo {
			bal = g.neoOf(src)
		} else {
			bal = g.gasOf(src)
		}
		c := &call{kind: kTransfer, neo: neo, src: src, dst: wl, amt: g.amount(bal, neo), data: dCall}
		for i := 0; i < 8; i++ {
			n := g.genCall(signers, &wl, depth+1)
			if n.via == nil && n.data != dCall {
				c.nested = n
				break
			}
		}
		if c.nested == nil {
			c.nested = &call{kind: kTransfer, neo: neo, src: wl, dst: src, amt: big.NewInt(1)}
		}
		return c
	}
}

// callFee: system fee budget of a call (registerCandidate charges the register price as execution fee).
func callFee(c *call) int64 {
	f := int64(gasUnit)
	if c.kind == kRegister {
		f += 1000 * gasUnit
	}
	if c.nested != nil {
		f += callFee(c.nested)
	}
	return f
}

// randScope: Global mostly; CalledByEntry, None (fee only), CustomContracts over the natives, and the
// combination of the two.
func (w *world) randScope() (sigScope, bool) {
	r := w.r
	natives := []util.Uint160{w.neoH, w.gasH, w.notaryH, w.policyH}
	pick := func() []util.Uint160 {
		var a []util.Uint160
		for _, h := range natives {
			if r.Chance(1, 2) {
				a = append(a, h)
			}
		}
		if len(a) == 0 {
			a = append(a, natives[r.Intn(len(natives))])
		}
		return a
	}
	switch r.Weighted([]int{64, 11, 5, 6, 4, 7, 2, 1}) {
	case 1:
		return sigScope{scopes: transaction.CalledByEntry}, true
	case 2:
		return sigScope{scopes: transaction.None}, true
	case 3:
		return sigScope{scopes: transaction.CustomContracts, allowed: pick()}, true
	case 4:
		return sigScope{scopes: transaction.CalledByEntry | transaction.CustomContracts, allowed: pick()}, true
	case 5:
		return sigScope{scopes: transaction.Rules, rules: w.randRules()}, true
	case 6:
		return sigScope{scopes: transaction.Rules | transaction.CustomContracts, allowed: pick(), rules: w.randRules()}, true
	case 7:
		// no contract of the case has a manifest group: never a witness
		return sigScope{scopes: transaction.CustomGroups, groups: []*keys.PublicKey{w.cands[r.Intn(len(w.cands))].PublicKey()}}, true
	}
	return sigScope{}, false
}

// randCond: a random witness condition of nesting depth <= 2 over the natives, the Wallet contracts and the GAS
// contract as caller (NEO.onNEP17Payment is called by it).
func (w *world) randCond(depth int) transaction.WitnessCondition {
	r := w.r
	hashes := []util.Uint160{w.neoH, w.gasH, w.notaryH, w.policyH, w.wallets[0], w.wallets[len(w.wallets)-1]}
	leaf := func() transaction.WitnessCondition {
		switch r.Intn(7) {
		case 0:
			b := transaction.ConditionBoolean(r.Bool())
			return &b
		case 1, 2:
			h := transaction.ConditionScriptHash(hashes[r.Intn(4)])
			return &h
		case 3:
			return transaction.ConditionCalledByEntry{}
		case 4:
			h := transaction.ConditionCalledByContract(hashes[r.Intn(len(hashes))])
			return &h
		case 5:
			g := transaction.ConditionGroup(*w.cands[r.Intn(len(w.cands))].PublicKey())
			return &g
		default:
			g := transaction.ConditionCalledByGroup(*w.cands[r.Intn(len(w.cands))].PublicKey())
			return &g
		}
	}
	if depth == 0 || r.Chance(1, 2) {
		return leaf()
	}
	switch r.Intn(3) {
	case 0:
		return &transaction.ConditionNot{Condition: w.randCond(depth - 1)}
	case 1:
		cs := transaction.ConditionAnd{}
		for i, n := 0, 2+r.Intn(2); i < n; i++ {
			cs = append(cs, w.randCond(depth-1))
		}
		return &cs
	default:
		cs := transaction.ConditionOr{}
		for i, n := 0, 2+r.Intn(2); i < n; i++ {
			cs = append(cs, w.randCond(depth-1))
		}
		return &cs
	}
}

func (w *world) randRules() []transaction.WitnessRule {
	var rs []transaction.WitnessRule
	for i, n := 0, 1+w.r.Intn(3); i < n; i++ {
		a := transaction.WitnessAllow
		if w.r.Chance(1, 3) {
			a = transaction.WitnessDeny
		}
		rs = append(rs, transaction.WitnessRule{Action: a, Condition: w.randCond(2)})
	}
	return rs
}

func (g *genCtx) genTx() *txSpec {
	w, r := g.w, g.w.r
	var all []util.Uint160
	for _, h := range w.signable() {
		if !g.st.blocked[h] { // a blocked signer makes the transaction invalid (Policy.CheckPolicy)
			all = append(all, h)
		}
	}
	n := 1 + r.Intn(2)
	var signers []util.Uint160
	if r.Chance(1, 4) { // somebody with a deposit
		for _, h := range all {
			if g.st.deps[h] != nil && r.Bool() {
				signers = append(signers, h)
				break
			}
		}
	}
	for len(signers) < n {
		h := all[r.Intn(len(all))]
		dup := false
		for _, s := range signers {
			dup = dup || s == h
		}
		if !dup {
			signers = append(signers, h)
		}
	}
	s := &txSpec{abort: r.Chance(1, 16)}
	nc := r.Weighted([]int{1, 10, 6, 3})
	sys := int64(2 * gasUnit)
	// now and then a committee operation (only when the committee cannot change before the
	// transaction runs, i.e. the next block does not start an epoch)
	if r.Chance(1, 14) {
		// the committee that will be in office when the transaction runs: the next block may start an epoch
		com := w.committeeSignerAt(g.st)
		w.signer[com.ScriptHash()] = com
		if r.Chance(4, 5) {
			signers = append(signers, com.ScriptHash())
		}
		var c *call
		switch r.Weighted([]int{3, 3, 5, 3, 2}) {
		case 4:
			// a new designation of notary nodes: a sub-list that keeps the node that signs for the service, in any
			// order; now and then the empty list or a duplicate (refused)
			nodes := []*keys.PrivateKey{w.notaryKey}
			for _, nk := range w.notaryAll {
				if nk != w.notaryKey && r.Bool() {
					nodes = append(nodes, nk)
				}
			}
			for i := len(nodes) - 1; i > 0; i-- {
				j := r.Intn(i + 1)
				nodes[i], nodes[j] = nodes[j], nodes[i]
			}
			switch r.Intn(8) {
			case 0:
				nodes = nil
			case 1:
				nodes = append(nodes, nodes[0])
			}
			c = &call{kind: kDesignate, nodes: nodes}
		case 0:
			vals := []int64{0, 1 * gasUnit, 3 * gasUnit, 5 * gasUnit, 10 * gasUnit, 10*gasUnit + 1, -1, 123456789}
			c = &call{kind: kSetGpb, amt: big.NewInt(vals[r.Intn(len(vals))])}
		case 1:
			vals := []int64{10 * gasUnit, 500 * gasUnit, 1000 * gasUnit, 0, 77 * gasUnit}
			c = &call{kind: kSetRegPrice, amt: big.NewInt(vals[r.Intn(len(vals))])}
		case 2:
			// block a candidate's account (it drops out of the election and its votes are revoked), now and then
			// a user, a native contract (refused) or an account that is blocked already
			c = &call{kind: kBlock, src: w.cands[r.Intn(len(w.cands))].GetScriptHash()}
			switch r.Intn(10) {
			case 0:
				c.src = w.users[r.Intn(len(w.users))].ScriptHash()
			case 1:
				c.src = []util.Uint160{w.notaryH, w.neoH, w.gasH, w.policyH, w.treasuryH}[r.Intn(5)]
			case 2, 3:
				// a contract: its votes are revoked and its GAS paid out with a payment callback; afterwards it cannot
				// be called any more (payments to it and calls through it fault)
				c.src = w.wallets[r.Intn(len(w.wallets))]
			}
		default:
			c = &call{kind: kUnblock, src: w.cands[r.Intn(len(w.cands))].GetScriptHash()}
			if bl := w.sortedBlocked(g.st); len(bl) > 0 && r.Chance(2, 3) {
				c.src = bl[r.Intn(len(bl))]
			}
		}
		s.calls = append(s.calls, c)
		sys += gasUnit
		o := 0
		_ = o
	}
	for i := 0; i < nc; i++ {
		c := g.genCall(signers, nil, 0)
		s.calls = append(s.calls, c)
		sys += callFee(c)
	}
	// class "re-entrant receiver": a Wallet contract that holds NEO is armed, votes (or changes / revokes its vote) --
	// the callback of the GAS reward of that vote then transfers 1 NEO of the Wallet's own account away, from inside
	// the reward payment -- and is disarmed
	if r.Chance(1, 20) {
		for _, wl := range w.wallets {
			a := g.st.neo[wl]
			if a == nil || a.bal.Cmp(big.NewInt(2)) < 0 || g.st.blocked[wl] {
				continue
			}
			x := w.users[r.Intn(len(w.users))].ScriptHash()
			var pub *keys.PublicKey
			if r.Chance(3, 4) {
				pub = g.pickPub(true)
			}
			wlc := wl
			s.calls = []*call{
				{kind: kArm, src: wlc, dst: x},
				{kind: kVote, src: wlc, pub: pub, via: &wlc, nested: xferNeo(wlc, x, big.NewInt(1))},
				{kind: kDisarm, src: wlc},
			}
			sys = 8 * gasUnit
			s.reentrant = true
			break
		}
	}
	// class "a voting account's balance goes to exactly zero and back": a signer that votes sends away its ENTIRE
	// NEO balance in one transfer or split over several, now and then gets it back in the same transaction and
	// votes again
	if !s.reentrant && r.Chance(1, 7) {
		for _, h := range signers {
			a := g.st.neo[h]
			if a == nil || a.vote == nil || a.bal.Sign() <= 0 {
				continue
			}
			to := w.users[r.Intn(len(w.users))].ScriptHash()
			if len(signers) > 1 && signers[1] != h {
				to = signers[1]
			}
			if to == h {
				break
			}
			var extra []*call
			if a.bal.Cmp(big.NewInt(2)) > 0 && r.Bool() {
				p1 := new(big.Int).Div(a.bal, big.NewInt(int64(2+r.Intn(3))))
				p2 := new(big.Int).Sub(a.bal, p1)
				extra = append(extra, xferNeo(h, to, p1), xferNeo(h, to, p2))
				w.emptied = "several"
			} else {
				extra = append(extra, xferNeo(h, to, new(big.Int).Set(a.bal)))
				w.emptied = "one"
			}
			if to == signers[len(signers)-1] && len(signers) > 1 && r.Bool() {
				extra = append(extra, xferNeo(to, h, new(big.Int).Set(a.bal)), vote(h, a.vote))
				w.emptied += "+back"
			}
			// only when nothing else in this transaction moves this account's NEO
			clean := true
			for _, c := range s.calls {
				clean = clean && !(c.kind == kTransfer && c.neo) && c.kind != kVote && c.nested == nil && c.via == nil
			}
			if clean {
				s.calls = append(s.calls, extra...)
				for _, c := range extra {
					sys += callFee(c)
				}
				s.emptied = w.emptied
			}
			break
		}
	}
	s.sysFee = sys
	need := sys + 2*gasUnit
	enough := func(h util.Uint160) bool {
		b := g.gasOf(h)
		return !b.IsInt64() || b.Int64()-g.spent[h] >= need
	}
	if !enough(signers[0]) {
		var payer *util.Uint160
		for _, h := range append([]util.Uint160{w.valSigner.ScriptHash()}, all...) {
			if enough(h) {
				payer = &h
				break
			}
		}
		if payer == nil {
			return nil // nobody can pay for it
		}
		rest := signers[:0:0]
		for _, h := range signers {
			if h != *payer {
				rest = append(rest, h)
			}
		}
		signers = append([]util.Uint160{*payer}, rest...)
	}
	g.spent[signers[0]] += need
	s.signers = signers
	for _, h := range signers {
		if sc, ok := w.randScope(); ok {
			if s.scope == nil {
				s.scope = map[util.Uint160]sigScope{}
			}
			s.scope[h] = sc
		}
	}
	// the NotaryAssisted attribute on an ordinary (single-signer, multisig excluded) transaction
	if _, single := w.signer[signers[0]].(neotest.SingleSigner); single && len(signers) == 1 &&
		w.bc.BlockHeight()+1 >= w.notaryFrom && r.Chance(1, 12) {
		s.attr = true
		s.nkeys = uint8(r.Range(0, 4))
		if b := g.gasOf(signers[0]); r.Chance(1, 8) && b.IsInt64() && b.Int64()-g.spent[signers[0]] >= 40*gasUnit {
			s.nkeys = 255 // the end of the uint8 range: 256 fee units (25.6 GAS of network fee)
			g.spent[signers[0]] += 30 * gasUnit
		}
	}
	return s
}

func (g *genCtx) genNotaryTx() *txSpec {
	w, r := g.w, g.w.r
	if w.bc.BlockHeight()+1 < w.notaryFrom {
		return nil
	}
	start := r.Intn(len(w.users))
	for i := range w.users {
		h := w.users[(start+i)%len(w.users)].ScriptHash()
		d := g.st.deps[h]
		if d == nil || g.st.blocked[h] {
			continue
		}
		sys := int64(gasUnit / 2)
		need := sys + gasUnit/2
		if d.amount.Int64()-g.depSpent[h] < need {
			continue
		}
		s := &txSpec{notary: true, nkeys: uint8(r.Range(0, 3)), signers: []util.Uint160{h}, sysFee: sys}
		// spend the deposit exactly / all but one datoshi (only as the single payment from it in this block)
		if g.depSpent[h] == 0 && d.amount.Int64() <= 20*gasUnit && r.Chance(1, 2) {
			s.exhaust = 1 + r.Intn(2)
			g.depSpent[h] = d.amount.Int64()
		} else {
			g.depSpent[h] += need
		}
		if r.Bool() {
			s.calls = []*call{g.genCall([]util.Uint160{h}, nil, 0)}
			if callFee(s.calls[0]) > 2*gasUnit || s.exhaust != 0 && d.amount.Int64() < 3*gasUnit {
				s.calls = nil
			}
		}
		return s
	}
	return nil
}

func (w *world) randomBlock(o *hx.Out, k int) {
	g := &genCtx{w: w, st: w.dump(), spent: map[util.Uint160]int64{}, depSpent: map[util.Uint160]int64{}}
	n := w.r.Weighted([]int{2, 5, 5, 3})
	var specs []*txSpec
	for i := 0; i < n; i++ {
		if w.r.Chance(1, 6) {
			if s := g.genNotaryTx(); s != nil {
				specs = append(specs, s)
				o.Count("tx:notary-assisted")
				switch s.exhaust {
				case 1:
					o.Count("tx:notary-assisted-exact-deposit")
				case 2:
					o.Count("tx:notary-assisted-deposit-minus-1")
				}
				continue
			}
		}
		if s := g.genTx(); s != nil {
			specs = append(specs, s)
			if s.attr {
				o.Count("tx:notary-attribute-ordinary-sender")
				if s.nkeys == 255 {
					o.Count("tx:notary-attribute-nkeys-255")
				}
			}
		} else {
			o.Count("tx:skipped-no-payer")
		}
	}
	w.runBlock(o, k, specs)
}
