package main

import (
	"github.com/nspcc-dev/neo-go/pkg/core/interop/interopnames"
	"github.com/nspcc-dev/neo-go/pkg/core/native/nativehashes"
	"github.com/nspcc-dev/neo-go/pkg/core/state"
	"github.com/nspcc-dev/neo-go/pkg/io"
	"github.com/nspcc-dev/neo-go/pkg/neotest"
	"github.com/nspcc-dev/neo-go/pkg/smartcontract"
	"github.com/nspcc-dev/neo-go/pkg/smartcontract/manifest"
	"github.com/nspcc-dev/neo-go/pkg/smartcontract/nef"
	"github.com/nspcc-dev/neo-go/pkg/util"
	"github.com/nspcc-dev/neo-go/pkg/vm/emit"
	"github.com/nspcc-dev/neo-go/pkg/vm/opcode"
)

// Hand-assembled helper contracts (no compiler at run time).
//
// Wallet:
//   onNEP17Payment(from, amount, data):
//       data == null                    -> accept
//       data is Array [hash,method,args] -> System.Contract.Call(hash, method, All, args); drop result; accept
//       anything else                   -> THROW "rej"
//   call(hash, method, args)            -> System.Contract.Call(hash, method, All, args), result returned
//     (so that the contract can move its own tokens / vote: the native sees the Wallet as the caller)
//
// NoPay: only `dummy()`; a NEP-17 transfer to it fails in CallFromNative (method not found).

// asm: a two-pass assembler with long (4-byte offset) jumps, for the re-entrant part of the Wallet.
type asmItem struct {
	code  []byte
	jmp   opcode.Opcode // != 0: a jump to label
	label string        // jump target or, with code == nil and jmp == 0, a label definition
}

func asmBytes(f func(w *io.BinWriter)) asmItem {
	w := io.NewBufBinWriter()
	f(w.BinWriter)
	return asmItem{code: w.Bytes()}
}

func assemble(items []asmItem) []byte {
	pos := map[string]int{}
	off := 0
	for _, it := range items {
		switch {
		case it.jmp != 0:
			off += 5
		case it.code == nil:
			pos[it.label] = off
		default:
			off += len(it.code)
		}
	}
	var out []byte
	for _, it := range items {
		switch {
		case it.jmp != 0:
			rel := int32(pos[it.label] - len(out))
			out = append(out, byte(it.jmp), byte(rel), byte(rel>>8), byte(rel>>16), byte(rel>>24))
		case it.code != nil:
			out = append(out, it.code...)
		}
	}
	return out
}

// reentrantPay: onNEP17Payment of the Wallet, extended: a payment with null data AND null `from` (a GAS mint: the
// reward of a vote / transfer / blocking) while the contract is armed (storage key "a" holds an account X) disarms it
// and calls NEO.transfer(self, X, 1, null) -- the receiver re-enters the token contract on its own account from inside
// the reward payment. Everything else behaves as before.
func reentrantPay(neoHash util.Uint160) []byte {
	op := func(ops ...opcode.Opcode) asmItem {
		return asmBytes(func(w *io.BinWriter) { emit.Opcodes(w, ops...) })
	}
	sys := func(name string) asmItem { return asmBytes(func(w *io.BinWriter) { emit.Syscall(w, name) }) }
	str := func(s string) asmItem { return asmBytes(func(w *io.BinWriter) { emit.String(w, s) }) }
	return assemble([]asmItem{
		asmBytes(func(w *io.BinWriter) { emit.InitSlot(w, 0, 3) }),
		op(opcode.LDARG2, opcode.ISNULL), {jmp: opcode.JMPIFNOTL, label: "notnull"},
		op(opcode.LDARG0, opcode.ISNULL), {jmp: opcode.JMPIFNOTL, label: "ret"},
		str("a"), sys(interopnames.SystemStorageGetContext), sys(interopnames.SystemStorageGet),
		op(opcode.DUP, opcode.ISNULL), {jmp: opcode.JMPIFL, label: "dropret"},
		str("a"), sys(interopnames.SystemStorageGetContext), sys(interopnames.SystemStorageDelete),
		op(opcode.PUSHNULL, opcode.SWAP, opcode.PUSH1, opcode.SWAP), sys(interopnames.SystemRuntimeGetExecutingScriptHash),
		op(opcode.PUSH4, opcode.PACK, opcode.PUSH15), str("transfer"),
		asmBytes(func(w *io.BinWriter) { emit.Bytes(w, neoHash.BytesBE()) }),
		sys(interopnames.SystemContractCall), op(opcode.DROP, opcode.RET),
		{label: "dropret"}, op(opcode.DROP),
		{label: "ret"}, op(opcode.RET),
		{label: "notnull"},
		op(opcode.LDARG2), asmBytes(func(w *io.BinWriter) { emit.Instruction(w, opcode.ISTYPE, []byte{0x40}) }),
		{jmp: opcode.JMPIFNOTL, label: "throw"},
		op(opcode.LDARG2, opcode.PUSH2, opcode.PICKITEM, opcode.PUSH15, opcode.LDARG2, opcode.PUSH1, opcode.PICKITEM, opcode.LDARG2, opcode.PUSH0, opcode.PICKITEM),
		sys(interopnames.SystemContractCall), op(opcode.DROP, opcode.RET),
		{label: "throw"}, str("rej"), op(opcode.THROW),
	})
}

func walletScriptOld() (script []byte, offPay, offCall int) {
	tail := io.NewBufBinWriter() // from "LDARG2 PUSH2 PICKITEM" to the end
	emit.Opcodes(tail.BinWriter, opcode.LDARG2, opcode.PUSH2, opcode.PICKITEM)
	emit.Opcodes(tail.BinWriter, opcode.PUSH15)
	emit.Opcodes(tail.BinWriter, opcode.LDARG2, opcode.PUSH1, opcode.PICKITEM)
	emit.Opcodes(tail.BinWriter, opcode.LDARG2, opcode.PUSH0, opcode.PICKITEM)
	emit.Syscall(tail.BinWriter, interopnames.SystemContractCall)
	emit.Opcodes(tail.BinWriter, opcode.DROP)
	retPos := tail.Len() // position of RET inside tail
	emit.Opcodes(tail.BinWriter, opcode.RET)
	throwPos := tail.Len()
	emit.String(tail.BinWriter, "rej")
	emit.Opcodes(tail.BinWriter, opcode.THROW)
	tb := tail.Bytes()

	w := io.NewBufBinWriter()
	emit.InitSlot(w.BinWriter, 0, 3)                                                        // 0..2
	emit.Opcodes(w.BinWriter, opcode.LDARG2, opcode.ISNULL)                                 // 3,4
	tailStart := 12                                                                         // 3+2+2+1+2+2
	emit.Instruction(w.BinWriter, opcode.JMPIF, []byte{byte(tailStart + retPos - 5)})       // at 5
	emit.Opcodes(w.BinWriter, opcode.LDARG2)                                                // 7
	emit.Instruction(w.BinWriter, opcode.ISTYPE, []byte{0x40})                              // 8,9 (Array)
	emit.Instruction(w.BinWriter, opcode.JMPIFNOT, []byte{byte(tailStart + throwPos - 10)}) // at 10
	if w.Len() != tailStart {
		panic("wallet script layout")
	}
	w.WriteBytes(tb)
	offCall = w.Len()
	emit.InitSlot(w.BinWriter, 0, 3)
	emit.Opcodes(w.BinWriter, opcode.LDARG2, opcode.PUSH15, opcode.LDARG1, opcode.LDARG0)
	emit.Syscall(w.BinWriter, interopnames.SystemContractCall)
	emit.Opcodes(w.BinWriter, opcode.RET)
	if w.Err != nil {
		panic(w.Err)
	}
	return w.Bytes(), 0, offCall
}

func mkContract(sender util.Uint160, name string, script []byte, methods []manifest.Method) *neotest.Contract {
	ne, err := nef.NewFile(script)
	if err != nil {
		panic(err)
	}
	m := manifest.DefaultManifest(name)
	m.ABI.Methods = methods
	return &neotest.Contract{
		Hash:     state.CreateContractHash(sender, ne.Checksum, name),
		NEF:      ne,
		Manifest: m,
	}
}

// walletScript: onNEP17Payment (re-entrant variant), call(hash, method, args), arm(x), disarm().
func walletScript() (script []byte, offPay, offCall, offArm, offDisarm int) {
	w := io.NewBufBinWriter()
	w.WriteBytes(reentrantPay(nativehashes.NeoToken))
	offCall = w.Len()
	emit.InitSlot(w.BinWriter, 0, 3)
	emit.Opcodes(w.BinWriter, opcode.LDARG2, opcode.PUSH15, opcode.LDARG1, opcode.LDARG0)
	emit.Syscall(w.BinWriter, interopnames.SystemContractCall)
	emit.Opcodes(w.BinWriter, opcode.RET)
	offArm = w.Len()
	emit.InitSlot(w.BinWriter, 0, 1)
	emit.Opcodes(w.BinWriter, opcode.LDARG0)
	emit.String(w.BinWriter, "a")
	emit.Syscall(w.BinWriter, interopnames.SystemStorageGetContext)
	emit.Syscall(w.BinWriter, interopnames.SystemStoragePut)
	emit.Opcodes(w.BinWriter, opcode.PUSHT, opcode.RET)
	offDisarm = w.Len()
	emit.String(w.BinWriter, "a")
	emit.Syscall(w.BinWriter, interopnames.SystemStorageGetContext)
	emit.Syscall(w.BinWriter, interopnames.SystemStorageDelete)
	emit.Opcodes(w.BinWriter, opcode.PUSHT, opcode.RET)
	if w.Err != nil {
		panic(w.Err)
	}
	return w.Bytes(), 0, offCall, offArm, offDisarm
}

func walletContract(sender util.Uint160, name string) *neotest.Contract {
	script, offPay, offCall, offArm, offDisarm := walletScript()
	return mkContract(sender, name, script, []manifest.Method{
		{Name: "arm", Offset: offArm, Parameters: []manifest.Parameter{manifest.NewParameter("x", smartcontract.Hash160Type)}, ReturnType: smartcontract.BoolType},
		{Name: "disarm", Offset: offDisarm, Parameters: []manifest.Parameter{}, ReturnType: smartcontract.BoolType},
		{
			Name:   manifest.MethodOnNEP17Payment,
			Offset: offPay,
			Parameters: []manifest.Parameter{
				manifest.NewParameter("from", smartcontract.Hash160Type),
				manifest.NewParameter("amount", smartcontract.IntegerType),
				manifest.NewParameter("data", smartcontract.AnyType),
			},
			ReturnType: smartcontract.VoidType,
		},
		{
			Name:   "call",
			Offset: offCall,
			Parameters: []manifest.Parameter{
				manifest.NewParameter("hash", smartcontract.Hash160Type),
				manifest.NewParameter("method", smartcontract.StringType),
				manifest.NewParameter("args", smartcontract.ArrayType),
			},
			ReturnType: smartcontract.AnyType,
		},
	})
}

func nopayContract(sender util.Uint160, name string) *neotest.Contract {
	w := io.NewBufBinWriter()
	emit.Opcodes(w.BinWriter, opcode.PUSH1, opcode.RET)
	return mkContract(sender, name, w.Bytes(), []manifest.Method{
		{Name: "dummy", Offset: 0, Parameters: []manifest.Parameter{}, ReturnType: smartcontract.IntegerType},
	})
}
