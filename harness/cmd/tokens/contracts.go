package main

import (
	"github.com/nspcc-dev/neo-go/pkg/core/interop/interopnames"
	"github.com/nspcc-dev/neo-go/pkg/core/state"
	"github.com/nspcc-dev/neo-go/pkg/io"
	"github.com/nspcc-dev/neo-go/pkg/neotest"
	"github.com/nspcc-dev/neo-go/pkg/smartcontract"
	"github.com/nspcc-dev/neo-go/pkg/smartcontract/manifest"
	"github.com/nspcc-dev/neo-go/pkg/smartcontract/nef"
	"github.com/nspcc-dev/neo-go/pkg/util"
	"github.com/nspcc-dev/neo-go/pkg/vm/emit"
	"github.com/nspcc-dev/neo-go/pkg/vm/opcode"
)

// Hand-assembled helper contracts (no compiler at run time).
//
// Wallet:
//   onNEP17Payment(from, amount, data):
//       data == null                    -> accept
//       data is Array [hash,method,args] -> System.Contract.Call(hash, method, All, args); drop result; accept
//       anything else                   -> THROW "rej"
//   call(hash, method, args)            -> System.Contract.Call(hash, method, All, args), result returned
//     (so that the contract can move its own tokens / vote: the native sees the Wallet as the caller)
//
// NoPay: only `dummy()`; a NEP-17 transfer to it fails in CallFromNative (method not found).

func walletScript() (script []byte, offPay, offCall int) {
	tail := io.NewBufBinWriter() // from "LDARG2 PUSH2 PICKITEM" to the end
	emit.Opcodes(tail.BinWriter, opcode.LDARG2, opcode.PUSH2, opcode.PICKITEM)
	emit.Opcodes(tail.BinWriter, opcode.PUSH15)
	emit.Opcodes(tail.BinWriter, opcode.LDARG2, opcode.PUSH1, opcode.PICKITEM)
	emit.Opcodes(tail.BinWriter, opcode.LDARG2, opcode.PUSH0, opcode.PICKITEM)
	emit.Syscall(tail.BinWriter, interopnames.SystemContractCall)
	emit.Opcodes(tail.BinWriter, opcode.DROP)
	retPos := tail.Len() // position of RET inside tail
	emit.Opcodes(tail.BinWriter, opcode.RET)
	throwPos := tail.Len()
	emit.String(tail.BinWriter, "rej")
	emit.Opcodes(tail.BinWriter, opcode.THROW)
	tb := tail.Bytes()

	w := io.NewBufBinWriter()
	emit.InitSlot(w.BinWriter, 0, 3)                                                        // 0..2
	emit.Opcodes(w.BinWriter, opcode.LDARG2, opcode.ISNULL)                                 // 3,4
	tailStart := 12                                                                         // 3+2+2+1+2+2
	emit.Instruction(w.BinWriter, opcode.JMPIF, []byte{byte(tailStart + retPos - 5)})       // at 5
	emit.Opcodes(w.BinWriter, opcode.LDARG2)                                                // 7
	emit.Instruction(w.BinWriter, opcode.ISTYPE, []byte{0x40})                              // 8,9 (Array)
	emit.Instruction(w.BinWriter, opcode.JMPIFNOT, []byte{byte(tailStart + throwPos - 10)}) // at 10
	if w.Len() != tailStart {
		panic("wallet script layout")
	}
	w.WriteBytes(tb)
	offCall = w.Len()
	emit.InitSlot(w.BinWriter, 0, 3)
	emit.Opcodes(w.BinWriter, opcode.LDARG2, opcode.PUSH15, opcode.LDARG1, opcode.LDARG0)
	emit.Syscall(w.BinWriter, interopnames.SystemContractCall)
	emit.Opcodes(w.BinWriter, opcode.RET)
	if w.Err != nil {
		panic(w.Err)
	}
	return w.Bytes(), 0, offCall
}

func mkContract(sender util.Uint160, name string, script []byte, methods []manifest.Method) *neotest.Contract {
	ne, err := nef.NewFile(script)
	if err != nil {
		panic(err)
	}
	m := manifest.DefaultManifest(name)
	m.ABI.Methods = methods
	return &neotest.Contract{
		Hash:     state.CreateContractHash(sender, ne.Checksum, name),
		NEF:      ne,
		Manifest: m,
	}
}

func walletContract(sender util.Uint160, name string) *neotest.Contract {
	script, offPay, offCall := walletScript()
	return mkContract(sender, name, script, []manifest.Method{
		{
			Name:   manifest.MethodOnNEP17Payment,
			Offset: offPay,
			Parameters: []manifest.Parameter{
				manifest.NewParameter("from", smartcontract.Hash160Type),
				manifest.NewParameter("amount", smartcontract.IntegerType),
				manifest.NewParameter("data", smartcontract.AnyType),
			},
			ReturnType: smartcontract.VoidType,
		},
		{
			Name:   "call",
			Offset: offCall,
			Parameters: []manifest.Parameter{
				manifest.NewParameter("hash", smartcontract.Hash160Type),
				manifest.NewParameter("method", smartcontract.StringType),
				manifest.NewParameter("args", smartcontract.ArrayType),
			},
			ReturnType: smartcontract.AnyType,
		},
	})
}

func nopayContract(sender util.Uint160, name string) *neotest.Contract {
	w := io.NewBufBinWriter()
	emit.Opcodes(w.BinWriter, opcode.PUSH1, opcode.RET)
	return mkContract(sender, name, w.Bytes(), []manifest.Method{
		{Name: "dummy", Offset: 0, Parameters: []manifest.Parameter{}, ReturnType: smartcontract.IntegerType},
	})
}
