package main

import (
	"fmt"
	"os"

	"github.com/nspcc-dev/neo-go/pkg/core"
	"github.com/nspcc-dev/neo-go/pkg/core/storage"
	"go.uber.org/zap"

	"verif/harness/internal/hx"
	"verif/harness/internal/prng"
)

type keepStore struct{ storage.Store }

func (keepStore) Close() error { return nil }

// probeRestart replays the blocks of corpus history 1 on a second node that is closed and reopened
// at height `at`, and prints the first height at which the state roots differ (not part of the check).
func probeRestart(at uint32) {
	t := &tb{}
	defer t.done()
	r := prng.ForCase(1, 1)
	w := newWorld(t, r, 1, 1, 3, 1)
	o := hx.NewOut(os.TempDir() + "/tokens-probe")
	defer o.Close()
	w.setup(o, 1)
	corpus1(w, o, 1)
	top := w.bc.BlockHeight()
	cfg := w.bc.GetConfig()
	st := keepStore{storage.NewMemoryStore()}
	b, err := core.NewBlockchain(st, cfg, zap.NewNop())
	if err != nil {
		panic(err)
	}
	go b.Run()
	for i := uint32(1); i <= top; i++ {
		blk, _ := w.bc.GetBlock(w.bc.GetHeaderHash(i))
		if err := b.AddBlock(blk); err != nil {
			fmt.Println("replica rejected block", i, err)
			return
		}
		ra, _ := w.bc.GetStateModule().GetStateRoot(i)
		rb, _ := b.GetStateModule().GetStateRoot(i)
		if ra.Root != rb.Root {
			fmt.Println("state roots differ from height", i, "(restart at", at, ")")
			return
		}
		if i == at {
			b.Close()
			b, err = core.NewBlockchain(st, cfg, zap.NewNop())
			if err != nil {
				panic(err)
			}
			go b.Run()
		}
	}
	fmt.Println("state roots equal up to", top, "(restart at", at, ")")
	b.Close()
}
