package main

import (
	"bytes"
	"fmt"
	"math/big"
	"sort"
	"strings"

	"github.com/nspcc-dev/neo-go/pkg/crypto/keys"

	"github.com/nspcc-dev/neo-go/pkg/core/transaction"
	"github.com/nspcc-dev/neo-go/pkg/io"
	"github.com/nspcc-dev/neo-go/pkg/smartcontract/callflag"
	"github.com/nspcc-dev/neo-go/pkg/util"
	"github.com/nspcc-dev/neo-go/pkg/vm/emit"
	"github.com/nspcc-dev/neo-go/pkg/vm/stackitem"

	"verif/harness/internal/hx"
)

var neoTotal = big.NewInt(100_000_000)

// oracle evaluates property C05 directly on the real state (decoded storage of the NEO, GAS and
// Notary contracts and the contracts' own getters) after block idx, and on the block's events.
func (w *world) oracle(o *hx.Out, k int, idx uint32, pre, post *absState, xs []xfer) {
	fail := func(key, f string, a ...any) {
		o.Fail(key, k, "block %d: "+f, append([]any{idx}, a...)...)
	}
	for _, e := range post.decodeErrs {
		fail("storage-decode", "%s", e)
	}
	// 1. NEO supply
	sum := new(big.Int)
	for h, a := range post.neo {
		sum.Add(sum, a.bal)
		if a.bal.Sign() < 0 {
			fail("negative-balance", "NEO balance of %s is %s", h.StringBE(), a.bal)
		}
		if a.bal.Sign() == 0 {
			// not forbidden by the property (the correspondence with the model reports it): counted only
			o.Count("note:zero-balance-neo-account-stored")
		}
	}
	if post.neoSupply.Cmp(neoTotal) != 0 {
		fail("neo-supply", "NEO totalSupply = %s", post.neoSupply)
	}
	if sum.Cmp(post.neoSupply) != 0 {
		fail("neo-sum", "sum of NEO balances %s != totalSupply %s", sum, post.neoSupply)
	}
	// 2. GAS supply
	sum = new(big.Int)
	for h, b := range post.gas {
		sum.Add(sum, b)
		if b.Sign() < 0 {
			fail("negative-balance", "GAS balance of %s is %s", h.StringBE(), b)
		}
	}
	if sum.Cmp(post.gasSupply) != 0 {
		fail("gas-sum", "sum of GAS balances %s != totalSupply %s", sum, post.gasSupply)
	}
	// 3. votes
	votes := map[string]*big.Int{}
	voters := new(big.Int)
	for h, a := range post.neo {
		if a.vote == nil {
			continue
		}
		key := string(a.vote.Bytes())
		if votes[key] == nil {
			votes[key] = new(big.Int)
		}
		votes[key].Add(votes[key], a.bal)
		voters.Add(voters, a.bal)
		if post.cands[key] == nil {
			fail("vote-dangling", "account %s votes for %x which has no candidate record", h.StringBE(), a.vote.Bytes())
		}
	}
	for key, c := range post.cands {
		v := votes[key]
		if v == nil {
			v = new(big.Int)
		}
		if c.votes.Cmp(v) != 0 {
			fail("candidate-votes", "candidate %x has votes %s, NEO voting for it %s", c.pub.Bytes(), c.votes, v)
		}
		if !c.reg && c.votes.Sign() == 0 {
			// consistent with the property's text (0 votes, nobody votes): counted only
			o.Count("note:unregistered-candidate-with-zero-votes-stored")
		}
	}
	if !post.votersSet {
		fail("voters-missing", "votersCount item is missing")
	}
	if post.voters.Cmp(voters) != 0 {
		fail("voters-count", "votersCount %s != NEO of voting accounts %s", post.voters, voters)
	}
	// candidate records that disappeared in this block must have been unregistered with zero votes;
	// the state invariants above imply it for the post state, check the pre -> post direction too.
	for key, c := range pre.cands {
		if post.cands[key] == nil {
			if v := votes[key]; v != nil && v.Sign() != 0 {
				fail("candidate-dropped-voted", "candidate %x removed while %s NEO vote for it", c.pub.Bytes(), v)
			}
		}
	}
	// 4. Notary
	dsum := new(big.Int)
	for h, d := range post.deps {
		dsum.Add(dsum, d.amount)
		if d.amount.Sign() < 0 {
			fail("negative-balance", "deposit of %s is %s", h.StringBE(), d.amount)
		}
	}
	nb := post.gas[w.notaryH]
	if nb == nil {
		nb = new(big.Int)
	}
	if nb.Cmp(dsum) != 0 {
		fail("notary-balance", "GAS of Notary %s != sum of deposits %s", nb, dsum)
	}
	// 5. balance change = net Transfer events of successful executions
	type key struct {
		neo bool
		h   util.Uint160
	}
	net := map[key]*big.Int{}
	add := func(neo bool, h *util.Uint160, a *big.Int, neg bool) {
		if h == nil {
			return
		}
		kk := key{neo, *h}
		if net[kk] == nil {
			net[kk] = new(big.Int)
		}
		if neg {
			net[kk].Sub(net[kk], a)
		} else {
			net[kk].Add(net[kk], a)
		}
	}
	for _, x := range xs {
		if x.amt.Sign() < 0 {
			o.Count("note:transfer-event-with-negative-amount")
		}
		add(x.neo, x.from, x.amt, true)
		add(x.neo, x.to, x.amt, false)
	}
	accs := map[key]bool{}
	for kk := range net {
		accs[kk] = true
	}
	for h := range pre.neo {
		accs[key{true, h}] = true
	}
	for h := range post.neo {
		accs[key{true, h}] = true
	}
	for h := range pre.gas {
		accs[key{false, h}] = true
	}
	for h := range post.gas {
		accs[key{false, h}] = true
	}
	bal := func(s *absState, kk key) *big.Int {
		if kk.neo {
			if a := s.neo[kk.h]; a != nil {
				return a.bal
			}
			return new(big.Int)
		}
		if b := s.gas[kk.h]; b != nil {
			return b
		}
		return new(big.Int)
	}
	for kk := range accs {
		d := new(big.Int).Sub(bal(post, kk), bal(pre, kk))
		n := net[kk]
		if n == nil {
			n = new(big.Int)
		}
		if d.Cmp(n) != 0 {
			tok := "GAS"
			if kk.neo {
				tok = "NEO"
			}
			fail("delta-events", "%s balance of %s changed by %s, net Transfer events %s", tok, kk.h.StringBE(), d, n)
		}
	}
	w.electionOracle(o, k, idx, pre, post)
	w.getters(o, k, idx, post)
}

// electExpected: the committee (with votes, in election order) that the election rule yields over the
// state st, written from the rule, not from the code: the registered candidates whose account is not
// blocked, most votes first, ties by key; the standby committee when less than 20% of the NEO supply
// votes or there are fewer candidates than seats.
func (w *world) electExpected(st *absState) []cvRec {
	var cs []cvRec
	for _, c := range st.cands {
		if c.reg && !st.blocked[c.pub.GetScriptHash()] {
			cs = append(cs, cvRec{pub: c.pub, votes: c.votes})
		}
	}
	sort.Slice(cs, func(i, j int) bool {
		if d := cs[i].votes.Cmp(cs[j].votes); d != 0 {
			return d > 0
		}
		return cs[i].pub.Cmp(cs[j].pub) < 0
	})
	turnout := new(big.Int).Mul(st.voters, big.NewInt(5))
	if turnout.Cmp(st.neoSupply) >= 0 && len(cs) >= w.C {
		return cs[:w.C]
	}
	res := make([]cvRec, w.C)
	for i := range res {
		res[i] = cvRec{pub: w.standby[i].PublicKey(), votes: new(big.Int)}
		for _, c := range cs {
			if c.pub.Equal(res[i].pub) {
				res[i].votes = c.votes
			}
		}
	}
	return res
}

func sortedFirst(cvs []cvRec, n int) keys.PublicKeys {
	var ps keys.PublicKeys
	for i := 0; i < n && i < len(cvs); i++ {
		ps = append(ps, cvs[i].pub)
	}
	sort.Sort(ps)
	return ps
}

func samePubs(a, b keys.PublicKeys) bool {
	if len(a) != len(b) {
		return false
	}
	for i := range a {
		if !a[i].Equal(b[i]) {
			return false
		}
	}
	return true
}

// electionOracle: the committee and validators the real chain reports after block idx against the election
// rule evaluated on the decoded storage (pre = state after block idx-1).
func (w *world) electionOracle(o *hx.Out, k int, idx uint32, pre, post *absState) {
	fail := func(key, f string, a ...any) {
		o.Fail(key, k, "block %d: "+f, append([]any{idx}, a...)...)
	}
	if len(post.committee) != w.C {
		fail("committee-size", "stored committee has %d members, committee size is %d", len(post.committee), w.C)
	}
	for i := range post.committee {
		for j := 0; j < i; j++ {
			if post.committee[i].pub.Equal(post.committee[j].pub) {
				fail("committee-duplicate", "committee member %x twice", post.committee[i].pub.Bytes())
			}
		}
	}
	if idx%uint32(w.C) == 0 && idx > 0 {
		// the committee installed by this block's OnPersist was elected over the state at the end of the previous block
		exp := w.electExpected(pre)
		same := len(exp) == len(post.committee)
		for i := 0; same && i < len(exp); i++ {
			same = exp[i].pub.Equal(post.committee[i].pub) && exp[i].votes.Cmp(post.committee[i].votes) == 0
		}
		if !same {
			fail("committee-election", "committee installed %s, election over the previous block's state gives %s", w.cvString(post.committee), w.cvString(exp))
		}
		o.Count("election:checked")
		std := true
		for i := range exp {
			std = std && exp[i].pub.Equal(w.standby[i].PublicKey())
		}
		if !std {
			o.Count("election:elected-not-standby")
		}
		t5 := new(big.Int).Mul(pre.voters, big.NewInt(5))
		switch d := new(big.Int).Sub(t5, pre.neoSupply); {
		case d.Sign() >= 0 && d.Cmp(big.NewInt(5)) < 0:
			o.Count("election:turnout-exactly-at-threshold")
		case d.Sign() < 0 && d.Cmp(big.NewInt(-5)) >= 0:
			o.Count("election:turnout-one-below-threshold")
		case d.Sign() >= 0:
			o.Count("election:turnout-above")
		default:
			o.Count("election:turnout-below")
		}
		n := 0
		tie := false
		var elig []*candRec
		for _, c := range pre.cands {
			if c.reg && !pre.blocked[c.pub.GetScriptHash()] {
				n++
				elig = append(elig, c)
			}
			if c.reg && pre.blocked[c.pub.GetScriptHash()] {
				o.Count("election:blocked-registered-candidate")
			}
		}
		for i := range elig {
			for j := 0; j < i; j++ {
				tie = tie || elig[i].votes.Cmp(elig[j].votes) == 0 && elig[i].votes.Sign() > 0
			}
		}
		if tie {
			o.Count("election:vote-tie-between-candidates")
		}
		switch {
		case n == w.C:
			o.Count("election:candidates-exactly-seats")
		case n == w.C-1:
			o.Count("election:candidates-one-short")
		case n > w.C:
			o.Count("election:candidates-more-than-seats")
		}
	}
	if !samePubs(post.nextVals, sortedFirst(post.committee, w.V)) {
		fail("validators", "GetNextBlockValidators differs from the sorted first %d committee members", w.V)
	}
	var all keys.PublicKeys
	for _, c := range post.committee {
		all = append(all, c.pub)
	}
	sort.Sort(all)
	if !samePubs(post.sortedCom, all) {
		fail("validators", "GetCommittee differs from the stored committee")
	}
	if (idx+1)%uint32(w.C) == 0 {
		if !samePubs(post.neVals, sortedFirst(w.electExpected(post), w.V)) {
			fail("committee-election", "ComputeNextBlockValidators at the end of the epoch differs from the election over the current state")
		}
	}
}

func (w *world) cvString(cvs []cvRec) string {
	var es []string
	for _, c := range cvs {
		es = append(es, fmt.Sprintf("%d:%s", w.pid(c.pub), c.votes))
	}
	return "[" + strings.Join(es, ",") + "]"
}

// getters compares the decoded storage with what the contracts' own read methods return
// (one test invocation per block) and with the Blockchain-level accessors.
func (w *world) getters(o *hx.Out, k int, idx uint32, post *absState) {
	fail := func(key, f string, a ...any) {
		o.Fail(key, k, "block %d: "+f, append([]any{idx}, a...)...)
	}
	var hs []util.Uint160
	seen := map[util.Uint160]bool{}
	for _, h := range w.accs {
		if !seen[h] {
			seen[h] = true
			hs = append(hs, h)
		}
	}
	bw := io.NewBufBinWriter()
	emit.AppCall(bw.BinWriter, w.neoH, "totalSupply", callflag.ReadOnly)
	emit.AppCall(bw.BinWriter, w.gasH, "totalSupply", callflag.ReadOnly)
	emit.AppCall(bw.BinWriter, w.neoH, "getCandidates", callflag.ReadOnly)
	emit.AppCall(bw.BinWriter, w.neoH, "getCommittee", callflag.ReadOnly)
	emit.AppCall(bw.BinWriter, w.neoH, "getNextBlockValidators", callflag.ReadOnly)
	for _, h := range hs {
		emit.AppCall(bw.BinWriter, w.neoH, "balanceOf", callflag.ReadOnly, h)
		emit.AppCall(bw.BinWriter, w.gasH, "balanceOf", callflag.ReadOnly, h)
		emit.AppCall(bw.BinWriter, w.notaryH, "balanceOf", callflag.ReadOnly, h)
		emit.AppCall(bw.BinWriter, w.neoH, "getAccountState", callflag.ReadOnly, h)
	}
	tx := transaction.New(bw.Bytes(), 0)
	tx.ValidUntilBlock = w.bc.BlockHeight() + 1
	tx.Signers = []transaction.Signer{{Account: w.valSigner.ScriptHash(), Scopes: transaction.None}}
	v, err := w.e.TestInvoke(tx)
	if err != nil {
		fail("getters-fault", "getter script failed: %v", err)
		return
	}
	st := v.Estack().ToArray() // bottom first
	const nHead = 5
	if len(st) != nHead+4*len(hs) {
		fail("getters-shape", "getter script returned %d items", len(st))
		return
	}
	intOf := func(it stackitem.Item) *big.Int {
		b, err := it.TryInteger()
		if err != nil {
			return big.NewInt(-999)
		}
		return b
	}
	if intOf(st[0]).Cmp(post.neoSupply) != 0 {
		fail("getter-mismatch", "NEO.totalSupply() = %s, storage %s", intOf(st[0]), post.neoSupply)
	}
	if intOf(st[1]).Cmp(post.gasSupply) != 0 {
		fail("getter-mismatch", "GAS.totalSupply() = %s, storage %s", intOf(st[1]), post.gasSupply)
	}
	// getCandidates: registered (and not blocked) candidates with votes
	if arr, ok := st[2].Value().([]stackitem.Item); ok {
		n := 0
		for _, c := range post.cands {
			if c.reg && !post.blocked[c.pub.GetScriptHash()] {
				n++
			}
		}
		if len(arr) != n {
			fail("getter-mismatch", "getCandidates() has %d entries, storage has %d registered", len(arr), n)
		}
		for _, e := range arr {
			f, ok := e.Value().([]stackitem.Item)
			if !ok || len(f) != 2 {
				fail("getter-mismatch", "getCandidates() element shape")
				continue
			}
			kb, _ := f[0].TryBytes()
			c := post.cands[string(kb)]
			if c == nil || !c.reg || c.votes.Cmp(intOf(f[1])) != 0 {
				fail("getter-mismatch", "getCandidates() entry %x votes %s not matched by storage", kb, intOf(f[1]))
			}
		}
	} else {
		fail("getters-shape", "getCandidates() is not an array")
	}
	// getCommittee / getNextBlockValidators: the contract's answers against the Blockchain-level accessors
	for j, want := range []keys.PublicKeys{post.sortedCom, post.nextVals} {
		arr, ok := st[3+j].Value().([]stackitem.Item)
		if !ok || len(arr) != len(want) {
			fail("getter-mismatch", "getCommittee/getNextBlockValidators (%d) shape", j)
			continue
		}
		for i := range arr {
			b, _ := arr[i].TryBytes()
			if !bytes.Equal(b, want[i].Bytes()) {
				fail("getter-mismatch", "getCommittee/getNextBlockValidators (%d) entry %d", j, i)
			}
		}
	}
	// getCandidates in the contract's order = GetEnrollments
	if arr, ok := st[2].Value().([]stackitem.Item); ok && len(arr) == len(post.enroll) {
		for i, e := range arr {
			if f, ok := e.Value().([]stackitem.Item); ok && len(f) == 2 {
				kb, _ := f[0].TryBytes()
				if !bytes.Equal(kb, post.enroll[i].Key.Bytes()) {
					fail("getter-mismatch", "getCandidates() order differs from GetEnrollments at %d", i)
				}
			}
		}
	}
	zero := new(big.Int)
	for i, h := range hs {
		nb, gb, db := zero, zero, zero
		if a := post.neo[h]; a != nil {
			nb = a.bal
		}
		if b := post.gas[h]; b != nil {
			gb = b
		}
		if d := post.deps[h]; d != nil {
			db = d.amount
		}
		base := nHead + 4*i
		if intOf(st[base]).Cmp(nb) != 0 {
			fail("getter-mismatch", "NEO.balanceOf(%s) = %s, storage %s", h.StringBE(), intOf(st[base]), nb)
		}
		if intOf(st[base+1]).Cmp(gb) != 0 {
			fail("getter-mismatch", "GAS.balanceOf(%s) = %s, storage %s", h.StringBE(), intOf(st[base+1]), gb)
		}
		if intOf(st[base+2]).Cmp(db) != 0 {
			fail("getter-mismatch", "Notary.balanceOf(%s) = %s, storage %s", h.StringBE(), intOf(st[base+2]), db)
		}
		_, isNull := st[base+3].(stackitem.Null)
		if isNull != (post.neo[h] == nil) {
			fail("getter-mismatch", "getAccountState(%s) null=%v, storage has account=%v", h.StringBE(), isNull, post.neo[h] != nil)
		} else if !isNull {
			f, ok := st[base+3].Value().([]stackitem.Item)
			if !ok || len(f) != 4 || intOf(f[0]).Cmp(nb) != 0 {
				fail("getter-mismatch", "getAccountState(%s) balance differs from storage", h.StringBE())
			}
		}
		// Blockchain-level accessors
		if b, _ := w.bc.GetGoverningTokenBalance(h); b.Cmp(nb) != 0 {
			fail("getter-mismatch", "GetGoverningTokenBalance(%s) = %s, storage %s", h.StringBE(), b, nb)
		}
		if b := w.bc.GetUtilityTokenBalance(h, util.Uint160{}); b.Cmp(gb) != 0 {
			fail("getter-mismatch", "GetUtilityTokenBalance(%s) = %s, storage %s", h.StringBE(), b, gb)
		}
	}
	enr, err := w.bc.GetEnrollments()
	if err != nil {
		fail("getter-mismatch", "GetEnrollments: %v", err)
	}
	for _, e := range enr {
		c := post.cands[string(e.Key.Bytes())]
		if c == nil || !c.reg || c.votes.Cmp(e.Votes) != 0 {
			fail("getter-mismatch", "GetEnrollments entry %x votes %s not matched by storage", e.Key.Bytes(), e.Votes)
		}
	}
}
