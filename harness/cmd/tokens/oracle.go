package main

import (
	"math/big"

	"github.com/nspcc-dev/neo-go/pkg/core/transaction"
	"github.com/nspcc-dev/neo-go/pkg/io"
	"github.com/nspcc-dev/neo-go/pkg/smartcontract/callflag"
	"github.com/nspcc-dev/neo-go/pkg/util"
	"github.com/nspcc-dev/neo-go/pkg/vm/emit"
	"github.com/nspcc-dev/neo-go/pkg/vm/stackitem"

	"verif/harness/internal/hx"
)

var neoTotal = big.NewInt(100_000_000)

// oracle evaluates property C05 directly on the real state (decoded storage of the NEO, GAS and
// Notary contracts and the contracts' own getters) after block idx, and on the block's events.
func (w *world) oracle(o *hx.Out, k int, idx uint32, pre, post *absState, xs []xfer) {
	fail := func(key, f string, a ...any) {
		o.Fail(key, k, "block %d: "+f, append([]any{idx}, a...)...)
	}
	for _, e := range post.decodeErrs {
		fail("storage-decode", "%s", e)
	}
	// 1. NEO supply
	sum := new(big.Int)
	for h, a := range post.neo {
		sum.Add(sum, a.bal)
		if a.bal.Sign() < 0 {
			fail("negative-balance", "NEO balance of %s is %s", h.StringBE(), a.bal)
		}
		if a.bal.Sign() == 0 {
			// not forbidden by the property (the correspondence with the model reports it): counted only
			o.Count("note:zero-balance-neo-account-stored")
		}
	}
	if post.neoSupply.Cmp(neoTotal) != 0 {
		fail("neo-supply", "NEO totalSupply = %s", post.neoSupply)
	}
	if sum.Cmp(post.neoSupply) != 0 {
		fail("neo-sum", "sum of NEO balances %s != totalSupply %s", sum, post.neoSupply)
	}
	// 2. GAS supply
	sum = new(big.Int)
	for h, b := range post.gas {
		sum.Add(sum, b)
		if b.Sign() < 0 {
			fail("negative-balance", "GAS balance of %s is %s", h.StringBE(), b)
		}
	}
	if sum.Cmp(post.gasSupply) != 0 {
		fail("gas-sum", "sum of GAS balances %s != totalSupply %s", sum, post.gasSupply)
	}
	// 3. votes
	votes := map[string]*big.Int{}
	voters := new(big.Int)
	for h, a := range post.neo {
		if a.vote == nil {
			continue
		}
		key := string(a.vote.Bytes())
		if votes[key] == nil {
			votes[key] = new(big.Int)
		}
		votes[key].Add(votes[key], a.bal)
		voters.Add(voters, a.bal)
		if post.cands[key] == nil {
			fail("vote-dangling", "account %s votes for %x which has no candidate record", h.StringBE(), a.vote.Bytes())
		}
	}
	for key, c := range post.cands {
		v := votes[key]
		if v == nil {
			v = new(big.Int)
		}
		if c.votes.Cmp(v) != 0 {
			fail("candidate-votes", "candidate %x has votes %s, NEO voting for it %s", c.pub.Bytes(), c.votes, v)
		}
		if !c.reg && c.votes.Sign() == 0 {
			// consistent with the property's text (0 votes, nobody votes): counted only
			o.Count("note:unregistered-candidate-with-zero-votes-stored")
		}
	}
	if !post.votersSet {
		fail("voters-missing", "votersCount item is missing")
	}
	if post.voters.Cmp(voters) != 0 {
		fail("voters-count", "votersCount %s != NEO of voting accounts %s", post.voters, voters)
	}
	// candidate records that disappeared in this block must have been unregistered with zero votes;
	// the state invariants above imply it for the post state, check the pre -> post direction too.
	for key, c := range pre.cands {
		if post.cands[key] == nil {
			if v := votes[key]; v != nil && v.Sign() != 0 {
				fail("candidate-dropped-voted", "candidate %x removed while %s NEO vote for it", c.pub.Bytes(), v)
			}
		}
	}
	// 4. Notary
	dsum := new(big.Int)
	for h, d := range post.deps {
		dsum.Add(dsum, d.amount)
		if d.amount.Sign() < 0 {
			fail("negative-balance", "deposit of %s is %s", h.StringBE(), d.amount)
		}
	}
	nb := post.gas[w.notaryH]
	if nb == nil {
		nb = new(big.Int)
	}
	if nb.Cmp(dsum) != 0 {
		fail("notary-balance", "GAS of Notary %s != sum of deposits %s", nb, dsum)
	}
	// 5. balance change = net Transfer events of successful executions
	type key struct {
		neo bool
		h   util.Uint160
	}
	net := map[key]*big.Int{}
	add := func(neo bool, h *util.Uint160, a *big.Int, neg bool) {
		if h == nil {
			return
		}
		kk := key{neo, *h}
		if net[kk] == nil {
			net[kk] = new(big.Int)
		}
		if neg {
			net[kk].Sub(net[kk], a)
		} else {
			net[kk].Add(net[kk], a)
		}
	}
	for _, x := range xs {
		if x.amt.Sign() < 0 {
			o.Count("note:transfer-event-with-negative-amount")
		}
		add(x.neo, x.from, x.amt, true)
		add(x.neo, x.to, x.amt, false)
	}
	accs := map[key]bool{}
	for kk := range net {
		accs[kk] = true
	}
	for h := range pre.neo {
		accs[key{true, h}] = true
	}
	for h := range post.neo {
		accs[key{true, h}] = true
	}
	for h := range pre.gas {
		accs[key{false, h}] = true
	}
	for h := range post.gas {
		accs[key{false, h}] = true
	}
	bal := func(s *absState, kk key) *big.Int {
		if kk.neo {
			if a := s.neo[kk.h]; a != nil {
				return a.bal
			}
			return new(big.Int)
		}
		if b := s.gas[kk.h]; b != nil {
			return b
		}
		return new(big.Int)
	}
	for kk := range accs {
		d := new(big.Int).Sub(bal(post, kk), bal(pre, kk))
		n := net[kk]
		if n == nil {
			n = new(big.Int)
		}
		if d.Cmp(n) != 0 {
			tok := "GAS"
			if kk.neo {
				tok = "NEO"
			}
			fail("delta-events", "%s balance of %s changed by %s, net Transfer events %s", tok, kk.h.StringBE(), d, n)
		}
	}
	w.getters(o, k, idx, post)
}

// getters compares the decoded storage with what the contracts' own read methods return
// (one test invocation per block) and with the Blockchain-level accessors.
func (w *world) getters(o *hx.Out, k int, idx uint32, post *absState) {
	fail := func(key, f string, a ...any) {
		o.Fail(key, k, "block %d: "+f, append([]any{idx}, a...)...)
	}
	var hs []util.Uint160
	seen := map[util.Uint160]bool{}
	for _, h := range w.accs {
		if !seen[h] {
			seen[h] = true
			hs = append(hs, h)
		}
	}
	bw := io.NewBufBinWriter()
	emit.AppCall(bw.BinWriter, w.neoH, "totalSupply", callflag.ReadOnly)
	emit.AppCall(bw.BinWriter, w.gasH, "totalSupply", callflag.ReadOnly)
	emit.AppCall(bw.BinWriter, w.neoH, "getCandidates", callflag.ReadOnly)
	for _, h := range hs {
		emit.AppCall(bw.BinWriter, w.neoH, "balanceOf", callflag.ReadOnly, h)
		emit.AppCall(bw.BinWriter, w.gasH, "balanceOf", callflag.ReadOnly, h)
		emit.AppCall(bw.BinWriter, w.notaryH, "balanceOf", callflag.ReadOnly, h)
		emit.AppCall(bw.BinWriter, w.neoH, "getAccountState", callflag.ReadOnly, h)
	}
	tx := transaction.New(bw.Bytes(), 0)
	tx.ValidUntilBlock = w.bc.BlockHeight() + 1
	tx.Signers = []transaction.Signer{{Account: w.valSigner.ScriptHash(), Scopes: transaction.None}}
	v, err := w.e.TestInvoke(tx)
	if err != nil {
		fail("getters-fault", "getter script failed: %v", err)
		return
	}
	st := v.Estack().ToArray() // bottom first
	if len(st) != 3+4*len(hs) {
		fail("getters-shape", "getter script returned %d items", len(st))
		return
	}
	intOf := func(it stackitem.Item) *big.Int {
		b, err := it.TryInteger()
		if err != nil {
			return big.NewInt(-999)
		}
		return b
	}
	if intOf(st[0]).Cmp(post.neoSupply) != 0 {
		fail("getter-mismatch", "NEO.totalSupply() = %s, storage %s", intOf(st[0]), post.neoSupply)
	}
	if intOf(st[1]).Cmp(post.gasSupply) != 0 {
		fail("getter-mismatch", "GAS.totalSupply() = %s, storage %s", intOf(st[1]), post.gasSupply)
	}
	// getCandidates: registered (and not blocked) candidates with votes
	if arr, ok := st[2].Value().([]stackitem.Item); ok {
		n := 0
		for _, c := range post.cands {
			if c.reg {
				n++
			}
		}
		if len(arr) != n {
			fail("getter-mismatch", "getCandidates() has %d entries, storage has %d registered", len(arr), n)
		}
		for _, e := range arr {
			f, ok := e.Value().([]stackitem.Item)
			if !ok || len(f) != 2 {
				fail("getter-mismatch", "getCandidates() element shape")
				continue
			}
			kb, _ := f[0].TryBytes()
			c := post.cands[string(kb)]
			if c == nil || !c.reg || c.votes.Cmp(intOf(f[1])) != 0 {
				fail("getter-mismatch", "getCandidates() entry %x votes %s not matched by storage", kb, intOf(f[1]))
			}
		}
	} else {
		fail("getters-shape", "getCandidates() is not an array")
	}
	zero := new(big.Int)
	for i, h := range hs {
		nb, gb, db := zero, zero, zero
		if a := post.neo[h]; a != nil {
			nb = a.bal
		}
		if b := post.gas[h]; b != nil {
			gb = b
		}
		if d := post.deps[h]; d != nil {
			db = d.amount
		}
		base := 3 + 4*i
		if intOf(st[base]).Cmp(nb) != 0 {
			fail("getter-mismatch", "NEO.balanceOf(%s) = %s, storage %s", h.StringBE(), intOf(st[base]), nb)
		}
		if intOf(st[base+1]).Cmp(gb) != 0 {
			fail("getter-mismatch", "GAS.balanceOf(%s) = %s, storage %s", h.StringBE(), intOf(st[base+1]), gb)
		}
		if intOf(st[base+2]).Cmp(db) != 0 {
			fail("getter-mismatch", "Notary.balanceOf(%s) = %s, storage %s", h.StringBE(), intOf(st[base+2]), db)
		}
		_, isNull := st[base+3].(stackitem.Null)
		if isNull != (post.neo[h] == nil) {
			fail("getter-mismatch", "getAccountState(%s) null=%v, storage has account=%v", h.StringBE(), isNull, post.neo[h] != nil)
		} else if !isNull {
			f, ok := st[base+3].Value().([]stackitem.Item)
			if !ok || len(f) != 4 || intOf(f[0]).Cmp(nb) != 0 {
				fail("getter-mismatch", "getAccountState(%s) balance differs from storage", h.StringBE())
			}
		}
		// Blockchain-level accessors
		if b, _ := w.bc.GetGoverningTokenBalance(h); b.Cmp(nb) != 0 {
			fail("getter-mismatch", "GetGoverningTokenBalance(%s) = %s, storage %s", h.StringBE(), b, nb)
		}
		if b := w.bc.GetUtilityTokenBalance(h, util.Uint160{}); b.Cmp(gb) != 0 {
			fail("getter-mismatch", "GetUtilityTokenBalance(%s) = %s, storage %s", h.StringBE(), b, gb)
		}
	}
	enr, err := w.bc.GetEnrollments()
	if err != nil {
		fail("getter-mismatch", "GetEnrollments: %v", err)
	}
	for _, e := range enr {
		c := post.cands[string(e.Key.Bytes())]
		if c == nil || !c.reg || c.votes.Cmp(e.Votes) != 0 {
			fail("getter-mismatch", "GetEnrollments entry %x votes %s not matched by storage", e.Key.Bytes(), e.Votes)
		}
	}
}
