package main

import (
	"fmt"
	"math/big"
	"slices"
	"strings"

	"github.com/nspcc-dev/neo-go/pkg/config"
	"github.com/nspcc-dev/neo-go/pkg/core"
	"github.com/nspcc-dev/neo-go/pkg/core/block"
	"github.com/nspcc-dev/neo-go/pkg/core/native/nativenames"
	"github.com/nspcc-dev/neo-go/pkg/core/transaction"
	"github.com/nspcc-dev/neo-go/pkg/crypto/hash"
	"github.com/nspcc-dev/neo-go/pkg/crypto/keys"
	"github.com/nspcc-dev/neo-go/pkg/neotest"
	"github.com/nspcc-dev/neo-go/pkg/neotest/chain"
	"github.com/nspcc-dev/neo-go/pkg/smartcontract"
	"github.com/nspcc-dev/neo-go/pkg/util"
	"github.com/nspcc-dev/neo-go/pkg/wallet"
	"go.uber.org/zap"

	"verif/harness/internal/prng"
)

// world is one neotest chain with keys we own entirely: the standby committee, the
// candidates, the users, helper contracts.
type world struct {
	t  *tb
	bc *core.Blockchain
	e  *neotest.Executor
	r  *prng.R

	C, V      int                // committee size, validators count
	standby   []*keys.PrivateKey // config order
	valSigner neotest.Signer     // default multisig of the first V standby keys: genesis holder + block signer
	users     []*wallet.Account  // plain single-signature accounts
	cands     []*keys.PrivateKey // keys that may be registered as candidates (standby first, then extra)
	notaryKey *keys.PrivateKey   // designated P2PNotary node that signs
	notaryAll []*keys.PrivateKey // all designated P2PNotary nodes (1-3), in the order Designate stores them

	neoH, gasH, notaryH, treasuryH, policyH, desigH, mgmtH util.Uint160
	wallets                                                []util.Uint160 // deployed Wallet contracts
	nopay                                                  util.Uint160   // deployed contract without onNEP17Payment

	minted, burned *big.Int // GAS Transfer events with from / to = null of all HALTed executions so far

	emptied    string // scratch of the generator class "voting account emptied"
	nonce      uint32
	notaryFrom uint32 // first block index at which the designated notary node is effective
	lastFault  string

	// id registries (small deterministic ids used on the op lines)
	accID  map[util.Uint160]int
	accs   []util.Uint160
	pubID  map[string]int
	pubs   []*keys.PublicKey
	signer map[util.Uint160]neotest.Signer // accounts we can sign for
}

func (w *world) aid(h util.Uint160) int {
	if id, ok := w.accID[h]; ok {
		return id
	}
	id := len(w.accs)
	w.accID[h] = id
	w.accs = append(w.accs, h)
	return id
}

// pid: the number of a public key on the op lines. The keys of a case are numbered so that the
// model can order them the way the code does: id/2 = rank of the X coordinate among the case's
// keys, id%2 = parity of Y (prefix byte 02/03 of the compressed form). With pairwise different X
// (checked in numberKeys) PublicKey.Cmp is < on the ids, and the byte order of the serialized keys
// (storage iteration order) is the order of (id%2, id/2).
func (w *world) pid(p *keys.PublicKey) int {
	k := string(p.Bytes())
	if id, ok := w.pubID[k]; ok {
		return id
	}
	panic("public key without id")
}

func (w *world) numberKeys(ks []*keys.PublicKey) {
	sorted := slices.Clone(ks)
	slices.SortFunc(sorted, func(a, b *keys.PublicKey) int { return a.X.Cmp(b.X) })
	for i, p := range sorted {
		if i > 0 && sorted[i-1].X.Cmp(p.X) == 0 {
			panic("two keys with the same X coordinate")
		}
		b := p.Bytes()
		w.pubID[string(b)] = 2*i + int(b[0]-2)
		w.pubs = append(w.pubs, p)
	}
}

// pubByID is the inverse of pid.
func (w *world) pubByID(id int) *keys.PublicKey {
	for _, p := range w.pubs {
		if w.pid(p) == id {
			return p
		}
	}
	return nil
}

func detKey(r *prng.R) *keys.PrivateKey {
	for {
		b := r.Bytes(32)
		k, err := keys.NewPrivateKeyFromBytes(b)
		if err == nil {
			return k
		}
	}
}

func multisigSigner(m int, ks []*keys.PrivateKey) neotest.Signer {
	pubs := make(keys.PublicKeys, len(ks))
	for i := range ks {
		pubs[i] = ks[i].PublicKey()
	}
	accs := make([]*wallet.Account, len(ks))
	for i := range ks {
		accs[i] = wallet.NewAccountFromPrivateKey(ks[i])
		if err := accs[i].ConvertMultisig(m, pubs.Copy()); err != nil {
			panic(err)
		}
	}
	return neotest.NewMultiSigner(accs...)
}

func newWorld(t *tb, r *prng.R, C, V, nUsers, nExtraCands int) *world {
	w := &world{t: t, r: r, C: C, V: V, accID: map[util.Uint160]int{}, pubID: map[string]int{}, signer: map[util.Uint160]neotest.Signer{},
		minted: new(big.Int), burned: new(big.Int)}
	for i := 0; i < C; i++ {
		w.standby = append(w.standby, detKey(r))
	}
	sb := make([]string, C)
	for i := range sb {
		sb[i] = w.standby[i].PublicKey().StringCompressed()
	}
	bc, _ := chain.NewSingleWithOptions(t, &chain.Options{
		Logger: zap.NewNop(),
		BlockchainConfigHook: func(c *config.Blockchain) {
			c.StandbyCommittee = sb
			c.ValidatorsCount = uint32(V)
			c.P2PSigExtensions = true
		},
	})
	w.bc = bc
	w.valSigner = multisigSigner(smartcontract.GetDefaultHonestNodeCount(V), w.standby[:V])
	committee := multisigSigner(smartcontract.GetMajorityHonestNodeCount(C), w.standby)
	w.e = neotest.NewExecutor(t, bc, w.valSigner, committee)
	w.e.DisableCoverage()
	w.neoH = w.e.NativeHash(t, nativenames.Neo)
	w.gasH = w.e.NativeHash(t, nativenames.Gas)
	w.notaryH = w.e.NativeHash(t, nativenames.Notary)
	w.treasuryH = w.e.NativeHash(t, nativenames.Treasury)
	w.policyH = w.e.NativeHash(t, nativenames.Policy)
	w.desigH = w.e.NativeHash(t, nativenames.Designation)
	w.mgmtH = w.e.NativeHash(t, nativenames.Management)

	// id 0 = the genesis holder; then the natives that can hold tokens.
	w.aid(w.valSigner.ScriptHash())
	w.signer[w.valSigner.ScriptHash()] = w.valSigner
	w.aid(w.notaryH)
	w.aid(w.treasuryH)
	w.aid(w.neoH)
	w.aid(w.gasH)
	w.cands = append(w.cands, w.standby...)
	for i := 0; i < nExtraCands; i++ {
		w.cands = append(w.cands, detKey(r))
	}
	w.aid(w.policyH)
	var allPubs []*keys.PublicKey
	for _, k := range w.cands {
		allPubs = append(allPubs, k.PublicKey())
	}
	w.numberKeys(allPubs)
	for _, k := range w.cands {
		acc := wallet.NewAccountFromPrivateKey(k)
		w.aid(acc.ScriptHash())
		w.signer[acc.ScriptHash()] = neotest.NewSingleSigner(acc)
	}
	for i := 0; i < nUsers; i++ {
		acc := wallet.NewAccountFromPrivateKey(detKey(r))
		w.users = append(w.users, acc)
		w.aid(acc.ScriptHash())
		w.signer[acc.ScriptHash()] = neotest.NewSingleSigner(acc)
	}
	for i, n := 0, 1+r.Intn(3); i < n; i++ {
		nk := detKey(r)
		w.notaryAll = append(w.notaryAll, nk)
	}
	// the helper contracts (deployed in setup; their hashes are known beforehand)
	for i := 0; i < 2; i++ {
		h := walletContract(w.valSigner.ScriptHash(), fmt.Sprintf("W%d", i)).Hash
		w.wallets = append(w.wallets, h)
		w.aid(h)
	}
	w.nopay = nopayContract(w.valSigner.ScriptHash(), "NoPay").Hash
	w.aid(w.nopay)
	slices.SortFunc(w.notaryAll, func(a, b *keys.PrivateKey) int { return a.PublicKey().Cmp(b.PublicKey()) })
	w.notaryKey = w.notaryAll[r.Intn(len(w.notaryAll))]
	for _, nk := range w.notaryAll {
		w.aid(nk.GetScriptHash())
	}
	return w
}

// initLine: the configuration of the case for the model.
func (w *world) initLine(attrFee int64, gasInit int64) string {
	var sb, ka, ms []string
	for _, k := range w.standby {
		sb = append(sb, fmt.Sprint(w.pid(k.PublicKey())))
	}
	for _, k := range w.cands {
		ka = append(ka, fmt.Sprintf("%d:%d", w.pid(k.PublicKey()), w.aid(k.GetScriptHash())))
	}
	// every majority multi-signature account of C keys of the case: the possible committee addresses
	var rec func(start int, cur []*keys.PrivateKey)
	rec = func(start int, cur []*keys.PrivateKey) {
		if len(cur) == w.C {
			pubs := make(keys.PublicKeys, len(cur))
			for i := range cur {
				pubs[i] = cur[i].PublicKey()
			}
			script, err := smartcontract.CreateMajorityMultiSigRedeemScript(pubs.Copy())
			if err != nil {
				panic(err)
			}
			ids := make([]int, len(pubs))
			for i := range pubs {
				ids[i] = w.pid(pubs[i])
			}
			slices.Sort(ids)
			e := fmt.Sprint(w.aid(hash.Hash160(script)))
			for _, id := range ids {
				e += fmt.Sprintf(":%d", id)
			}
			ms = append(ms, e)
			return
		}
		for i := start; i < len(w.cands); i++ {
			rec(i+1, append(slices.Clone(cur), w.cands[i]))
		}
	}
	rec(0, nil)
	// the contracts that can be paid and what their payment callback does: w = Wallet helper, x = no
	// onNEP17Payment, a = accepts every payment of a transfer (Treasury)
	var cts []string
	for _, h := range w.wallets {
		cts = append(cts, fmt.Sprintf("%d:w", w.aid(h)))
	}
	cts = append(cts, fmt.Sprintf("%d:x", w.aid(w.nopay)), fmt.Sprintf("%d:x", w.aid(w.gasH)), fmt.Sprintf("%d:a", w.aid(w.treasuryH)))
	return fmt.Sprintf("init %d %d %d %d %d %d %d %d %d %d %s %s %s %s %d", w.aid(w.notaryH), w.aid(w.neoH), w.aid(w.gasH), w.aid(w.policyH),
		w.C, w.V, attrFee, w.aid(w.treasuryH), w.aid(w.valSigner.ScriptHash()), gasInit,
		strings.Join(sb, ","), strings.Join(ka, ","), strings.Join(ms, ","), strings.Join(cts, ","), w.aid(w.desigH))
}

// committeeSigner builds the majority multisig signer of the CURRENT committee (all
// members are keys we own).
func (w *world) committeeSigner() neotest.Signer {
	pubs, err := w.bc.GetCommittee()
	if err != nil {
		panic(err)
	}
	ks := make([]*keys.PrivateKey, 0, len(pubs))
	for _, p := range pubs {
		var found *keys.PrivateKey
		for _, k := range w.cands {
			if k.PublicKey().Equal(p) {
				found = k
				break
			}
		}
		if found == nil {
			panic("committee member with unknown key")
		}
		ks = append(ks, found)
	}
	return multisigSigner(smartcontract.GetMajorityHonestNodeCount(len(ks)), ks)
}

// committeeSignerAt: the signer of the committee in office in the NEXT block: when that block starts an
// epoch it is the committee elected over the current state (electExpected), else the current one.
func (w *world) committeeSignerAt(st *absState) neotest.Signer {
	if (st.height+1)%uint32(w.C) != 0 {
		return w.committeeSigner()
	}
	var ks []*keys.PrivateKey
	for _, c := range w.electExpected(st) {
		for _, k := range w.cands {
			if k.PublicKey().Equal(c.pub) {
				ks = append(ks, k)
			}
		}
	}
	if len(ks) != w.C {
		panic("expected committee with unknown key")
	}
	return multisigSigner(smartcontract.GetMajorityHonestNodeCount(len(ks)), ks)
}

func (w *world) sortedBlocked(st *absState) []util.Uint160 {
	var hs []util.Uint160
	for h := range st.blocked {
		hs = append(hs, h)
	}
	slices.SortFunc(hs, func(a, b util.Uint160) int { return w.aid(a) - w.aid(b) })
	return hs
}

// newTx builds and signs a transaction with all signers Global.
func (w *world) newTx(script []byte, sysFee int64, signers ...neotest.Signer) *transaction.Transaction {
	tx := transaction.New(script, 0)
	w.nonce++
	tx.Nonce = w.nonce
	tx.ValidUntilBlock = w.bc.BlockHeight() + 1
	return w.e.SignTx(w.t, tx, sysFee, signers...)
}

// addBlock adds a block with the given primary index, signed by the fixed validators
// multisig (NextConsensus is never checked against the elected validators, only used as
// the address the next block's witness must satisfy).
func (w *world) addBlock(primary byte, txs ...*transaction.Transaction) (*block.Block, error) {
	b := w.e.NewUnsignedBlock(w.t, txs...)
	b.PrimaryIndex = primary
	w.e.SignBlock(b)
	return b, w.bc.AddBlock(b)
}

// addBlockSafe is addBlock with a panic of the real code turned into a value.
func (w *world) addBlockSafe(primary byte, txs ...*transaction.Transaction) (b *block.Block, err error, pnc any) {
	defer func() {
		if r := recover(); r != nil {
			if _, ok := r.(failNow); ok {
				panic(r)
			}
			pnc = r
		}
	}()
	b, err = w.addBlock(primary, txs...)
	return
}

func sortedHashes(m map[util.Uint160]*big.Int) []util.Uint160 {
	ks := make([]util.Uint160, 0, len(m))
	for k := range m {
		ks = append(ks, k)
	}
	slices.SortFunc(ks, func(a, b util.Uint160) int { return a.Compare(b) })
	return ks
}

var _ = fmt.Sprintf
