package main

import (
	"fmt"
	"math/big"
	"slices"
	"strings"

	"github.com/nspcc-dev/neo-go/pkg/config"
	"github.com/nspcc-dev/neo-go/pkg/core"
	"github.com/nspcc-dev/neo-go/pkg/core/block"
	"github.com/nspcc-dev/neo-go/pkg/core/native/nativenames"
	"github.com/nspcc-dev/neo-go/pkg/core/transaction"
	"github.com/nspcc-dev/neo-go/pkg/crypto/keys"
	"github.com/nspcc-dev/neo-go/pkg/neotest"
	"github.com/nspcc-dev/neo-go/pkg/neotest/chain"
	"github.com/nspcc-dev/neo-go/pkg/smartcontract"
	"github.com/nspcc-dev/neo-go/pkg/util"
	"github.com/nspcc-dev/neo-go/pkg/wallet"
	"go.uber.org/zap"

	"verif/harness/internal/prng"
)

// world is one neotest chain with keys we own entirely: the standby committee, the
// candidates, the users, helper contracts.
type world struct {
	t  *tb
	bc *core.Blockchain
	e  *neotest.Executor
	r  *prng.R

	C, V      int                // committee size, validators count
	standby   []*keys.PrivateKey // config order
	valSigner neotest.Signer     // default multisig of the first V standby keys: genesis holder + block signer
	users     []*wallet.Account  // plain single-signature accounts
	cands     []*keys.PrivateKey // keys that may be registered as candidates (standby first, then extra)
	notaryKey *keys.PrivateKey   // designated P2PNotary node that signs
	notaryAll []*keys.PrivateKey // all designated P2PNotary nodes (1-3), in the order Designate stores them

	neoH, gasH, notaryH, treasuryH, policyH, desigH, mgmtH util.Uint160
	wallets                                                []util.Uint160 // deployed Wallet contracts
	nopay                                                  util.Uint160   // deployed contract without onNEP17Payment

	nonce      uint32
	notaryFrom uint32 // first block index at which the designated notary node is effective
	lastFault  string

	// id registries (small deterministic ids used on the op lines)
	accID  map[util.Uint160]int
	accs   []util.Uint160
	pubID  map[string]int
	pubs   []*keys.PublicKey
	signer map[util.Uint160]neotest.Signer // accounts we can sign for
}

func (w *world) aid(h util.Uint160) int {
	if id, ok := w.accID[h]; ok {
		return id
	}
	id := len(w.accs)
	w.accID[h] = id
	w.accs = append(w.accs, h)
	return id
}

func (w *world) pid(p *keys.PublicKey) int {
	k := string(p.Bytes())
	if id, ok := w.pubID[k]; ok {
		return id
	}
	id := len(w.pubs)
	w.pubID[k] = id
	w.pubs = append(w.pubs, p)
	return id
}

func detKey(r *prng.R) *keys.PrivateKey {
	for {
		b := r.Bytes(32)
		k, err := keys.NewPrivateKeyFromBytes(b)
		if err == nil {
			return k
		}
	}
}

func multisigSigner(m int, ks []*keys.PrivateKey) neotest.Signer {
	pubs := make(keys.PublicKeys, len(ks))
	for i := range ks {
		pubs[i] = ks[i].PublicKey()
	}
	accs := make([]*wallet.Account, len(ks))
	for i := range ks {
		accs[i] = wallet.NewAccountFromPrivateKey(ks[i])
		if err := accs[i].ConvertMultisig(m, pubs.Copy()); err != nil {
			panic(err)
		}
	}
	return neotest.NewMultiSigner(accs...)
}

func newWorld(t *tb, r *prng.R, C, V, nUsers, nExtraCands int) *world {
	w := &world{t: t, r: r, C: C, V: V, accID: map[util.Uint160]int{}, pubID: map[string]int{}, signer: map[util.Uint160]neotest.Signer{}}
	for i := 0; i < C; i++ {
		w.standby = append(w.standby, detKey(r))
	}
	sb := make([]string, C)
	for i := range sb {
		sb[i] = w.standby[i].PublicKey().StringCompressed()
	}
	bc, _ := chain.NewSingleWithOptions(t, &chain.Options{
		Logger: zap.NewNop(),
		BlockchainConfigHook: func(c *config.Blockchain) {
			c.StandbyCommittee = sb
			c.ValidatorsCount = uint32(V)
			c.P2PSigExtensions = true
		},
	})
	w.bc = bc
	w.valSigner = multisigSigner(smartcontract.GetDefaultHonestNodeCount(V), w.standby[:V])
	committee := multisigSigner(smartcontract.GetMajorityHonestNodeCount(C), w.standby)
	w.e = neotest.NewExecutor(t, bc, w.valSigner, committee)
	w.e.DisableCoverage()
	w.neoH = w.e.NativeHash(t, nativenames.Neo)
	w.gasH = w.e.NativeHash(t, nativenames.Gas)
	w.notaryH = w.e.NativeHash(t, nativenames.Notary)
	w.treasuryH = w.e.NativeHash(t, nativenames.Treasury)
	w.policyH = w.e.NativeHash(t, nativenames.Policy)
	w.desigH = w.e.NativeHash(t, nativenames.Designation)
	w.mgmtH = w.e.NativeHash(t, nativenames.Management)

	// id 0 = the genesis holder; then the natives that can hold tokens.
	w.aid(w.valSigner.ScriptHash())
	w.signer[w.valSigner.ScriptHash()] = w.valSigner
	w.aid(w.notaryH)
	w.aid(w.treasuryH)
	w.aid(w.neoH)
	w.aid(w.gasH)
	w.cands = append(w.cands, w.standby...)
	for i := 0; i < nExtraCands; i++ {
		w.cands = append(w.cands, detKey(r))
	}
	for _, k := range w.cands {
		w.pid(k.PublicKey())
		acc := wallet.NewAccountFromPrivateKey(k)
		w.aid(acc.ScriptHash())
		w.signer[acc.ScriptHash()] = neotest.NewSingleSigner(acc)
	}
	for i := 0; i < nUsers; i++ {
		acc := wallet.NewAccountFromPrivateKey(detKey(r))
		w.users = append(w.users, acc)
		w.aid(acc.ScriptHash())
		w.signer[acc.ScriptHash()] = neotest.NewSingleSigner(acc)
	}
	for i, n := 0, 1+r.Intn(3); i < n; i++ {
		nk := detKey(r)
		w.notaryAll = append(w.notaryAll, nk)
	}
	slices.SortFunc(w.notaryAll, func(a, b *keys.PrivateKey) int { return a.PublicKey().Cmp(b.PublicKey()) })
	w.notaryKey = w.notaryAll[r.Intn(len(w.notaryAll))]
	for _, nk := range w.notaryAll {
		w.aid(nk.GetScriptHash())
	}
	return w
}

// committeeSigner builds the majority multisig signer of the CURRENT committee (all
// members are keys we own).
func (w *world) committeeSigner() neotest.Signer {
	pubs, err := w.bc.GetCommittee()
	if err != nil {
		panic(err)
	}
	ks := make([]*keys.PrivateKey, 0, len(pubs))
	for _, p := range pubs {
		var found *keys.PrivateKey
		for _, k := range w.cands {
			if k.PublicKey().Equal(p) {
				found = k
				break
			}
		}
		if found == nil {
			panic("committee member with unknown key")
		}
		ks = append(ks, found)
	}
	return multisigSigner(smartcontract.GetMajorityHonestNodeCount(len(ks)), ks)
}

// newTx builds and signs a transaction with all signers Global.
func (w *world) newTx(script []byte, sysFee int64, signers ...neotest.Signer) *transaction.Transaction {
	tx := transaction.New(script, 0)
	w.nonce++
	tx.Nonce = w.nonce
	tx.ValidUntilBlock = w.bc.BlockHeight() + 1
	return w.e.SignTx(w.t, tx, sysFee, signers...)
}

// addBlock adds a block with the given primary index, signed by the fixed validators
// multisig (NextConsensus is never checked against the elected validators, only used as
// the address the next block's witness must satisfy).
func (w *world) addBlock(primary byte, txs ...*transaction.Transaction) (*block.Block, error) {
	b := w.e.NewUnsignedBlock(w.t, txs...)
	b.PrimaryIndex = primary
	w.e.SignBlock(b)
	return b, w.bc.AddBlock(b)
}

// notariesAt: the designated notary nodes' accounts as Notary.OnPersist of block idx sees them.
func (w *world) notariesAt(idx uint32) string {
	if w.notaryFrom != 0 && idx >= w.notaryFrom {
		var ids []string
		for _, nk := range w.notaryAll {
			ids = append(ids, fmt.Sprint(w.aid(nk.GetScriptHash())))
		}
		return strings.Join(ids, ",")
	}
	return "-"
}

// addBlockSafe is addBlock with a panic of the real code turned into a value.
func (w *world) addBlockSafe(primary byte, txs ...*transaction.Transaction) (b *block.Block, err error, pnc any) {
	defer func() {
		if r := recover(); r != nil {
			if _, ok := r.(failNow); ok {
				panic(r)
			}
			pnc = r
		}
	}()
	b, err = w.addBlock(primary, txs...)
	return
}

func sortedHashes(m map[util.Uint160]*big.Int) []util.Uint160 {
	ks := make([]util.Uint160, 0, len(m))
	for k := range m {
		ks = append(ks, k)
	}
	slices.SortFunc(ks, func(a, b util.Uint160) int { return a.Compare(b) })
	return ks
}

var _ = fmt.Sprintf
