package main

import (
	"fmt"
	"go/ast"
	"go/parser"
	"go/token"
	"path/filepath"
	"strconv"
	"strings"

	"github.com/nspcc-dev/neo-go/pkg/crypto/keys"
	"github.com/nspcc-dev/neo-go/pkg/smartcontract"
	"github.com/nspcc-dev/neo-go/pkg/smartcontract/manifest"
	"github.com/nspcc-dev/neo-go/pkg/util"
	"github.com/nspcc-dev/neo-go/pkg/vm/stackitem"
)

// WireManifest (C17): the literal facts of the stack-item form of a manifest / deployed contract:
// the set of parameter types ConvertToParamType accepts, the number of fields every FromStackItem
// insists on, the byte lengths PermissionDesc.FromStackItem switches on, the range conversions
// Contract.FromStackItem applies to ID and UpdateCounter, and the JSON item limits.
func init() { register("WireManifest", genWireManifest) }

func wmParse(repo, file string) (*ast.File, error) {
	full := filepath.Join(repo, file)
	var src any
	if ov := overlayFromEnv(); ov != nil {
		if c, ok := ov[full]; ok {
			src = c
		}
	}
	return parser.ParseFile(token.NewFileSet(), full, src, 0)
}

// wmMethod finds the method `name` with receiver type `recv` (pointer or value).
func wmMethod(f *ast.File, recv, name string) *ast.FuncDecl {
	for _, d := range f.Decls {
		fd, ok := d.(*ast.FuncDecl)
		if !ok || fd.Name.Name != name || fd.Recv == nil || len(fd.Recv.List) != 1 {
			continue
		}
		t := fd.Recv.List[0].Type
		if st, ok := t.(*ast.StarExpr); ok {
			t = st.X
		}
		if id, ok := t.(*ast.Ident); ok && id.Name == recv {
			return fd
		}
	}
	return nil
}

// wmLenNeq returns N of the first comparison `len(x) != N` in the body.
func wmLenNeq(fd *ast.FuncDecl) (int64, error) {
	var res int64 = -1
	ast.Inspect(fd.Body, func(n ast.Node) bool {
		if res >= 0 {
			return false
		}
		be, ok := n.(*ast.BinaryExpr)
		if !ok || be.Op != token.NEQ {
			return true
		}
		ce, ok := be.X.(*ast.CallExpr)
		if !ok {
			return true
		}
		if id, ok := ce.Fun.(*ast.Ident); !ok || id.Name != "len" {
			return true
		}
		if lit, ok := be.Y.(*ast.BasicLit); ok && lit.Kind == token.INT {
			if v, err := strconv.ParseInt(lit.Value, 0, 64); err == nil {
				res = v
			}
		}
		return true
	})
	if res < 0 {
		return 0, fmt.Errorf("no `len(x) != N` in %s", fd.Name.Name)
	}
	return res, nil
}

func genWireManifest(repo string) (string, error) {
	var b strings.Builder
	b.WriteString("namespace NeoModel.Generated.WireManifest\n")
	def := func(name string, v int64) { fmt.Fprintf(&b, "def %s : Nat := %d\n", name, v) }

	// parameter types: the set ConvertToParamType accepts (probed on the linked package)
	var pts []string
	for v := -4096; v <= 4096; v++ {
		if pt, err := smartcontract.ConvertToParamType(v); err == nil {
			if int(pt) != v {
				return "", fmt.Errorf("ConvertToParamType(%d) = %d", v, int(pt))
			}
			pts = append(pts, strconv.Itoa(v))
		}
	}
	fmt.Fprintf(&b, "def validParamTypes : List Int := [%s]\n", strings.Join(pts, ", "))

	def("signatureLen", keys.SignatureLen)
	def("uint160Size", util.Uint160Size)
	def("maxManifestSize", manifest.MaxManifestSize)
	def("maxAllowedInteger", stackitem.MaxAllowedInteger)
	def("maxJSONDepth", stackitem.MaxJSONDepth)
	def("maxIntegerPrec", stackitem.MaxIntegerPrec)
	def("compatIntegerPrec", stackitem.CompatIntegerPrec)

	// field counts of every FromStackItem
	for _, e := range []struct{ lean, file, recv string }{
		{"manifestFields", "pkg/smartcontract/manifest/manifest.go", "Manifest"},
		{"abiFields", "pkg/smartcontract/manifest/abi.go", "ABI"},
		{"methodFields", "pkg/smartcontract/manifest/method.go", "Method"},
		{"eventFields", "pkg/smartcontract/manifest/event.go", "Event"},
		{"parameterFields", "pkg/smartcontract/manifest/parameter.go", "Parameter"},
		{"permissionFields", "pkg/smartcontract/manifest/permission.go", "Permission"},
		{"groupFields", "pkg/smartcontract/manifest/group.go", "Group"},
		{"contractFields", "pkg/core/state/contract.go", "Contract"},
	} {
		f, err := wmParse(repo, e.file)
		if err != nil {
			return "", err
		}
		fd := wmMethod(f, e.recv, "FromStackItem")
		if fd == nil {
			return "", fmt.Errorf("%s: no (%s).FromStackItem", e.file, e.recv)
		}
		n, err := wmLenNeq(fd)
		if err != nil {
			return "", fmt.Errorf("%s: %w", e.file, err)
		}
		def(e.lean, n)
	}

	// PermissionDesc.FromStackItem: `switch len(byteArr) { case util.Uint160Size: … case 33: … }`
	f, err := wmParse(repo, "pkg/smartcontract/manifest/permission.go")
	if err != nil {
		return "", err
	}
	fd := wmMethod(f, "PermissionDesc", "FromStackItem")
	if fd == nil {
		return "", fmt.Errorf("no (PermissionDesc).FromStackItem")
	}
	var cases []string
	ast.Inspect(fd.Body, func(n ast.Node) bool {
		sw, ok := n.(*ast.SwitchStmt)
		if !ok {
			return true
		}
		ce, ok := sw.Tag.(*ast.CallExpr)
		if !ok {
			return true
		}
		if id, ok := ce.Fun.(*ast.Ident); !ok || id.Name != "len" {
			return true
		}
		for _, st := range sw.Body.List {
			cc := st.(*ast.CaseClause)
			for _, e := range cc.List {
				switch t := e.(type) {
				case *ast.BasicLit:
					cases = append(cases, t.Value)
				case *ast.SelectorExpr:
					if wlExprText(t) == "util.Uint160Size" {
						cases = append(cases, strconv.Itoa(util.Uint160Size))
					} else {
						cases = append(cases, "0")
					}
				default:
					cases = append(cases, "0")
				}
			}
		}
		return false
	})
	fmt.Fprintf(&b, "def permDescLens : List Nat := [%s]\n", strings.Join(cases, ", "))

	// Contract.FromStackItem: the checked conversions applied to arr[0] (ID) and arr[1] (UpdateCounter)
	f, err = wmParse(repo, "pkg/core/state/contract.go")
	if err != nil {
		return "", err
	}
	fd = wmMethod(f, "Contract", "FromStackItem")
	if fd == nil {
		return "", fmt.Errorf("no (Contract).FromStackItem")
	}
	conv := map[string]string{}
	ast.Inspect(fd.Body, func(n ast.Node) bool {
		ce, ok := n.(*ast.CallExpr)
		if !ok || len(ce.Args) != 1 {
			return true
		}
		se, ok := ce.Fun.(*ast.SelectorExpr)
		if !ok || !strings.HasPrefix(se.Sel.Name, "To") {
			return true
		}
		if ix, ok := ce.Args[0].(*ast.IndexExpr); ok {
			conv[wlExprText(ix.X)+"["+wlExprText(ix.Index)+"]"] = se.Sel.Name
		}
		return true
	})
	ranges := map[string][2]string{
		"ToInt32":  {"-2147483648", "2147483647"},
		"ToUint16": {"0", "65535"},
		"ToUint8":  {"0", "255"},
		"ToUint32": {"0", "4294967295"},
		"ToInt64":  {"-9223372036854775808", "9223372036854775807"},
	}
	for _, e := range []struct{ lean, arg string }{{"contractId", "arr[0]"}, {"contractUpdateCounter", "arr[1]"}} {
		r, ok := ranges[conv[e.arg]]
		if !ok {
			return "", fmt.Errorf("Contract.FromStackItem: conversion of %s is %q", e.arg, conv[e.arg])
		}
		fmt.Fprintf(&b, "def %sLo : Int := %s\ndef %sHi : Int := %s\n", e.lean, r[0], e.lean, r[1])
	}
	b.WriteString("end NeoModel.Generated.WireManifest\n")
	return b.String(), nil
}
