package main

import (
	"fmt"
	"strings"

	"github.com/nspcc-dev/neo-go/pkg/io"
)

// Limits: constants of pkg/io used by the wire models.
func init() { register("IoLimits", genIoLimits) }

func genIoLimits(repo string) (string, error) {
	var b strings.Builder
	b.WriteString("namespace NeoModel.Generated.IoLimits\n")
	fmt.Fprintf(&b, "def maxArraySize : Nat := %d\n", io.MaxArraySize)
	b.WriteString("end NeoModel.Generated.IoLimits\n")
	return b.String(), nil
}
