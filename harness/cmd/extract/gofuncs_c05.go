// C05: functions the token / governance model mirrors, for the Go->Lean translator of gofuncs.go (appended to
// its spec list; NEO.setRegisterPrice and NEO.SetGASPerBlock are in the base list already). The theorems
// `generated = model` are in lean/NeoModel/Proofs/GoFuncs/C05.lean.
// Tried, outside the subset today: calculateNotaryReward (result *big.Int), Notary.lockDepositUntil / onPayment /
// Policy.unblockAccount (result stackitem.Item), Notary.withdrawDeferrable (composite literal), NEO.ModifyAccountVotes /
// RegisterCandidateInternal / UnregisterCandidateInternal / CalculateNEOHolderReward (type assertion on the cache),
// runtime.CheckHashedWitness (return of a call with two results).
package main

func init() {
	gfSpecs = append(gfSpecs,
		gfSpec{Pkg: "./pkg/config", Recv: "ProtocolConfiguration", Func: "ShouldUpdateCommitteeAt", Lean: "shouldUpdateCommitteeAt"},
		gfSpec{Pkg: "./pkg/core/native", Recv: "NEO", Func: "distributeGas", Lean: "neoDistributeGas"},
		gfSpec{Pkg: "./pkg/core/native", Recv: "NEO", Func: "calculateBonus", Lean: "neoCalculateBonus"},
		gfSpec{Pkg: "./pkg/core/native", Recv: "NEO", Func: "dropCandidateIfZero", Lean: "neoDropCandidateIfZero"},
		gfSpec{Pkg: "./pkg/core/native", Recv: "nep17TokenNative", Func: "transferDeferrable", Lean: "nep17Transfer"},
		gfSpec{Pkg: "./pkg/core/native", Recv: "GAS", Func: "increaseBalance", Lean: "gasIncreaseBalance"},
		gfSpec{Pkg: "./pkg/config", Recv: "ProtocolConfiguration", Func: "GetCommitteeSize", Lean: "cfgGetCommitteeSize"},
		gfSpec{Pkg: "./pkg/config", Recv: "ProtocolConfiguration", Func: "GetNumOfCNs", Lean: "cfgGetNumOfCNs"},
	)
}
