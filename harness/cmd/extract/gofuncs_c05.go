// C05: a function the token / governance model mirrors, for the Go->Lean translator of gofuncs.go (appended to
// its spec list; NEO.setRegisterPrice and NEO.SetGASPerBlock are in the base list already). The theorems
// `generated = model` are in lean/NeoModel/Proofs/GoFuncs/C05.lean.
package main

func init() {
	gfSpecs = append(gfSpecs,
		gfSpec{Pkg: "./pkg/config", Recv: "ProtocolConfiguration", Func: "ShouldUpdateCommitteeAt", Lean: "shouldUpdateCommitteeAt"},
	)
}
