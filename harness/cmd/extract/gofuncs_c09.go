// C09: functions of the storage layer for the Go->Lean translator of gofuncs.go (appended to its spec
// list; a function outside the supported subset is reported as NOT TRANSLATED and only breaks the
// theorems that mention it).
package main

func init() {
	gfSpecs = append(gfSpecs,
		gfSpec{Pkg: "./pkg/core/statesync", Func: "TemporaryPrefix", Lean: "temporaryPrefix"},
		gfSpec{Pkg: "./pkg/core/storage", Recv: "MemoryStore", Func: "Get", Lean: "memoryStoreGet"},
	)
}
