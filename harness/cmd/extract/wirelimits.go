package main

import (
	"fmt"
	"go/ast"
	"go/parser"
	"go/token"
	"path/filepath"
	"strconv"
	"strings"
	"unsafe"

	"github.com/nspcc-dev/neo-go/pkg/config/limits"
	"github.com/nspcc-dev/neo-go/pkg/core/block"
	"github.com/nspcc-dev/neo-go/pkg/core/mpt"
	"github.com/nspcc-dev/neo-go/pkg/core/state"
	"github.com/nspcc-dev/neo-go/pkg/core/transaction"
	"github.com/nspcc-dev/neo-go/pkg/crypto/keys"
	"github.com/nspcc-dev/neo-go/pkg/encoding/bigint"
	"github.com/nspcc-dev/neo-go/pkg/io"
	"github.com/nspcc-dev/neo-go/pkg/network/capability"
	"github.com/nspcc-dev/neo-go/pkg/network/payload"
	"github.com/nspcc-dev/neo-go/pkg/smartcontract/callflag"
	"github.com/nspcc-dev/neo-go/pkg/smartcontract/nef"
	"github.com/nspcc-dev/neo-go/pkg/util"
	"github.com/nspcc-dev/neo-go/pkg/vm/stackitem"
)

// WireLimits: every cap a decoder compares a count with (C17), plus the in-memory sizes of the slice
// elements the decoders allocate (used by the allocation bound of the model).
// Exported constants are read from the linked packages; unexported ones are evaluated from the source.
func init() { register("WireLimits", genWireLimits) }

// known exported constants an unexported constant expression may mention.
var wireKnown = map[string]int64{
	"limits.MaxStorageKeyLen":   limits.MaxStorageKeyLen,
	"limits.MaxStorageValueLen": limits.MaxStorageValueLen,
	"math.MaxUint16":            65535,
	"math.MaxUint8":             255,
}

func wlEvalConst(e ast.Expr, local map[string]ast.Expr) (int64, error) {
	switch t := e.(type) {
	case *ast.BasicLit:
		if t.Kind != token.INT {
			return 0, fmt.Errorf("not an integer literal: %s", t.Value)
		}
		return strconv.ParseInt(t.Value, 0, 64)
	case *ast.ParenExpr:
		return wlEvalConst(t.X, local)
	case *ast.Ident:
		if x, ok := local[t.Name]; ok {
			return wlEvalConst(x, local)
		}
		return 0, fmt.Errorf("unknown identifier %s", t.Name)
	case *ast.SelectorExpr:
		if p, ok := t.X.(*ast.Ident); ok {
			if v, ok := wireKnown[p.Name+"."+t.Sel.Name]; ok {
				return v, nil
			}
			return 0, fmt.Errorf("unknown constant %s.%s", p.Name, t.Sel.Name)
		}
	case *ast.BinaryExpr:
		a, err := wlEvalConst(t.X, local)
		if err != nil {
			return 0, err
		}
		b, err := wlEvalConst(t.Y, local)
		if err != nil {
			return 0, err
		}
		switch t.Op {
		case token.ADD:
			return a + b, nil
		case token.SUB:
			return a - b, nil
		case token.MUL:
			return a * b, nil
		case token.QUO:
			if b == 0 {
				return 0, fmt.Errorf("division by zero")
			}
			return a / b, nil
		case token.SHL:
			return a << uint(b), nil
		}
	}
	return 0, fmt.Errorf("unsupported constant expression %T", e)
}

// wlSrcConst evaluates the package-level constant `name` declared in one of the files of dir.
func wlSrcConst(repo, dir, name string) (int64, error) {
	fset := token.NewFileSet()
	matches, err := filepath.Glob(filepath.Join(repo, dir, "*.go"))
	if err != nil {
		return 0, err
	}
	local := map[string]ast.Expr{}
	for _, fn := range matches {
		if strings.HasSuffix(fn, "_test.go") {
			continue
		}
		f, err := parser.ParseFile(fset, fn, nil, 0)
		if err != nil {
			return 0, err
		}
		for _, d := range f.Decls {
			gd, ok := d.(*ast.GenDecl)
			if !ok || gd.Tok != token.CONST {
				continue
			}
			for _, sp := range gd.Specs {
				vs := sp.(*ast.ValueSpec)
				for i, n := range vs.Names {
					if i < len(vs.Values) {
						local[n.Name] = vs.Values[i]
					}
				}
			}
		}
	}
	e, ok := local[name]
	if !ok {
		return 0, fmt.Errorf("constant %s not found in %s", name, dir)
	}
	return wlEvalConst(e, local)
}

// capArg returns the source text of the cap argument of the first `ReadArray(&<field>` / `ReadVarBytes(` /
// `ReadString(` call on the line containing `marker` in file (empty string = default cap io.MaxArraySize).
func wlCapArgs(repo, file string) (map[string]string, error) {
	fset := token.NewFileSet()
	f, err := parser.ParseFile(fset, filepath.Join(repo, file), nil, 0)
	if err != nil {
		return nil, err
	}
	res := map[string]string{}
	ast.Inspect(f, func(n ast.Node) bool {
		ce, ok := n.(*ast.CallExpr)
		if !ok {
			return true
		}
		se, ok := ce.Fun.(*ast.SelectorExpr)
		if !ok {
			return true
		}
		switch se.Sel.Name {
		case "ReadArray":
			if len(ce.Args) == 0 {
				return true
			}
			key := "ReadArray:" + wlExprText(ce.Args[0])
			if len(ce.Args) > 1 {
				res[key] = wlExprText(ce.Args[1])
			} else {
				res[key] = ""
			}
		}
		return true
	})
	return res, nil
}

func wlExprText(e ast.Expr) string {
	switch t := e.(type) {
	case *ast.Ident:
		return t.Name
	case *ast.SelectorExpr:
		return wlExprText(t.X) + "." + t.Sel.Name
	case *ast.UnaryExpr:
		return t.Op.String() + wlExprText(t.X)
	case *ast.BasicLit:
		return t.Value
	case *ast.BinaryExpr:
		return wlExprText(t.X) + t.Op.String() + wlExprText(t.Y)
	case *ast.ParenExpr:
		return "(" + wlExprText(t.X) + ")"
	}
	return fmt.Sprintf("%T", e)
}

func genWireLimits(repo string) (string, error) {
	var b strings.Builder
	b.WriteString("namespace NeoModel.Generated.WireLimits\n")
	def := func(name string, v int64) { fmt.Fprintf(&b, "def %s : Nat := %d\n", name, v) }

	// pkg/io
	def("maxArraySize", io.MaxArraySize)
	// transaction
	def("maxScriptLength", transaction.MaxScriptLength)
	def("maxTransactionSize", transaction.MaxTransactionSize)
	def("maxAttributes", transaction.MaxAttributes)
	def("maxConditionNesting", transaction.MaxConditionNesting)
	def("maxInvocationScript", transaction.MaxInvocationScript)
	def("maxVerificationScript", transaction.MaxVerificationScript)
	def("maxOracleResultSize", transaction.MaxOracleResultSize)
	def("reservedLowerBound", transaction.ReservedLowerBound)
	def("reservedUpperBound", transaction.ReservedUpperBound)
	v, err := wlSrcConst(repo, "pkg/core/transaction", "maxSubitems")
	if err != nil {
		return "", err
	}
	def("maxSubitems", v)
	def("scopeCalledByEntry", int64(transaction.CalledByEntry))
	def("scopeCustomContracts", int64(transaction.CustomContracts))
	def("scopeCustomGroups", int64(transaction.CustomGroups))
	def("scopeRules", int64(transaction.Rules))
	def("scopeGlobal", int64(transaction.Global))
	def("attrHighPriority", int64(transaction.HighPriority))
	def("attrOracleResponse", int64(transaction.OracleResponseT))
	def("attrNotValidBefore", int64(transaction.NotValidBeforeT))
	def("attrConflicts", int64(transaction.ConflictsT))
	def("attrNotaryAssisted", int64(transaction.NotaryAssistedT))
	def("condBoolean", int64(transaction.WitnessBoolean))
	def("condNot", int64(transaction.WitnessNot))
	def("condAnd", int64(transaction.WitnessAnd))
	def("condOr", int64(transaction.WitnessOr))
	def("condScriptHash", int64(transaction.WitnessScriptHash))
	def("condGroup", int64(transaction.WitnessGroup))
	def("condCalledByEntry", int64(transaction.WitnessCalledByEntry))
	def("condCalledByContract", int64(transaction.WitnessCalledByContract))
	def("condCalledByGroup", int64(transaction.WitnessCalledByGroup))
	// the oracle response codes OracleResponseCode.IsValid accepts
	{
		var codes []string
		for c := 0; c < 256; c++ {
			if transaction.OracleResponseCode(c).IsValid() {
				codes = append(codes, strconv.Itoa(c))
			}
		}
		fmt.Fprintf(&b, "def oracleCodes : List Nat := [%s]\n", strings.Join(codes, ", "))
	}
	// block
	def("maxTransactionsPerBlock", block.MaxTransactionsPerBlock)
	// stack items
	def("stackMaxSize", stackitem.MaxSize)
	def("stackMaxDeserialized", stackitem.MaxDeserialized)
	def("stackMaxSerialized", stackitem.MaxSerialized)
	def("stackMaxKeySize", stackitem.MaxKeySize)
	def("bigintMaxBytesLen", bigint.MaxBytesLen)
	def("itemAnyT", int64(stackitem.AnyT))
	def("itemPointerT", int64(stackitem.PointerT))
	def("itemBooleanT", int64(stackitem.BooleanT))
	def("itemIntegerT", int64(stackitem.IntegerT))
	def("itemByteArrayT", int64(stackitem.ByteArrayT))
	def("itemBufferT", int64(stackitem.BufferT))
	def("itemArrayT", int64(stackitem.ArrayT))
	def("itemStructT", int64(stackitem.StructT))
	def("itemMapT", int64(stackitem.MapT))
	def("itemInteropT", int64(stackitem.InteropT))
	def("itemInvalidT", int64(stackitem.InvalidT))
	def("mptBranchT", int64(mpt.BranchT))
	def("mptExtensionT", int64(mpt.ExtensionT))
	def("mptLeafT", int64(mpt.LeafT))
	def("mptHashT", int64(mpt.HashT))
	def("mptEmptyT", int64(mpt.EmptyT))
	// MPT
	v, err = wlSrcConst(repo, "pkg/core/mpt", "maxPathLength")
	if err != nil {
		return "", err
	}
	def("mptMaxPathLength", v)
	def("mptMaxKeyLength", mpt.MaxKeyLength)
	def("mptMaxValueLength", mpt.MaxValueLength)
	v, err = wlSrcConst(repo, "pkg/core/mpt", "childrenCount")
	if err != nil {
		return "", err
	}
	def("mptChildrenCount", v)
	// payloads
	def("payloadMaxSize", payload.MaxSize)
	v, err = wlSrcConst(repo, "pkg/network/payload", "maxExtensibleCategorySize")
	if err != nil {
		return "", err
	}
	def("maxExtensibleCategorySize", v)
	def("maxHeadersAllowed", payload.MaxHeadersAllowed)
	def("maxHashesCount", payload.MaxHashesCount)
	def("maxMPTHashesCount", payload.MaxMPTHashesCount)
	def("maxAddrsCount", payload.MaxAddrsCount)
	def("maxUserAgentLength", payload.MaxUserAgentLength)
	def("maxCapabilities", capability.MaxCapabilities)
	// NEF
	def("nefMaxSourceURLLength", nef.MaxSourceURLLength)
	v, err = wlSrcConst(repo, "pkg/smartcontract/nef", "compilerFieldSize")
	if err != nil {
		return "", err
	}
	def("nefCompilerFieldSize", v)
	v, err = wlSrcConst(repo, "pkg/smartcontract/nef", "maxMethodLength")
	if err != nil {
		return "", err
	}
	def("nefMaxMethodLength", v)
	// the cap argument of nef.File's token array (absent = io.MaxArraySize)
	ca, err := wlCapArgs(repo, "pkg/smartcontract/nef/nef.go")
	if err != nil {
		return "", err
	}
	tokCap := int64(io.MaxArraySize)
	if s, ok := ca["ReadArray:&n.Tokens"]; ok && s != "" {
		if n, err := strconv.ParseInt(s, 0, 64); err == nil {
			tokCap = n
		} else if n, err := wlSrcConst(repo, "pkg/smartcontract/nef", s); err == nil {
			tokCap = n
		} else {
			return "", fmt.Errorf("cannot evaluate the NEF token cap %q", s)
		}
	}
	def("nefMaxTokens", tokCap)
	def("nefMagic", int64(nef.Magic))
	def("callFlagAll", int64(callflag.All))

	// in-memory element sizes of the slices the decoders make (bytes per slot)
	def("slotSigner", int64(unsafe.Sizeof(transaction.Signer{})))
	def("slotAttribute", int64(unsafe.Sizeof(transaction.Attribute{})))
	def("slotWitness", int64(unsafe.Sizeof(transaction.Witness{})))
	def("slotWitnessRule", int64(unsafe.Sizeof(transaction.WitnessRule{})))
	def("slotCondition", int64(unsafe.Sizeof(transaction.WitnessCondition(nil))))
	def("slotUint160", int64(unsafe.Sizeof(util.Uint160{})))
	def("slotUint256", int64(unsafe.Sizeof(util.Uint256{})))
	def("slotPublicKeyPtr", int64(unsafe.Sizeof((*keys.PublicKey)(nil))+unsafe.Sizeof(keys.PublicKey{})))
	def("slotTransactionPtr", int64(unsafe.Sizeof((*transaction.Transaction)(nil))+unsafe.Sizeof(transaction.Transaction{})))
	def("slotStackItem", int64(unsafe.Sizeof(stackitem.Item(nil))))
	def("slotMapElement", int64(unsafe.Sizeof(stackitem.MapElement{})))
	def("slotNotificationEvent", int64(unsafe.Sizeof(state.NotificationEvent{})))
	def("slotMethodToken", int64(unsafe.Sizeof(nef.MethodToken{})))
	def("slotContractInvocation", int64(unsafe.Sizeof(state.ContractInvocation{})))
	def("slotCapability", int64(unsafe.Sizeof(capability.Capability{})))
	def("slotAddressAndTimePtr", int64(unsafe.Sizeof((*payload.AddressAndTime)(nil))+unsafe.Sizeof(payload.AddressAndTime{})))
	def("slotHeaderPtr", int64(unsafe.Sizeof((*block.Header)(nil))+unsafe.Sizeof(block.Header{})))
	def("slotBytes", int64(unsafe.Sizeof([]byte(nil))))
	def("slotCompactPtr", 8+64) // *changeViewCompact / *commitCompact / *preparationCompact (unexported; upper bound)
	def("maxUint8", 255)
	def("capTCPServer", int64(capability.TCPServer))
	def("capWSServer", int64(capability.WSServer))
	def("capDisableCompression", int64(capability.DisableCompressionNode))
	def("capFullNode", int64(capability.FullNode))
	def("capArchivalNode", int64(capability.ArchivalNode))
	def("invTX", int64(payload.TXType))
	def("compressionMinSize", 1024)
	b.WriteString("end NeoModel.Generated.WireLimits\n")
	return b.String(), nil
}
