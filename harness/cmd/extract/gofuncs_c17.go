package main

// gofuncs_c17.go — loop-free decision functions of the wire formats (C17) translated on every run; the equalities
// with the hand-written model are proved in lean/NeoModel/Proofs/GoFuncs/C17Wire.lean.
func init() {
	gfSpecs = append(gfSpecs,
		gfSpec{Pkg: "./pkg/vm/stackitem", Func: "CheckIntegerSize", Lean: "wireCheckIntegerSize"},
	)
}
