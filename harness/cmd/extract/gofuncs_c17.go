package main

// gofuncs_c17.go — loop-free decision functions of the wire formats (C17) translated on every run; the equalities
// with the hand-written model are proved in lean/NeoModel/Proofs/GoFuncs/C17Wire.lean.
func init() {
	gfSpecs = append(gfSpecs,
		gfSpec{Pkg: "./pkg/vm/stackitem", Func: "CheckIntegerSize", Lean: "wireCheckIntegerSize"},
		gfSpec{Pkg: "./pkg/core/transaction", Func: "ScopesFromByte", Lean: "wireScopesFromByte"},
		gfSpec{Pkg: "./pkg/core/transaction", Recv: "Signer", Func: "DecodeBinary", Lean: "wireSignerDecodeBinary"},
		gfSpec{Pkg: "./pkg/vm/stackitem", Func: "ToInt32", Lean: "wireToInt32"},
		gfSpec{Pkg: "./pkg/vm/stackitem", Func: "ToUint16", Lean: "wireToUint16"},
		gfSpec{Pkg: "./pkg/io", Func: "PutVarUint", Lean: "wirePutVarUint"},
		gfSpec{Pkg: "./pkg/core/transaction", Recv: "Transaction", Func: "DecodeBinary", Lean: "wireTxDecodeBinary"},
		gfSpec{Pkg: "./pkg/core/transaction", Recv: "Transaction", Func: "Size", Lean: "wireTxSize"},
		gfSpec{Pkg: "./pkg/core/transaction", Func: "NewTransactionFromBytes", Lean: "wireNewTransactionFromBytes"},
		gfSpec{Pkg: "./pkg/core/transaction", Recv: "OracleResponse", Func: "DecodeBinary", Lean: "wireOracleResponseDecodeBinary"},
		gfSpec{Pkg: "./pkg/core/block", Recv: "Header", Func: "DecodeBinary", Lean: "wireHeaderDecodeBinary"},
		gfSpec{Pkg: "./pkg/network/payload", Recv: "GetBlockByIndex", Func: "DecodeBinary", Lean: "wireGetBlockByIndexDecodeBinary"},
		gfSpec{Pkg: "./pkg/network/payload", Recv: "GetBlocks", Func: "DecodeBinary", Lean: "wireGetBlocksDecodeBinary"},
		gfSpec{Pkg: "./pkg/smartcontract/nef", Recv: "MethodToken", Func: "DecodeBinary", Lean: "wireMethodTokenDecodeBinary"},
		gfSpec{Pkg: "./pkg/smartcontract/nef", Recv: "File", Func: "bytes", Lean: "wireNefFileBytes"},
		gfSpec{Pkg: "./pkg/vm/stackitem", Recv: "ByteArray", Func: "TryInteger", Lean: "wireByteArrayTryInteger"},
	)
}
