package main

import (
	"encoding/binary"
	"fmt"
	"go/ast"
	"go/parser"
	"go/token"
	"path/filepath"
	"strconv"
	"strings"

	"github.com/nspcc-dev/neo-go/pkg/core/block"
	"github.com/nspcc-dev/neo-go/pkg/core/fee"
	"github.com/nspcc-dev/neo-go/pkg/core/interop"
	"github.com/nspcc-dev/neo-go/pkg/core/interop/interopnames"
	"github.com/nspcc-dev/neo-go/pkg/core/transaction"
	"github.com/nspcc-dev/neo-go/pkg/crypto/keys"
	"github.com/nspcc-dev/neo-go/pkg/io"
	"github.com/nspcc-dev/neo-go/pkg/util"
	"github.com/nspcc-dev/neo-go/pkg/smartcontract/scparser"
	"github.com/nspcc-dev/neo-go/pkg/vm"
	"github.com/nspcc-dev/neo-go/pkg/vm/opcode"
)

// FeeConsts (C07): the opcode price table (pkg/core/fee/opcode.go `coefficients`, read through the
// exported fee.Opcode of the linked package), the opcode byte values and interop ids that occur in the
// standard witness scripts, the interop price table entries of CheckSig / CheckMultisig (go/ast over
// pkg/core/interops.go), ECDSAVerifyPrice, fee/limit defaults of native Policy (go/ast over
// pkg/core/native/policy.go), transaction limits and attribute type values.
func init() { register("FeeConsts", genFeeConsts) }

// evalConst evaluates a (very) small constant expression language: integer literals, + - * << and
// identifiers resolved through env.
func evalConst(e ast.Expr, env func(string) (int64, bool)) (int64, error) {
	switch x := e.(type) {
	case *ast.BasicLit:
		if x.Kind != token.INT {
			return 0, fmt.Errorf("not an int literal: %s", x.Value)
		}
		v, err := strconv.ParseInt(strings.ReplaceAll(x.Value, "_", ""), 0, 64)
		return v, err
	case *ast.ParenExpr:
		return evalConst(x.X, env)
	case *ast.BinaryExpr:
		a, err := evalConst(x.X, env)
		if err != nil {
			return 0, err
		}
		b, err := evalConst(x.Y, env)
		if err != nil {
			return 0, err
		}
		switch x.Op {
		case token.ADD:
			return a + b, nil
		case token.SUB:
			return a - b, nil
		case token.MUL:
			return a * b, nil
		case token.SHL:
			return a << uint(b), nil
		}
		return 0, fmt.Errorf("unsupported operator %s", x.Op)
	case *ast.Ident:
		if v, ok := env(x.Name); ok {
			return v, nil
		}
		return 0, fmt.Errorf("unknown identifier %s", x.Name)
	case *ast.SelectorExpr:
		if p, ok := x.X.(*ast.Ident); ok {
			if v, ok := env(p.Name + "." + x.Sel.Name); ok {
				return v, nil
			}
			return 0, fmt.Errorf("unknown selector %s.%s", p.Name, x.Sel.Name)
		}
	}
	return 0, fmt.Errorf("unsupported expression %T", e)
}

func linkedConsts(name string) (int64, bool) {
	switch name {
	case "fee.ECDSAVerifyPrice":
		return fee.ECDSAVerifyPrice, true
	case "interop.DefaultBaseExecFee":
		return interop.DefaultBaseExecFee, true
	case "vm.ExecFeeFactorMultiplier":
		return vm.ExecFeeFactorMultiplier, true
	}
	return 0, false
}

// fileConsts evaluates every integer constant declared at top level of a Go file (in order).
func fileConsts(path string) (map[string]int64, error) {
	fs := token.NewFileSet()
	f, err := parser.ParseFile(fs, path, nil, 0)
	if err != nil {
		return nil, err
	}
	res := map[string]int64{}
	env := func(n string) (int64, bool) {
		if v, ok := res[n]; ok {
			return v, true
		}
		return linkedConsts(n)
	}
	for _, d := range f.Decls {
		gd, ok := d.(*ast.GenDecl)
		if !ok || gd.Tok != token.CONST {
			continue
		}
		for _, s := range gd.Specs {
			vs := s.(*ast.ValueSpec)
			for i, n := range vs.Names {
				if i < len(vs.Values) {
					if v, err := evalConst(vs.Values[i], env); err == nil {
						res[n.Name] = v
					}
				}
			}
		}
	}
	return res, nil
}

// interopPrice finds `{Name: interopnames.<name>, ..., Price: <expr>}` in pkg/core/interops.go.
func interopPrice(repo, name string) (int64, error) {
	fs := token.NewFileSet()
	f, err := parser.ParseFile(fs, filepath.Join(repo, "pkg/core/interops.go"), nil, 0)
	if err != nil {
		return 0, err
	}
	var (
		found bool
		price int64
		perr  error
	)
	ast.Inspect(f, func(n ast.Node) bool {
		cl, ok := n.(*ast.CompositeLit)
		if !ok {
			return true
		}
		var isIt bool
		var priceExpr ast.Expr
		for _, el := range cl.Elts {
			kv, ok := el.(*ast.KeyValueExpr)
			if !ok {
				continue
			}
			k, ok := kv.Key.(*ast.Ident)
			if !ok {
				continue
			}
			switch k.Name {
			case "Name":
				if se, ok := kv.Value.(*ast.SelectorExpr); ok && se.Sel.Name == name {
					isIt = true
				}
			case "Price":
				priceExpr = kv.Value
			}
		}
		if isIt {
			if found {
				perr = fmt.Errorf("interop %s listed twice", name)
			}
			found = true
			if priceExpr == nil {
				price = 0
			} else {
				price, perr = evalConst(priceExpr, linkedConsts)
			}
		}
		return true
	})
	if perr != nil {
		return 0, perr
	}
	if !found {
		return 0, fmt.Errorf("interop %s not found in interops.go", name)
	}
	return price, nil
}

func genFeeConsts(repo string) (string, error) {
	var b strings.Builder
	b.WriteString("namespace NeoModel.Generated.FeeConsts\n")
	// opcode price table.
	b.WriteString("/-- pkg/core/fee/opcode.go `coefficients` (index = opcode byte). -/\n")
	b.WriteString("def coefficients : List Nat := [")
	for i := 0; i < 256; i++ {
		if i > 0 {
			b.WriteString(", ")
		}
		if i%16 == 0 {
			b.WriteString("\n  ")
		}
		fmt.Fprintf(&b, "%d", fee.Opcode(1, opcode.Opcode(i)))
	}
	b.WriteString("]\n")
	ops := []struct {
		n string
		o opcode.Opcode
	}{
		{"opPUSHINT8", opcode.PUSHINT8}, {"opPUSHINT16", opcode.PUSHINT16}, {"opPUSHINT32", opcode.PUSHINT32},
		{"opPUSHINT64", opcode.PUSHINT64}, {"opPUSHINT128", opcode.PUSHINT128}, {"opPUSHINT256", opcode.PUSHINT256},
		{"opPUSHDATA1", opcode.PUSHDATA1}, {"opPUSHDATA2", opcode.PUSHDATA2}, {"opPUSHDATA4", opcode.PUSHDATA4},
		{"opPUSHM1", opcode.PUSHM1}, {"opPUSH0", opcode.PUSH0}, {"opPUSH16", opcode.PUSH16},
		{"opSYSCALL", opcode.SYSCALL}, {"opRET", opcode.RET},
	}
	for _, o := range ops {
		fmt.Fprintf(&b, "def %s : Nat := %d\n", o.n, byte(o.o))
	}
	fmt.Fprintf(&b, "def ecdsaVerifyPrice : Nat := %d\n", fee.ECDSAVerifyPrice)
	fmt.Fprintf(&b, "def execFeeFactorMultiplier : Nat := %d\n", vm.ExecFeeFactorMultiplier)
	fmt.Fprintf(&b, "def defaultBaseExecFee : Nat := %d\n", interop.DefaultBaseExecFee)
	ids := []struct{ n, api string }{
		{"checkSig", interopnames.SystemCryptoCheckSig},
		{"checkMultisig", interopnames.SystemCryptoCheckMultisig},
	}
	for _, id := range ids {
		v := interopnames.ToID([]byte(id.api))
		le := make([]byte, 4)
		binary.LittleEndian.PutUint32(le, v)
		fmt.Fprintf(&b, "/-- interopnames.ToID(%q) as the 4 little-endian operand bytes of SYSCALL. -/\n", id.api)
		fmt.Fprintf(&b, "def %sId : List UInt8 := [%d, %d, %d, %d]\n", id.n, le[0], le[1], le[2], le[3])
	}
	p, err := interopPrice(repo, "SystemCryptoCheckSig")
	if err != nil {
		return "", err
	}
	fmt.Fprintf(&b, "/-- Price field of the systemInterops entry (pkg/core/interops.go). -/\ndef checkSigPrice : Nat := %d\n", p)
	p, err = interopPrice(repo, "SystemCryptoCheckMultisig")
	if err != nil {
		return "", err
	}
	fmt.Fprintf(&b, "def checkMultisigPrice : Nat := %d\n", p)
	pc, err := fileConsts(filepath.Join(repo, "pkg/core/native/policy.go"))
	if err != nil {
		return "", err
	}
	for _, n := range []string{"defaultExecFeeFactor", "defaultFeePerByte", "defaultMaxVerificationGas", "defaultAttributeFee", "defaultNotaryAssistedFee", "maxFeePerByte", "maxAttributeFee"} {
		v, ok := pc[n]
		if !ok {
			return "", fmt.Errorf("constant %s not found in native/policy.go", n)
		}
		fmt.Fprintf(&b, "def policy_%s : Nat := %d\n", n, v)
	}
	fmt.Fprintf(&b, "def maxTransactionSize : Nat := %d\n", transaction.MaxTransactionSize)
	fmt.Fprintf(&b, "def maxAttributes : Nat := %d\n", transaction.MaxAttributes)
	fmt.Fprintf(&b, "def maxScriptLength : Nat := %d\n", transaction.MaxScriptLength)
	fmt.Fprintf(&b, "def maxInvocationScript : Nat := %d\n", transaction.MaxInvocationScript)
	fmt.Fprintf(&b, "def maxVerificationScript : Nat := %d\n", transaction.MaxVerificationScript)
	fmt.Fprintf(&b, "def maxMultisigKeys : Nat := %d\n", scparser.MaxMultisigKeys)
	fmt.Fprintf(&b, "def maxStackSize : Nat := %d\n", vm.MaxStackSize)
	fmt.Fprintf(&b, "def signatureLen : Nat := %d\n", keys.SignatureLen)
	fmt.Fprintf(&b, "def attrHighPriority : Nat := %d\n", byte(transaction.HighPriority))
	fmt.Fprintf(&b, "def attrOracleResponse : Nat := %d\n", byte(transaction.OracleResponseT))
	fmt.Fprintf(&b, "def attrNotValidBefore : Nat := %d\n", byte(transaction.NotValidBeforeT))
	fmt.Fprintf(&b, "def attrConflicts : Nat := %d\n", byte(transaction.ConflictsT))
	fmt.Fprintf(&b, "def attrNotaryAssisted : Nat := %d\n", byte(transaction.NotaryAssistedT))
	fmt.Fprintf(&b, "def attrReservedLowerBound : Nat := %d\n", transaction.ReservedLowerBound)
	fmt.Fprintf(&b, "def attrReservedUpperBound : Nat := %d\n", transaction.ReservedUpperBound)
	// block sizing (pkg/core/block/block.go:24-28,221-229): the package computes this at init time the same way
	fmt.Fprintf(&b, "/-- block.expectedHeaderSizeWithEmptyWitness = io.GetVarSize(new(block.Header)) (block.go:24-28). -/\n")
	fmt.Fprintf(&b, "def expectedHeaderSizeWithEmptyWitness : Nat := %d\n", io.GetVarSize(new(block.Header)))
	fmt.Fprintf(&b, "/-- (&block.Block{}).GetExpectedBlockSizeWithoutTransactions(0): empty witness, no state root. -/\n")
	fmt.Fprintf(&b, "def emptyBlockExpectedSize : Nat := %d\n", (&block.Block{}).GetExpectedBlockSizeWithoutTransactions(0))
	fmt.Fprintf(&b, "def uint256Size : Nat := %d\n", util.Uint256Size)
	fmt.Fprintf(&b, "def uint160Size : Nat := %d\n", util.Uint160Size)
	fmt.Fprintf(&b, "def blockMaxTransactionsPerBlock : Nat := %d\n", block.MaxTransactionsPerBlock)
	b.WriteString("end NeoModel.Generated.FeeConsts\n")
	return b.String(), nil
}
