// C08: loop-free functions of pkg/core/mempool for the Go->Lean translator of gofuncs.go (appended to its spec
// list; a function outside the supported subset is reported as NOT TRANSLATED and only breaks the theorems
// that mention it). Proofs: lean/NeoModel/Proofs/MempoolGoFuncs.lean.
package main

func init() {
	gfSpecs = append(gfSpecs,
		gfSpec{Pkg: "./pkg/core/mempool", Recv: "Pool", Func: "checkPolicy", Lean: "mempoolCheckPolicy"},
		gfSpec{Pkg: "./pkg/core/mempool", Recv: "Pool", Func: "count", Lean: "mempoolCount"},
	)
}
