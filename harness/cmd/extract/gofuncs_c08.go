// C08: loop-free functions of pkg/core/mempool for the Go->Lean translator of gofuncs.go (appended to its spec
// list; a function outside the supported subset is reported as NOT TRANSLATED and only breaks the theorems
// that mention it). Proofs: lean/NeoModel/Proofs/MempoolGoFuncs.lean.
package main

func init() {
	gfSpecs = append(gfSpecs,
		gfSpec{Pkg: "./pkg/core/mempool", Recv: "Pool", Func: "checkPolicy", Lean: "mempoolCheckPolicy"},
		gfSpec{Pkg: "./pkg/core/mempool", Recv: "Pool", Func: "count", Lean: "mempoolCount"},
		gfSpec{Pkg: "./pkg/core/mempool", Recv: "Pool", Func: "loadPolicy", Lean: "mempoolLoadPolicy"},
		gfSpec{Pkg: "./pkg/core/mempool", Func: "checkBalance", Lean: "mempoolCheckBalance"},
		gfSpec{Pkg: "./pkg/core/mempool", Recv: "Pool", Func: "tryAddSendersFee", Lean: "mempoolTryAddSendersFee"},
		gfSpec{Pkg: "./pkg/core/mempool", Recv: "Pool", Func: "containsKey", Lean: "mempoolContainsKey"},
		gfSpec{Pkg: "./pkg/core/mempool", Recv: "Pool", Func: "TryGetValue", Lean: "mempoolTryGetValue"},
	)
}
