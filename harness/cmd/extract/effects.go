package main

// Table "Effects" (property C16): a conservative MAY-EFFECT set for every entry point that contract code can
// reach in the node — every system-call handler (interop.Function.Func of the linked table), CALLT
// (contract.LoadToken) and every native method handler (MethodAndPrice.Func / DeferrableFunc of every
// hardfork-specific descriptor) — computed by a go/ast + go/types call-graph walk over the source of the
// repository's packages, per hardfork index 0..8.
//
// Effect primitives (leaves of the walk, not descended into):
//
//	read    1   (*storage.MemCachedStore).Get / Seek / SeekAsync, (*storage.MemoryStore).SeekGC
//	write   2   (*storage.MemCachedStore).Put / Delete / PutChangeSet
//	call    4   (*vm.VM).loadScriptWithCallingHash        (a new execution context with its own call flags)
//	notify  8   (*interop.Context).AddNotification, or an assignment `<ctx>.Notifications = append(…)`
//	cache   16  (*dao.Simple).GetROCache / GetRWCache      (native contract in-memory state)
//	natdisp 32  a call through MethodAndPrice.Func / DeferrableFunc  (dispatch to a native method: native.Call)
//	sysdisp 64  a call through interop.Function.Func                  (dispatch to a system call: SyscallHandler)
//	unres   128 a function value the walk could not resolve (listed in `unresolved`)
//
// The bit values of read/write/call/notify are those of callflag.ReadStates/WriteStates/AllowCall/AllowNotify,
// so "required flags ⊇ flags of the may-effects" is `eff &&& 14 &&& ~req = 0`.
//
// The walk (sound for the listed language features, see props/C16.json for what it does not follow):
//   - static calls and method calls on concrete receivers: an edge to the callee's body;
//   - a reference to a function or method as a VALUE (callback argument, method value, function literal) counts
//     as a call at the place where the value is produced; function literals are walked as part of the enclosing body;
//   - a method call / method value on an interface: edges to that method of EVERY named type of the loaded
//     packages whose method set implements the interface (class-hierarchy resolution);
//   - a read of a function-typed struct field: edges to every expression assigned to that field anywhere in the
//     loaded packages (composite literals and assignments; a parameter is resolved through all call sites of
//     the enclosing function); the three dispatch fields above are cut and reported as natdisp/sysdisp;
//   - constant propagation of literal `true`/`false`/`nil`/`&x` arguments into parameters that the callee never
//     re-assigns, and of `ic.IsHardforkEnabled(config.HFx)` under the hardfork index of the row, prunes `if`
//     branches whose condition is then decided (and the statements after a decided, returning `if`).
//   - calls into packages outside the repository are opaque (the standard library and dependencies do not import
//     the node's packages; call-backs from them happen through the function values / interfaces handed over, and
//     handing a function value over is already counted).

import (
	"encoding/json"
	"fmt"
	"go/ast"
	"go/token"
	"go/types"
	"os"
	"reflect"
	"runtime"
	"sort"
	"strings"

	"github.com/nspcc-dev/neo-go/pkg/config"
	"github.com/nspcc-dev/neo-go/pkg/core"
	"github.com/nspcc-dev/neo-go/pkg/core/interop"
	"github.com/nspcc-dev/neo-go/pkg/core/native"
	"golang.org/x/tools/go/packages"
)

func init() { register("Effects", genEffects) }

const effModule = "github.com/nspcc-dev/neo-go/"

const (
	effRead = 1 << iota
	effWrite
	effCall
	effNotify
	effCache
	effNatDisp
	effSysDisp
	effUnres
)

var effPrims = map[string]int{
	"(*" + effModule + "pkg/core/storage.MemCachedStore).Get":          effRead,
	"(*" + effModule + "pkg/core/storage.MemCachedStore).Seek":         effRead,
	"(*" + effModule + "pkg/core/storage.MemCachedStore).SeekAsync":    effRead,
	"(*" + effModule + "pkg/core/storage.MemoryStore).SeekGC":          effRead,
	"(*" + effModule + "pkg/core/storage.MemCachedStore).Put":          effWrite,
	"(*" + effModule + "pkg/core/storage.MemCachedStore).Delete":       effWrite,
	"(*" + effModule + "pkg/core/storage.MemCachedStore).PutChangeSet": effWrite,
	"(*" + effModule + "pkg/vm.VM).loadScriptWithCallingHash":          effCall,
	"(*" + effModule + "pkg/core/interop.Context).AddNotification":     effNotify,
	"(*" + effModule + "pkg/core/dao.Simple).GetROCache":               effCache,
	"(*" + effModule + "pkg/core/dao.Simple).GetRWCache":               effCache,
	// moving a private layer into its parent (dao.GetPrivate … Persist around a wrapped call): no new content
	"(*" + effModule + "pkg/core/storage.MemCachedStore).Persist":        0,
	"(*" + effModule + "pkg/core/storage.MemCachedStore).PersistSync":    0,
	"(*" + effModule + "pkg/core/storage.MemCachedStore).PersistPrivate": 0,
}

const effHFKey = "(*" + effModule + "pkg/core/interop.Context).IsHardforkEnabled"

// cut fields: owner type (package path, type name), field name, tag
var effCutFields = []struct {
	pkg, typ, field string
	tag             int
}{
	{effModule + "pkg/core/interop", "HFSpecificMethodAndPrice", "Func", effNatDisp},
	{effModule + "pkg/core/interop", "HFSpecificMethodAndPrice", "DeferrableFunc", effNatDisp},
	{effModule + "pkg/core/interop", "Function", "Func", effSysDisp},
}

type effConst int

const (
	cUnknown effConst = iota
	cTrue
	cFalse
	cNil
	cNonNil
)

// effFn is a function body of the loaded packages.
type effFn struct {
	key     string
	pkg     *packages.Package
	typ     *ast.FuncType
	body    *ast.BlockStmt
	params  []types.Object        // flattened parameter objects (nil for unnamed / blank)
	mutated map[types.Object]bool // parameters that are re-assigned or whose address is taken
}

type effSrc struct { // an expression assigned to a function-typed field, or passed as an argument
	e  ast.Expr
	fn *effFn // enclosing function (nil at package level)
	p  *packages.Package
}

type effAnalysis struct {
	fset      *token.FileSet
	fns       map[string]*effFn
	named     []*types.Named
	fieldSrc  map[token.Pos][]effSrc // field position -> sources
	callArgs  map[string][][]effSrc  // callee key -> per call site, the arguments
	cutFields map[token.Pos]int      // field position -> tag
	cha       map[string][]string    // iface method id -> implementing method keys
	hfIndex   map[string]int         // "HFEchidna" -> 5
	memo      map[string]*effEdges   // node key [+ "@hf"] -> edges
	hfSens    map[string]bool        // node key -> edges depend on the hardfork index
	unres     map[string]bool        // descriptions of unresolved function values reached
	globals   map[token.Pos]effSrc   // package-level variable -> initialiser
}

type effEdges struct {
	prims   int
	primBy  map[int]string // effect bit -> the primitive (or site) that produced it
	callees []string       // node keys: fn key + "|" + binding
	unres   []string
}

func effFullName(f *types.Func) string { return f.Origin().FullName() }

// effOverlay: the `go build -overlay` file of a development run (VERIF_GO_OVERLAY, see ./check): the source the
// binary was built from is then not /repo's; the walk and the source-text tables read the same replacement files.
func effOverlay() (string, map[string]string) {
	path := os.Getenv("VERIF_GO_OVERLAY")
	if path == "" {
		return "", nil
	}
	data, err := os.ReadFile(path)
	if err != nil {
		return "", nil
	}
	var ov struct{ Replace map[string]string }
	if json.Unmarshal(data, &ov) != nil {
		return "", nil
	}
	return path, ov.Replace
}

// effSourcePath maps a source file to its overlay replacement, if any.
func effSourcePath(p string) string {
	if _, repl := effOverlay(); repl != nil {
		if r, ok := repl[p]; ok && r != "" {
			return r
		}
	}
	return p
}

func effLoad(repo string) ([]*packages.Package, error) {
	cfg := &packages.Config{
		Mode: packages.NeedName | packages.NeedFiles | packages.NeedSyntax | packages.NeedTypes | packages.NeedTypesInfo | packages.NeedImports | packages.NeedDeps,
		Dir:  repo,
		Env:  append(os.Environ(), "GOFLAGS=-mod=readonly", "GOPROXY=off"),
	}
	if path, repl := effOverlay(); repl != nil {
		cfg.BuildFlags = []string{"-overlay=" + path}
		cfg.Overlay = map[string][]byte{}
		for orig, r := range repl {
			if data, err := os.ReadFile(r); err == nil {
				cfg.Overlay[orig] = data
			}
		}
	}
	return packages.Load(cfg, "./pkg/core")
}

func newEffAnalysis(repo string) (*effAnalysis, error) {
	roots, err := effLoad(repo)
	if err != nil {
		return nil, err
	}
	a := &effAnalysis{fns: map[string]*effFn{}, fieldSrc: map[token.Pos][]effSrc{}, callArgs: map[string][][]effSrc{},
		cutFields: map[token.Pos]int{}, cha: map[string][]string{}, hfIndex: map[string]int{"HFDefault": 0},
		memo: map[string]*effEdges{}, hfSens: map[string]bool{}, unres: map[string]bool{}, globals: map[token.Pos]effSrc{}}
	for i, h := range config.Hardforks {
		a.hfIndex["HF"+h.String()] = i + 1
	}
	var mods []*packages.Package
	packages.Visit(roots, nil, func(p *packages.Package) {
		if strings.HasPrefix(p.PkgPath+"/", effModule) {
			mods = append(mods, p)
		}
	})
	sort.Slice(mods, func(i, j int) bool { return mods[i].PkgPath < mods[j].PkgPath })
	for _, p := range mods {
		if len(p.Errors) > 0 {
			return nil, fmt.Errorf("package %s: %v", p.PkgPath, p.Errors[0])
		}
		a.fset = p.Fset
		sc := p.Types.Scope()
		for _, n := range sc.Names() {
			if tn, ok := sc.Lookup(n).(*types.TypeName); ok && !tn.IsAlias() {
				if nt, ok := tn.Type().(*types.Named); ok && nt.TypeParams().Len() == 0 {
					if _, isIface := nt.Underlying().(*types.Interface); !isIface {
						a.named = append(a.named, nt)
					}
				}
			}
		}
		for _, f := range p.Syntax {
			for _, d := range f.Decls {
				fd, ok := d.(*ast.FuncDecl)
				if !ok || fd.Body == nil {
					continue
				}
				obj, ok := p.TypesInfo.Defs[fd.Name].(*types.Func)
				if !ok {
					continue
				}
				fn := &effFn{key: effFullName(obj), pkg: p, typ: fd.Type, body: fd.Body}
				a.initFn(fn)
				a.fns[fn.key] = fn
			}
		}
	}
	for _, c := range effCutFields {
		found := false
		for _, p := range mods {
			if p.PkgPath != c.pkg {
				continue
			}
			if tn, ok := p.Types.Scope().Lookup(c.typ).(*types.TypeName); ok {
				if st, ok := tn.Type().Underlying().(*types.Struct); ok {
					for i := 0; i < st.NumFields(); i++ {
						if st.Field(i).Name() == c.field {
							a.cutFields[st.Field(i).Pos()] = c.tag
							found = true
						}
					}
				}
			}
		}
		if !found {
			return nil, fmt.Errorf("dispatch field %s.%s.%s not found", c.pkg, c.typ, c.field)
		}
	}
	// pre-pass: sources of function-typed fields, arguments of static calls
	for _, p := range mods {
		for _, f := range p.Syntax {
			for _, d := range f.Decls {
				switch x := d.(type) {
				case *ast.FuncDecl:
					if x.Body == nil {
						continue
					}
					obj, _ := p.TypesInfo.Defs[x.Name].(*types.Func)
					if obj == nil {
						continue
					}
					a.prepass(x.Body, a.fns[effFullName(obj)], p)
				case *ast.GenDecl:
					a.prepass(x, nil, p)
					if x.Tok == token.VAR {
						for _, sp := range x.Specs {
							vs := sp.(*ast.ValueSpec)
							for i, n := range vs.Names {
								if o := p.TypesInfo.Defs[n]; o != nil && len(vs.Values) == len(vs.Names) {
									a.globals[o.Pos()] = effSrc{vs.Values[i], nil, p}
								}
							}
						}
					}
				}
			}
		}
	}
	return a, nil
}

func (a *effAnalysis) initFn(fn *effFn) {
	info := fn.pkg.TypesInfo
	if fn.typ.Params != nil {
		for _, fl := range fn.typ.Params.List {
			if len(fl.Names) == 0 {
				fn.params = append(fn.params, nil)
			}
			for _, n := range fl.Names {
				fn.params = append(fn.params, info.Defs[n]) // nil for `_`
			}
		}
	}
	fn.mutated = map[types.Object]bool{}
	mark := func(e ast.Expr) {
		if id, ok := ast.Unparen(e).(*ast.Ident); ok {
			if o := info.Uses[id]; o != nil {
				fn.mutated[o] = true
			}
		}
	}
	ast.Inspect(fn.body, func(n ast.Node) bool {
		switch x := n.(type) {
		case *ast.AssignStmt:
			if x.Tok != token.DEFINE {
				for _, l := range x.Lhs {
					mark(l)
				}
			} else {
				for _, l := range x.Lhs { // `a, err := …` re-uses an existing variable of the same scope
					mark(l)
				}
			}
		case *ast.IncDecStmt:
			mark(x.X)
		case *ast.UnaryExpr:
			if x.Op == token.AND {
				mark(x.X)
			}
		case *ast.RangeStmt:
			if x.Tok == token.ASSIGN {
				if x.Key != nil {
					mark(x.Key)
				}
				if x.Value != nil {
					mark(x.Value)
				}
			}
		}
		return true
	})
}

func isFuncType(t types.Type) bool {
	if t == nil {
		return false
	}
	_, ok := t.Underlying().(*types.Signature)
	return ok
}

// prepass records, for the syntax tree n inside function fn of package p, the sources of function-typed
// fields and the arguments of calls with a statically known callee.
func (a *effAnalysis) prepass(n ast.Node, fn *effFn, p *packages.Package) {
	info := p.TypesInfo
	ast.Inspect(n, func(n ast.Node) bool {
		switch x := n.(type) {
		case *ast.CompositeLit:
			t := info.TypeOf(x)
			if t == nil {
				return true
			}
			if pt, ok := t.Underlying().(*types.Pointer); ok {
				t = pt.Elem()
			}
			st, ok := t.Underlying().(*types.Struct)
			if !ok {
				return true
			}
			for i, el := range x.Elts {
				if kv, ok := el.(*ast.KeyValueExpr); ok {
					if id, ok := kv.Key.(*ast.Ident); ok {
						for j := 0; j < st.NumFields(); j++ {
							if st.Field(j).Name() == id.Name && isFuncType(st.Field(j).Type()) {
								a.fieldSrc[st.Field(j).Pos()] = append(a.fieldSrc[st.Field(j).Pos()], effSrc{kv.Value, fn, p})
							}
						}
					}
				} else if i < st.NumFields() && isFuncType(st.Field(i).Type()) {
					a.fieldSrc[st.Field(i).Pos()] = append(a.fieldSrc[st.Field(i).Pos()], effSrc{el, fn, p})
				}
			}
		case *ast.AssignStmt:
			if len(x.Lhs) == len(x.Rhs) {
				for i, l := range x.Lhs {
					if se, ok := ast.Unparen(l).(*ast.SelectorExpr); ok {
						if sel := info.Selections[se]; sel != nil && sel.Kind() == types.FieldVal && isFuncType(sel.Obj().Type()) {
							a.fieldSrc[sel.Obj().Pos()] = append(a.fieldSrc[sel.Obj().Pos()], effSrc{x.Rhs[i], fn, p})
						}
					}
				}
			}
		case *ast.CallExpr:
			if callee := a.staticCallee(x, info); callee != "" {
				args := make([]effSrc, len(x.Args))
				for i, e := range x.Args {
					args[i] = effSrc{e, fn, p}
				}
				a.callArgs[callee] = append(a.callArgs[callee], args)
			}
		}
		return true
	})
}

// staticCallee returns the key of the function a call expression statically refers to ("" otherwise).
func (a *effAnalysis) staticCallee(c *ast.CallExpr, info *types.Info) string {
	fun := ast.Unparen(c.Fun)
	switch x := fun.(type) {
	case *ast.IndexExpr:
		if effIsInstance(x.X, info) {
			fun = ast.Unparen(x.X)
		}
	case *ast.IndexListExpr:
		if effIsInstance(x.X, info) {
			fun = ast.Unparen(x.X)
		}
	}
	switch x := fun.(type) {
	case *ast.Ident:
		if f, ok := info.Uses[x].(*types.Func); ok {
			return effFullName(f)
		}
	case *ast.SelectorExpr:
		if sel := info.Selections[x]; sel != nil {
			if sel.Kind() == types.MethodVal {
				if _, isIface := sel.Recv().Underlying().(*types.Interface); !isIface {
					return effFullName(sel.Obj().(*types.Func))
				}
			}
			return ""
		}
		if f, ok := info.Uses[x.Sel].(*types.Func); ok {
			return effFullName(f)
		}
	}
	return ""
}

// implementers: keys of method `name` of every loaded named type implementing iface.
func (a *effAnalysis) implementers(iface *types.Interface, ifaceDesc string, m *types.Func) []string {
	id := ifaceDesc + "." + m.Name()
	if r, ok := a.cha[id]; ok {
		return r
	}
	seen := map[string]bool{}
	var res []string
	for _, nt := range a.named {
		var recv types.Type
		switch {
		case types.Implements(nt, iface):
			recv = nt
		case types.Implements(types.NewPointer(nt), iface):
			recv = types.NewPointer(nt)
		default:
			continue
		}
		sel := types.NewMethodSet(recv).Lookup(m.Pkg(), m.Name())
		if sel == nil {
			continue
		}
		if f, ok := sel.Obj().(*types.Func); ok {
			k := effFullName(f)
			if !seen[k] {
				seen[k] = true
				res = append(res, k)
			}
		}
	}
	sort.Strings(res)
	a.cha[id] = res
	return res
}

// ---- the walk of one node (function × parameter binding × hardfork index) ---------------------------

type effWalker struct {
	a      *effAnalysis
	fn     *effFn
	env    map[types.Object]effConst
	hf     int
	hfUsed bool
	out    *effEdges
	seenC  map[string]bool
}

func effNodeKey(fnKey string, bind string) string { return fnKey + "|" + bind }

func effParseNode(k string) (string, string) {
	i := strings.LastIndex(k, "|")
	return k[:i], k[i+1:]
}

func (w *effWalker) addCallee(fnKey, bind string) {
	if t, ok := effPrims[fnKey]; ok {
		w.prim(t, effShort(fnKey))
		return
	}
	if _, ok := w.a.fns[fnKey]; !ok {
		return // outside the loaded repository packages (or without a body): opaque
	}
	k := effNodeKey(fnKey, bind)
	if !w.seenC[k] {
		w.seenC[k] = true
		w.out.callees = append(w.out.callees, k)
	}
}

func (w *effWalker) prim(tag int, by string) {
	if tag != 0 && w.out.prims&tag == 0 {
		if w.out.primBy == nil {
			w.out.primBy = map[int]string{}
		}
		w.out.primBy[tag] = by
	}
	w.out.prims |= tag
}

func (w *effWalker) addUnres(desc string) {
	w.prim(effUnres, desc)
	w.out.unres = append(w.out.unres, desc)
}

func (w *effWalker) pos(n ast.Node) string {
	p := w.a.fset.Position(n.Pos())
	f := p.Filename
	if i := strings.Index(f, "/pkg/"); i >= 0 {
		f = f[i+1:]
	}
	return fmt.Sprintf("%s:%d", f, p.Line)
}

// classify an argument expression as a constant under the current binding.
func (w *effWalker) constOf(e ast.Expr) effConst {
	e = ast.Unparen(e)
	switch x := e.(type) {
	case *ast.Ident:
		info := w.fn.pkg.TypesInfo
		switch o := info.Uses[x].(type) {
		case *types.Nil:
			return cNil
		case *types.Const:
			if o.Parent() == types.Universe {
				if o.Name() == "true" {
					return cTrue
				}
				if o.Name() == "false" {
					return cFalse
				}
			}
		case *types.Var:
			if v, ok := w.env[o]; ok {
				return v
			}
		}
	case *ast.UnaryExpr:
		if x.Op == token.AND {
			return cNonNil
		}
	}
	return cUnknown
}

// eval decides a boolean condition under the binding and the hardfork index: cTrue / cFalse / cUnknown.
func (w *effWalker) eval(e ast.Expr) effConst {
	e = ast.Unparen(e)
	info := w.fn.pkg.TypesInfo
	switch x := e.(type) {
	case *ast.Ident:
		c := w.constOf(x)
		if c == cTrue || c == cFalse {
			return c
		}
	case *ast.UnaryExpr:
		if x.Op == token.NOT {
			switch w.eval(x.X) {
			case cTrue:
				return cFalse
			case cFalse:
				return cTrue
			}
		}
	case *ast.BinaryExpr:
		switch x.Op {
		case token.LOR:
			l, r := w.eval(x.X), w.eval(x.Y)
			if l == cTrue || r == cTrue {
				return cTrue
			}
			if l == cFalse && r == cFalse {
				return cFalse
			}
		case token.LAND:
			l, r := w.eval(x.X), w.eval(x.Y)
			if l == cFalse || r == cFalse {
				return cFalse
			}
			if l == cTrue && r == cTrue {
				return cTrue
			}
		case token.EQL, token.NEQ:
			l, r := w.constOf(x.X), w.constOf(x.Y)
			res := cUnknown
			switch {
			case l == cNil && r == cNil:
				res = cTrue
			case (l == cNil && r == cNonNil) || (l == cNonNil && r == cNil):
				res = cFalse
			}
			if res != cUnknown && x.Op == token.NEQ {
				if res == cTrue {
					res = cFalse
				} else {
					res = cTrue
				}
			}
			return res
		}
	case *ast.CallExpr:
		if w.a.staticCallee(x, info) == effHFKey && len(x.Args) == 1 {
			if se, ok := ast.Unparen(x.Args[0]).(*ast.SelectorExpr); ok {
				if c, ok := info.Uses[se.Sel].(*types.Const); ok && c.Pkg() != nil && c.Pkg().Path() == effModule+"pkg/config" {
					if idx, ok := w.a.hfIndex[c.Name()]; ok {
						w.hfUsed = true
						if w.hf >= idx {
							return cTrue
						}
						return cFalse
					}
				}
			}
		}
	}
	return cUnknown
}

func effTerminates(list []ast.Stmt) bool {
	if len(list) == 0 {
		return false
	}
	switch x := list[len(list)-1].(type) {
	case *ast.ReturnStmt:
		return true
	case *ast.ExprStmt:
		if c, ok := x.X.(*ast.CallExpr); ok {
			if id, ok := c.Fun.(*ast.Ident); ok && id.Name == "panic" {
				return true
			}
		}
	case *ast.BlockStmt:
		return effTerminates(x.List)
	}
	return false
}

func hasLabel(list []ast.Stmt) bool {
	for _, s := range list {
		if _, ok := s.(*ast.LabeledStmt); ok {
			return true
		}
	}
	return false
}

// block walks a statement list; returns true if the rest of the enclosing list is unreachable because a
// decided `if` returned.
func (w *effWalker) block(list []ast.Stmt) bool {
	for i, s := range list {
		if is, ok := s.(*ast.IfStmt); ok {
			if w.ifStmt(is) && !hasLabel(list[i+1:]) {
				return true
			}
			continue
		}
		w.walk(s)
	}
	return false
}

// ifStmt returns true when the condition is decided and the branch taken always leaves the function.
func (w *effWalker) ifStmt(is *ast.IfStmt) bool {
	if is.Init != nil {
		w.walk(is.Init)
	}
	w.walk(is.Cond)
	switch w.eval(is.Cond) {
	case cTrue:
		w.block(is.Body.List)
		return effTerminates(is.Body.List)
	case cFalse:
		switch e := is.Else.(type) {
		case *ast.BlockStmt:
			w.block(e.List)
			return effTerminates(e.List)
		case *ast.IfStmt:
			return w.ifStmt(e)
		}
		return false
	}
	w.block(is.Body.List)
	if is.Else != nil {
		switch e := is.Else.(type) {
		case *ast.BlockStmt:
			w.block(e.List)
		case *ast.IfStmt:
			w.ifStmt(e)
		}
	}
	return false
}

// walk visits a syntax tree, collecting callees / primitives / unresolved function values.
func (w *effWalker) walk(n ast.Node) {
	if n == nil {
		return
	}
	info := w.fn.pkg.TypesInfo
	ast.Inspect(n, func(n ast.Node) bool {
		switch x := n.(type) {
		case *ast.BlockStmt:
			w.block(x.List)
			return false
		case *ast.IfStmt:
			w.ifStmt(x)
			return false
		case *ast.CaseClause:
			for _, e := range x.List {
				w.walk(e)
			}
			w.block(x.Body)
			return false
		case *ast.CommClause:
			w.walk(x.Comm)
			w.block(x.Body)
			return false
		case *ast.CallExpr:
			w.call(x)
			return false
		case *ast.SelectorExpr:
			w.selector(x, nil)
			return false
		case *ast.Ident:
			switch o := info.Uses[x].(type) {
			case *types.Func:
				w.addCallee(effFullName(o), "")
			case *types.Var:
				w.global(o, x)
			}
		case *ast.AssignStmt:
			// `<ctx>.Notifications = append(…)` outside AddNotification
			for i, l := range x.Lhs {
				if se, ok := ast.Unparen(l).(*ast.SelectorExpr); ok && se.Sel.Name == "Notifications" {
					if sel := info.Selections[se]; sel != nil && sel.Kind() == types.FieldVal && i < len(x.Rhs) {
						if _, isSlice := ast.Unparen(x.Rhs[i]).(*ast.SliceExpr); !isSlice {
							if strings.HasSuffix(types.TypeString(sel.Recv(), nil), "pkg/core/interop.Context") {
								w.prim(effNotify, "assignment to Notifications at "+w.pos(x))
							}
						}
					}
				}
			}
		}
		return true
	})
}

// effIsInstance: e names a generic function that is being instantiated.
func effIsInstance(e ast.Expr, info *types.Info) bool {
	var id *ast.Ident
	switch x := ast.Unparen(e).(type) {
	case *ast.Ident:
		id = x
	case *ast.SelectorExpr:
		id = x.Sel
	}
	if id == nil {
		return false
	}
	_, ok := info.Instances[id]
	return ok
}

// containsFunc: can a value of type t hold a function value (other than behind an interface)?
func containsFunc(t types.Type, seen map[types.Type]bool) bool {
	if t == nil || seen[t] {
		return false
	}
	seen[t] = true
	switch x := t.(type) {
	case *types.Signature:
		return true
	case *types.Named:
		if x.Obj().Pkg() == nil || !strings.HasPrefix(x.Obj().Pkg().Path()+"/", effModule) {
			return false // a type of another module: opaque, like its functions
		}
		return containsFunc(x.Underlying(), seen)
	case *types.Alias:
		return containsFunc(types.Unalias(x), seen)
	case *types.Pointer:
		return containsFunc(x.Elem(), seen)
	case *types.Slice:
		return containsFunc(x.Elem(), seen)
	case *types.Array:
		return containsFunc(x.Elem(), seen)
	case *types.Map:
		return containsFunc(x.Elem(), seen) || containsFunc(x.Key(), seen)
	case *types.Chan:
		return containsFunc(x.Elem(), seen)
	case *types.Struct:
		for i := 0; i < x.NumFields(); i++ {
			if containsFunc(x.Field(i).Type(), seen) {
				return true
			}
		}
	}
	return false
}

// global: a reference to a package-level variable of the repository that can hold function values counts as a
// call of every function its initialiser mentions (assignments elsewhere are not tracked: reported).
func (w *effWalker) global(v *types.Var, at ast.Node) {
	if v.IsField() || v.Pkg() == nil || v.Parent() != v.Pkg().Scope() || !strings.HasPrefix(v.Pkg().Path()+"/", effModule) {
		return
	}
	if !containsFunc(v.Type(), map[types.Type]bool{}) {
		return
	}
	src, ok := w.a.globals[v.Pos()]
	if !ok {
		w.addUnres("package-level variable " + v.Pkg().Name() + "." + v.Name() + " holds function values and has no initialiser (used at " + w.pos(at) + ")")
		return
	}
	k := "var@" + v.Pkg().Path() + "." + v.Name()
	if _, ok := w.a.fns[k]; !ok {
		fn := &effFn{key: k, pkg: src.p, typ: &ast.FuncType{}, body: &ast.BlockStmt{List: []ast.Stmt{&ast.ExprStmt{X: src.e}}}}
		w.a.initFn(fn)
		w.a.fns[k] = fn
	}
	w.addCallee(k, "")
}

// bindingFor computes the parameter binding of a call to fnKey with the given arguments.
func (w *effWalker) bindingFor(fnKey string, args []ast.Expr, hasEllipsis bool) string {
	callee, ok := w.a.fns[fnKey]
	if !ok {
		return ""
	}
	var parts []string
	for i, e := range args {
		if i >= len(callee.params) || callee.params[i] == nil || callee.mutated[callee.params[i]] {
			continue
		}
		if i == len(callee.params)-1 && callee.typ.Params != nil {
			last := callee.typ.Params.List[len(callee.typ.Params.List)-1]
			if _, variadic := last.Type.(*ast.Ellipsis); variadic {
				continue
			}
		}
		switch c := w.constOf(e); c {
		case cTrue, cFalse, cNil, cNonNil:
			parts = append(parts, fmt.Sprintf("%d=%d", i, int(c)))
		}
	}
	return strings.Join(parts, ",")
}

func (w *effWalker) call(c *ast.CallExpr) {
	info := w.fn.pkg.TypesInfo
	for _, e := range c.Args {
		w.walk(e)
	}
	fun := ast.Unparen(c.Fun)
	switch x := fun.(type) {
	case *ast.IndexExpr:
		if effIsInstance(x.X, info) {
			fun = ast.Unparen(x.X) // generic instantiation f[T](…)
		}
	case *ast.IndexListExpr:
		if effIsInstance(x.X, info) {
			fun = ast.Unparen(x.X)
		}
	}
	if tv, ok := info.Types[fun]; ok && tv.IsType() {
		return // conversion
	}
	switch x := fun.(type) {
	case *ast.Ident:
		switch o := info.Uses[x].(type) {
		case *types.Func:
			k := effFullName(o)
			w.addCallee(k, w.bindingFor(k, c.Args, c.Ellipsis != token.NoPos))
		case *types.Builtin, *types.TypeName:
		case *types.Var:
			w.global(o, x)
			// a local variable or parameter: its value was counted where it was produced
		}
	case *ast.SelectorExpr:
		w.selector(x, c)
	case *ast.FuncLit:
		w.walk(x.Body)
	default:
		// a call of a call result, of an indexed element, …
		w.walk(fun)
		if !w.localProduced(fun) {
			w.addUnres("call of a computed function value at " + w.pos(c))
		}
	}
}

// localProduced: f()() — the function value was produced inside f, which is walked; x[i]() with x a local
// variable or parameter — the element was stored by code that referenced it (counted there).
func (w *effWalker) localProduced(e ast.Expr) bool {
	switch x := e.(type) {
	case *ast.CallExpr:
		return true
	case *ast.IndexExpr:
		if id, ok := ast.Unparen(x.X).(*ast.Ident); ok {
			if v, ok := w.fn.pkg.TypesInfo.Uses[id].(*types.Var); ok && !v.IsField() && v.Pkg() != nil && v.Parent() != v.Pkg().Scope() {
				return true
			}
		}
	}
	return false
}

// selector handles x.f in call position (c != nil) or as a value.
func (w *effWalker) selector(se *ast.SelectorExpr, c *ast.CallExpr) {
	info := w.fn.pkg.TypesInfo
	sel := info.Selections[se]
	if sel == nil { // qualified identifier pkg.F
		if f, ok := info.Uses[se.Sel].(*types.Func); ok {
			k := effFullName(f)
			bind := ""
			if c != nil {
				bind = w.bindingFor(k, c.Args, c.Ellipsis != token.NoPos)
			}
			w.addCallee(k, bind)
		} else if v, ok := info.Uses[se.Sel].(*types.Var); ok {
			w.global(v, se)
		}
		return
	}
	w.walk(se.X)
	switch sel.Kind() {
	case types.MethodVal, types.MethodExpr:
		m := sel.Obj().(*types.Func)
		recv := sel.Recv()
		if _, ok := recv.Underlying().(*types.Interface); !ok {
			// a method promoted from an embedded interface field: resolve on that interface
			if r := m.Type().(*types.Signature).Recv(); r != nil {
				if _, ok := r.Type().Underlying().(*types.Interface); ok {
					recv = r.Type()
				}
			}
		}
		if iface, ok := recv.Underlying().(*types.Interface); ok {
			for _, k := range w.a.implementers(iface, types.TypeString(recv, nil), m) {
				bind := ""
				if c != nil {
					bind = w.bindingFor(k, c.Args, c.Ellipsis != token.NoPos)
				}
				w.addCallee(k, bind)
			}
			return
		}
		k := effFullName(m)
		bind := ""
		if c != nil && sel.Kind() == types.MethodVal {
			bind = w.bindingFor(k, c.Args, c.Ellipsis != token.NoPos)
		}
		w.addCallee(k, bind)
	case types.FieldVal:
		if !isFuncType(sel.Obj().Type()) {
			return
		}
		if tag, ok := w.a.cutFields[sel.Obj().Pos()]; ok {
			w.prim(tag, "field "+sel.Obj().Name()+" at "+w.pos(se))
			return
		}
		w.resolveSources(w.a.fieldSrc[sel.Obj().Pos()], "field "+sel.Obj().Name()+" read at "+w.pos(se), 0, map[string]bool{})
	}
}

// resolveSources adds edges to the functions that the source expressions may denote.
func (w *effWalker) resolveSources(srcs []effSrc, what string, depth int, seen map[string]bool) {
	if len(srcs) == 0 {
		w.addUnres(what + ": no assignment found")
		return
	}
	for _, s := range srcs {
		info := s.p.TypesInfo
		e := ast.Unparen(s.e)
		switch x := e.(type) {
		case *ast.FuncLit:
			w.addLit(x, s)
			continue
		case *ast.Ident:
			switch o := info.Uses[x].(type) {
			case *types.Nil:
				continue
			case *types.Func:
				w.addCallee(effFullName(o), "")
				continue
			case *types.Var:
				if s.fn != nil {
					idx := -1
					for i, p := range s.fn.params {
						if p == o {
							idx = i
						}
					}
					if idx >= 0 && depth < 4 && !seen[s.fn.key] {
						seen[s.fn.key] = true
						var next []effSrc
						for _, site := range w.a.callArgs[s.fn.key] {
							if idx < len(site) {
								next = append(next, site[idx])
							}
						}
						if len(next) > 0 {
							w.resolveSources(next, what+" <- parameter "+o.Name()+" of "+effShort(s.fn.key), depth+1, seen)
							continue
						}
					}
				}
			}
		case *ast.SelectorExpr:
			if sel := info.Selections[x]; sel != nil {
				switch sel.Kind() {
				case types.MethodVal, types.MethodExpr:
					m := sel.Obj().(*types.Func)
					if iface, ok := sel.Recv().Underlying().(*types.Interface); ok {
						for _, k := range w.a.implementers(iface, types.TypeString(sel.Recv(), nil), m) {
							w.addCallee(k, "")
						}
					} else {
						w.addCallee(effFullName(m), "")
					}
					continue
				case types.FieldVal:
					if isFuncType(sel.Obj().Type()) {
						if tag, ok := w.a.cutFields[sel.Obj().Pos()]; ok {
							w.prim(tag, "field "+sel.Obj().Name())
							continue
						}
						k := fmt.Sprint(sel.Obj().Pos())
						if depth < 4 && !seen["field"+k] {
							seen["field"+k] = true
							w.resolveSources(w.a.fieldSrc[sel.Obj().Pos()], what+" <- field "+sel.Obj().Name(), depth+1, seen)
						}
						continue
					}
				}
			} else if f, ok := info.Uses[x.Sel].(*types.Func); ok {
				w.addCallee(effFullName(f), "")
				continue
			}
		}
		p := w.a.fset.Position(s.e.Pos())
		f := p.Filename
		if i := strings.Index(f, "/pkg/"); i >= 0 {
			f = f[i+1:]
		}
		w.addUnres(fmt.Sprintf("%s: source at %s:%d not resolved", what, f, p.Line))
	}
}

// addLit makes a function literal found as a field source a node of its own (walked without binding).
func (w *effWalker) addLit(l *ast.FuncLit, s effSrc) {
	p := w.a.fset.Position(l.Pos())
	f := p.Filename
	if i := strings.Index(f, "/pkg/"); i >= 0 {
		f = f[i+1:]
	}
	k := fmt.Sprintf("lit@%s:%d:%d", f, p.Line, p.Column)
	if _, ok := w.a.fns[k]; !ok {
		fn := &effFn{key: k, pkg: s.p, typ: l.Type, body: l.Body}
		w.a.initFn(fn)
		w.a.fns[k] = fn
	}
	w.addCallee(k, "")
}

func effShort(k string) string {
	return strings.ReplaceAll(strings.ReplaceAll(k, effModule+"pkg/", ""), effModule, "")
}

// edges computes (memoised) the out-edges of a node at hardfork index hf.
func (a *effAnalysis) edges(node string, hf int) *effEdges {
	if sens, ok := a.hfSens[node]; ok {
		mk := node
		if sens {
			mk = fmt.Sprintf("%s@%d", node, hf)
		}
		if e, ok := a.memo[mk]; ok {
			return e
		}
	}
	fnKey, bind := effParseNode(node)
	fn := a.fns[fnKey]
	w := &effWalker{a: a, fn: fn, env: map[types.Object]effConst{}, hf: hf, out: &effEdges{}, seenC: map[string]bool{}}
	if bind != "" {
		for _, part := range strings.Split(bind, ",") {
			var i, c int
			fmt.Sscanf(part, "%d=%d", &i, &c)
			if i < len(fn.params) && fn.params[i] != nil {
				w.env[fn.params[i]] = effConst(c)
			}
		}
	}
	w.block(fn.body.List)
	a.hfSens[node] = w.hfUsed
	mk := node
	if w.hfUsed {
		mk = fmt.Sprintf("%s@%d", node, hf)
	}
	a.memo[mk] = w.out
	return w.out
}

type effReach struct {
	eff    int
	why    map[int][]string // effect bit -> call chain (function names) to the primitive
	unres  []string
	nnodes int
}

// reach computes the may-effects of an entry function at hardfork index hf.
func (a *effAnalysis) reach(entry string, hf int) effReach {
	start := effNodeKey(entry, "")
	parent := map[string]string{start: ""}
	queue := []string{start}
	res := effReach{why: map[int][]string{}}
	for len(queue) > 0 {
		n := queue[0]
		queue = queue[1:]
		e := a.edges(n, hf)
		for bit := 1; bit < 256; bit <<= 1 {
			if e.prims&bit != 0 && res.eff&bit == 0 {
				var chain []string
				for x := n; x != ""; x = parent[x] {
					k, b := effParseNode(x)
					if b != "" {
						k += "[" + b + "]"
					}
					chain = append([]string{effShort(k)}, chain...)
				}
				res.why[bit] = append(chain, e.primBy[bit])
			}
		}
		res.eff |= e.prims
		res.unres = append(res.unres, e.unres...)
		for _, c := range e.callees {
			if _, ok := parent[c]; !ok {
				parent[c] = n
				queue = append(queue, c)
			}
		}
	}
	res.nnodes = len(parent)
	return res
}

// ---- linked tables -> handler function keys ------------------------------------------------------------

// effHandlerKey converts a runtime function name (runtime.FuncForPC) into the go/types FullName form.
func effHandlerKey(f any) (string, error) {
	v := reflect.ValueOf(f)
	if !v.IsValid() || v.IsNil() {
		return "", fmt.Errorf("nil handler")
	}
	name := runtime.FuncForPC(v.Pointer()).Name()
	name = strings.TrimSuffix(name, "-fm")
	slash := strings.LastIndex(name, "/")
	dot := strings.Index(name[slash+1:], ".")
	if dot < 0 {
		return "", fmt.Errorf("unexpected function name %q", name)
	}
	pkg, rest := name[:slash+1+dot], name[slash+1+dot+1:]
	if strings.Contains(rest, ".func") {
		return "", fmt.Errorf("handler %q is a function literal", name)
	}
	switch {
	case strings.HasPrefix(rest, "(*"):
		i := strings.Index(rest, ")")
		return "(*" + pkg + "." + rest[2:i] + ")" + rest[i+1:], nil
	case strings.Contains(rest, "."):
		i := strings.Index(rest, ".")
		return "(" + pkg + "." + rest[:i] + ")" + rest[i:], nil
	}
	return pkg + "." + rest, nil
}

// triggerGuard: "T" if the first statement of the function is `if <x>.Trigger != trigger.T { …; return <non-nil> }`.
func (a *effAnalysis) triggerGuard(key string) string {
	fn := a.fns[key]
	if fn == nil || len(fn.body.List) == 0 {
		return ""
	}
	is, ok := fn.body.List[0].(*ast.IfStmt)
	if !ok || is.Init != nil || len(is.Body.List) == 0 {
		return ""
	}
	be, ok := is.Cond.(*ast.BinaryExpr)
	if !ok || be.Op != token.NEQ {
		return ""
	}
	l, ok1 := be.X.(*ast.SelectorExpr)
	r, ok2 := be.Y.(*ast.SelectorExpr)
	if !ok1 || !ok2 || l.Sel.Name != "Trigger" {
		return ""
	}
	info := fn.pkg.TypesInfo
	if sel := info.Selections[l]; sel == nil || sel.Kind() != types.FieldVal || !strings.HasSuffix(types.TypeString(sel.Recv(), nil), "pkg/core/interop.Context") {
		return ""
	}
	c, ok := info.Uses[r.Sel].(*types.Const)
	if !ok || c.Pkg() == nil || c.Pkg().Path() != effModule+"pkg/smartcontract/trigger" {
		return ""
	}
	ret, ok := is.Body.List[len(is.Body.List)-1].(*ast.ReturnStmt)
	if !ok || len(ret.Results) != 1 {
		return ""
	}
	if id, ok := ret.Results[0].(*ast.Ident); ok && id.Name == "nil" {
		return ""
	}
	return c.Name()
}

type effRow struct {
	contract, name, handler string
	nparams, from           int
	served                  []int
	effs                    []int
	why                     map[int][]string
}

func genEffects(repo string) (string, error) {
	a, err := newEffAnalysis(repo)
	if err != nil {
		return "", err
	}
	nhf := len(config.Hardforks) + 1
	rowFor := func(key string) (effRow, error) {
		if _, ok := a.fns[key]; !ok {
			return effRow{}, fmt.Errorf("handler %s not found in the loaded source", key)
		}
		r := effRow{handler: effShort(key), why: map[int][]string{}}
		for hf := 0; hf < nhf; hf++ {
			x := a.reach(key, hf)
			r.effs = append(r.effs, x.eff)
			for b, c := range x.why {
				r.why[b] = c // the chain at the latest hardfork index where the effect is possible
			}
			for _, u := range x.unres {
				a.unres[u] = true
			}
		}
		return r, nil
	}
	var b strings.Builder
	b.WriteString("namespace NeoModel.Generated.Effects\n\n")
	b.WriteString("/-- bits of a may-effect set: 1 read storage, 2 write storage, 4 start an execution context, 8 notify,\n    16 native cache access, 32 dispatch to a native method, 64 dispatch to a system call, 128 unresolved function value. -/\n")
	b.WriteString("def bitNames : List (Nat × String) := [(1, \"read\"), (2, \"write\"), (4, \"call\"), (8, \"notify\"), (16, \"cache\"), (32, \"natdisp\"), (64, \"sysdisp\"), (128, \"unresolved\")]\n\n")
	writeWhy := func(r effRow) {
		for _, bit := range []int{effWrite, effCall, effNotify, effNatDisp, effSysDisp, effUnres} {
			if c, ok := r.why[bit]; ok {
				fmt.Fprintf(&b, "  -- %d via %s\n", bit, strings.Join(c, " -> "))
			}
		}
	}
	list := func(xs []int) string {
		s := make([]string, len(xs))
		for i, x := range xs {
			s[i] = fmt.Sprint(x)
		}
		return "[" + strings.Join(s, ", ") + "]"
	}
	// system calls
	ic := &interop.Context{}
	core.SpawnVM(ic)
	fs := append([]interop.Function(nil), ic.Functions...)
	sort.Slice(fs, func(i, j int) bool { return fs[i].Name < fs[j].Name })
	b.WriteString("/-- (system call, handler, trigger guard, may-effects per hardfork index) for every entry of the linked table.\n    Trigger guard T: the handler's first statement is `if ic.Trigger != trigger.T { return <error> }` (\"\": none). -/\ndef syscalls : List (String × String × String × List Nat) := [\n")
	for i, f := range fs {
		k, err := effHandlerKey(f.Func)
		if err != nil {
			return "", fmt.Errorf("%s: %v", f.Name, err)
		}
		r, err := rowFor(k)
		if err != nil {
			return "", fmt.Errorf("%s: %v", f.Name, err)
		}
		writeWhy(r)
		sep := ","
		if i == len(fs)-1 {
			sep = ""
		}
		fmt.Fprintf(&b, "  (%s, %s, %s, %s)%s\n", leanStr(f.Name), leanStr(r.handler), leanStr(a.triggerGuard(k)), list(r.effs), sep)
	}
	b.WriteString("]\n\n")
	// CALLT
	r, err := rowFor(effModule + "pkg/core/interop/contract.LoadToken")
	if err != nil {
		return "", err
	}
	b.WriteString("/-- the CALLT instruction: contract.LoadToken. -/\n")
	writeWhy(r)
	fmt.Fprintf(&b, "def callt : String × List Nat := (%s, %s)\n\n", leanStr(r.handler), list(r.effs))
	// natives
	hfs := append([]config.Hardfork{config.HFDefault}, config.Hardforks...)
	type nk struct {
		c, n       string
		np, fr     int
		handler    string
		deferrable bool
	}
	var rows []effRow
	for _, c := range native.NewDefaultContracts(config.ProtocolConfiguration{}) {
		md := c.Metadata()
		seen := map[nk]int{}
		start := 0
		if act := c.ActiveIn(); act != nil {
			start = hfIndex(*act)
		}
		for i := start; i < len(hfs); i++ {
			hf := hfs[i]
			for _, m := range md.HFSpecificContractMD(&hf).Methods {
				var h any = m.Func
				if m.DeferrableFunc != nil {
					h = m.DeferrableFunc
				}
				k, err := effHandlerKey(h)
				if err != nil {
					return "", fmt.Errorf("%s.%s: %v", md.Name, m.MD.Name, err)
				}
				key := nk{md.Name, m.MD.Name, len(m.MD.Parameters), 0, k, m.DeferrableFunc != nil}
				if j, ok := seen[key]; ok {
					rows[j].served = append(rows[j].served, i)
					continue
				}
				seen[key] = len(rows)
				r, err := rowFor(k)
				if err != nil {
					return "", fmt.Errorf("%s.%s: %v", md.Name, m.MD.Name, err)
				}
				r.contract, r.name, r.nparams, r.from, r.served = md.Name, m.MD.Name, len(m.MD.Parameters), i, []int{i}
				rows = append(rows, r)
			}
		}
	}
	sort.SliceStable(rows, func(i, j int) bool {
		x, y := rows[i], rows[j]
		if x.contract != y.contract {
			return x.contract < y.contract
		}
		if x.name != y.name {
			return x.name < y.name
		}
		if x.nparams != y.nparams {
			return x.nparams < y.nparams
		}
		return x.from < y.from
	})
	b.WriteString("/-- (contract, method, parameter count, hardfork indexes at which this handler serves the method,\n    handler, may-effects per hardfork index) for every (method, handler) of the linked native contracts. -/\ndef natives : List (String × String × Nat × List Nat × String × List Nat) := [\n")
	for i, r := range rows {
		writeWhy(r)
		sep := ","
		if i == len(rows)-1 {
			sep = ""
		}
		fmt.Fprintf(&b, "  (%s, %s, %d, %s, %s, %s)%s\n", leanStr(r.contract), leanStr(r.name), r.nparams, list(r.served), leanStr(r.handler), list(r.effs), sep)
	}
	b.WriteString("]\n\n")
	var us []string
	for u := range a.unres {
		us = append(us, u)
	}
	sort.Strings(us)
	b.WriteString("/-- function values reached by the walk that it could not resolve: (what, full description). -/\ndef unresolved : List (String × String) := [\n")
	for i, u := range us {
		sep := ","
		if i == len(us)-1 {
			sep = ""
		}
		head := u
		if j := strings.Index(u, " at "); j >= 0 {
			head = u[:j]
		}
		fmt.Fprintf(&b, "  (%s, %s)%s\n", leanStr(head), leanStr(u), sep)
	}
	b.WriteString("]\n\nend NeoModel.Generated.Effects\n")
	return b.String(), nil
}
