// C16: Permission.IsAllowed / IsValid, PermissionDesc.Compare, the wildcard containers, Group.IsValid and the flag
// check of SyscallHandler for the
// Go->Lean translator of gofuncs.go (appended to its spec list; a function outside the supported subset is reported
// as NOT TRANSLATED and only breaks the theorems that mention it).
package main

func init() {
	gfSpecs = append(gfSpecs,
		gfSpec{Pkg: "./pkg/smartcontract/manifest", Recv: "Permission", Func: "IsAllowed", Lean: "permissionIsAllowed"},
		gfSpec{Pkg: "./pkg/smartcontract/manifest", Recv: "WildStrings", Func: "Contains", Lean: "wildStringsContains"},
		gfSpec{Pkg: "./pkg/smartcontract/manifest", Recv: "WildPermissionDescs", Func: "Contains", Lean: "wildDescsContains"},
		gfSpec{Pkg: "./pkg/smartcontract/manifest", Recv: "Permission", Func: "IsValid", Lean: "manifestPermissionIsValid"},
		gfSpec{Pkg: "./pkg/smartcontract/manifest", Recv: "PermissionDesc", Func: "Compare", Lean: "permissionDescCompare"},
		gfSpec{Pkg: "./pkg/smartcontract/manifest", Recv: "Group", Func: "IsValid", Lean: "manifestGroupIsValid"},
		gfSpec{Pkg: "./pkg/core/interop", Recv: "Context", Func: "SyscallHandler", Lean: "interopSyscallHandler"},
		// translator v2: bit operations, string comparisons
		gfSpec{Pkg: "./pkg/core/interop/contract", Func: "callInternal", Lean: "contractCallInternal", Sink: "callExFromNative"},
		gfSpec{Pkg: "./pkg/core/interop/contract", Func: "callInternal", Lean: "contractCallInternalOutcome"},
		gfSpec{Pkg: "./pkg/core/interop/runtime", Func: "LoadScript", Lean: "runtimeLoadScript", Sink: "ic.VM.LoadDynamicScript"},
		gfSpec{Pkg: "./pkg/core/native", Func: "Call", Lean: "nativeCall"},
		gfSpec{Pkg: "./pkg/smartcontract/callflag", Recv: "CallFlag", Func: "Has", Lean: "callflagHas"},
		gfSpec{Pkg: "./pkg/smartcontract/manifest", Recv: "Manifest", Func: "IsValid", Lean: "manifestIsValid"},
		gfSpec{Pkg: "./pkg/smartcontract/manifest", Recv: "Method", Func: "IsValid", Lean: "manifestMethodIsValid"},
		gfSpec{Pkg: "./pkg/smartcontract/manifest", Recv: "Parameter", Func: "IsValid", Lean: "manifestParameterIsValid"},
		gfSpec{Pkg: "./pkg/smartcontract/manifest", Recv: "Event", Func: "IsValid", Lean: "manifestEventIsValid"},
		gfSpec{Pkg: "./pkg/core/interop/contract", Func: "CallFromNative", Lean: "contractCallFromNative", Sink: "callExFromNative"},
	)
}
