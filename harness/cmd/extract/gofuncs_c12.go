// C12: functions of the VM's limit checks for the Go->Lean translator of gofuncs.go (appended to its spec
// list; a function outside the supported subset is reported as NOT TRANSLATED and only breaks the theorems
// of lean/NeoModel/Proofs/GoFuncs/C12.lean that mention it). toInt / CheckIntegerSize are translated by the
// C13 specs (vmToInt, vmCheckIntegerSize) — never list them here again: a duplicate definition breaks
// Generated/GoFuncs.lean for everybody.
package main

func init() {
	gfSpecs = append(gfSpecs,
		gfSpec{Pkg: "./pkg/vm", Recv: "VM", Func: "checkInvocationStackSize", Lean: "vmCheckInvocationStackSize"},
		gfSpec{Pkg: "./pkg/vm", Recv: "VM", Func: "addPicoGasInternal", Lean: "vmAddPicoGasInternal"},
	)
}
