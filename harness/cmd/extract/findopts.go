package main

import (
	"fmt"
	"go/ast"
	"go/parser"
	"go/token"
	"path/filepath"
	"strconv"
	"strings"
)

// FindOpts (C03): the System.Storage.Find option constants of pkg/core/interop/storage/find.go and
// the option validity check of findWithContext as a truth table: for every option byte 0..255 the
// 1-based index of the first `if <cond on opts> { return fmt.Errorf(...) }` statement of
// findWithContext that fires (0 = all pass), obtained by interpreting the conditions' syntax trees.
// The Lean model's `checkOpts` is proved equal to this table (Props/C03.lean `checkOpts_table`).
func init() { register("FindOpts", genFindOpts) }

func foEval(e ast.Expr, env map[string]int64) (int64, error) {
	switch x := e.(type) {
	case *ast.BasicLit:
		return strconv.ParseInt(x.Value, 0, 64)
	case *ast.Ident:
		if v, ok := env[x.Name]; ok {
			return v, nil
		}
		return 0, fmt.Errorf("unknown identifier %s", x.Name)
	case *ast.ParenExpr:
		return foEval(x.X, env)
	case *ast.BinaryExpr:
		a, err := foEval(x.X, env)
		if err != nil {
			return 0, err
		}
		b, err := foEval(x.Y, env)
		if err != nil {
			return 0, err
		}
		bi := func(c bool) int64 {
			if c {
				return 1
			}
			return 0
		}
		switch x.Op {
		case token.SHL:
			return a << uint(b), nil
		case token.OR:
			return a | b, nil
		case token.AND:
			return a & b, nil
		case token.AND_NOT:
			return a &^ b, nil
		case token.NEQ:
			return bi(a != b), nil
		case token.EQL:
			return bi(a == b), nil
		case token.LAND:
			return bi(a != 0 && b != 0), nil
		case token.LOR:
			return bi(a != 0 || b != 0), nil
		}
		return 0, fmt.Errorf("unsupported operator %s", x.Op)
	}
	return 0, fmt.Errorf("unsupported expression %T", e)
}

func foMentions(e ast.Expr, name string) bool {
	found := false
	ast.Inspect(e, func(n ast.Node) bool {
		if id, ok := n.(*ast.Ident); ok && id.Name == name {
			found = true
		}
		return true
	})
	return found
}

func genFindOpts(repo string) (string, error) {
	fset := token.NewFileSet()
	f, err := parser.ParseFile(fset, filepath.Join(repo, "pkg/core/interop/storage/find.go"), nil, 0)
	if err != nil {
		return "", err
	}
	env := map[string]int64{}
	var names []string
	var conds []ast.Expr
	var msgs []string
	for _, d := range f.Decls {
		switch x := d.(type) {
		case *ast.GenDecl:
			if x.Tok != token.CONST {
				continue
			}
			for _, s := range x.Specs {
				vs := s.(*ast.ValueSpec)
				for i, n := range vs.Names {
					if !strings.HasPrefix(n.Name, "Find") || i >= len(vs.Values) {
						continue
					}
					v, err := foEval(vs.Values[i], env)
					if err != nil {
						return "", fmt.Errorf("const %s: %w", n.Name, err)
					}
					env[n.Name] = v
					names = append(names, n.Name)
				}
			}
		case *ast.FuncDecl:
			if x.Name.Name != "findWithContext" {
				continue
			}
			for _, st := range x.Body.List {
				is, ok := st.(*ast.IfStmt)
				if !ok || is.Init != nil || !foMentions(is.Cond, "opts") {
					continue
				}
				msg := ""
				ast.Inspect(is.Body, func(n ast.Node) bool {
					if bl, ok := n.(*ast.BasicLit); ok && bl.Kind == token.STRING && msg == "" {
						msg, _ = strconv.Unquote(bl.Value)
					}
					return true
				})
				conds = append(conds, is.Cond)
				msgs = append(msgs, msg)
			}
		}
	}
	if len(names) == 0 || len(conds) == 0 {
		return "", fmt.Errorf("find.go: constants (%d) or option checks (%d) not found", len(names), len(conds))
	}
	var b strings.Builder
	b.WriteString("namespace NeoModel.Generated.FindOpts\n")
	for _, n := range names {
		fmt.Fprintf(&b, "def %s : Nat := %d\n", strings.ToLower(n[:1])+n[1:], env[n])
	}
	fmt.Fprintf(&b, "/-- messages of the option checks of findWithContext, in source order. -/\ndef checkMsgs : List String := [")
	for i, m := range msgs {
		if i > 0 {
			b.WriteString(", ")
		}
		fmt.Fprintf(&b, "%q", m)
	}
	b.WriteString("]\n")
	b.WriteString("/-- for opts = 0..255: 1-based index of the first check that fires, 0 = valid. -/\ndef firstFailing : List Nat := [")
	for u := 0; u < 256; u++ {
		env["opts"] = int64(u)
		idx := 0
		for i, c := range conds {
			v, err := foEval(c, env)
			if err != nil {
				return "", fmt.Errorf("check %d: %w", i+1, err)
			}
			if v != 0 {
				idx = i + 1
				break
			}
		}
		if u > 0 {
			b.WriteString(", ")
		}
		fmt.Fprintf(&b, "%d", idx)
	}
	b.WriteString("]\n")
	// the first check on a pattern with a bit above the low byte (sign-extended int64 values included)
	env["opts"] = 256
	v, err := foEval(conds[0], env)
	if err != nil {
		return "", err
	}
	fmt.Fprintf(&b, "/-- the first check fires on bit 8 (it is the unknown-flag test `opts&^FindAll != 0`). -/\ndef firstCatchesHigh : Bool := %v\n", v != 0)
	b.WriteString("end NeoModel.Generated.FindOpts\n")
	return b.String(), nil
}
