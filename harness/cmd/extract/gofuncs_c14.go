package main

// gofuncs_c14.go — loop-free functions of the instruction emitter (pkg/vm/emit) that the compiler model (C14)
// mirrors, translated on every run; the equalities with the hand-written model are proved in
// lean/NeoModel/Proofs/GoFuncs/C14Model.lean.
func init() {
	gfSpecs = append(gfSpecs,
		gfSpec{Pkg: "./pkg/vm/emit", Func: "smallInt", Lean: "emitSmallInt"},
		gfSpec{Pkg: "./pkg/vm/emit", Func: "isInstructionJmp", Lean: "emitIsInstructionJmp"},
	)
}
