package main

import (
	"bytes"
	"fmt"
	"sort"
	"strings"

	"github.com/nspcc-dev/neo-go/pkg/core/dao"
	"github.com/nspcc-dev/neo-go/pkg/core/interop"
	istorage "github.com/nspcc-dev/neo-go/pkg/core/interop/storage"
	"github.com/nspcc-dev/neo-go/pkg/core/statesync"
	"github.com/nspcc-dev/neo-go/pkg/core/storage"
	"github.com/nspcc-dev/neo-go/pkg/vm"
	"github.com/nspcc-dev/neo-go/pkg/vm/stackitem"
)

// StoreConsts (C09): what the DAO / Find wrappers of the store are made of, read off the LINKED code
// (this binary is built against /repo, with the same -overlay as the harnesses):
//   - the two storage key prefixes and statesync.TemporaryPrefix of each,
//   - the System.Storage.Find option bits,
//   - for every option word 0..511 whether istorage.Find accepts it (by calling it on an empty DAO),
//   - the raw store key dao.PutStorageItem produces for the item key [ab cd] of a list of contract ids
//     under both storage prefixes (by writing through a DAO and looking into the MemoryStore).
// Props/C09c.lean proves the model's constants, option check and key construction equal to these.
func init() { register("StoreConsts", genStoreConsts) }

var storeConstIDs = []int32{0, 1, 5, 6, -1, -5, -11, 255, 256, 1280, 1285, 28677, 65536, 0x70707070, 0x05000000, 2147483647, -2147483648}

func findAccepts(opts int64) (ok bool) {
	defer func() {
		if recover() != nil {
			ok = false
		}
	}()
	ic := &interop.Context{VM: vm.New(), DAO: dao.NewSimple(storage.NewMemoryStore(), false)}
	ic.VM.Estack().PushVal(opts)
	ic.VM.Estack().PushVal([]byte{1})
	ic.VM.Estack().PushItem(stackitem.NewInterop(&istorage.Context{ID: 5}))
	err := istorage.Find(ic)
	ic.Finalize()
	return err == nil
}

func rawItemKey(sp storage.KeyPrefix, id int32) ([]byte, error) {
	ms := storage.NewMemoryStore()
	d := dao.NewSimple(ms, false)
	d.Version.StoragePrefix = sp
	d.PutStorageItem(id, []byte{0xab, 0xcd}, []byte{1})
	if _, err := d.Persist(); err != nil {
		return nil, err
	}
	var keys [][]byte
	for _, p := range []storage.KeyPrefix{storage.STStorage, storage.STTempStorage} {
		ms.Seek(storage.SeekRange{Prefix: []byte{byte(p)}}, func(k, v []byte) bool {
			keys = append(keys, bytes.Clone(k))
			return true
		})
	}
	if len(keys) != 1 {
		return nil, fmt.Errorf("PutStorageItem(%d) under prefix %#x left %d storage keys", id, byte(sp), len(keys))
	}
	return keys[0], nil
}

func genStoreConsts(repo string) (string, error) {
	var b strings.Builder
	b.WriteString("namespace NeoModel.Generated.StoreConsts\n")
	fmt.Fprintf(&b, "def stStorage : Nat := %d\n", byte(storage.STStorage))
	fmt.Fprintf(&b, "def stTempStorage : Nat := %d\n", byte(storage.STTempStorage))
	fmt.Fprintf(&b, "def temporaryOfStorage : Nat := %d\n", byte(statesync.TemporaryPrefix(storage.STStorage)))
	fmt.Fprintf(&b, "def temporaryOfTemp : Nat := %d\n", byte(statesync.TemporaryPrefix(storage.STTempStorage)))
	fmt.Fprintf(&b, "def findKeysOnly : Nat := %d\n", istorage.FindKeysOnly)
	fmt.Fprintf(&b, "def findRemovePrefix : Nat := %d\n", istorage.FindRemovePrefix)
	fmt.Fprintf(&b, "def findValuesOnly : Nat := %d\n", istorage.FindValuesOnly)
	fmt.Fprintf(&b, "def findDeserialize : Nat := %d\n", istorage.FindDeserialize)
	fmt.Fprintf(&b, "def findPick0 : Nat := %d\n", istorage.FindPick0)
	fmt.Fprintf(&b, "def findPick1 : Nat := %d\n", istorage.FindPick1)
	fmt.Fprintf(&b, "def findBackwards : Nat := %d\n", istorage.FindBackwards)
	fmt.Fprintf(&b, "def findAll : Nat := %d\n", istorage.FindAll)
	b.WriteString("/-- for opts = 0..511: does System.Storage.Find accept the option word (istorage.Find returns no error). -/\n")
	b.WriteString("def findAccepts : List Bool := [")
	for o := int64(0); o < 512; o++ {
		if o > 0 {
			b.WriteString(", ")
		}
		fmt.Fprintf(&b, "%v", findAccepts(o))
	}
	b.WriteString("]\n")
	hi := true
	for s := uint(9); s < 63; s++ {
		if findAccepts(int64(1)<<s) || findAccepts(int64(1)<<s|istorage.FindKeysOnly) {
			hi = false
		}
	}
	fmt.Fprintf(&b, "/-- every single higher bit 2^9..2^62 (alone and with KeysOnly) is refused. -/\ndef highBitsRefused : Bool := %v\n", hi)
	b.WriteString("/-- (contract id, storage prefix byte, raw store key of the contract's item key [0xab, 0xcd]). -/\n")
	b.WriteString("def keySamples : List (Int × Nat × List Nat) := [")
	ids := append([]int32{}, storeConstIDs...)
	sort.Slice(ids, func(i, j int) bool { return ids[i] < ids[j] })
	first := true
	for _, sp := range []storage.KeyPrefix{storage.STStorage, storage.STTempStorage} {
		for _, id := range ids {
			k, err := rawItemKey(sp, id)
			if err != nil {
				return "", err
			}
			if !first {
				b.WriteString(", ")
			}
			first = false
			parts := make([]string, len(k))
			for i, x := range k {
				parts[i] = fmt.Sprint(x)
			}
			idTxt := fmt.Sprint(id)
			if id < 0 {
				idTxt = "(" + idTxt + ")"
			}
			fmt.Fprintf(&b, "(%s, %d, [%s])", idTxt, byte(sp), strings.Join(parts, ", "))
		}
	}
	b.WriteString("]\n")
	b.WriteString("end NeoModel.Generated.StoreConsts\n")
	return b.String(), nil
}
