// C18: functions of the key / script / integer-size code for the Go->Lean translator of gofuncs.go.
package main

func init() {
	gfSpecs = append(gfSpecs,
		gfSpec{Pkg: "./pkg/crypto/keys", Recv: "PublicKey", Func: "Cmp", Lean: "publicKeyCmp"},
		gfSpec{Pkg: "./pkg/crypto/keys", Recv: "PublicKey", Func: "sizeSerialized", Lean: "publicKeySizeSerialized"},
		gfSpec{Pkg: "./pkg/crypto/keys", Recv: "PublicKey", Func: "Verify", Lean: "publicKeyVerify"},
		gfSpec{Pkg: "./pkg/crypto/keys", Recv: "PublicKey", Func: "IsInfinity", Lean: "publicKeyIsInfinity"},
		gfSpec{Pkg: "./pkg/crypto/keys", Func: "validateNEP2Format", Lean: "validateNEP2Format"},
		gfSpec{Pkg: "./pkg/vm/stackitem", Func: "CheckIntegerSize", Lean: "stackitemCheckIntegerSize"},
	)
}
