// C18: functions of the key / script / integer-size code for the Go->Lean translator of gofuncs.go.
package main

func init() {
	gfSpecs = append(gfSpecs,
		gfSpec{Pkg: "./pkg/crypto/keys", Recv: "PublicKey", Func: "Cmp", Lean: "publicKeyCmp"},
		gfSpec{Pkg: "./pkg/crypto/keys", Recv: "PublicKey", Func: "sizeSerialized", Lean: "publicKeySizeSerialized"},
		gfSpec{Pkg: "./pkg/crypto/keys", Recv: "PublicKey", Func: "Verify", Lean: "publicKeyVerify"},
		gfSpec{Pkg: "./pkg/crypto/keys", Recv: "PublicKey", Func: "IsInfinity", Lean: "publicKeyIsInfinity"},
		gfSpec{Pkg: "./pkg/crypto/keys", Func: "validateNEP2Format", Lean: "validateNEP2Format"},
		gfSpec{Pkg: "./pkg/vm/stackitem", Func: "CheckIntegerSize", Lean: "stackitemCheckIntegerSize"},
		gfSpec{Pkg: "./pkg/smartcontract/scparser", Func: "getNumOfThingsFromInstr", Lean: "getNumOfThingsFromInstr"},
		gfSpec{Pkg: "./pkg/smartcontract/scparser", Func: "GetBigIntFromInstr", Lean: "getBigIntFromInstr"},
		gfSpec{Pkg: "./pkg/vm/emit", Func: "smallInt", Lean: "emitSmallInt"},
		gfSpec{Pkg: "./pkg/vm/emit", Func: "Bytes", Lean: "emitBytes"},
		gfSpec{Pkg: "./pkg/crypto/keys", Recv: "PublicKey", Func: "DecodeBinary", Lean: "publicKeyDecodeBinary"},
		gfSpec{Pkg: "./pkg/crypto/keys", Recv: "PublicKey", Func: "DecodeBytes", Lean: "publicKeyDecodeBytes"},
		gfSpec{Pkg: "./pkg/crypto/keys", Func: "NewPublicKeyFromBytes", Lean: "newPublicKeyFromBytes"},
		gfSpec{Pkg: "./pkg/crypto/keys", Func: "NewPrivateKeyFromBytes", Lean: "newPrivateKeyFromBytes"},
		gfSpec{Pkg: "./pkg/encoding/fixedn", Func: "FromString", Lean: "fixednFromString"},
		gfSpec{Pkg: "./pkg/util", Func: "Uint160DecodeBytesBE", Lean: "uint160DecodeBytesBE"},
		gfSpec{Pkg: "./pkg/vm/emit", Func: "Int", Lean: "emitInt"},
		gfSpec{Pkg: "./pkg/vm/emit", Func: "bigInt", Lean: "emitBigInt"},
		gfSpec{Pkg: "./pkg/encoding/fixedn", Func: "Fixed8FromString", Lean: "fixed8FromString"},
		gfSpec{Pkg: "./pkg/core/fee", Func: "pushIntSize", Lean: "feePushIntSize"},
	)
}
