package main

// C01's functions for the Go->Lean translator (gofuncs.go): the guards of the committee setters outside Policy.
// The equalities `model guard = generated` are lean/NeoModel/Proofs/LedgerGuardsTie.lean.
func init() {
	gfSpecs = append(gfSpecs,
		gfSpec{Pkg: "./pkg/core/native", Recv: "Notary", Func: "setMaxNotValidBeforeDelta", Lean: "notarySetMaxNotValidBeforeDelta", Sink: "setIntWithKey"},
		gfSpec{Pkg: "./pkg/core/native", Recv: "Oracle", Func: "setPrice", Lean: "oracleSetPrice", Sink: "setIntWithKey"},
		gfSpec{Pkg: "./pkg/core/native", Recv: "NEO", Func: "setRegisterPrice", Lean: "neoSetRegisterPrice", Sink: "setIntWithKey"},
		gfSpec{Pkg: "./pkg/core/native", Recv: "NEO", Func: "SetGASPerBlock", Lean: "neoSetGASPerBlock", Sink: "n.putGASRecord"},
		gfSpec{Pkg: "./pkg/core/native", Recv: "Management", Func: "setMinimumDeploymentFee", Lean: "managementSetMinimumDeploymentFee", Sink: "ic.DAO.PutStorageItem"},
		gfSpec{Pkg: "./pkg/core/native", Recv: "Designate", Func: "getRole", Lean: "designateGetRole"},
		gfSpec{Pkg: "./pkg/core/native", Recv: "NEO", Func: "CheckAlmostFullCommittee", Lean: "neoCheckAlmostFullCommittee", Sink: "smartcontract.CreateMultiSigRedeemScript"},
	)
}
