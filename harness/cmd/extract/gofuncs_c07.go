// C07: functions of the fee / block sizing path for the Go->Lean translator of gofuncs.go (appended to its spec
// list; a function outside the supported subset is reported as NOT TRANSLATED and only breaks the theorems that
// mention it).
package main

func init() {
	gfSpecs = append(gfSpecs,
		gfSpec{Pkg: "./pkg/core/block", Recv: "Block", Func: "GetExpectedBlockSizeWithoutTransactions", Lean: "expectedBlockSizeWithoutTransactions"},
		gfSpec{Pkg: "./pkg/vm", Func: "PicoGasToDatoshiInt64", Lean: "picoGasToDatoshiInt64"},
		gfSpec{Pkg: "./pkg/smartcontract/scparser", Func: "IsStandardContract", Lean: "isStandardContract"},
		gfSpec{Pkg: "./pkg/core/mempool", Func: "checkBalance", Lean: "mempoolCheckBalance"},
	)
}
