package main

// Table "Interops" (property C16): every system call of the linked node (name, id, required call
// flags, price, activation hardfork), the same table re-read from the source text of
// pkg/core/interops.go with go/ast (cross-checked in Lean), and the call-flag constants that the
// contract-call code contains literally (masks in call.go / runtime/engine.go / interop/context.go).

import (
	"fmt"
	"go/ast"
	"go/parser"
	"go/token"
	"path/filepath"
	"sort"
	"strconv"
	"strings"

	"github.com/nspcc-dev/neo-go/pkg/config"
	"github.com/nspcc-dev/neo-go/pkg/core"
	"github.com/nspcc-dev/neo-go/pkg/core/interop"
	"github.com/nspcc-dev/neo-go/pkg/smartcontract/callflag"
)

func init() { register("Interops", genInterops) }

// callflagConsts maps the identifiers of package callflag to their linked values.
var callflagConsts = map[string]int{
	"ReadStates":  int(callflag.ReadStates),
	"WriteStates": int(callflag.WriteStates),
	"AllowCall":   int(callflag.AllowCall),
	"AllowNotify": int(callflag.AllowNotify),
	"States":      int(callflag.States),
	"ReadOnly":    int(callflag.ReadOnly),
	"All":         int(callflag.All),
	"NoneFlag":    int(callflag.NoneFlag),
}

// evalFlags evaluates a constant expression over callflag.* identifiers. Sub-expressions that are
// not call-flag constants evaluate to `unknown` (the caller decides what that means); ok=false if
// the expression has a shape we do not understand.
func evalFlags(e ast.Expr, unknown int) (int, bool) {
	switch x := e.(type) {
	case *ast.ParenExpr:
		return evalFlags(x.X, unknown)
	case *ast.SelectorExpr:
		if id, ok := x.X.(*ast.Ident); ok && id.Name == "callflag" {
			v, ok := callflagConsts[x.Sel.Name]
			return v, ok
		}
		return unknown, true
	case *ast.BinaryExpr:
		a, ok1 := evalFlags(x.X, unknown)
		b, ok2 := evalFlags(x.Y, unknown)
		if !ok1 || !ok2 {
			return 0, false
		}
		switch x.Op {
		case token.OR:
			return a | b, true
		case token.AND:
			return a & b, true
		case token.XOR:
			return a ^ b, true
		case token.AND_NOT:
			return a &^ b, true
		}
		return 0, false
	case *ast.Ident, *ast.CallExpr:
		return unknown, true
	}
	return 0, false
}

// hfIndex returns the position of a hardfork in [Default]+config.Hardforks.
func hfIndex(hf config.Hardfork) int {
	if hf == config.HFDefault {
		return 0
	}
	for i, h := range config.Hardforks {
		if h == hf {
			return i + 1
		}
	}
	return -1
}

func leanStr(s string) string { return strconv.Quote(s) }

func parseFile(repo, rel string) (*ast.File, error) {
	fset := token.NewFileSet()
	return parser.ParseFile(fset, effSourcePath(filepath.Join(repo, rel)), nil, 0)
}

// stringConsts collects `const X = "..."` declarations of a file.
func stringConsts(f *ast.File) map[string]string {
	res := map[string]string{}
	for _, d := range f.Decls {
		gd, ok := d.(*ast.GenDecl)
		if !ok || gd.Tok != token.CONST {
			continue
		}
		for _, s := range gd.Specs {
			vs := s.(*ast.ValueSpec)
			for i, n := range vs.Names {
				if i < len(vs.Values) {
					if bl, ok := vs.Values[i].(*ast.BasicLit); ok && bl.Kind == token.STRING {
						if v, err := strconv.Unquote(bl.Value); err == nil {
							res[n.Name] = v
						}
					}
				}
			}
		}
	}
	return res
}

type srcInterop struct {
	name  string
	flags int
}

// interopsFromSource re-reads `var systemInterops = []interop.Function{...}`.
func interopsFromSource(repo string) ([]srcInterop, error) {
	nf, err := parseFile(repo, "pkg/core/interop/interopnames/names.go")
	if err != nil {
		return nil, err
	}
	names := stringConsts(nf)
	f, err := parseFile(repo, "pkg/core/interops.go")
	if err != nil {
		return nil, err
	}
	var res []srcInterop
	found := false
	for _, d := range f.Decls {
		gd, ok := d.(*ast.GenDecl)
		if !ok || gd.Tok != token.VAR {
			continue
		}
		for _, s := range gd.Specs {
			vs := s.(*ast.ValueSpec)
			if len(vs.Names) != 1 || vs.Names[0].Name != "systemInterops" || len(vs.Values) != 1 {
				continue
			}
			cl, ok := vs.Values[0].(*ast.CompositeLit)
			if !ok {
				return nil, fmt.Errorf("systemInterops is not a composite literal")
			}
			found = true
			for _, el := range cl.Elts {
				ecl, ok := el.(*ast.CompositeLit)
				if !ok {
					return nil, fmt.Errorf("systemInterops element is not a composite literal")
				}
				it := srcInterop{flags: 0}
				haveName := false
				for _, kv := range ecl.Elts {
					k, ok := kv.(*ast.KeyValueExpr)
					if !ok {
						return nil, fmt.Errorf("positional field in systemInterops element")
					}
					switch k.Key.(*ast.Ident).Name {
					case "Name":
						switch nv := k.Value.(type) {
						case *ast.SelectorExpr:
							v, ok := names[nv.Sel.Name]
							if !ok {
								return nil, fmt.Errorf("unknown interop name constant %s", nv.Sel.Name)
							}
							it.name, haveName = v, true
						case *ast.BasicLit:
							v, err := strconv.Unquote(nv.Value)
							if err != nil {
								return nil, fmt.Errorf("bad interop name literal %s", nv.Value)
							}
							it.name, haveName = v, true
						default:
							return nil, fmt.Errorf("interop name is neither interopnames.X nor a literal")
						}
					case "RequiredFlags":
						v, ok := evalFlags(k.Value, -1)
						if !ok || v < 0 {
							return nil, fmt.Errorf("cannot evaluate RequiredFlags of %s", it.name)
						}
						it.flags = v
					}
				}
				if !haveName {
					return nil, fmt.Errorf("systemInterops element without Name")
				}
				res = append(res, it)
			}
		}
	}
	if !found {
		return nil, fmt.Errorf("var systemInterops not found in pkg/core/interops.go")
	}
	sort.Slice(res, func(i, j int) bool { return res[i].name < res[j].name })
	return res, nil
}

// findFunc returns the declaration of a top-level function.
func findFunc(f *ast.File, name string) *ast.FuncDecl {
	for _, d := range f.Decls {
		if fd, ok := d.(*ast.FuncDecl); ok && fd.Name.Name == name && fd.Body != nil {
			return fd
		}
	}
	return nil
}

// callMasks extracts the literal call-flag expressions of the contract-call path. A mask that is
// not found is reported as 255 (which no 4-bit flag set equals, so the Lean obligations break).
func callMasks(repo string) (map[string]int, error) {
	res := map[string]int{"callerFromContextSince": 255, "loadTokenReq": 255, "safeDropMask": 0, "safeDropCall": 0, "safeDropToken": 0, "callViaInternal": 0, "tokenViaInternal": 0, "childIsAnd": 0, "loadScriptMask": 255, "safeDefMask": 255, "callFromNativeFlags": 255}
	f, err := parseFile(repo, "pkg/core/interop/contract/call.go")
	if err != nil {
		return nil, err
	}
	// LoadToken: `if !ctx.GetCallFlags().Has(<expr>)`
	if fd := findFunc(f, "LoadToken"); fd != nil {
		ast.Inspect(fd.Body, func(n ast.Node) bool {
			if ce, ok := n.(*ast.CallExpr); ok && res["loadTokenReq"] == 255 {
				if sel, ok := ce.Fun.(*ast.SelectorExpr); ok && sel.Sel.Name == "Has" && len(ce.Args) == 1 {
					if v, ok := evalFlags(ce.Args[0], -1); ok && v >= 0 {
						res["loadTokenReq"] = v
					}
				}
			}
			return true
		})
	}
	// `if <md>.Safe { <f> &^= (<expr>) … }`: in callInternal (shared by System.Contract.Call and CALLT), or locally in
	// Call / LoadToken; and whether Call / LoadToken hand over to callInternal.
	safeDropIn := func(fn string) int {
		mask := 0
		if fd := findFunc(f, fn); fd != nil {
			ast.Inspect(fd.Body, func(n ast.Node) bool {
				if is, ok := n.(*ast.IfStmt); ok {
					if sel, ok := is.Cond.(*ast.SelectorExpr); ok && sel.Sel.Name == "Safe" {
						for _, st := range is.Body.List {
							if as, ok := st.(*ast.AssignStmt); ok && as.Tok == token.AND_NOT_ASSIGN && len(as.Rhs) == 1 {
								if v, ok := evalFlags(as.Rhs[0], -1); ok && v >= 0 {
									mask |= v
								}
							}
						}
					}
				}
				return true
			})
		}
		return mask
	}
	callsInternal := func(fn string) int {
		found := 0
		if fd := findFunc(f, fn); fd != nil {
			ast.Inspect(fd.Body, func(n ast.Node) bool {
				if ce, ok := n.(*ast.CallExpr); ok {
					if id, ok := ce.Fun.(*ast.Ident); ok && id.Name == "callInternal" {
						found = 1
					}
				}
				return true
			})
		}
		return found
	}
	// callInternal: `if ic.IsHardforkEnabled(config.HFx) { mfst = ctx.GetManifest() } else { … ic.GetContract(…) … }`
	if fd := findFunc(f, "callInternal"); fd != nil {
		ast.Inspect(fd.Body, func(n ast.Node) bool {
			is, ok := n.(*ast.IfStmt)
			if !ok || is.Else == nil || len(is.Body.List) != 1 {
				return true
			}
			ce, ok := is.Cond.(*ast.CallExpr)
			if !ok || len(ce.Args) != 1 {
				return true
			}
			if sel, ok := ce.Fun.(*ast.SelectorExpr); !ok || sel.Sel.Name != "IsHardforkEnabled" {
				return true
			}
			as, ok := is.Body.List[0].(*ast.AssignStmt)
			if !ok || len(as.Rhs) != 1 || !mentions(as.Rhs[0], "GetManifest") || !mentionsNode(is.Else, "GetContract") {
				return true
			}
			if idx, ok := hfByName(ce.Args[0]); ok {
				res["callerFromContextSince"] = idx
			}
			return true
		})
	}
	res["safeDropMask"] = safeDropIn("callInternal")
	res["safeDropCall"] = safeDropIn("Call")
	res["safeDropToken"] = safeDropIn("LoadToken")
	res["callViaInternal"] = callsInternal("Call")
	res["tokenViaInternal"] = callsInternal("LoadToken")
	// callExFromNative: `f = ic.VM.Context().GetCallFlags() & f`
	if fd := findFunc(f, "callExFromNative"); fd != nil {
		ast.Inspect(fd.Body, func(n ast.Node) bool {
			if as, ok := n.(*ast.AssignStmt); ok && as.Tok == token.ASSIGN && len(as.Lhs) == 1 && len(as.Rhs) == 1 {
				if id, ok := as.Lhs[0].(*ast.Ident); ok && id.Name == "f" {
					if be, ok := as.Rhs[0].(*ast.BinaryExpr); ok && be.Op == token.AND {
						isF := func(e ast.Expr) bool { i, ok := e.(*ast.Ident); return ok && i.Name == "f" }
						isGet := func(e ast.Expr) bool {
							ce, ok := e.(*ast.CallExpr)
							if !ok {
								return false
							}
							sel, ok := ce.Fun.(*ast.SelectorExpr)
							return ok && sel.Sel.Name == "GetCallFlags"
						}
						if (isF(be.X) && isGet(be.Y)) || (isF(be.Y) && isGet(be.X)) {
							res["childIsAnd"] = 1
						}
					}
				}
			}
			return true
		})
	}
	// CallFromNative: `callExFromNative(ic, caller, cs, method, args, <flags>, ...)`
	if fd := findFunc(f, "CallFromNative"); fd != nil {
		ast.Inspect(fd.Body, func(n ast.Node) bool {
			if ce, ok := n.(*ast.CallExpr); ok {
				if id, ok := ce.Fun.(*ast.Ident); ok && id.Name == "callExFromNative" && len(ce.Args) >= 6 {
					if v, ok := evalFlags(ce.Args[5], -1); ok && v >= 0 {
						res["callFromNativeFlags"] = v
					}
				}
			}
			return true
		})
	}
	// runtime.LoadScript: `fs = ic.VM.Context().GetCallFlags() & callflag.ReadOnly & fs`
	g, err := parseFile(repo, "pkg/core/interop/runtime/engine.go")
	if err != nil {
		return nil, err
	}
	if fd := findFunc(g, "LoadScript"); fd != nil {
		ast.Inspect(fd.Body, func(n ast.Node) bool {
			if as, ok := n.(*ast.AssignStmt); ok && as.Tok == token.ASSIGN && len(as.Lhs) == 1 && len(as.Rhs) == 1 {
				if id, ok := as.Lhs[0].(*ast.Ident); ok && id.Name == "fs" {
					if onlyAnd(as.Rhs[0]) && mentions(as.Rhs[0], "fs") && mentions(as.Rhs[0], "GetCallFlags") {
						if v, ok := evalFlags(as.Rhs[0], int(callflag.All)); ok {
							res["loadScriptMask"] = v
						}
					}
				}
			}
			return true
		})
	}
	// ContractMD.AddMethod: `desc.Safe = md.RequiredFlags&(<expr>) == 0`
	h, err := parseFile(repo, "pkg/core/interop/context.go")
	if err != nil {
		return nil, err
	}
	for _, d := range h.Decls {
		fd, ok := d.(*ast.FuncDecl)
		if !ok || fd.Name.Name != "AddMethod" || fd.Body == nil {
			continue
		}
		ast.Inspect(fd.Body, func(n ast.Node) bool {
			if as, ok := n.(*ast.AssignStmt); ok && len(as.Lhs) == 1 && len(as.Rhs) == 1 {
				if sel, ok := as.Lhs[0].(*ast.SelectorExpr); ok && sel.Sel.Name == "Safe" {
					if be, ok := as.Rhs[0].(*ast.BinaryExpr); ok && be.Op == token.EQL {
						if bl, ok := be.Y.(*ast.BasicLit); ok && bl.Value == "0" {
							if in, ok := be.X.(*ast.BinaryExpr); ok && in.Op == token.AND && mentions(in.X, "RequiredFlags") {
								if v, ok := evalFlags(in.Y, -1); ok && v >= 0 {
									res["safeDefMask"] = v
								}
							}
						}
					}
				}
			}
			return true
		})
	}
	return res, nil
}

func onlyAnd(e ast.Expr) bool {
	switch x := e.(type) {
	case *ast.ParenExpr:
		return onlyAnd(x.X)
	case *ast.BinaryExpr:
		return x.Op == token.AND && onlyAnd(x.X) && onlyAnd(x.Y)
	}
	return true
}

func mentions(e ast.Expr, name string) bool { return mentionsNode(e, name) }

func mentionsNode(e ast.Node, name string) bool {
	found := false
	ast.Inspect(e, func(n ast.Node) bool {
		if id, ok := n.(*ast.Ident); ok && id.Name == name {
			found = true
		}
		return true
	})
	return found
}

// linkedInterops returns the interop table of the linked node (core.SpawnVM installs it).
func linkedInterops() []interop.Function {
	ic := &interop.Context{}
	core.SpawnVM(ic)
	fs := append([]interop.Function(nil), ic.Functions...)
	sort.Slice(fs, func(i, j int) bool { return fs[i].Name < fs[j].Name })
	return fs
}

func genInterops(repo string) (string, error) {
	var b strings.Builder
	b.WriteString("namespace NeoModel.Generated.Interops\n\n")
	b.WriteString("structure Entry where\n  name : String\n  id : Nat\n  flags : Nat\n  price : Nat\n  activeFrom : Nat\nderiving Repr, DecidableEq\n\n")
	b.WriteString("/-- [Default] ++ config.Hardforks, by index. -/\ndef hardforks : List String := [")
	b.WriteString(leanStr(config.HFDefault.String()))
	for _, h := range config.Hardforks {
		b.WriteString(", " + leanStr(h.String()))
	}
	b.WriteString("]\n\n")
	b.WriteString("/-- the linked node's system-call table (core.SpawnVM), sorted by name. -/\ndef table : List Entry := [\n")
	fs := linkedInterops()
	for i, f := range fs {
		idx := hfIndex(f.ActiveFrom)
		if idx < 0 || f.Price < 0 {
			return "", fmt.Errorf("interop %s: unexpected hardfork/price", f.Name)
		}
		sep := ","
		if i == len(fs)-1 {
			sep = ""
		}
		fmt.Fprintf(&b, "  ⟨%s, %d, %d, %d, %d⟩%s\n", leanStr(f.Name), f.ID, int(f.RequiredFlags), f.Price, idx, sep)
	}
	b.WriteString("]\n\n")
	src, err := interopsFromSource(repo)
	if err != nil {
		return "", err
	}
	b.WriteString("/-- (name, required flags) re-read from the text of pkg/core/interops.go (go/ast), sorted by name. -/\ndef sourceTable : List (String × Nat) := [\n")
	for i, s := range src {
		sep := ","
		if i == len(src)-1 {
			sep = ""
		}
		fmt.Fprintf(&b, "  (%s, %d)%s\n", leanStr(s.name), s.flags, sep)
	}
	b.WriteString("]\n\n")
	m, err := callMasks(repo)
	if err != nil {
		return "", err
	}
	b.WriteString("-- literal call-flag expressions of the contract-call path (255 = pattern not found in the source)\n")
	fmt.Fprintf(&b, "/-- contract/call.go LoadToken: `ctx.GetCallFlags().Has(…)`. -/\ndef loadTokenReq : Nat := %d\n", m["loadTokenReq"])
	fmt.Fprintf(&b, "/-- contract/call.go callInternal (shared by System.Contract.Call and CALLT): `if md.Safe { f &^= (…) }` (0: none). -/\ndef safeDropMask : Nat := %d\n", m["safeDropMask"])
	fmt.Fprintf(&b, "/-- the same pattern inside Call (System.Contract.Call only) / LoadToken (CALLT only), 0: none. -/\ndef safeDropCallOnly : Nat := %d\ndef safeDropTokenOnly : Nat := %d\n", m["safeDropCall"], m["safeDropToken"])
	fmt.Fprintf(&b, "/-- Call / LoadToken hand over to callInternal. -/\ndef callViaInternal : Bool := %v\ndef tokenViaInternal : Bool := %v\n", m["callViaInternal"] == 1, m["tokenViaInternal"] == 1)
	fmt.Fprintf(&b, "/-- contract/call.go callInternal: index of the hardfork from which the caller's manifest is taken from the executing\n    context (`ctx.GetManifest()`) instead of ContractManagement's storage (`ic.GetContract`). -/\ndef callerManifestFromContextSince : Nat := %d\n", m["callerFromContextSince"])
	fmt.Fprintf(&b, "/-- contract/call.go callExFromNative contains `f = ic.VM.Context().GetCallFlags() & f`. -/\ndef childIsAnd : Bool := %v\n", m["childIsAnd"] == 1)
	fmt.Fprintf(&b, "/-- contract/call.go CallFromNative: flags passed to callExFromNative. -/\ndef callFromNativeFlags : Nat := %d\n", m["callFromNativeFlags"])
	fmt.Fprintf(&b, "/-- runtime/engine.go LoadScript: `fs = ctx.GetCallFlags() & … & fs`, the constant part. -/\ndef loadScriptMask : Nat := %d\n", m["loadScriptMask"])
	fmt.Fprintf(&b, "/-- interop/context.go AddMethod: `desc.Safe = md.RequiredFlags&(…) == 0`. -/\ndef safeDefMask : Nat := %d\n", m["safeDefMask"])
	b.WriteString("\nend NeoModel.Generated.Interops\n")
	return b.String(), nil
}
