package main

// Table "ManifestConsts" (property C16): the constants the manifest validity checks and the stack-item decoding
// depend on, from the linked packages: the valid parameter types (smartcontract.ConvertToParamType over all byte
// values), VoidType, the signature length Group.FromStackItem demands, the two byte-array lengths
// PermissionDesc.FromStackItem tells apart, and the permission type codes.

import (
	"fmt"
	"strings"

	"github.com/nspcc-dev/neo-go/pkg/crypto/keys"
	"github.com/nspcc-dev/neo-go/pkg/smartcontract"
	"github.com/nspcc-dev/neo-go/pkg/smartcontract/manifest"
	"github.com/nspcc-dev/neo-go/pkg/util"
	"github.com/nspcc-dev/neo-go/pkg/vm/stackitem"
)

func init() { register("ManifestConsts", genManifestConsts) }

func genManifestConsts(repo string) (string, error) {
	var b strings.Builder
	b.WriteString("namespace NeoModel.Generated.ManifestConsts\n\n")
	var vs []string
	for v := 0; v < 256; v++ {
		if _, err := smartcontract.ConvertToParamType(v); err == nil {
			vs = append(vs, fmt.Sprint(v))
		}
	}
	if len(vs) < 5 {
		return "", fmt.Errorf("only %d valid parameter types", len(vs))
	}
	if _, err := smartcontract.ConvertToParamType(256 + int(smartcontract.BoolType)); err == nil {
		return "", fmt.Errorf("ConvertToParamType accepts values above 255")
	}
	fmt.Fprintf(&b, "/-- the values smartcontract.ConvertToParamType accepts (0..255 tried; larger ones are rejected). -/\ndef validParamTypes : List Nat := [%s]\n", strings.Join(vs, ", "))
	fmt.Fprintf(&b, "def voidType : Nat := %d\n", int(smartcontract.VoidType))
	fmt.Fprintf(&b, "def signatureLen : Nat := %d\n", keys.SignatureLen)
	fmt.Fprintf(&b, "def uint160Size : Nat := %d\n", util.Uint160Size)
	k, err := keys.NewPrivateKey()
	if err != nil {
		return "", err
	}
	fmt.Fprintf(&b, "/-- length of PublicKey.Bytes() of a finite point. -/\ndef compressedKeyLen : Nat := %d\n", len(k.PublicKey().Bytes()))
	fmt.Fprintf(&b, "def permissionTypes : List Nat := [%d, %d, %d]\n", int(manifest.PermissionWildcard), int(manifest.PermissionHash), int(manifest.PermissionGroup))
	fmt.Fprintf(&b, "def maxManifestSize : Nat := %d\n", manifest.MaxManifestSize)
	fmt.Fprintf(&b, "/-- stackitem.MaxSerialized (items per serialised item) and stackitem.MaxSize (bytes). -/\ndef maxSerialized : Nat := %d\ndef maxItemSize : Nat := %d\n", stackitem.MaxSerialized, stackitem.MaxSize)
	b.WriteString("\nend NeoModel.Generated.ManifestConsts\n")
	return b.String(), nil
}
