// C04: functions of the execution engine for the Go->Lean translator of gofuncs.go (appended to its spec list; a
// function outside the supported subset is reported as NOT TRANSLATED and only breaks the theorems that mention it).
// Policy.setFeePerByte is translated by the base list (policySetFeePerByte). Outside the subset today:
// Notary.lockDepositUntil (result type stackitem.Item), NEO.SetGASPerBlock (type assertion), interop.Context.AddNotification (type assertion since 0aa93d2).
package main

func init() {
	gfSpecs = append(gfSpecs,
		// which handlers a TRY frame has (vm.go handleException / ContractHasTryBlock conditions use them)
		gfSpec{Pkg: "./pkg/vm", Recv: "exceptionHandlingContext", Func: "HasCatch", Lean: "ehcHasCatch"},
		gfSpec{Pkg: "./pkg/vm", Recv: "exceptionHandlingContext", Func: "HasFinally", Lean: "ehcHasFinally"},
		// call flags: Has (every flag condition of the model), and the flags a callee gets (callInternal -> callExFromNative)
		gfSpec{Pkg: "./pkg/smartcontract/callflag", Recv: "CallFlag", Func: "Has", Lean: "callFlagHasC04"},
		gfSpec{Pkg: "./pkg/core/interop/contract", Func: "callInternal", Lean: "c04CallInternal", Sink: "callExFromNative"},
		// required call flags are checked before a system call handler runs
		gfSpec{Pkg: "./pkg/core/interop", Recv: "Context", Func: "SyscallHandler", Lean: "c04SyscallHandler"},
	)
}
