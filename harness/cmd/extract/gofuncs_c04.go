// C04: functions of the execution engine for the Go->Lean translator of gofuncs.go (appended to its spec list; a
// function outside the supported subset is reported as NOT TRANSLATED and only breaks the theorems that mention it).
// Tried and outside the subset today: interop.Context.AddNotification (writes a field), Notary.lockDepositUntil
// (multi-assignment), callflag.CallFlag.Has (operator &): these stay tied by the correspondence stream only.
// Policy.setFeePerByte is translated by the base list (policySetFeePerByte).
package main

func init() {
	gfSpecs = append(gfSpecs,
		// which handlers a TRY frame has (vm.go handleException / ContractHasTryBlock conditions use them)
		gfSpec{Pkg: "./pkg/vm", Recv: "exceptionHandlingContext", Func: "HasCatch", Lean: "ehcHasCatch"},
		gfSpec{Pkg: "./pkg/vm", Recv: "exceptionHandlingContext", Func: "HasFinally", Lean: "ehcHasFinally"},
	)
}
