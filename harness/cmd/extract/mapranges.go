package main

import (
	"bytes"
	"fmt"
	"go/ast"
	"go/printer"
	"go/token"
	"go/types"
	"hash/fnv"
	"os"
	"path/filepath"
	"sort"
	"strings"

	"golang.org/x/tools/go/packages"
)

// MapRanges (C01): every `range` over a Go map in the consensus-critical packages, as
// (file, enclosing function, ranged expression), found with go/ast + go/types on /repo's current
// source. Go randomises map iteration order, so each such loop is a potential source of replica
// divergence; Props/C01.lean must classify every entry (sortedAfter | commutativeFold | lookupOnly |
// notConsensus), otherwise the obligation `map_ranges_classified` breaks.
func init() { register("MapRanges", genMapRanges) }

var mapRangeScope = []string{
	"./pkg/core", // only blockchain.go is kept (see below)
	"./pkg/core/native",
	"./pkg/core/interop/...",
	"./pkg/core/dao",
	"./pkg/core/mpt",
	"./pkg/core/stateroot",
	"./pkg/core/mempool",
	"./pkg/core/state",
	"./pkg/core/storage",
	"./pkg/vm",
	"./pkg/vm/stackitem",
}

type mapRange struct{ file, fn, expr string }

func genMapRanges(repo string) (string, error) {
	cfg := &packages.Config{
		Mode: packages.NeedName | packages.NeedFiles | packages.NeedSyntax | packages.NeedTypes | packages.NeedTypesInfo | packages.NeedImports | packages.NeedDeps,
		Dir:  repo,
		Env:  append(os.Environ(), "GOFLAGS=-mod=readonly", "GOPROXY=off"),
	}
	pkgs, err := packages.Load(cfg, mapRangeScope...)
	if err != nil {
		return "", err
	}
	var res []mapRange
	seen := map[string]bool{}
	for _, p := range pkgs {
		if len(p.Errors) > 0 {
			return "", fmt.Errorf("package %s: %v", p.PkgPath, p.Errors[0])
		}
		for _, f := range p.Syntax {
			path := p.Fset.Position(f.Pos()).Filename
			rel, err := filepath.Rel(repo, path)
			if err != nil || strings.HasPrefix(rel, "..") {
				continue
			}
			if strings.HasSuffix(rel, "_test.go") {
				continue
			}
			if filepath.Dir(rel) == "pkg/core" && filepath.Base(rel) != "blockchain.go" {
				continue
			}
			if seen[rel] {
				continue
			}
			seen[rel] = true
			for _, d := range f.Decls {
				fd, ok := d.(*ast.FuncDecl)
				if !ok || fd.Body == nil {
					continue
				}
				name := fd.Name.Name
				if fd.Recv != nil && len(fd.Recv.List) > 0 {
					name = recvName(fd.Recv.List[0].Type) + "." + name
				}
				ast.Inspect(fd.Body, func(n ast.Node) bool {
					// iteration through the iterator helpers of package maps, or sync.Map.Range
					if ce, ok := n.(*ast.CallExpr); ok {
						if se, ok := ce.Fun.(*ast.SelectorExpr); ok {
							if id, ok := se.X.(*ast.Ident); ok {
								if pn, ok := p.TypesInfo.Uses[id].(*types.PkgName); ok && pn.Imported().Path() == "maps" &&
									(se.Sel.Name == "All" || se.Sel.Name == "Keys" || se.Sel.Name == "Values") {
									var b bytes.Buffer
									_ = printer.Fprint(&b, token.NewFileSet(), ce)
									res = append(res, mapRange{rel, name, strings.Join(strings.Fields(b.String()), " ")})
								}
							}
							if se.Sel.Name == "Range" {
								if tv, ok := p.TypesInfo.Types[se.X]; ok && strings.HasSuffix(strings.TrimPrefix(tv.Type.String(), "*"), "sync.Map") {
									var b bytes.Buffer
									_ = printer.Fprint(&b, token.NewFileSet(), se)
									res = append(res, mapRange{rel, name, strings.Join(strings.Fields(b.String()), " ")})
								}
							}
						}
						return true
					}
					rs, ok := n.(*ast.RangeStmt)
					if !ok {
						return true
					}
					tv, ok := p.TypesInfo.Types[rs.X]
					if !ok {
						return true
					}
					if _, isMap := tv.Type.Underlying().(*types.Map); isMap {
						var b bytes.Buffer
						_ = printer.Fprint(&b, token.NewFileSet(), rs.X)
						res = append(res, mapRange{rel, name, strings.Join(strings.Fields(b.String()), " ")})
					}
					return true
				})
			}
		}
	}
	if len(res) == 0 {
		return "", fmt.Errorf("no map ranges found: the extractor is broken")
	}
	sort.Slice(res, func(i, j int) bool {
		if res[i].file != res[j].file {
			return res[i].file < res[j].file
		}
		if res[i].fn != res[j].fn {
			return res[i].fn < res[j].fn
		}
		return res[i].expr < res[j].expr
	})
	var b strings.Builder
	b.WriteString("namespace NeoModel.Generated.MapRanges\n")
	b.WriteString("/-- (fingerprint, \"file:function:ranged expression\"); the fingerprint is FNV-1a/32 of the string. -/\n")
	b.WriteString("def table : List (Nat × String) := [\n")
	occ := map[string]int{}
	for i, r := range res {
		s := r.file + ":" + r.fn + ":" + r.expr
		occ[s]++
		if occ[s] > 1 {
			s = fmt.Sprintf("%s#%d", s, occ[s])
		}
		h := fnv.New32a()
		h.Write([]byte(s))
		sep := ","
		if i == len(res)-1 {
			sep = ""
		}
		fmt.Fprintf(&b, "  (%d, %q)%s\n", h.Sum32(), s, sep)
	}
	b.WriteString("]\n")
	b.WriteString("end NeoModel.Generated.MapRanges\n")
	return b.String(), nil
}

func recvName(e ast.Expr) string {
	switch t := e.(type) {
	case *ast.StarExpr:
		return recvName(t.X)
	case *ast.Ident:
		return t.Name
	case *ast.IndexExpr:
		return recvName(t.X)
	case *ast.IndexListExpr:
		return recvName(t.X)
	}
	return "?"
}
