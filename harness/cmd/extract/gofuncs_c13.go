// C13: functions of the VM's integer range checks for the Go->Lean translator of gofuncs.go.
package main

func init() {
	gfSpecs = append(gfSpecs,
		gfSpec{Pkg: "./pkg/vm/stackitem", Func: "CheckIntegerSize", Lean: "vmCheckIntegerSize"},
		gfSpec{Pkg: "./pkg/vm", Func: "toInt", Lean: "vmToInt"},
	)
}
