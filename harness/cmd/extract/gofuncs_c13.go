// C13: functions of the VM for the Go->Lean translator of gofuncs.go: the integer range checks, the jump
// target / jump condition computations, and the type byte validity. (convertPrimitive / Buffer.Convert translate to ill-typed Lean — a Bool leaf
// returned where an Item is expected — and must NOT be listed: a broken Generated/GoFuncs.lean breaks every check.)
package main

func init() {
	gfSpecs = append(gfSpecs,
		gfSpec{Pkg: "./pkg/vm/stackitem", Func: "CheckIntegerSize", Lean: "vmCheckIntegerSize"},
		gfSpec{Pkg: "./pkg/vm", Func: "toInt", Lean: "vmToInt"},
		gfSpec{Pkg: "./pkg/smartcontract/scparser", Recv: "Context", Func: "Jump", Lean: "vmContextJump"},
		gfSpec{Pkg: "./pkg/smartcontract/scparser", Recv: "Context", Func: "CalcJumpOffset", Lean: "vmCalcJumpOffset"},
		gfSpec{Pkg: "./pkg/vm", Func: "getJumpCondition", Lean: "vmGetJumpCondition"},
		gfSpec{Pkg: "./pkg/vm/stackitem", Recv: "Type", Func: "IsValid", Lean: "vmTypeIsValid"},
	)
}
