package main

// gofuncs_scan.go — development aid: VERIF_GFSCAN="./pkg/a ./pkg/b" makes the extractor try the
// Go->Lean translation on EVERY function of the listed packages and print the ones that translate
// (candidates for gfSpecs). Not used by the checks.

import (
	"fmt"
	"go/ast"
	"os"
	"strings"

	"golang.org/x/tools/go/packages"
)

func init() {
	pk := os.Getenv("VERIF_GFSCAN")
	if pk == "" {
		return
	}
	cfg := &packages.Config{Mode: packages.NeedName | packages.NeedFiles | packages.NeedSyntax | packages.NeedTypes | packages.NeedTypesInfo | packages.NeedImports | packages.NeedDeps, Dir: "/repo", BuildFlags: []string{"-tags", "verif"}}
	pkgs, err := packages.Load(cfg, strings.Fields(pk)...)
	if err != nil {
		fmt.Println("scan:", err)
		os.Exit(1)
	}
	for _, p := range pkgs {
		for _, f := range p.Syntax {
			fn := p.Fset.Position(f.Pos()).Filename
			if strings.HasSuffix(fn, "_test.go") {
				continue
			}
			for _, d := range f.Decls {
				fd, ok := d.(*ast.FuncDecl)
				if !ok || fd.Body == nil {
					continue
				}
				for _, sink := range []string{""} {
					def, err := gfTranslate(p, fd, gfSpec{Lean: "x", Sink: sink})
					if err == nil {
						nif := strings.Count(def, "if ")
						if nif >= 1 {
							fmt.Printf("%s\t%s.%s\tifs=%d\tlen=%d\n", gf_shortFile(fn), gf_recvName(fd), fd.Name.Name, nif, len(def))
						}
					}
				}
			}
		}
	}
	os.Exit(0)
}
