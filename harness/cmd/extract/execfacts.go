package main

// Table "ExecFacts" (property C04): the facts of the execution engine that the Exec model
// (lean/NeoModel/Model/Exec.lean) contains literally, re-read from /repo on every run:
//   - required call flags of the system calls and native methods the call trees use;
//   - the mask of contract/call.go that decides whether a callee gets its own DAO layer, the
//     commit expression handed to the context-unload callback (vm.go unloadContext), the states
//     ContractHasTryBlock counts, the condition under which blockchain.go persists a
//     transaction's layer;
//   - every write to a native cache obtained through GetROCache (expected: none).
// Self-contained on purpose (shares no helper with the other table files).

import (
	"bytes"
	"fmt"
	"go/ast"
	"go/printer"
	"go/token"
	"os"
	"path/filepath"
	"regexp"
	"sort"
	"strconv"
	"strings"

	"github.com/nspcc-dev/neo-go/pkg/config"
	"github.com/nspcc-dev/neo-go/pkg/core/native"
	"github.com/nspcc-dev/neo-go/pkg/core/native/nativenames"
	"github.com/nspcc-dev/neo-go/pkg/smartcontract/callflag"
)

func init() { register("ExecFacts", genExecFacts) }

var execFlagConsts = map[string]int{
	"ReadStates": int(callflag.ReadStates), "WriteStates": int(callflag.WriteStates),
	"AllowCall": int(callflag.AllowCall), "AllowNotify": int(callflag.AllowNotify),
	"States": int(callflag.States), "ReadOnly": int(callflag.ReadOnly), "All": int(callflag.All),
	"NoneFlag": int(callflag.NoneFlag),
}

func execEvalFlags(e ast.Expr) (int, error) {
	switch x := e.(type) {
	case *ast.ParenExpr:
		return execEvalFlags(x.X)
	case *ast.SelectorExpr:
		if id, ok := x.X.(*ast.Ident); ok && id.Name == "callflag" {
			if v, ok := execFlagConsts[x.Sel.Name]; ok {
				return v, nil
			}
		}
	case *ast.BinaryExpr:
		a, err := execEvalFlags(x.X)
		if err != nil {
			return 0, err
		}
		b, err := execEvalFlags(x.Y)
		if err != nil {
			return 0, err
		}
		switch x.Op {
		case token.OR:
			return a | b, nil
		case token.AND:
			return a & b, nil
		case token.XOR:
			return a ^ b, nil
		case token.AND_NOT:
			return a &^ b, nil
		}
	}
	return 0, fmt.Errorf("cannot evaluate call-flag expression")
}

var execRecv = regexp.MustCompile(`\b\w+\.(State|HasFinally|HasCatch)\b`)

// execCond prints a condition on an exception-handling frame with the frame variable renamed to `e`.
func execCond(fset *token.FileSet, e ast.Node) string {
	return execRecv.ReplaceAllString(execExprString(fset, e), "e.$1")
}

func execExprString(fset *token.FileSet, e ast.Node) string {
	var b bytes.Buffer
	printer.Fprint(&b, fset, e)
	return strings.Join(strings.Fields(b.String()), " ")
}

func execFunc(f *ast.File, name string) *ast.FuncDecl {
	for _, d := range f.Decls {
		if fd, ok := d.(*ast.FuncDecl); ok && fd.Name.Name == name && fd.Body != nil {
			return fd
		}
	}
	return nil
}

// syscall flags: `{Name: interopnames.X, ..., RequiredFlags: ...}` elements of pkg/core/interops.go.
func execSyscallFlags(repo string, want []string) (map[string]int, error) {
	fset := token.NewFileSet()
	f, err := excParse(fset, filepath.Join(repo, "pkg/core/interops.go"))
	if err != nil {
		return nil, err
	}
	res := map[string]int{}
	ast.Inspect(f, func(n ast.Node) bool {
		cl, ok := n.(*ast.CompositeLit)
		if !ok {
			return true
		}
		name, flags, have := "", 0, false
		for _, el := range cl.Elts {
			kv, ok := el.(*ast.KeyValueExpr)
			if !ok {
				continue
			}
			k, ok := kv.Key.(*ast.Ident)
			if !ok {
				continue
			}
			switch k.Name {
			case "Name":
				if sel, ok := kv.Value.(*ast.SelectorExpr); ok {
					name, have = sel.Sel.Name, true
				}
			case "RequiredFlags":
				v, err := execEvalFlags(kv.Value)
				if err == nil {
					flags = v
				} else {
					flags = -1
				}
			}
		}
		if have {
			res[name] = flags
		}
		return true
	})
	for _, w := range want {
		if v, ok := res[w]; !ok || v < 0 {
			return nil, fmt.Errorf("system call %s not found in pkg/core/interops.go", w)
		}
	}
	return res, nil
}

type execRoWrite struct {
	file, fn string
	line     int
	text     string
}

func execRootIdent(e ast.Expr) *ast.Ident {
	for {
		switch x := e.(type) {
		case *ast.Ident:
			return x
		case *ast.SelectorExpr:
			e = x.X
		case *ast.IndexExpr:
			e = x.X
		case *ast.StarExpr:
			e = x.X
		case *ast.ParenExpr:
			e = x.X
		case *ast.SliceExpr:
			e = x.X
		default:
			return nil
		}
	}
}

func execMentions(e ast.Node, sel string) bool {
	found := false
	ast.Inspect(e, func(n ast.Node) bool {
		if s, ok := n.(*ast.SelectorExpr); ok && s.Sel.Name == sel {
			found = true
		}
		return !found
	})
	return found
}

// execCacheScan lists, per function of pkg/core/native, the statements that modify (assign to a
// field/element of, ++/--, delete() from) a variable bound to the result of GetROCache.
func execCacheScan(repo string) (writes []execRoWrite, roSites, rwSites int, err error) {
	dir := filepath.Join(repo, "pkg/core/native")
	ents, err := os.ReadDir(dir)
	if err != nil {
		return nil, 0, 0, err
	}
	for _, ent := range ents {
		if ent.IsDir() || !strings.HasSuffix(ent.Name(), ".go") || strings.HasSuffix(ent.Name(), "_test.go") {
			continue
		}
		fset := token.NewFileSet()
		f, perr := excParse(fset, filepath.Join(dir, ent.Name()))
		if perr != nil {
			return nil, 0, 0, perr
		}
		for _, d := range f.Decls {
			fd, ok := d.(*ast.FuncDecl)
			if !ok || fd.Body == nil {
				continue
			}
			ro := map[string]bool{}
			// pass 1: bindings (flow-insensitive: a name once bound to a RO cache stays suspicious
			// unless it is also bound to a RW cache)
			rw := map[string]bool{}
			ast.Inspect(fd.Body, func(n ast.Node) bool {
				if as, ok := n.(*ast.AssignStmt); ok && len(as.Lhs) >= 1 && len(as.Rhs) >= 1 {
					for i, r := range as.Rhs {
						if i >= len(as.Lhs) {
							break
						}
						id, ok := as.Lhs[i].(*ast.Ident)
						if !ok {
							continue
						}
						if execMentions(r, "GetROCache") {
							ro[id.Name] = true
							roSites++
						}
						if execMentions(r, "GetRWCache") {
							rw[id.Name] = true
							rwSites++
						}
					}
				}
				if vs, ok := n.(*ast.ValueSpec); ok {
					for i, r := range vs.Values {
						if i < len(vs.Names) {
							if execMentions(r, "GetROCache") {
								ro[vs.Names[i].Name] = true
								roSites++
							}
							if execMentions(r, "GetRWCache") {
								rw[vs.Names[i].Name] = true
								rwSites++
							}
						}
					}
				}
				return true
			})
			for n := range rw {
				delete(ro, n)
			}
			if len(ro) == 0 {
				continue
			}
			report := func(n ast.Node) {
				writes = append(writes, execRoWrite{ent.Name(), fd.Name.Name, fset.Position(n.Pos()).Line, execExprString(fset, n)})
			}
			ast.Inspect(fd.Body, func(n ast.Node) bool {
				switch x := n.(type) {
				case *ast.AssignStmt:
					for _, l := range x.Lhs {
						if _, plain := l.(*ast.Ident); plain {
							continue // rebinding the variable itself
						}
						if id := execRootIdent(l); id != nil && ro[id.Name] {
							report(x)
						}
					}
				case *ast.IncDecStmt:
					if _, plain := x.X.(*ast.Ident); !plain {
						if id := execRootIdent(x.X); id != nil && ro[id.Name] {
							report(x)
						}
					}
				case *ast.CallExpr:
					if fn, ok := x.Fun.(*ast.Ident); ok && (fn.Name == "delete" || fn.Name == "clear") && len(x.Args) > 0 {
						if id := execRootIdent(x.Args[0]); id != nil && ro[id.Name] {
							report(x)
						}
					}
				}
				return true
			})
		}
	}
	sort.Slice(writes, func(i, j int) bool {
		if writes[i].file != writes[j].file {
			return writes[i].file < writes[j].file
		}
		return writes[i].line < writes[j].line
	})
	return
}

func genExecFacts(repo string) (string, error) {
	var b strings.Builder
	b.WriteString("namespace NeoModel.Generated.ExecFacts\n\n")

	// 1. system calls
	want := []string{"SystemContractCall", "SystemRuntimeNotify", "SystemStorageDelete", "SystemStorageGet",
		"SystemStorageGetContext", "SystemStoragePut"}
	sc, err := execSyscallFlags(repo, want)
	if err != nil {
		return "", err
	}
	b.WriteString("/-- RequiredFlags of the system calls used by the call trees (pkg/core/interops.go). -/\n")
	b.WriteString("def syscallFlags : List (String × Nat) := [\n")
	for i, w := range want {
		sep := ","
		if i == len(want)-1 {
			sep = ""
		}
		fmt.Fprintf(&b, "  (%s, %d)%s\n", strconv.Quote(w), sc[w], sep)
	}
	b.WriteString("]\n\n")

	// 2. native methods (latest hardfork descriptors of the linked node)
	type nm struct {
		contract, method string
		nparams          int
	}
	wantN := []nm{{nativenames.Gas, "transfer", 4}, {nativenames.Policy, "setFeePerByte", 1}, {nativenames.Policy, "blockAccount", 1},
		{nativenames.Policy, "unblockAccount", 1}, {nativenames.Management, "deploy", 2},
		{nativenames.Management, "update", 2}, {nativenames.Management, "destroy", 0},
		{nativenames.Designation, "designateAsRole", 2}, {nativenames.Policy, "setWhitelistFeeContract", 4},
		{nativenames.Policy, "removeWhitelistFeeContract", 3}, {nativenames.Neo, "transfer", 4}, {nativenames.Neo, "vote", 2},
		{nativenames.Neo, "registerCandidate", 1}, {nativenames.Neo, "unregisterCandidate", 1},
		{nativenames.Oracle, "request", 5}, {nativenames.Notary, "lockDepositUntil", 2}, {nativenames.Notary, "withdraw", 2},
		{nativenames.Neo, "setGasPerBlock", 1}}
	var nerr error
	flagsN := map[nm]int{}
	func() {
		defer func() {
			if r := recover(); r != nil {
				nerr = fmt.Errorf("native descriptors: %v", r)
			}
		}()
		cs := native.NewDefaultContracts(config.ProtocolConfiguration{})
		last := config.Hardforks[len(config.Hardforks)-1]
		for _, w := range wantN {
			found := false
			for _, c := range cs {
				if c.Metadata().Name != w.contract {
					continue
				}
				m, ok := c.Metadata().HFSpecificContractMD(&last).GetMethod(w.method, w.nparams)
				if ok {
					flagsN[w], found = int(m.RequiredFlags), true
				}
			}
			if !found {
				nerr = fmt.Errorf("native method %s.%s/%d not found", w.contract, w.method, w.nparams)
			}
		}
	}()
	if nerr != nil {
		return "", nerr
	}
	b.WriteString("/-- RequiredFlags of the native methods used by the call trees (latest hardfork). -/\n")
	b.WriteString("def nativeFlags : List (String × Nat) := [\n")
	for i, w := range wantN {
		sep := ","
		if i == len(wantN)-1 {
			sep = ""
		}
		fmt.Fprintf(&b, "  (%s, %d)%s\n", strconv.Quote(w.contract+"."+w.method), flagsN[w], sep)
	}
	b.WriteString("]\n\n")

	// 3. literal expressions of the layering mechanism
	fset := token.NewFileSet()
	callF, err := excParse(fset, filepath.Join(repo, "pkg/core/interop/contract/call.go"))
	if err != nil {
		return "", err
	}
	wrapMask, wrapExpr := -1, ""
	if fd := execFunc(callF, "callExFromNative"); fd != nil {
		ast.Inspect(fd.Body, func(n ast.Node) bool {
			as, ok := n.(*ast.AssignStmt)
			if !ok || len(as.Lhs) != 1 || len(as.Rhs) != 1 {
				return true
			}
			if id, ok := as.Lhs[0].(*ast.Ident); ok && id.Name == "wrapped" {
				wrapExpr = execExprString(fset, as.Rhs[0])
				ast.Inspect(as.Rhs[0], func(m ast.Node) bool {
					if be, ok := m.(*ast.BinaryExpr); ok && be.Op == token.AND {
						if v, err := execEvalFlags(be.Y); err == nil {
							wrapMask = v
						}
					}
					return true
				})
			}
			return true
		})
	}
	if wrapExpr == "" {
		return "", fmt.Errorf("assignment to `wrapped` not found in callExFromNative")
	}
	vmF, err := excParse(fset, filepath.Join(repo, "pkg/vm/vm.go"))
	if err != nil {
		return "", err
	}
	commitExpr := ""
	if fd := execFunc(vmF, "unloadContext"); fd != nil {
		ast.Inspect(fd.Body, func(n ast.Node) bool {
			if ce, ok := n.(*ast.CallExpr); ok && len(ce.Args) == 3 && execMentions(ce.Fun, "onUnload") {
				commitExpr = execExprString(fset, ce.Args[2])
			}
			return true
		})
	}
	if commitExpr == "" {
		return "", fmt.Errorf("onUnload call not found in unloadContext")
	}
	var hasTryConds []string
	if fd := execFunc(vmF, "ContractHasTryBlock"); fd != nil {
		ast.Inspect(fd.Body, func(n ast.Node) bool {
			if is, ok := n.(*ast.IfStmt); ok && execMentions(is.Cond, "State") {
				hasTryConds = append(hasTryConds, execCond(fset, is.Cond))
			}
			return true
		})
	}
	var skipConds []string
	if fd := execFunc(vmF, "handleException"); fd != nil {
		ast.Inspect(fd.Body, func(n ast.Node) bool {
			if is, ok := n.(*ast.IfStmt); ok && execMentions(is.Cond, "State") {
				skipConds = append(skipConds, execCond(fset, is.Cond))
			}
			return true
		})
	}
	bcF, err := excParse(fset, filepath.Join(repo, "pkg/core/blockchain.go"))
	if err != nil {
		return "", err
	}
	var persistConds []string
	ast.Inspect(bcF, func(n ast.Node) bool {
		is, ok := n.(*ast.IfStmt)
		if !ok {
			return true
		}
		// the `if` whose body persists systemInterop.DAO
		persists := false
		for _, st := range is.Body.List {
			if execMentions(st, "Persist") && strings.Contains(execExprString(fset, st), "systemInterop.DAO.Persist()") {
				persists = true
			}
		}
		if persists {
			persistConds = append(persistConds, execExprString(fset, is.Cond))
		}
		return true
	})
	strList := func(l []string) string {
		q := make([]string, len(l))
		for i, s := range l {
			q[i] = strconv.Quote(s)
		}
		return "[" + strings.Join(q, ", ") + "]"
	}
	fmt.Fprintf(&b, "/-- contract/call.go callExFromNative: `wrapped := %s`; the flag mask in it. -/\n", wrapExpr)
	fmt.Fprintf(&b, "def wrapUsesHasTryBlock : Bool := %v\ndef wrapMask : Nat := %d\n\n", strings.Contains(wrapExpr, "ContractHasTryBlock()") && strings.Contains(wrapExpr, "&&"), wrapMask)
	fmt.Fprintf(&b, "/-- vm.go unloadContext: third argument of the context-unload callback. -/\ndef commitExpr : String := %s\n\n", strconv.Quote(commitExpr))
	fmt.Fprintf(&b, "/-- vm.go ContractHasTryBlock: conditions on the exception-handling state. -/\ndef hasTryConds : List String := %s\n\n", strList(hasTryConds))
	fmt.Fprintf(&b, "/-- vm.go handleException: conditions on the exception-handling state, in source order. -/\ndef handlerConds : List String := %s\n\n", strList(skipConds))
	fmt.Fprintf(&b, "/-- blockchain.go: conditions of the `if` that persists a transaction's DAO layer. -/\ndef persistConds : List String := %s\n\n", strList(persistConds))

	// 4. native caches
	writes, roSites, rwSites, err := execCacheScan(repo)
	if err != nil {
		return "", err
	}
	b.WriteString("/-- statements of pkg/core/native that modify a cache object obtained through GetROCache. -/\n")
	var ws []string
	for _, w := range writes {
		ws = append(ws, fmt.Sprintf("%s:%d %s: %s", w.file, w.line, w.fn, w.text))
	}
	fmt.Fprintf(&b, "def roCacheWrites : List String := %s\n", strList(ws))
	fmt.Fprintf(&b, "def roCacheSites : Nat := %d\ndef rwCacheSites : Nat := %d\n\n", roSites, rwSites)
	b.WriteString("end NeoModel.Generated.ExecFacts\n")
	return b.String(), nil
}
