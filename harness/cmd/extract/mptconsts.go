package main

// MptConsts (C10): the constants of pkg/core/mpt that the Lean model of the trie contains literally
// (node type tags, number of children, key / path / value limits, trie modes, storage prefixes), read
// from the type-checked package, and the argument guards of the Trie API and of the node decoders:
// for each listed function the conditions of its top-level `if` statements, in source order, as
// source text. Proofs/MptConsts.lean states what the model assumes about them; a changed constant,
// a changed comparison or a re-ordered / dropped guard breaks that file on the next run.

import (
	"bytes"
	"fmt"
	"go/ast"
	"go/constant"
	"go/printer"
	"go/types"
	"os"
	"sort"
	"strings"

	"github.com/nspcc-dev/neo-go/pkg/core/storage"
	"golang.org/x/tools/go/packages"
)

func init() { register("MptConsts", genMptConsts) }

func genMptConsts(repo string) (string, error) {
	cfg := &packages.Config{
		Mode: packages.NeedName | packages.NeedFiles | packages.NeedSyntax | packages.NeedTypes | packages.NeedTypesInfo | packages.NeedImports | packages.NeedDeps,
		Dir:  repo,
		Env:  append(os.Environ(), "GOFLAGS=-mod=readonly", "GOPROXY=off"),
	}
	pkgs, err := packages.Load(cfg, "./pkg/core/mpt")
	if err != nil {
		return "", err
	}
	if len(pkgs) != 1 || len(pkgs[0].Errors) > 0 {
		return "", fmt.Errorf("loading pkg/core/mpt: %v", pkgs)
	}
	p := pkgs[0]
	var b strings.Builder
	b.WriteString("namespace NeoModel.Generated.MptConsts\n")
	consts := []string{"childrenCount", "lastChild", "maxPathLength", "MaxKeyLength", "MaxValueLength",
		"BranchT", "ExtensionT", "LeafT", "HashT", "EmptyT", "ModeAll", "ModeLatest", "ModeGCFlag", "ModeGC"}
	for _, n := range consts {
		obj, ok := p.Types.Scope().Lookup(n).(*types.Const)
		if !ok {
			return "", fmt.Errorf("constant %s not found in pkg/core/mpt", n)
		}
		v, exact := constant.Int64Val(constant.ToInt(obj.Val()))
		if !exact {
			return "", fmt.Errorf("constant %s is not an integer", n)
		}
		fmt.Fprintf(&b, "def c%s : Nat := %d\n", strings.ToUpper(n[:1])+n[1:], v)
	}
	fmt.Fprintf(&b, "def cDataMPT : Nat := %d\n", byte(storage.DataMPT))
	fmt.Fprintf(&b, "def cSTStorage : Nat := %d\n", byte(storage.STStorage))

	// guards: "Recv.Func" -> conditions of the top-level ifs
	want := map[string]bool{"Trie.Put": true, "Trie.Get": true, "Trie.Delete": true, "Trie.GetProof": true,
		"Trie.Find": true, "ExtensionNode.decodeBinaryWithDepth": true, "LeafNode.decodeBinaryWithDepth": true,
		"DecodeNodeWithType": true, "Trie.Collapse": true, "Trie.PutBatch": true}
	got := map[string][]string{}
	for _, f := range p.Syntax {
		if strings.HasSuffix(p.Fset.Position(f.Pos()).Filename, "_test.go") {
			continue
		}
		for _, d := range f.Decls {
			fd, ok := d.(*ast.FuncDecl)
			if !ok || fd.Body == nil {
				continue
			}
			name := fd.Name.Name
			if fd.Recv != nil && len(fd.Recv.List) > 0 {
				name = recvName(fd.Recv.List[0].Type) + "." + name
			}
			if !want[name] {
				continue
			}
			var conds []string
			var walkIf func(s *ast.IfStmt)
			walkIf = func(s *ast.IfStmt) {
				var buf bytes.Buffer
				_ = printer.Fprint(&buf, p.Fset, s.Cond)
				conds = append(conds, buf.String())
				if e, ok := s.Else.(*ast.IfStmt); ok {
					walkIf(e)
				}
			}
			for _, st := range fd.Body.List {
				if s, ok := st.(*ast.IfStmt); ok {
					walkIf(s)
				}
			}
			got[name] = conds
		}
	}
	names := make([]string, 0, len(want))
	for n := range want {
		names = append(names, n)
	}
	sort.Strings(names)
	for _, n := range names {
		conds, ok := got[n]
		if !ok {
			return "", fmt.Errorf("function %s not found in pkg/core/mpt", n)
		}
		q := make([]string, len(conds))
		for i, c := range conds {
			q[i] = fmt.Sprintf("%q", c)
		}
		fmt.Fprintf(&b, "/-- conditions of the top-level `if`s of `%s`, in source order -/\n", n)
		fmt.Fprintf(&b, "def guards%s : List String := [%s]\n", strings.ReplaceAll(n, ".", ""), strings.Join(q, ", "))
	}
	b.WriteString("end NeoModel.Generated.MptConsts\n")
	return b.String(), nil
}
