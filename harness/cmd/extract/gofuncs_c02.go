// C02: functions of the persistence / garbage-collection path for the Go->Lean translator of gofuncs.go
// (appended to its spec list; a function outside the supported subset is reported as NOT TRANSLATED and
// only breaks the theorems that mention it).
package main

func init() {
	gfSpecs = append(gfSpecs,
		gfSpec{Pkg: "./pkg/core", Recv: "HeaderHashes", Func: "lastHeaderIndex", Lean: "lastHeaderIndex"},
		gfSpec{Pkg: "./pkg/core", Recv: "Blockchain", Func: "persist", Lean: "bcPersist"},
		gfSpec{Pkg: "./pkg/core/statesync", Recv: "Module", Func: "Init", Lean: "statesyncModuleInit"},
	)
}
