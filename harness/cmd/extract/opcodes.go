package main

import (
	"fmt"
	"strings"

	"github.com/nspcc-dev/neo-go/pkg/core/fee"
	"github.com/nspcc-dev/neo-go/pkg/smartcontract/scparser"
	"github.com/nspcc-dev/neo-go/pkg/vm"
	"github.com/nspcc-dev/neo-go/pkg/vm/opcode"
	"github.com/nspcc-dev/neo-go/pkg/vm/stackitem"
)

// Opcodes: the NeoVM opcode table (byte, name, operand layout, price coefficient), the VM limits
// and the stack item type bytes, read from the packages this binary is linked against.
//
// The operand layout is *measured* on the real decoder (scparser.Context.Next): the opcode is
// followed by zero bytes / by a one-valued length prefix and the number of bytes consumed is
// observed. prefix = width of a little-endian length prefix (PUSHDATA*), fixed = fixed operand size.
func init() { register("Opcodes", genOpcodes) }

func measure(op opcode.Opcode) (prefix, fixed int, err error) {
	// all-zero tail: fixed operands are consumed, a length prefix reads as 0
	prog := append([]byte{byte(op)}, make([]byte, 64)...)
	c := scparser.NewContext(prog, 0)
	_, p0, e := c.Next()
	if e != nil {
		return 0, 0, e
	}
	n0 := c.NextIP() - 1
	// tail starting with 01 00 00 00: a length prefix now makes the operand 1 byte longer
	prog[1] = 1
	c = scparser.NewContext(prog, 0)
	_, p1, e := c.Next()
	if e != nil {
		return 0, 0, e
	}
	n1 := c.NextIP() - 1
	if n1 == n0 {
		if len(p0) != n0 || len(p1) != n1 {
			return 0, 0, fmt.Errorf("opcode %s: operand %d bytes but %d consumed", op, len(p0), n0)
		}
		return 0, n0, nil
	}
	if n1 != n0+1 || len(p0) != 0 || len(p1) != 1 {
		return 0, 0, fmt.Errorf("opcode %s: unexpected operand layout (%d/%d consumed)", op, n0, n1)
	}
	return n0, 0, nil
}

func genOpcodes(repo string) (string, error) {
	var b strings.Builder
	b.WriteString("namespace NeoModel.Generated.Opcodes\n\n")
	b.WriteString("/-- (opcode byte, name, width of the length prefix, fixed operand size, price coefficient of pkg/core/fee/opcode.go) -/\n")
	b.WriteString("def table : List (Nat × String × Nat × Nat × Nat) := [\n")
	prices := make([]int64, 256)
	first := true
	for i := 0; i < 256; i++ {
		op := opcode.Opcode(i)
		if !opcode.IsValid(op) {
			continue
		}
		pre, fixed, err := measure(op)
		if err != nil {
			return "", err
		}
		prices[i] = fee.Opcode(1, op)
		if !first {
			b.WriteString(",\n")
		}
		first = false
		fmt.Fprintf(&b, "  (0x%02x, %q, %d, %d, %d)", i, op.String(), pre, fixed, prices[i])
	}
	b.WriteString("]\n\n")
	b.WriteString("/-- price coefficient per opcode byte (0 for invalid opcodes) -/\ndef prices : Array Nat := #[")
	for i, p := range prices {
		if i > 0 {
			b.WriteString(", ")
		}
		fmt.Fprintf(&b, "%d", p)
	}
	b.WriteString("]\n\n")
	fmt.Fprintf(&b, "def maxStackSize : Nat := %d\n", vm.MaxStackSize)
	fmt.Fprintf(&b, "def maxInvocationStackSize : Nat := %d\n", vm.MaxInvocationStackSize)
	fmt.Fprintf(&b, "def maxTryNestingDepth : Nat := %d\n", vm.MaxTryNestingDepth)
	fmt.Fprintf(&b, "def execFeeFactorMultiplier : Nat := %d\n", vm.ExecFeeFactorMultiplier)
	fmt.Fprintf(&b, "def maxItemSize : Nat := %d\n", stackitem.MaxSize)
	fmt.Fprintf(&b, "def maxBigIntegerSizeBits : Nat := %d\n", stackitem.MaxBigIntegerSizeBits)
	fmt.Fprintf(&b, "def maxComparableSize : Nat := %d\n", stackitem.MaxByteArrayComparableSize)
	fmt.Fprintf(&b, "def maxComparableItems : Nat := %d\n", stackitem.MaxComparableNumOfItems)
	fmt.Fprintf(&b, "def maxClonableItems : Nat := %d\n", stackitem.MaxClonableNumOfItems)
	fmt.Fprintf(&b, "def maxKeySize : Nat := %d\n", stackitem.MaxKeySize)
	b.WriteString("\n/-- stack item type bytes (stackitem/type.go), only the valid ones -/\n")
	b.WriteString("def itemTypes : List (Nat × String) := [")
	first = true
	for i := 0; i < 256; i++ {
		t := stackitem.Type(i)
		if !t.IsValid() {
			continue
		}
		if !first {
			b.WriteString(", ")
		}
		first = false
		fmt.Fprintf(&b, "(0x%02x, %q)", i, t.String())
	}
	b.WriteString("]\n\n")
	b.WriteString("end NeoModel.Generated.Opcodes\n")
	return b.String(), nil
}
