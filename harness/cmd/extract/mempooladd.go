package main

import (
	"bytes"
	"fmt"
	"go/ast"
	"go/parser"
	"go/printer"
	"go/token"
	"path/filepath"
	"strings"
)

// MempoolAdd (C08): the sequence of checks, returned sentinel errors and state changes of
// mempool.Pool.Add, read from pkg/core/mempool/mem_pool.go with go/ast, in source order, with the
// bodies of checkTxConflicts and checkBalance inlined at their call sites. Every step is a pair
// (kind, detail):
//
//	ret    the sentinel error returned (ErrDup, ...; also through fmt.Errorf("%w", Err...)), with the
//	       condition of the enclosing if as second component of the detail: "ErrX | cond"
//	retvar `return err` of a variable assigned from an inlined call
//	call / end   an inlined callee begins / ends
//	mut    a call of a state-changing helper (removeInternal, removeFromMapWithFeesAndAttrs, tryAddSendersFee)
//	set    an assignment / copy / delete / append to a field of the pool
//	search sort.Search: the length | the body of the predicate
//	let    an assignment to local variables (the whole statement)
//	loop   a range loop (the ranged expression)
//	calc   uint256 arithmetic on the fee sums
//	lock / unlock / metrics / send / go
//	init / if   the init statement and the condition of every if statement; return: any other return, with its results; branch: break/continue
//
// Props/C08.lean states that the order of the error returns of the Lean model's `add` is exactly
// `errOrder`, and pins the whole step list (a reordering of two steps in the source, a changed guard
// of an error return, a dropped or added state change breaks that obligation).
func init() { register("MempoolAdd", genMempoolAdd) }

type mpaStep struct{ kind, detail string }

type mpaWalker struct {
	fset  *token.FileSet
	funcs map[string]*ast.FuncDecl
	steps []mpaStep
	depth int
}

func (w *mpaWalker) src(n ast.Node) string {
	var b bytes.Buffer
	_ = printer.Fprint(&b, w.fset, n)
	return strings.Join(strings.Fields(b.String()), " ")
}

func (w *mpaWalker) emit(kind, detail string) { w.steps = append(w.steps, mpaStep{kind, detail}) }

// sentinel finds an identifier Err... in a returned expression (directly or as an argument of fmt.Errorf).
func mpaSentinel(e ast.Expr) string {
	switch x := e.(type) {
	case *ast.Ident:
		if strings.HasPrefix(x.Name, "Err") {
			return x.Name
		}
	case *ast.CallExpr:
		for _, a := range x.Args {
			if s := mpaSentinel(a); s != "" {
				return s
			}
		}
	}
	return ""
}

// poolField returns the field name when e is rooted at mp.<field> (mp.x, mp.x[i], mp.x[i:j], &mp.x ...).
func mpaPoolField(e ast.Expr) string {
	for {
		switch x := e.(type) {
		case *ast.SelectorExpr:
			if id, ok := x.X.(*ast.Ident); ok && id.Name == "mp" {
				return x.Sel.Name
			}
			e = x.X
		case *ast.IndexExpr:
			e = x.X
		case *ast.SliceExpr:
			e = x.X
		case *ast.UnaryExpr:
			e = x.X
		case *ast.ParenExpr:
			e = x.X
		default:
			return ""
		}
	}
}

func (w *mpaWalker) call(c *ast.CallExpr, conds []string) {
	name := ""
	switch f := c.Fun.(type) {
	case *ast.Ident:
		name = f.Name
	case *ast.SelectorExpr:
		name = w.src(f)
	}
	switch name {
	case "mp.checkTxConflicts", "checkBalance":
		short := strings.TrimPrefix(name, "mp.")
		if fd := w.funcs[short]; fd != nil && w.depth < 4 {
			w.emit("call", short)
			w.depth++
			w.block(fd.Body.List, nil)
			w.depth--
			w.emit("end", short)
		}
	case "mp.removeInternal", "mp.removeFromMapWithFeesAndAttrs", "mp.tryAddSendersFee", "mp.removeConflictsOf",
		"mp.loadPolicy", "mp.checkPolicy", "isOK", "mp.resendStaleItems":
		w.emit("mut", strings.TrimPrefix(name, "mp.")+"("+w.args(c)+")")
	case "sort.Search":
		pred := ""
		if fl, ok := c.Args[1].(*ast.FuncLit); ok {
			pred = w.src(fl.Body)
		}
		w.emit("search", w.src(c.Args[0])+" | "+pred)
	case "mp.lock.Lock":
		w.emit("lock", "")
	case "mp.lock.Unlock":
		w.emit("unlock", "")
	case "mp.updateMetricsCb":
		w.emit("metrics", w.args(c))
	case "txFee.Add", "txFee.SetUint64", "payerFee.feeSum.AddUint64", "payerFee.feeSum.SubUint64",
		"expectedPayerFee.feeSum.SubUint64", "fee.balance.SetFromBig":
		w.emit("calc", w.src(c))
	case "copy", "delete", "clear":
		if len(c.Args) > 0 {
			if f := mpaPoolField(c.Args[0]); f != "" {
				w.emit("set", name+" "+f)
			}
		}
	}
	// closures given to calls (sort.Search) are not walked: they only read
}

func (w *mpaWalker) args(c *ast.CallExpr) string {
	var a []string
	for _, x := range c.Args {
		a = append(a, w.src(x))
	}
	return strings.Join(a, ", ")
}

func (w *mpaWalker) exprCalls(e ast.Expr, conds []string) {
	ast.Inspect(e, func(n ast.Node) bool {
		switch x := n.(type) {
		case *ast.FuncLit:
			return false
		case *ast.CallExpr:
			w.call(x, conds)
		}
		return true
	})
}

func (w *mpaWalker) block(list []ast.Stmt, conds []string) {
	for _, s := range list {
		w.stmt(s, conds)
	}
}

func (w *mpaWalker) stmt(s ast.Stmt, conds []string) {
	switch x := s.(type) {
	case *ast.ReturnStmt:
		cond := strings.Join(conds, " && ")
		for _, r := range x.Results {
			if sn := mpaSentinel(r); sn != "" {
				w.emit("ret", sn+" | "+cond)
				return
			}
		}
		for _, r := range x.Results {
			if id, ok := r.(*ast.Ident); ok && id.Name == "err" {
				w.emit("retvar", "err | "+cond)
				return
			}
		}
		var rs []string
		for _, r := range x.Results {
			rs = append(rs, w.src(r))
		}
		w.emit("return", strings.Join(rs, ", "))
	case *ast.IfStmt:
		if x.Init != nil {
			w.emit("init", w.src(x.Init))
			w.stmt(x.Init, conds)
		}
		w.exprCalls(x.Cond, conds)
		c := w.src(x.Cond)
		w.emit("if", c)
		w.block(x.Body.List, append(append([]string{}, conds...), c))
		if x.Else != nil {
			neg := append(append([]string{}, conds...), "!("+c+")")
			switch e := x.Else.(type) {
			case *ast.BlockStmt:
				w.block(e.List, neg)
			default:
				w.stmt(e, neg)
			}
		}
	case *ast.BlockStmt:
		w.block(x.List, conds)
	case *ast.ForStmt:
		w.block(x.Body.List, nil)
	case *ast.RangeStmt:
		w.exprCalls(x.X, conds)
		w.emit("loop", w.src(x.X))
		w.block(x.Body.List, nil)
	case *ast.AssignStmt:
		for _, r := range x.Rhs {
			w.exprCalls(r, conds)
		}
		local := true
		for _, l := range x.Lhs {
			if f := mpaPoolField(l); f != "" {
				w.emit("set", f)
				local = false
			}
		}
		if local {
			w.emit("let", w.src(x))
		}
	case *ast.ExprStmt:
		w.exprCalls(x.X, conds)
	case *ast.SendStmt:
		if f := mpaPoolField(x.Chan); f != "" {
			w.emit("send", f+" "+w.src(x.Value.(*ast.CompositeLit).Elts[0]))
		}
	case *ast.GoStmt:
		w.emit("go", w.src(x.Call))
	case *ast.BranchStmt:
		w.emit("branch", x.Tok.String())
	case *ast.DeclStmt, *ast.IncDecStmt, *ast.DeferStmt, *ast.EmptyStmt:
	}
}

func mpaLeanStr(s string) string {
	s = strings.ReplaceAll(s, `\`, `\\`)
	return `"` + strings.ReplaceAll(s, `"`, `\"`) + `"`
}

func genMempoolAdd(repo string) (string, error) {
	// with VERIF_GO_OVERLAY (go build -overlay) the table is read from the same candidate source as the harness is built against
	path := filepath.Join(repo, "pkg/core/mempool/mem_pool.go")
	var content any
	if c, ok := overlayFromEnv()[path]; ok {
		content = c
	}
	fset := token.NewFileSet()
	f, err := parser.ParseFile(fset, path, content, 0)
	if err != nil {
		return "", err
	}
	w := &mpaWalker{fset: fset, funcs: map[string]*ast.FuncDecl{}}
	for _, d := range f.Decls {
		if fd, ok := d.(*ast.FuncDecl); ok && fd.Body != nil {
			w.funcs[fd.Name.Name] = fd
		}
	}
	var b strings.Builder
	b.WriteString("namespace NeoModel.Generated.MempoolAdd\n")
	table := func(fn, lean, doc string) error {
		fd := w.funcs[fn]
		if fd == nil {
			return fmt.Errorf("mempool: func %s not found", fn)
		}
		w.steps = nil
		w.block(fd.Body.List, nil)
		fmt.Fprintf(&b, "/-- %s of pkg/core/mempool/mem_pool.go: (kind, detail) in source order%s -/\n", fn, doc)
		fmt.Fprintf(&b, "def %s : List (String × String) := [\n", lean)
		for i, s := range w.steps {
			sep := ","
			if i == len(w.steps)-1 {
				sep = ""
			}
			fmt.Fprintf(&b, "  (%s, %s)%s\n", mpaLeanStr(s.kind), mpaLeanStr(s.detail), sep)
		}
		b.WriteString("]\n")
		return nil
	}
	for _, t := range [][2]string{{"removeInternal", "removeInternalSteps"}, {"removeFromMapWithFeesAndAttrs", "removeFromMapSteps"},
		{"removeConflictsOf", "removeConflictsOfSteps"}, {"RemoveStale", "removeStaleSteps"}, {"tryAddSendersFee", "tryAddSendersFeeSteps"},
		{"loadPolicy", "loadPolicySteps"}, {"checkPolicy", "checkPolicySteps"}, {"Compare", "compareSteps"}, {"getPayer", "getPayerSteps"},
		{"TryGetData", "tryGetDataSteps"}} {
		if err := table(t[0], t[1], ""); err != nil {
			return "", err
		}
	}
	if err := table("Add", "steps", ", checkTxConflicts and checkBalance inlined"); err != nil {
		return "", err
	}
	b.WriteString("/-- the sentinel errors Add can return, in the order of the return statements -/\n")
	var errs []string
	for _, s := range w.steps {
		if s.kind == "ret" {
			name, _, _ := strings.Cut(s.detail, " | ")
			errs = append(errs, mpaLeanStr(name))
		}
	}
	fmt.Fprintf(&b, "def errOrder : List String := [%s]\n", strings.Join(errs, ", "))
	// the ConflictsT case of Blockchain.verifyTxAttributes (pkg/core/blockchain.go): the check in front of Pool.Add
	// that rejects a repeated Conflicts hash (model: Proofs/MempoolAdmit.lean dupScan / conflictsAttrsOk)
	bpath := filepath.Join(repo, "pkg/core/blockchain.go")
	var bcontent any
	if c, ok := overlayFromEnv()[bpath]; ok {
		bcontent = c
	}
	bf, err := parser.ParseFile(fset, bpath, bcontent, 0)
	if err != nil {
		return "", err
	}
	var clause *ast.CaseClause
	for _, d := range bf.Decls {
		fd, ok := d.(*ast.FuncDecl)
		if !ok || fd.Name.Name != "verifyTxAttributes" || fd.Body == nil {
			continue
		}
		ast.Inspect(fd.Body, func(n ast.Node) bool {
			if cc, ok := n.(*ast.CaseClause); ok && clause == nil {
				for _, e := range cc.List {
					if w.src(e) == "transaction.ConflictsT" {
						clause = cc
					}
				}
			}
			return true
		})
	}
	if clause == nil {
		return "", fmt.Errorf("blockchain.go: case transaction.ConflictsT of verifyTxAttributes not found")
	}
	w.steps = nil
	w.block(clause.Body, nil)
	b.WriteString("/-- verifyTxAttributes of pkg/core/blockchain.go, case transaction.ConflictsT: (kind, detail) in source order -/\n")
	b.WriteString("def conflictsAttrSteps : List (String × String) := [\n")
	for i, s := range w.steps {
		sep := ","
		if i == len(w.steps)-1 {
			sep = ""
		}
		fmt.Fprintf(&b, "  (%s, %s)%s\n", mpaLeanStr(s.kind), mpaLeanStr(s.detail), sep)
	}
	b.WriteString("]\n")
	b.WriteString("end NeoModel.Generated.MempoolAdd\n")
	return b.String(), nil
}
