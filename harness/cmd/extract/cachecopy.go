package main

// Table "CacheCopy" (property C04, DESIGN C04.4): what makes the copy-on-write layering of the native caches
// (pkg/core/dao getCache: a private layer gets `Copy()` of the lower layer's cache object) sound, read from the
// source of pkg/core/native with go/types on every run:
//
//	cacheTypes  the struct types of package native that implement dao.NativeContractCache (a Copy method)
//	fields      for every cache type every leaf field (nested by-value structs of the package are flattened:
//	            `oracles.nodes`): its type, the kind of reference it holds (map / slice / ptr / iface / val),
//	            whether its ELEMENTS hold references again (a cloned map of pointers still shares the pointees),
//	            and what Copy() does with it:
//	              clone   maps.Clone / slices.Clone / bytes.Clone / make+copy: a fresh container
//	              assign  plain assignment or struct copy: the container is SHARED with the lower layer
//	              zero    not mentioned: the copy starts with the zero value
//	              other:… anything else (printed)
//	writes      every statement of the package that modifies something reachable from a cache object:
//	            (file, function, `CacheType.path`, kind, source)
//	              kind   whole       `x.f = e`, e does not mention `.f`        (the container is replaced)
//	                     whole-self  `x.f = append(x.f, …)` / slices.Insert(x.f, …): may write into the old backing array
//	                     elem        `x.f[k] = e`, `x.f[k].g = e`              (the container is modified in place)
//	                     delete      delete(x.f, k) / clear(x.f)
//	                     incdec      x.f++ (value fields only; listed for completeness)
//	                     star        `*x = …`
//	                     ptrcall:M   a pointer-receiver method M called on something stored under x.f
//	              source how the function obtained the object it writes through: rw (GetRWCache), ro (GetROCache),
//	                     new (allocated here), param (parameter/receiver: see `calls`), zero, other; joined with `+`
//	                     when the variable is bound more than once (flow-insensitive).
//	calls       every call that hands a cache object (or a pointer into one) to a function of the package:
//	            (file, caller, callee, source of the object in the caller)
//	mixedGuards for every write / call whose object is bound both to GetROCache and GetRWCache in the same function:
//	            the statement that immediately precedes it in its block (expected: the guarded re-binding to RW)
//
// Self-contained on purpose (shares no helper with the other table files).

import (
	"bytes"
	"encoding/json"
	"fmt"
	"go/ast"
	"go/printer"
	"go/token"
	"go/types"
	"os"
	"path/filepath"
	"sort"
	"strings"
	"time"

	"golang.org/x/tools/go/packages"
)

func init() { register("CacheCopy", genCacheCopy) }

type ccField struct {
	typ, path, gotype, ref string
	elemRefs               bool
	action                 string
	alias                  string // the name write rows use: `Type.path`, through a nested struct `nestedType.subpath`
}

type ccCtx struct {
	pkg     *packages.Package
	info    *types.Info
	tpkg    *types.Package
	caches  map[string]bool // cache type names
	nested  map[string]bool // by-value struct types of the package reachable from a cache type
	funcs   map[*types.Func]*ast.FuncDecl
	repo    string
	writes  map[string]bool
	calls   map[string]bool
	guards  map[string]bool
	roSites int
	rwSites int
	// pointees: named struct types (of any package) that a cache container holds POINTERS to, e.g.
	// state.Contract in ManagementCache.contracts; pwrites: assignments through a pointer to one of them.
	pointees map[string]bool
	pwrites  map[string]bool
	// aliases: writes / pointer-receiver calls / hand-overs through a local variable that was bound to (part of)
	// something stored in a cache object (`cs := cache.committee; cs[i].Votes.Add(…)`), invisible to `writes`
	awrites map[string]bool
	// xwrites: assignments through a pointer to a `pointees` type in the packages that get such pointers from the
	// exported getters of package native (pkg/core, pkg/core/interop/...)
	xwrites map[string]bool
}

// ccPointees collects the named struct types reachable through a pointer from t.
func ccPointees(t types.Type, viaPtr bool, seen map[types.Type]bool, out map[string]bool) {
	if viaPtr {
		if _, ok := t.(*types.Named); !ok {
			return
		}
	} else {
		if seen[t] {
			return
		}
		seen[t] = true
	}
	if nt, ok := t.(*types.Named); ok && viaPtr {
		if _, isStruct := nt.Underlying().(*types.Struct); isStruct && nt.Obj().Pkg() != nil {
			out[nt.Obj().Pkg().Name()+"."+nt.Obj().Name()] = true
		}
	}
	switch u := t.Underlying().(type) {
	case *types.Pointer:
		ccPointees(u.Elem(), true, seen, out)
	case *types.Slice:
		ccPointees(u.Elem(), false, seen, out)
	case *types.Array:
		ccPointees(u.Elem(), false, seen, out)
	case *types.Map:
		ccPointees(u.Elem(), false, seen, out)
	case *types.Struct:
		if !viaPtr { // do not descend into the pointee's own fields
			for i := 0; i < u.NumFields(); i++ {
				ccPointees(u.Field(i).Type(), false, seen, out)
			}
		}
	}
}

func (c *ccCtx) pointeeName(t types.Type) string {
	pt, ok := t.(*types.Pointer)
	if !ok {
		return ""
	}
	nt, ok := pt.Elem().(*types.Named)
	if !ok || nt.Obj().Pkg() == nil {
		return ""
	}
	n := nt.Obj().Pkg().Name() + "." + nt.Obj().Name()
	if c.pointees[n] {
		return n
	}
	return ""
}

func ccExpr(e ast.Node) string {
	var b bytes.Buffer
	_ = printer.Fprint(&b, token.NewFileSet(), e)
	return strings.Join(strings.Fields(b.String()), " ")
}

func ccQual(p *types.Package) string { return p.Name() }

// ccHasRef: does a value of type t contain something through which two copies of it can share mutable state?
func ccHasRef(t types.Type, seen map[types.Type]bool) bool {
	if seen[t] {
		return false
	}
	seen[t] = true
	switch u := t.Underlying().(type) {
	case *types.Basic:
		return false // strings are immutable
	case *types.Array:
		return ccHasRef(u.Elem(), seen)
	case *types.Struct:
		for i := 0; i < u.NumFields(); i++ {
			if ccHasRef(u.Field(i).Type(), seen) {
				return true
			}
		}
		return false
	default:
		return true // map, slice, pointer, chan, interface, func
	}
}

func ccRefKind(t types.Type) (kind string, elemRefs bool) {
	switch u := t.Underlying().(type) {
	case *types.Map:
		return "map", ccHasRef(u.Elem(), map[types.Type]bool{}) || ccHasRef(u.Key(), map[types.Type]bool{})
	case *types.Slice:
		return "slice", ccHasRef(u.Elem(), map[types.Type]bool{})
	case *types.Pointer:
		return "ptr", ccHasRef(u.Elem(), map[types.Type]bool{})
	case *types.Interface:
		return "iface", true
	case *types.Chan:
		return "chan", true
	case *types.Signature:
		return "func", true
	}
	if ccHasRef(t, map[types.Type]bool{}) {
		return "val-with-refs", true // e.g. big.Int by value: a struct holding a slice
	}
	return "val", false
}

// ccNamedLocalStruct returns the name of t if it is a named struct type of package native (by value).
func (c *ccCtx) ccNamedLocalStruct(t types.Type) (string, *types.Struct) {
	nt, ok := t.(*types.Named)
	if !ok || nt.Obj().Pkg() != c.tpkg {
		return "", nil
	}
	st, ok := nt.Underlying().(*types.Struct)
	if !ok {
		return "", nil
	}
	return nt.Obj().Name(), st
}

func (c *ccCtx) flatten(typ, prefix, aliasPrefix string, st *types.Struct, out *[]ccField) {
	for i := 0; i < st.NumFields(); i++ {
		f := st.Field(i)
		path := prefix + f.Name()
		if n, sub := c.ccNamedLocalStruct(f.Type()); sub != nil && !f.Embedded() {
			c.nested[n] = true
			c.flatten(typ, path+".", n+".", sub, out)
			continue
		}
		k, er := ccRefKind(f.Type())
		*out = append(*out, ccField{typ: typ, path: path, gotype: types.TypeString(f.Type(), ccQual), ref: k, elemRefs: er,
			alias: aliasPrefix + f.Name()})
	}
}

// ccTrackedName: "XCache" / nested struct name if t is (a pointer to) a tracked type.
func (c *ccCtx) tracked(t types.Type) string {
	if t == nil {
		return ""
	}
	if pt, ok := t.(*types.Pointer); ok {
		t = pt.Elem()
	}
	nt, ok := t.(*types.Named)
	if !ok || nt.Obj().Pkg() != c.tpkg {
		return ""
	}
	n := nt.Obj().Name()
	if c.caches[n] || c.nested[n] {
		return n
	}
	return ""
}

func ccCloneCall(e ast.Expr) bool {
	s := ccExpr(e)
	for _, p := range []string{"maps.Clone(", "slices.Clone(", "bytes.Clone("} {
		if strings.HasPrefix(s, p) {
			return true
		}
	}
	return false
}

// copyActions analyses T.Copy (and a helper copyX(src, dst) it calls) and returns top-level field -> action.
func (c *ccCtx) copyActions(typ string, st *types.Struct) (map[string]string, error) {
	var copyDecl *ast.FuncDecl
	for fn, fd := range c.funcs {
		if fn.Name() != "Copy" || fd.Recv == nil {
			continue
		}
		if c.tracked(c.info.TypeOf(fd.Recv.List[0].Type)) == typ {
			copyDecl = fd
		}
	}
	if copyDecl == nil {
		return nil, fmt.Errorf("no Copy method for %s", typ)
	}
	act := map[string]string{}
	for i := 0; i < st.NumFields(); i++ {
		act[st.Field(i).Name()] = "zero"
	}
	src := ""
	if len(copyDecl.Recv.List[0].Names) > 0 {
		src = copyDecl.Recv.List[0].Names[0].Name
	}
	classify := func(field string, rhs ast.Expr, srcName string) string {
		if ccCloneCall(rhs) {
			return "clone"
		}
		if ccExpr(rhs) == srcName+"."+field {
			return "assign"
		}
		if ce, ok := rhs.(*ast.CallExpr); ok {
			if id, ok := ce.Fun.(*ast.Ident); ok && id.Name == "make" {
				return "make" // needs an element copy to be a clone: see below
			}
		}
		return "other:" + ccExpr(rhs)
	}
	var body func(b *ast.BlockStmt, srcName, dstName string, depth int)
	body = func(b *ast.BlockStmt, srcName, dstName string, depth int) {
		ast.Inspect(b, func(n ast.Node) bool {
			switch s := n.(type) {
			case *ast.CompositeLit: // &T{f: e, ...}
				if c.tracked(c.info.TypeOf(s)) != typ {
					return true
				}
				for _, el := range s.Elts {
					if kv, ok := el.(*ast.KeyValueExpr); ok {
						if k, ok := kv.Key.(*ast.Ident); ok {
							act[k.Name] = classify(k.Name, kv.Value, srcName)
						}
					}
				}
			case *ast.AssignStmt:
				if len(s.Lhs) != 1 || len(s.Rhs) != 1 {
					return true
				}
				l, r := ccExpr(s.Lhs[0]), ccExpr(s.Rhs[0])
				if dstName != "" && l == "*"+dstName && r == "*"+srcName {
					for k := range act {
						act[k] = "assign"
					}
					return true
				}
				if se, ok := s.Lhs[0].(*ast.SelectorExpr); ok {
					if id, ok := se.X.(*ast.Ident); ok && id.Name == dstName {
						if _, known := act[se.Sel.Name]; known {
							act[se.Sel.Name] = classify(se.Sel.Name, s.Rhs[0], srcName)
						}
					}
				}
			case *ast.CallExpr:
				// copy(dst.f, src.f) after dst.f = make(...)
				if id, ok := s.Fun.(*ast.Ident); ok && id.Name == "copy" && len(s.Args) == 2 {
					for k, a := range act {
						if a == "make" && ccExpr(s.Args[0]) == dstName+"."+k && ccExpr(s.Args[1]) == srcName+"."+k {
							act[k] = "clone"
						}
					}
				}
				// helper(src, dst)
				if depth == 0 {
					if id, ok := s.Fun.(*ast.Ident); ok {
						if fn, ok := c.info.Uses[id].(*types.Func); ok {
							if fd := c.funcs[fn]; fd != nil && len(s.Args) == 2 && fd.Recv == nil {
								var names []string
								for _, p := range fd.Type.Params.List {
									for _, nm := range p.Names {
										names = append(names, nm.Name)
									}
								}
								if len(names) == 2 && ccExpr(s.Args[0]) == srcName && c.tracked(c.info.TypeOf(s.Args[1])) == typ {
									body(fd.Body, names[0], names[1], 1)
								}
							}
						}
					}
				}
			}
			return true
		})
	}
	// the destination variable: `cp := &T{...}` / `cp := new(T)`
	dst := ""
	ast.Inspect(copyDecl.Body, func(n ast.Node) bool {
		if as, ok := n.(*ast.AssignStmt); ok && as.Tok == token.DEFINE && len(as.Lhs) == 1 {
			if id, ok := as.Lhs[0].(*ast.Ident); ok && c.tracked(c.info.TypeOf(as.Rhs[0])) == typ {
				dst = id.Name
			}
		}
		return true
	})
	body(copyDecl.Body, src, dst, 0)
	for k, a := range act {
		if a == "make" {
			act[k] = "other:make-without-copy"
		}
	}
	return act, nil
}

func (c *ccCtx) funcName(fd *ast.FuncDecl) string {
	name := fd.Name.Name
	if fd.Recv != nil && len(fd.Recv.List) > 0 {
		t := fd.Recv.List[0].Type
		if st, ok := t.(*ast.StarExpr); ok {
			t = st.X
		}
		if ix, ok := t.(*ast.IndexExpr); ok {
			t = ix.X
		}
		if id, ok := t.(*ast.Ident); ok {
			name = id.Name + "." + name
		}
	}
	return name
}

func (c *ccCtx) calleeName(fn *types.Func) string {
	sig := fn.Type().(*types.Signature)
	if r := sig.Recv(); r != nil {
		t := r.Type()
		if pt, ok := t.(*types.Pointer); ok {
			t = pt.Elem()
		}
		if nt, ok := t.(*types.Named); ok {
			return nt.Obj().Name() + "." + fn.Name()
		}
	}
	return fn.Name()
}

func ccJoin(m map[string]bool) string {
	if len(m) == 0 {
		return "unknown"
	}
	l := make([]string, 0, len(m))
	for s := range m {
		l = append(l, s)
	}
	sort.Strings(l)
	return strings.Join(l, "+")
}

// ccRoot walks x.f.g[k].h down to its root identifier; returns the identifier, the selector names from the
// root outwards, and for every selector whether an index/star was crossed BEFORE reaching it from the root.
type ccStep struct {
	sel   string // "" for an index / deref step
	index bool
}

func ccPath(e ast.Expr) (*ast.Ident, []ccStep) {
	var rev []ccStep
	for {
		switch t := e.(type) {
		case *ast.ParenExpr:
			e = t.X
		case *ast.StarExpr:
			rev = append(rev, ccStep{index: true})
			e = t.X
		case *ast.IndexExpr:
			rev = append(rev, ccStep{index: true})
			e = t.X
		case *ast.SliceExpr:
			rev = append(rev, ccStep{index: true})
			e = t.X
		case *ast.UnaryExpr:
			if t.Op == token.AND {
				e = t.X
				continue
			}
			return nil, nil
		case *ast.SelectorExpr:
			rev = append(rev, ccStep{sel: t.Sel.Name})
			e = t.X
		case *ast.Ident:
			steps := make([]ccStep, len(rev))
			for i := range rev {
				steps[i] = rev[len(rev)-1-i]
			}
			return t, steps
		default:
			return nil, nil
		}
	}
}

func (c *ccCtx) scanFunc(fd *ast.FuncDecl, rel string) {
	info := c.info
	fname := c.funcName(fd)
	src := map[types.Object]map[string]bool{}
	add := func(o types.Object, s string) {
		if o == nil {
			return
		}
		if src[o] == nil {
			src[o] = map[string]bool{}
		}
		src[o][s] = true
	}
	if fd.Recv != nil {
		for _, f := range fd.Recv.List {
			for _, n := range f.Names {
				if o := info.Defs[n]; o != nil && c.tracked(o.Type()) != "" {
					add(o, "param")
				}
			}
		}
	}
	for _, f := range fd.Type.Params.List {
		for _, n := range f.Names {
			if o := info.Defs[n]; o != nil && c.tracked(o.Type()) != "" {
				add(o, "param")
			}
		}
	}
	// sources of the tracked variables; two passes so that `v := &cache.x` inherits cache's sources
	sourceOf := func(e ast.Expr) []string {
		s := ccExpr(e)
		switch {
		case strings.Contains(s, "GetRWCache("):
			return []string{"rw"}
		case strings.Contains(s, "GetROCache("):
			return []string{"ro"}
		}
		if ue, ok := e.(*ast.UnaryExpr); ok && ue.Op == token.AND {
			if _, ok := ue.X.(*ast.CompositeLit); ok {
				return []string{"new"}
			}
		}
		if ce, ok := e.(*ast.CallExpr); ok {
			if id, ok := ce.Fun.(*ast.Ident); ok && id.Name == "new" {
				return []string{"new"}
			}
		}
		if _, ok := e.(*ast.CompositeLit); ok {
			return []string{"new"}
		}
		// derived from another tracked variable
		var res []string
		ast.Inspect(e, func(n ast.Node) bool {
			if id, ok := n.(*ast.Ident); ok {
				if o := info.ObjectOf(id); o != nil && src[o] != nil {
					for k := range src[o] {
						res = append(res, k)
					}
				}
			}
			return true
		})
		if len(res) > 0 {
			return res
		}
		return []string{"other"}
	}
	for pass := 0; pass < 2; pass++ {
		ast.Inspect(fd.Body, func(n ast.Node) bool {
			switch s := n.(type) {
			case *ast.AssignStmt:
				for i, l := range s.Lhs {
					id, ok := l.(*ast.Ident)
					if !ok {
						continue
					}
					o := info.ObjectOf(id)
					if o == nil || c.tracked(o.Type()) == "" {
						continue
					}
					var r ast.Expr
					if len(s.Rhs) == len(s.Lhs) {
						r = s.Rhs[i]
					} else if len(s.Rhs) == 1 {
						r = s.Rhs[0]
					} else {
						continue
					}
					for _, k := range sourceOf(r) {
						add(o, k)
					}
					if pass == 0 {
						t := ccExpr(r)
						if strings.Contains(t, "GetROCache(") {
							c.roSites++
						}
						if strings.Contains(t, "GetRWCache(") {
							c.rwSites++
						}
					}
				}
			case *ast.ValueSpec:
				for i, id := range s.Names {
					o := info.Defs[id]
					if o == nil || c.tracked(o.Type()) == "" {
						continue
					}
					if i < len(s.Values) {
						for _, k := range sourceOf(s.Values[i]) {
							add(o, k)
						}
					} else {
						add(o, "zero")
					}
				}
			}
			return true
		})
	}
	c.scanAliases(fd, rel, func(o types.Object) string { return ccJoin(src[o]) })
	// parent blocks, to print the statement preceding a mixed-source write
	prevStmt := map[ast.Stmt]ast.Stmt{}
	ast.Inspect(fd.Body, func(n ast.Node) bool {
		var list []ast.Stmt
		switch b := n.(type) {
		case *ast.BlockStmt:
			list = b.List
		case *ast.CaseClause:
			list = b.Body
		}
		for i := 1; i < len(list); i++ {
			prevStmt[list[i]] = list[i-1]
		}
		return true
	})
	var stack []ast.Node
	enclosingStmt := func() ast.Stmt {
		for i := len(stack) - 1; i >= 0; i-- {
			if st, ok := stack[i].(ast.Stmt); ok {
				if _, has := prevStmt[st]; has {
					return st
				}
				if i > 0 {
					if _, inBlock := stack[i-1].(*ast.BlockStmt); inBlock {
						return st
					}
				}
			}
		}
		return nil
	}
	mixed := func(sources, what string) {
		hasRo, hasOther := false, false
		for _, p := range strings.Split(sources, "+") {
			if p == "ro" {
				hasRo = true
			} else {
				hasOther = true
			}
		}
		if !(hasRo && hasOther) {
			return
		}
		g := "<first statement of its block>"
		if st := enclosingStmt(); st != nil {
			if p := prevStmt[st]; p != nil {
				g = ccExpr(p)
			}
		}
		c.guards[rel+"\x00"+fname+"\x00"+what+"\x00"+g] = true
	}
	// fieldPath: the path of field names below the tracked root (by-value nested structs extend the path),
	// and whether something below the first container was addressed.
	record := func(target ast.Expr, kind string, rhs ast.Expr) {
		id, steps := ccPath(target)
		if id == nil {
			return
		}
		o := info.ObjectOf(id)
		if o == nil {
			return
		}
		if pn := c.pointeeName(o.Type()); pn != "" && len(steps) > 0 {
			f := "*"
			for _, st := range steps {
				if st.sel != "" {
					f = st.sel
					break
				}
			}
			c.pwrites[rel+"\x00"+fname+"\x00"+pn+"."+f+"\x00"+kind+"\x00ptr"] = true
			return
		}
		tn := c.tracked(o.Type())
		if tn == "" {
			return
		}
		sources := ccJoin(src[o])
		if len(steps) == 0 {
			return
		}
		if steps[0].index && steps[0].sel == "" && len(steps) == 1 {
			// *x = ...
			c.writes[rel+"\x00"+fname+"\x00"+tn+".*\x00star\x00"+sources] = true
			mixed(sources, tn+".*")
			return
		}
		var path []string
		deep := false
		i := 0
		if steps[0].index && steps[0].sel == "" { // (*x).f
			i = 1
		}
		for ; i < len(steps); i++ {
			if steps[i].sel == "" || deep {
				deep = true
				continue
			}
			path = append(path, steps[i].sel)
			// does the path continue inside a by-value nested struct of the package?
			if !c.isNestedField(tn, path) {
				if i+1 < len(steps) {
					deep = true
				}
			}
		}
		if len(path) == 0 {
			return
		}
		p := strings.Join(path, ".")
		k := kind
		if kind == "assign" {
			switch {
			case deep:
				k = "elem"
			case rhs != nil && c.mentionsSame(rhs, o, path):
				k = "whole-self"
			default:
				k = "whole"
			}
		}
		c.writes[rel+"\x00"+fname+"\x00"+tn+"."+p+"\x00"+k+"\x00"+sources] = true
		mixed(sources, tn+"."+p)
	}
	var visit func(n ast.Node) bool
	visit = func(n ast.Node) bool {
		if n == nil {
			stack = stack[:len(stack)-1]
			return true
		}
		stack = append(stack, n)
		switch s := n.(type) {
		case *ast.AssignStmt:
			for i, l := range s.Lhs {
				if _, isIdent := l.(*ast.Ident); isIdent {
					continue
				}
				var r ast.Expr
				if len(s.Rhs) == len(s.Lhs) {
					r = s.Rhs[i]
				} else if len(s.Rhs) == 1 {
					r = s.Rhs[0]
				}
				if s.Tok != token.ASSIGN && s.Tok != token.DEFINE { // +=, |= ...
					record(l, "assign", l)
				} else {
					record(l, "assign", r)
				}
			}
		case *ast.IncDecStmt:
			if _, isIdent := s.X.(*ast.Ident); !isIdent {
				record(s.X, "incdec", nil)
			}
		case *ast.CallExpr:
			if id, ok := s.Fun.(*ast.Ident); ok && (id.Name == "delete" || id.Name == "clear") && len(s.Args) > 0 {
				record(s.Args[0], "delete", nil)
			}
			// pointer-receiver method called on something stored under a tracked object
			if se, ok := s.Fun.(*ast.SelectorExpr); ok {
				if sel := info.Selections[se]; sel != nil && sel.Kind() == types.MethodVal {
					fn := sel.Obj().(*types.Func)
					sig := fn.Type().(*types.Signature)
					_, ptrRecv := sig.Recv().Type().(*types.Pointer)
					if id, steps := ccPath(se.X); id != nil && len(steps) > 0 && ptrRecv {
						if o := info.ObjectOf(id); o != nil && c.tracked(o.Type()) != "" {
							record(se.X, "ptrcall:"+fn.Name(), nil)
						}
					}
					// a method of a tracked type called on a tracked variable: a call row
					if id, ok := se.X.(*ast.Ident); ok {
						if o := info.ObjectOf(id); o != nil && c.tracked(o.Type()) != "" && fn.Pkg() == c.tpkg {
							sources := ccJoin(src[o])
							c.calls[rel+"\x00"+fname+"\x00"+c.calleeName(fn)+"\x00"+sources] = true
							mixed(sources, "call "+c.calleeName(fn))
						}
					}
				}
			}
			// a tracked object (or a pointer into one) handed to a function of the package
			var callee *types.Func
			switch f := s.Fun.(type) {
			case *ast.Ident:
				callee, _ = info.Uses[f].(*types.Func)
			case *ast.SelectorExpr:
				callee, _ = info.Uses[f.Sel].(*types.Func)
			}
			if id, ok := s.Fun.(*ast.Ident); ok {
				if _, builtin := info.Uses[id].(*types.Builtin); builtin {
					return true // len/cap read; append/delete/clear/copy are write rows
				}
			}
			for _, a := range s.Args {
				id, _ := ccPath(a)
				if id == nil {
					continue
				}
				o := info.ObjectOf(id)
				if o == nil || c.tracked(o.Type()) == "" {
					continue
				}
				// only reference-passing arguments matter: the variable itself (a pointer) or &x.f
				at := info.TypeOf(a)
				if at == nil {
					continue
				}
				if k, _ := ccRefKind(at); k == "val" {
					continue
				}
				name := "<dynamic> " + ccExpr(s.Fun)
				if callee != nil {
					if callee.Pkg() != c.tpkg {
						name = "ext:" + callee.Pkg().Name() + "." + c.calleeName(callee)
					} else {
						name = c.calleeName(callee)
					}
				}
				sources := ccJoin(src[o])
				c.calls[rel+"\x00"+fname+"\x00"+name+"\x00"+sources] = true
				mixed(sources, "call "+name)
			}
		}
		return true
	}
	ast.Inspect(fd.Body, visit)
}

// mentionsSame: does e read the field `path` of the same variable (x.f = append(x.f, ...))?
func (c *ccCtx) mentionsSame(e ast.Expr, root types.Object, path []string) bool {
	found := false
	ast.Inspect(e, func(n ast.Node) bool {
		se, ok := n.(*ast.SelectorExpr)
		if !ok || found {
			return !found
		}
		id, steps := ccPath(se)
		if id == nil || c.info.ObjectOf(id) != root {
			return true
		}
		var names []string
		for _, st := range steps {
			if st.sel != "" {
				names = append(names, st.sel)
			}
		}
		if len(names) >= len(path) {
			same := true
			for i := range path {
				if names[i] != path[i] {
					same = false
				}
			}
			if same {
				found = true
			}
		}
		return !found
	})
	return found
}

// scanAliases: taint analysis inside one function. A local variable is an ALIAS of a cache field if it holds
// references (map, slice, pointer, struct with such) and was bound to an expression rooted in a tracked cache
// variable or in another alias. Recorded: every assignment / delete / ++ / pointer-receiver method call whose
// target is rooted in an alias, and every hand-over of an alias to a function of the package.
func (c *ccCtx) scanAliases(fd *ast.FuncDecl, rel string, srcOf func(types.Object) string) {
	info := c.info
	fname := c.funcName(fd)
	type origin struct{ field, src string }
	alias := map[types.Object]origin{}
	originOf := func(e ast.Expr) (origin, bool) {
		id, steps := ccPath(e)
		if id == nil {
			// a call such as getCommitteeMembers(cache.committee) returns fresh data: not followed
			return origin{}, false
		}
		o := info.ObjectOf(id)
		if o == nil {
			return origin{}, false
		}
		if tn := c.tracked(o.Type()); tn != "" {
			f := ""
			for _, st := range steps {
				if st.sel != "" {
					f = st.sel
					break
				}
			}
			if f == "" {
				return origin{}, false // the cache object itself: covered by `writes`
			}
			return origin{tn + "." + f, srcOf(o)}, true
		}
		if og, ok := alias[o]; ok {
			return og, true
		}
		return origin{}, false
	}
	bind := func(lhs *ast.Ident, rhs ast.Expr) {
		o := info.ObjectOf(lhs)
		if o == nil || c.tracked(o.Type()) != "" || !ccHasRef(o.Type(), map[types.Type]bool{}) {
			return
		}
		if og, ok := originOf(rhs); ok {
			alias[o] = og
		}
	}
	for pass := 0; pass < 3; pass++ {
		ast.Inspect(fd.Body, func(n ast.Node) bool {
			switch s := n.(type) {
			case *ast.AssignStmt:
				if len(s.Lhs) == len(s.Rhs) {
					for i, l := range s.Lhs {
						if id, ok := l.(*ast.Ident); ok {
							bind(id, s.Rhs[i])
						}
					}
				} else if len(s.Rhs) == 1 && len(s.Lhs) == 2 { // v, ok := m[k]
					if id, ok := s.Lhs[0].(*ast.Ident); ok {
						bind(id, s.Rhs[0])
					}
				}
			case *ast.ValueSpec:
				for i, id := range s.Names {
					if i < len(s.Values) {
						bind(id, s.Values[i])
					}
				}
			case *ast.RangeStmt:
				if id, ok := s.Value.(*ast.Ident); ok && s.Value != nil {
					bind(id, s.X)
				}
			}
			return true
		})
	}
	if len(alias) == 0 {
		return
	}
	rooted := func(e ast.Expr) (origin, int, bool) {
		id, steps := ccPath(e)
		if id == nil {
			return origin{}, 0, false
		}
		og, ok := alias[info.ObjectOf(id)]
		return og, len(steps), ok
	}
	rec := func(og origin, kind string) {
		c.awrites[rel+"\x00"+fname+"\x00"+og.field+"\x00"+kind+"\x00"+og.src] = true
	}
	ast.Inspect(fd.Body, func(n ast.Node) bool {
		switch s := n.(type) {
		case *ast.AssignStmt:
			for _, l := range s.Lhs {
				if _, isIdent := l.(*ast.Ident); isIdent {
					continue
				}
				if og, k, ok := rooted(l); ok && k > 0 {
					rec(og, "elem")
				}
			}
		case *ast.IncDecStmt:
			if og, k, ok := rooted(s.X); ok && k > 0 {
				rec(og, "incdec")
			}
		case *ast.CallExpr:
			if id, ok := s.Fun.(*ast.Ident); ok {
				if _, builtin := info.Uses[id].(*types.Builtin); builtin {
					if (id.Name == "delete" || id.Name == "clear") && len(s.Args) > 0 {
						if og, _, ok := rooted(s.Args[0]); ok {
							rec(og, "delete")
						}
					}
					if id.Name == "append" && len(s.Args) > 0 { // append(alias, …) may write into the shared backing array
						if og, _, ok := rooted(s.Args[0]); ok {
							rec(og, "append")
						}
					}
					if id.Name == "copy" && len(s.Args) > 0 {
						if og, _, ok := rooted(s.Args[0]); ok {
							rec(og, "copy-into")
						}
					}
					return true
				}
			}
			if se, ok := s.Fun.(*ast.SelectorExpr); ok {
				if sel := info.Selections[se]; sel != nil && sel.Kind() == types.MethodVal {
					fn := sel.Obj().(*types.Func)
					_, ptrRecv := fn.Type().(*types.Signature).Recv().Type().(*types.Pointer)
					if og, _, ok := rooted(se.X); ok && ptrRecv {
						rec(og, "ptrcall:"+fn.Name())
					}
				}
			}
			var callee *types.Func
			switch f := s.Fun.(type) {
			case *ast.Ident:
				callee, _ = info.Uses[f].(*types.Func)
			case *ast.SelectorExpr:
				callee, _ = info.Uses[f.Sel].(*types.Func)
			}
			for _, a := range s.Args {
				og, _, ok := rooted(a)
				if !ok {
					continue
				}
				if at := info.TypeOf(a); at == nil || !ccHasRef(at, map[types.Type]bool{}) {
					continue
				}
				name := "<dynamic> " + ccExpr(s.Fun)
				if callee != nil {
					if callee.Pkg() != nil && callee.Pkg() != c.tpkg {
						name = "ext:" + callee.Pkg().Name() + "." + c.calleeName(callee)
					} else {
						name = c.calleeName(callee)
					}
				}
				rec(og, "arg-of:"+name)
			}
		}
		return true
	})
}

// isNestedField: is T.path (path = field names) itself a by-value nested struct of the package, so that a
// following selector still names a field of the cache object rather than something stored in a container?
func (c *ccCtx) isNestedField(typ string, path []string) bool {
	obj := c.tpkg.Scope().Lookup(typ)
	if obj == nil {
		return false
	}
	t := obj.Type()
	for _, p := range path {
		st, ok := t.Underlying().(*types.Struct)
		if !ok {
			return false
		}
		found := false
		for i := 0; i < st.NumFields(); i++ {
			if st.Field(i).Name() == p {
				t = st.Field(i).Type()
				found = true
			}
		}
		if !found {
			return false
		}
	}
	_, sub := c.ccNamedLocalStruct(t)
	return sub != nil
}

// ccOverlay: the development aid VERIF_GO_OVERLAY (a `go build -overlay` file: candidate changes of /repo
// kept outside /repo) is honoured, so that the table describes the same source the harnesses are built from.
func ccOverlay() map[string][]byte {
	path := os.Getenv("VERIF_GO_OVERLAY")
	if path == "" {
		return nil
	}
	raw, err := os.ReadFile(path)
	if err != nil {
		return nil
	}
	var ov struct{ Replace map[string]string }
	if json.Unmarshal(raw, &ov) != nil {
		return nil
	}
	res := map[string][]byte{}
	for k, v := range ov.Replace {
		if b, err := os.ReadFile(v); err == nil {
			res[k] = b
		}
	}
	return res
}

// ccReadFile reads a source file of the repository through the overlay.
func ccReadFile(path string) ([]byte, error) {
	if b, ok := ccOverlay()[path]; ok {
		return b, nil
	}
	return os.ReadFile(path)
}

func genCacheCopy(repo string) (string, error) {
	cfg := &packages.Config{
		Mode:    packages.NeedName | packages.NeedFiles | packages.NeedSyntax | packages.NeedTypes | packages.NeedTypesInfo | packages.NeedImports | packages.NeedDeps,
		Dir:     repo,
		Env:     append(os.Environ(), "GOFLAGS=-mod=readonly", "GOPROXY=off"),
		Overlay: ccOverlay(),
	}
	pkgs, err := packages.Load(cfg, "./pkg/core/native")
	if err != nil {
		return "", err
	}
	if len(pkgs) != 1 {
		return "", fmt.Errorf("expected one package, got %d", len(pkgs))
	}
	p := pkgs[0]
	if len(p.Errors) > 0 {
		return "", fmt.Errorf("package %s: %v", p.PkgPath, p.Errors[0])
	}
	c := &ccCtx{pkg: p, info: p.TypesInfo, tpkg: p.Types, caches: map[string]bool{}, nested: map[string]bool{},
		funcs: map[*types.Func]*ast.FuncDecl{}, repo: repo, writes: map[string]bool{}, calls: map[string]bool{}, guards: map[string]bool{},
		pointees: map[string]bool{}, pwrites: map[string]bool{}, awrites: map[string]bool{}, xwrites: map[string]bool{}}
	type fileDecl struct {
		rel string
		fd  *ast.FuncDecl
	}
	var decls []fileDecl
	for _, f := range p.Syntax {
		path := p.Fset.Position(f.Pos()).Filename
		rel, err := filepath.Rel(repo, path)
		if err != nil || strings.HasPrefix(rel, "..") || strings.HasSuffix(rel, "_test.go") {
			continue
		}
		for _, d := range f.Decls {
			if fd, ok := d.(*ast.FuncDecl); ok && fd.Body != nil {
				if fn, ok := p.TypesInfo.Defs[fd.Name].(*types.Func); ok {
					c.funcs[fn] = fd
				}
				decls = append(decls, fileDecl{rel, fd})
			}
		}
	}
	// 1. cache types: named structs of the package whose pointer type has a method Copy() returning an interface
	scope := p.Types.Scope()
	var cacheNames []string
	structs := map[string]*types.Struct{}
	for _, name := range scope.Names() {
		tn, ok := scope.Lookup(name).(*types.TypeName)
		if !ok {
			continue
		}
		st, ok := tn.Type().Underlying().(*types.Struct)
		if !ok {
			continue
		}
		ms := types.NewMethodSet(types.NewPointer(tn.Type()))
		if m := ms.Lookup(p.Types, "Copy"); m != nil {
			sig := m.Type().(*types.Signature)
			if sig.Params().Len() == 0 && sig.Results().Len() == 1 && strings.HasSuffix(types.TypeString(sig.Results().At(0).Type(), ccQual), "NativeContractCache") {
				cacheNames = append(cacheNames, name)
				c.caches[name] = true
				structs[name] = st
			}
		}
	}
	sort.Strings(cacheNames)
	if len(cacheNames) < 4 {
		return "", fmt.Errorf("only %d native cache types found: the extractor is broken", len(cacheNames))
	}
	// 2. fields + copy actions
	var fields []ccField
	for _, name := range cacheNames {
		var fl []ccField
		c.flatten(name, "", name+".", structs[name], &fl)
		act, err := c.copyActions(name, structs[name])
		if err != nil {
			return "", err
		}
		for i := range fl {
			top := fl[i].path
			if j := strings.Index(top, "."); j >= 0 {
				top = top[:j]
			}
			fl[i].action = act[top]
		}
		fields = append(fields, fl...)
	}
	for _, name := range cacheNames {
		ccPointees(structs[name], false, map[types.Type]bool{}, c.pointees)
	}
	// 3. writes and calls
	for _, d := range decls {
		c.scanFunc(d.fd, d.rel)
	}
	// 4. the users of the exported getters (native.GetContract & co. hand out the cached *state.Contract itself)
	xcfg := *cfg
	t0 := time.Now()
	defer func() {
		if os.Getenv("VERIF_EXTRACT_TIMING") != "" {
			fmt.Fprintf(os.Stderr, "CacheCopy: external packages scanned in %v\n", time.Since(t0))
		}
	}()
	xpkgs, err := packages.Load(&xcfg, "./pkg/core", "./pkg/core/interop/...", "./pkg/core/stateroot", "./pkg/core/mempool")
	if err != nil {
		return "", err
	}
	xfuncs := 0
	for _, xp := range xpkgs {
		if len(xp.Errors) > 0 {
			return "", fmt.Errorf("package %s: %v", xp.PkgPath, xp.Errors[0])
		}
		for _, f := range xp.Syntax {
			path := xp.Fset.Position(f.Pos()).Filename
			rel, err := filepath.Rel(repo, path)
			if err != nil || strings.HasPrefix(rel, "..") || strings.HasSuffix(rel, "_test.go") {
				continue
			}
			for _, d := range f.Decls {
				fd, ok := d.(*ast.FuncDecl)
				if !ok || fd.Body == nil {
					continue
				}
				xfuncs++
				fname := c.funcName(fd)
				target := func(e ast.Expr, kind string) {
					id, steps := ccPath(e)
					if id == nil || len(steps) == 0 {
						return
					}
					o := xp.TypesInfo.ObjectOf(id)
					if o == nil {
						return
					}
					pn := c.pointeeName(o.Type())
					if pn == "" {
						return
					}
					fld := "*"
					for _, st := range steps {
						if st.sel != "" {
							fld = st.sel
							break
						}
					}
					c.xwrites[rel+"\x00"+fname+"\x00"+pn+"."+fld+"\x00"+kind+"\x00ptr"] = true
				}
				ast.Inspect(fd.Body, func(n ast.Node) bool {
					switch s := n.(type) {
					case *ast.AssignStmt:
						for _, l := range s.Lhs {
							if _, isIdent := l.(*ast.Ident); !isIdent {
								target(l, "assign")
							}
						}
					case *ast.IncDecStmt:
						target(s.X, "incdec")
					}
					return true
				})
			}
		}
	}
	if xfuncs < 100 {
		return "", fmt.Errorf("only %d functions scanned outside package native: the extractor is broken", xfuncs)
	}
	if len(c.writes) < 10 || c.roSites == 0 || c.rwSites == 0 {
		return "", fmt.Errorf("only %d cache writes, %d/%d accessor sites found: the extractor is broken", len(c.writes), c.roSites, c.rwSites)
	}
	sorted := func(m map[string]bool) []string {
		l := make([]string, 0, len(m))
		for r := range m {
			l = append(l, r)
		}
		sort.Strings(l)
		return l
	}
	var b strings.Builder
	b.WriteString("namespace NeoModel.Generated.CacheCopy\n\n")
	b.WriteString("/-- struct types of pkg/core/native implementing dao.NativeContractCache -/\n")
	q := make([]string, len(cacheNames))
	for i, n := range cacheNames {
		q[i] = fmt.Sprintf("%q", n)
	}
	fmt.Fprintf(&b, "def cacheTypes : List String := [%s]\n\n", strings.Join(q, ", "))
	b.WriteString("structure Field where\n  typ : String\n  path : String\n  gotype : String\n  ref : String\n  elemRefs : Bool\n  action : String\n  alias : String\n  deriving Repr, DecidableEq\n\n")
	b.WriteString("/-- every leaf field of every cache type: reference kind, whether its elements hold references, what Copy() does with it -/\n")
	b.WriteString("def fields : List Field := [\n")
	for i, f := range fields {
		sep := ","
		if i == len(fields)-1 {
			sep = ""
		}
		fmt.Fprintf(&b, "  ⟨%q, %q, %q, %q, %v, %q, %q⟩%s\n", f.typ, f.path, f.gotype, f.ref, f.elemRefs, f.action, f.alias, sep)
	}
	b.WriteString("]\n\n")
	srcList := func(x string) string {
		ps := strings.Split(x, "+")
		for i := range ps {
			ps[i] = fmt.Sprintf("%q", ps[i])
		}
		return "[" + strings.Join(ps, ", ") + "]"
	}
	emitRows := func(name, typ, doc string, rows []string, srcCol int) {
		fmt.Fprintf(&b, "/-- %s -/\ndef %s : List %s := [\n", doc, name, typ)
		for i, r := range rows {
			sep := ","
			if i == len(rows)-1 {
				sep = ""
			}
			f := strings.Split(r, "\x00")
			qs := make([]string, len(f))
			for j := range f {
				if j == srcCol {
					qs[j] = srcList(f[j])
					if name == "calls" {
						qs[j] += fmt.Sprintf(", %v", strings.HasPrefix(f[2], "ext:"))
					}
				} else {
					qs[j] = fmt.Sprintf("%q", f[j])
				}
			}
			fmt.Fprintf(&b, "  ⟨%s⟩%s\n", strings.Join(qs, ", "), sep)
		}
		b.WriteString("]\n\n")
	}
	b.WriteString("structure Write where\n  file : String\n  fn : String\n  target : String\n  kind : String\n  src : List String\n  deriving Repr, DecidableEq\n\n")
	b.WriteString("structure Call where\n  file : String\n  caller : String\n  callee : String\n  src : List String\n  ext : Bool\n  deriving Repr, DecidableEq\n\n")
	b.WriteString("structure Guard where\n  file : String\n  fn : String\n  what : String\n  prev : String\n  deriving Repr, DecidableEq\n\n")
	emitRows("writes", "Write", "every modification of something reachable from a cache object: `CacheType.path`, kind, sources of the object written through", sorted(c.writes), 4)
	emitRows("calls", "Call", "every call handing a cache object (or a reference into one) to a function; `ext:` = another package", sorted(c.calls), 3)
	pl := sorted(c.pointees)
	for i := range pl {
		pl[i] = fmt.Sprintf("%q", pl[i])
	}
	fmt.Fprintf(&b, "/-- struct types a cache container holds POINTERS to (a cloned container still shares them) -/\ndef pointees : List String := [%s]\n\n", strings.Join(pl, ", "))
	emitRows("pointeeWrites", "Write", "assignments in pkg/core/native through a pointer to one of `pointees` (expected: none, objects are copied before they are changed)", sorted(c.pwrites), 4)
	emitRows("aliasWrites", "Write", "writes / pointer-receiver calls / hand-overs through a LOCAL ALIAS of something stored in a cache object: (file, function, `CacheType.field` the alias came from, kind, sources of the cache object)", sorted(c.awrites), 4)
	emitRows("externalPointeeWrites", "Write", "assignments through a pointer to one of `pointees` in pkg/core, pkg/core/interop/..., stateroot, mempool (users of native.GetContract & co.)", sorted(c.xwrites), 4)
	fmt.Fprintf(&b, "def externalFuncsScanned : Nat := %d\n\n", xfuncs)
	emitRows("mixedGuards", "Guard", "the statement preceding a write/call whose object is bound to GetROCache and to something else in the same function", sorted(c.guards), -1)
	fmt.Fprintf(&b, "def roSites : Nat := %d\ndef rwSites : Nat := %d\n\n", c.roSites, c.rwSites)
	b.WriteString("end NeoModel.Generated.CacheCopy\n")
	return b.String(), nil
}
