package main

// Table "ExcFacts" (property C04): which failures of an execution are CATCHABLE (a NeoVM exception: the
// uncaughtException register is set and handleException looks for a TRY frame) and which are not (a Go panic,
// recovered in vm.execute and turned into the FAULT state). The Exec model (lean/NeoModel/Model/Exec.lean) has
// exactly one catchable construct, the THROW instruction (`Tree.throw`), and treats everything a system call or a
// native method can do wrong (missing call flags, failed checks, panics) and ABORT as an immediate fault. Re-read
// from the source on every run:
//
//	throwOpcodes     the opcode cases of vm.execute that call v.throw(...)
//	rethrowOpcodes   the opcode cases that call v.handleException() directly (ENDFINALLY re-raises a pending exception)
//	abortOpcodes     the opcode cases whose own statement list contains an unconditional panic(...)
//	raisers          every function of package vm that calls throw / handleException, with "exported?"
//	excAssigns       every assignment to the uncaughtException register: (function, right-hand side)
//	recoverHandlers  every recover() in pkg/vm, pkg/core/interop/**, pkg/core/native/**: (file, function,
//	                 does the handler put the VM into vmstate.Fault)
//	syscallErr       what the SYSCALL case does with an error returned by the handler: the kind of every statement
//	                 under `if err != nil` (panic / return / other: …)
//	unloadErr        what unloadContext does when the context-unload callback returns an error
//	onUnloadedGuard  the guard in front of the native continuation (`onUnloaded`) in unloadContext
//	coreExcRefs      every reference from pkg/core/{interop,native}/** to an identifier of the VM's exception machinery
//	                 (throw, handleException, uncaughtException, in any capitalisation): expected none — system calls
//	                 and natives have no way to raise a catchable exception
//	corePanicSites / coreErrReturns   how many panic(...) calls / `return …err…` statements those packages have (non-vacuity)
//
// Self-contained on purpose; honours VERIF_GO_OVERLAY through ccReadFile (cachecopy.go, same owner).

import (
	"fmt"
	"go/ast"
	"go/parser"
	"go/token"
	"io/fs"
	"path/filepath"
	"sort"
	"strconv"
	"strings"
)

func init() { register("ExcFacts", genExcFacts) }

func excParse(fset *token.FileSet, path string) (*ast.File, error) {
	src, err := ccReadFile(path)
	if err != nil {
		return nil, err
	}
	return parser.ParseFile(fset, path, src, 0)
}

// excCalls: does n contain a call `<recv>.<name>(...)` (method call on anything) or `<name>(...)`?
func excCalls(n ast.Node, name string) bool {
	found := false
	ast.Inspect(n, func(m ast.Node) bool {
		ce, ok := m.(*ast.CallExpr)
		if !ok {
			return !found
		}
		switch f := ce.Fun.(type) {
		case *ast.SelectorExpr:
			if f.Sel.Name == name {
				found = true
			}
		case *ast.Ident:
			if f.Name == name {
				found = true
			}
		}
		return !found
	})
	return found
}

func excCaseLabels(fset *token.FileSet, cc *ast.CaseClause) []string {
	var l []string
	for _, e := range cc.List {
		s := execExprString(fset, e)
		l = append(l, strings.TrimPrefix(s, "opcode."))
	}
	return l
}

func genExcFacts(repo string) (string, error) {
	fset := token.NewFileSet()
	vmPath := filepath.Join(repo, "pkg/vm/vm.go")
	vmF, err := excParse(fset, vmPath)
	if err != nil {
		return "", err
	}
	exec := execFunc(vmF, "execute")
	if exec == nil {
		return "", fmt.Errorf("vm.execute not found")
	}
	// the opcode switch of execute: the top-level `switch op {` of the function body
	var opSwitch *ast.SwitchStmt
	for _, st := range exec.Body.List {
		if sw, ok := st.(*ast.SwitchStmt); ok && execExprString(fset, sw.Tag) == "op" {
			opSwitch = sw
		}
	}
	if opSwitch == nil {
		return "", fmt.Errorf("opcode switch of vm.execute not found")
	}
	var throwOps, rethrowOps, abortOps, syscallErr []string
	for _, st := range opSwitch.Body.List {
		cc, ok := st.(*ast.CaseClause)
		if !ok || len(cc.List) == 0 {
			continue
		}
		labels := excCaseLabels(fset, cc)
		body := &ast.BlockStmt{List: cc.Body}
		if excCalls(body, "throw") {
			throwOps = append(throwOps, labels...)
		}
		if excCalls(body, "handleException") {
			rethrowOps = append(rethrowOps, labels...)
		}
		for _, s := range cc.Body { // unconditional: a statement of the case itself
			if es, ok := s.(*ast.ExprStmt); ok {
				if ce, ok := es.X.(*ast.CallExpr); ok {
					if id, ok := ce.Fun.(*ast.Ident); ok && id.Name == "panic" {
						abortOps = append(abortOps, labels...)
					}
				}
			}
		}
		for _, l := range labels {
			if l == "SYSCALL" {
				// every statement under `if err != nil` of the case
				ast.Inspect(body, func(n ast.Node) bool {
					is, ok := n.(*ast.IfStmt)
					if !ok || execExprString(fset, is.Cond) != "err != nil" {
						return true
					}
					ast.Inspect(is.Body, func(m ast.Node) bool {
						if es, ok := m.(*ast.ExprStmt); ok {
							kind := "other: " + execExprString(fset, es)
							if ce, ok := es.X.(*ast.CallExpr); ok {
								if id, ok := ce.Fun.(*ast.Ident); ok && id.Name == "panic" {
									kind = "panic"
								}
							}
							syscallErr = append(syscallErr, kind)
						}
						if _, ok := m.(*ast.ReturnStmt); ok {
							syscallErr = append(syscallErr, "return")
						}
						return true
					})
					return false
				})
			}
		}
	}
	sort.Strings(throwOps)
	sort.Strings(rethrowOps)
	sort.Strings(abortOps)
	if len(throwOps) == 0 || len(syscallErr) == 0 {
		return "", fmt.Errorf("no throwing opcode / no SYSCALL error handling found: the extractor is broken")
	}

	// functions of package vm (all files) that call throw / handleException, and assignments to the register
	type raiser struct {
		name     string
		exported bool
	}
	var raisers []raiser
	var assigns [][2]string
	type rec struct {
		file, fn string
		fault    bool
	}
	var recovers []rec
	scanRecover := func(fs *token.FileSet, rel string, f *ast.File) {
		for _, d := range f.Decls {
			fd, ok := d.(*ast.FuncDecl)
			if !ok || fd.Body == nil {
				continue
			}
			ast.Inspect(fd.Body, func(n ast.Node) bool {
				fl, ok := n.(*ast.FuncLit)
				if !ok || !excCalls(fl.Body, "recover") {
					return true
				}
				txt := execExprString(fs, fl.Body)
				recovers = append(recovers, rec{rel, fd.Name.Name, strings.Contains(txt, "v.state = vmstate.Fault")})
				return false
			})
			if excCalls(&ast.BlockStmt{List: stmtsWithoutFuncLits(fd.Body)}, "recover") {
				recovers = append(recovers, rec{rel, fd.Name.Name, false})
			}
		}
	}
	vmDir := filepath.Join(repo, "pkg/vm")
	vmFiles, _ := filepath.Glob(filepath.Join(vmDir, "*.go"))
	sort.Strings(vmFiles)
	for _, p := range vmFiles {
		if strings.HasSuffix(p, "_test.go") {
			continue
		}
		fs2 := token.NewFileSet()
		f, err := excParse(fs2, p)
		if err != nil {
			return "", err
		}
		rel, _ := filepath.Rel(repo, p)
		for _, d := range f.Decls {
			fd, ok := d.(*ast.FuncDecl)
			if !ok || fd.Body == nil {
				continue
			}
			if excCalls(fd.Body, "throw") || excCalls(fd.Body, "handleException") {
				raisers = append(raisers, raiser{fd.Name.Name, ast.IsExported(fd.Name.Name)})
			}
			ast.Inspect(fd.Body, func(n ast.Node) bool {
				as, ok := n.(*ast.AssignStmt)
				if !ok {
					return true
				}
				for i, l := range as.Lhs {
					if se, ok := l.(*ast.SelectorExpr); ok && se.Sel.Name == "uncaughtException" && i < len(as.Rhs) {
						assigns = append(assigns, [2]string{fd.Name.Name, execExprString(fs2, as.Rhs[i])})
					}
				}
				return true
			})
		}
		scanRecover(fs2, rel, f)
	}
	sort.Slice(raisers, func(i, j int) bool { return raisers[i].name < raisers[j].name })
	sort.Slice(assigns, func(i, j int) bool {
		if assigns[i][0] != assigns[j][0] {
			return assigns[i][0] < assigns[j][0]
		}
		return assigns[i][1] < assigns[j][1]
	})

	// unloadContext
	unloadErr, guard := "", ""
	if fd := execFunc(vmF, "unloadContext"); fd != nil {
		ast.Inspect(fd.Body, func(n ast.Node) bool {
			is, ok := n.(*ast.IfStmt)
			if !ok {
				return true
			}
			cond := execExprString(fset, is.Cond)
			if cond == "err != nil" && unloadErr == "" {
				var ps []string
				for _, s := range is.Body.List {
					if es, ok := s.(*ast.ExprStmt); ok {
						ps = append(ps, execExprString(fset, es))
					}
				}
				unloadErr = strings.Join(ps, "; ")
			}
			if cond == "ctx.sc.onUnloaded != nil" {
				if len(is.Body.List) > 0 {
					guard = execExprString(fset, is.Body.List[0])
				}
			}
			return true
		})
	}
	if unloadErr == "" || guard == "" {
		return "", fmt.Errorf("unloadContext: error handling of the unload callback not found")
	}

	// pkg/core/interop/** and pkg/core/native/**
	var refs []string
	panics, errRets := 0, 0
	for _, sub := range []string{"pkg/core/interop", "pkg/core/native"} {
		err := filepath.WalkDir(filepath.Join(repo, sub), func(p string, d fs.DirEntry, err error) error {
			if err != nil || d.IsDir() || !strings.HasSuffix(p, ".go") || strings.HasSuffix(p, "_test.go") {
				return err
			}
			fs3 := token.NewFileSet()
			f, perr := excParse(fs3, p)
			if perr != nil {
				return perr
			}
			rel, _ := filepath.Rel(repo, p)
			ast.Inspect(f, func(n ast.Node) bool {
				switch x := n.(type) {
				case *ast.SelectorExpr:
					switch strings.ToLower(x.Sel.Name) {
					case "throw", "handleexception", "uncaughtexception":
						refs = append(refs, fmt.Sprintf("%s:%d %s", rel, fs3.Position(x.Pos()).Line, execExprString(fs3, x)))
					}
				case *ast.CallExpr:
					if id, ok := x.Fun.(*ast.Ident); ok && id.Name == "panic" {
						panics++
					}
				case *ast.ReturnStmt:
					for _, r := range x.Results {
						if strings.Contains(strings.ToLower(execExprString(fs3, r)), "err") {
							errRets++
							break
						}
					}
				}
				return true
			})
			scanRecover(fs3, rel, f)
			return nil
		})
		if err != nil {
			return "", err
		}
	}
	sort.Strings(refs)
	sort.Slice(recovers, func(i, j int) bool {
		if recovers[i].file != recovers[j].file {
			return recovers[i].file < recovers[j].file
		}
		return recovers[i].fn < recovers[j].fn
	})

	strList := func(l []string) string {
		q := make([]string, len(l))
		for i, s := range l {
			q[i] = strconv.Quote(s)
		}
		return "[" + strings.Join(q, ", ") + "]"
	}
	var b strings.Builder
	b.WriteString("namespace NeoModel.Generated.ExcFacts\n\n")
	fmt.Fprintf(&b, "/-- opcode cases of vm.execute that call v.throw(...): a catchable exception -/\ndef throwOpcodes : List String := %s\n\n", strList(throwOps))
	fmt.Fprintf(&b, "/-- opcode cases that call v.handleException() directly -/\ndef rethrowOpcodes : List String := %s\n\n", strList(rethrowOps))
	fmt.Fprintf(&b, "/-- opcode cases with an unconditional panic(...) -/\ndef abortOpcodes : List String := %s\n\n", strList(abortOps))
	b.WriteString("/-- functions of package vm calling throw / handleException: (name, exported) -/\ndef raisers : List (String × Bool) := [")
	for i, r := range raisers {
		if i > 0 {
			b.WriteString(", ")
		}
		fmt.Fprintf(&b, "(%s, %v)", strconv.Quote(r.name), r.exported)
	}
	b.WriteString("]\n\n/-- assignments to the uncaughtException register: (function, right-hand side) -/\ndef excAssigns : List (String × String) := [")
	for i, a := range assigns {
		if i > 0 {
			b.WriteString(", ")
		}
		fmt.Fprintf(&b, "(%s, %s)", strconv.Quote(a[0]), strconv.Quote(a[1]))
	}
	b.WriteString("]\n\n/-- recover() sites of pkg/vm, pkg/core/interop, pkg/core/native: (file, function, the handler sets vmstate.Fault) -/\ndef recoverHandlers : List (String × String × Bool) := [")
	for i, r := range recovers {
		if i > 0 {
			b.WriteString(", ")
		}
		fmt.Fprintf(&b, "(%s, %s, %v)", strconv.Quote(r.file), strconv.Quote(r.fn), r.fault)
	}
	b.WriteString("]\n\n")
	fmt.Fprintf(&b, "/-- SYSCALL case of vm.execute: what happens when the handler returns an error -/\ndef syscallErr : List String := %s\n\n", strList(syscallErr))
	fmt.Fprintf(&b, "/-- unloadContext: what happens when the context-unload callback returns an error -/\ndef unloadErr : String := %s\n\n", strconv.Quote(unloadErr))
	fmt.Fprintf(&b, "/-- unloadContext: the statement in front of the native continuation `onUnloaded` -/\ndef onUnloadedGuard : String := %s\n\n", strconv.Quote(guard))
	fmt.Fprintf(&b, "/-- references from pkg/core/{interop,native} to the VM's exception machinery -/\ndef coreExcRefs : List String := %s\n\n", strList(refs))
	fmt.Fprintf(&b, "def corePanicSites : Nat := %d\ndef coreErrReturns : Nat := %d\n\n", panics, errRets)
	b.WriteString("end NeoModel.Generated.ExcFacts\n")
	return b.String(), nil
}

// stmtsWithoutFuncLits returns the statements of a block with function literals blanked (so that a recover()
// inside a deferred closure is attributed to the closure only).
func stmtsWithoutFuncLits(b *ast.BlockStmt) []ast.Stmt {
	var res []ast.Stmt
	for _, s := range b.List {
		has := false
		ast.Inspect(s, func(n ast.Node) bool {
			if _, ok := n.(*ast.FuncLit); ok {
				has = true
			}
			return !has
		})
		if !has {
			res = append(res, s)
		}
	}
	return res
}
