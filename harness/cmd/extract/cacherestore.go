package main

// Table "CacheRestore" (property C01): what a restarted node rebuilds of the native-contract caches, read from the
// source of pkg/core/native with go/types on every run.
//
//	fields    every field of every struct type of the package that implements dao.NativeContractCache (has a Copy
//	          method returning it), and of the by-value struct types of the package nested in them (roleData):
//	          (struct type, field, Go type, kind of the underlying type)
//	restores  every statement that sets a field of such a struct inside the closure of an `InitializeCache` method
//	          (the method itself, the function literals in it, and every function of the package it hands the fresh
//	          cache — or a pointer into it — to: fillCacheFromDAO, updateCache, updateCachedNewEpochValues,
//	          updateCachedRoleData, updateContractCache, getSortedGASRecordFromDAO is NOT one: it gets no cache):
//	          (root method, function, `Type.field`, kind, right-hand side)
//	            kind  lit     field of the composite literal that allocates the cache
//	                  assign  x.f = rhs
//	                  elem    x.f[k] = rhs
//	                  self    x.f = append(x.f, …) and the like (rhs mentions x.f)
//	                  addr    &x.f taken (the pointee's fields are then written through the pointer)
//	            rhs   source text; an identifier that is a local variable of the function is followed by
//	                  ` <- <its defining expression>` (one level), so that `v.nodes = nodeKeys` shows the storage read;
//	                  every row ends with the identifier tokens of that text (what the Lean obligation matches on)
//	reads     every call of a *dao.Simple method or of getIntWithKey inside such a closure (the storage reads):
//	          (root method, function, callee, `read`, call text)
//	genesis   the same for the closure of `Initialize` (the deployment of the native at genesis / hardfork)
//	copies    what Copy() (and the copy helper it calls) does per field: (`Type`, field or `*`, right-hand side)
//
// Props/C01.lean classifies every field (restored from a storage key | derived | transient) and demands, with
// `decide`, that the classification covers exactly `fields` and that every restored field has a `restores` row whose
// right-hand side mentions its key. Self-contained on purpose (shares no helper with the other table files).

import (
	"bytes"
	"fmt"
	"go/ast"
	"go/printer"
	"go/token"
	"go/types"
	"os"
	"path/filepath"
	"sort"
	"strings"

	"golang.org/x/tools/go/packages"
)

func init() { register("CacheRestore", genCacheRestore) }

type crCtx struct {
	pkg     *packages.Package
	structs map[*types.Named]bool // cache struct types and nested by-value struct types
	decls   map[types.Object]*ast.FuncDecl
	rows    map[string]bool
}

func crText(fset *token.FileSet, n ast.Node) string {
	var b bytes.Buffer
	_ = printer.Fprint(&b, fset, n)
	s := strings.Join(strings.Fields(b.String()), " ")
	if len(s) > 400 {
		s = s[:400] + "…"
	}
	return s
}

// crTokens: the identifier tokens of a source text, in order of first occurrence (the Lean side matches on tokens:
// string equality only, no substring search inside `decide`).
func crTokens(s string) string {
	var toks []string
	seen := map[string]bool{}
	cur := ""
	flush := func() {
		if cur != "" && !seen[cur] {
			seen[cur] = true
			toks = append(toks, crQuote(cur))
		}
		cur = ""
	}
	for _, r := range s {
		if r == '_' || (r >= '0' && r <= '9') || (r >= 'a' && r <= 'z') || (r >= 'A' && r <= 'Z') {
			cur += string(r)
		} else {
			flush()
		}
	}
	flush()
	return "[" + strings.Join(toks, ", ") + "]"
}

func crQuote(s string) string {
	return "\"" + strings.NewReplacer("\\", "\\\\", "\"", "\\\"").Replace(s) + "\""
}

// crNamedStruct returns the named struct type of the package behind t (through one pointer), if tracked.
func (c *crCtx) crNamedStruct(t types.Type) *types.Named {
	if t == nil {
		return nil
	}
	if p, ok := t.Underlying().(*types.Pointer); ok {
		t = p.Elem()
	}
	if n, ok := t.(*types.Named); ok && c.structs[n] {
		return n
	}
	return nil
}

func crFuncName(fd *ast.FuncDecl) string {
	name := fd.Name.Name
	if fd.Recv != nil && len(fd.Recv.List) > 0 {
		t := fd.Recv.List[0].Type
		if s, ok := t.(*ast.StarExpr); ok {
			t = s.X
		}
		if id, ok := t.(*ast.Ident); ok {
			name = id.Name + "." + name
		}
	}
	return name
}

// fieldTarget: is e (possibly indexed) a selection of a field of a tracked struct? returns "Type.field", indexed.
func (c *crCtx) fieldTarget(e ast.Expr) (string, bool, bool) {
	indexed := false
	for {
		switch x := e.(type) {
		case *ast.IndexExpr:
			e, indexed = x.X, true
			continue
		case *ast.ParenExpr:
			e = x.X
			continue
		}
		break
	}
	sel, ok := e.(*ast.SelectorExpr)
	if !ok {
		return "", false, false
	}
	s, ok := c.pkg.TypesInfo.Selections[sel]
	if !ok || s.Kind() != types.FieldVal {
		return "", false, false
	}
	n := c.crNamedStruct(s.Recv())
	if n == nil {
		return "", false, false
	}
	return n.Obj().Name() + "." + sel.Sel.Name, indexed, true
}

// rhsText renders the right-hand side; a bare local identifier is expanded with its defining expression.
func (c *crCtx) rhsText(fd *ast.FuncDecl, e ast.Expr) string {
	txt := crText(c.pkg.Fset, e)
	id, ok := e.(*ast.Ident)
	if !ok {
		return txt
	}
	obj := c.pkg.TypesInfo.Uses[id]
	if obj == nil {
		return txt
	}
	var def string
	ast.Inspect(fd, func(n ast.Node) bool {
		if def != "" {
			return false
		}
		switch st := n.(type) {
		case *ast.AssignStmt:
			for i, l := range st.Lhs {
				if li, ok := l.(*ast.Ident); ok && c.pkg.TypesInfo.Defs[li] == obj {
					r := st.Rhs[0]
					if len(st.Rhs) == len(st.Lhs) {
						r = st.Rhs[i]
					}
					def = crText(c.pkg.Fset, r)
				}
			}
		case *ast.ValueSpec:
			for i, li := range st.Names {
				if c.pkg.TypesInfo.Defs[li] == obj && len(st.Values) > 0 {
					r := st.Values[0]
					if len(st.Values) == len(st.Names) {
						r = st.Values[i]
					}
					def = crText(c.pkg.Fset, r)
				}
			}
		}
		return true
	})
	if def != "" {
		return txt + " <- " + def
	}
	return txt
}

// walk collects the rows of one function of a closure and returns the callees that receive a tracked struct.
func (c *crCtx) walk(table, root string, fd *ast.FuncDecl, seen map[*ast.FuncDecl]bool) {
	if seen[fd] {
		return
	}
	seen[fd] = true
	fn := crFuncName(fd)
	add := func(target, kind, rhs string) {
		c.rows[fmt.Sprintf("%s|%s|%s|%s|%s|%s", table, root, fn, target, kind, rhs)] = true
	}
	ast.Inspect(fd.Body, func(n ast.Node) bool {
		switch x := n.(type) {
		case *ast.CompositeLit:
			if tv, ok := c.pkg.TypesInfo.Types[x]; ok {
				if nm := c.crNamedStruct(tv.Type); nm != nil {
					for _, el := range x.Elts {
						if kv, ok := el.(*ast.KeyValueExpr); ok {
							if k, ok := kv.Key.(*ast.Ident); ok {
								add(nm.Obj().Name()+"."+k.Name, "lit", c.rhsText(fd, kv.Value))
							}
						}
					}
				}
			}
		case *ast.AssignStmt:
			for i, l := range x.Lhs {
				target, indexed, ok := c.fieldTarget(l)
				if !ok {
					continue
				}
				r := x.Rhs[0]
				if len(x.Rhs) == len(x.Lhs) {
					r = x.Rhs[i]
				}
				rt := c.rhsText(fd, r)
				kind := "assign"
				if indexed {
					kind = "elem"
				} else if strings.Contains(crText(c.pkg.Fset, r), crText(c.pkg.Fset, l)) {
					kind = "self"
				}
				add(target, kind, rt)
			}
		case *ast.UnaryExpr:
			if x.Op == token.AND {
				if target, _, ok := c.fieldTarget(x.X); ok {
					add(target, "addr", crText(c.pkg.Fset, x))
				}
			}
		case *ast.CallExpr:
			// a call that hands a tracked struct (or pointer to one) to a function of the package
			var callee types.Object
			switch f := x.Fun.(type) {
			case *ast.Ident:
				callee = c.pkg.TypesInfo.Uses[f]
			case *ast.SelectorExpr:
				callee = c.pkg.TypesInfo.Uses[f.Sel]
			}
			if table == "restores" {
				// storage reads of the closure: methods of *dao.Simple and getIntWithKey
				switch f := x.Fun.(type) {
				case *ast.Ident:
					if f.Name == "getIntWithKey" {
						c.rows[fmt.Sprintf("reads|%s|%s|%s|%s|%s", root, fn, f.Name, "read", crText(c.pkg.Fset, x))] = true
					}
				case *ast.SelectorExpr:
					if tv, ok := c.pkg.TypesInfo.Types[f.X]; ok && strings.HasSuffix(tv.Type.String(), "dao.Simple") && !strings.HasPrefix(f.Sel.Name, "Set") {
						c.rows[fmt.Sprintf("reads|%s|%s|%s|%s|%s", root, fn, "dao."+f.Sel.Name, "read", crText(c.pkg.Fset, x))] = true
					}
				}
			}
			cd := c.decls[callee]
			if cd == nil || cd.Body == nil {
				return true
			}
			for _, a := range x.Args {
				if tv, ok := c.pkg.TypesInfo.Types[a]; ok && c.crNamedStruct(tv.Type) != nil {
					c.walk(table, root, cd, seen)
					break
				}
			}
		}
		return true
	})
}

func genCacheRestore(repo string) (string, error) {
	cfg := &packages.Config{
		Mode:    packages.NeedName | packages.NeedFiles | packages.NeedSyntax | packages.NeedTypes | packages.NeedTypesInfo | packages.NeedImports | packages.NeedDeps,
		Dir:     repo,
		Env:     append(os.Environ(), "GOFLAGS=-mod=readonly", "GOPROXY=off"),
		Overlay: overlayFromEnv(),
	}
	pkgs, err := packages.Load(cfg, "./pkg/core/native")
	if err != nil {
		return "", err
	}
	if len(pkgs) != 1 {
		return "", fmt.Errorf("expected one package, got %d", len(pkgs))
	}
	p := pkgs[0]
	if len(p.Errors) > 0 {
		return "", fmt.Errorf("package %s: %v", p.PkgPath, p.Errors[0])
	}
	c := &crCtx{pkg: p, structs: map[*types.Named]bool{}, decls: map[types.Object]*ast.FuncDecl{}, rows: map[string]bool{}}

	// cache types: named struct types of the package with a method Copy() (dao.NativeContractCache)
	scope := p.Types.Scope()
	var cacheTypes []*types.Named
	for _, name := range scope.Names() {
		tn, ok := scope.Lookup(name).(*types.TypeName)
		if !ok {
			continue
		}
		named, ok := tn.Type().(*types.Named)
		if !ok {
			continue
		}
		if _, ok := named.Underlying().(*types.Struct); !ok {
			continue
		}
		ms := types.NewMethodSet(types.NewPointer(named))
		if m := ms.Lookup(p.Types, "Copy"); m != nil {
			if sig, ok := m.Type().(*types.Signature); ok && sig.Params().Len() == 0 && sig.Results().Len() == 1 &&
				strings.HasSuffix(sig.Results().At(0).Type().String(), "dao.NativeContractCache") {
				cacheTypes = append(cacheTypes, named)
				c.structs[named] = true
			}
		}
	}
	// nested by-value struct types of the package
	for _, ct := range cacheTypes {
		st := ct.Underlying().(*types.Struct)
		for i := 0; i < st.NumFields(); i++ {
			if n, ok := st.Field(i).Type().(*types.Named); ok && n.Obj().Pkg() == p.Types {
				if _, ok := n.Underlying().(*types.Struct); ok {
					c.structs[n] = true
				}
			}
		}
	}
	var fields []string
	for n := range c.structs {
		st := n.Underlying().(*types.Struct)
		for i := 0; i < st.NumFields(); i++ {
			f := st.Field(i)
			ty := types.TypeString(f.Type(), func(pk *types.Package) string {
				if pk == p.Types {
					return ""
				}
				return pk.Name()
			})
			kind := "val"
			switch f.Type().Underlying().(type) {
			case *types.Map:
				kind = "map"
			case *types.Slice:
				kind = "slice"
			case *types.Pointer:
				kind = "ptr"
			case *types.Struct:
				kind = "struct"
			}
			fields = append(fields, fmt.Sprintf("  (%s, %s, %s, %s)", crQuote(n.Obj().Name()), crQuote(f.Name()), crQuote(ty), crQuote(kind)))
		}
	}
	sort.Strings(fields)

	// function declarations of the package (non-test files of /repo)
	var roots [][2]interface{}
	for _, f := range p.Syntax {
		path := p.Fset.Position(f.Pos()).Filename
		rel, err := filepath.Rel(repo, path)
		if err != nil || strings.HasPrefix(rel, "..") || strings.HasSuffix(rel, "_test.go") {
			continue
		}
		for _, d := range f.Decls {
			fd, ok := d.(*ast.FuncDecl)
			if !ok || fd.Body == nil {
				continue
			}
			if obj := p.TypesInfo.Defs[fd.Name]; obj != nil {
				c.decls[obj] = fd
			}
			roots = append(roots, [2]interface{}{crFuncName(fd), fd})
		}
	}
	for _, r := range roots {
		name, fd := r[0].(string), r[1].(*ast.FuncDecl)
		switch {
		case strings.HasSuffix(name, ".InitializeCache"):
			c.walk("restores", name, fd, map[*ast.FuncDecl]bool{})
		case strings.HasSuffix(name, ".Initialize"):
			c.walk("genesis", name, fd, map[*ast.FuncDecl]bool{})
		case strings.HasSuffix(name, ".Copy") && fd.Recv != nil:
			if tv := p.TypesInfo.TypeOf(fd.Recv.List[0].Type); c.crNamedStruct(tv) != nil {
				c.walk("copies", name, fd, map[*ast.FuncDecl]bool{})
			}
		}
	}
	// `*dst = *src` in the copy helpers: a whole-struct copy
	for _, r := range roots {
		name, fd := r[0].(string), r[1].(*ast.FuncDecl)
		ast.Inspect(fd.Body, func(n ast.Node) bool {
			as, ok := n.(*ast.AssignStmt)
			if !ok || len(as.Lhs) != 1 {
				return true
			}
			if st, ok := as.Lhs[0].(*ast.StarExpr); ok {
				if nm := c.crNamedStruct(p.TypesInfo.TypeOf(st)); nm != nil {
					c.rows[fmt.Sprintf("copies|%s|%s|%s|%s|%s", name, name, nm.Obj().Name()+".*", "star", crText(p.Fset, as.Rhs[0]))] = true
				}
			}
			return true
		})
	}

	tabs := map[string][]string{}
	for r := range c.rows {
		parts := strings.SplitN(r, "|", 6)
		txt := parts[5]
		if len(txt) > 140 {
			txt = txt[:140] + "…"
		}
		tabs[parts[0]] = append(tabs[parts[0]], fmt.Sprintf("  (%s, %s, %s, %s, %s, %s)", crQuote(parts[1]), crQuote(parts[2]), crQuote(parts[3]), crQuote(parts[4]), crQuote(txt), crTokens(parts[5])))
	}
	var b strings.Builder
	b.WriteString("namespace NeoModel.Generated.CacheRestore\n")
	b.WriteString("/-- (struct type, field, Go type, kind of the underlying type: map | slice | ptr | struct | val): the native cache structs of pkg/core/native and the by-value structs nested in them -/\n")
	b.WriteString("def fields : List (String × String × String × String) := [\n" + strings.Join(fields, ",\n") + "\n]\n\n")
	for _, t := range []struct{ name, doc string }{
		{"restores", "field settings inside the closure of every InitializeCache: (root, function, `Type.field`, kind, right-hand side)"},
		{"reads", "the storage reads inside the closure of every InitializeCache (methods of *dao.Simple, getIntWithKey): (root, function, callee, `read`, call)"},
		{"genesis", "the same for the closure of every Initialize"},
		{"copies", "what Copy() and its helper do: (root, function, `Type.field` or `Type.*`, kind, right-hand side)"},
	} {
		rows := tabs[t.name]
		sort.Strings(rows)
		fmt.Fprintf(&b, "/-- %s; last component: the identifier tokens of the right-hand side -/\ndef %s : List (String × String × String × String × String × List String) := [\n%s\n]\n\n", t.doc, t.name, strings.Join(rows, ",\n"))
	}
	b.WriteString("end NeoModel.Generated.CacheRestore\n")
	return b.String(), nil
}
