package main

import (
	"fmt"
	"go/ast"
	"go/parser"
	"go/token"
	"path/filepath"
	"strings"

	"github.com/nspcc-dev/neo-go/pkg/core/transaction"
)

// WitnessConsts: witness scope bits, rule actions, condition type bytes and the decoder limits (C15).
// Exported constants are read from the linked package; the unexported maxSubitems is read from the
// source text of pkg/core/transaction/signer.go.
func init() { register("WitnessConsts", genWitnessConsts) }

func genWitnessConsts(repo string) (string, error) {
	fset := token.NewFileSet()
	p := filepath.Join(repo, "pkg/core/transaction/signer.go")
	f, err := parser.ParseFile(fset, p, nil, 0)
	if err != nil {
		return "", err
	}
	maxSub := ""
	ast.Inspect(f, func(n ast.Node) bool {
		vs, ok := n.(*ast.ValueSpec)
		if !ok {
			return true
		}
		for i, nm := range vs.Names {
			if nm.Name == "maxSubitems" && i < len(vs.Values) {
				if bl, ok := vs.Values[i].(*ast.BasicLit); ok && bl.Kind == token.INT {
					maxSub = bl.Value
				}
			}
		}
		return true
	})
	if maxSub == "" {
		return "", fmt.Errorf("maxSubitems not found in %s", p)
	}
	var b strings.Builder
	b.WriteString("namespace NeoModel.Generated.WitnessConsts\n")
	fmt.Fprintf(&b, "def scopeNone : Nat := %d\n", byte(transaction.None))
	fmt.Fprintf(&b, "def scopeCalledByEntry : Nat := %d\n", byte(transaction.CalledByEntry))
	fmt.Fprintf(&b, "def scopeCustomContracts : Nat := %d\n", byte(transaction.CustomContracts))
	fmt.Fprintf(&b, "def scopeCustomGroups : Nat := %d\n", byte(transaction.CustomGroups))
	fmt.Fprintf(&b, "def scopeRules : Nat := %d\n", byte(transaction.Rules))
	fmt.Fprintf(&b, "def scopeGlobal : Nat := %d\n", byte(transaction.Global))
	fmt.Fprintf(&b, "def actionDeny : Nat := %d\n", byte(transaction.WitnessDeny))
	fmt.Fprintf(&b, "def actionAllow : Nat := %d\n", byte(transaction.WitnessAllow))
	fmt.Fprintf(&b, "def maxConditionNesting : Nat := %d\n", transaction.MaxConditionNesting)
	fmt.Fprintf(&b, "def maxSubitems : Nat := %s\n", maxSub)
	// condition type bytes in the order of the model's constructors
	fmt.Fprintf(&b, "def condTypes : List Nat := [%d, %d, %d, %d, %d, %d, %d, %d, %d]\n",
		byte(transaction.WitnessBoolean), byte(transaction.WitnessNot), byte(transaction.WitnessAnd), byte(transaction.WitnessOr),
		byte(transaction.WitnessScriptHash), byte(transaction.WitnessGroup), byte(transaction.WitnessCalledByEntry),
		byte(transaction.WitnessCalledByContract), byte(transaction.WitnessCalledByGroup))
	// the JSON names (String() of the condition types, in the order of the model's constructors, and of the actions)
	names := []string{transaction.WitnessBoolean.String(), transaction.WitnessNot.String(), transaction.WitnessAnd.String(),
		transaction.WitnessOr.String(), transaction.WitnessScriptHash.String(), transaction.WitnessGroup.String(),
		transaction.WitnessCalledByEntry.String(), transaction.WitnessCalledByContract.String(), transaction.WitnessCalledByGroup.String()}
	for i := range names {
		names[i] = fmt.Sprintf("%q", names[i])
	}
	fmt.Fprintf(&b, "def condTypeNames : List String := [%s]\n", strings.Join(names, ", "))
	fmt.Fprintf(&b, "def actionNames : List String := [%q, %q]\n", transaction.WitnessDeny.String(), transaction.WitnessAllow.String())
	fmt.Fprintf(&b, "def scopeNames : List String := [%q, %q, %q, %q, %q, %q]\n", transaction.None.String(), transaction.CalledByEntry.String(),
		transaction.CustomContracts.String(), transaction.CustomGroups.String(), transaction.Rules.String(), transaction.Global.String())
	b.WriteString("end NeoModel.Generated.WitnessConsts\n")
	return b.String(), nil
}
