package main

// Table "NativeMethods" (property C16): every method of every native contract of the linked node
// (native.NewDefaultContracts), for every hardfork-specific descriptor: contract, id, method name,
// parameter count, required call flags, safe bit (as published in the manifest), whether the
// handler is deferrable (can start a nested contract call), activation range, fees. Plus the same
// registrations re-read from the source text of pkg/core/native/*.go (go/ast) for cross-checking.

import (
	"fmt"
	"go/ast"
	"go/parser"
	"go/token"
	"os"
	"path/filepath"
	"sort"
	"strconv"
	"strings"

	"github.com/nspcc-dev/neo-go/pkg/config"
	"github.com/nspcc-dev/neo-go/pkg/core/interop"
	"github.com/nspcc-dev/neo-go/pkg/core/native"
	"github.com/nspcc-dev/neo-go/pkg/core/transaction"
	"github.com/nspcc-dev/neo-go/pkg/smartcontract"
)

func init() { register("NativeMethods", genNativeMethods) }

type natMethod struct {
	contract   string
	cid        int
	name       string
	nparams    int
	flags      int
	safe       bool
	deferrable bool
	hasRet     bool
	from, till int // hardfork indexes; till = 0: never removed
	cpu, stor  int64
}

func (m natMethod) key() string {
	return fmt.Sprintf("%s|%s|%d|%d|%v|%v|%v|%d|%d", m.contract, m.name, m.nparams, m.flags, m.safe, m.deferrable, m.hasRet, m.cpu, m.stor)
}

// linkedNatives walks the hardfork-specific descriptors of all default native contracts.
func linkedNatives() (ms []natMethod, contracts []interop.Contract, err error) {
	defer func() {
		if r := recover(); r != nil {
			err = fmt.Errorf("native.NewDefaultContracts panicked: %v", r)
		}
	}()
	contracts = native.NewDefaultContracts(config.ProtocolConfiguration{})
	hfs := append([]config.Hardfork{config.HFDefault}, config.Hardforks...)
	for _, c := range contracts {
		md := c.Metadata()
		start := 0
		if a := c.ActiveIn(); a != nil {
			start = hfIndex(*a)
		}
		seen := map[string]int{} // key -> index in ms
		for i := start; i < len(hfs); i++ {
			hf := hfs[i]
			hmd := md.HFSpecificContractMD(&hf)
			present := map[string]bool{}
			for _, m := range hmd.Methods {
				nm := natMethod{contract: md.Name, cid: int(md.ID), name: m.MD.Name, nparams: len(m.MD.Parameters),
					flags: int(m.RequiredFlags), safe: m.MD.Safe, deferrable: m.DeferrableFunc != nil,
					hasRet: m.MD.ReturnType != smartcontract.VoidType, from: i, cpu: m.CPUFee, stor: m.StorageFee}
				k := nm.key()
				present[k] = true
				if j, ok := seen[k]; ok {
					if ms[j].till != 0 {
						return nil, nil, fmt.Errorf("%s.%s/%d re-appears after removal", md.Name, nm.name, nm.nparams)
					}
					continue
				}
				seen[k] = len(ms)
				ms = append(ms, nm)
			}
			for k, j := range seen {
				if !present[k] && ms[j].till == 0 {
					ms[j].till = i
				}
			}
		}
	}
	sort.SliceStable(ms, func(i, j int) bool {
		a, b := ms[i], ms[j]
		if a.cid != b.cid {
			return a.cid > b.cid
		}
		if a.name != b.name {
			return a.name < b.name
		}
		if a.nparams != b.nparams {
			return a.nparams < b.nparams
		}
		return a.from < b.from
	})
	return ms, contracts, nil
}

type srcNat struct {
	file       string
	name       string
	nparams    int
	flags      int
	deferrable bool
	from, till int
}

// linkedHFVars are non-literal hardfork expressions used in registrations, resolved from the linked packages.
var linkedHFVars = map[string]config.Hardfork{
	"NotaryAssistedActivation": transaction.NotaryAssistedActivation,
}

// hfByName maps config.HFxxx identifiers to hardfork indexes.
func hfByName(e ast.Expr) (int, bool) {
	sel, ok := e.(*ast.SelectorExpr)
	if !ok {
		return 0, false
	}
	if v, ok := linkedHFVars[sel.Sel.Name]; ok {
		return hfIndex(v), true
	}
	if !strings.HasPrefix(sel.Sel.Name, "HF") {
		return 99, true // not resolvable from the text: a value no linked entry has (the Lean cross-check breaks)
	}
	n := strings.TrimPrefix(sel.Sel.Name, "HF")
	if n == "Default" {
		return 0, true
	}
	for i, h := range config.Hardforks {
		if h.String() == n {
			return i + 1, true
		}
	}
	return 99, true
}

// nativesFromSource re-reads the `desc = NewDescriptor(…); md = NewMethodAndPrice…(…);
// x.AddMethod(md, desc)` registrations of pkg/core/native/*.go in statement order.
func nativesFromSource(repo string) ([]srcNat, error) {
	dir := filepath.Join(repo, "pkg/core/native")
	ents, err := os.ReadDir(dir)
	if err != nil {
		return nil, err
	}
	var res []srcNat
	for _, en := range ents {
		if en.IsDir() || !strings.HasSuffix(en.Name(), ".go") || strings.HasSuffix(en.Name(), "_test.go") {
			continue
		}
		fset := token.NewFileSet()
		f, err := parser.ParseFile(fset, effSourcePath(filepath.Join(dir, en.Name())), nil, 0)
		if err != nil {
			return nil, err
		}
		for _, d := range f.Decls {
			fd, ok := d.(*ast.FuncDecl)
			if !ok || fd.Body == nil {
				continue
			}
			type mdT struct {
				flags, from, till int
				deferrable, ok    bool
			}
			type descT struct {
				name    string
				nparams int
				ok      bool
			}
			var md mdT
			var desc descT
			var ferr error
			ast.Inspect(fd.Body, func(n ast.Node) bool {
				switch st := n.(type) {
				case *ast.AssignStmt:
					if len(st.Lhs) != 1 || len(st.Rhs) != 1 {
						return true
					}
					id, ok := st.Lhs[0].(*ast.Ident)
					ce, ok2 := st.Rhs[0].(*ast.CallExpr)
					if !ok || !ok2 {
						return true
					}
					fn := ""
					if i, ok := ce.Fun.(*ast.Ident); ok {
						fn = i.Name
					}
					switch {
					case id.Name == "md" && (fn == "NewMethodAndPrice" || fn == "NewMethodAndPriceDeferrable"):
						if len(ce.Args) < 3 {
							ferr = fmt.Errorf("%s: %s with %d args", en.Name(), fn, len(ce.Args))
							return false
						}
						v, ok := evalFlags(ce.Args[2], -1)
						if !ok || v < 0 {
							ferr = fmt.Errorf("%s: cannot evaluate flags of %s", en.Name(), fn)
							return false
						}
						md = mdT{flags: v, deferrable: fn == "NewMethodAndPriceDeferrable", ok: true}
						if len(ce.Args) > 3 {
							x, ok := hfByName(ce.Args[3])
							if !ok {
								ferr = fmt.Errorf("%s: unknown activation hardfork", en.Name())
								return false
							}
							md.from = x
						}
						if len(ce.Args) > 4 {
							x, ok := hfByName(ce.Args[4])
							if !ok {
								ferr = fmt.Errorf("%s: unknown deactivation hardfork", en.Name())
								return false
							}
							md.till = x
						}
					case id.Name == "desc" && fn == "NewDescriptor":
						if len(ce.Args) < 2 {
							ferr = fmt.Errorf("%s: NewDescriptor with %d args", en.Name(), len(ce.Args))
							return false
						}
						bl, ok := ce.Args[0].(*ast.BasicLit)
						if !ok || bl.Kind != token.STRING {
							ferr = fmt.Errorf("%s: NewDescriptor name is not a literal", en.Name())
							return false
						}
						s, _ := strconv.Unquote(bl.Value)
						desc = descT{name: s, nparams: len(ce.Args) - 2, ok: true}
						if ce.Ellipsis != token.NoPos {
							desc.nparams = 99 // parameters passed as a slice: count not visible in the text
						}
					}
				case *ast.ExprStmt:
					ce, ok := st.X.(*ast.CallExpr)
					if !ok {
						return true
					}
					sel, ok := ce.Fun.(*ast.SelectorExpr)
					if !ok || sel.Sel.Name != "AddMethod" {
						return true
					}
					a0, ok0 := ce.Args[0].(*ast.Ident)
					a1, ok1 := ce.Args[1].(*ast.Ident)
					if len(ce.Args) != 2 || !ok0 || !ok1 || a0.Name != "md" || a1.Name != "desc" || !md.ok || !desc.ok {
						ferr = fmt.Errorf("%s: AddMethod call of an unknown shape", en.Name())
						return false
					}
					res = append(res, srcNat{file: en.Name(), name: desc.name, nparams: desc.nparams, flags: md.flags,
						deferrable: md.deferrable, from: md.from, till: md.till})
				}
				return true
			})
			if ferr != nil {
				return nil, ferr
			}
		}
	}
	sort.SliceStable(res, func(i, j int) bool {
		a, b := res[i], res[j]
		if a.file != b.file {
			return a.file < b.file
		}
		if a.name != b.name {
			return a.name < b.name
		}
		if a.nparams != b.nparams {
			return a.nparams < b.nparams
		}
		return a.from < b.from
	})
	return res, nil
}

func genNativeMethods(repo string) (string, error) {
	ms, contracts, err := linkedNatives()
	if err != nil {
		return "", err
	}
	var b strings.Builder
	b.WriteString("namespace NeoModel.Generated.NativeMethods\n\n")
	b.WriteString("structure Entry where\n  contract : String\n  cid : Int\n  name : String\n  nparams : Nat\n  flags : Nat\n  safe : Bool\n  deferrable : Bool\n  hasRet : Bool\n  activeFrom : Nat\n  activeTill : Nat\n  cpuFee : Nat\n  storageFee : Nat\nderiving Repr, DecidableEq\n\n")
	b.WriteString("/-- (name, id, index of the activation hardfork) of native.NewDefaultContracts. -/\ndef contracts : List (String × Int × Nat) := [")
	for i, c := range contracts {
		a := 0
		if h := c.ActiveIn(); h != nil {
			a = hfIndex(*h)
		}
		if i > 0 {
			b.WriteString(", ")
		}
		fmt.Fprintf(&b, "(%s, %d, %d)", leanStr(c.Metadata().Name), c.Metadata().ID, a)
	}
	b.WriteString("]\n\n")
	b.WriteString("/-- all hardfork-specific method descriptors of the linked native contracts;\n    activeFrom/activeTill index Interops.hardforks (activeTill = 0: never removed). -/\ndef table : List Entry := [\n")
	for i, m := range ms {
		if m.cpu < 0 || m.stor < 0 {
			return "", fmt.Errorf("negative fee")
		}
		sep := ","
		if i == len(ms)-1 {
			sep = ""
		}
		fmt.Fprintf(&b, "  ⟨%s, %d, %s, %d, %d, %v, %v, %v, %d, %d, %d, %d⟩%s\n", leanStr(m.contract), m.cid, leanStr(m.name), m.nparams,
			m.flags, m.safe, m.deferrable, m.hasRet, m.from, m.till, m.cpu, m.stor, sep)
	}
	b.WriteString("]\n\n")
	src, err := nativesFromSource(repo)
	if err != nil {
		return "", err
	}
	b.WriteString("/-- (file, method, nparams, flags, deferrable, from, till) re-read from pkg/core/native/*.go (go/ast). -/\ndef sourceTable : List (String × String × Nat × Nat × Bool × Nat × Nat) := [\n")
	for i, s := range src {
		sep := ","
		if i == len(src)-1 {
			sep = ""
		}
		fmt.Fprintf(&b, "  (%s, %s, %d, %d, %v, %d, %d)%s\n", leanStr(s.file), leanStr(s.name), s.nparams, s.flags, s.deferrable, s.from, s.till, sep)
	}
	b.WriteString("]\n\n")
	mask, names, err := legacyDeployRule(repo)
	if err != nil {
		return "", err
	}
	b.WriteString("/-- native/interop.go Call: before Aspidochelone the required flags of these ContractManagement\n    methods are `reqFlags &= <mask>` (255/[]: pattern not found). -/\n")
	fmt.Fprintf(&b, "def legacyDeployMask : Nat := %d\ndef legacyDeployMethods : List String := [", mask)
	for i, n := range names {
		if i > 0 {
			b.WriteString(", ")
		}
		b.WriteString(leanStr(n))
	}
	b.WriteString("]\n\nend NeoModel.Generated.NativeMethods\n")
	return b.String(), nil
}

// legacyDeployRule extracts `if !ic.IsHardforkEnabled(config.HFAspidochelone) && … (m.MD.Name == "deploy" ||
// m.MD.Name == "update") { reqFlags &= <expr> }` from native.Call.
func legacyDeployRule(repo string) (int, []string, error) {
	f, err := parseFile(repo, "pkg/core/native/interop.go")
	if err != nil {
		return 0, nil, err
	}
	mask, names := 255, []string{}
	fd := findFunc(f, "Call")
	if fd == nil {
		return mask, names, nil
	}
	ast.Inspect(fd.Body, func(n ast.Node) bool {
		is, ok := n.(*ast.IfStmt)
		if !ok || !mentions(is.Cond, "HFAspidochelone") || len(is.Body.List) != 1 {
			return true
		}
		as, ok := is.Body.List[0].(*ast.AssignStmt)
		if !ok || as.Tok != token.AND_ASSIGN || len(as.Rhs) != 1 {
			return true
		}
		if v, ok := evalFlags(as.Rhs[0], -1); ok && v >= 0 {
			mask = v
			ast.Inspect(is.Cond, func(m ast.Node) bool {
				if bl, ok := m.(*ast.BasicLit); ok && bl.Kind == token.STRING {
					if s, err := strconv.Unquote(bl.Value); err == nil {
						names = append(names, s)
					}
				}
				return true
			})
		}
		return true
	})
	sort.Strings(names)
	return mask, names, nil
}
