// C11: functions of the trie's reference counting / of the node's choice of MaxTraceableBlocks for the
// Go->Lean translator of gofuncs.go (appended to its spec list; a function outside the supported subset
// is reported as NOT TRANSLATED and only breaks the theorems that mention it).
// (mpt.(*Trie).updateRefCount and mpt.getFromStore are outside the subset: multi-assignment / two results.)
package main

func init() {
	gfSpecs = append(gfSpecs,
		gfSpec{Pkg: "./pkg/core/mpt", Func: "IsActiveValue", Lean: "mptIsActiveValue"},
		gfSpec{Pkg: "./pkg/core", Recv: "Blockchain", Func: "GetMaxTraceableBlocks", Lean: "bcGetMaxTraceableBlocks"},
		gfSpec{Pkg: "./pkg/core/native", Recv: "Ledger", Func: "isTraceableBlock", Lean: "ledgerIsTraceableBlock"},
	)
}
