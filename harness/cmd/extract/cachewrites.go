package main

import (
	"bytes"
	"fmt"
	"go/ast"
	"go/printer"
	"go/token"
	"go/types"
	"os"
	"path/filepath"
	"sort"
	"strings"

	"golang.org/x/tools/go/packages"
)

// CacheWrites (C01∩C04): every write to a field of a native-contract cache (*NeoCache, *PolicyCache,
// *ManagementCache, *DesignationCache, *NotaryCache, *OracleCache, ...) in pkg/core/native, with the way the
// function obtained the cache object it writes to:
//
//	rw     dao.GetRWCache (copy-on-write: the write stays in the transaction's layer, a rollback drops it)
//	ro     dao.GetROCache (shared with the lower layer: a write survives the rollback of the transaction)
//	new    a freshly allocated cache (Initialize / InitializeCache / Copy)
//	param  a function parameter (the caller chose the accessor)
//	other  anything else
//
// Rows are "file:function:CacheType.field:sources". Props/C01.lean demands every row to be rw / new or to be
// listed with a justification; a new write through GetROCache breaks the obligation.
func init() { register("CacheWrites", genCacheWrites) }

func genCacheWrites(repo string) (string, error) {
	cfg := &packages.Config{
		Mode: packages.NeedName | packages.NeedFiles | packages.NeedSyntax | packages.NeedTypes | packages.NeedTypesInfo | packages.NeedImports | packages.NeedDeps,
		Dir:  repo,
		Env:  append(os.Environ(), "GOFLAGS=-mod=readonly", "GOPROXY=off"),
	}
	pkgs, err := packages.Load(cfg, "./pkg/core/native")
	if err != nil {
		return "", err
	}
	rows := map[string]bool{}
	for _, p := range pkgs {
		if len(p.Errors) > 0 {
			return "", fmt.Errorf("package %s: %v", p.PkgPath, p.Errors[0])
		}
		for _, f := range p.Syntax {
			path := p.Fset.Position(f.Pos()).Filename
			rel, err := filepath.Rel(repo, path)
			if err != nil || strings.HasPrefix(rel, "..") || strings.HasSuffix(rel, "_test.go") {
				continue
			}
			for _, d := range f.Decls {
				fd, ok := d.(*ast.FuncDecl)
				if !ok || fd.Body == nil {
					continue
				}
				name := fd.Name.Name
				if fd.Recv != nil && len(fd.Recv.List) > 0 {
					name = recvName(fd.Recv.List[0].Type) + "." + name
				}
				cacheWritesOf(p, fd, rel+"\x00"+name, rows)
			}
		}
	}
	if len(rows) < 10 {
		return "", fmt.Errorf("only %d cache writes found: the extractor is broken", len(rows))
	}
	list := make([]string, 0, len(rows))
	for r := range rows {
		list = append(list, r)
	}
	sort.Strings(list)
	var b strings.Builder
	b.WriteString("namespace NeoModel.Generated.CacheWrites\n")
	b.WriteString("/-- (file, function, written field `CacheType.field` or `call <callee>` for a cache passed on, how the cache object was obtained) -/\n")
	b.WriteString("def table : List (String × String × String × String) := [\n")
	for i, r := range list {
		sep := ","
		if i == len(list)-1 {
			sep = ""
		}
		f := strings.Split(r, "\x00")
		fmt.Fprintf(&b, "  (%q, %q, %q, %q)%s\n", f[0], f[1], f[2], f[3], sep)
	}
	b.WriteString("]\nend NeoModel.Generated.CacheWrites\n")
	return b.String(), nil
}

// cacheTypeName returns "XCache" if t is (a pointer to) a named struct type of package native whose name ends
// with "Cache", or "roleData" (the per-role part of DesignationCache, always addressed through the cache).
func cacheTypeName(t types.Type) string {
	if pt, ok := t.(*types.Pointer); ok {
		t = pt.Elem()
	}
	nt, ok := t.(*types.Named)
	if !ok {
		return ""
	}
	n := nt.Obj().Name()
	if strings.HasSuffix(n, "Cache") || n == "roleData" {
		return n
	}
	return ""
}

func exprString(e ast.Expr) string {
	var b bytes.Buffer
	_ = printer.Fprint(&b, token.NewFileSet(), e)
	return strings.Join(strings.Fields(b.String()), " ")
}

// sourceOf classifies the right-hand side a cache variable is assigned from.
func sourceOf(e ast.Expr) string {
	s := exprString(e)
	switch {
	case strings.Contains(s, "GetRWCache("):
		return "rw"
	case strings.Contains(s, "GetROCache("):
		return "ro"
	case strings.HasPrefix(s, "&") && strings.Contains(s, "Cache{"), strings.HasPrefix(s, "new("):
		return "new"
	case strings.HasPrefix(s, "&cache."), strings.HasPrefix(s, "getCachedRoleData("):
		return "field-of-cache"
	}
	return "other"
}

func cacheWritesOf(p *packages.Package, fd *ast.FuncDecl, where string, rows map[string]bool) {
	info := p.TypesInfo
	// sources of every cache-typed variable of the function
	src := map[types.Object]map[string]bool{}
	add := func(o types.Object, s string) {
		if o == nil {
			return
		}
		if src[o] == nil {
			src[o] = map[string]bool{}
		}
		src[o][s] = true
	}
	if fd.Recv != nil {
		for _, f := range fd.Recv.List {
			for _, n := range f.Names {
				if cacheTypeName(info.Defs[n].Type()) != "" {
					add(info.Defs[n], "param")
				}
			}
		}
	}
	for _, f := range fd.Type.Params.List {
		for _, n := range f.Names {
			if o := info.Defs[n]; o != nil && cacheTypeName(o.Type()) != "" {
				add(o, "param")
			}
		}
	}
	ast.Inspect(fd.Body, func(n ast.Node) bool {
		switch s := n.(type) {
		case *ast.AssignStmt:
			for i, l := range s.Lhs {
				id, ok := l.(*ast.Ident)
				if !ok || i >= len(s.Rhs) && len(s.Rhs) != 1 {
					continue
				}
				o := info.ObjectOf(id)
				if o == nil || cacheTypeName(o.Type()) == "" {
					continue
				}
				r := s.Rhs[0]
				if len(s.Rhs) == len(s.Lhs) {
					r = s.Rhs[i]
				}
				add(o, sourceOf(r))
			}
		case *ast.ValueSpec:
			for i, id := range s.Names {
				o := info.Defs[id]
				if o == nil || cacheTypeName(o.Type()) == "" {
					continue
				}
				if i < len(s.Values) {
					add(o, sourceOf(s.Values[i]))
				} else {
					add(o, "zero")
				}
			}
		}
		return true
	})
	// writes
	record := func(target ast.Expr) {
		// strip index / star / paren down to the selector chain
		field := ""
		e := target
		for {
			switch t := e.(type) {
			case *ast.IndexExpr:
				e = t.X
				continue
			case *ast.ParenExpr:
				e = t.X
				continue
			case *ast.StarExpr:
				e = t.X
				if field == "" {
					field = "*"
				}
				continue
			case *ast.SelectorExpr:
				field = t.Sel.Name
				if id, ok := t.X.(*ast.Ident); ok {
					o := info.ObjectOf(id)
					if o != nil {
						if tn := cacheTypeName(o.Type()); tn != "" {
							rows[where+"\x00"+tn+"."+field+"\x00"+joinSources(src[o])] = true
						}
					}
					return
				}
				// nested selector (cache.x.y): keep the outermost field name of the cache object
				inner := t.X
				for {
					if se, ok := inner.(*ast.SelectorExpr); ok {
						field = se.Sel.Name
						if id, ok := se.X.(*ast.Ident); ok {
							if o := info.ObjectOf(id); o != nil {
								if tn := cacheTypeName(o.Type()); tn != "" {
									rows[where+"\x00"+tn+"."+field+"\x00"+joinSources(src[o])] = true
								}
							}
							return
						}
						inner = se.X
						continue
					}
					return
				}
			case *ast.Ident:
				if field == "*" {
					if o := info.ObjectOf(t); o != nil {
						if tn := cacheTypeName(o.Type()); tn != "" {
							rows[where+"\x00"+tn+".*\x00"+joinSources(src[o])] = true
						}
					}
				}
				return
			default:
				return
			}
		}
	}
	ast.Inspect(fd.Body, func(n ast.Node) bool {
		switch s := n.(type) {
		case *ast.AssignStmt:
			for _, l := range s.Lhs {
				if _, isIdent := l.(*ast.Ident); !isIdent {
					record(l)
				}
			}
		case *ast.IncDecStmt:
			record(s.X)
		case *ast.CallExpr:
			if id, ok := s.Fun.(*ast.Ident); ok && (id.Name == "delete" || id.Name == "clear") && len(s.Args) > 0 {
				record(s.Args[0])
			}
			// a cache object handed to a helper that may write to it
			for _, a := range s.Args {
				if id, ok := a.(*ast.Ident); ok {
					if o := info.ObjectOf(id); o != nil && cacheTypeName(o.Type()) != "" {
						callee := exprString(s.Fun)
						if i := strings.LastIndex(callee, "."); i >= 0 {
							callee = callee[i+1:]
						}
						rows[where+"\x00call "+callee+"\x00"+joinSources(src[o])] = true
					}
				}
			}
		}
		return true
	})
}

func joinSources(m map[string]bool) string {
	if len(m) == 0 {
		return "unknown"
	}
	l := make([]string, 0, len(m))
	for s := range m {
		l = append(l, s)
	}
	sort.Strings(l)
	return strings.Join(l, "+")
}
