package main

// GcCompare (C11): how stateroot.Module.GC decides which record goes. The callback handed to SeekGC is
// read from the syntax tree: the conditions of every `if` inside it and every assignment inside it, in
// source order, as source text, plus the callee the callback is passed to. The Lean model's `gc`
// (Model/MptRc.lean) deletes a record iff it is inactive and its height, DECODED as a number, is <= the
// index; Proofs/MptRcGcFact.lean states that this is what the source says (an inactive-value test,
// `binary.LittleEndian.Uint32` of the last four bytes, `h <= index`). A change of the comparison (e.g. a
// bytewise comparison of the encoded height, seed C11-m8) changes this table and breaks that file.

import (
	"bytes"
	"fmt"
	"go/ast"
	"go/printer"
	"os"
	"strings"

	"golang.org/x/tools/go/packages"
)

func init() { register("GcCompare", genGcCompare) }

func genGcCompare(repo string) (string, error) {
	cfg := &packages.Config{
		Mode:    packages.NeedName | packages.NeedFiles | packages.NeedSyntax,
		Dir:     repo,
		Env:     append(os.Environ(), "GOFLAGS=-mod=readonly", "GOPROXY=off"),
		Overlay: overlayFromEnv(),
	}
	pkgs, err := packages.Load(cfg, "./pkg/core/stateroot")
	if err != nil {
		return "", err
	}
	if len(pkgs) != 1 || len(pkgs[0].Errors) > 0 {
		return "", fmt.Errorf("loading pkg/core/stateroot: %v", pkgs)
	}
	p := pkgs[0]
	text := func(n ast.Node) string {
		var buf bytes.Buffer
		_ = printer.Fprint(&buf, p.Fset, n)
		return strings.Join(strings.Fields(buf.String()), " ")
	}
	var conds, assigns, rets []string
	callee := ""
	found := false
	for _, f := range p.Syntax {
		if strings.HasSuffix(p.Fset.Position(f.Pos()).Filename, "_test.go") {
			continue
		}
		for _, d := range f.Decls {
			fd, ok := d.(*ast.FuncDecl)
			if !ok || fd.Body == nil || fd.Name.Name != "GC" || fd.Recv == nil || recvName(fd.Recv.List[0].Type) != "Module" {
				continue
			}
			ast.Inspect(fd.Body, func(n ast.Node) bool {
				call, ok := n.(*ast.CallExpr)
				if !ok {
					return true
				}
				for _, a := range call.Args {
					lit, ok := a.(*ast.FuncLit)
					if !ok {
						continue
					}
					found = true
					callee = text(call.Fun)
					ast.Inspect(lit.Body, func(m ast.Node) bool {
						switch s := m.(type) {
						case *ast.IfStmt:
							conds = append(conds, text(s.Cond))
						case *ast.AssignStmt:
							assigns = append(assigns, text(s))
						case *ast.ReturnStmt:
							rets = append(rets, text(s))
						}
						return true
					})
				}
				return true
			})
		}
	}
	if !found {
		return "", fmt.Errorf("no callback found in stateroot.Module.GC")
	}
	q := func(l []string) string {
		o := make([]string, len(l))
		for i, c := range l {
			o[i] = fmt.Sprintf("%q", c)
		}
		return "[" + strings.Join(o, ", ") + "]"
	}
	var b strings.Builder
	b.WriteString("namespace NeoModel.Generated.GcCompare\n")
	fmt.Fprintf(&b, "/-- the function the callback of `stateroot.Module.GC` is handed to -/\ndef callee : String := %q\n", callee)
	fmt.Fprintf(&b, "/-- conditions of the `if`s inside the callback, in source order -/\ndef conds : List String := %s\n", q(conds))
	fmt.Fprintf(&b, "/-- assignments inside the callback, in source order -/\ndef assigns : List String := %s\n", q(assigns))
	fmt.Fprintf(&b, "/-- return statements inside the callback, in source order -/\ndef returns : List String := %s\n", q(rets))
	b.WriteString("end NeoModel.Generated.GcCompare\n")
	return b.String(), nil
}
