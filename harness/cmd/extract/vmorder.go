package main

// Table "VmOrder" (property C12): the ORDER of the checks of one VM instruction cycle and the comparison
// operators of the VM limits, read from pkg/vm/vm.go with go/ast on every run. The abstract priced machine
// of C12 (lean/NeoModel/Model/VmAcct/Gas.lean) and the limit theorems are stated against this table
// (lean/NeoModel/Proofs/VmAcctOrder.lean), so a change of the order (execute before charging, compare
// before adding, size check before the instruction) or of an operator (> vs >=) in the source breaks a
// theorem at the next `lake build`.
//
//	stepSeq        vm.step: the calls / checks of its body in source order
//	               (decode = ctx.Next(), hook, decode-error = `if err != nil {Fault; return}`, execute)
//	executeSeq     vm.execute in EXECUTION order: the statements of the body in source order, the charging block
//	               flattened (gas-price, gas-add, gas-compare), then what the deferred function does
//	               (deferred:recover, deferred:size-check) — a `defer` runs when the function returns
//	gasGuard       the guard of the comparison inside the charging block (`v.gasLimit >= 0`)
//	gasCompareOp   the comparison that raises ErrGASLimitExceeded (GtUint64 -> ">")
//	sizeCheckOp / sizeCheckLhs / sizeCheckRhs / sizeCheckOnlyWithoutPanic   the deferred `v.refs > MaxStackSize`
//	depthCheckOp / depthCheckLhs / depthCheckRhs       checkInvocationStackSize
//	depthCheckFirstIn   the functions whose FIRST statement is the call of checkInvocationStackSize, and for
//	                    each whether an `append(v.istack, …)` follows it in the same function
//	tryCheckOp / tryCheckLhs / tryCheckRhs / tryCheckBeforePush        the TRY/TRYL case of execute
//	addGasSeq / addGasCompare   addPicoGasInternal (used by SYSCALL handlers): add, then compare
//
// Self-contained; honours VERIF_GO_OVERLAY through ccReadFile.

import (
	"fmt"
	"go/ast"
	"go/parser"
	"go/token"
	"path/filepath"
	"strings"
)

func init() { register("VmOrder", genVmOrder) }

func voStr(fset *token.FileSet, n ast.Node) string { return execExprString(fset, n) }

func voMentions(fset *token.FileSet, n ast.Node, what string) bool {
	return strings.Contains(voStr(fset, n), what)
}

// voCallName: the called function / method name of an expression statement or assignment right-hand side.
func voCallNames(n ast.Node) []string {
	var names []string
	ast.Inspect(n, func(m ast.Node) bool {
		if ce, ok := m.(*ast.CallExpr); ok {
			switch f := ce.Fun.(type) {
			case *ast.SelectorExpr:
				names = append(names, f.Sel.Name)
			case *ast.Ident:
				names = append(names, f.Name)
			}
		}
		return true
	})
	return names
}

func voHas(names []string, n string) bool {
	for _, x := range names {
		if x == n {
			return true
		}
	}
	return false
}

func voList(xs []string) string {
	q := make([]string, len(xs))
	for i, x := range xs {
		q[i] = fmt.Sprintf("%q", x)
	}
	return "[" + strings.Join(q, ", ") + "]"
}

// voCmp: the first binary comparison `lhs OP rhs` (OP one of > >= < <=) in n.
func voCmp(fset *token.FileSet, n ast.Node) (op, lhs, rhs string) {
	ast.Inspect(n, func(m ast.Node) bool {
		if op != "" {
			return false
		}
		if be, ok := m.(*ast.BinaryExpr); ok {
			switch be.Op {
			case token.GTR, token.GEQ, token.LSS, token.LEQ:
				op, lhs, rhs = be.Op.String(), voStr(fset, be.X), voStr(fset, be.Y)
				return false
			}
		}
		return true
	})
	return
}

func voPanics(n ast.Node) bool { return voHas(voCallNames(n), "panic") }

func genVmOrder(repo string) (string, error) {
	fset := token.NewFileSet()
	path := filepath.Join(repo, "pkg/vm/vm.go")
	src, err := ccReadFile(path)
	if err != nil {
		return "", err
	}
	f, err := parser.ParseFile(fset, path, src, 0)
	if err != nil {
		return "", err
	}
	fn := func(name string) (*ast.FuncDecl, error) {
		d := execFunc(f, name)
		if d == nil {
			return nil, fmt.Errorf("vm.go: func %s not found", name)
		}
		return d, nil
	}

	// ---- step
	step, err := fn("step")
	if err != nil {
		return "", err
	}
	var stepSeq []string
	for _, st := range step.Body.List {
		names := voCallNames(st)
		switch s := st.(type) {
		case *ast.AssignStmt:
			if voHas(names, "Next") {
				stepSeq = append(stepSeq, "decode")
			} else if voHas(names, "NextIP") {
				stepSeq = append(stepSeq, "read-ip")
			} else {
				stepSeq = append(stepSeq, "other:"+voStr(fset, s))
			}
		case *ast.IfStmt:
			switch {
			case voMentions(fset, s.Cond, "onExec"):
				stepSeq = append(stepSeq, "hook")
			case voMentions(fset, s.Cond, "err != nil") && voMentions(fset, s.Body, "vmstate.Fault"):
				stepSeq = append(stepSeq, "decode-error")
			default:
				stepSeq = append(stepSeq, "other:"+voStr(fset, s.Cond))
			}
		case *ast.ReturnStmt:
			if voHas(names, "execute") {
				stepSeq = append(stepSeq, "execute")
			} else {
				stepSeq = append(stepSeq, "other:return")
			}
		default:
			stepSeq = append(stepSeq, "other:"+voStr(fset, st))
		}
	}

	// ---- execute
	exec, err := fn("execute")
	if err != nil {
		return "", err
	}
	var execSeq, deferred []string
	var gasGuard, gasCmp, sizeOp, sizeL, sizeR string
	sizeOnlyNoPanic := false
	var tryOp, tryL, tryR string
	tryBeforePush := false
	for _, st := range exec.Body.List {
		switch s := st.(type) {
		case *ast.DeferStmt:
			fl, ok := s.Call.Fun.(*ast.FuncLit)
			if !ok {
				deferred = append(deferred, "deferred:other")
				continue
			}
			for _, ds := range fl.Body.List {
				ifs, ok := ds.(*ast.IfStmt)
				if !ok || !voHas(voCallNames(ifs), "recover") {
					deferred = append(deferred, "deferred:other")
					continue
				}
				deferred = append(deferred, "deferred:recover")
				// the else branch: `else if v.refs > MaxStackSize { Fault }`
				if el, ok := ifs.Else.(*ast.IfStmt); ok && voMentions(fset, el.Body, "vmstate.Fault") {
					sizeOp, sizeL, sizeR = voCmp(fset, el.Cond)
					sizeOnlyNoPanic = true
					deferred = append(deferred, "deferred:size-check")
				}
			}
		case *ast.IfStmt:
			switch {
			case voMentions(fset, s.Cond, "getPrice"):
				for _, cs := range s.Body.List {
					names := voCallNames(cs)
					switch c := cs.(type) {
					case *ast.AssignStmt:
						if voHas(names, "getPrice") {
							execSeq = append(execSeq, "gas-price")
						} else {
							execSeq = append(execSeq, "gas-other")
						}
					case *ast.ExprStmt:
						if voHas(names, "AddUint64") || voHas(names, "Add") {
							execSeq = append(execSeq, "gas-add")
						} else {
							execSeq = append(execSeq, "gas-other")
						}
					case *ast.IfStmt:
						if voPanics(c.Body) && voMentions(fset, c.Body, "ErrGASLimitExceeded") {
							execSeq = append(execSeq, "gas-compare")
							// cond: `v.gasLimit >= 0 && v.gasConsumed.GtUint64(uint64(v.gasLimit))`
							if be, ok := c.Cond.(*ast.BinaryExpr); ok && be.Op == token.LAND {
								gasGuard = voStr(fset, be.X)
								for _, n := range voCallNames(be.Y) {
									switch n {
									case "GtUint64", "Gt":
										gasCmp = ">"
									case "GeUint64", "Ge":
										gasCmp = ">="
									case "LtUint64", "Lt":
										gasCmp = "<"
									}
								}
								if gasCmp == "" {
									gasCmp, _, _ = voCmp(fset, be.Y)
								}
							} else {
								gasGuard = "none"
								gasCmp, _, _ = voCmp(fset, c.Cond)
							}
						} else {
							execSeq = append(execSeq, "gas-other")
						}
					default:
						execSeq = append(execSeq, "gas-other")
					}
				}
			case voMentions(fset, s.Cond, "PUSHINT256"):
				execSeq = append(execSeq, "dispatch-pushint")
			default:
				execSeq = append(execSeq, "other:"+voStr(fset, s.Cond))
			}
		case *ast.SwitchStmt:
			if voStr(fset, s.Tag) == "op" {
				execSeq = append(execSeq, "dispatch")
				for _, cst := range s.Body.List {
					cc, ok := cst.(*ast.CaseClause)
					if !ok {
						continue
					}
					isTry := false
					for _, e := range cc.List {
						if voStr(fset, e) == "opcode.TRY" {
							isTry = true
						}
					}
					if !isTry {
						continue
					}
					checkAt, pushAt := -1, -1
					for i, bs := range cc.Body {
						if ifs, ok := bs.(*ast.IfStmt); ok && voMentions(fset, ifs.Cond, "MaxTryNestingDepth") && voPanics(ifs.Body) {
							tryOp, tryL, tryR = voCmp(fset, ifs.Cond)
							checkAt = i
						}
						if voMentions(fset, bs, "tryStack.Push") && pushAt < 0 {
							pushAt = i
						}
					}
					tryBeforePush = checkAt >= 0 && pushAt > checkAt
				}
			} else {
				execSeq = append(execSeq, "other:switch")
			}
		case *ast.ReturnStmt:
			if len(s.Results) != 0 {
				execSeq = append(execSeq, "other:"+voStr(fset, st))
			} // the bare `return` that ends the function is not a step
		default:
			execSeq = append(execSeq, "other:"+voStr(fset, st))
		}
	}
	execSeq = append(execSeq, deferred...)

	// ---- checkInvocationStackSize and its callers
	chk, err := fn("checkInvocationStackSize")
	if err != nil {
		return "", err
	}
	var depOp, depL, depR string
	for _, st := range chk.Body.List {
		if ifs, ok := st.(*ast.IfStmt); ok && voPanics(ifs.Body) {
			depOp, depL, depR = voCmp(fset, ifs.Cond)
		}
	}
	var depthFirst []string
	for _, d := range f.Decls {
		fd, ok := d.(*ast.FuncDecl)
		if !ok || fd.Body == nil || len(fd.Body.List) == 0 {
			continue
		}
		calls := false
		ast.Inspect(fd.Body, func(m ast.Node) bool {
			if ce, ok := m.(*ast.CallExpr); ok {
				if se, ok := ce.Fun.(*ast.SelectorExpr); ok && se.Sel.Name == "checkInvocationStackSize" {
					calls = true
				}
			}
			return true
		})
		if !calls {
			continue
		}
		first := false
		if es, ok := fd.Body.List[0].(*ast.ExprStmt); ok && voHas(voCallNames(es), "checkInvocationStackSize") {
			first = true
		}
		appends := false
		for _, st := range fd.Body.List[1:] {
			if voMentions(fset, st, "append(v.istack") {
				appends = true
			}
		}
		depthFirst = append(depthFirst, fmt.Sprintf("%s:first=%v,appends-after=%v", fd.Name.Name, first, appends))
	}

	// ---- addPicoGasInternal
	ag, err := fn("addPicoGasInternal")
	if err != nil {
		return "", err
	}
	var addSeq []string
	addCmp := ""
	for _, st := range ag.Body.List {
		switch s := st.(type) {
		case *ast.IfStmt:
			names := voCallNames(s)
			if voHas(names, "Add") && !voMentions(fset, s.Cond, "gasLimit") {
				addSeq = append(addSeq, "add")
			} else if voMentions(fset, s.Cond, "gasLimit") {
				addSeq = append(addSeq, "compare")
				// `v.gasLimit < 0 || !v.gasConsumed.GtUint64(...)` -> return nil; exceeded otherwise
				c := voStr(fset, s.Cond)
				switch {
				case strings.Contains(c, "!v.gasConsumed.GtUint64") || strings.Contains(c, "!v.gasConsumed.Gt("):
					addCmp = ">"
				case strings.Contains(c, "!v.gasConsumed.GeUint64"):
					addCmp = ">="
				default:
					addCmp = "other:" + c
				}
			} else {
				addSeq = append(addSeq, "other")
			}
		case *ast.ReturnStmt:
			if voMentions(fset, s, "ErrGASLimitExceeded") {
				addSeq = append(addSeq, "exceeded")
			}
		case *ast.ExprStmt:
			if voHas(voCallNames(s), "Add") {
				addSeq = append(addSeq, "add")
			}
		}
	}

	var b strings.Builder
	b.WriteString("namespace NeoModel.Generated.VmOrder\n")
	fmt.Fprintf(&b, "def stepSeq : List String := %s\n", voList(stepSeq))
	fmt.Fprintf(&b, "def executeSeq : List String := %s\n", voList(execSeq))
	fmt.Fprintf(&b, "def gasGuard : String := %q\n", gasGuard)
	fmt.Fprintf(&b, "def gasCompareOp : String := %q\n", gasCmp)
	fmt.Fprintf(&b, "def sizeCheckOp : String := %q\n", sizeOp)
	fmt.Fprintf(&b, "def sizeCheckLhs : String := %q\n", sizeL)
	fmt.Fprintf(&b, "def sizeCheckRhs : String := %q\n", sizeR)
	fmt.Fprintf(&b, "def sizeCheckOnlyWithoutPanic : Bool := %v\n", sizeOnlyNoPanic)
	fmt.Fprintf(&b, "def depthCheckOp : String := %q\n", depOp)
	fmt.Fprintf(&b, "def depthCheckLhs : String := %q\n", depL)
	fmt.Fprintf(&b, "def depthCheckRhs : String := %q\n", depR)
	fmt.Fprintf(&b, "def depthCheckFirstIn : List String := %s\n", voList(depthFirst))
	fmt.Fprintf(&b, "def tryCheckOp : String := %q\n", tryOp)
	fmt.Fprintf(&b, "def tryCheckLhs : String := %q\n", tryL)
	fmt.Fprintf(&b, "def tryCheckRhs : String := %q\n", tryR)
	fmt.Fprintf(&b, "def tryCheckBeforePush : Bool := %v\n", tryBeforePush)
	fmt.Fprintf(&b, "def addGasSeq : List String := %s\n", voList(addSeq))
	fmt.Fprintf(&b, "def addGasCompareOp : String := %q\n", addCmp)
	b.WriteString("end NeoModel.Generated.VmOrder\n")
	return b.String(), nil
}
