package main

import (
	"fmt"
	"go/ast"
	"go/parser"
	"go/token"
	"path/filepath"
	"strconv"
	"strings"
)

// Stages: the persisted markers and layout constants the C02 persistence model depends on:
// stateChangeStage enum + stateResetBit (pkg/core/blockchain.go), storage.KeyPrefix constants
// (pkg/core/storage/store.go), headerBatchCount (pkg/core/headerhashes.go) and the two
// persistBatchSize constants of resetStateInternal.
func init() { register("Stages", genStages) }

// stgEval evaluates the tiny constant expressions used there: literals, iota, named constants
// already seen, parentheses, <<, *, +, |.
func stgEval(e ast.Expr, iota int, env map[string]int64) (int64, error) {
	switch x := e.(type) {
	case *ast.BasicLit:
		v, err := strconv.ParseInt(x.Value, 0, 64)
		return v, err
	case *ast.Ident:
		if x.Name == "iota" {
			return int64(iota), nil
		}
		if v, ok := env[x.Name]; ok {
			return v, nil
		}
		return 0, fmt.Errorf("unknown identifier %s", x.Name)
	case *ast.ParenExpr:
		return stgEval(x.X, iota, env)
	case *ast.BinaryExpr:
		a, err := stgEval(x.X, iota, env)
		if err != nil {
			return 0, err
		}
		b, err := stgEval(x.Y, iota, env)
		if err != nil {
			return 0, err
		}
		switch x.Op {
		case token.SHL:
			return a << uint(b), nil
		case token.MUL:
			return a * b, nil
		case token.ADD:
			return a + b, nil
		case token.OR:
			return a | b, nil
		}
		return 0, fmt.Errorf("unsupported operator %s", x.Op)
	}
	return 0, fmt.Errorf("unsupported expression %T", e)
}

// stgConstBlock evaluates one const ( ... ) declaration, handling implicit repetition and iota.
func stgConstBlock(d *ast.GenDecl, env map[string]int64) ([]string, error) {
	var (
		names []string
		last  []ast.Expr
	)
	for i, sp := range d.Specs {
		vs := sp.(*ast.ValueSpec)
		vals := vs.Values
		if len(vals) == 0 {
			vals = last
		} else {
			last = vals
		}
		for j, n := range vs.Names {
			if j >= len(vals) {
				return nil, fmt.Errorf("no value for %s", n.Name)
			}
			v, err := stgEval(vals[j], i, env)
			if err != nil {
				return nil, fmt.Errorf("%s: %w", n.Name, err)
			}
			env[n.Name] = v
			names = append(names, n.Name)
		}
	}
	return names, nil
}

func stgParse(repo, rel string) (*ast.File, error) {
	return parser.ParseFile(token.NewFileSet(), filepath.Join(repo, rel), nil, 0)
}

// stgFindConst returns the top-level const declaration that declares `name`.
func stgFindConst(f *ast.File, name string) *ast.GenDecl {
	for _, d := range f.Decls {
		g, ok := d.(*ast.GenDecl)
		if !ok || g.Tok != token.CONST {
			continue
		}
		for _, sp := range g.Specs {
			for _, n := range sp.(*ast.ValueSpec).Names {
				if n.Name == name {
					return g
				}
			}
		}
	}
	return nil
}

func genStages(repo string) (string, error) {
	var b strings.Builder
	b.WriteString("namespace NeoModel.Generated.Stages\n")
	env := map[string]int64{}

	hf, err := stgParse(repo, "pkg/core/headerhashes.go")
	if err != nil {
		return "", err
	}
	g := stgFindConst(hf, "headerBatchCount")
	if g == nil {
		return "", fmt.Errorf("headerBatchCount not found")
	}
	if _, err := stgConstBlock(g, env); err != nil {
		return "", err
	}
	fmt.Fprintf(&b, "def headerBatchCount : Nat := %d\n", env["headerBatchCount"])
	if _, ok := env["pagesCache"]; !ok {
		return "", fmt.Errorf("pagesCache not found next to headerBatchCount")
	}
	fmt.Fprintf(&b, "-- size of HeaderHashes' LRU page cache (headerhashes.go)\n")
	fmt.Fprintf(&b, "def pagesCache : Nat := %d\n", env["pagesCache"])

	bf, err := stgParse(repo, "pkg/core/blockchain.go")
	if err != nil {
		return "", err
	}
	g = stgFindConst(bf, "stateJumpStarted")
	if g == nil {
		return "", fmt.Errorf("stateChangeStage constants not found")
	}
	names, err := stgConstBlock(g, env)
	if err != nil {
		return "", err
	}
	b.WriteString("-- stateChangeStage (blockchain.go), in declaration order\n")
	for _, n := range names {
		fmt.Fprintf(&b, "def %s : Nat := %d\n", stgLeanName(n), env[n])
	}
	fmt.Fprintf(&b, "def stageNames : List (String × Nat) := [%s]\n", stgPairList(names, env))
	// the order of the `case` labels in resetStateInternal's fallthrough switch
	var (
		resetOrder []string
		batchSizes []int64
	)
	ast.Inspect(bf, func(n ast.Node) bool {
		fd, ok := n.(*ast.FuncDecl)
		if !ok || fd.Name.Name != "resetStateInternal" {
			return true
		}
		ast.Inspect(fd.Body, func(m ast.Node) bool {
			switch x := m.(type) {
			case *ast.CaseClause:
				for _, e := range x.List {
					if id, ok := e.(*ast.Ident); ok {
						if _, known := env[id.Name]; known {
							resetOrder = append(resetOrder, id.Name)
						}
					}
				}
			case *ast.ValueSpec:
				for i, nm := range x.Names {
					if nm.Name == "persistBatchSize" && i < len(x.Values) {
						if v, err := stgEval(x.Values[i], 0, env); err == nil {
							batchSizes = append(batchSizes, v)
						}
					}
				}
			}
			return true
		})
		return false
	})
	if len(resetOrder) == 0 || len(batchSizes) != 2 {
		return "", fmt.Errorf("resetStateInternal: switch order %v / persistBatchSize %v not recognised", resetOrder, batchSizes)
	}
	fmt.Fprintf(&b, "-- order of the case labels of resetStateInternal's fallthrough switch\n")
	fmt.Fprintf(&b, "def resetSwitchOrder : List Nat := [%s]\n", stgValList(resetOrder, env))
	fmt.Fprintf(&b, "def resetBlocksBatch : Nat := %d\n", batchSizes[0])
	fmt.Fprintf(&b, "def resetItemsBatch : Nat := %d\n", batchSizes[1])

	// tryRunGC: the calls of its guarded body, in order; the size of the block timestamp cache
	var gcCalls []string
	ast.Inspect(bf, func(n ast.Node) bool {
		fd, ok := n.(*ast.FuncDecl)
		if !ok || fd.Name.Name != "tryRunGC" {
			return true
		}
		ast.Inspect(fd.Body, func(m ast.Node) bool {
			ifs, ok := m.(*ast.IfStmt)
			if !ok {
				return true
			}
			var calls []string
			ast.Inspect(ifs.Body, func(c ast.Node) bool {
				if ce, ok := c.(*ast.CallExpr); ok {
					if sel, ok := ce.Fun.(*ast.SelectorExpr); ok {
						switch sel.Sel.Name {
						case "removeOldTransfers", "GC", "removeUntraceableBlocks", "removeOldHeaderHashes":
							calls = append(calls, sel.Sel.Name)
						}
					}
				}
				return true
			})
			if len(calls) > len(gcCalls) {
				gcCalls = calls
			}
			return true
		})
		return false
	})
	if len(gcCalls) == 0 {
		return "", fmt.Errorf("tryRunGC: no GC calls recognised")
	}
	for i := range gcCalls {
		gcCalls[i] = strconv.Quote(gcCalls[i])
	}
	fmt.Fprintf(&b, "-- the collector calls of tryRunGC's guarded body, in order\n")
	fmt.Fprintf(&b, "def gcCallOrder : List String := [%s]\n", strings.Join(gcCalls, ", "))
	g = stgFindConst(bf, "defaultBlockTimesCache")
	if g == nil {
		return "", fmt.Errorf("defaultBlockTimesCache not found")
	}
	found := false
	for _, sp := range g.Specs {
		vs := sp.(*ast.ValueSpec)
		for i, nm := range vs.Names {
			if nm.Name == "defaultBlockTimesCache" && i < len(vs.Values) {
				v, err := stgEval(vs.Values[i], 0, env)
				if err != nil {
					return "", fmt.Errorf("defaultBlockTimesCache: %w", err)
				}
				fmt.Fprintf(&b, "def blockTimesCache : Nat := %d\n", v)
				found = true
			}
		}
	}
	if !found {
		return "", fmt.Errorf("defaultBlockTimesCache has no literal value")
	}

	sf, err := stgParse(repo, "pkg/core/storage/store.go")
	if err != nil {
		return "", err
	}
	g = stgFindConst(sf, "SYSStateChangeStage")
	if g == nil {
		return "", fmt.Errorf("KeyPrefix constants not found")
	}
	penv := map[string]int64{}
	pn, err := stgConstBlock(g, penv)
	if err != nil {
		return "", err
	}
	b.WriteString("-- storage.KeyPrefix (storage/store.go)\n")
	for _, n := range pn {
		fmt.Fprintf(&b, "def %s : Nat := %d\n", stgLeanName("pfx"+n), penv[n])
	}
	fmt.Fprintf(&b, "def keyPrefixes : List (String × Nat) := [%s]\n", stgPairList(pn, penv))
	b.WriteString("end NeoModel.Generated.Stages\n")
	return b.String(), nil
}

func stgLeanName(n string) string {
	if n == "none" {
		return "stageNone"
	}
	return n
}

func stgPairList(names []string, env map[string]int64) string {
	var parts []string
	for _, n := range names {
		parts = append(parts, fmt.Sprintf("(%q, %d)", n, env[n]))
	}
	return strings.Join(parts, ", ")
}

func stgValList(names []string, env map[string]int64) string {
	var parts []string
	for _, n := range names {
		parts = append(parts, fmt.Sprint(env[n]))
	}
	return strings.Join(parts, ", ")
}
