package main

import (
	"bytes"
	"encoding/json"
	"fmt"
	"go/ast"
	"go/parser"
	"go/printer"
	"go/token"
	"os"
	"path/filepath"
	"sort"
	"strings"

	"github.com/nspcc-dev/neo-go/pkg/core/interop/interopnames"
	"github.com/nspcc-dev/neo-go/pkg/smartcontract/callflag"
	"github.com/nspcc-dev/neo-go/pkg/vm"
	"github.com/nspcc-dev/neo-go/pkg/vm/opcode"
)

// WitnessFrames (C15): how the source wires a new script context — for every loader / interop function the
// model's frame machine mirrors, the expressions the code passes as calling hash, script hash and call flags,
// the getters the witness check uses, and every call site of contract.CallFromNative in pkg/core/native with
// the caller it passes. Expressions are printed from the AST (go/printer), so formatting does not matter.
// Props/C15Exec.lean compares the table with the wiring the model was written against.
func init() { register("WitnessFrames", genWitnessFrames) }

type wfFile struct {
	fset *token.FileSet
	f    *ast.File
}

// wfOverlay: with VERIF_GO_OVERLAY set (go build -overlay, the development aid of ./check) the replaced
// files are read instead of the originals, so that a candidate change is seen by this table too.
func wfOverlay(path string) string {
	ov := os.Getenv("VERIF_GO_OVERLAY")
	if ov == "" {
		return path
	}
	data, err := os.ReadFile(ov)
	if err != nil {
		return path
	}
	var m struct{ Replace map[string]string }
	if json.Unmarshal(data, &m) != nil {
		return path
	}
	if r, ok := m.Replace[path]; ok && r != "" {
		return r
	}
	return path
}

func wfParse(repo, rel string) (*wfFile, error) {
	fset := token.NewFileSet()
	f, err := parser.ParseFile(fset, wfOverlay(filepath.Join(repo, rel)), nil, 0)
	if err != nil {
		return nil, err
	}
	return &wfFile{fset, f}, nil
}

func (w *wfFile) str(n ast.Node) string {
	var b bytes.Buffer
	_ = printer.Fprint(&b, w.fset, n)
	return strings.Join(strings.Fields(b.String()), " ")
}

// fn finds a function or method by name (and receiver type name, "" for a plain function).
func (w *wfFile) fn(recv, name string) *ast.FuncDecl {
	for _, d := range w.f.Decls {
		fd, ok := d.(*ast.FuncDecl)
		if !ok || fd.Name.Name != name {
			continue
		}
		r := ""
		if fd.Recv != nil && len(fd.Recv.List) == 1 {
			t := fd.Recv.List[0].Type
			if s, ok := t.(*ast.StarExpr); ok {
				t = s.X
			}
			if id, ok := t.(*ast.Ident); ok {
				r = id.Name
			}
		}
		if r == recv {
			return fd
		}
	}
	return nil
}

// calls returns the calls inside n whose function expression prints as one of names.
func (w *wfFile) calls(n ast.Node, names ...string) []*ast.CallExpr {
	var res []*ast.CallExpr
	ast.Inspect(n, func(x ast.Node) bool {
		if c, ok := x.(*ast.CallExpr); ok {
			s := w.str(c.Fun)
			for _, nm := range names {
				if s == nm {
					res = append(res, c)
				}
			}
		}
		return true
	})
	return res
}

// assigns returns the right-hand sides of the assignments inside n whose left-hand side prints as lhs, each
// prefixed by the conditions of the if statements it is nested in (`[if c]`, `[else c]`), so that an
// assignment that became conditional is a different row.
func (w *wfFile) assigns(n ast.Node, lhs string) []string {
	var res []string
	var walk func(x ast.Node, guard string)
	walk = func(x ast.Node, guard string) {
		ast.Inspect(x, func(y ast.Node) bool {
			if y == x {
				return true
			}
			switch v := y.(type) {
			case *ast.FuncLit:
				return false // closures run later, under other conditions
			case *ast.IfStmt:
				c := w.str(v.Cond)
				if v.Init != nil {
					walk(v.Init, guard)
				}
				walk(v.Body, guard+"[if "+c+"] ")
				if v.Else != nil {
					walk(v.Else, guard+"[else "+c+"] ")
				}
				return false
			case *ast.AssignStmt:
				if len(v.Lhs) == 1 && len(v.Rhs) == 1 && w.str(v.Lhs[0]) == lhs {
					res = append(res, guard+v.Tok.String()+" "+w.str(v.Rhs[0]))
				}
			}
			return true
		})
	}
	walk(n, "")
	return res
}

func (w *wfFile) returns(n ast.Node) []string {
	var res []string
	ast.Inspect(n, func(x ast.Node) bool {
		if r, ok := x.(*ast.ReturnStmt); ok {
			var parts []string
			for _, e := range r.Results {
				parts = append(parts, w.str(e))
			}
			res = append(res, strings.Join(parts, ", "))
		}
		return true
	})
	return res
}

func genWitnessFrames(repo string) (string, error) {
	var rows [][2]string
	add := func(k, v string) { rows = append(rows, [2]string{k, v}) }
	fail := func(what string) (string, error) { return "", fmt.Errorf("WitnessFrames: %s not found", what) }
	argsOf := func(w *wfFile, key string, c *ast.CallExpr, idx map[string]int) {
		names := make([]string, 0, len(idx))
		for n := range idx {
			names = append(names, n)
		}
		sort.Slice(names, func(i, j int) bool { return idx[names[i]] < idx[names[j]] })
		for _, n := range names {
			if idx[n] < len(c.Args) {
				add(key+"."+n, w.str(c.Args[idx[n]]))
			}
		}
	}

	// ---- pkg/vm/vm.go
	v, err := wfParse(repo, "pkg/vm/vm.go")
	if err != nil {
		return "", err
	}
	for _, name := range []string{"LoadScriptWithFlags", "LoadDynamicScript", "LoadScriptWithHash", "LoadNEFMethod"} {
		fd := v.fn("VM", name)
		if fd == nil {
			return fail("vm." + name)
		}
		cs := v.calls(fd, "v.loadScriptWithCallingHash")
		if len(cs) != 1 {
			return fail("vm." + name + ": the call of loadScriptWithCallingHash")
		}
		argsOf(v, "vm."+name, cs[0], map[string]int{"caller": 3, "hash": 4, "flags": 5})
	}
	if fd := v.fn("VM", "LoadNEFMethod"); fd != nil {
		for _, c := range v.calls(fd, "v.Call") {
			add("vm.LoadNEFMethod.then", v.str(c))
		}
	}
	fd := v.fn("VM", "loadScriptWithCallingHash")
	if fd == nil {
		return fail("vm.loadScriptWithCallingHash")
	}
	for _, lhs := range []string{"parent", "ctx.sc.callingContext", "ctx.sc.scriptHash", "ctx.sc.callingScriptHash", "ctx.sc.callFlag", "v.istack"} {
		for _, r := range v.assigns(fd, lhs) {
			add("vm.loadScriptWithCallingHash."+lhs, r)
		}
	}
	if fd := v.fn("VM", "LoadWithFlags"); fd != nil {
		for _, r := range v.assigns(fd, "v.istack") {
			add("vm.LoadWithFlags.v.istack", r)
		}
		for _, c := range v.calls(fd, "v.LoadScriptWithFlags") {
			add("vm.LoadWithFlags.then", v.str(c))
		}
	} else {
		return fail("vm.LoadWithFlags")
	}
	if fd := v.fn("VM", "LoadScript"); fd != nil {
		for _, c := range v.calls(fd, "v.LoadScriptWithFlags") {
			add("vm.LoadScript.then", v.str(c))
		}
	}
	if fd := v.fn("VM", "call"); fd != nil {
		ast.Inspect(fd, func(x ast.Node) bool {
			if kv, ok := x.(*ast.KeyValueExpr); ok && v.str(kv.Key) == "sc" {
				add("vm.call.newCtx.sc", v.str(kv.Value))
			}
			return true
		})
		for _, r := range v.assigns(fd, "v.istack") {
			add("vm.call.v.istack", r)
		}
	} else {
		return fail("vm.call")
	}
	for _, g := range []string{"GetCallingScriptHash", "GetEntryScriptHash", "GetCurrentScriptHash"} {
		fd := v.fn("VM", g)
		if fd == nil {
			return fail("vm." + g)
		}
		add("vm."+g, strings.Join(v.returns(fd), " | "))
	}
	if fd := v.fn("VM", "checkInvocationStackSize"); fd != nil {
		ast.Inspect(fd, func(x ast.Node) bool {
			if i, ok := x.(*ast.IfStmt); ok {
				add("vm.checkInvocationStackSize.if", v.str(i.Cond))
			}
			return true
		})
	}
	// ---- pkg/vm/context.go
	cx, err := wfParse(repo, "pkg/vm/context.go")
	if err != nil {
		return "", err
	}
	if fd := cx.fn("Context", "IsCalledByEntry"); fd != nil {
		add("vm.Context.IsCalledByEntry", strings.Join(cx.returns(fd), " | "))
	} else {
		return fail("Context.IsCalledByEntry")
	}
	if fd := cx.fn("VM", "getContextScriptHash"); fd != nil {
		add("vm.getContextScriptHash", strings.Join(cx.returns(fd), " | "))
	}
	if fd := cx.fn("Context", "ScriptHash"); fd != nil {
		ast.Inspect(fd, func(x ast.Node) bool {
			if i, ok := x.(*ast.IfStmt); ok {
				add("vm.Context.ScriptHash.if", cx.str(i.Cond))
			}
			return true
		})
		for _, r := range cx.assigns(fd, "c.sc.scriptHash") {
			add("vm.Context.ScriptHash.c.sc.scriptHash", r)
		}
	}
	// ---- pkg/core/interop/contract/call.go
	cc, err := wfParse(repo, "pkg/core/interop/contract/call.go")
	if err != nil {
		return "", err
	}
	if fd := cc.fn("", "callInternal"); fd != nil {
		cs := cc.calls(fd, "callExFromNative")
		if len(cs) != 1 {
			return fail("callInternal: the call of callExFromNative")
		}
		argsOf(cc, "contract.callInternal", cs[0], map[string]int{"caller": 1, "flags": 5})
		for _, r := range cc.assigns(fd, "f") {
			add("contract.callInternal.f", r)
		}
	} else {
		return fail("contract.callInternal")
	}
	if fd := cc.fn("", "callExFromNative"); fd != nil {
		for _, r := range cc.assigns(fd, "f") {
			add("contract.callExFromNative.f", r)
		}
		cs := cc.calls(fd, "ic.VM.LoadNEFMethod")
		if len(cs) != 1 {
			return fail("callExFromNative: the call of LoadNEFMethod")
		}
		argsOf(cc, "contract.callExFromNative.LoadNEFMethod", cs[0], map[string]int{"caller": 2, "hash": 3, "flags": 4})
	} else {
		return fail("contract.callExFromNative")
	}
	if fd := cc.fn("", "CallFromNative"); fd != nil {
		cs := cc.calls(fd, "callExFromNative")
		if len(cs) != 1 {
			return fail("CallFromNative: the call of callExFromNative")
		}
		argsOf(cc, "contract.CallFromNative", cs[0], map[string]int{"caller": 1, "flags": 5})
	}
	if fd := cc.fn("", "LoadToken"); fd != nil {
		ast.Inspect(fd, func(x ast.Node) bool {
			if i, ok := x.(*ast.IfStmt); ok && strings.Contains(cc.str(i.Cond), "GetCallFlags") {
				add("contract.LoadToken.if", cc.str(i.Cond))
			}
			return true
		})
		cs := cc.calls(fd, "callInternal")
		if len(cs) != 1 {
			return fail("LoadToken: the call of callInternal")
		}
		argsOf(cc, "contract.LoadToken.callInternal", cs[0], map[string]int{"flags": 3})
	}
	if fd := cc.fn("", "Call"); fd != nil {
		ast.Inspect(fd, func(x ast.Node) bool {
			if i, ok := x.(*ast.IfStmt); ok && strings.Contains(cc.str(i.Cond), "callflag.All") {
				add("contract.Call.if", cc.str(i.Cond))
			}
			return true
		})
		cs := cc.calls(fd, "callInternal")
		if len(cs) != 1 {
			return fail("Call: the call of callInternal")
		}
		argsOf(cc, "contract.Call.callInternal", cs[0], map[string]int{"flags": 3})
	}
	// ---- pkg/core/interop/runtime/engine.go
	en, err := wfParse(repo, "pkg/core/interop/runtime/engine.go")
	if err != nil {
		return "", err
	}
	if fd := en.fn("", "LoadScript"); fd != nil {
		for _, r := range en.assigns(fd, "fs") {
			add("runtime.LoadScript.fs", r)
		}
		ast.Inspect(fd, func(x ast.Node) bool {
			if i, ok := x.(*ast.IfStmt); ok && strings.Contains(en.str(i.Cond), "callflag.All") {
				add("runtime.LoadScript.if", en.str(i.Cond))
			}
			return true
		})
		for _, c := range en.calls(fd, "ic.VM.LoadDynamicScript") {
			add("runtime.LoadScript.then", en.str(c))
		}
	} else {
		return fail("runtime.LoadScript")
	}
	// ---- pkg/core/interop/runtime/witness.go
	wt, err := wfParse(repo, "pkg/core/interop/runtime/witness.go")
	if err != nil {
		return "", err
	}
	if fd := wt.fn("", "CheckHashedWitness"); fd != nil {
		for _, r := range wt.assigns(fd, "callingSH") {
			add("runtime.CheckHashedWitness.callingSH", r)
		}
		ast.Inspect(fd, func(x ast.Node) bool {
			if i, ok := x.(*ast.IfStmt); ok {
				add("runtime.CheckHashedWitness.if", wt.str(i.Cond))
			}
			return true
		})
	} else {
		return fail("runtime.CheckHashedWitness")
	}
	for _, m := range []string{"IsCalledByEntry", "CallingScriptHasGroup", "CurrentScriptHasGroup"} {
		if fd := wt.fn("scopeContext", m); fd != nil {
			add("runtime.scopeContext."+m, strings.Join(wt.returns(fd), " | "))
		} else {
			return fail("scopeContext." + m)
		}
	}
	if fd := wt.fn("", "getContractGroups"); fd != nil {
		ast.Inspect(fd, func(x ast.Node) bool {
			if i, ok := x.(*ast.IfStmt); ok && strings.Contains(wt.str(i.Cond), "GetCallFlags") {
				add("runtime.getContractGroups.if", wt.str(i.Cond))
			}
			return true
		})
	}
	if fd := wt.fn("", "checkScope"); fd != nil {
		for _, lhs := range []string{"signers", "currentScriptHash"} {
			for _, r := range wt.assigns(fd, lhs) {
				add("runtime.checkScope."+lhs, r)
			}
		}
		for _, c := range wt.calls(fd, "getContractGroups") {
			add("runtime.checkScope.getContractGroups", wt.str(c))
		}
		for _, c := range wt.calls(fd, "ic.VM.Context().IsCalledByEntry") {
			add("runtime.checkScope.calledByEntry", wt.str(c))
		}
	} else {
		return fail("runtime.checkScope")
	}
	if fd := wt.fn("", "CheckKeyedWitness"); fd != nil {
		add("runtime.CheckKeyedWitness", strings.Join(wt.returns(fd), " | "))
	}
	// ---- pkg/core/interop/context.go: Signers
	ic, err := wfParse(repo, "pkg/core/interop/context.go")
	if err != nil {
		return "", err
	}
	if fd := ic.fn("Context", "Signers"); fd != nil {
		var conds []string
		ast.Inspect(fd, func(x ast.Node) bool {
			if i, ok := x.(*ast.IfStmt); ok {
				conds = append(conds, ic.str(i.Cond))
			}
			return true
		})
		add("interop.Context.Signers.if", strings.Join(conds, " | "))
		add("interop.Context.Signers.return", strings.Join(ic.returns(fd), " | "))
	} else {
		return fail("interop.Context.Signers")
	}
	// ---- pkg/core/blockchain.go: InitVerificationContext
	bc, err := wfParse(repo, "pkg/core/blockchain.go")
	if err != nil {
		return "", err
	}
	if fd := bc.fn("Blockchain", "InitVerificationContext"); fd != nil {
		for _, c := range bc.calls(fd, "ic.VM.LoadScriptWithHash") {
			argsOf(bc, "core.InitVerificationContext.LoadScriptWithHash", c, map[string]int{"hash": 1, "flags": 2})
		}
		for _, c := range bc.calls(fd, "ic.VM.LoadNEFMethod") {
			argsOf(bc, "core.InitVerificationContext.LoadNEFMethod", c, map[string]int{"caller": 2, "hash": 3, "flags": 4, "initOff": 7})
		}
		for _, c := range bc.calls(fd, "ic.VM.LoadScript") {
			add("core.InitVerificationContext.LoadScript", bc.str(c))
		}
	} else {
		return fail("core.InitVerificationContext")
	}

	// ---- pkg/core/native: every call site of contract.CallFromNative
	type site struct{ file, fn, caller string }
	var sites []site
	natDir := filepath.Join(repo, "pkg/core/native")
	ents, err := os.ReadDir(natDir)
	if err != nil {
		return "", err
	}
	for _, e := range ents {
		if e.IsDir() || !strings.HasSuffix(e.Name(), ".go") || strings.HasSuffix(e.Name(), "_test.go") {
			continue
		}
		nf, err := wfParse(repo, "pkg/core/native/"+e.Name())
		if err != nil {
			return "", err
		}
		for _, d := range nf.f.Decls {
			fd, ok := d.(*ast.FuncDecl)
			if !ok || fd.Body == nil {
				continue
			}
			for _, c := range nf.calls(fd, "contract.CallFromNative") {
				if len(c.Args) > 1 {
					sites = append(sites, site{e.Name(), fd.Name.Name, nf.str(c.Args[1])})
				}
			}
		}
	}
	sort.Slice(sites, func(i, j int) bool {
		if sites[i].file != sites[j].file {
			return sites[i].file < sites[j].file
		}
		return sites[i].fn < sites[j].fn
	})

	q := func(s string) string { return `"` + strings.ReplaceAll(strings.ReplaceAll(s, `\`, `\\`), `"`, `\"`) + `"` }
	var b strings.Builder
	b.WriteString("namespace NeoModel.Generated.WitnessFrames\n\n")
	b.WriteString("/-- (place in the source, expression found there), in the order of extraction. -/\n")
	b.WriteString("def wiring : List (String × String) := [\n")
	for i, r := range rows {
		sep := ","
		if i == len(rows)-1 {
			sep = ""
		}
		fmt.Fprintf(&b, "  (%s, %s)%s\n", q(r[0]), q(r[1]), sep)
	}
	b.WriteString("]\n\n")
	b.WriteString("/-- every call of contract.CallFromNative in pkg/core/native: (file, function, the caller hash it passes). -/\n")
	b.WriteString("def nativeCallSites : List (String × String × String) := [\n")
	for i, s := range sites {
		sep := ","
		if i == len(sites)-1 {
			sep = ""
		}
		fmt.Fprintf(&b, "  (%s, %s, %s)%s\n", q(s.file), q(s.fn), q(s.caller), sep)
	}
	b.WriteString("]\n\n")
	fmt.Fprintf(&b, "def flagReadStates : Nat := %d\n", byte(callflag.ReadStates))
	fmt.Fprintf(&b, "def flagWriteStates : Nat := %d\n", byte(callflag.WriteStates))
	fmt.Fprintf(&b, "def flagAllowCall : Nat := %d\n", byte(callflag.AllowCall))
	fmt.Fprintf(&b, "def flagAllowNotify : Nat := %d\n", byte(callflag.AllowNotify))
	fmt.Fprintf(&b, "def flagStates : Nat := %d\n", byte(callflag.States))
	fmt.Fprintf(&b, "def flagReadOnly : Nat := %d\n", byte(callflag.ReadOnly))
	fmt.Fprintf(&b, "def flagAll : Nat := %d\n", byte(callflag.All))
	fmt.Fprintf(&b, "def flagNone : Nat := %d\n", byte(callflag.NoneFlag))
	fmt.Fprintf(&b, "def maxInvocationStackSize : Nat := %d\n", vm.MaxInvocationStackSize)
	fmt.Fprintf(&b, "def opPUSHDATA1 : Nat := %d\n", byte(opcode.PUSHDATA1))
	fmt.Fprintf(&b, "def opSYSCALL : Nat := %d\n", byte(opcode.SYSCALL))
	fmt.Fprintf(&b, "def checkSigId : Nat := %d\n", interopnames.ToID([]byte(interopnames.SystemCryptoCheckSig)))
	b.WriteString("end NeoModel.Generated.WitnessFrames\n")
	return b.String(), nil
}
