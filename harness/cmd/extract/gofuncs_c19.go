package main

// gofuncs_c19.go — decision functions of the consensus integration (C19) translated on every run; the equalities
// with the hand-written models (Model/DbftEpoch.lean, Model/DbftMach.lean) are proved in
// lean/NeoModel/Proofs/GoFuncs/C19Mach.lean. Not translatable today: service.newBlockFromContext (result type; with
// Sink: "assignment to a non-local not found by the pre-scan").
func init() {
	gfSpecs = append(gfSpecs,
		gfSpec{Pkg: "./pkg/config", Recv: "ProtocolConfiguration", Func: "ShouldUpdateCommitteeAt", Lean: "c19ShouldUpdateCommitteeAt"},
		gfSpec{Pkg: "./pkg/consensus", Recv: "service", Func: "validatePayload", Lean: "c19ValidatePayload"},
		gfSpec{Pkg: "github.com/nspcc-dev/dbft", Recv: "DBFT", Func: "onTimeout", Lean: "c19OnTimeout"},
		gfSpec{Pkg: "github.com/nspcc-dev/dbft", Recv: "DBFT", Func: "onChangeView", Lean: "c19OnChangeView"},
		gfSpec{Pkg: "github.com/nspcc-dev/dbft", Recv: "DBFT", Func: "onRecoveryRequest", Lean: "c19OnRecoveryRequest"},
		gfSpec{Pkg: "github.com/nspcc-dev/dbft", Recv: "Context", Func: "ViewChanging", Lean: "c19ViewChanging"},
		gfSpec{Pkg: "github.com/nspcc-dev/dbft", Recv: "DBFT", Func: "extendTimer", Lean: "c19ExtendTimer"},
	)
}
