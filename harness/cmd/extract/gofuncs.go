package main

// gofuncs.go — a small Go -> Lean translator for loop-free integer / decision functions.
//
// For every function listed in gfSpecs the body is re-read from /repo's current source on every
// check run (go/packages: syntax + types) and translated into a Lean 4 definition over `Int`
// (Generated/GoFuncs.lean). Hand-written theorems (lean/NeoModel/Proofs/GoFuncs/*.lean) prove that
// each generated definition equals the corresponding function of the hand-written model, for all
// arguments; they are obligations of the properties that use the model function. A change of the
// Go function changes the generated definition, and the equality proof no longer checks.
//
// Supported subset (anything else makes the translation of THAT function fail; the function is
// then omitted from the generated file, which breaks exactly the theorems that mention it):
//   statements : x := e, x = e, x op= e, x++/x--, var x T [= e], if [init;] c {..} [else ..],
//                switch [init;] [tag] {case ..: .. default: ..} (no fallthrough), return, blocks,
//                panic(..), calls of an ignore list (locks, logging); no loops, no goroutines.
//   expressions: integer/boolean constants (evaluated by go/types), + - * / % << >>, comparisons,
//                && || !, conversions between integer types, min/max, cmp.Compare.
//   leaves     : every other expression (field selections, method calls, len(..), index
//                expressions) becomes a PARAMETER of the Lean definition, named after its source
//                text; a leaf of type error becomes a Bool ("is non-nil"), a leaf of any other
//                non-numeric type an Int code that is only compared for equality.
// Extensions (v2):
//   * `&` `|` `^` `&^` (and their assignment forms, and unary ^ at unsigned types) on non-negative operands:
//     band / bor / bxor / bandnot of the generated prelude (Nat bit operations);
//   * several results: the Lean result is the tuple of the translated results (an error result is the outcome
//     label, a result of another type an opaque Int code, 0 for nil);
//   * `a, b := f(..)`, `v, ok := m[k]`, `y, ok := z.(T)`: every left side is a leaf of its own (`f(..)#i`);
//   * writes to non-local locations (fields, elements, pointees; also ++/-- and op=): the location is threaded
//     like a local, its initial value is a parameter, and its FINAL value is a further component of the result
//     at every exit, in order of first textual occurrence;
//   * effect-only call statements (also go / defer of a named function): the callee's source text is appended
//     to a list of effects, the last component of the result; an effect call made ON an object (x.Add(..))
//     makes later leaves that mention x different parameters (suffix @x<n>): the object may have changed;
//   * a comparison of a string with anything is a Bool leaf (strings are not modelled).
// Limits that remain: no loops; calls are opaque leaves (their arguments are not tracked: use Sink to
// observe what is passed); two leaves with the same source text (and the same effect epoch) are the same
// value — a function that changes an object through ASSIGNED calls between two reads of it is outside
// the subset even if it translates.
// Semantics: Go integers are translated to unbounded Int; results of + - * << and conversions at an
// unsigned type are reduced mod 2^w, at int8/int16/int32 wrapped two's-complement; int/int64 are
// NOT wrapped (64-bit signed overflow is outside the translation — recorded in the trusted base).
// Signed / and % are Int.tdiv / Int.tmod (truncation, as in Go); unsigned ones are `/` and `%`.
// A function returning error is translated to the String label of the outcome ("ok", the first
// Err* sentinel named in the return expression, the leaf's name, or "err"). With Sink set, the
// result is `some [integer arguments of the first call of Sink reached]`, `none` if not reached.

import (
	"bytes"
	"fmt"
	"go/ast"
	"go/constant"
	"go/printer"
	"go/token"
	"go/types"
	"regexp"
	"sort"
	"strings"

	"golang.org/x/tools/go/packages"
)

type gfSpec struct {
	Pkg  string // package pattern relative to the repository root (or a full import path)
	Recv string // receiver type name without * and type parameters; "" for a plain function
	Func string
	Lean string // name of the generated definition
	Sink string // optional: source text of a callee; see above
}

var gfSpecs = []gfSpec{
	{Pkg: "./pkg/io", Func: "getVarIntSize", Lean: "getVarIntSize"},
	{Pkg: "./pkg/smartcontract", Func: "GetDefaultHonestNodeCount", Lean: "defaultHonestNodeCount"},
	{Pkg: "./pkg/smartcontract", Func: "GetMajorityHonestNodeCount", Lean: "majorityHonestNodeCount"},
	{Pkg: "./pkg/network/bqueue", Recv: "Queue", Func: "indexToPosition", Lean: "queueIndexToPosition"},
	{Pkg: "./pkg/core/mempool", Recv: "item", Func: "Compare", Lean: "mempoolItemCompare"},
	{Pkg: "./pkg/core", Recv: "Blockchain", Func: "tryRunGC", Lean: "tryRunGC", Sink: "bc.stateRoot.GC"},
	{Pkg: "./pkg/core", Recv: "Blockchain", Func: "verifyHeader", Lean: "verifyHeader"},
	{Pkg: "./pkg/core/transaction", Recv: "Transaction", Func: "FeePerByte", Lean: "txFeePerByte"},
	{Pkg: "./pkg/core", Recv: "Blockchain", Func: "verifyAndPoolTx", Lean: "verifyAndPoolTx"},
		{Pkg: "./pkg/core/native", Recv: "Policy", Func: "setExecFeeFactor", Lean: "policySetExecFeeFactor", Sink: "setIntWithKey"},
	{Pkg: "./pkg/core/native", Recv: "Policy", Func: "setStoragePrice", Lean: "policySetStoragePrice", Sink: "setIntWithKey"},
	{Pkg: "./pkg/core/native", Recv: "Policy", Func: "setFeePerByte", Lean: "policySetFeePerByte", Sink: "setIntWithKey"},
	{Pkg: "./pkg/core/native", Recv: "Policy", Func: "setAttributeFeeGeneric", Lean: "policySetAttributeFee", Sink: "setIntWithKey"},
	{Pkg: "./pkg/core/native", Recv: "Policy", Func: "setMaxValidUntilBlockIncrement", Lean: "policySetMaxVUBIncrement", Sink: "setIntWithKey"},
	{Pkg: "./pkg/core/native", Recv: "Policy", Func: "setMillisecondsPerBlock", Lean: "policySetMillisecondsPerBlock", Sink: "setIntWithKey"},
	{Pkg: "./pkg/core/native", Recv: "Policy", Func: "setMaxTraceableBlocks", Lean: "policySetMaxTraceableBlocks", Sink: "setIntWithKey"},
	{Pkg: "./pkg/io", Recv: "BinReader", Func: "ReadVarUint", Lean: "readVarUint"},
	{Pkg: "./pkg/compiler", Func: "toShortForm", Lean: "compilerToShortForm"},
	{Pkg: "./pkg/compiler", Func: "negateJmp", Lean: "compilerNegateJmp"},
	{Pkg: "github.com/nspcc-dev/dbft", Recv: "Context", Func: "F", Lean: "dbftF"},
	{Pkg: "github.com/nspcc-dev/dbft", Recv: "Context", Func: "M", Lean: "dbftM"},
	{Pkg: "github.com/nspcc-dev/dbft", Recv: "Context", Func: "GetPrimaryIndex", Lean: "dbftPrimaryIndex"},
}

func init() { register("GoFuncs", genGoFuncs) }

var gfIgnoreCall = regexp.MustCompile(`(\.lock\.|\.Lock\(|\.Unlock\(|\.RLock\(|\.RUnlock\(|\.log\.|\.Log\.)`)

type gfKind int

const (
	kInt gfKind = iota
	kProp
	kBool
	kErr
	kOpaque
)

type gfParam struct{ name, typ string }

type gfTr struct {
	p       *packages.Package
	spec    gfSpec
	params  []gfParam
	leaves  map[string]string // source text -> lean name
	locals  map[string]gfKind // Go local name -> kind
	used    map[string]bool   // lean names in use
	errOrigin map[string]string // local error variable -> name of the leaf it was last assigned from
	nonNil    map[string]bool   // local error variable -> known to be non-nil on this path
	fieldKeys []string          // written non-local locations (source text), in order of first occurrence
	fieldTy   map[string]string // their Lean types
	hasEff    bool              // the body has effect-only call statements
	epoch     map[string]int    // identifier -> number of effect-only calls made on it so far (leaves mentioning it are re-read)
	resKinds  []string          // kinds of the declared results ("int" "bool" "err" "opaque")
	resKind string            // "int" "bool" "err" "sink" "unit"
	option  bool              // result wrapped in Option (panic or sink)
}

type gfErr struct{ msg string }

func (t *gfTr) fail(n ast.Node, f string, a ...any) {
	pos := t.p.Fset.Position(n.Pos())
	panic(gfErr{fmt.Sprintf("%s:%d: ", gf_shortFile(pos.Filename), pos.Line) + fmt.Sprintf(f, a...)})
}

func gf_shortFile(f string) string {
	if i := strings.Index(f, "/pkg/"); i >= 0 {
		return f[i+1:]
	}
	if i := strings.Index(f, "/mod/"); i >= 0 {
		return f[i+5:]
	}
	return f
}

func (t *gfTr) text(n ast.Node) string {
	var b bytes.Buffer
	printer.Fprint(&b, t.p.Fset, n)
	return b.String()
}

var gf_leanKeywords = map[string]bool{"local": true, "scoped": true, "universe": true, "export": true, "attribute": true, "noncomputable": true, "omit": true, "include": true, "suffices": true, "obtain": true, "Prop": true, "Sort": true, "this": true, "termination_by": true, "decreasing_by": true, "infixl": true, "infixr": true, "postfix": true, "elab": true, "macro_rules": true, "initialize": true, "opaque": true, "rec": true, "some": true, "none": true, "true": true, "false": true, "not": true, "and": true, "or": true, "end": true, "from": true, "at": true, "then": true, "else": true, "if": true, "let": true, "fun": true, "do": true, "in": true, "have": true, "show": true, "open": true, "import": true, "def": true, "theorem": true, "match": true, "with": true, "where": true, "type": true, "Type": true, "max": true, "min": true, "instance": true, "structure": true, "namespace": true, "section": true, "variable": true, "prefix": true, "infix": true, "notation": true, "set_option": true, "private": true, "protected": true, "mutual": true, "partial": true, "unsafe": true, "macro": true, "syntax": true, "deriving": true, "extends": true, "class": true, "inductive": true, "example": true, "abbrev": true, "axiom": true, "by": true, "using": true, "return": true, "for": true, "unless": true, "try": true, "catch": true, "finally": true, "mut": true, "nomatch": true, "nofun": true, "calc": true, "exact": true, "value": false}

func (t *gfTr) fresh(base string) string {
	re := regexp.MustCompile(`[^A-Za-z0-9]+`)
	s := strings.Trim(re.ReplaceAllString(base, "_"), "_")
	if s == "" || (s[0] >= '0' && s[0] <= '9') {
		s = "v_" + s
	}
	if gf_leanKeywords[s] {
		s += "_"
	}
	n := s
	for i := 2; t.used[n]; i++ {
		n = fmt.Sprintf("%s_%d", s, i)
	}
	t.used[n] = true
	return n
}

func (t *gfTr) typeOf(e ast.Expr) types.Type {
	if tv, ok := t.p.TypesInfo.Types[e]; ok && tv.Type != nil {
		return tv.Type
	}
	if id, ok := e.(*ast.Ident); ok {
		if o := t.p.TypesInfo.ObjectOf(id); o != nil {
			return o.Type()
		}
	}
	return nil
}

// gf_intInfo: (isInteger, unsigned, width) ; width 0 = unbounded treatment (int, int64).
func gf_intInfo(ty types.Type) (bool, bool, int) {
	if ty == nil {
		return false, false, 0
	}
	b, ok := ty.Underlying().(*types.Basic)
	if !ok {
		return false, false, 0
	}
	switch b.Kind() {
	case types.Int, types.Int64, types.UntypedInt, types.UntypedRune:
		return true, false, 0
	case types.Int8:
		return true, false, 8
	case types.Int16:
		return true, false, 16
	case types.Int32:
		return true, false, 32
	case types.Uint8:
		return true, true, 8
	case types.Uint16:
		return true, true, 16
	case types.Uint32:
		return true, true, 32
	case types.Uint, types.Uint64, types.Uintptr:
		return true, true, 64
	}
	return false, false, 0
}

func gf_isBoolT(ty types.Type) bool {
	if ty == nil {
		return false
	}
	b, ok := ty.Underlying().(*types.Basic)
	return ok && (b.Kind() == types.Bool || b.Kind() == types.UntypedBool)
}

func gf_isErrT(ty types.Type) bool {
	return ty != nil && ty.String() == "error"
}

func gf_pow2(w int) string { return new(gf_bigIntS).gf_pow2(w) }

type gf_bigIntS struct{}

func (gf_bigIntS) gf_pow2(w int) string {
	return constant.Shift(constant.MakeInt64(1), token.SHL, uint(w)).ExactString()
}

func gf_wrapAt(ty types.Type, s string) string {
	ok, uns, w := gf_intInfo(ty)
	if !ok || w == 0 {
		return s
	}
	if uns {
		return fmt.Sprintf("((%s) %% %s)", s, gf_pow2(w))
	}
	return fmt.Sprintf("(wrapS %d (%s))", w, s)
}

func (t *gfTr) kindOfType(ty types.Type) gfKind {
	if ok, _, _ := gf_intInfo(ty); ok {
		return kInt
	}
	if gf_isBoolT(ty) {
		return kBool
	}
	if gf_isErrT(ty) {
		return kErr
	}
	return kOpaque
}

// epochKey: a leaf that mentions an object which an effect-only call was made on since (x.Add(..), x.Reset())
// is a different read: its key (and parameter name) carries the number of such calls.
func (t *gfTr) epochKey(src string) string {
	if len(t.epoch) == 0 {
		return src
	}
	var ids []string
	for id := range t.epoch {
		ids = append(ids, id)
	}
	sort.Strings(ids)
	for _, id := range ids {
		if regexp.MustCompile(`(^|[^A-Za-z0-9_.])` + regexp.QuoteMeta(id) + `([^A-Za-z0-9_]|$)`).MatchString(src) {
			src += fmt.Sprintf(" @%s%d", id, t.epoch[id])
		}
	}
	return src
}

func (t *gfTr) leaf(e ast.Expr) (string, gfKind) {
	src := t.text(e)
	k := t.kindOfType(t.typeOf(e))
	if _, isField := t.locals["field:"+src]; isField {
		return t.leaves["local:field:"+src], k
	}
	src = t.epochKey(src)
	if n, ok := t.leaves[src]; ok {
		return n, k
	}
	base := src
	if k == kErr {
		base += "_err"
	}
	n := t.fresh(base)
	t.leaves[src] = n
	ty := "Int"
	if k == kBool || k == kErr {
		ty = "Bool"
	}
	t.params = append(t.params, gfParam{n, ty})
	return n, k
}

func (t *gfTr) toProp(s string, k gfKind) string {
	switch k {
	case kProp:
		return s
	case kBool:
		return "(" + s + " = true)"
	}
	panic(gfErr{"condition is not boolean: " + s})
}

func (t *gfTr) toBool(s string, k gfKind) string {
	switch k {
	case kBool:
		return s
	case kProp:
		return "(decide (" + s + "))"
	}
	panic(gfErr{"value is not boolean: " + s})
}

func gf_isNil(e ast.Expr) bool {
	id, ok := e.(*ast.Ident)
	return ok && id.Name == "nil"
}

func (t *gfTr) expr(e ast.Expr) (string, gfKind) {
	if tv, ok := t.p.TypesInfo.Types[e]; ok && tv.Value != nil {
		switch tv.Value.Kind() {
		case constant.Int:
			s := tv.Value.ExactString()
			if strings.HasPrefix(s, "-") {
				return "(" + s + ")", kInt
			}
			return s, kInt
		case constant.Bool:
			if constant.BoolVal(tv.Value) {
				return "true", kBool
			}
			return "false", kBool
		}
	}
	switch x := e.(type) {
	case *ast.ParenExpr:
		s, k := t.expr(x.X)
		return "(" + s + ")", k
	case *ast.Ident:
		if k, ok := t.locals[x.Name]; ok {
			return t.leaves["local:"+x.Name], k
		}
		if x.Name == "true" || x.Name == "false" {
			return x.Name, kBool
		}
		return t.leaf(e)
	case *ast.UnaryExpr:
		switch x.Op {
		case token.SUB:
			s, k := t.expr(x.X)
			if k != kInt {
				t.fail(e, "negation of non-integer")
			}
			return gf_wrapAt(t.typeOf(e), "(-"+s+")"), kInt
		case token.ADD:
			return t.expr(x.X)
		case token.NOT:
			s, k := t.expr(x.X)
			return "(¬ " + t.toProp(s, k) + ")", kProp
		case token.XOR:
			if ok, uns, w := gf_intInfo(t.typeOf(e)); ok && uns && w > 0 {
				s, k := t.expr(x.X)
				if k == kInt {
					return "(" + gf_pow2(w) + " - 1 - " + s + ")", kInt
				}
			}
			t.fail(e, "unsupported bitwise complement")
		}
		return t.leaf(e)
	case *ast.BinaryExpr:
		return t.binary(x)
	case *ast.CallExpr:
		return t.call(x)
	case *ast.SelectorExpr, *ast.IndexExpr, *ast.StarExpr:
		return t.leaf(e)
	}
	t.fail(e, "unsupported expression %T: %s", e, t.text(e))
	return "", kInt
}

func (t *gfTr) binary(x *ast.BinaryExpr) (string, gfKind) {
	switch x.Op {
	case token.LAND, token.LOR:
		a, ka := t.expr(x.X)
		b, kb := t.expr(x.Y)
		op := " ∧ "
		if x.Op == token.LOR {
			op = " ∨ "
		}
		return "(" + t.toProp(a, ka) + op + t.toProp(b, kb) + ")", kProp
	case token.EQL, token.NEQ:
		neg := x.Op == token.NEQ
		// error vs nil
		if gf_isNil(x.Y) || gf_isNil(x.X) {
			o := x.X
			if gf_isNil(x.X) {
				o = x.Y
			}
			if !gf_isErrT(t.typeOf(o)) {
				// pointer/slice compared with nil: an opaque Bool leaf of its own, named after the comparison
				n, _ := t.leafAs(x, "Bool")
				return "(" + n + " = true)", kProp
			}
			s, _ := t.expr(o)
			if neg {
				return "(" + s + " = true)", kProp
			}
			return "(" + s + " = false)", kProp
		}
		if isStr := func(e ast.Expr) bool {
			b, ok := t.typeOf(e).Underlying().(*types.Basic)
			return ok && b.Info()&types.IsString != 0
		}; t.typeOf(x.X) != nil && isStr(x.X) {
			// strings are not modelled: the comparison itself is a Bool leaf (named in its == form)
			eq := &ast.BinaryExpr{X: x.X, Op: token.EQL, Y: x.Y}
			n, _ := t.leafAs(eq, "Bool")
			if neg {
				return "(" + n + " = false)", kProp
			}
			return "(" + n + " = true)", kProp
		}
		a, ka := t.expr(x.X)
		b, kb := t.expr(x.Y)
		if ka == kProp || ka == kBool {
			a, b = t.toBool(a, ka), t.toBool(b, kb)
		}
		if neg {
			return "(" + a + " ≠ " + b + ")", kProp
		}
		return "(" + a + " = " + b + ")", kProp
	case token.LSS, token.LEQ, token.GTR, token.GEQ:
		a, ka := t.expr(x.X)
		b, kb := t.expr(x.Y)
		if ka != kInt || kb != kInt {
			t.fail(x, "ordering of non-integers")
		}
		op := map[token.Token]string{token.LSS: " < ", token.LEQ: " ≤ ", token.GTR: " > ", token.GEQ: " ≥ "}[x.Op]
		return "(" + a + op + b + ")", kProp
	case token.AND, token.OR, token.XOR, token.AND_NOT:
		a, ka := t.expr(x.X)
		b, kb := t.expr(x.Y)
		if ka != kInt || kb != kInt {
			t.fail(x, "bit operation on non-integers: %s", t.text(x))
		}
		fn := map[token.Token]string{token.AND: "band", token.OR: "bor", token.XOR: "bxor", token.AND_NOT: "bandnot"}[x.Op]
		return "(" + fn + " " + a + " " + b + ")", kInt
	case token.ADD, token.SUB, token.MUL, token.QUO, token.REM, token.SHL, token.SHR:
		a, ka := t.expr(x.X)
		b, kb := t.expr(x.Y)
		if ka != kInt || kb != kInt {
			t.fail(x, "arithmetic on non-integers: %s", t.text(x))
		}
		ty := t.typeOf(x)
		_, uns, _ := gf_intInfo(ty)
		var s string
		switch x.Op {
		case token.ADD:
			s = a + " + " + b
		case token.SUB:
			s = a + " - " + b
		case token.MUL:
			s = a + " * " + b
		case token.QUO:
			if uns {
				return "(" + a + " / " + b + ")", kInt
			}
			return "(Int.tdiv " + a + " " + b + ")", kInt
		case token.REM:
			if uns {
				return "(" + a + " % " + b + ")", kInt
			}
			return "(Int.tmod " + a + " " + b + ")", kInt
		case token.SHL:
			s = a + " * 2 ^ (Int.toNat (" + b + "))"
		case token.SHR:
			return "(" + a + " / 2 ^ (Int.toNat (" + b + ")))", kInt
		}
		return gf_wrapAt(ty, "("+s+")"), kInt
	}
	t.fail(x, "unsupported operator %s", x.Op)
	return "", kInt
}

func (t *gfTr) leafAs(e ast.Expr, ty string) (string, gfKind) {
	src := t.epochKey(t.text(e))
	if n, ok := t.leaves[src]; ok {
		return n, kBool
	}
	n := t.fresh(src)
	t.leaves[src] = n
	t.params = append(t.params, gfParam{n, ty})
	return n, kBool
}

func (t *gfTr) call(x *ast.CallExpr) (string, gfKind) {
	// conversion
	if tv, ok := t.p.TypesInfo.Types[x.Fun]; ok && tv.IsType() && len(x.Args) == 1 {
		if ok, _, _ := gf_intInfo(tv.Type); ok {
			s, k := t.expr(x.Args[0])
			if k != kInt {
				t.fail(x, "conversion of non-integer")
			}
			return gf_wrapAt(tv.Type, s), kInt
		}
		return t.leaf(x)
	}
	ft := t.text(x.Fun)
	switch ft {
	case "min", "max":
		if len(x.Args) == 2 {
			a, ka := t.expr(x.Args[0])
			b, kb := t.expr(x.Args[1])
			if ka == kInt && kb == kInt {
				return "(" + ft + " " + a + " " + b + ")", kInt
			}
		}
	case "cmp.Compare":
		a, ka := t.expr(x.Args[0])
		b, kb := t.expr(x.Args[1])
		if ka == kInt && kb == kInt {
			return "(if " + a + " < " + b + " then (-1) else if " + a + " > " + b + " then 1 else 0)", kInt
		}
	}
	return t.leaf(x)
}

func (t *gfTr) bindLocal(name string, k gfKind) string {
	n := t.fresh(name)
	t.locals[name] = k
	t.leaves["local:"+name] = n
	return n
}

func (t *gfTr) valueFor(e ast.Expr) (string, gfKind) {
	s, k := t.expr(e)
	if k == kProp {
		return t.toBool(s, k), kBool
	}
	return s, k
}

func gf_zeroOf(k gfKind) string {
	if k == kBool || k == kErr {
		return "false"
	}
	return "0"
}

func (t *gfTr) hasSink(n ast.Node) *ast.CallExpr {
	if t.spec.Sink == "" || n == nil {
		return nil
	}
	var found *ast.CallExpr
	ast.Inspect(n, func(m ast.Node) bool {
		if c, ok := m.(*ast.CallExpr); ok && found == nil && t.text(c.Fun) == t.spec.Sink {
			found = c
		}
		return found == nil
	})
	return found
}

func (t *gfTr) sinkResult(c *ast.CallExpr) string {
	var as []string
	for _, a := range c.Args {
		if ok, _, _ := gf_intInfo(t.typeOf(a)); ok {
			s, _ := t.expr(a)
			as = append(as, s)
		}
	}
	return "some [" + strings.Join(as, ", ") + "]"
}

func (t *gfTr) wrapRes(s string) string {
	if t.option {
		return "some (" + s + ")"
	}
	return s
}

// finish assembles the value returned at an exit: the declared results, then the final value of every written
// non-local location (in order of first occurrence), then the list of effect-only calls reached.
func (t *gfTr) finish(vals []string) string {
	comps := append([]string{}, vals...)
	for _, f := range t.fieldKeys {
		comps = append(comps, t.leaves["local:field:"+f])
	}
	if t.hasEff {
		comps = append(comps, t.leaves["local:effects:"])
	}
	var s string
	switch len(comps) {
	case 0:
		s = "()"
	case 1:
		s = comps[0]
	default:
		s = "(" + strings.Join(comps, ", ") + ")"
	}
	if t.option {
		return "some (" + s + ")"
	}
	return s
}

// retValue translates one returned expression according to the kind of the declared result.
func (t *gfTr) retValue(x ast.Node, r ast.Expr, kind string) string {
	switch kind {
	case "int":
		v, k := t.expr(r)
		if k != kInt {
			t.fail(x, "integer result expected")
		}
		return v
	case "bool":
		v, k := t.expr(r)
		return t.toBool(v, k)
	case "opaque":
		if gf_isNil(r) {
			return "0"
		}
		v, _ := t.expr(r)
		return v
	case "err":
		if gf_isNil(r) {
			return `"ok"`
		}
		if m := gf_errName.FindString(t.text(r)); m != "" {
			return `"` + m + `"`
		}
		if id, ok := r.(*ast.Ident); ok {
			if k, isLocal := t.locals[id.Name]; isLocal && k == kErr {
				label := "err"
				if o := t.errOrigin[id.Name]; o != "" {
					label = o
				}
				if t.nonNil[id.Name] {
					return `"` + label + `"`
				}
				// not known to be non-nil here: the label only if the variable holds an error
				return "(if " + t.leaves["local:"+id.Name] + " = true then \"" + label + "\" else \"ok\")"
			}
		}
		if gf_isErrT(t.typeOf(r)) {
			if _, isCall := r.(*ast.CallExpr); isCall && !strings.HasPrefix(t.text(r), "fmt.Errorf") && !strings.HasPrefix(t.text(r), "errors.New") {
				n, _ := t.leaf(r)
				return "(if " + n + " = true then \"" + n + "\" else \"ok\")"
			}
		}
		return `"err"`
	}
	t.fail(x, "unsupported result kind %s", kind)
	return ""
}

var gf_errName = regexp.MustCompile(`\bErr[A-Z]\w*`)

func (t *gfTr) stmts(ss []ast.Stmt) string {
	if len(ss) == 0 {
		switch t.resKind {
		case "sink":
			return "none"
		case "unit":
			return t.finish(nil)
		}
		panic(gfErr{"control reaches the end of a function with a result"})
	}
	s, rest := ss[0], ss[1:]
	if c := t.hasSink(s); c != nil {
		if _, isIf := s.(*ast.IfStmt); !isIf {
			if _, isBlk := s.(*ast.BlockStmt); !isBlk {
				return t.sinkResult(c)
			}
		}
	}
	switch x := s.(type) {
	case *ast.BlockStmt:
		return t.stmts(append(append([]ast.Stmt{}, x.List...), rest...))
	case *ast.EmptyStmt:
		return t.stmts(rest)
	case *ast.ReturnStmt:
		switch t.resKind {
		case "sink":
			return "none"
		case "unit":
			return t.finish(nil)
		}
		if len(x.Results) != len(t.resKinds) {
			t.fail(x, "return with %d results (declared %d)", len(x.Results), len(t.resKinds))
		}
		var vals []string
		for i, r := range x.Results {
			vals = append(vals, t.retValue(x, r, t.resKinds[i]))
		}
		return t.finish(vals)
	case *ast.DeclStmt:
		gd, ok := x.Decl.(*ast.GenDecl)
		if !ok || gd.Tok != token.VAR {
			t.fail(x, "unsupported declaration")
		}
		out := ""
		for _, sp := range gd.Specs {
			vs := sp.(*ast.ValueSpec)
			for i, id := range vs.Names {
				k := t.kindOfType(t.typeOf(id))
				v := gf_zeroOf(k)
				if i < len(vs.Values) {
					v, k = t.valueFor(vs.Values[i])
					if ty := t.typeOf(id); ty != nil && k == kInt {
						v = gf_wrapAt(ty, v)
					}
				}
				if id.Name == "_" {
					continue
				}
				n := t.bindLocal(id.Name, k)
				out += "let " + n + " := " + v + "\n"
			}
		}
		return out + t.stmts(rest)
	case *ast.AssignStmt:
		return t.assign(x, rest)
	case *ast.IncDecStmt:
		cur, _ := t.expr(x.X)
		op := " + 1"
		if x.Tok == token.DEC {
			op = " - 1"
		}
		v := gf_wrapAt(t.typeOf(x.X), "("+cur+op+")")
		return t.bindTarget(x, x.X, v, kInt) + t.stmts(rest)
	case *ast.ExprStmt:
		if c, ok := x.X.(*ast.CallExpr); ok {
			ft := t.text(c.Fun)
			if ft == "panic" {
				if !t.option {
					t.fail(x, "panic in a function translated without Option")
				}
				return "none"
			}
			if gfIgnoreCall.MatchString(ft + "(") {
				return t.stmts(rest)
			}
			return t.effect(ft) + t.stmts(rest)
		}
		t.fail(x, "unsupported statement: %s", t.text(x))
	case *ast.DeferStmt:
		if gfIgnoreCall.MatchString(t.text(x.Call.Fun) + "(") {
			return t.stmts(rest)
		}
		if _, isLit := x.Call.Fun.(*ast.FuncLit); isLit {
			t.fail(x, "deferred function literal")
		}
		return t.effect("defer "+t.text(x.Call.Fun)) + t.stmts(rest)
	case *ast.GoStmt:
		if _, isLit := x.Call.Fun.(*ast.FuncLit); isLit {
			t.fail(x, "go with a function literal")
		}
		return t.effect("go "+t.text(x.Call.Fun)) + t.stmts(rest)
	case *ast.IfStmt:
		pre := ""
		saved := t.snapshot()
		if x.Init != nil {
			pre = t.stmtsInit(x.Init)
		}
		c, k := t.expr(x.Cond)
		cond := t.toProp(c, k)
		afterInit := t.snapshot()
		for _, n := range t.nilFacts(x.Cond, true) {
			t.nonNil[n] = true
		}
		thenS := t.stmts(append(append([]ast.Stmt{}, x.Body.List...), rest...))
		t.restore(afterInit)
		for _, n := range t.nilFacts(x.Cond, false) {
			t.nonNil[n] = true
		}
		var elseS string
		if x.Else != nil {
			elseS = t.stmts(append([]ast.Stmt{x.Else}, rest...))
		} else {
			// variables bound by Init are out of scope after the statement, but harmless to keep
			elseS = t.stmts(rest)
		}
		t.restore(saved)
		return pre + "if " + cond + " then\n" + gf_indent(thenS) + "\nelse\n" + gf_indent(elseS)
	case *ast.SwitchStmt:
		pre := ""
		saved := t.snapshot()
		if x.Init != nil {
			pre = t.stmtsInit(x.Init)
		}
		var tag string
		if x.Tag != nil {
			var k gfKind
			tag, k = t.expr(x.Tag)
			if k != kInt {
				t.fail(x, "switch on a non-integer")
			}
		}
		afterInit := t.snapshot()
		var def []ast.Stmt
		hasDef := false
		type arm struct {
			cond  string
			body  []ast.Stmt
			facts []string
		}
		var arms []arm
		for _, cc := range x.Body.List {
			cl := cc.(*ast.CaseClause)
			for _, b := range cl.Body {
				if br, ok := b.(*ast.BranchStmt); ok && br.Tok == token.FALLTHROUGH {
					t.fail(b, "fallthrough")
				}
			}
			if cl.List == nil {
				def, hasDef = cl.Body, true
				continue
			}
			var cs []string
			for _, ce := range cl.List {
				v, k := t.expr(ce)
				if x.Tag != nil {
					cs = append(cs, "("+tag+" = "+v+")")
				} else {
					cs = append(cs, t.toProp(v, k))
				}
			}
			var facts []string
			if x.Tag == nil && len(cl.List) == 1 {
				facts = t.nilFacts(cl.List[0], true)
			}
			arms = append(arms, arm{strings.Join(cs, " ∨ "), cl.Body, facts})
		}
		_ = hasDef
		out := ""
		closeN := 0
		for _, a := range arms {
			t.restore(afterInit)
			for _, n := range a.facts {
				t.nonNil[n] = true
			}
			body := t.stmts(append(append([]ast.Stmt{}, a.body...), rest...))
			out += "if " + a.cond + " then\n" + gf_indent(body) + "\nelse\n"
			closeN++
		}
		t.restore(afterInit)
		out += gf_indent(t.stmts(append(append([]ast.Stmt{}, def...), rest...)))
		t.restore(saved)
		return pre + out
	}
	t.fail(s, "unsupported statement %T: %s", s, gf_firstLine(t.text(s)))
	return ""
}

// effect records an effect-only call in the list of effects (the function's last result component).
func (t *gfTr) effect(callee string) string {
	if !t.hasEff {
		panic(gfErr{"effect statement not found by the pre-scan: " + callee})
	}
	if i := strings.IndexAny(callee, ".("); i > 0 && !strings.HasPrefix(callee, "go ") && !strings.HasPrefix(callee, "defer ") {
		t.epoch[callee[:i]]++
	}
	cur := t.leaves["local:effects:"]
	n := t.fresh("effects")
	t.leaves["local:effects:"] = n
	return "let " + n + " := " + cur + " ++ [\"" + strings.ReplaceAll(callee, "\"", "'") + "\"]\n"
}

// bindTarget binds a new value to an assignment target: a local variable, or a written non-local location
// (field, element, pointee), which is threaded like a local and reported at every exit.
func (t *gfTr) bindTarget(at ast.Node, lhs ast.Expr, v string, k gfKind) string {
	if id, ok := lhs.(*ast.Ident); ok {
		if id.Name == "_" {
			return ""
		}
		if _, isLocal := t.locals[id.Name]; !isLocal {
			if _, isField := t.locals["field:"+id.Name]; !isField {
				t.fail(at, "assignment to non-local %s", id.Name)
			}
		} else {
			if k == kErr {
				t.setErrOrigin(id.Name, v)
			}
			n := t.bindLocal(id.Name, k)
			return "let " + n + " := " + v + "\n"
		}
	}
	key := "field:" + t.text(lhs)
	if _, ok := t.locals[key]; !ok {
		t.fail(at, "assignment to a non-local not found by the pre-scan: %s", t.text(lhs))
	}
	if k == kProp {
		v = t.toBool(v, k)
	}
	n := t.fresh(t.text(lhs))
	t.leaves["local:"+key] = n
	return "let " + n + " := " + v + "\n"
}

// setErrOrigin records where a local error variable got its value from, and whether that value is known to be
// an error (a constructed error) rather than "an error or nil" (a call result).
func (t *gfTr) setErrOrigin(name, v string) {
	delete(t.nonNil, name)
	switch v {
	case "true":
		t.errOrigin[name] = "err"
		t.nonNil[name] = true
	case "false":
		delete(t.errOrigin, name)
	default:
		t.errOrigin[name] = v
	}
}

// nilFacts lists the local error variables known to be non-nil when cond evaluates to val: `x != nil` (and
// conjunctions of it) for true, `x == nil` (and disjunctions of it) for false.
func (t *gfTr) nilFacts(cond ast.Expr, val bool) []string {
	switch c := cond.(type) {
	case *ast.ParenExpr:
		return t.nilFacts(c.X, val)
	case *ast.BinaryExpr:
		switch {
		case c.Op == token.LAND && val, c.Op == token.LOR && !val:
			return append(t.nilFacts(c.X, val), t.nilFacts(c.Y, val)...)
		case c.Op == token.NEQ && val, c.Op == token.EQL && !val:
			id, ok := c.X.(*ast.Ident)
			other := c.Y
			if !ok {
				id, ok = c.Y.(*ast.Ident)
				other = c.X
			}
			if ok && gf_isNil(other) {
				if k, isLocal := t.locals[id.Name]; isLocal && k == kErr {
					return []string{id.Name}
				}
			}
		}
	}
	return nil
}

func (t *gfTr) assign(x *ast.AssignStmt, rest []ast.Stmt) string {
	return t.assignLets(x) + t.stmts(rest)
}

// assignLets translates an assignment statement to its let-prefix.
func (t *gfTr) assignLets(x *ast.AssignStmt) string {
	// a, b := f()  /  v, ok := m[k]  /  y, ok := z.(T): every left side gets a leaf of its own
	if len(x.Lhs) > 1 && len(x.Rhs) == 1 {
		out := ""
		tup, _ := t.typeOf(x.Rhs[0]).(*types.Tuple)
		for i, l := range x.Lhs {
			id, ok := l.(*ast.Ident)
			if !ok {
				t.fail(x, "multi-assignment to a non-local: %s", t.text(x))
			}
			if id.Name == "_" {
				continue
			}
			var ty types.Type
			if tup != nil && i < tup.Len() {
				ty = tup.At(i).Type()
			} else if o := t.p.TypesInfo.ObjectOf(id); o != nil {
				ty = o.Type()
			}
			k := t.kindOfType(ty)
			src := fmt.Sprintf("%s#%d", t.text(x.Rhs[0]), i)
			name, ok2 := t.leaves[src]
			if !ok2 {
				base := src
				if k == kErr {
					base += "_err"
				}
				name = t.fresh(base)
				t.leaves[src] = name
				lt := "Int"
				if k == kBool || k == kErr {
					lt = "Bool"
				}
				t.params = append(t.params, gfParam{name, lt})
			}
			if x.Tok == token.DEFINE {
				delete(t.locals, id.Name)
				t.locals[id.Name] = k
			}
			out += t.bindTarget(x, id, name, k)
		}
		return out
	}
	if len(x.Lhs) != len(x.Rhs) {
		t.fail(x, "unsupported assignment: %s", t.text(x))
	}
	if len(x.Lhs) > 1 {
		// parallel assignment: all right sides first
		var vs []string
		var ks []gfKind
		for _, r := range x.Rhs {
			v, k := t.valueFor(r)
			vs, ks = append(vs, v), append(ks, k)
		}
		out := ""
		for i, l := range x.Lhs {
			if id, ok := l.(*ast.Ident); ok && x.Tok == token.DEFINE && id.Name != "_" {
				t.locals[id.Name] = ks[i]
			}
			out += t.bindTarget(x, l, vs[i], ks[i])
		}
		return out
	}
	lhs := x.Lhs[0]
	var v string
	var k gfKind
	switch x.Tok {
	case token.DEFINE, token.ASSIGN:
		v, k = "", kInt
		if id, ok := lhs.(*ast.Ident); ok && gf_isErrT(t.typeOf(x.Rhs[0])) {
			// a constructed error assigned to a local variable is an error for sure
			if c, isCall := x.Rhs[0].(*ast.CallExpr); isCall && (t.text(c.Fun) == "errors.New" || t.text(c.Fun) == "fmt.Errorf") {
				if _, isField := t.locals["field:"+id.Name]; !isField {
					v, k = "true", kErr
				}
			}
		}
		if v == "" {
			v, k = t.valueFor(x.Rhs[0])
		}
	default:
		op := map[token.Token]token.Token{token.ADD_ASSIGN: token.ADD, token.SUB_ASSIGN: token.SUB, token.MUL_ASSIGN: token.MUL, token.QUO_ASSIGN: token.QUO, token.REM_ASSIGN: token.REM, token.SHL_ASSIGN: token.SHL, token.SHR_ASSIGN: token.SHR, token.AND_ASSIGN: token.AND, token.OR_ASSIGN: token.OR, token.XOR_ASSIGN: token.XOR, token.AND_NOT_ASSIGN: token.AND_NOT}[x.Tok]
		if op == 0 {
			t.fail(x, "unsupported assignment operator")
		}
		be := &ast.BinaryExpr{X: lhs, Op: op, Y: x.Rhs[0]}
		// types for the synthetic node: result has the type of the target
		t.p.TypesInfo.Types[be] = types.TypeAndValue{Type: t.typeOf(lhs)}
		v, k = t.binary(be)
	}
	if id, ok := lhs.(*ast.Ident); ok {
		if id.Name == "_" {
			return ""
		}
		if x.Tok == token.DEFINE {
			if _, exists := t.locals[id.Name]; exists {
				t.fail(x, "re-declaration of %s in an inner scope is not supported", id.Name)
			}
			t.locals[id.Name] = k
		}
	}
	return t.bindTarget(x, lhs, v, k)
}

func gf_firstLine(s string) string {
	if i := strings.IndexByte(s, '\n'); i >= 0 {
		return s[:i] + " …"
	}
	return s
}

// stmtsInit translates the init statement of an if/switch (a single assignment) to its let-prefix.
func (t *gfTr) stmtsInit(s ast.Stmt) string {
	as, ok := s.(*ast.AssignStmt)
	if ok && as.Tok == token.DEFINE && len(as.Lhs) > 1 && len(as.Rhs) == 1 {
		// x, err := f(): one leaf per left side; the variables may shadow outer ones inside the statement
		for _, l := range as.Lhs {
			if id, isId := l.(*ast.Ident); isId {
				delete(t.locals, id.Name)
			}
		}
		return t.assignLets(as)
	}
	if !ok || len(as.Lhs) != 1 || len(as.Rhs) != 1 || as.Tok != token.DEFINE {
		t.fail(s, "unsupported init statement: %s", t.text(s))
	}
	id := as.Lhs[0].(*ast.Ident)
	v, k := t.valueFor(as.Rhs[0])
	delete(t.locals, id.Name) // an init variable may shadow: it is only visible inside the statement
	if k == kErr {
		t.setErrOrigin(id.Name, v)
	}
	n := t.bindLocal(id.Name, k)
	return "let " + n + " := " + v + "\n"
}

type gfSnap struct {
	locals map[string]gfKind
	names  map[string]string
	epoch  map[string]int
	eff    string
	origin map[string]string
	nonNil map[string]bool
}

func (t *gfTr) snapshot() gfSnap {
	s := gfSnap{map[string]gfKind{}, map[string]string{}, map[string]int{}, t.leaves["local:effects:"], map[string]string{}, map[string]bool{}}
	for k, v := range t.errOrigin {
		s.origin[k] = v
	}
	for k, v := range t.nonNil {
		s.nonNil[k] = v
	}
	for k, v := range t.locals {
		s.locals[k] = v
		s.names[k] = t.leaves["local:"+k]
	}
	for k, v := range t.epoch {
		s.epoch[k] = v
	}
	return s
}

func (t *gfTr) restore(s gfSnap) {
	t.locals = map[string]gfKind{}
	for k, v := range s.locals {
		t.locals[k] = v
		t.leaves["local:"+k] = s.names[k]
	}
	t.epoch = map[string]int{}
	for k, v := range s.epoch {
		t.epoch[k] = v
	}
	t.errOrigin = map[string]string{}
	for k, v := range s.origin {
		t.errOrigin[k] = v
	}
	t.nonNil = map[string]bool{}
	for k, v := range s.nonNil {
		t.nonNil[k] = v
	}
	if s.eff != "" {
		t.leaves["local:effects:"] = s.eff
	}
}

func gf_indent(s string) string {
	ls := strings.Split(s, "\n")
	for i := range ls {
		ls[i] = "  " + ls[i]
	}
	return strings.Join(ls, "\n")
}

func gf_recvName(fd *ast.FuncDecl) string {
	if fd.Recv == nil || len(fd.Recv.List) == 0 {
		return ""
	}
	e := fd.Recv.List[0].Type
	for {
		switch x := e.(type) {
		case *ast.StarExpr:
			e = x.X
			continue
		case *ast.IndexExpr:
			e = x.X
			continue
		case *ast.IndexListExpr:
			e = x.X
			continue
		case *ast.Ident:
			return x.Name
		}
		return ""
	}
}

func gf_containsPanic(n ast.Node) bool {
	f := false
	ast.Inspect(n, func(m ast.Node) bool {
		if c, ok := m.(*ast.CallExpr); ok {
			if id, ok := c.Fun.(*ast.Ident); ok && id.Name == "panic" {
				f = true
			}
		}
		return !f
	})
	return f
}

func gfTranslate(p *packages.Package, fd *ast.FuncDecl, spec gfSpec) (def string, err error) {
	t := &gfTr{p: p, spec: spec, leaves: map[string]string{}, locals: map[string]gfKind{}, used: map[string]bool{"wrapS": true, "band": true, "bor": true, "bxor": true, "bandnot": true}, fieldTy: map[string]string{}, errOrigin: map[string]string{}, nonNil: map[string]bool{}, epoch: map[string]int{}}
	defer func() {
		if r := recover(); r != nil {
			if ge, ok := r.(gfErr); ok {
				err = fmt.Errorf("%s", ge.msg)
				return
			}
			panic(r)
		}
	}()
	for _, f := range fd.Type.Params.List {
		for _, id := range f.Names {
			ty := p.TypesInfo.ObjectOf(id).Type()
			k := t.kindOfType(ty)
			n := t.fresh(id.Name)
			lt := "Int"
			if k == kBool || k == kErr {
				lt = "Bool"
			}
			if k == kOpaque {
				// struct/pointer parameters are only used through their selections (leaves)
				continue
			}
			t.params = append(t.params, gfParam{n, lt})
			t.locals[id.Name] = k
			t.leaves["local:"+id.Name] = n
		}
	}
	// declared results
	var resTys []string
	switch {
	case spec.Sink != "":
		t.resKind, t.option = "sink", true
	case fd.Type.Results == nil || len(fd.Type.Results.List) == 0:
		t.resKind = "unit"
	default:
		for _, f := range fd.Type.Results.List {
			if len(f.Names) > 1 {
				return "", fmt.Errorf("grouped named results")
			}
			rt := p.TypesInfo.TypeOf(f.Type)
			switch t.kindOfType(rt) {
			case kInt:
				t.resKinds, resTys = append(t.resKinds, "int"), append(resTys, "Int")
			case kBool:
				t.resKinds, resTys = append(t.resKinds, "bool"), append(resTys, "Bool")
			case kErr:
				t.resKinds, resTys = append(t.resKinds, "err"), append(resTys, "String")
			default:
				if len(fd.Type.Results.List) == 1 {
					return "", fmt.Errorf("unsupported result type %s", rt)
				}
				// in a tuple a value of another type is an opaque code (0 for nil)
				t.resKinds, resTys = append(t.resKinds, "opaque"), append(resTys, "Int")
			}
		}
		t.resKind = "vals"
	}
	// pre-scan: written non-local locations and effect-only calls
	if spec.Sink == "" {
		localNames := map[string]bool{}
		ast.Inspect(fd.Body, func(n ast.Node) bool {
			switch x := n.(type) {
			case *ast.AssignStmt:
				if x.Tok == token.DEFINE {
					for _, l := range x.Lhs {
						if id, ok := l.(*ast.Ident); ok {
							localNames[id.Name] = true
						}
					}
				}
			case *ast.ValueSpec:
				for _, id := range x.Names {
					localNames[id.Name] = true
				}
			}
			return true
		})
		for _, f := range fd.Type.Params.List {
			for _, id := range f.Names {
				localNames[id.Name] = true
			}
		}
		addField := func(e ast.Expr) {
			if id, ok := e.(*ast.Ident); ok {
				if localNames[id.Name] || id.Name == "_" {
					return
				}
			}
			key := t.text(e)
			if _, dup := t.locals["field:"+key]; dup {
				return
			}
			k := t.kindOfType(t.typeOf(e))
			lt := "Int"
			if k == kBool || k == kErr {
				lt = "Bool"
			}
			n := t.fresh(key)
			t.params = append(t.params, gfParam{n, lt})
			t.locals["field:"+key] = k
			t.leaves["local:field:"+key] = n
			t.fieldKeys = append(t.fieldKeys, key)
			resTys = append(resTys, lt)
		}
		ast.Inspect(fd.Body, func(n ast.Node) bool {
			switch x := n.(type) {
			case *ast.FuncLit:
				return false
			case *ast.AssignStmt:
				if x.Tok != token.DEFINE {
					for _, l := range x.Lhs {
						addField(l)
					}
				}
			case *ast.IncDecStmt:
				addField(x.X)
			case *ast.ExprStmt:
				if c, ok := x.X.(*ast.CallExpr); ok {
					ft := t.text(c.Fun)
					if ft != "panic" && !gfIgnoreCall.MatchString(ft+"(") {
						t.hasEff = true
					}
				}
			case *ast.GoStmt:
				t.hasEff = true
			case *ast.DeferStmt:
				if !gfIgnoreCall.MatchString(t.text(x.Call.Fun) + "(") {
					t.hasEff = true
				}
			}
			return true
		})
	}
	pre := ""
	if t.hasEff {
		n := t.fresh("effects")
		t.leaves["local:effects:"] = n
		pre = "let " + n + " : List String := []\n"
		resTys = append(resTys, "List String")
	}
	var resTy string
	switch {
	case t.resKind == "sink":
		resTy = "Option (List Int)"
	case len(resTys) == 0:
		resTy = "Unit"
	case len(resTys) == 1:
		resTy = resTys[0]
	default:
		resTy = strings.Join(resTys, " × ")
	}
	if spec.Sink == "" && gf_containsPanic(fd.Body) {
		t.option = true
		if strings.Contains(resTy, " ") {
			resTy = "Option (" + resTy + ")"
		} else {
			resTy = "Option " + resTy
		}
	}
	if t.resKind == "vals" && len(t.resKinds) == 0 {
		t.resKind = "unit"
	}
	body := pre + t.stmts(fd.Body.List)
	var ps []string
	for _, q := range t.params {
		ps = append(ps, "("+q.name+" : "+q.typ+")")
	}
	pos := p.Fset.Position(fd.Pos())
	var leafDoc []string
	for src, n := range t.leaves {
		if !strings.HasPrefix(src, "local:") {
			leafDoc = append(leafDoc, n+" = `"+strings.ReplaceAll(src, "\n", " ")+"`")
		}
	}
	sort.Strings(leafDoc)
	doc := fmt.Sprintf("/-- %s:%d `%s`", gf_shortFile(pos.Filename), pos.Line, gf_funcTitle(fd))
	if len(leafDoc) > 0 {
		doc += "; leaves: " + strings.Join(leafDoc, ", ")
	}
	doc += " -/\n"
	return doc + "def " + spec.Lean + " " + strings.Join(ps, " ") + " : " + resTy + " :=\n" + gf_indent(body) + "\n", nil
}

func gf_funcTitle(fd *ast.FuncDecl) string {
	if r := gf_recvName(fd); r != "" {
		return r + "." + fd.Name.Name
	}
	return fd.Name.Name
}

func genGoFuncs(repo string) (string, error) {
	byPkg := map[string][]gfSpec{}
	var order []string
	seenLean := map[string]bool{}
	for _, s := range gfSpecs {
		// several files append to gfSpecs: a definition name is emitted once (first registration wins)
		if seenLean[s.Lean] {
			continue
		}
		seenLean[s.Lean] = true
		if _, ok := byPkg[s.Pkg]; !ok {
			order = append(order, s.Pkg)
		}
		byPkg[s.Pkg] = append(byPkg[s.Pkg], s)
	}
	var out strings.Builder
	out.WriteString("-- Translated from Go source by harness/cmd/extract/gofuncs.go (see its header for the supported subset\n-- and the integer semantics). One definition per listed function; a function that can no longer be\n-- translated is omitted (and every theorem about it stops checking).\n")
	out.WriteString("set_option linter.unusedVariables false\nnamespace NeoModel.Generated.GoFuncs\n\n")
	out.WriteString("/-- two's-complement wrap of an integer to w bits (conversions to int8/int16/int32) -/\ndef wrapS (w : Nat) (x : Int) : Int := (x + 2 ^ (w - 1)) % 2 ^ w - 2 ^ (w - 1)\n\n")
	out.WriteString("/-- bit operations of Go's `&` `|` `^` `&^` on non-negative operands (flags, masks) -/\ndef band (a b : Int) : Int := ((a.toNat &&& b.toNat : Nat) : Int)\ndef bor (a b : Int) : Int := ((a.toNat ||| b.toNat : Nat) : Int)\ndef bxor (a b : Int) : Int := ((a.toNat ^^^ b.toNat : Nat) : Int)\ndef bandnot (a b : Int) : Int := a - band a b\n\n")
	var failed []string
	var okNames []string
	for _, pk := range order {
		cfg := &packages.Config{Mode: packages.NeedName | packages.NeedFiles | packages.NeedSyntax | packages.NeedTypes | packages.NeedTypesInfo | packages.NeedImports | packages.NeedDeps, Dir: repo, BuildFlags: []string{"-tags", "verif"}, Overlay: overlayFromEnv()}
		// a full import path (e.g. the dbft library) is resolved as a dependency of /repo's module
		pkgs, err := packages.Load(cfg, pk)
		if err != nil || len(pkgs) == 0 {
			return "", fmt.Errorf("gofuncs: load %s: %v", pk, err)
		}
		p := pkgs[0]
		for _, spec := range byPkg[pk] {
			var fd *ast.FuncDecl
			for _, f := range p.Syntax {
				for _, d := range f.Decls {
					if x, ok := d.(*ast.FuncDecl); ok && x.Name.Name == spec.Func && gf_recvName(x) == spec.Recv && x.Body != nil {
						fd = x
					}
				}
			}
			if fd == nil {
				failed = append(failed, fmt.Sprintf("%s: function %s.%s not found in %s", spec.Lean, spec.Recv, spec.Func, pk))
				continue
			}
			def, err := gfTranslate(p, fd, spec)
			if err != nil {
				failed = append(failed, fmt.Sprintf("%s: %v", spec.Lean, err))
				continue
			}
			out.WriteString(def + "\n")
			okNames = append(okNames, spec.Lean)
		}
	}
	for _, f := range failed {
		out.WriteString("-- NOT TRANSLATED: " + strings.ReplaceAll(f, "\n", " ") + "\n")
	}
	out.WriteString("\n/-- names of the functions translated in this run -/\ndef translated : List String := [" + gf_quoteJoin(okNames) + "]\n")
	out.WriteString("\nend NeoModel.Generated.GoFuncs\n")
	return out.String(), nil
}

func gf_quoteJoin(xs []string) string {
	var q []string
	for _, x := range xs {
		q = append(q, `"`+x+`"`)
	}
	return strings.Join(q, ", ")
}
