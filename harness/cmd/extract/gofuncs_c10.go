// C10: functions of pkg/core/mpt for the Go->Lean translator of gofuncs.go (v2): the argument guards of
// the Trie API with what happens on each path (which error, whether `t.root` is assigned), the size
// guards of the node decoders and the child reference encoding. lean/NeoModel/Proofs/GoFuncs/C10.lean
// proves the generated definitions equal to the guards / limits of the hand-written model.
package main

func init() {
	gfSpecs = append(gfSpecs,
		gfSpec{Pkg: "./pkg/core/mpt", Recv: "Trie", Func: "Put", Lean: "mptPut"},
		gfSpec{Pkg: "./pkg/core/mpt", Recv: "Trie", Func: "Get", Lean: "mptGet"},
		gfSpec{Pkg: "./pkg/core/mpt", Recv: "Trie", Func: "Delete", Lean: "mptDelete"},
		gfSpec{Pkg: "./pkg/core/mpt", Recv: "Trie", Func: "GetProof", Lean: "mptGetProof"},
		gfSpec{Pkg: "./pkg/core/mpt", Recv: "Trie", Func: "PutBatch", Lean: "mptPutBatch"},
		gfSpec{Pkg: "./pkg/core/mpt", Recv: "ExtensionNode", Func: "decodeBinaryWithDepth", Lean: "mptExtDecode"},
		gfSpec{Pkg: "./pkg/core/mpt", Recv: "LeafNode", Func: "decodeBinaryWithDepth", Lean: "mptLeafDecode"},
		gfSpec{Pkg: "./pkg/core/mpt", Func: "encodeBinaryAsChild", Lean: "mptEncodeAsChild"},
	)
}
