// C06: further functions of the transaction-verification path for the Go->Lean translator of gofuncs.go
// (appended to its spec list; a function outside the supported subset is reported as NOT TRANSLATED and
// only breaks the theorems that mention it).
package main

func init() {
	gfSpecs = append(gfSpecs,
		gfSpec{Pkg: "./pkg/core/dao", Func: "isTraceableBlock", Lean: "isTraceableBlock"},
		gfSpec{Pkg: "./pkg/core", Recv: "Blockchain", Func: "verifyAndPoolOffChainTx", Lean: "verifyAndPoolOffChainTx"},
		gfSpec{Pkg: "./pkg/core/mempool", Func: "checkBalance", Lean: "mempoolCheckBalance"},
	)
}
