// C20: functions of the state-sync module for the Go->Lean translator of gofuncs.go (appended to its spec list; a
// function outside the supported subset is reported as NOT TRANSLATED and only breaks the theorems that mention it).
package main

func init() {
	gfSpecs = append(gfSpecs,
		// the height below the window of blocks the module has to fetch
		gfSpec{Pkg: "./pkg/core/statesync", Recv: "Module", Func: "getLatestSavedBlock", Lean: "statesyncLatestSavedBlock"},
		// the stage getters the harness decodes the stage from
		gfSpec{Pkg: "./pkg/core/statesync", Recv: "Module", Func: "NeedHeaders", Lean: "statesyncNeedHeaders"},
		gfSpec{Pkg: "./pkg/core/statesync", Recv: "Module", Func: "NeedStorageData", Lean: "statesyncNeedStorageData"},
		gfSpec{Pkg: "./pkg/core/statesync", Recv: "Module", Func: "NeedBlocks", Lean: "statesyncNeedBlocks"},
		gfSpec{Pkg: "./pkg/core/statesync", Recv: "Module", Func: "IsActive", Lean: "statesyncIsActive"},
	)
}
