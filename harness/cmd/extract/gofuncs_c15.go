// C15: decision functions of the witness check and of the script-context wiring for the Go->Lean translator
// of gofuncs.go (appended to its spec list; a function outside the supported subset is reported as NOT
// TRANSLATED and only breaks the theorems that mention it). Theorems: lean/NeoModel/Proofs/GoFuncs/C15.lean.
package main

func init() {
	gfSpecs = append(gfSpecs,
		gfSpec{Pkg: "./pkg/vm", Recv: "Context", Func: "IsCalledByEntry", Lean: "c15ContextIsCalledByEntry"},
		gfSpec{Pkg: "./pkg/core/interop/runtime", Recv: "scopeContext", Func: "IsCalledByEntry", Lean: "c15ScopeContextIsCalledByEntry"},
		gfSpec{Pkg: "./pkg/vm", Recv: "VM", Func: "checkInvocationStackSize", Lean: "c15CheckInvocationStackSize"},
		gfSpec{Pkg: "./pkg/crypto/keys", Recv: "PublicKey", Func: "sizeSerialized", Lean: "c15KeySizeSerialized"},
	)
}

// third round (translator v2: bit operations, several results, field writes, Sink)
func init() {
	gfSpecs = append(gfSpecs,
		gfSpec{Pkg: "./pkg/core/interop/runtime", Func: "getContractGroups", Lean: "c15GetContractGroups"},
		gfSpec{Pkg: "./pkg/core/transaction", Func: "ScopesFromByte", Lean: "c15ScopesFromByte"},
		gfSpec{Pkg: "./pkg/smartcontract/callflag", Recv: "CallFlag", Func: "Has", Lean: "c15CallFlagHas"},
		gfSpec{Pkg: "./pkg/core/interop/runtime", Func: "LoadScript", Lean: "c15RuntimeLoadScript", Sink: "ic.VM.LoadDynamicScript"},
		gfSpec{Pkg: "./pkg/core/interop/contract", Func: "callInternal", Lean: "c15CallInternal", Sink: "callExFromNative"},
		gfSpec{Pkg: "./pkg/core/transaction", Recv: "WitnessRule", Func: "DecodeBinary", Lean: "c15RuleDecodeBinary"},
		gfSpec{Pkg: "./pkg/core/transaction", Recv: "Signer", Func: "DecodeBinary", Lean: "c15SignerDecodeBinary"},
	)
}
