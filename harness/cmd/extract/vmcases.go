package main

// VmCases (C13): the dispatch structure of (*VM).execute in pkg/vm/vm.go read with go/ast:
//   - the opcode range handled before the switch (`if op <= opcode.PUSHINT256`),
//   - every `case opcode.X, opcode.Y:` clause of the instruction switch as a group of opcode bytes
//     (identifier -> byte through the constant declarations of pkg/vm/opcode/opcode.go),
//   - the inner `switch op` label groups of grouped clauses,
//   - whether the switch ends in a `default:` that panics,
//   - every ordering comparison (<, <=, >, >=) written in a clause or in one of the helper functions
//     the clauses call (toInt, validateMapKey, checkInvocationStackSize, makeArrayOfType …), as
//     source text, and the values of the limit constants they mention.
// The Lean obligations (Props/C13.lean): every opcode of the opcode table is handled exactly once,
// the specification decodes and dispatches exactly this set, and the comparisons are the ones the
// specification was written against.

import (
	"bytes"
	"fmt"
	"go/ast"
	"go/parser"
	"go/printer"
	"go/token"
	"path/filepath"
	"sort"
	"strconv"
	"strings"

	"github.com/nspcc-dev/neo-go/pkg/vm"
	"github.com/nspcc-dev/neo-go/pkg/vm/stackitem"
)

func init() { register("VmCases", genVmCases) }

func vcParse(fset *token.FileSet, repo, file string) (*ast.File, error) {
	full := filepath.Join(repo, file)
	var src any
	if ov := overlayFromEnv(); ov != nil {
		if c, ok := ov[full]; ok {
			src = c
		}
	}
	return parser.ParseFile(fset, full, src, 0)
}

// opcode identifier -> byte, from the const block of opcode.go
func vcOpcodeConsts(repo string) (map[string]int, error) {
	fset := token.NewFileSet()
	f, err := vcParse(fset, repo, "pkg/vm/opcode/opcode.go")
	if err != nil {
		return nil, err
	}
	m := map[string]int{}
	for _, d := range f.Decls {
		gd, ok := d.(*ast.GenDecl)
		if !ok || gd.Tok != token.CONST {
			continue
		}
		for _, sp := range gd.Specs {
			vs := sp.(*ast.ValueSpec)
			for i, n := range vs.Names {
				if i < len(vs.Values) {
					if bl, ok := vs.Values[i].(*ast.BasicLit); ok && bl.Kind == token.INT {
						v, err := strconv.ParseInt(bl.Value, 0, 64)
						if err == nil {
							m[n.Name] = int(v)
						}
					}
				}
			}
		}
	}
	if len(m) < 100 {
		return nil, fmt.Errorf("opcode.go: only %d opcode constants found", len(m))
	}
	return m, nil
}

func vcText(fset *token.FileSet, n ast.Node) string {
	var b bytes.Buffer
	_ = printer.Fprint(&b, fset, n)
	return strings.Join(strings.Fields(b.String()), " ")
}

// labels of a case clause: opcode.X selectors
func vcLabels(cc *ast.CaseClause, consts map[string]int) ([]int, []string, error) {
	var bs []int
	var ns []string
	for _, e := range cc.List {
		se, ok := e.(*ast.SelectorExpr)
		if !ok {
			return nil, nil, fmt.Errorf("case label is not opcode.X")
		}
		if x, ok := se.X.(*ast.Ident); !ok || x.Name != "opcode" {
			return nil, nil, fmt.Errorf("case label is not opcode.X")
		}
		v, ok := consts[se.Sel.Name]
		if !ok {
			return nil, nil, fmt.Errorf("unknown opcode constant %s", se.Sel.Name)
		}
		bs = append(bs, v)
		ns = append(ns, se.Sel.Name)
	}
	return bs, ns, nil
}

func vcIsOrder(t token.Token) bool {
	return t == token.LSS || t == token.LEQ || t == token.GTR || t == token.GEQ
}

// ordering comparisons in a subtree, in source order
func vcComparisons(fset *token.FileSet, n ast.Node) []string {
	var out []string
	ast.Inspect(n, func(x ast.Node) bool {
		if be, ok := x.(*ast.BinaryExpr); ok && vcIsOrder(be.Op) {
			out = append(out, vcText(fset, be))
		}
		return true
	})
	return out
}

func vcLeanStr(s string) string { return strconv.Quote(s) }

func genVmCases(repo string) (string, error) {
	consts, err := vcOpcodeConsts(repo)
	if err != nil {
		return "", err
	}
	fset := token.NewFileSet()
	f, err := vcParse(fset, repo, "pkg/vm/vm.go")
	if err != nil {
		return "", err
	}
	funcs := map[string]*ast.FuncDecl{}
	for _, d := range f.Decls {
		if fd, ok := d.(*ast.FuncDecl); ok {
			funcs[fd.Name.Name] = fd
		}
	}
	ex := funcs["execute"]
	if ex == nil {
		return "", fmt.Errorf("vm.go: execute not found")
	}
	// the `if op <= opcode.X { ... return }` before the switch, and the switch on op
	preUpTo := -1
	var sw *ast.SwitchStmt
	for _, st := range ex.Body.List {
		switch s := st.(type) {
		case *ast.IfStmt:
			if be, ok := s.Cond.(*ast.BinaryExpr); ok && be.Op == token.LEQ {
				if id, ok := be.X.(*ast.Ident); ok && id.Name == "op" {
					if se, ok := be.Y.(*ast.SelectorExpr); ok {
						if v, ok := consts[se.Sel.Name]; ok {
							preUpTo = v
						}
					}
				}
			}
		case *ast.SwitchStmt:
			if id, ok := s.Tag.(*ast.Ident); ok && id.Name == "op" {
				sw = s
			}
		}
	}
	if sw == nil || preUpTo < 0 {
		return "", fmt.Errorf("vm.go: execute: instruction switch / PUSHINT prefix not found")
	}
	var b strings.Builder
	b.WriteString("namespace NeoModel.Generated.VmCases\n\n")
	fmt.Fprintf(&b, "/-- `if op <= opcode.PUSHINT256`: opcode bytes 0 .. this value are handled before the switch -/\ndef pushIntUpTo : Nat := %d\n\n", preUpTo)
	type grp struct {
		bytes []int
		names []string
		inner [][]int
		cmps  []string
	}
	var groups []grp
	hasDefault, defaultPanics := false, false
	for _, c := range sw.Body.List {
		cc := c.(*ast.CaseClause)
		if cc.List == nil {
			hasDefault = true
			for _, s := range cc.Body {
				if es, ok := s.(*ast.ExprStmt); ok {
					if ce, ok := es.X.(*ast.CallExpr); ok {
						if id, ok := ce.Fun.(*ast.Ident); ok && id.Name == "panic" {
							defaultPanics = true
						}
					}
				}
			}
			continue
		}
		bs, ns, err := vcLabels(cc, consts)
		if err != nil {
			return "", err
		}
		g := grp{bytes: bs, names: ns}
		for _, s := range cc.Body {
			g.cmps = append(g.cmps, vcComparisons(fset, s)...)
			ast.Inspect(s, func(x ast.Node) bool {
				if is, ok := x.(*ast.SwitchStmt); ok {
					if id, ok := is.Tag.(*ast.Ident); ok && id.Name == "op" {
						for _, ic := range is.Body.List {
							icc := ic.(*ast.CaseClause)
							if icc.List == nil {
								continue
							}
							ib, _, err := vcLabels(icc, consts)
							if err == nil {
								g.inner = append(g.inner, ib)
							}
						}
					}
				}
				return true
			})
		}
		groups = append(groups, g)
	}
	b.WriteString("/-- the `case` clauses of the instruction switch of execute, in source order: opcode bytes of the labels -/\ndef groups : List (List Nat) := [\n")
	for i, g := range groups {
		var xs []string
		for _, v := range g.bytes {
			xs = append(xs, fmt.Sprintf("0x%02x", v))
		}
		sep := ","
		if i == len(groups)-1 {
			sep = ""
		}
		fmt.Fprintf(&b, "  [%s]%s  -- %s\n", strings.Join(xs, ", "), sep, strings.Join(g.names, " "))
	}
	b.WriteString("]\n\n")
	b.WriteString("/-- inner `switch op` labels of a grouped clause: (first byte of the clause, label groups) -/\ndef inner : List (Nat × List (List Nat)) := [\n")
	first := true
	for _, g := range groups {
		if len(g.inner) == 0 {
			continue
		}
		var gs []string
		for _, ib := range g.inner {
			var xs []string
			for _, v := range ib {
				xs = append(xs, fmt.Sprintf("0x%02x", v))
			}
			gs = append(gs, "["+strings.Join(xs, ", ")+"]")
		}
		if !first {
			b.WriteString(",\n")
		}
		first = false
		fmt.Fprintf(&b, "  (0x%02x, [%s])", g.bytes[0], strings.Join(gs, ", "))
	}
	b.WriteString("\n]\n\n")
	fmt.Fprintf(&b, "def hasDefault : Bool := %v\ndef defaultPanics : Bool := %v\n\n", hasDefault, defaultPanics)
	// comparisons
	b.WriteString("/-- every ordering comparison written in a clause: (name of the first label, source text) in source order -/\ndef comparisons : List (String × String) := [\n")
	var lines []string
	for _, g := range groups {
		for _, c := range g.cmps {
			lines = append(lines, fmt.Sprintf("  (%s, %s)", vcLeanStr(g.names[0]), vcLeanStr(c)))
		}
	}
	helpers := []string{"toInt", "validateMapKey", "checkInvocationStackSize", "makeArrayOfType", "cloneIfStruct", "getJumpOffset", "call", "handleException", "cpValues"}
	for _, h := range helpers {
		fd := funcs[h]
		if fd == nil {
			return "", fmt.Errorf("vm.go: helper %s not found", h)
		}
		for _, c := range vcComparisons(fset, fd.Body) {
			lines = append(lines, fmt.Sprintf("  (%s, %s)", vcLeanStr("func "+h), vcLeanStr(c)))
		}
	}
	b.WriteString(strings.Join(lines, ",\n"))
	b.WriteString("\n]\n\n")
	// the limit constants the comparisons mention
	maxSHL := -1
	for _, d := range f.Decls {
		gd, ok := d.(*ast.GenDecl)
		if !ok || gd.Tok != token.CONST {
			continue
		}
		for _, sp := range gd.Specs {
			vs := sp.(*ast.ValueSpec)
			for i, n := range vs.Names {
				if n.Name == "maxSHLArg" && i < len(vs.Values) {
					switch vcText(fset, vs.Values[i]) {
					case "stackitem.MaxBigIntegerSizeBits":
						maxSHL = stackitem.MaxBigIntegerSizeBits
					default:
						if v, err := strconv.Atoi(vcText(fset, vs.Values[i])); err == nil {
							maxSHL = v
						}
					}
				}
			}
		}
	}
	if maxSHL < 0 {
		return "", fmt.Errorf("vm.go: maxSHLArg not resolved")
	}
	lim := map[string]int{
		"maxSHLArg":                       maxSHL,
		"MaxStackSize":                    vm.MaxStackSize,
		"MaxInvocationStackSize":          vm.MaxInvocationStackSize,
		"MaxTryNestingDepth":              vm.MaxTryNestingDepth,
		"stackitem.MaxSize":               stackitem.MaxSize,
		"stackitem.MaxKeySize":            stackitem.MaxKeySize,
		"stackitem.MaxBigIntegerSizeBits": stackitem.MaxBigIntegerSizeBits,
	}
	var ks []string
	for k := range lim {
		ks = append(ks, k)
	}
	sort.Strings(ks)
	b.WriteString("/-- values of the limit constants (maxSHLArg resolved through its declaration in vm.go) -/\ndef limitValues : List (String × Nat) := [\n")
	for i, k := range ks {
		sep := ","
		if i == len(ks)-1 {
			sep = ""
		}
		fmt.Fprintf(&b, "  (%s, %d)%s\n", vcLeanStr(k), lim[k], sep)
	}
	b.WriteString("]\n\nend NeoModel.Generated.VmCases\n")
	return b.String(), nil
}
