package main

import (
	"crypto/elliptic"
	"encoding/binary"
	"fmt"
	"go/ast"
	"go/parser"
	"go/token"
	"math/big"
	"os"
	"path/filepath"
	"strconv"
	"strings"

	"github.com/nspcc-dev/neo-go/pkg/core/interop/interopnames"
	"github.com/nspcc-dev/neo-go/pkg/crypto/keys"
	"github.com/nspcc-dev/neo-go/pkg/encoding/address"
	"github.com/nspcc-dev/neo-go/pkg/encoding/bigint"
	"github.com/nspcc-dev/neo-go/pkg/smartcontract/scparser"
	"github.com/nspcc-dev/neo-go/pkg/vm/opcode"
	"github.com/nspcc-dev/neo-go/pkg/vm/stackitem"
)

// CodecConsts (C18): the literal constants behind the byte layouts modelled in
// lean/NeoModel/Model/Codec: address version byte, WIF version, NEP-2 header/flag/length
// (go/ast over pkg/crypto/keys/nep2.go: unexported), signature and coordinate lengths, the interop
// ids and opcode bytes of the standard contracts, MaxMultisigKeys, the integer-size limits, the
// Fixed8 scale (go/ast over pkg/encoding/fixedn/fixed8.go) and the parameters of the two curves of
// pkg/crypto/keys (from the linked curve objects) with the coefficient `a` chosen by
// decodeCompressedY (go/ast: the two `a = big…` assignments of its type switch).
func init() { register("CodecConsts", genCodecConsts) }

func ccSrc(repo, rel string) ([]byte, error) {
	p := filepath.Join(repo, rel)
	if ov := overlayFromEnv(); ov != nil {
		if c, ok := ov[p]; ok {
			return c, nil
		}
	}
	return os.ReadFile(p)
}

func intLit(e ast.Expr) (int64, bool) {
	bl, ok := e.(*ast.BasicLit)
	if !ok || bl.Kind != token.INT {
		return 0, false
	}
	v, err := strconv.ParseInt(strings.ReplaceAll(bl.Value, "_", ""), 0, 64)
	return v, err == nil
}

func genCodecConsts(repo string) (string, error) {
	var b strings.Builder
	b.WriteString("namespace NeoModel.Generated.CodecConsts\n")
	w := func(name string, v any) { fmt.Fprintf(&b, "def %s : Nat := %v\n", name, v) }
	w("addressPrefix", address.Prefix)
	w("neo3Prefix", address.NEO3Prefix)
	w("wifVersion", keys.WIFVersion)
	w("signatureLen", keys.SignatureLen)
	w("maxMultisigKeys", scparser.MaxMultisigKeys)
	w("bigintMaxBytesLen", bigint.MaxBytesLen)
	w("maxBigIntegerSizeBits", stackitem.MaxBigIntegerSizeBits)
	le := func(id uint32) string {
		var t [4]byte
		binary.LittleEndian.PutUint32(t[:], id)
		return fmt.Sprintf("[%d, %d, %d, %d]", t[0], t[1], t[2], t[3])
	}
	fmt.Fprintf(&b, "def checkMultisigID : List UInt8 := %s\n", le(interopnames.ToID([]byte(interopnames.SystemCryptoCheckMultisig))))
	fmt.Fprintf(&b, "def checkSigID : List UInt8 := %s\n", le(interopnames.ToID([]byte(interopnames.SystemCryptoCheckSig))))
	for _, o := range []struct {
		n string
		v opcode.Opcode
	}{{"opPUSHINT8", opcode.PUSHINT8}, {"opPUSHINT256", opcode.PUSHINT256}, {"opPUSHDATA1", opcode.PUSHDATA1},
		{"opPUSHDATA2", opcode.PUSHDATA2}, {"opPUSHDATA4", opcode.PUSHDATA4}, {"opPUSHM1", opcode.PUSHM1},
		{"opPUSH0", opcode.PUSH0}, {"opPUSH16", opcode.PUSH16}, {"opRET", opcode.RET}, {"opSYSCALL", opcode.SYSCALL}} {
		w(o.n, int(o.v))
	}

	// NEP-2 (unexported): nepFlag, keyLen, nepHeader, and the literals of validateNEP2Format.
	src, err := ccSrc(repo, "pkg/crypto/keys/nep2.go")
	if err != nil {
		return "", err
	}
	fs := token.NewFileSet()
	f, err := parser.ParseFile(fs, "nep2.go", src, 0)
	if err != nil {
		return "", err
	}
	consts := map[string]int64{}
	var header []int64
	var validate []int64
	for _, d := range f.Decls {
		switch x := d.(type) {
		case *ast.GenDecl:
			for _, s := range x.Specs {
				vs, ok := s.(*ast.ValueSpec)
				if !ok {
					continue
				}
				for i, n := range vs.Names {
					if i >= len(vs.Values) {
						continue
					}
					if v, ok := intLit(vs.Values[i]); ok {
						consts[n.Name] = v
					}
					if cl, ok := vs.Values[i].(*ast.CompositeLit); ok && n.Name == "nepHeader" {
						for _, el := range cl.Elts {
							if v, ok := intLit(el); ok {
								header = append(header, v)
							}
						}
					}
				}
			}
		case *ast.FuncDecl:
			if x.Name.Name != "validateNEP2Format" {
				continue
			}
			// every `X != <int literal>` comparison in order: len(b) != 39, b[0] != 0x01, ...
			ast.Inspect(x.Body, func(n ast.Node) bool {
				if be, ok := n.(*ast.BinaryExpr); ok && be.Op == token.NEQ {
					if v, ok := intLit(be.Y); ok {
						validate = append(validate, v)
					}
				}
				return true
			})
		}
	}
	if len(header) != 2 || len(validate) != 4 {
		return "", fmt.Errorf("nep2.go: unexpected shape (header %v, validate %v)", header, validate)
	}
	for _, n := range []string{"nepFlag", "keyLen"} {
		v, ok := consts[n]
		if !ok {
			return "", fmt.Errorf("nep2.go: constant %s not found", n)
		}
		w("nep2_"+n, v)
	}
	fmt.Fprintf(&b, "def nep2Header : List UInt8 := [%d, %d]\n", header[0], header[1])
	fmt.Fprintf(&b, "/-- validateNEP2Format: required length, b[0], b[1], b[2]. -/\ndef nep2Validate : List Nat := [%d, %d, %d, %d]\n", validate[0], validate[1], validate[2], validate[3])

	// Fixed8 scale.
	src, err = ccSrc(repo, "pkg/encoding/fixedn/fixed8.go")
	if err != nil {
		return "", err
	}
	f, err = parser.ParseFile(fs, "fixed8.go", src, 0)
	if err != nil {
		return "", err
	}
	f8 := map[string]int64{}
	for _, d := range f.Decls {
		gd, ok := d.(*ast.GenDecl)
		if !ok || gd.Tok != token.CONST {
			continue
		}
		for _, s := range gd.Specs {
			vs := s.(*ast.ValueSpec)
			for i, n := range vs.Names {
				if i < len(vs.Values) {
					if v, ok := intLit(vs.Values[i]); ok {
						f8[n.Name] = v
					}
				}
			}
		}
	}
	for _, n := range []string{"precision", "decimals"} {
		v, ok := f8[n]
		if !ok {
			return "", fmt.Errorf("fixed8.go: constant %s not found", n)
		}
		w("fixed8_"+n, v)
	}

	// fixedn: size of the precomputed power-of-ten table
	src, err = ccSrc(repo, "pkg/encoding/fixedn/decimal.go")
	if err != nil {
		return "", err
	}
	f, err = parser.ParseFile(fs, "decimal.go", src, 0)
	if err != nil {
		return "", err
	}
	mapFound := false
	for _, d := range f.Decls {
		gd, ok := d.(*ast.GenDecl)
		if !ok || gd.Tok != token.CONST {
			continue
		}
		for _, s := range gd.Specs {
			vs := s.(*ast.ValueSpec)
			for i, n := range vs.Names {
				if n.Name == "maxAllowedPrecision" && i < len(vs.Values) {
					if v, ok := intLit(vs.Values[i]); ok {
						w("fixedn_maxAllowedPrecision", v)
						mapFound = true
					}
				}
			}
		}
	}
	if !mapFound {
		return "", fmt.Errorf("decimal.go: maxAllowedPrecision not found")
	}

	// curves
	k1, err := keys.NewSecp256k1PrivateKey()
	if err != nil {
		return "", err
	}
	for _, c := range []struct {
		n string
		p *elliptic.CurveParams
	}{{"r1", elliptic.P256().Params()}, {"k1", k1.Curve.Params()}} {
		w(c.n+"P", c.p.P.String())
		w(c.n+"B", c.p.B.String())
		w(c.n+"N", c.p.N.String())
		w(c.n+"Gx", c.p.Gx.String())
		w(c.n+"Gy", c.p.Gy.String())
	}
	// the coefficient a of decodeCompressedY: `case *secp256k1.KoblitzCurve: a = big0; default: a = big3`
	src, err = ccSrc(repo, "pkg/crypto/keys/publickey.go")
	if err != nil {
		return "", err
	}
	f, err = parser.ParseFile(fs, "publickey.go", src, 0)
	if err != nil {
		return "", err
	}
	bigVars := map[string]int64{}
	for _, d := range f.Decls {
		gd, ok := d.(*ast.GenDecl)
		if !ok || gd.Tok != token.VAR {
			continue
		}
		for _, s := range gd.Specs {
			vs := s.(*ast.ValueSpec)
			for i, n := range vs.Names {
				if i >= len(vs.Values) {
					continue
				}
				if call, ok := vs.Values[i].(*ast.CallExpr); ok && len(call.Args) == 1 {
					if se, ok := call.Fun.(*ast.SelectorExpr); ok && se.Sel.Name == "NewInt" {
						if v, ok := intLit(call.Args[0]); ok {
							bigVars[n.Name] = v
						}
					}
				}
			}
		}
	}
	var aK1, aDef int64 = -1, -1
	var prefixes []int64
	for _, d := range f.Decls {
		fd, ok := d.(*ast.FuncDecl)
		if !ok {
			continue
		}
		switch fd.Name.Name {
		case "decodeCompressedY":
			ast.Inspect(fd.Body, func(n ast.Node) bool {
				cc, ok := n.(*ast.CaseClause)
				if !ok {
					return true
				}
				for _, st := range cc.Body {
					as, ok := st.(*ast.AssignStmt)
					if !ok || len(as.Lhs) != 1 || len(as.Rhs) != 1 {
						continue
					}
					if l, ok := as.Lhs[0].(*ast.Ident); !ok || l.Name != "a" {
						continue
					}
					r, ok := as.Rhs[0].(*ast.Ident)
					if !ok {
						continue
					}
					v, ok := bigVars[r.Name]
					if !ok {
						continue
					}
					if cc.List == nil {
						aDef = v
					} else {
						aK1 = v
					}
				}
				return true
			})
		case "DecodeBinary":
			// the case labels of `switch prefix`
			ast.Inspect(fd.Body, func(n ast.Node) bool {
				cc, ok := n.(*ast.CaseClause)
				if !ok {
					return true
				}
				for _, e := range cc.List {
					if v, ok := intLit(e); ok {
						prefixes = append(prefixes, v)
					}
				}
				return true
			})
		}
	}
	if aK1 < 0 || aDef < 0 {
		return "", fmt.Errorf("publickey.go: decodeCompressedY type switch not recognised")
	}
	w("k1A", aK1)
	w("r1A", aDef)
	fmt.Fprintf(&b, "/-- case labels of `switch prefix` in DecodeBinary, in order. -/\ndef pubkeyPrefixes : List Nat := %s\n", natList(prefixes))
	if cl, ok := f8["coordLen"]; ok {
		w("coordLen", cl)
	} else {
		// coordLen lives in publickey.go
		for _, d := range f.Decls {
			gd, ok := d.(*ast.GenDecl)
			if !ok || gd.Tok != token.CONST {
				continue
			}
			for _, s := range gd.Specs {
				vs := s.(*ast.ValueSpec)
				for i, n := range vs.Names {
					if n.Name == "coordLen" && i < len(vs.Values) {
						if v, ok := intLit(vs.Values[i]); ok {
							w("coordLen", v)
						}
					}
				}
			}
		}
	}
	b.WriteString("end NeoModel.Generated.CodecConsts\n")
	_ = big.NewInt
	return b.String(), nil
}

func natList(v []int64) string {
	s := make([]string, len(v))
	for i, x := range v {
		s[i] = strconv.FormatInt(x, 10)
	}
	return "[" + strings.Join(s, ", ") + "]"
}
