// C03: functions of the historic-read / state-root / storage-key path for the Go->Lean translator of
// gofuncs.go (appended to its spec list; a function outside the supported subset is reported as NOT
// TRANSLATED and only breaks the theorems that mention it).
package main

func init() {
	gfSpecs = append(gfSpecs,
		gfSpec{Pkg: "./pkg/core/stateroot", Recv: "Module", Func: "GetStateRoot", Lean: "moduleGetStateRoot", Sink: "makeStateRootKey"},
		gfSpec{Pkg: "./pkg/core/stateroot", Recv: "Module", Func: "addLocalStateRoot", Lean: "moduleAddLocalStateRoot", Sink: "makeStateRootKey"},
		gfSpec{Pkg: "./pkg/services/rpcsrv", Func: "makeStorageKey", Lean: "rpcStorageKeyID", Sink: "binary.LittleEndian.PutUint32"},
		// which height's state root a historic invocation is bound to
		gfSpec{Pkg: "./pkg/core", Recv: "Blockchain", Func: "GetTestHistoricVM", Lean: "historicVMStateHeight", Sink: "bc.stateRoot.GetStateRoot"},
		gfSpec{Pkg: "./pkg/core", Recv: "Blockchain", Func: "GetTestHistoricVM", Lean: "historicVM"},
		gfSpec{Pkg: "./pkg/services/rpcsrv", Recv: "Server", Func: "getHistoricParams", Lean: "rpcHistoricParams"},
		gfSpec{Pkg: "./pkg/core/stateroot", Recv: "Module", Func: "UpdateCurrentLocal", Lean: "moduleUpdateCurrentLocal"},
		gfSpec{Pkg: "./pkg/core/stateroot", Recv: "Module", Func: "JumpToState", Lean: "moduleJumpToState"},
		gfSpec{Pkg: "./pkg/core/stateroot", Recv: "Module", Func: "Init", Lean: "moduleInit"},
		gfSpec{Pkg: "./pkg/core/mpt", Recv: "TrieStore", Func: "Get", Lean: "trieStoreGet"},
		gfSpec{Pkg: "./pkg/core/mpt", Recv: "Trie", Func: "Get", Lean: "trieGet"},
	)
}
