// C03: functions of the state-root / storage-key path for the Go->Lean translator of gofuncs.go (appended
// to its spec list; a function outside the supported subset is reported as NOT TRANSLATED and only breaks
// the theorems that mention it). Each is read through a Sink: the integer that reaches the key encoder.
package main

func init() {
	gfSpecs = append(gfSpecs,
		gfSpec{Pkg: "./pkg/core/stateroot", Recv: "Module", Func: "GetStateRoot", Lean: "moduleGetStateRoot", Sink: "makeStateRootKey"},
		gfSpec{Pkg: "./pkg/core/stateroot", Recv: "Module", Func: "addLocalStateRoot", Lean: "moduleAddLocalStateRoot", Sink: "makeStateRootKey"},
		gfSpec{Pkg: "./pkg/services/rpcsrv", Func: "makeStorageKey", Lean: "rpcStorageKeyID", Sink: "binary.LittleEndian.PutUint32"},
	)
}
