package main

// Generators for the committee setters whose guards the Lean model predicts (Model/Ledger/Guarded.lean): values at and
// around every boundary the code checks (argument conversion, range, cross-setting checks against the cached values),
// calls without the committee witness, and follow-up calls in the same block whose outcome depends on what the
// previous transaction of that block wrote into its layer's cache.

import (
	"fmt"
	"math/big"
	"sort"
	"strings"

	"github.com/nspcc-dev/neo-go/pkg/core/native/nativehashes"
	"github.com/nspcc-dev/neo-go/pkg/core/native/noderoles"
	"github.com/nspcc-dev/neo-go/pkg/core/state"
	"github.com/nspcc-dev/neo-go/pkg/core/transaction"
	"github.com/nspcc-dev/neo-go/pkg/io"
	"github.com/nspcc-dev/neo-go/pkg/smartcontract/callflag"
	"github.com/nspcc-dev/neo-go/pkg/util"
	"github.com/nspcc-dev/neo-go/pkg/vm/emit"
	"github.com/nspcc-dev/neo-go/pkg/vm/opcode"
)

// pickI64 picks one of the given values.
func (w *world) pickI64(vs ...int64) int64 { return vs[w.r.Intn(len(vs))] }

// between returns a value in [lo, hi] (lo if the interval is empty).
func (w *world) between(lo, hi int64) int64 {
	if hi <= lo {
		return lo
	}
	return lo + int64(w.r.U64()%uint64(hi-lo+1))
}

func (w *world) badWitness() bool { return w.r.Chance(1, 10) }

// guardedSet builds one guarded setter call.
func (w *world) guardedSet(kind string, contract util.Uint160, method string, bad bool, args ...any) *op {
	desc := make([]string, len(args))
	for i, a := range args {
		switch v := a.(type) {
		case *big.Int:
			desc[i] = v.String()
		default:
			desc[i] = fmt.Sprint(a)
		}
	}
	return w.committeeOp(kind, contract, method, strings.Join(desc, " "), true, bad, args...)
}

// opSetAttributeFee: valid and invalid attribute types, fees around maxAttributeFee and the uint32 range.
func (w *world) opSetAttributeFee() *op {
	r := w.r
	t := int64(attrTypes[r.Intn(len(attrTypes))])
	if r.Chance(1, 6) {
		t = w.pickI64(0, 2, 0x10, 0x23, 0xe0, 0xff, 0x100, -1)
	}
	var v any = int64(r.Intn(5_0000_0000))
	if r.Chance(1, 3) {
		v = w.pickI64(0, 10_0000_0000, 10_0000_0001, 1<<32-1, 1<<32, -1, 1)
	}
	return w.guardedSet("policy.setAttributeFee", nativehashes.PolicyContract, "setAttributeFee", w.badWitness(), t, v)
}

// opSetMaxVUB: around the cached MaxTraceableBlocks (must stay below it) and the absolute range.
func (w *world) opSetMaxVUB(mtbOverride int64) *op {
	mtb := int64(w.bc().GetMaxTraceableBlocks())
	if mtbOverride > 0 {
		mtb = mtbOverride
	}
	v := w.between(2, mtb-1)
	if w.r.Chance(1, 2) {
		v = w.pickI64(mtb-1, mtb, mtb+1, 1, 0, -1, 86400, 86401, 1<<32)
	}
	return w.guardedSet("policy.setMaxValidUntilBlockIncrement", nativehashes.PolicyContract, "setMaxValidUntilBlockIncrement", w.badWitness(), v)
}

// opSetMaxTraceable: must not grow and must stay above the cached MaxValidUntilBlockIncrement.
func (w *world) opSetMaxTraceable() (*op, int64) {
	mtb := int64(w.bc().GetMaxTraceableBlocks())
	vub := int64(w.bc().GetMaxValidUntilBlockIncrement())
	v := w.between(vub+1, mtb)
	if w.r.Chance(1, 2) {
		v = w.pickI64(mtb, mtb+1, mtb-1, vub, vub+1, 0, -1, 2102400, 2102401)
	}
	return w.guardedSet("policy.setMaxTraceableBlocks", nativehashes.PolicyContract, "setMaxTraceableBlocks", w.badWitness(), v), v
}

func (w *world) opSetMsPerBlock() *op {
	v := w.between(1, 30000)
	if w.r.Chance(1, 3) {
		v = w.pickI64(1, 30000, 30001, 0, -1, 1<<32)
	}
	return w.guardedSet("policy.setMillisecondsPerBlock", nativehashes.PolicyContract, "setMillisecondsPerBlock", w.badWitness(), v)
}

// opSetNVBDelta: between the number of validators and half of the cached MaxValidUntilBlockIncrement.
func (w *world) opSetNVBDelta() *op {
	vub := int64(w.bc().GetMaxValidUntilBlockIncrement())
	nv := int64(w.net.Validators)
	v := w.between(nv, vub/2)
	if w.r.Chance(1, 2) {
		v = w.pickI64(nv, nv-1, vub/2, vub/2+1, 0, -1, 1<<32)
	}
	return w.guardedSet("notary.setMaxNotValidBeforeDelta", nativehashes.Notary, "setMaxNotValidBeforeDelta", w.badWitness(), v)
}

// priceArg: positive int64 prices, zero, negative, and the edges of int64 (as big integers).
func (w *world) priceArg(limit int64) any {
	r := w.r
	if r.Chance(1, 4) {
		switch r.Intn(6) {
		case 0:
			return int64(0)
		case 1:
			return int64(-1)
		case 2:
			return int64(1)
		case 3:
			return new(big.Int).SetUint64(1 << 63) // int64 max + 1
		case 4:
			return new(big.Int).Lsh(big.NewInt(1), 64)
		default:
			return new(big.Int).Neg(new(big.Int).Lsh(big.NewInt(1), 70))
		}
	}
	return int64(1 + r.U64()%uint64(limit))
}

func (w *world) opSetOraclePrice() *op {
	return w.guardedSet("oracle.setPrice", nativehashes.OracleContract, "setPrice", w.badWitness(), w.priceArg(1_0000_0000))
}

func (w *world) opSetRegisterPrice() *op {
	return w.guardedSet("neo.setRegisterPrice", nativehashes.NeoToken, "setRegisterPrice", w.badWitness(), w.priceArg(2000_0000_0000))
}

func (w *world) opSetGasPerBlock() *op {
	v := w.between(0, 10_0000_0000)
	if w.r.Chance(1, 3) {
		v = w.pickI64(0, 10_0000_0000, 10_0000_0001, -1, 1)
	}
	return w.guardedSet("neo.setGasPerBlock", nativehashes.NeoToken, "setGasPerBlock", w.badWitness(), v)
}

// opDesignateG: designateAsRole with valid and invalid roles, empty / duplicate / oversized node lists.
func (w *world) opDesignateG(role int64) *op {
	r := w.r
	nk := w.nkeys
	if role == 0 {
		role = int64([]noderoles.Role{noderoles.StateValidator, noderoles.Oracle, noderoles.NeoFSAlphabet, noderoles.P2PNotary}[r.Intn(4)])
		if r.Chance(1, 8) {
			role = w.pickI64(0, 5, 64, 255, 256, -1, 12)
		}
	}
	var idx []int
	switch r.Weighted([]int{20, 2, 3, 1}) {
	case 0: // distinct keys
		n := 1 + r.Intn(min(3, nk))
		set := map[int]bool{}
		for len(set) < n {
			set[r.Intn(nk)] = true
		}
		for i := range set {
			idx = append(idx, i)
		}
		sort.Ints(idx)
		if r.Chance(1, 3) { // the order of the argument must not matter: the contract sorts
			for i, j := 0, len(idx)-1; i < j; i, j = i+1, j-1 {
				idx[i], idx[j] = idx[j], idx[i]
			}
		}
	case 1: // empty
	case 2: // duplicates
		k := r.Intn(nk)
		idx = []int{k, (k + 1) % nk, k}
	default: // too large (33 entries, necessarily with duplicates: the size check comes first)
		for i := 0; i < 33; i++ {
			idx = append(idx, i%nk)
		}
	}
	pubs := make([]any, len(idx))
	strs := make([]string, len(idx))
	for i, k := range idx {
		pubs[i] = w.net.Pub(k).Bytes()
		strs[i] = fmt.Sprint(k)
	}
	nodes := "-"
	if len(strs) > 0 {
		nodes = strings.Join(strs, ".")
	}
	return w.committeeOp("role.designate", nativehashes.RoleManagement, "designateAsRole",
		fmt.Sprintf("%d %s", role, nodes), true, w.badWitness(), role, pubs)
}

// opGuarded picks one guarded setter; follow-ups (second transaction of the same block whose outcome depends on the
// first one's write to the layer cache) are queued in w.follow.
func (w *world) opGuarded() *op {
	r := w.r
	switch r.Weighted([]int{4, 4, 4, 3, 4, 2, 3, 4, 6}) {
	case 0:
		return w.opSetAttributeFee()
	case 1:
		return w.opSetMaxVUB(0)
	case 2:
		p, v := w.opSetMaxTraceable()
		if p != nil && r.Chance(1, 2) {
			// same block: MaxValidUntilBlockIncrement checked against the value the previous transaction may have cached
			w.follow = append(w.follow, w.opSetMaxVUB(v))
		}
		return p
	case 3:
		return w.opSetMsPerBlock()
	case 4:
		p := w.opSetNVBDelta()
		if r.Chance(1, 4) {
			w.follow = append(w.follow, w.opSetMaxVUB(0), w.opSetNVBDelta())
		}
		return p
	case 5:
		return w.opSetOraclePrice()
	case 6:
		return w.opSetRegisterPrice()
	case 7:
		p := w.opSetGasPerBlock()
		if r.Chance(1, 2) { // two records of the same index in the append-only cache
			w.follow = append(w.follow, w.opSetGasPerBlock())
		}
		return p
	default:
		p := w.opDesignateG(0)
		if p != nil && r.Chance(1, 4) { // same role twice in one block: ErrAlreadyDesignated
			var role int64
			fmt.Sscanf(strings.Fields(p.line)[4], "%d", &role)
			w.follow = append(w.follow, w.opDesignateG(role))
		}
		return p
	}
}

// faultClass maps the fault exception of a guarded call to the check that fired (distribution counters only).
func faultClass(aer *state.AppExecResult) string {
	e := aer.FaultException
	switch {
	case strings.Contains(e, "committee signature") || strings.Contains(e, "witness check failed") || strings.Contains(e, "invalid witness"):
		return "witness"
	case strings.Contains(e, "gas limit") || strings.Contains(e, "insufficient gas") || strings.Contains(e, "GAS limit"):
		return "out-of-gas"
	case strings.Contains(e, "already designated"):
		return "already-designated"
	case strings.Contains(e, "duplicate"):
		return "duplicates"
	case strings.Contains(e, "empty"):
		return "empty-list"
	case strings.Contains(e, "too large"):
		return "large-list"
	case strings.Contains(e, "invalid role"):
		return "invalid-role"
	case strings.Contains(e, "attribute type"):
		return "attr-type"
	case strings.Contains(e, "less than MaxTraceableBlocks"), strings.Contains(e, "larger than MaxValidUntilBlockIncrement"),
		strings.Contains(e, "greater than previous"), strings.Contains(e, "MaxNotValidBeforeDelta cannot"):
		return "cross-check"
	case strings.Contains(e, "bigint") || strings.Contains(e, "uint") || strings.Contains(e, "big integer") || strings.Contains(e, "overflow") || strings.Contains(e, "range") || strings.Contains(e, "negative"):
		return "range"
	}
	return "range/other"
}

var guardedKinds = map[string]bool{
	"policy.setAttributeFee": true, "policy.setMaxValidUntilBlockIncrement": true, "policy.setMaxTraceableBlocks": true,
	"policy.setMillisecondsPerBlock": true, "notary.setMaxNotValidBeforeDelta": true, "oracle.setPrice": true,
	"neo.setRegisterPrice": true, "neo.setGasPerBlock": true, "role.designate": true, "management.setMinimumDeploymentFee": true,
}

var _ = transaction.HighPriority

// ---- the same natively cached value written twice in one block, read in the next one ----------------------------------

// opDoubleWrite: two HALTing committee transactions of ONE block set the same cached setting to different values (the
// second one is queued in w.follow); append-only / insert-or-overwrite caches then hold what storage, keyed by the
// setting, has overwritten. Returns the first op and the kind written.
func (w *world) opDoubleWrite() (*op, string) {
	r := w.r
	two := func(lo, hi int64) (int64, int64) {
		a := w.between(lo, hi)
		b := w.between(lo, hi)
		if a == b {
			b = lo + (a-lo+1)%(hi-lo+1)
		}
		return a, b
	}
	var p, q *op
	kind := ""
	switch r.Intn(8) {
	case 0, 1:
		a, b := two(1, 9_0000_0000)
		kind = "gasPerBlock"
		p = w.guardedSet("neo.setGasPerBlock", nativehashes.NeoToken, "setGasPerBlock", false, a)
		q = w.guardedSet("neo.setGasPerBlock", nativehashes.NeoToken, "setGasPerBlock", false, b)
	case 2:
		a, b := two(1, 1500_0000_0000)
		kind = "registerPrice"
		p = w.guardedSet("neo.setRegisterPrice", nativehashes.NeoToken, "setRegisterPrice", false, a)
		q = w.guardedSet("neo.setRegisterPrice", nativehashes.NeoToken, "setRegisterPrice", false, b)
	case 3:
		a, b := two(0, 3000)
		kind = "feePerByte"
		p, q = w.opPolicySetExact(0, a), w.opPolicySetExact(0, b)
	case 4:
		a, b := two(1, 60)
		kind = "execFeeFactor"
		p, q = w.opPolicySetExact(1, a*10000), w.opPolicySetExact(1, b*10000)
	case 5:
		a, b := two(1, 200000)
		kind = "storagePrice"
		p, q = w.opPolicySetExact(2, a), w.opPolicySetExact(2, b)
	case 6:
		a, b := two(0, 5_0000_0000)
		kind = "attributeFee"
		p = w.guardedSet("policy.setAttributeFee", nativehashes.PolicyContract, "setAttributeFee", false, int64(33), a)
		q = w.guardedSet("policy.setAttributeFee", nativehashes.PolicyContract, "setAttributeFee", false, int64(33), b)
	default:
		a, b := two(1, 30000)
		kind = "msPerBlock"
		p = w.guardedSet("policy.setMillisecondsPerBlock", nativehashes.PolicyContract, "setMillisecondsPerBlock", false, a)
		q = w.guardedSet("policy.setMillisecondsPerBlock", nativehashes.PolicyContract, "setMillisecondsPerBlock", false, b)
	}
	if p == nil || q == nil {
		return nil, ""
	}
	w.follow = append(w.follow, q)
	return p, kind
}

func (w *world) opPolicySetExact(which int, v int64) *op {
	names := []string{"setFeePerByte", "setExecFeeFactor", "setStoragePrice"}
	return w.committeeOp("policy."+names[which], nativehashes.PolicyContract, names[which], fmt.Sprint(v), true, false, v)
}

// opReadSettings: a transaction that READS the natively cached settings and governance answers inside a block and USES
// them: every answer stays on the result stack, and NEO.getGasPerBlock is the amount of a GAS transfer.
func (w *world) opReadSettings() *op {
	p := w.payer()
	if p < 0 {
		return nil
	}
	bw := io.NewBufBinWriter()
	for _, g := range []struct {
		h util.Uint160
		m string
		a []any
	}{
		{nativehashes.NeoToken, "getRegisterPrice", nil},
		{nativehashes.PolicyContract, "getFeePerByte", nil},
		{nativehashes.PolicyContract, "getExecPicoFeeFactor", nil},
		{nativehashes.PolicyContract, "getStoragePrice", nil},
		{nativehashes.PolicyContract, "getAttributeFee", []any{int64(33)}},
		{nativehashes.PolicyContract, "getMillisecondsPerBlock", nil},
		{nativehashes.NeoToken, "getCommittee", nil},
		{nativehashes.NeoToken, "getNextBlockValidators", nil},
		{nativehashes.NeoToken, "getCandidates", nil},
	} {
		emit.AppCall(bw.BinWriter, g.h, g.m, callflag.ReadOnly, g.a...)
	}
	// GAS.transfer(payer, val, NEO.getGasPerBlock(), nil)
	emit.Opcodes(bw.BinWriter, opcode.PUSHNULL)
	emit.AppCall(bw.BinWriter, nativehashes.NeoToken, "getGasPerBlock", callflag.ReadOnly)
	emit.Bytes(bw.BinWriter, w.val.ScriptHash().BytesBE())
	emit.Bytes(bw.BinWriter, w.net.Account(p).BytesBE())
	emit.Opcodes(bw.BinWriter, opcode.PUSH4, opcode.PACK)
	emit.AppCallNoArgs(bw.BinWriter, nativehashes.GasToken, "transfer", callflag.All)
	if bw.Err != nil {
		panic(bw.Err)
	}
	tx := w.mkTx(bw.Bytes(), 1_0000_0000, w.net.Single(p))
	return &op{kind: "native.read", tx: tx, line: fmt.Sprintf("tx %s c=- native.read", sigList(fmt.Sprintf("k%d", p)))}
}
