package main

// Generated contracts with VARIED MANIFESTS and calls between them: the ContractManagement cache holds manifest
// objects parsed from JSON on a running node and objects rebuilt by Manifest.FromStackItem on a restarted node
// (Management.InitializeCache); the permission check of System.Contract.Call, getContract and a NEF-only update read
// that cache. Model: lean/NeoModel/Model/Ledger/Mgmt.lean.
//
// manifest variant on the op line:  p=<desc>:<methods>;…  t=<trusts>  g=<group key indices>  s=<safe methods>
//   desc    * | h<contract token> | g<key index>          methods  * (wildcard) | - (EMPTY list) | m1+m2
//   trusts  * | - | desc,desc                              groups   - | i,j        safe  - | m1+m2

import (
	"encoding/json"
	"fmt"
	"sort"
	"strings"

	"github.com/nspcc-dev/neo-go/pkg/config"
	"github.com/nspcc-dev/neo-go/pkg/core"
	"github.com/nspcc-dev/neo-go/pkg/core/interop/interopnames"
	"github.com/nspcc-dev/neo-go/pkg/core/native/nativehashes"
	"github.com/nspcc-dev/neo-go/pkg/core/native/nativeids"
	"github.com/nspcc-dev/neo-go/pkg/core/state"
	"github.com/nspcc-dev/neo-go/pkg/io"
	"github.com/nspcc-dev/neo-go/pkg/smartcontract"
	"github.com/nspcc-dev/neo-go/pkg/smartcontract/callflag"
	"github.com/nspcc-dev/neo-go/pkg/smartcontract/manifest"
	"github.com/nspcc-dev/neo-go/pkg/smartcontract/nef"
	"github.com/nspcc-dev/neo-go/pkg/util"
	"github.com/nspcc-dev/neo-go/pkg/vm/emit"
	"github.com/nspcc-dev/neo-go/pkg/vm/opcode"
	"github.com/nspcc-dev/neo-go/pkg/vm/stackitem"

	"verif/harness/internal/chainx"
)

// descV is one manifest.PermissionDesc of a variant.
type descV struct {
	kind int // 0 wildcard, 1 hash, 2 group
	hash util.Uint160
	key  int
}

type permV struct {
	desc    descV
	wild    bool     // methods: wildcard
	methods []string // else this list (possibly EMPTY)
}

// manV is a manifest variant.
type manV struct {
	perms      []permV
	trustsWild bool
	trusts     []descV
	groups     []int
	safe       []string
}

func defaultManV() *manV {
	return &manV{perms: []permV{{desc: descV{kind: 0}, wild: true}}}
}

func (w *world) descStr(d descV) string {
	switch d.kind {
	case 1:
		return "h" + w.tok(d.hash)
	case 2:
		return fmt.Sprintf("g%d", d.key)
	}
	return "*"
}

func methodsStr(wild bool, ms []string) string {
	if wild {
		return "*"
	}
	if len(ms) == 0 {
		return "-"
	}
	return strings.Join(ms, "+")
}

// line renders the variant for the op line.
func (w *world) manLine(v *manV) string {
	var ps, ts, gs []string
	for _, p := range v.perms {
		ps = append(ps, w.descStr(p.desc)+":"+methodsStr(p.wild, p.methods))
	}
	t := "-"
	if v.trustsWild {
		t = "*"
	} else if len(v.trusts) > 0 {
		for _, d := range v.trusts {
			ts = append(ts, w.descStr(d))
		}
		t = strings.Join(ts, ",")
	}
	for _, g := range v.groups {
		gs = append(gs, fmt.Sprint(g))
	}
	return fmt.Sprintf("p=%s t=%s g=%s s=%s", joinOrDashSep(ps, ";"), t, joinOrDashSep(gs, ","), joinOrDashSep(v.safe, "+"))
}

func (w *world) mkDesc(d descV) manifest.PermissionDesc {
	switch d.kind {
	case 1:
		return manifest.PermissionDesc{Type: manifest.PermissionHash, Value: d.hash}
	case 2:
		return manifest.PermissionDesc{Type: manifest.PermissionGroup, Value: w.net.Pub(d.key)}
	}
	return manifest.PermissionDesc{Type: manifest.PermissionWildcard}
}

// kvxMethods: the methods of the generated contract, in script order (the driver knows this list).
var kvxMethods = []string{"put", "del", "get", "putAbort", "putThrow", "fill", "ver", "update", "destroy", "_deploy", "onNEP17Payment", "forward"}

// newKVX assembles variant v of the key-value contract of chainx.NewKV plus
//
//	forward(hash, method, args) any      System.Contract.Call(hash, method, All, args)
//
// with the manifest variant mv. `sender` is needed for the group signatures (they sign the contract hash).
func (w *world) newKVX(name string, v byte, mv *manV, sender util.Uint160) *chainx.KV {
	config.Version = "verif"
	bwr := io.NewBufBinWriter()
	bw := bwr.BinWriter
	m := manifest.DefaultManifest(name)
	bytesT, intT, anyT, voidT := smartcontract.ByteArrayType, smartcontract.IntegerType, smartcontract.AnyType, smartcontract.VoidType
	isSafe := func(n string) bool {
		for _, s := range mv.safe {
			if s == n {
				return true
			}
		}
		return false
	}
	add := func(name string, ret smartcontract.ParamType, params ...smartcontract.ParamType) {
		ps := make([]manifest.Parameter, len(params))
		for i, p := range params {
			ps[i] = manifest.Parameter{Name: fmt.Sprintf("a%d", i), Type: p}
		}
		m.ABI.Methods = append(m.ABI.Methods, manifest.Method{Name: name, Offset: bwr.Len(), Parameters: ps, ReturnType: ret, Safe: isSafe(name)})
	}
	getCtx := func() { emit.Syscall(bw, interopnames.SystemStorageGetContext) }

	add("put", voidT, bytesT, bytesT)
	getCtx()
	emit.Syscall(bw, interopnames.SystemStoragePut)
	emit.Opcodes(bw, opcode.RET)

	add("del", voidT, bytesT)
	getCtx()
	emit.Syscall(bw, interopnames.SystemStorageDelete)
	emit.Opcodes(bw, opcode.RET)

	add("get", anyT, bytesT)
	getCtx()
	emit.Syscall(bw, interopnames.SystemStorageGet)
	emit.Opcodes(bw, opcode.RET)

	add("putAbort", voidT, bytesT, bytesT)
	getCtx()
	emit.Syscall(bw, interopnames.SystemStoragePut)
	emit.Opcodes(bw, opcode.ABORT)

	add("putThrow", voidT, bytesT, bytesT)
	getCtx()
	emit.Syscall(bw, interopnames.SystemStoragePut)
	emit.String(bw, "boom")
	emit.Opcodes(bw, opcode.THROW)

	add("fill", voidT, intT, bytesT)
	emit.InitSlot(bw, 0, 2)
	loop := bwr.Len()
	emit.Opcodes(bw, opcode.LDARG0, opcode.PUSH0)
	jmpPos := bwr.Len()
	emit.Instruction(bw, opcode.JMPLE, []byte{0})
	emit.Opcodes(bw, opcode.LDARG0, opcode.DEC, opcode.STARG0)
	emit.Opcodes(bw, opcode.LDARG1)
	emit.Opcodes(bw, opcode.LDARG1, opcode.LDARG0, opcode.CAT)
	getCtx()
	emit.Syscall(bw, interopnames.SystemStoragePut)
	back := loop - bwr.Len()
	emit.Instruction(bw, opcode.JMP, []byte{byte(int8(back))})
	end := bwr.Len()
	emit.Opcodes(bw, opcode.RET)

	add("ver", intT)
	emit.Instruction(bw, opcode.PUSHINT16, []byte{v, 0}) // fixed width: a NEF-only update keeps every method offset
	emit.Opcodes(bw, opcode.RET)

	add("update", voidT, bytesT, bytesT, anyT)
	emit.Opcodes(bw, opcode.PUSH3, opcode.PACK)
	emit.AppCallNoArgs(bw, nativehashes.ContractManagement, "update", callflag.All)
	emit.Opcodes(bw, opcode.DROP, opcode.RET)

	add("destroy", voidT)
	emit.Opcodes(bw, opcode.NEWARRAY0)
	emit.AppCallNoArgs(bw, nativehashes.ContractManagement, "destroy", callflag.All)
	emit.Opcodes(bw, opcode.DROP, opcode.RET)

	add("_deploy", voidT, anyT, smartcontract.BoolType)
	emit.Opcodes(bw, opcode.SWAP, opcode.DROP)
	emit.Bytes(bw, []byte{0xff, 'd'})
	getCtx()
	emit.Syscall(bw, interopnames.SystemStoragePut)
	emit.Opcodes(bw, opcode.RET)

	add("onNEP17Payment", voidT, smartcontract.Hash160Type, intT, anyT)
	emit.Opcodes(bw, opcode.DROP)
	emit.Bytes(bw, []byte{0xff, 'p'})
	getCtx()
	emit.Syscall(bw, interopnames.SystemStoragePut)
	emit.Opcodes(bw, opcode.DROP, opcode.RET)

	add("forward", anyT, smartcontract.Hash160Type, smartcontract.StringType, smartcontract.ArrayType)
	emit.InitSlot(bw, 0, 3)
	emit.Opcodes(bw, opcode.LDARG2)   // args
	emit.Int(bw, int64(callflag.All)) // flags
	emit.Opcodes(bw, opcode.LDARG1)   // method
	emit.Opcodes(bw, opcode.LDARG0)   // hash
	emit.Syscall(bw, interopnames.SystemContractCall)
	emit.Opcodes(bw, opcode.RET)

	if bwr.Err != nil {
		panic(bwr.Err)
	}
	script := bwr.Bytes()
	script[jmpPos+1] = byte(int8(end - jmpPos))
	ne, err := nef.NewFile(script)
	if err != nil {
		panic(err)
	}
	// ---- the manifest variant
	m.Permissions = nil
	for _, p := range mv.perms {
		mp := manifest.Permission{Contract: w.mkDesc(p.desc)}
		if p.wild {
			mp.Methods = manifest.WildStrings{Value: nil}
		} else {
			mp.Methods = manifest.WildStrings{Value: append([]string{}, p.methods...)}
		}
		m.Permissions = append(m.Permissions, mp)
	}
	if m.Permissions == nil {
		m.Permissions = []manifest.Permission{}
	}
	if mv.trustsWild {
		m.Trusts = manifest.WildPermissionDescs{Wildcard: true}
	} else {
		m.Trusts = manifest.WildPermissionDescs{Value: []manifest.PermissionDesc{}}
		for _, d := range mv.trusts {
			m.Trusts.Value = append(m.Trusts.Value, w.mkDesc(d))
		}
	}
	h := state.CreateContractHash(sender, ne.Checksum, name)
	m.Groups = []manifest.Group{}
	for _, g := range mv.groups {
		m.Groups = append(m.Groups, manifest.Group{PublicKey: w.net.Pub(g), Signature: w.net.Keys[g].Sign(h.BytesBE())})
	}
	k := &chainx.KV{Name: name, Variant: v, NEF: ne, Manifest: m}
	if k.NEFBytes, err = ne.Bytes(); err != nil {
		panic(err)
	}
	if k.ManBytes, err = json.Marshal(m); err != nil {
		panic(err)
	}
	return k
}

// randDesc: wildcard, the hash of another generated contract / of ContractManagement, or a group key.
func (w *world) randDesc(self int) descV {
	r := w.r
	switch r.Weighted([]int{4, 4, 2, 2}) {
	case 1:
		for d := 0; d < len(w.slots); d++ {
			j := (r.Intn(len(w.slots)) + d) % len(w.slots)
			if j != self && w.slots[j].kv != nil {
				return descV{kind: 1, hash: w.slots[j].hash}
			}
		}
		return descV{kind: 1, hash: nativehashes.ContractManagement}
	case 2:
		return descV{kind: 1, hash: nativehashes.ContractManagement}
	case 3:
		return descV{kind: 2, key: r.Intn(w.nkeys)}
	}
	return descV{kind: 0}
}

var permMethodPool = []string{"put", "del", "get", "update", "destroy", "ver"}

// randManV: a manifest variant; every shape of every container: wildcard / explicit / EMPTY.
func (w *world) randManV(self int) *manV {
	r := w.r
	if r.Chance(2, 5) {
		return defaultManV()
	}
	mv := &manV{}
	np := 1 + r.Intn(2)
	seen := map[string]bool{}
	for i := 0; i < np; i++ {
		d := w.randDesc(self)
		key := w.descStr(d)
		if seen[key] && !r.Chance(1, 6) { // a duplicate descriptor makes the manifest invalid: kept rarely
			continue
		}
		seen[key] = true
		p := permV{desc: d}
		switch r.Weighted([]int{3, 3, 4}) {
		case 0:
			p.wild = true
		case 1: // EMPTY list: nothing allowed
		default:
			n := 1 + r.Intn(3)
			set := map[string]bool{}
			for len(set) < n {
				set[permMethodPool[r.Intn(len(permMethodPool))]] = true
			}
			for s := range set {
				p.methods = append(p.methods, s)
			}
			sort.Strings(p.methods)
		}
		mv.perms = append(mv.perms, p)
	}
	switch r.Intn(4) {
	case 0:
		mv.trustsWild = true
	case 1:
	default:
		n := 1 + r.Intn(2)
		seenT := map[string]bool{}
		for i := 0; i < n; i++ {
			d := w.randDesc(self)
			if d.kind == 0 || seenT[w.descStr(d)] {
				continue
			}
			seenT[w.descStr(d)] = true
			mv.trusts = append(mv.trusts, d)
		}
	}
	if r.Chance(1, 3) {
		mv.groups = []int{r.Intn(w.nkeys)}
	}
	switch r.Intn(3) {
	case 0:
		mv.safe = []string{"get"}
	case 1:
		mv.safe = []string{"get", "ver"}
	}
	return mv
}

// opForward: a transaction calling <caller>.forward(<callee>, method, args): the caller's manifest must permit it
// (unless the callee's method is safe).
func (w *world) opForward(si, sj int, method string) *op {
	a, b := w.slots[si], w.slots[sj]
	p := w.payer()
	if p < 0 || a.kv == nil || b.kv == nil {
		return nil
	}
	var args []any
	switch method {
	case "put":
		args = []any{[]byte{byte(w.r.Intn(6))}, w.r.Bytes(1 + w.r.Intn(20))}
	case "del", "get":
		args = []any{[]byte{byte(w.r.Intn(6))}}
	default:
		method, args = "ver", []any{}
	}
	tx := w.mkTx(chainx.Script(false, chainx.Call{Hash: a.hash, Method: "forward", Args: []any{b.hash, method, args}, Drop: true}), 1_0000_0000, w.net.Single(p))
	return &op{kind: "kv.forward", tx: tx, model: true,
		line: fmt.Sprintf("tx %s c=- kv.forward %s %s %s", sigList(fmt.Sprintf("k%d", p)), w.tok(a.hash), w.tok(b.hash), method)}
}

// ---- observation: the cached manifest object vs the stored stack item ----------------------------------------------

func (w *world) descOfObj(d manifest.PermissionDesc) string {
	switch d.Type {
	case manifest.PermissionHash:
		return "h" + w.tok(d.Hash())
	case manifest.PermissionGroup:
		return fmt.Sprintf("g%d", w.net.IndexOf(d.Group()))
	}
	return "*"
}

// manObjStr renders what the consensus-relevant readers see of a cached manifest object.
func (w *world) manObjStr(m *manifest.Manifest) string {
	var ps, ts, gs, ss []string
	for _, p := range m.Permissions {
		ps = append(ps, w.descOfObj(p.Contract)+":"+methodsStr(p.Methods.IsWildcard(), p.Methods.Value))
	}
	t := "-"
	if m.Trusts.IsWildcard() {
		t = "*"
	} else if len(m.Trusts.Value) > 0 {
		for _, d := range m.Trusts.Value {
			ts = append(ts, w.descOfObj(d))
		}
		t = strings.Join(ts, ",")
	}
	for _, g := range m.Groups {
		gs = append(gs, fmt.Sprint(w.net.IndexOf(g.PublicKey)))
	}
	for _, md := range m.ABI.Methods {
		if md.Safe {
			ss = append(ss, md.Name)
		}
	}
	return fmt.Sprintf("%s|%s|%s|%s", joinOrDashSep(ps, ";"), t, joinOrDashSep(gs, ","), joinOrDashSep(ss, "+"))
}

func (w *world) descOfItem(it stackitem.Item) string {
	if _, ok := it.(stackitem.Null); ok {
		return "*"
	}
	b, err := it.TryBytes()
	if err != nil {
		return "?"
	}
	if len(b) == util.Uint160Size {
		h, _ := util.Uint160DecodeBytesBE(b)
		return "h" + w.tok(h)
	}
	for i := 0; i < w.nkeys; i++ {
		if string(w.net.Pub(i).Bytes()) == string(b) {
			return fmt.Sprintf("g%d", i)
		}
	}
	return "g?"
}

// manItemStr renders the same from the STORED stack item, without going through Manifest.FromStackItem.
func (w *world) manItemStr(it stackitem.Item) string {
	f, ok := it.Value().([]stackitem.Item)
	if !ok || len(f) < 8 {
		return "?"
	}
	arr := func(x stackitem.Item) []stackitem.Item {
		a, _ := x.Value().([]stackitem.Item)
		return a
	}
	var ps, ts, gs, ss []string
	for _, p := range arr(f[5]) {
		pf := arr(p)
		if len(pf) != 2 {
			return "?"
		}
		ms := "*"
		if _, isNull := pf[1].(stackitem.Null); !isNull {
			var names []string
			for _, x := range arr(pf[1]) {
				b, _ := x.TryBytes()
				names = append(names, string(b))
			}
			ms = methodsStr(false, names)
		}
		ps = append(ps, w.descOfItem(pf[0])+":"+ms)
	}
	t := "-"
	if _, isNull := f[6].(stackitem.Null); isNull {
		t = "*"
	} else if len(arr(f[6])) > 0 {
		for _, d := range arr(f[6]) {
			ts = append(ts, w.descOfItem(d))
		}
		t = strings.Join(ts, ",")
	}
	for _, g := range arr(f[1]) {
		gf := arr(g)
		if len(gf) == 2 {
			gs = append(gs, strings.TrimPrefix(w.descOfItem(gf[0]), "g"))
		}
	}
	abi := arr(f[4])
	if len(abi) == 2 {
		for _, md := range arr(abi[0]) {
			mf := arr(md)
			if len(mf) == 5 {
				if safe, _ := mf[4].TryBool(); safe {
					b, _ := mf[0].TryBytes()
					ss = append(ss, string(b))
				}
			}
		}
	}
	return fmt.Sprintf("%s|%s|%s|%s", joinOrDashSep(ps, ";"), t, joinOrDashSep(gs, ","), joinOrDashSep(ss, "+"))
}

// storedContract reads a contract record as raw stack items: id, update counter, manifest item.
func storedContract(bc *core.Blockchain, h util.Uint160) (string, stackitem.Item) {
	si := bc.GetStorageItem(nativeids.ContractManagement, append([]byte{8}, h.BytesBE()...))
	if si == nil {
		return "-", nil
	}
	it, err := stackitem.Deserialize(si)
	if err != nil {
		return "?", nil
	}
	f, ok := it.Value().([]stackitem.Item)
	if !ok || len(f) < 5 {
		return "?", nil
	}
	id, _ := f[0].TryInteger()
	uc, _ := f[1].TryInteger()
	return fmt.Sprintf("%s:%s", id, uc), f[4]
}
