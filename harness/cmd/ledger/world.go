package main

import (
	"fmt"
	"math/big"
	"sort"
	"strings"

	"github.com/nspcc-dev/neo-go/pkg/core"
	"github.com/nspcc-dev/neo-go/pkg/core/native/nativehashes"
	"github.com/nspcc-dev/neo-go/pkg/core/native/nativeids"
	"github.com/nspcc-dev/neo-go/pkg/core/state"
	"github.com/nspcc-dev/neo-go/pkg/core/transaction"
	"github.com/nspcc-dev/neo-go/pkg/crypto/keys"
	"github.com/nspcc-dev/neo-go/pkg/io"
	"github.com/nspcc-dev/neo-go/pkg/neotest"
	"github.com/nspcc-dev/neo-go/pkg/smartcontract"
	"github.com/nspcc-dev/neo-go/pkg/smartcontract/callflag"
	"github.com/nspcc-dev/neo-go/pkg/util"
	"github.com/nspcc-dev/neo-go/pkg/vm/emit"
	"github.com/nspcc-dev/neo-go/pkg/vm/opcode"
	"github.com/nspcc-dev/neo-go/pkg/vm/stackitem"
	"github.com/nspcc-dev/neo-go/pkg/vm/vmstate"

	"verif/harness/internal/chainx"
	"verif/harness/internal/prng"
)

// op is one decoded operation = one transaction of the history.
type op struct {
	kind    string // e.g. neo.transfer, policy.block, kv.invoke
	line    string // the decoded op line for the model (without result)
	tx      *transaction.Transaction
	model   bool // the Lean model predicts the result of this op
	votes   bool // may change NEO votes / candidates when it HALTs (recompute trigger in the real code)
	blkCand bool // policy.block / policy.unblock aimed at a registered candidate's own account
	result  string
}

type slot struct {
	mv       *manV // manifest variant of the deployed generation
	kv       *chainx.KV
	hash     util.Uint160
	deployed bool
	owner    int
	gen      int
}

// world is the generator's bookkeeping; everything consensus-relevant is re-read from replica A.
type world struct {
	r        *prng.R
	tb       *chainx.TB
	net      *chainx.Net
	a        *chainx.Node
	exec     *neotest.Executor
	val      neotest.Signer
	toks     map[util.Uint160]string
	slots    [3]*slot
	nkeys    int
	seq      int
	spent    map[util.Uint160]int64 // fees of the transactions already built for the next block, per payer
	mgmtToks map[string]bool        // tokens of the contracts whose deployment was attempted in a block
	follow   []*op                  // operations queued to follow the one just generated, in the same block
}

func newWorld(r *prng.R, tb *chainx.TB, net *chainx.Net, a *chainx.Node) *world {
	w := &world{r: r, tb: tb, net: net, a: a, toks: map[util.Uint160]string{}, nkeys: len(net.Keys)}
	w.val = net.StandbyValidatorsSigner()
	w.exec = neotest.NewExecutor(tb, a.BC, w.val, net.StandbyCommitteeSigner())
	for i := 0; i < w.nkeys; i++ {
		w.toks[net.Account(i)] = fmt.Sprintf("k%d", i)
	}
	w.toks[w.val.ScriptHash()] = "val"
	w.toks[nativehashes.Treasury] = "treasury"
	w.toks[nativehashes.ContractManagement] = "mgmt"
	for i := range w.slots {
		w.slots[i] = &slot{}
	}
	return w
}

func (w *world) tok(h util.Uint160) string {
	if t, ok := w.toks[h]; ok {
		return t
	}
	return "x" + h.StringBE()
}

func (w *world) bc() *core.Blockchain { return w.a.BC }

// isBlocked reads Policy storage of replica A.
func (w *world) isBlocked(h util.Uint160) bool {
	return w.bc().GetStorageItem(nativeids.PolicyContract, append([]byte{15}, h.BytesBE()...)) != nil
}

type candInfo struct {
	reg   bool
	votes *big.Int
}

// candidates reads NEO candidate records of a chain.
func candidates(bc *core.Blockchain) map[string]candInfo {
	res := map[string]candInfo{}
	bc.SeekStorage(nativeids.NeoToken, []byte{33}, func(k, v []byte) bool {
		it, err := stackitem.Deserialize(v)
		if err != nil {
			return true
		}
		f := it.Value().([]stackitem.Item)
		reg, _ := f[0].TryBool()
		votes, _ := f[1].TryInteger()
		res[string(k)] = candInfo{reg, votes}
		return true
	})
	return res
}

func (w *world) registeredKeys() []int {
	var res []int
	c := candidates(w.bc())
	for i := 0; i < w.nkeys; i++ {
		if ci, ok := c[string(w.net.Pub(i).Bytes())]; ok && ci.reg {
			res = append(res, i)
		}
	}
	return res
}

func (w *world) neoBalance(h util.Uint160) int64 {
	b, _ := w.bc().GetGoverningTokenBalance(h)
	return b.Int64()
}

// payer picks an unblocked key account to pay fees; -1 if none.
func (w *world) payer() int {
	start := w.r.Intn(w.nkeys)
	for d := 0; d < w.nkeys; d++ {
		i := (start + d) % w.nkeys
		if !w.isBlocked(w.net.Account(i)) {
			return i
		}
	}
	return -1
}

// committee returns the signer for A's current committee address and its description "m:i.j.k".
func (w *world) committee() (neotest.Signer, string) {
	pubs, err := w.bc().GetCommittee()
	if err != nil {
		panic(err)
	}
	idx := make([]string, len(pubs))
	for i, p := range pubs {
		idx[i] = fmt.Sprint(w.net.IndexOf(p))
	}
	return w.net.CommitteeSigner(pubs), fmt.Sprintf("%d:%s", smartcontract.GetMajorityHonestNodeCount(len(pubs)), strings.Join(idx, "."))
}

// mkTx builds, fee-fills and signs a transaction with the given entry script.
func (w *world) mkTx(script []byte, sysFeeAdd int64, signers ...neotest.Signer) *transaction.Transaction {
	return w.mkTxMul(script, 4, sysFeeAdd, signers...)
}

func (w *world) mkTxMul(script []byte, mul, sysFeeAdd int64, signers ...neotest.Signer) *transaction.Transaction {
	tx := transaction.New(script, 0)
	tx.Nonce = uint32(w.r.U64())
	tx.ValidUntilBlock = w.bc().BlockHeight() + 1 + uint32(w.r.Intn(int(min(3, max(1, w.bc().GetMaxValidUntilBlockIncrement())))))
	if w.r.Chance(1, 8) { // an attribute priced by Policy.getAttributeFee (verification-time fee, per signer)
		tx.Attributes = []transaction.Attribute{{Type: transaction.ConflictsT, Value: &transaction.Conflicts{Hash: util.Uint256(w.r.Bytes(32))}}}
	}
	for _, s := range signers {
		tx.Signers = append(tx.Signers, transaction.Signer{Account: s.ScriptHash(), Scopes: transaction.Global})
	}
	neotest.AddNetworkFee(w.tb, w.bc(), tx, signers...)
	w.exec.AddSystemFee(tx, -1)
	// Margin: the fee was measured against the pre-block state; earlier transactions of the same
	// block may change prices.
	tx.SystemFee = tx.SystemFee*mul + 1_0000_0000 + sysFeeAdd
	// no margin on the network fee: it is checked against the pre-block state, the one it was computed on, so a
	// replica whose cached fee-per-byte / attribute fee drifted from storage rejects (or would under-charge) it
	// the payer must be able to afford all its transactions of the block (verification sums them up)
	payer := signers[0].ScriptHash()
	fees := tx.SystemFee + tx.NetworkFee
	if bal := w.bc().GetUtilityTokenBalance(payer, util.Uint160{}); !bal.IsInt64() || bal.Int64() < w.spent[payer]+fees {
		return nil
	}
	if w.spent == nil {
		w.spent = map[util.Uint160]int64{}
	}
	w.spent[payer] += fees
	for _, s := range signers {
		if err := s.SignTx(w.bc().GetConfig().Magic, tx); err != nil {
			panic(err)
		}
	}
	return tx
}

func callScript(h util.Uint160, method string, args ...any) []byte {
	bw := io.NewBufBinWriter()
	emit.AppCall(bw.BinWriter, h, method, callflag.All, args...)
	if bw.Err != nil {
		panic(bw.Err)
	}
	return bw.Bytes()
}

func sigList(ss ...string) string { return "s=" + strings.Join(ss, ",") }

// ---- op constructors -------------------------------------------------------------------------

// account universe for transfers / blocking: key accounts, val, deployed contracts.
func (w *world) anyAccount() util.Uint160 {
	n := w.r.Intn(w.nkeys + 2)
	if n < w.nkeys {
		return w.net.Account(n)
	}
	if n == w.nkeys {
		return w.val.ScriptHash()
	}
	s := w.slots[w.r.Intn(len(w.slots))]
	if s.deployed {
		return s.hash
	}
	return w.net.Account(w.r.Intn(w.nkeys))
}

func (w *world) signerOf(h util.Uint160) neotest.Signer {
	if h == w.val.ScriptHash() {
		return w.val
	}
	for i := 0; i < w.nkeys; i++ {
		if w.net.Account(i) == h {
			return w.net.Single(i)
		}
	}
	return nil
}

func (w *world) opNeoTransfer(from, to util.Uint160, amount int64, wrongSigner bool) *op {
	s := w.signerOf(from)
	if wrongSigner || s == nil {
		p := w.payer()
		if p < 0 {
			return nil
		}
		s = w.net.Single(p)
	}
	if w.isBlocked(s.ScriptHash()) {
		return nil
	}
	tx := w.mkTx(callScript(nativehashes.NeoToken, "transfer", from, to, amount, nil), 0, s)
	return &op{kind: "neo.transfer", tx: tx, model: true, votes: true,
		line: fmt.Sprintf("tx %s c=- neo.transfer %s %s %d", sigList(w.tok(s.ScriptHash())), w.tok(from), w.tok(to), amount)}
}

func (w *world) opGasTransfer(from, to util.Uint160, amount int64) *op {
	s := w.signerOf(from)
	if s == nil || w.isBlocked(s.ScriptHash()) {
		return nil
	}
	tx := w.mkTx(callScript(nativehashes.GasToken, "transfer", from, to, amount, nil), 0, s)
	return &op{kind: "gas.transfer", tx: tx,
		line: fmt.Sprintf("tx %s c=- gas.transfer %s %s %d", sigList(w.tok(s.ScriptHash())), w.tok(from), w.tok(to), amount)}
}

func (w *world) opVote(acc int, cand int, wrongSigner bool) *op {
	si := acc
	if wrongSigner {
		si = (acc + 1) % w.nkeys
	}
	if w.isBlocked(w.net.Account(si)) {
		return nil
	}
	var arg any
	ct := "none"
	if cand >= 0 {
		arg = w.net.Pub(cand).Bytes()
		ct = fmt.Sprintf("%d", cand)
	}
	tx := w.mkTx(callScript(nativehashes.NeoToken, "vote", w.net.Account(acc), arg), 0, w.net.Single(si))
	return &op{kind: "neo.vote", tx: tx, model: true, votes: true,
		line: fmt.Sprintf("tx %s c=- neo.vote k%d %s", sigList(fmt.Sprintf("k%d", si)), acc, ct)}
}

func (w *world) opRegister(key int, unregister bool, wrongSigner bool) *op {
	si := key
	if wrongSigner {
		si = (key + 1) % w.nkeys
	}
	if w.isBlocked(w.net.Account(si)) {
		return nil
	}
	m, kind, mul, add := "registerCandidate", "neo.register", int64(1), int64(20_0000_0000)
	if unregister {
		m, kind, mul, add = "unregisterCandidate", "neo.unregister", 4, 0
	}
	tx := w.mkTxMul(callScript(nativehashes.NeoToken, m, w.net.Pub(key).Bytes()), mul, add, w.net.Single(si))
	return &op{kind: kind, tx: tx, model: true, votes: true,
		line: fmt.Sprintf("tx %s c=- %s %d", sigList(fmt.Sprintf("k%d", si)), kind, key)}
}

// committeeOp builds a transaction paid by a key account and witnessed by A's current committee
// (or, with badCommittee, by the standby validators only, so that CheckCommittee fails).
func (w *world) committeeOp(kind string, contract util.Uint160, method string, desc string, model bool, badCommittee bool, args ...any) *op {
	p := w.payer()
	if p < 0 {
		return nil
	}
	cs, cdesc := w.committee()
	if w.isBlocked(cs.ScriptHash()) {
		return nil
	}
	signers := []neotest.Signer{w.net.Single(p), cs}
	if badCommittee {
		signers = signers[:1]
		cdesc = "-"
	}
	tx := w.mkTx(callScript(contract, method, args...), 0, signers...)
	return &op{kind: kind, tx: tx, model: model,
		line: fmt.Sprintf("tx %s c=%s %s %s", sigList(fmt.Sprintf("k%d", p)), cdesc, kind, desc)}
}

func (w *world) opPolicySet(which int, v int64, bad bool) *op {
	names := []string{"setFeePerByte", "setExecFeeFactor", "setStoragePrice"}
	if w.r.Chance(1, 12) {
		// beyond int64 / uint32: setFeePerByte converts with big.Int.Int64 (low 64 bits), the others with ToUint32
		bv := new(big.Int).Add(new(big.Int).Lsh(big.NewInt(1), 64), big.NewInt(v))
		if w.r.Bool() {
			bv = new(big.Int).Add(new(big.Int).Lsh(big.NewInt(1), 63), big.NewInt(v))
		}
		return w.committeeOp("policy."+names[which], nativehashes.PolicyContract, names[which], bv.String(), true, bad, bv)
	}
	return w.committeeOp("policy."+names[which], nativehashes.PolicyContract, names[which], fmt.Sprint(v), true, bad, v)
}

func (w *world) opBlock(h util.Uint160, unblock bool, bad bool) *op {
	m, kind := "blockAccount", "policy.block"
	if unblock {
		m, kind = "unblockAccount", "policy.unblock"
	}
	o := w.committeeOp(kind, nativehashes.PolicyContract, m, w.tok(h), true, bad, h)
	if o == nil {
		return nil
	}
	o.votes = !unblock // a blocked voter's votes are revoked (Faun)
	for _, i := range w.registeredKeys() {
		if w.net.Account(i) == h {
			o.blkCand = true
		}
	}
	return o
}

var attrTypes = []transaction.AttrType{transaction.HighPriority, transaction.OracleResponseT, transaction.NotValidBeforeT, transaction.ConflictsT, transaction.NotaryAssistedT}

// opMinDeploymentFee: Management.setMinimumDeploymentFee (no cache: the getter re-reads storage through dao.GetInt).
func (w *world) opMinDeploymentFee() *op {
	var v any = int64(w.r.Intn(20_0000_0000))
	if w.r.Chance(1, 3) {
		switch w.r.Intn(4) {
		case 0:
			v = int64(0)
		case 1:
			v = int64(-1)
		case 2:
			v = new(big.Int).Lsh(big.NewInt(1), 64) // stored as 2^64, read back as 0 (low 64 bits)
		default:
			v = new(big.Int).Add(new(big.Int).Lsh(big.NewInt(1), 64), big.NewInt(5_0000_0000))
		}
	}
	return w.guardedSet("management.setMinimumDeploymentFee", nativehashes.ContractManagement, "setMinimumDeploymentFee", w.badWitness(), v)
}

var kvMethods = []struct {
	name string
	argc int
}{{"put", 2}, {"get", 1}, {"del", 1}, {"fill", 2}, {"ver", 0}}

// opWhitelist: Policy.setWhitelistFeeContract / removeWhitelistFeeContract for a method of a generated contract;
// the same (contract, method) is set again and again with different fees.
func (w *world) opWhitelist(si int, remove bool) *op {
	s := w.slots[si]
	m := kvMethods[w.r.Weighted([]int{6, 3, 2, 2, 1})]
	if remove {
		return w.whitelistOp(s.hash, m.name, m.argc, 0, true)
	}
	return w.whitelistOp(s.hash, m.name, m.argc, int64(w.r.Intn(3))*int64(w.r.Intn(5000_0000)), false)
}

func (w *world) whitelistOp(h util.Uint160, method string, argc int, fee int64, remove bool) *op {
	var o *op
	if remove {
		o = w.committeeOp("policy.removeWhitelistFeeContract", nativehashes.PolicyContract, "removeWhitelistFeeContract",
			fmt.Sprintf("%s %s", w.tok(h), method), true, false, h, method, int64(argc))
	} else {
		o = w.committeeOp("policy.setWhitelistFeeContract", nativehashes.PolicyContract, "setWhitelistFeeContract",
			fmt.Sprintf("%s %s %d", w.tok(h), method, fee), true, false, h, method, int64(argc), fee)
	}
	return o
}

// opRecoverFund: Policy.recoverFund of a blocked account (needs a year of block time since the blocking and the
// "almost full" committee multisignature).
func (w *world) opRecoverFund(acc util.Uint160) *op {
	p := w.payer()
	if p < 0 {
		return nil
	}
	pubs, err := w.bc().GetCommittee()
	if err != nil {
		return nil
	}
	n := len(pubs)
	m := max(max(1, n-(n-1)/2), n-2)
	if m > 1 && w.r.Chance(1, 8) {
		m-- // one signature short of the "almost full" committee: must fault
	}
	cs := w.net.Multi(m, pubs)
	if w.isBlocked(cs.ScriptHash()) {
		return nil
	}
	token, kind, model := nativehashes.GasToken, "policy.recoverFund.gas", false
	if w.r.Bool() {
		token, kind, model = nativehashes.NeoToken, "policy.recoverFund.neo", true
	}
	tx := w.mkTx(callScript(nativehashes.PolicyContract, "recoverFund", acc, token), 0, w.net.Single(p), cs)
	// the preconditions (lock period in block time, "almost full" committee witness) are computed by the model from
	// the witness on the line (c=m:keys), the block timestamps and the blocking history
	idx := make([]string, len(pubs))
	for i, pk := range pubs {
		idx[i] = fmt.Sprint(w.net.IndexOf(pk))
	}
	return &op{kind: kind, tx: tx, votes: true, model: model,
		line: fmt.Sprintf("tx %s c=%d:%s %s %s treasury", sigList(fmt.Sprintf("k%d", p)), m, strings.Join(idx, "."), kind, w.tok(acc))}
}

func (w *world) opDeploy(si int) *op {
	return w.opDeployV(si, w.randManV(si))
}

// opDeployV deploys a fresh generation of slot si with the given manifest variant.
func (w *world) opDeployV(si int, mv *manV) *op {
	s := w.slots[si]
	owner := w.payer()
	if owner < 0 {
		return nil
	}
	w.seq++
	name := fmt.Sprintf("kv%d-%d", si, w.seq)
	variant := byte(w.r.Intn(250))
	// the token must exist before the manifest line is rendered (a permission may name the contract itself)
	probe := w.newKVX(name, variant, defaultManV(), w.net.Account(owner))
	h := probe.Hash(w.net.Account(owner))
	s.gen++
	w.toks[h] = fmt.Sprintf("c%dg%d", si, s.gen)
	kv := w.newKVX(name, variant, mv, w.net.Account(owner))
	tx := w.mkTx(kv.DeployScript([]byte{byte(w.seq)}), 0, w.net.Single(owner))
	s.kv, s.hash, s.owner, s.mv = kv, h, owner, mv
	s.deployed = true // optimistic; re-read from the chain after the block
	return &op{kind: "kv.deploy", tx: tx, model: true, line: fmt.Sprintf("tx %s c=- kv.deploy %s %s", sigList(fmt.Sprintf("k%d", owner)), w.tok(h), w.manLine(mv))}
}

func (w *world) opInvoke(si int) *op {
	s := w.slots[si]
	p := w.payer()
	if p < 0 {
		return nil
	}
	var calls []chainx.Call
	var desc []string
	n := 1 + w.r.Intn(4)
	for i := 0; i < n; i++ {
		key := []byte{byte(w.r.Intn(6))}
		val := w.r.Bytes(1 + w.r.Intn(40))
		switch w.r.Weighted([]int{8, 3, 2, 2, 2, 2}) {
		case 0:
			calls = append(calls, chainx.Call{Hash: s.hash, Method: "put", Args: []any{key, val}, Drop: true})
			desc = append(desc, "put")
		case 1:
			calls = append(calls, chainx.Call{Hash: s.hash, Method: "del", Args: []any{key}, Drop: true})
			desc = append(desc, "del")
		case 2:
			calls = append(calls, chainx.Call{Hash: s.hash, Method: "fill", Args: []any{int64(1 + w.r.Intn(60)), key}, Drop: true})
			desc = append(desc, "fill")
		case 3:
			calls = append(calls, chainx.Call{Hash: s.hash, Method: "putThrow", Args: []any{key, val}, Drop: true, Try: true})
			desc = append(desc, "try-putThrow")
		case 4:
			calls = append(calls, chainx.Call{Hash: s.hash, Method: "putThrow", Args: []any{key, val}, Drop: true})
			desc = append(desc, "putThrow")
		case 5:
			calls = append(calls, chainx.Call{Hash: s.hash, Method: "putAbort", Args: []any{key, val}, Drop: true})
			desc = append(desc, "putAbort")
		}
	}
	abort := w.r.Chance(1, 8)
	if abort {
		desc = append(desc, "abort")
	}
	tx := w.mkTx(chainx.Script(abort, calls...), 0, w.net.Single(p))
	return &op{kind: "kv.invoke", tx: tx, line: fmt.Sprintf("tx %s c=- kv.invoke %s %s", sigList(fmt.Sprintf("k%d", p)), w.tok(s.hash), strings.Join(desc, "+"))}
}

// opUpdate: the contract updates itself through ContractManagement.update (its manifest must permit that call):
// a new NEF with a new manifest variant, or NEF-only (manifest nil: the OLD manifest object of the cache is kept and
// serialised again).
func (w *world) opUpdate(si int) *op {
	s := w.slots[si]
	p := w.payer()
	if p < 0 {
		return nil
	}
	variant := byte(250 + w.r.Intn(5))
	if w.r.Chance(1, 2) {
		return w.opUpdateKeep(si)
	}
	mv := w.randManV(si)
	mv.groups = nil // a group signs the contract hash, which the update does not change; keep the variant simple
	nkv := w.newKVX(s.kv.Name, variant, mv, w.net.Account(s.owner))
	tx := w.mkTx(chainx.Script(false, chainx.Call{Hash: s.hash, Method: "update", Args: []any{nkv.NEFBytes, nkv.ManBytes, []byte{0xee}}, Drop: true}), 0, w.net.Single(p))
	return &op{kind: "kv.update", tx: tx, model: true, line: fmt.Sprintf("tx %s c=- kv.update %s %s", sigList(fmt.Sprintf("k%d", p)), w.tok(s.hash), w.manLine(mv))}
}

// opUpdateKeep: NEF-only update (manifest nil): ContractManagement keeps the OLD manifest object of its cache and
// serialises it again.
func (w *world) opUpdateKeep(si int) *op {
	s := w.slots[si]
	p := w.payer()
	if p < 0 {
		return nil
	}
	variant := byte(250 + w.r.Intn(5))
	{
		nkv := w.newKVX(s.kv.Name, variant, defaultManV(), w.net.Account(s.owner))
		tx := w.mkTx(chainx.Script(false, chainx.Call{Hash: s.hash, Method: "update", Args: []any{nkv.NEFBytes, nil, []byte{0xee}}, Drop: true}), 0, w.net.Single(p))
		return &op{kind: "kv.update", tx: tx, model: true, line: fmt.Sprintf("tx %s c=- kv.update %s keep", sigList(fmt.Sprintf("k%d", p)), w.tok(s.hash))}
	}
}

func (w *world) opDestroy(si int) *op {
	s := w.slots[si]
	p := w.payer()
	if p < 0 {
		return nil
	}
	tx := w.mkTx(chainx.Script(false, chainx.Call{Hash: s.hash, Method: "destroy", Drop: true}), 0, w.net.Single(p))
	s.deployed = false // optimistic; re-read from the chain after the block
	return &op{kind: "kv.destroy", tx: tx, model: true, votes: true, line: fmt.Sprintf("tx %s c=- kv.destroy %s", sigList(fmt.Sprintf("k%d", p)), w.tok(s.hash))}
}

// faulting entry scripts that touch natives before failing
func (w *world) opFaultAfterNative() *op {
	p := w.payer()
	if p < 0 {
		return nil
	}
	acc := w.net.Account(p)
	bw := io.NewBufBinWriter()
	// a successful NEO self-transfer-to-other followed by ABORT: must leave no trace (incl. votesChanged)
	to := w.net.Account((p + 1) % w.nkeys)
	emit.AppCall(bw.BinWriter, nativehashes.NeoToken, "transfer", callflag.All, acc, to, int64(w.r.Intn(3)), nil)
	emit.Opcodes(bw.BinWriter, opcode.DROP, opcode.ABORT)
	tx := w.mkTx(bw.Bytes(), 0, w.net.Single(p))
	return &op{kind: "fault.after-transfer", tx: tx, model: true,
		line: fmt.Sprintf("tx %s c=- fault", sigList(fmt.Sprintf("k%d", p)))}
}

// ---- result decoding ---------------------------------------------------------------------------

func aerResult(aer *state.AppExecResult) string {
	if aer.VMState != vmstate.Halt {
		return "fault"
	}
	if len(aer.Stack) == 1 {
		if b, ok := aer.Stack[0].(stackitem.Bool); ok {
			if bool(b) {
				return "halt true"
			}
			return "halt false"
		}
	}
	return "halt"
}

func isOutOfGas(aer *state.AppExecResult) bool {
	return aer.VMState != vmstate.Halt && (strings.Contains(aer.FaultException, "gas limit") || strings.Contains(aer.FaultException, "insufficient gas") || strings.Contains(aer.FaultException, "GAS limit"))
}

func sortedKeys[V any](m map[string]V) []string {
	ks := make([]string, 0, len(m))
	for k := range m {
		ks = append(ks, k)
	}
	sort.Strings(ks)
	return ks
}

func pubsIdx(net *chainx.Net, pubs keys.PublicKeys) string {
	s := make([]string, len(pubs))
	for i, p := range pubs {
		s[i] = fmt.Sprint(net.IndexOf(p))
	}
	if len(s) == 0 {
		return "-"
	}
	return strings.Join(s, ".")
}
