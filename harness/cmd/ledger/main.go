// Command ledger: property C01 (replicated state transition is deterministic and restart-transparent).
//
// Search (oracle on the real code): every case builds one random history on replica A (MemoryStore,
// flushed after every block, never restarted) and feeds the same blocks to replica B (random backend,
// random flushes, clean restarts at random heights, GC / state-history / verification options, junk in
// the mempool); after every block everything the property lists is compared.
//
// Correspondence: the decoded operations and the abstract state of the modelled natives (Policy, NEO
// governance) of BOTH replicas are printed per block; the Lean driver runs the same history and the
// same flush/restart schedule on its model.
package main

import (
	"crypto/sha256"
	"encoding/hex"
	"flag"
	"fmt"
	"hash"
	"os"
	"os/exec"
	"path/filepath"
	"sort"
	"strings"
	"time"

	"github.com/nspcc-dev/neo-go/pkg/config"
	"github.com/nspcc-dev/neo-go/pkg/core/block"
	"github.com/nspcc-dev/neo-go/pkg/core/native/nativehashes"
	"github.com/nspcc-dev/neo-go/pkg/core/state"
	"github.com/nspcc-dev/neo-go/pkg/core/transaction"
	"github.com/nspcc-dev/neo-go/pkg/smartcontract/trigger"
	"github.com/nspcc-dev/neo-go/pkg/util"
	"github.com/nspcc-dev/neo-go/pkg/vm/stackitem"
	"github.com/nspcc-dev/neo-go/pkg/vm/vmstate"

	"verif/harness/internal/chainx"
	"verif/harness/internal/hx"
	"verif/harness/internal/prng"
)

type blockRec struct {
	h         uint32
	ops       []*op
	restartB  bool // B was restarted before this block
	epochLast bool
}

type caseRun struct {
	k       int
	f       *hx.Flags
	o       *hx.Out
	r       *prng.R
	sched   *prng.R // B's schedule: separate stream so that -forceRestart style experiments keep the history
	tb      *chainx.TB
	net     *chainx.Net
	w       *world
	a, b    *chainx.Node
	recs    []*blockRec
	csize   int
	desc    string
	gcSleep bool
	// shadow of the NEO cache's votesChanged flag on A (from the NEO events of HALTed transactions and successful
	// block/unblock): only feeds the distribution counters "epoch ends with / without committee recomputation"
	vcA          bool
	failed       bool
	digest       hash.Hash // of everything replica A showed, block by block
	dblPending   string    // a cached setting was written twice in the previous block: read it now, restart B first
	forceRestart bool
	gov          bool // governance-focused profile: elected committee, quiet epochs, block/unblock of candidates
	lastCmt      string
}

// childMode: this process only re-runs one case for its parent (second-process replay) and leaves the
// digest of replica A's observations in <out>/digest.txt.
var childMode = flag.Bool("child", false, "second-process replay of one case (internal)")

func main() {
	f := hx.ParseFlags()
	o := hx.NewOut(f.Out)
	defer o.Close()
	n := f.N(28, 400)
	ncorpus := len(corpus)
	for k := 0; k < n+ncorpus; k++ {
		if !f.Want(k) {
			continue
		}
		c := &caseRun{k: k, f: f, o: o, r: prng.ForCase(f.Seed, k), sched: prng.ForCase(f.Seed^0x5eed5eed, k), digest: sha256.New()}
		o.Case(k)
		err := chainx.Try(func() { c.run() })
		if err != nil {
			// a harness/generator problem, not a property failure: make it visible
			o.Count("case-aborted")
			fmt.Fprintf(os.Stderr, "case %d aborted: %v\n", k, err)
			o.Line("aborted", "aborted")
		}
		c.cleanup()
		dg := hex.EncodeToString(c.digest.Sum(nil))
		if *childMode {
			_ = os.WriteFile(filepath.Join(f.Out, "digest.txt"), []byte(dg), 0o644)
		} else if err == nil && !c.failed && k%4 == 1 {
			c.secondProcess(dg)
		}
	}
	if o.Counters["case-aborted"] > 0 {
		fmt.Fprintf(os.Stderr, "%d cases aborted\n", o.Counters["case-aborted"])
		o.Close()
		os.Exit(3)
	}
}

func (c *caseRun) cleanup() {
	for _, n := range []*chainx.Node{c.a, c.b} {
		if n != nil {
			done := make(chan struct{})
			go func() {
				defer close(done)
				defer func() { _ = recover() }()
				n.Stop()
			}()
			select {
			case <-done:
			case <-time.After(10 * time.Second): // a node wedged by a panic in storeBlock: leave it behind
			}
			n.Backend.Remove()
		}
	}
	if c.tb != nil {
		c.tb.Done()
	}
}

func (c *caseRun) run() {
	r, o := c.r, c.o
	c.tb = chainx.NewTB()
	thorough := c.f.Tier == "thorough"
	var script *corpusCase
	if c.k < len(corpus) {
		script = &corpus[c.k]
	}

	// ---- protocol (shared) configuration
	csize := 2 + r.Weighted([]int{5, 4, 3, 2, 1, 1})
	vcount := 1 + r.Intn(min(4, csize))
	extra := 1 + r.Intn(3)
	srInHeader := r.Chance(1, 3)
	mtb := uint32(8 + r.Intn(20))
	nblocks := 22 + r.Intn(19)
	if thorough {
		nblocks = 30 + r.Intn(120)
	}
	c.gov = r.Chance(1, 2)
	if script != nil {
		csize, vcount, extra, srInHeader, nblocks = script.csize, script.vcount, script.extra, false, script.blocks
		c.gov = false
	}
	if c.gov {
		o.Count("profile:governance")
	} else {
		o.Count("profile:mixed")
	}
	c.csize = csize
	c.net = chainx.NewNet(r, csize, vcount, extra)
	allHFs := script == nil && r.Chance(1, 2)
	if allHFs {
		o.Count("hardforks:all-known")
	} else {
		o.Count("hardforks:stable")
	}
	proto := func(cfg *config.Blockchain) {
		if allHFs { // every hardfork this snapshot knows, not only the stable ones NewBlockchain enables by default
			cfg.Hardforks = map[string]uint32{}
			for _, hf := range config.Hardforks {
				cfg.Hardforks[hf.String()] = 0
			}
		}
		cfg.StateRootInHeader = srInHeader
		cfg.MaxTraceableBlocks = mtb
		cfg.Genesis.MaxTraceableBlocks = mtb
		cfg.MaxValidUntilBlockIncrement = mtb / 2
		cfg.Genesis.MaxValidUntilBlockIncrement = mtb / 2
	}
	// ---- replica A: memory, flush after every block, never restarted
	cfgA := c.net.BaseConfig(proto)
	var err error
	c.a, err = chainx.StartNode(cfgA, chainx.NewBackend(chainx.Memory))
	if err != nil {
		panic(fmt.Errorf("start A: %w", err))
	}
	// ---- replica B: node-local variations
	s := c.sched
	kindW := []int{6, 2, 2}
	if thorough {
		kindW = []int{2, 1, 1}
	}
	kind := chainx.StoreKind(s.Weighted(kindW))
	gc := s.Chance(1, 3)
	keepLatest := s.Chance(1, 4)
	skipVerif := s.Chance(1, 5)
	noVerifyTx := s.Chance(1, 4)
	saveBatch := s.Chance(1, 5)
	gcPeriod := uint32(1 + s.Intn(4))
	c.gcSleep = gc && s.Chance(1, 3)
	pRestart := []int{0, 1, 2, 4, 8}[s.Intn(5)] // per-block restart probability in 1/16
	pFlush := []int{0, 2, 8, 16}[s.Intn(4)]
	pJunk := []int{0, 2, 6}[s.Intn(3)]
	cfgB := c.net.BaseConfig(func(cfg *config.Blockchain) {
		proto(cfg)
		cfg.RemoveUntraceableBlocks = gc
		cfg.GarbageCollectionPeriod = gcPeriod
		cfg.KeepOnlyLatestState = keepLatest
		cfg.SkipBlockVerification = skipVerif
		cfg.VerifyTransactions = !noVerifyTx
		cfg.SaveStorageBatch = saveBatch
	})
	c.b, err = chainx.StartNode(cfgB, chainx.NewBackend(kind))
	if err != nil {
		panic(fmt.Errorf("start B: %w", err))
	}
	c.desc = fmt.Sprintf("committee=%d validators=%d keys=%d srInHeader=%v mtb=%d | B: %s gc=%v/%d keepLatest=%v skipVerif=%v verifyTx=%v restart=%d/16 flush=%d/16 junk=%d/16",
		csize, vcount, len(c.net.Keys), srInHeader, mtb, kind, gc, gcPeriod, keepLatest, skipVerif, !noVerifyTx, pRestart, pFlush, pJunk)
	o.Count("B.backend:" + kind.String())
	o.Count(fmt.Sprintf("committee-size:%d", csize))
	if gc {
		o.Count("B.gc")
	}
	if keepLatest {
		o.Count("B.keepOnlyLatestState")
	}
	if srInHeader {
		o.Count("stateRootInHeader")
	}
	if skipVerif {
		o.Count("B.skipBlockVerification")
	}
	if noVerifyTx {
		o.Count("B.noVerifyTransactions")
	}

	c.w = newWorld(r, c.tb, c.net, c.a)
	w := c.w
	// net line for the model
	var pubs []string
	for i := range c.net.Keys {
		pubs = append(pubs, hx.Hex(c.net.Pub(i).Bytes()))
	}
	o.Line(fmt.Sprintf("net %d %d %d %s", csize, vcount, len(pubs), strings.Join(pubs, " ")), "ok")
	// protocol configuration the genesis values of the settings come from (the model computes them)
	o.Line(fmt.Sprintf("proto %d %d %d", mtb, mtb/2, cfgA.Genesis.TimePerBlock.Milliseconds()), "ok")
	// genesis observation
	o.Line("genesis", abstractObs(w, c.a.BC)+" | "+abstractObs(w, c.b.BC))

	restarts, sig := 0, []string{}
	for h := uint32(1); h <= uint32(nblocks); h++ {
		rec := &blockRec{h: h, epochLast: (int(h)+1)%csize == 0}
		// ---- choose and build the block's transactions on A
		var ops []*op
		switch {
		case script != nil:
			ops = script.gen(c, h)
		case h == 1:
			ops = c.setupOps()
		case c.gov && h == 2:
			for i := 0; i < w.nkeys; i++ {
				if r.Chance(4, 5) {
					if p := w.opRegister(i, false, false); p != nil {
						ops = append(ops, p)
					}
				}
			}
		case c.gov && h == 3:
			reg := w.registeredKeys()
			for i := 0; i < w.nkeys && len(reg) > 0; i++ {
				if w.neoBalance(c.net.Account(i)) > 0 && r.Chance(4, 5) {
					if p := w.opVote(i, reg[r.Intn(len(reg))], false); p != nil {
						ops = append(ops, p)
					}
				}
			}
		default:
			ntxW := []int{30, 30, 22, 12, 6}
			if c.gov {
				ntxW = []int{55, 30, 10, 4, 1}
			}
			ntx := r.Weighted(ntxW)
			if c.dblPending != "" {
				// the previous block wrote a cached setting twice: read (and use) it in this block, with B restarted in
				// between (its cache rebuilt from storage) three times out of four
				if p := w.opReadSettings(); p != nil {
					ops = append(ops, p)
					o.Count("double-write-read-in-next-block:" + c.dblPending)
				}
				if r.Chance(3, 4) {
					c.forceRestart = true
					o.Count("double-write-then-restart-at-that-height")
				}
				c.dblPending = ""
			}
			if r.Chance(1, 6) {
				if p, kind := w.opDoubleWrite(); p != nil {
					ops = append(ops, p)
					ops = append(ops, w.follow...)
					w.follow = nil
					c.dblPending = kind
					o.Count("double-write-in-one-block:" + kind)
				}
			}
			for i := 0; i < ntx; i++ {
				if p := c.genOp(); p != nil {
					ops = append(ops, p)
				}
				for _, q := range w.follow { // same-block follow-ups of the operation just generated
					if q != nil {
						ops = append(ops, q)
						o.Count("guarded-follow-up-in-same-block")
					}
				}
				w.follow = nil
			}
			if r.Chance(1, 3) { // calls between generated contracts, decided by the caller's cached manifest
				if p := c.forwardOp(); p != nil {
					ops = append(ops, p)
				}
			}
		}
		// a payer that cannot afford the transaction makes no transaction
		kept := ops[:0]
		for _, p := range ops {
			if p != nil && p.tx != nil {
				kept = append(kept, p)
			} else {
				o.Count("op-dropped:payer-cannot-afford")
			}
		}
		ops = kept
		w.spent = nil
		rec.ops = ops
		txs := make([]*transaction.Transaction, len(ops))
		for i, p := range ops {
			txs[i] = p.tx
		}
		blk := w.exec.NewUnsignedBlock(c.tb, txs...)
		if script == nil && r.Chance(1, 25) {
			blk.Timestamp += 366 * 24 * 3600 * 1000 // a year of block time passes (Policy.recoverFund lock period)
			o.Count("time-jump-blocks")
		}
		blk.PrimaryIndex = byte(r.Intn(vcount))
		blk.Nonce = r.U64()
		w.exec.SignBlock(blk)

		// ---- B's schedule before the block
		forced := (script != nil && script.restartBefore(h)) || c.forceRestart
		c.forceRestart = false
		if (script == nil && s.Intn(16) < pRestart) || forced {
			var change func(*config.Blockchain)
			if script == nil && s.Chance(1, 3) {
				// Verification options are not persisted and may change across a restart. (RemoveUntraceableBlocks
				// may not: it selects the MPT node format, a reopened database then fails with "key not found";
				// the property quantifies over configurations, not over configuration changes, so that is not
				// an oracle here.)
				flip := 1 + s.Intn(3)
				change = func(cfg *config.Blockchain) {
					switch flip {
					case 1:
						cfg.SkipBlockVerification = !cfg.SkipBlockVerification
					case 2:
						cfg.VerifyTransactions = !cfg.VerifyTransactions
					default:
						cfg.SaveStorageBatch = !cfg.SaveStorageBatch
					}
				}
				o.Count("B.restart-with-changed-local-config")
			}
			if err := c.b.RestartWith(change); err != nil {
				o.Fail("restart-failed", c.k, "B cannot restart at height %d: %v [%s]", h-1, err, c.desc)
				return
			}
			rec.restartB = true
			c.noteRestart(h)
			restarts++
			o.Count("B.restarts")
			o.Line("restartB", "ok")
			// restart-equivalence on the real code, at the restart height itself: whatever the getters, a read-only
			// invocation, the storage and the roots answer must not change because B's caches were rebuilt
			{
				oa, ob := observe(w, c.a.BC, nil), observe(w, c.b.BC, nil)
				o.Add("observables-compared-at-restart", len(oa))
				for i := range oa {
					if i >= len(ob) || oa[i].name != ob[i].name || oa[i].val != ob[i].val {
						c.recs = append(c.recs, rec)
						c.diverged(h-1, oa[i].name, oa[i].val, ob[i].val)
						return
					}
				}
			}
		} else if script == nil && s.Intn(16) < pFlush {
			if err := c.b.Flush(); err != nil {
				panic(err)
			}
			o.Count("B.flushes")
			o.Line("flushB", "ok")
		}
		if script == nil && s.Intn(16) < pJunk {
			c.junk(txs)
		}
		if c.gcSleep && h%11 == 0 && h <= 44 && !*childMode {
			time.Sleep(1100 * time.Millisecond) // let B's persist timer fire: that is the only trigger of the GC
			o.Count("B.gc-timer-waits")
		}

		// ---- add to A (reference), flush A
		o.Line(fmt.Sprintf("block %d %d %d", h, blk.PrimaryIndex, blk.Timestamp), "ok")
		if err := safeAddBlock(c.a, blk); err != nil {
			if pe, ok := err.(*panicErr); ok {
				// a panic of the real code while applying a block made of valid transactions
				o.Fail("addblock-panic", c.k, "replica A panicked in AddBlock at height %d: %s [%s] history=%s ops=%s", h, pe.msg, c.desc, c.history(), opKinds(ops))
				return
			}
			// The block was built against A's own state: a rejection means A's caches (fees, blocked accounts,
			// balances seen by verification) disagree with A's storage, which the generator reads.
			o.Fail("reference-rejects-own-block", c.k, "replica A rejects a block built from its own state at height %d: %v [%s] history=%s ops=%s", h, err, c.desc, c.history(), opKinds(ops))
			return
		}
		if err := c.a.Flush(); err != nil {
			panic(err)
		}
		o.Count("blocks")
		if int(h)%csize == 0 { // NEO.OnPersist of the first block of an epoch
			c.vcA = false
		}
		// results of the transactions (from A) and op lines
		for _, p := range ops {
			aers, err := c.a.BC.GetAppExecResults(p.tx.Hash(), trigger.Application)
			if err != nil || len(aers) != 1 {
				panic(fmt.Errorf("no exec result on A: %v", err))
			}
			p.result = aerResult(&aers[0])
			if p.kind == "kv.deploy" {
				if w.mgmtToks == nil {
					w.mgmtToks = map[string]bool{}
				}
				f := strings.Fields(p.line)
				w.mgmtToks[f[4]] = true
			}
			o.Count("op:" + p.kind)
			o.Count("result:" + p.result)
			line, obs := p.line, p.result
			if p.kind == "policy.recoverFund.neo" {
				// used by the model only when the Treasury already holds NEO (the GAS reward minted to it triggers its
				// onNEP17Payment with a Null sender; the amount is outside the model)
				if p.result == "fault" {
					line += " rx=no"
				} else {
					line += " rx=ok"
				}
			}
			if isOutOfGas(&aers[0]) {
				o.Count("result:out-of-gas")
				if p.model {
					line += " oog"
				}
			}
			if os.Getenv("LEDGER_DEBUG") != "" && p.result == "fault" {
				fmt.Fprintf(os.Stderr, "fault %s: %s\n", p.line, aers[0].FaultException)
			}
			if guardedKinds[p.kind] {
				if p.result == "fault" {
					o.Count("guarded:" + p.kind + ":fault:" + faultClass(&aers[0]))
				} else {
					o.Count("guarded:" + p.kind + ":halt")
				}
			}
			if !p.model {
				obs = "skip"
				// the cached components take the outcome of these calls from the real result
				if p.result == "fault" {
					line += " =>fault"
				} else {
					line += " =>halt"
				}
			}
			o.Line(line, obs)
			c.afterOp(p, &aers[0])
			if neoVotesEvent(&aers[0]) {
				c.vcA = true
			}
			if (p.kind == "policy.block" || p.kind == "policy.unblock") && p.result == "halt true" {
				c.vcA = true // markCommitteeOutdated (fix d4da6a2)
				if p.blkCand {
					o.Count("candidate-account-(un)blocked")
				}
			}
		}
		if rec.epochLast { // NEO.PostPersist of the last block of an epoch
			if c.vcA {
				o.Count("A.epoch-end-recompute")
			} else {
				o.Count("A.epoch-end-no-recompute")
			}
		}
		c.afterOp(nil, nil) // resync the contract slots even if the block had no transaction
		c.recs = append(c.recs, rec)
		sig = append(sig, opKinds(ops))

		// ---- add to B and compare
		errB := safeAddBlock(c.b, blk)
		if pe, ok := errB.(*panicErr); ok {
			rec.ops = ops
			o.Fail("addblock-panic", c.k, "replica B panicked in AddBlock at height %d: %s [%s] history=%s", h, pe.msg, c.desc, c.history())
			return
		}
		if errB != nil {
			c.diverged(h, "addblock", "A accepted, B: "+errB.Error(), "")
			return
		}
		oa, ob := observe(w, c.a.BC, blk), observe(w, c.b.BC, blk)
		for _, x := range oa {
			fmt.Fprintf(c.digest, "%d %s=%s\n", h, x.name, x.val)
		}
		o.Add("observables-compared", len(oa))
		for i := range oa {
			if i >= len(ob) || oa[i].name != ob[i].name || oa[i].val != ob[i].val {
				c.diverged(h, oa[i].name, oa[i].val, ob[i].val)
				// still print the abstract observations so that the model's view of the divergence is tied too
				o.Line("endblock", abstractObs(w, c.a.BC)+" | "+abstractObs(w, c.b.BC))
				return
			}
		}
		o.Line("endblock", abstractObs(w, c.a.BC)+" | "+abstractObs(w, c.b.BC))
		if cm := oa[2].val; cm != c.lastCmt {
			if c.lastCmt != "" {
				o.Count("A.committee-changes")
			}
			c.lastCmt = cm
		}
	}
	// ---- final: restart B once more and compare again (clean shutdown at the last height)
	if err := c.b.Restart(); err != nil {
		o.Fail("restart-failed", c.k, "B cannot restart at the end: %v [%s]", err, c.desc)
		return
	}
	c.noteRestart(uint32(nblocks) + 1)
	o.Line("restartB", "ok")
	oa, ob := observe(w, c.a.BC, nil), observe(w, c.b.BC, nil)
	for i := range oa {
		if oa[i].val != ob[i].val {
			c.recs = append(c.recs, &blockRec{h: uint32(nblocks) + 1, restartB: true})
			c.diverged(uint32(nblocks), oa[i].name, oa[i].val, ob[i].val)
			break
		}
	}
	o.Line("final", abstractObs(w, c.a.BC)+" | "+abstractObs(w, c.b.BC))
	// state roots of past heights, where B still has them (no KeepOnlyLatestState / GC)
	if !c.failed {
		for hh := uint32(1); hh <= uint32(nblocks); hh++ {
			rb, err := c.b.BC.GetStateRoot(hh)
			if err != nil {
				continue
			}
			ra, err := c.a.BC.GetStateRoot(hh)
			if err == nil && ra.Root != rb.Root {
				c.diverged(uint32(nblocks), fmt.Sprintf("historic-root[%d]", hh), ra.Root.StringLE(), rb.Root.StringLE())
				break
			}
			o.Count("historic-roots-compared")
		}
	}
	// evidence that B's garbage collector really ran: the state of height 2 is no longer readable
	// (blocks themselves are only removed in batches of 2000, out of reach here)
	if sr, err := c.b.BC.GetStateRoot(2); err == nil {
		if _, err := c.b.BC.GetStateModule().GetState(sr.Root, []byte{0xfb, 0xff, 0xff, 0xff, 14}); err != nil {
			o.Count("B.old-state-unreadable(gc/keepLatest)")
		}
	}
	o.Seen(fmt.Sprintf("%d/%d/%s", csize, restarts, strings.Join(sig, "|")))
	if c.k < len(corpus)+3 {
		o.Sample(fmt.Sprintf("case %d: %s; %d blocks, %d restarts of B; ops: %s", c.k, c.desc, nblocks, restarts, strings.Join(sig, " | ")))
	}
}

// noteRestart: B is restarted before block h (at height h-1): its caches are rebuilt from storage.
func (c *caseRun) noteRestart(h uint32) {
}

// neoVotesEvent: did the transaction emit a NEO event that goes with votesChanged=true?
func neoVotesEvent(aer *state.AppExecResult) bool {
	if aer.VMState != vmstate.Halt {
		return false
	}
	for _, e := range aer.Events {
		if e.ScriptHash != nativehashes.NeoToken {
			continue
		}
		switch e.Name {
		case "Vote", "CandidateStateChanged":
			return true
		case "Transfer":
			f := e.Item.Value().([]stackitem.Item)
			amt, _ := f[2].TryInteger()
			if amt != nil && amt.Sign() > 0 && !f[0].Equals(f[1]) {
				return true
			}
		}
	}
	return false
}

// secondProcess replays the case in a fresh OS process (own heap layout, hash seeds, scheduler) and compares
// the digest of replica A's observations: the same blocks must give the same ledger in any process.
func (c *caseRun) secondProcess(own string) {
	dir, err := os.MkdirTemp("", "verif-ledger-child-")
	if err != nil {
		return
	}
	defer os.RemoveAll(dir)
	cmd := exec.Command(os.Args[0], "-seed", fmt.Sprint(c.f.Seed), "-tier", c.f.Tier, "-only", fmt.Sprint(c.k), "-out", dir, "-child")
	if c.f.Cases > 0 {
		cmd.Args = append(cmd.Args, "-cases", fmt.Sprint(c.f.Cases))
	}
	out, err := cmd.CombinedOutput()
	if err != nil {
		c.o.Count("second-process-failed-to-run")
		fmt.Fprintf(os.Stderr, "case %d: second process: %v: %s\n", c.k, err, out)
		return
	}
	b, err := os.ReadFile(filepath.Join(dir, "digest.txt"))
	if err != nil {
		c.o.Count("second-process-failed-to-run")
		return
	}
	c.o.Count("second-process-replays")
	if string(b) != own {
		c.o.Fail("process-nondeterminism", c.k, "replica A fed the same history in a second OS process shows a different ledger: digest %s vs %s [%s] history=%s", own, string(b), c.desc, c.history())
	}
}

type panicErr struct{ msg string }

func (p *panicErr) Error() string { return "panic: " + p.msg }

// safeAddBlock: a panic of the real code is an observation, not a harness crash.
func safeAddBlock(n *chainx.Node, b *block.Block) (err error) {
	defer func() {
		if r := recover(); r != nil {
			err = &panicErr{msg: fmt.Sprint(r)}
		}
	}()
	return n.BC.AddBlock(b)
}

func opKinds(ops []*op) string {
	ks := make([]string, len(ops))
	for i, p := range ops {
		ks[i] = p.kind
	}
	return strings.Join(ks, ",")
}

// afterOp updates the generator's bookkeeping from the real result.
func (c *caseRun) afterOp(p *op, _ *state.AppExecResult) {
	w := c.w
	for i, s := range w.slots {
		if s.kv == nil {
			continue
		}
		cs := w.bc().GetContractState(s.hash)
		was := s.deployed
		s.deployed = cs != nil
		if was && !s.deployed {
			c.o.Count("contracts-destroyed")
		}
		if !was && s.deployed {
			c.o.Count("contracts-deployed")
		}
		_ = i
	}
}

// ---- divergence classification ---------------------------------------------------------------------

func classOf(name string) string {
	switch {
	case name == "committee" || name == "validators" || name == "newepoch-validators":
		return "committee"
	case strings.HasPrefix(name, "storage["):
		return "storage"
	case name == "root" || name == "local-root":
		return "root"
	}
	return name
}

func (c *caseRun) epochStart(h uint32) uint32 { return h - h%uint32(c.csize) }

// diverged reports a divergence of the two replicas at height h.
func (c *caseRun) diverged(h uint32, name, va, vb string) {
	c.failed = true
	cls := classOf(name)
	key := ""
	{
		// generic shape: first diverging class, whether B restarted in the last two epochs, and the kinds of
		// operations in that window
		from := uint32(0)
		if w2 := uint32(2 * c.csize); h > w2 {
			from = c.epochStart(h - w2)
		}
		kinds := map[string]bool{}
		restarted := false
		for _, rec := range c.recs {
			if rec.h < from {
				continue
			}
			if rec.restartB {
				restarted = true
			}
			for _, p := range rec.ops {
				kinds[p.kind] = true
			}
		}
		ks := make([]string, 0, len(kinds))
		for k := range kinds {
			ks = append(ks, k)
		}
		sort.Strings(ks)
		key = cls + "-diverge"
		if restarted {
			key += "-after-restart"
		}
		key += ":" + strings.Join(ks, "+")
	}
	if strings.HasPrefix(name, "storage[") {
		var id int32
		fmt.Sscanf(name, "storage[%d]", &id)
		vb += " first-difference: " + storageDiff(c, id)
	}
	c.o.Count("diverged")
	c.o.Fail(key, c.k, "replicas differ at height %d in %s: A=%s B=%s [%s] history=%s", h, name, clip(va), clip(vb), c.desc, c.history())
}

// storageDiff names the first key on which the two replicas' contract storage differs.
func storageDiff(c *caseRun, id int32) string {
	dump := func(n *chainx.Node) map[string]string {
		m := map[string]string{}
		n.BC.SeekStorage(id, nil, func(k, v []byte) bool {
			m[hx.Hex(k)] = hx.Hex(v)
			return true
		})
		return m
	}
	ma, mb := dump(c.a), dump(c.b)
	keys := map[string]bool{}
	for k := range ma {
		keys[k] = true
	}
	for k := range mb {
		keys[k] = true
	}
	ks := make([]string, 0, len(keys))
	for k := range keys {
		ks = append(ks, k)
	}
	sort.Strings(ks)
	for _, k := range ks {
		va, oka := ma[k]
		vb, okb := mb[k]
		if !oka || !okb || va != vb {
			return fmt.Sprintf("key=%s A=%s(%v) B=%s(%v)", k, va, oka, vb, okb)
		}
	}
	return "none"
}

func clip(s string) string {
	if len(s) > 600 {
		return s[:600] + "..."
	}
	return s
}

func (c *caseRun) history() string {
	var sb strings.Builder
	for _, rec := range c.recs {
		if rec.restartB {
			sb.WriteString("R ")
		}
		fmt.Fprintf(&sb, "%d:[", rec.h)
		for i, p := range rec.ops {
			if i > 0 {
				sb.WriteByte(' ')
			}
			sb.WriteString(strings.TrimPrefix(p.line, "tx "))
			sb.WriteString("=>" + p.result)
		}
		sb.WriteString("] ")
	}
	return sb.String()
}

// ---- generator ---------------------------------------------------------------------------------------

// setupOps: block 1 funds every key account with GAS and spreads NEO so that voting is effective.
func (c *caseRun) setupOps() []*op {
	w, r := c.w, c.r
	val := w.val.ScriptHash()
	var ops []*op
	// one GAS multi-transfer
	var calls []chainx.Call
	for i := 0; i < w.nkeys; i++ {
		calls = append(calls, chainx.Call{Hash: nativehashes.GasToken, Method: "transfer", Args: []any{val, c.net.Account(i), int64(200_000_0000_0000), nil}, Drop: true})
	}
	tx := w.mkTx(chainx.Script(false, calls...), 0, w.val)
	ops = append(ops, &op{kind: "setup.gas", tx: tx, line: "tx s=val c=- setup.gas"})
	// NEO: a few whales, some small holders
	left := int64(100_000_000)
	for i := 0; i < w.nkeys && left > 0; i++ {
		var amt int64
		sel := r.Intn(4)
		if c.gov && i >= w.nkeys-2 {
			sel = 0 // the spare keys are whales: turnout is effective once they vote
		}
		switch sel {
		case 0:
			amt = int64(5_000_000 + r.Intn(30_000_000))
		case 1:
			amt = int64(1_000_000 + r.Intn(9_000_000))
		case 2:
			amt = int64(r.Intn(1000))
		default:
			continue
		}
		if amt > left {
			amt = left
		}
		left -= amt
		if p := w.opNeoTransfer(val, c.net.Account(i), amt, false); p != nil {
			ops = append(ops, p)
		}
	}
	return ops
}

func (c *caseRun) genOp() *op {
	w, r := c.w, c.r
	nk := w.nkeys
	reg := w.registeredKeys()
	weights := []int{14, 4, 14, 8, 3, 6, 8, 4, 3, 10, 3, 8, 2, 1, 3, 1, 6, 1}
	if c.gov {
		weights = []int{3, 2, 5, 3, 2, 5, 16, 9, 1, 4, 1, 3, 1, 1, 1, 1, 1, 1}
	}
	switch r.Weighted(weights) {
	case 0: // NEO transfer (incl. self / zero / too much / wrong signer)
		from := w.anyAccount()
		to := w.anyAccount()
		if r.Chance(1, 10) {
			to = from
		}
		bal := w.neoBalance(from)
		var amt int64
		switch r.Intn(6) {
		case 0:
			amt = 0
		case 1:
			amt = bal
		case 2:
			amt = bal + 1
		default:
			if bal > 0 {
				amt = 1 + int64(r.U64()%uint64(bal))
			}
		}
		return w.opNeoTransfer(from, to, amt, r.Chance(1, 20))
	case 1:
		from := c.net.Account(r.Intn(nk))
		return w.opGasTransfer(from, w.anyAccount(), int64(r.Intn(1000_0000_0000)))
	case 2: // vote
		acc := r.Intn(nk)
		cand := -1
		switch {
		case len(reg) > 0 && r.Chance(7, 10):
			cand = reg[r.Intn(len(reg))]
		case r.Chance(1, 2):
			cand = r.Intn(nk) // maybe unregistered
		}
		return w.opVote(acc, cand, r.Chance(1, 20))
	case 3:
		return w.opRegister(r.Intn(nk), false, r.Chance(1, 20))
	case 4:
		if len(reg) > 0 && r.Chance(3, 4) {
			return w.opRegister(reg[r.Intn(len(reg))], true, r.Chance(1, 20))
		}
		return w.opRegister(r.Intn(nk), true, false)
	case 5:
		which := r.Intn(3)
		var v int64
		switch which {
		case 0:
			v = int64(r.Intn(3000))
		case 1:
			v = int64(1 + r.Intn(100*10000))
			if r.Chance(1, 2) {
				v = int64(10000 * (1 + r.Intn(60)))
			}
		default:
			v = int64(1 + r.Intn(200000))
		}
		if r.Chance(1, 15) {
			v = -v // out of range: must fault
		}
		return w.opPolicySet(which, v, r.Chance(1, 15))
	case 6: // block: mostly candidates' own accounts
		var h util.Uint160
		switch {
		case len(reg) > 0 && r.Chance(7, 10):
			h = c.net.Account(reg[r.Intn(len(reg))])
		default:
			h = c.net.Account(r.Intn(nk))
		}
		return w.opBlock(h, false, r.Chance(1, 15))
	case 7: // unblock
		var blocked []util.Uint160
		for i := 0; i < nk; i++ {
			if w.isBlocked(c.net.Account(i)) {
				blocked = append(blocked, c.net.Account(i))
			}
		}
		if len(blocked) > 0 && r.Chance(5, 6) {
			return w.opBlock(blocked[r.Intn(len(blocked))], true, r.Chance(1, 15))
		}
		return w.opBlock(c.net.Account(r.Intn(nk)), true, false)
	case 8, 9: // the committee setters whose guards the model predicts
		if r.Chance(1, 12) {
			return w.opMinDeploymentFee()
		}
		return w.opGuarded()
	case 16: // whitelisted fees of generated contracts
		for d := 0; d < len(w.slots); d++ {
			si := (r.Intn(len(w.slots)) + d) % len(w.slots)
			if w.slots[si].deployed {
				return w.opWhitelist(si, r.Chance(1, 5))
			}
		}
		return w.opDeploy(r.Intn(len(w.slots)))
	case 17: // recoverFund of a blocked account
		for i := 0; i < nk; i++ {
			j := (i + r.Intn(nk)) % nk
			if w.isBlocked(c.net.Account(j)) {
				return w.opRecoverFund(c.net.Account(j))
			}
		}
	case 10:
		si := r.Intn(len(w.slots))
		if !w.slots[si].deployed {
			return w.opDeploy(si)
		}
		return w.opInvoke(si)
	case 11:
		if r.Chance(1, 2) {
			if p := c.forwardOp(); p != nil {
				return p
			}
		}
		for d := 0; d < len(w.slots); d++ {
			si := (r.Intn(len(w.slots)) + d) % len(w.slots)
			if w.slots[si].deployed {
				return w.opInvoke(si)
			}
		}
		return w.opDeploy(r.Intn(len(w.slots)))
	case 12:
		for si, s := range w.slots {
			if s.deployed {
				return w.opUpdate(si)
			}
		}
	case 13:
		for si, s := range w.slots {
			if s.deployed && r.Chance(1, 2) {
				return w.opDestroy(si)
			}
		}
	case 14:
		return w.opFaultAfterNative()
	case 15: // GAS payment to a contract (runs onNEP17Payment)
		for _, s := range w.slots {
			if s.deployed {
				return w.opGasTransfer(c.net.Account(r.Intn(nk)), s.hash, int64(1+r.Intn(1000)))
			}
		}
	}
	return nil
}

// junk puts transactions into B's mempool only: the block's own transactions (so that AddBlock takes the
// "already verified" path) and valid transactions that never get into a block.
func (c *caseRun) junk(blockTxs []*transaction.Transaction) {
	w := c.w
	for _, tx := range blockTxs {
		if c.sched.Chance(1, 2) {
			if err := c.b.BC.PoolTx(tx); err == nil {
				c.o.Count("B.junk-pooled:block-tx")
			} else {
				c.o.Count("B.junk-rejected")
			}
		}
	}
	n := c.sched.Intn(3)
	for i := 0; i < n; i++ {
		p := c.sched.Intn(w.nkeys)
		if w.isBlocked(c.net.Account(p)) {
			continue
		}
		// built with the history PRNG untouched: use the schedule stream for the nonce
		script := callScript(nativehashes.GasToken, "transfer", c.net.Account(p), c.net.Account((p+1)%w.nkeys), int64(1+c.sched.Intn(1000)), nil)
		tx := transaction.New(script, 2_0000_0000)
		tx.Nonce = uint32(c.sched.U64())
		tx.ValidUntilBlock = w.bc().BlockHeight() + 2
		sg := c.net.Single(p)
		tx.Signers = []transaction.Signer{{Account: sg.ScriptHash(), Scopes: transaction.CalledByEntry}}
		tx.NetworkFee = 1_0000_0000
		if len(blockTxs) > 0 && c.sched.Chance(1, 2) {
			tx.Attributes = []transaction.Attribute{{Type: transaction.ConflictsT, Value: &transaction.Conflicts{Hash: blockTxs[0].Hash()}}}
			tx.NetworkFee += 1_0000_0000
		}
		if err := sg.SignTx(w.bc().GetConfig().Magic, tx); err != nil {
			panic(err)
		}
		if err := c.b.BC.PoolTx(tx); err == nil {
			c.o.Count("B.junk-pooled:extra-tx")
		} else {
			c.o.Count("B.junk-rejected")
		}
	}
}

// forwardOp: a call from one generated contract to another one (both deployed at some time).
func (c *caseRun) forwardOp() *op {
	w, r := c.w, c.r
	var dep []int
	for i, sl := range w.slots {
		if sl.kv != nil {
			dep = append(dep, i)
		}
	}
	if len(dep) < 2 {
		return nil
	}
	a := dep[r.Intn(len(dep))]
	b := dep[r.Intn(len(dep))]
	if a == b {
		b = dep[(r.Intn(len(dep)-1)+1+indexOf(dep, a))%len(dep)]
	}
	return w.opForward(a, b, []string{"put", "put", "get", "del", "ver"}[r.Intn(5)])
}

func indexOf(l []int, x int) int {
	for i, v := range l {
		if v == x {
			return i
		}
	}
	return 0
}

var _ = block.Block{}
