package main

import (
	"crypto/elliptic"
	"crypto/sha256"
	"encoding/hex"
	"encoding/json"
	"fmt"
	"sort"
	"strings"

	"github.com/nspcc-dev/neo-go/pkg/core"
	"github.com/nspcc-dev/neo-go/pkg/core/block"
	"github.com/nspcc-dev/neo-go/pkg/core/interop/interopnames"
	"github.com/nspcc-dev/neo-go/pkg/core/native/nativehashes"
	"github.com/nspcc-dev/neo-go/pkg/core/native/nativeids"
	"github.com/nspcc-dev/neo-go/pkg/core/native/noderoles"
	"github.com/nspcc-dev/neo-go/pkg/core/state"
	"github.com/nspcc-dev/neo-go/pkg/core/transaction"
	"github.com/nspcc-dev/neo-go/pkg/crypto/keys"
	"github.com/nspcc-dev/neo-go/pkg/io"
	"github.com/nspcc-dev/neo-go/pkg/smartcontract/callflag"
	"github.com/nspcc-dev/neo-go/pkg/smartcontract/trigger"
	"github.com/nspcc-dev/neo-go/pkg/util"
	"github.com/nspcc-dev/neo-go/pkg/vm/emit"
	"github.com/nspcc-dev/neo-go/pkg/vm/opcode"
	"github.com/nspcc-dev/neo-go/pkg/vm/stackitem"

	"verif/harness/internal/chainx"
)

// obsClass is one class of observables; classes are compared in this order and the first
// differing one names the divergence.
type obsClass struct {
	name string
	val  string
}

// observe collects everything property C01 says two replicas must agree on, at the tip.
func observe(w *world, bc *core.Blockchain, b *block.Block) []obsClass {
	var res []obsClass
	add := func(name, val string) { res = append(res, obsClass{name, val}) }
	safe := func(name string, f func() string) {
		add(name, func() (s string) {
			defer func() {
				if r := recover(); r != nil {
					s = fmt.Sprintf("panic: %v", r)
				}
			}()
			return f()
		}())
	}
	net := w.net
	h := bc.BlockHeight()
	add("height", fmt.Sprint(h))
	add("tip", bc.CurrentBlockHash().StringLE())
	// governance getters (native NEO cache)
	safe("committee", func() string {
		c, err := bc.GetCommittee()
		return fmt.Sprintf("%s err=%v", pubsIdx(net, c), err)
	})
	safe("validators", func() string {
		v, err := bc.GetNextBlockValidators()
		return fmt.Sprintf("%s err=%v", pubsIdx(net, v), err)
	})
	safe("newepoch-validators", func() string { return pubsIdx(net, bc.ComputeNextBlockValidators()) })
	safe("enrollments", func() string {
		en, err := bc.GetEnrollments()
		var sb strings.Builder
		for _, e := range en {
			fmt.Fprintf(&sb, "%d:%s ", net.IndexOf(e.Key), e.Votes)
		}
		return fmt.Sprintf("%serr=%v", sb.String(), err)
	})
	// policy getters (native Policy cache)
	safe("policy", func() string {
		d, _ := bc.GetMaxNotValidBeforeDelta()
		return fmt.Sprintf("fpb=%d bef=%d sp=%d mtb=%d mvubi=%d mspb=%d mvg=%d nvbd=%d nsf=%d", bc.FeePerByte(), bc.GetBaseExecFee(), bc.GetStoragePrice(),
			bc.GetMaxTraceableBlocks(), bc.GetMaxValidUntilBlockIncrement(), bc.GetMillisecondsPerBlock(), bc.GetMaxVerificationGAS(), d, bc.GetNotaryServiceFeePerKey())
	})
	// management cache
	safe("contracts", func() string {
		var sb strings.Builder
		for _, n := range bc.GetNatives() {
			fmt.Fprintf(&sb, "%d:%s:%d ", n.ID, n.Hash.StringLE(), n.UpdateCounter)
		}
		for i, s := range w.slots {
			if s.kv == nil {
				continue
			}
			cs := bc.GetContractState(s.hash)
			if cs == nil {
				fmt.Fprintf(&sb, "c%d:nil ", i)
			} else {
				mj, _ := json.Marshal(&cs.Manifest) // the manifest object the cache holds (wildcards vs empty lists differ in JSON)
				mh := sha256.Sum256(mj)
				fmt.Fprintf(&sb, "c%d:%d:%d:%d:%s ", i, cs.ID, cs.UpdateCounter, cs.NEF.Checksum, hex.EncodeToString(mh[:6]))
			}
		}
		n17 := bc.GetNEP17Contracts()
		sort.Slice(n17, func(i, j int) bool { return n17[i].Compare(n17[j]) < 0 })
		fmt.Fprintf(&sb, "nep17=%d", len(n17))
		for _, x := range n17 {
			sb.WriteString("," + x.StringLE()[:8])
		}
		return sb.String()
	})
	// designate cache
	safe("roles", func() string {
		var sb strings.Builder
		for _, r := range []noderoles.Role{noderoles.StateValidator, noderoles.Oracle, noderoles.NeoFSAlphabet, noderoles.P2PNotary} {
			ks, hh, err := bc.GetDesignatedByRole(r)
			fmt.Fprintf(&sb, "%d=%s@%d/%v ", r, pubsIdx(net, ks), hh, err)
		}
		return sb.String()
	})
	safe("balances", func() string {
		var sb strings.Builder
		accs := w.accountList()
		for _, a := range accs {
			nb, nh := bc.GetGoverningTokenBalance(a)
			cl, err := bc.CalculateClaimable(a, h+1)
			fmt.Fprintf(&sb, "%s:%s:%s@%d:%s/%v ", w.tok(a), bc.GetUtilityTokenBalance(a, util.Uint160{}), nb, nh, cl, err)
		}
		return sb.String()
	})
	// a read-only invocation through the native getters (runs on the caches)
	safe("invoke-getters", func() string { return invokeGetters(w, bc) })
	// execution results of the tip block and its transactions
	safe("aer", func() string {
		var sb strings.Builder
		if b == nil {
			return "-"
		}
		hs := []util.Uint256{b.Hash()}
		for _, tx := range b.Transactions {
			hs = append(hs, tx.Hash())
		}
		for _, hh := range hs {
			aers, err := bc.GetAppExecResults(hh, trigger.All)
			if err != nil {
				fmt.Fprintf(&sb, "err=%v;", err)
				continue
			}
			for i := range aers {
				sb.WriteString(aerString(&aers[i]))
				sb.WriteByte(';')
			}
		}
		return sb.String()
	})
	// full storage dump per contract id
	maxID := int32(0)
	for _, s := range w.slots {
		if s.kv != nil {
			if cs := w.bc().GetContractState(s.hash); cs != nil && cs.ID > maxID {
				maxID = cs.ID
			}
		}
	}
	maxID += 2
	for id := int32(-12); id <= maxID; id++ {
		if id == 0 {
			continue
		}
		id := id
		safe(fmt.Sprintf("storage[%d]", id), func() string {
			hsh := sha256.New()
			n := 0
			bc.SeekStorage(id, nil, func(k, v []byte) bool {
				fmt.Fprintf(hsh, "%x=%x;", k, v)
				n++
				return true
			})
			return fmt.Sprintf("%d:%s", n, hex.EncodeToString(hsh.Sum(nil))[:16])
		})
	}
	safe("root", func() string {
		sr, err := bc.GetStateRoot(h)
		if err != nil {
			return "err=" + err.Error()
		}
		return sr.Root.StringLE()
	})
	safe("local-root", func() string { return bc.GetStateModule().CurrentLocalStateRoot().StringLE() })
	return res
}

func (w *world) accountList() []util.Uint160 {
	var accs []util.Uint160
	for i := 0; i < w.nkeys; i++ {
		accs = append(accs, w.net.Account(i))
	}
	accs = append(accs, w.val.ScriptHash())
	for _, s := range w.slots {
		if s.kv != nil {
			accs = append(accs, s.hash)
		}
	}
	return accs
}

func aerString(a *state.AppExecResult) string {
	st, err := json.Marshal(stackitem.NewArray(a.Stack))
	stack := string(st)
	if err != nil {
		// not JSON-able (interop / recursive): fall back to types
		var ts []string
		for _, it := range a.Stack {
			ts = append(ts, it.Type().String())
		}
		stack = strings.Join(ts, ",")
	} else if s, e := stackitem.ToJSONWithTypes(stackitem.NewArray(a.Stack)); e == nil {
		stack = string(s)
	}
	var ev strings.Builder
	for _, e := range a.Events {
		item := "?"
		if s, err := stackitem.ToJSONWithTypes(e.Item); err == nil {
			item = string(s)
		}
		fmt.Fprintf(&ev, "%s/%s/%s,", e.ScriptHash.StringLE()[:8], e.Name, item)
	}
	return fmt.Sprintf("%s %s gas=%d stack=%s ev=[%s] exc=%q", a.Trigger, a.VMState, a.GasConsumed, stack, ev.String(), a.FaultException)
}

// invokeGetters runs a read-only script on the node (like an RPC invokefunction).
func invokeGetters(w *world, bc *core.Blockchain) string {
	bw := io.NewBufBinWriter()
	emit.AppCall(bw.BinWriter, nativehashes.NeoToken, "getCommittee", callflag.ReadOnly)
	emit.AppCall(bw.BinWriter, nativehashes.NeoToken, "getNextBlockValidators", callflag.ReadOnly)
	emit.AppCall(bw.BinWriter, nativehashes.NeoToken, "getCandidates", callflag.ReadOnly)
	emit.AppCall(bw.BinWriter, nativehashes.NeoToken, "getCommitteeAddress", callflag.ReadOnly)
	emit.AppCall(bw.BinWriter, nativehashes.NeoToken, "getGasPerBlock", callflag.ReadOnly)
	emit.AppCall(bw.BinWriter, nativehashes.NeoToken, "getRegisterPrice", callflag.ReadOnly)
	emit.AppCall(bw.BinWriter, nativehashes.PolicyContract, "getExecPicoFeeFactor", callflag.ReadOnly)
	emit.AppCall(bw.BinWriter, nativehashes.PolicyContract, "getAttributeFee", callflag.ReadOnly, int64(transaction.ConflictsT))
	emit.AppCall(bw.BinWriter, nativehashes.OracleContract, "getPrice", callflag.ReadOnly)
	for _, t := range attrTypes {
		emit.AppCall(bw.BinWriter, nativehashes.PolicyContract, "getAttributeFee", callflag.ReadOnly, int64(t))
	}
	emit.AppCall(bw.BinWriter, nativehashes.PolicyContract, "getMaxValidUntilBlockIncrement", callflag.ReadOnly)
	emit.AppCall(bw.BinWriter, nativehashes.PolicyContract, "getMaxTraceableBlocks", callflag.ReadOnly)
	emit.AppCall(bw.BinWriter, nativehashes.PolicyContract, "getMillisecondsPerBlock", callflag.ReadOnly)
	emit.AppCall(bw.BinWriter, nativehashes.PolicyContract, "getFeePerByte", callflag.ReadOnly)
	emit.AppCall(bw.BinWriter, nativehashes.PolicyContract, "getStoragePrice", callflag.ReadOnly)
	emit.AppCall(bw.BinWriter, nativehashes.ContractManagement, "getMinimumDeploymentFee", callflag.ReadOnly)
	emit.AppCall(bw.BinWriter, nativehashes.Notary, "getMaxNotValidBeforeDelta", callflag.ReadOnly)
	// the whitelisted-fee list, element by element: iterator on top, values accumulate below it
	emit.AppCall(bw.BinWriter, nativehashes.PolicyContract, "getWhitelistFeeContracts", callflag.ReadOnly)
	loop := bw.Len()
	emit.Opcodes(bw.BinWriter, opcode.DUP)
	emit.Syscall(bw.BinWriter, interopnames.SystemIteratorNext)
	jmpPos := bw.Len()
	emit.Instruction(bw.BinWriter, opcode.JMPIFNOT, []byte{0})
	emit.Opcodes(bw.BinWriter, opcode.DUP)
	emit.Syscall(bw.BinWriter, interopnames.SystemIteratorValue)
	emit.Opcodes(bw.BinWriter, opcode.SWAP)
	emit.Instruction(bw.BinWriter, opcode.JMP, []byte{byte(int8(loop - bw.Len()))})
	endPos := bw.Len()
	emit.Opcodes(bw.BinWriter, opcode.DROP)
	// calls into the generated contracts: their price depends on the cached whitelist / fee factors
	for _, sl := range w.slots {
		if sl.kv != nil && bc.GetContractState(sl.hash) != nil {
			emit.AppCall(bw.BinWriter, sl.hash, "get", callflag.ReadOnly, []byte{1})
			emit.AppCall(bw.BinWriter, sl.hash, "ver", callflag.ReadOnly)
		}
	}
	for i := 0; i < w.nkeys; i++ {
		emit.AppCall(bw.BinWriter, nativehashes.PolicyContract, "isBlocked", callflag.ReadOnly, w.net.Account(i))
		emit.AppCall(bw.BinWriter, nativehashes.NeoToken, "getCandidateVote", callflag.ReadOnly, w.net.Pub(i).Bytes())
	}
	script := bw.Bytes()
	script[jmpPos+1] = byte(int8(endPos - jmpPos))
	tx := transaction.New(script, 0)
	tx.Signers = []transaction.Signer{{Account: w.net.Account(0)}}
	ic, err := bc.GetTestVM(trigger.Application, tx, nil)
	if err != nil {
		return "err=" + err.Error()
	}
	defer ic.Finalize()
	ic.VM.LoadWithFlags(tx.Script, callflag.ReadOnly)
	ic.VM.SetGasLimit(100_0000_0000)
	err = ic.VM.Run()
	st, _ := stackitem.ToJSONWithTypes(stackitem.NewArray(ic.VM.Estack().ToArray()))
	hsh := sha256.Sum256(st)
	return fmt.Sprintf("%s err=%v gas=%d stack=%s", ic.VM.State(), err, ic.VM.GasConsumed(), hex.EncodeToString(hsh[:8]))
}

// ---- abstract observation for the model correspondence ---------------------------------------------

// abstractObs prints the state of the modelled natives (Policy + NEO governance) of one replica.
func abstractObs(w *world, bc *core.Blockchain) string {
	var sb strings.Builder
	net := w.net
	fmt.Fprintf(&sb, "h=%d", bc.BlockHeight())
	// whitelisted fees: what the cache answers (getWhitelistFeeContracts) and what storage holds
	fmt.Fprintf(&sb, " wlc=%s wls=%s", joinOrDash(whitelistCached(w, bc)), joinOrDash(whitelistStored(w, bc)))
	// cached components: what the cache answers / what storage holds
	fmt.Fprintf(&sb, " set=%s roles=%s mgmt=%s mdf=%s gpb=%s gpv=%s rw=%s", settingsObs(w, bc), rolesObs(w, bc), mgmtObs(w, bc), mdfObs(w, bc), gpbObs(w, bc), gpvObs(w, bc), rwObs(w, bc))
	// policy (through the cache getters)
	pico := bc.GetBaseExecFee() // picoGAS units after Faun
	fmt.Fprintf(&sb, " fpb=%d eff=%d sp=%d", bc.FeePerByte(), pico, bc.GetStoragePrice())
	// blocked accounts: storage view
	var bl []string
	bc.SeekStorage(nativeids.PolicyContract, []byte{15}, func(k, _ []byte) bool {
		hh, _ := util.Uint160DecodeBytesBE(k)
		bl = append(bl, w.tok(hh))
		return true
	})
	sort.Strings(bl)
	fmt.Fprintf(&sb, " blocked=%s", joinOrDash(bl))
	// candidates: storage view
	cs := candidates(bc)
	var cl []string
	for i := 0; i < w.nkeys; i++ {
		if ci, ok := cs[string(net.Pub(i).Bytes())]; ok {
			r := 0
			if ci.reg {
				r = 1
			}
			cl = append(cl, fmt.Sprintf("%d:%d:%s", i, r, ci.votes))
		}
	}
	fmt.Fprintf(&sb, " cand=%s", joinOrDash(cl))
	vc := bc.GetStorageItem(nativeids.NeoToken, []byte{1})
	fmt.Fprintf(&sb, " vc=%s", bigFromLE(vc))
	// committee: storage view (ordered, with votes)
	var cm []string
	if it, err := stackitem.Deserialize(bc.GetStorageItem(nativeids.NeoToken, []byte{14})); err == nil {
		for _, e := range it.Value().([]stackitem.Item) {
			f := e.Value().([]stackitem.Item)
			kb, _ := f[0].TryBytes()
			v, _ := f[1].TryInteger()
			idx := -1
			for i := 0; i < w.nkeys; i++ {
				if string(net.Pub(i).Bytes()) == string(kb) {
					idx = i
				}
			}
			cm = append(cm, fmt.Sprintf("%d:%s", idx, v))
		}
	}
	fmt.Fprintf(&sb, " cmt=%s", joinOrDash(cm))
	// committee caches
	cc, _ := bc.GetCommittee()
	nv, _ := bc.GetNextBlockValidators()
	fmt.Fprintf(&sb, " ccmt=%s nv=%s nenv=%s", pubsIdx(net, cc), pubsIdx(net, nv), pubsIdx(net, bc.ComputeNextBlockValidators()))
	// NEO balances and votes: storage view of every account record
	var bs []string
	bc.SeekStorage(nativeids.NeoToken, []byte{20}, func(k, si []byte) bool {
		a, err := util.Uint160DecodeBytesBE(k)
		if err != nil {
			return true
		}
		nb, err := state.NEOBalanceFromBytes(si)
		if err != nil {
			return true
		}
		v := "-"
		if nb.VoteTo != nil {
			v = fmt.Sprint(net.IndexOf(nb.VoteTo))
		}
		bs = append(bs, fmt.Sprintf("%s:%s:%s", w.tok(a), nb.Balance.String(), v))
		return true
	})
	sort.Strings(bs)
	fmt.Fprintf(&sb, " neo=%s", joinOrDash(bs))
	return sb.String()
}

func wlEntry(w *world, it stackitem.Item) string {
	f, ok := it.Value().([]stackitem.Item)
	if !ok || len(f) < 4 {
		return "?"
	}
	hb, _ := f[0].TryBytes()
	h, _ := util.Uint160DecodeBytesBE(hb)
	m, _ := f[1].TryBytes()
	fee, _ := f[3].TryInteger()
	return fmt.Sprintf("%s.%s:%s", w.tok(h), string(m), fee)
}

// whitelistCached walks Policy.getWhitelistFeeContracts (served from the cache) in a test invocation.
func whitelistCached(w *world, bc *core.Blockchain) []string {
	bw := io.NewBufBinWriter()
	emit.AppCall(bw.BinWriter, nativehashes.PolicyContract, "getWhitelistFeeContracts", callflag.ReadOnly)
	loop := bw.Len()
	emit.Opcodes(bw.BinWriter, opcode.DUP)
	emit.Syscall(bw.BinWriter, interopnames.SystemIteratorNext)
	jmpPos := bw.Len()
	emit.Instruction(bw.BinWriter, opcode.JMPIFNOT, []byte{0})
	emit.Opcodes(bw.BinWriter, opcode.DUP)
	emit.Syscall(bw.BinWriter, interopnames.SystemIteratorValue)
	emit.Opcodes(bw.BinWriter, opcode.SWAP)
	emit.Instruction(bw.BinWriter, opcode.JMP, []byte{byte(int8(loop - bw.Len()))})
	endPos := bw.Len()
	emit.Opcodes(bw.BinWriter, opcode.DROP)
	script := bw.Bytes()
	script[jmpPos+1] = byte(int8(endPos - jmpPos))
	tx := transaction.New(script, 0)
	tx.Signers = []transaction.Signer{{Account: w.net.Account(0)}}
	ic, err := bc.GetTestVM(trigger.Application, tx, nil)
	if err != nil {
		return []string{"err"}
	}
	defer ic.Finalize()
	ic.VM.LoadWithFlags(script, callflag.ReadOnly)
	ic.VM.SetGasLimit(100_0000_0000)
	if err := ic.VM.Run(); err != nil {
		return []string{"err"}
	}
	var res []string
	for _, it := range ic.VM.Estack().ToArray() {
		res = append(res, wlEntry(w, it))
	}
	sort.Strings(res)
	return res
}

func whitelistStored(w *world, bc *core.Blockchain) []string {
	var res []string
	bc.SeekStorage(nativeids.PolicyContract, []byte{16}, func(_, v []byte) bool {
		it, err := stackitem.Deserialize(v)
		if err != nil {
			res = append(res, "?")
			return true
		}
		res = append(res, wlEntry(w, it))
		return true
	})
	sort.Strings(res)
	return res
}

// invokeInts runs read-only native getters (served from the caches) and returns their integer results.
func invokeInts(w *world, bc *core.Blockchain, calls []chainx.Call) []string {
	bw := io.NewBufBinWriter()
	for _, c := range calls {
		emit.AppCall(bw.BinWriter, c.Hash, c.Method, callflag.ReadOnly, c.Args...)
	}
	tx := transaction.New(bw.Bytes(), 0)
	tx.Signers = []transaction.Signer{{Account: w.net.Account(0)}}
	res := make([]string, len(calls))
	for i := range res {
		res[i] = "err"
	}
	ic, err := bc.GetTestVM(trigger.Application, tx, nil)
	if err != nil {
		return res
	}
	defer ic.Finalize()
	ic.VM.LoadWithFlags(tx.Script, callflag.ReadOnly)
	ic.VM.SetGasLimit(100_0000_0000)
	if err := ic.VM.Run(); err != nil {
		return res
	}
	for i, it := range ic.VM.Estack().ToArray() {
		if i < len(res) {
			if v, err := it.TryInteger(); err == nil {
				res[i] = v.String()
			}
		}
	}
	return res
}

func storedInt(bc *core.Blockchain, id int32, key []byte) string {
	si := bc.GetStorageItem(id, key)
	if si == nil {
		return "nil"
	}
	return bigFromLE(si)
}

// settingsObs: scalar settings of Policy / Notary / Oracle / NEO, cached answer / stored value.
func settingsObs(w *world, bc *core.Blockchain) string {
	var calls []chainx.Call
	for _, t := range attrTypes {
		calls = append(calls, chainx.Call{Hash: nativehashes.PolicyContract, Method: "getAttributeFee", Args: []any{int64(t)}})
	}
	calls = append(calls,
		chainx.Call{Hash: nativehashes.OracleContract, Method: "getPrice"},
		chainx.Call{Hash: nativehashes.NeoToken, Method: "getRegisterPrice"})
	ints := invokeInts(w, bc, calls)
	var out []string
	for i, t := range attrTypes {
		out = append(out, fmt.Sprintf("af%d:%s/%s", t, ints[i], storedInt(bc, nativeids.PolicyContract, []byte{20, byte(t)})))
	}
	nvbd, _ := bc.GetMaxNotValidBeforeDelta()
	out = append(out,
		fmt.Sprintf("vubi:%d/%s", bc.GetMaxValidUntilBlockIncrement(), storedInt(bc, nativeids.PolicyContract, []byte{22})),
		fmt.Sprintf("mtb:%d/%s", bc.GetMaxTraceableBlocks(), storedInt(bc, nativeids.PolicyContract, []byte{23})),
		fmt.Sprintf("mspb:%d/%s", bc.GetMillisecondsPerBlock(), storedInt(bc, nativeids.PolicyContract, []byte{21})),
		fmt.Sprintf("nvbd:%d/%s", nvbd, storedInt(bc, nativeids.Notary, []byte{10})),
		fmt.Sprintf("oprice:%s/%s", ints[len(attrTypes)], storedInt(bc, nativeids.OracleContract, []byte{5})),
		fmt.Sprintf("regprice:%s/%s", ints[len(attrTypes)+1], storedInt(bc, nativeids.NeoToken, []byte{13})))
	return strings.Join(out, ",")
}

var roleIDs = []noderoles.Role{noderoles.StateValidator, noderoles.Oracle, noderoles.NeoFSAlphabet, noderoles.P2PNotary}

func sortedIdx(net *chainx.Net, pubs keys.PublicKeys) string {
	idx := make([]int, len(pubs))
	for i, p := range pubs {
		idx[i] = net.IndexOf(p)
	}
	sort.Ints(idx)
	ss := make([]string, len(idx))
	for i, x := range idx {
		ss[i] = fmt.Sprint(x)
	}
	return joinOrDashSep(ss, ".")
}

func joinOrDashSep(s []string, sep string) string {
	if len(s) == 0 {
		return "-"
	}
	return strings.Join(s, sep)
}

// rolesObs: per role, the cached latest designation (height:nodes) / the stored record with the greatest
// activation height and the number of stored records.
func rolesObs(w *world, bc *core.Blockchain) string {
	var out []string
	for _, r := range roleIDs {
		ks, hh, err := bc.GetDesignatedByRole(r)
		cached := fmt.Sprintf("%d:%s", hh, sortedIdx(w.net, ks))
		if err != nil {
			cached = "err"
		}
		bestH, bestN, n := uint32(0), "-", 0
		bc.SeekStorage(nativeids.RoleManagement, []byte{byte(r)}, func(k, v []byte) bool {
			if len(k) != 4 {
				return true
			}
			n++
			h := uint32(k[0])<<24 | uint32(k[1])<<16 | uint32(k[2])<<8 | uint32(k[3])
			if h >= bestH {
				bestH = h
				var pubs keys.PublicKeys
				if it, err := stackitem.Deserialize(v); err == nil {
					for _, e := range it.Value().([]stackitem.Item) {
						b, _ := e.TryBytes()
						if pk, err := keys.NewPublicKeyFromBytes(b, elliptic.P256()); err == nil {
							pubs = append(pubs, pk)
						}
					}
				}
				bestN = sortedIdx(w.net, pubs)
			}
			return true
		})
		out = append(out, fmt.Sprintf("%d=%s/%d:%s:%d", r, cached, bestH, bestN, n))
	}
	return strings.Join(out, ",")
}

// mgmtObs: per generated contract (every generation), what the CACHE holds — id:updateCounter and the manifest object's
// permissions|trusts|groups|safe methods — / what STORAGE holds (read as raw stack items, not through
// Manifest.FromStackItem), and the stored next contract id.
func mgmtObs(w *world, bc *core.Blockchain) string {
	var toks []string
	byTok := map[string]util.Uint160{}
	for h, t := range w.toks {
		if w.mgmtToks[t] { // contracts whose deployment transaction was part of a block
			toks = append(toks, t)
			byTok[t] = h
		}
	}
	sort.Strings(toks)
	var out []string
	for _, t := range toks {
		h := byTok[t]
		cached, stored := "-", "-"
		if cs := bc.GetContractState(h); cs != nil {
			cached = fmt.Sprintf("%d:%d:%s", cs.ID, cs.UpdateCounter, w.manObjStr(&cs.Manifest))
		}
		if idu, man := storedContract(bc, h); man != nil {
			stored = idu + ":" + w.manItemStr(man)
		} else {
			stored = idu
		}
		out = append(out, fmt.Sprintf("%s=%s/%s", t, cached, stored))
	}
	return joinOrDash(out) + " next=" + storedInt(bc, nativeids.ContractManagement, []byte{15})
}

// mdfObs: ContractManagement.getMinimumDeploymentFee (no cache: re-reads storage through dao.GetInt) / the stored value.
func mdfObs(w *world, bc *core.Blockchain) string {
	g := invokeInts(w, bc, []chainx.Call{{Hash: nativehashes.ContractManagement, Method: "getMinimumDeploymentFee"}})[0]
	return g + "/" + storedInt(bc, nativeids.ContractManagement, []byte{20})
}

// gpvObs: the stored reward-per-vote records of NEO (prefix 23), per key index.
func gpvObs(w *world, bc *core.Blockchain) string {
	recs := map[string]string{}
	bc.SeekStorage(nativeids.NeoToken, []byte{23}, func(k, v []byte) bool {
		recs[string(k)] = bigFromLE(v)
		return true
	})
	var out []string
	for i := 0; i < w.nkeys; i++ {
		if v, ok := recs[string(w.net.Pub(i).Bytes())]; ok {
			out = append(out, fmt.Sprintf("%d:%s", i, v))
		}
	}
	return joinOrDash(out)
}

// rwObs: the reward fields of every stored NEO account record: token:BalanceHeight:LastGasPerVote.
func rwObs(w *world, bc *core.Blockchain) string {
	var rw []string
	bc.SeekStorage(nativeids.NeoToken, []byte{20}, func(k, si []byte) bool {
		a, err := util.Uint160DecodeBytesBE(k)
		if err != nil {
			return true
		}
		nb, err := state.NEOBalanceFromBytes(si)
		if err != nil {
			return true
		}
		rw = append(rw, fmt.Sprintf("%s:%d:%s", w.tok(a), nb.BalanceHeight, nb.LastGasPerVote.String()))
		return true
	})
	sort.Strings(rw)
	return joinOrDash(rw)
}

// gpbObs: NEO.getGasPerBlock (cache, for the next block) / the stored records index:value.
func gpbObs(w *world, bc *core.Blockchain) string {
	c := invokeInts(w, bc, []chainx.Call{{Hash: nativehashes.NeoToken, Method: "getGasPerBlock"}})[0]
	var recs []string
	bc.SeekStorage(nativeids.NeoToken, []byte{29}, func(k, v []byte) bool {
		if len(k) == 4 {
			recs = append(recs, fmt.Sprintf("%d:%s", uint32(k[0])<<24|uint32(k[1])<<16|uint32(k[2])<<8|uint32(k[3]), bigFromLE(v)))
		}
		return true
	})
	return c + "/" + joinOrDashSep(recs, ";")
}

func joinOrDash(s []string) string {
	if len(s) == 0 {
		return "-"
	}
	return strings.Join(s, ",")
}

func bigFromLE(b []byte) string {
	if b == nil {
		return "nil"
	}
	it := stackitem.NewByteArray(b)
	v, err := it.TryInteger()
	if err != nil {
		return "?"
	}
	return v.String()
}

var _ = chainx.Memory
