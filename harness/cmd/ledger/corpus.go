package main

import (
	"verif/harness/internal/chainx"
)

// corpusCase is a hand-written history (runs before the generated cases).
type corpusCase struct {
	name                 string
	csize, vcount, extra int
	blocks               int
	gen                  func(c *caseRun, h uint32) []*op
	restarts             []uint32 // B is restarted before these heights
}

func (cc *corpusCase) restartBefore(h uint32) bool {
	for _, x := range cc.restarts {
		if x == h {
			return true
		}
	}
	return false
}

func compact(ops ...*op) []*op {
	var r []*op
	for _, p := range ops {
		if p != nil {
			r = append(r, p)
		}
	}
	return r
}

// governance prelude shared by the corpus cases: k2 (30M NEO) votes for k1, k3 (10M) votes for k0.
func prelude(c *caseRun, h uint32) []*op {
	w := c.w
	val := w.val.ScriptHash()
	switch h {
	case 1:
		return compact(c.setupGasOnly(), w.opNeoTransfer(val, c.net.Account(2), 30_000_000, false), w.opNeoTransfer(val, c.net.Account(3), 10_000_000, false))
	case 2:
		return compact(w.opRegister(0, false, false), w.opRegister(1, false, false))
	case 3:
		return compact(w.opVote(2, 1, false), w.opVote(3, 0, false))
	}
	return nil
}

var corpus = []corpusCase{
	{
		// DESIGN §6 item 13 (fixed by d4da6a2, kept as regression case): blockAccount of a candidate's own
		// (NEO-less) account mid-epoch, restart of B after it.
		name: "block-candidate-then-restart", csize: 2, vcount: 1, extra: 2, blocks: 11,
		gen: func(c *caseRun, h uint32) []*op {
			if h <= 3 {
				return prelude(c, h)
			}
			if h == 6 {
				return compact(c.w.opBlock(c.net.Account(0), false, false))
			}
			return nil
		},
		restarts: []uint32{7},
	},
	{
		// control: a fee change instead of the block: replicas must stay equal.
		name: "control-setFeePerByte-then-restart", csize: 2, vcount: 1, extra: 2, blocks: 11,
		gen: func(c *caseRun, h uint32) []*op {
			if h <= 3 {
				return prelude(c, h)
			}
			if h == 6 {
				return compact(c.w.opPolicySet(0, 777, false))
			}
			return nil
		},
		restarts: []uint32{7},
	},
	{
		// vote in the last block of an epoch followed by a restart (the example of the property text).
		name: "vote-in-last-epoch-block-then-restart", csize: 2, vcount: 1, extra: 2, blocks: 11,
		gen: func(c *caseRun, h uint32) []*op {
			if h <= 3 {
				return prelude(c, h)
			}
			if h == 7 {
				return compact(c.w.opVote(2, 0, false))
			}
			return nil
		},
		restarts: []uint32{8},
	},
}

func (c *caseRun) setupGasOnly() *op { return c.setupOps()[0] }

func init() {
	corpus = append(corpus, corpusCase{
		// (fixed by cb24446, kept as regression case) whitelisted fee of a method set twice (0, then 0.05 GAS),
		// restart of B, then the method is invoked
		name: "whitelist-fee-updated-then-restart", csize: 2, vcount: 1, extra: 2, blocks: 9,
		gen: func(c *caseRun, h uint32) []*op {
			w := c.w
			switch h {
			case 1:
				return compact(c.setupGasOnly())
			case 2:
				return compact(w.opDeploy(0))
			case 3:
				return compact(w.whitelistOp(w.slots[0].hash, "put", 2, 0, false))
			case 4:
				return compact(w.whitelistOp(w.slots[0].hash, "put", 2, 500_0000, false))
			case 6, 7:
				tx := w.mkTx(chainx.Script(false, chainx.Call{Hash: w.slots[0].hash, Method: "put", Args: []any{[]byte{1}, []byte{2, 3}}, Drop: true}), 0, w.net.Single(2))
				return compact(&op{kind: "kv.invoke", tx: tx, line: "tx s=k2 c=- kv.invoke " + w.tok(w.slots[0].hash) + " put"})
			}
			return nil
		},
		restarts: []uint32{5},
	})
}
