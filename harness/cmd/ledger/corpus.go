package main

import (
	"fmt"
	"math/big"
	"strings"

	"github.com/nspcc-dev/neo-go/pkg/core/native/nativehashes"
	"github.com/nspcc-dev/neo-go/pkg/util"

	"verif/harness/internal/chainx"
)

// corpusCase is a hand-written history (runs before the generated cases).
type corpusCase struct {
	name                 string
	csize, vcount, extra int
	blocks               int
	gen                  func(c *caseRun, h uint32) []*op
	restarts             []uint32 // B is restarted before these heights
}

func (cc *corpusCase) restartBefore(h uint32) bool {
	for _, x := range cc.restarts {
		if x == h {
			return true
		}
	}
	return false
}

func compact(ops ...*op) []*op {
	var r []*op
	for _, p := range ops {
		if p != nil {
			r = append(r, p)
		}
	}
	return r
}

// governance prelude shared by the corpus cases: k2 (30M NEO) votes for k1, k3 (10M) votes for k0.
func prelude(c *caseRun, h uint32) []*op {
	w := c.w
	val := w.val.ScriptHash()
	switch h {
	case 1:
		return compact(c.setupGasOnly(), w.opNeoTransfer(val, c.net.Account(2), 30_000_000, false), w.opNeoTransfer(val, c.net.Account(3), 10_000_000, false))
	case 2:
		return compact(w.opRegister(0, false, false), w.opRegister(1, false, false))
	case 3:
		return compact(w.opVote(2, 1, false), w.opVote(3, 0, false))
	}
	return nil
}

var corpus = []corpusCase{
	{
		// DESIGN §6 item 13 (fixed by d4da6a2, kept as regression case): blockAccount of a candidate's own
		// (NEO-less) account mid-epoch, restart of B after it.
		name: "block-candidate-then-restart", csize: 2, vcount: 1, extra: 2, blocks: 11,
		gen: func(c *caseRun, h uint32) []*op {
			if h <= 3 {
				return prelude(c, h)
			}
			if h == 6 {
				return compact(c.w.opBlock(c.net.Account(0), false, false))
			}
			return nil
		},
		restarts: []uint32{7},
	},
	{
		// control: a fee change instead of the block: replicas must stay equal.
		name: "control-setFeePerByte-then-restart", csize: 2, vcount: 1, extra: 2, blocks: 11,
		gen: func(c *caseRun, h uint32) []*op {
			if h <= 3 {
				return prelude(c, h)
			}
			if h == 6 {
				return compact(c.w.opPolicySet(0, 777, false))
			}
			return nil
		},
		restarts: []uint32{7},
	},
	{
		// vote in the last block of an epoch followed by a restart (the example of the property text).
		name: "vote-in-last-epoch-block-then-restart", csize: 2, vcount: 1, extra: 2, blocks: 11,
		gen: func(c *caseRun, h uint32) []*op {
			if h <= 3 {
				return prelude(c, h)
			}
			if h == 7 {
				return compact(c.w.opVote(2, 0, false))
			}
			return nil
		},
		restarts: []uint32{8},
	},
}

func (c *caseRun) setupGasOnly() *op { return c.setupOps()[0] }

func init() {
	corpus = append(corpus, corpusCase{
		// (fixed by cb24446, kept as regression case) whitelisted fee of a method set twice (0, then 0.05 GAS),
		// restart of B, then the method is invoked
		name: "whitelist-fee-updated-then-restart", csize: 2, vcount: 1, extra: 2, blocks: 9,
		gen: func(c *caseRun, h uint32) []*op {
			w := c.w
			switch h {
			case 1:
				return compact(c.setupGasOnly())
			case 2:
				return compact(w.opDeploy(0))
			case 3:
				return compact(w.whitelistOp(w.slots[0].hash, "put", 2, 0, false))
			case 4:
				return compact(w.whitelistOp(w.slots[0].hash, "put", 2, 500_0000, false))
			case 6, 7:
				tx := w.mkTx(chainx.Script(false, chainx.Call{Hash: w.slots[0].hash, Method: "put", Args: []any{[]byte{1}, []byte{2, 3}}, Drop: true}), 0, w.net.Single(2))
				return compact(&op{kind: "kv.invoke", tx: tx, line: "tx s=k2 c=- kv.invoke " + w.tok(w.slots[0].hash) + " put"})
			}
			return nil
		},
		restarts: []uint32{5},
	})
}

// gcall builds one guarded setter call with explicit arguments (corpus use).
func (w *world) gcall(kind string, bad bool, args ...any) *op {
	targets := map[string]struct {
		h util.Uint160
		m string
	}{
		"policy.setAttributeFee":                {nativehashes.PolicyContract, "setAttributeFee"},
		"policy.setMaxValidUntilBlockIncrement": {nativehashes.PolicyContract, "setMaxValidUntilBlockIncrement"},
		"policy.setMaxTraceableBlocks":          {nativehashes.PolicyContract, "setMaxTraceableBlocks"},
		"policy.setMillisecondsPerBlock":        {nativehashes.PolicyContract, "setMillisecondsPerBlock"},
		"notary.setMaxNotValidBeforeDelta":      {nativehashes.Notary, "setMaxNotValidBeforeDelta"},
		"oracle.setPrice":                       {nativehashes.OracleContract, "setPrice"},
		"neo.setRegisterPrice":                  {nativehashes.NeoToken, "setRegisterPrice"},
		"neo.setGasPerBlock":                    {nativehashes.NeoToken, "setGasPerBlock"},
		"management.setMinimumDeploymentFee":    {nativehashes.ContractManagement, "setMinimumDeploymentFee"},
	}
	t := targets[kind]
	return w.guardedSet(kind, t.h, t.m, bad, args...)
}

// gdes builds one designateAsRole call with explicit key indices (corpus use).
func (w *world) gdes(role int64, bad bool, idx ...int) *op {
	pubs := make([]any, len(idx))
	strs := make([]string, len(idx))
	for i, k := range idx {
		pubs[i] = w.net.Pub(k % w.nkeys).Bytes()
		strs[i] = fmt.Sprint(k % w.nkeys)
	}
	nodes := "-"
	if len(strs) > 0 {
		nodes = strings.Join(strs, ".")
	}
	return w.committeeOp("role.designate", nativehashes.RoleManagement, "designateAsRole",
		fmt.Sprintf("%d %s", role, nodes), true, bad, role, pubs)
}

func init() {
	var mtb0, vub0 int64 // protocol values at genesis of this case
	corpus = append(corpus, corpusCase{
		// every guard of the committee setters at its boundary, on both sides, incl. cross checks that read what an
		// earlier transaction of the same block cached and what a restarted replica re-read from storage
		name: "guard-boundaries", csize: 2, vcount: 1, extra: 2, blocks: 13,
		gen: func(c *caseRun, h uint32) []*op {
			w := c.w
			switch h {
			case 1:
				mtb0, vub0 = int64(w.bc().GetMaxTraceableBlocks()), int64(w.bc().GetMaxValidUntilBlockIncrement())
				return compact(c.setupGasOnly())
			case 2:
				return compact(
					w.gcall("policy.setAttributeFee", false, int64(33), int64(10_0000_0000)),
					w.gcall("policy.setAttributeFee", false, int64(33), int64(10_0000_0001)),
					w.gcall("policy.setAttributeFee", false, int64(34), int64(0)),
					w.gcall("policy.setAttributeFee", false, int64(2), int64(5)),
					w.gcall("policy.setAttributeFee", true, int64(33), int64(7)),
					w.gcall("policy.setAttributeFee", false, int64(256), int64(7)),
					w.gcall("policy.setAttributeFee", false, int64(1), int64(1<<32)))
			case 3:
				return compact(
					w.gcall("policy.setMaxTraceableBlocks", false, mtb0),
					w.gcall("policy.setMaxTraceableBlocks", false, mtb0+1),
					w.gcall("policy.setMaxTraceableBlocks", true, mtb0-1))
			case 4:
				return compact(
					w.gcall("policy.setMaxTraceableBlocks", false, vub0+1),
					w.gcall("policy.setMaxValidUntilBlockIncrement", false, vub0+1), // = the MaxTraceableBlocks just cached: fault
					w.gcall("policy.setMaxValidUntilBlockIncrement", false, vub0))
			case 5: // B restarted before this block: it checks against values re-read from storage
				return compact(
					w.gcall("policy.setMaxTraceableBlocks", false, vub0), // not above MaxValidUntilBlockIncrement: fault
					w.gcall("policy.setMaxValidUntilBlockIncrement", false, vub0-1),
					w.gcall("policy.setMaxTraceableBlocks", false, vub0),
					w.gcall("policy.setMaxValidUntilBlockIncrement", false, int64(0)),
					w.gcall("policy.setMaxValidUntilBlockIncrement", true, vub0-2))
			case 6:
				vub := vub0 - 1
				return compact(
					w.gcall("notary.setMaxNotValidBeforeDelta", false, vub/2),
					w.gcall("notary.setMaxNotValidBeforeDelta", false, vub/2+1),
					w.gcall("notary.setMaxNotValidBeforeDelta", false, int64(1)),
					w.gcall("notary.setMaxNotValidBeforeDelta", false, int64(0)),
					w.gcall("notary.setMaxNotValidBeforeDelta", true, int64(1)))
			case 7:
				return compact(
					w.gcall("policy.setMillisecondsPerBlock", false, int64(30000)),
					w.gcall("policy.setMillisecondsPerBlock", false, int64(30001)),
					w.gcall("policy.setMillisecondsPerBlock", false, int64(0)),
					w.gcall("policy.setMillisecondsPerBlock", false, int64(1)),
					w.gcall("policy.setMillisecondsPerBlock", true, int64(500)),
					w.gcall("policy.setMillisecondsPerBlock", false, int64(1000)))
			case 8:
				return compact(
					w.gcall("neo.setRegisterPrice", false, int64(1)),
					w.gcall("neo.setRegisterPrice", false, int64(0)),
					w.gcall("neo.setRegisterPrice", false, new(big.Int).SetUint64(1<<63)),
					w.gcall("neo.setRegisterPrice", false, int64(1<<63-1)),
					w.gcall("neo.setRegisterPrice", true, int64(77)),
					w.gcall("oracle.setPrice", false, int64(1)),
					w.gcall("oracle.setPrice", false, int64(0)),
					w.gcall("oracle.setPrice", true, int64(5)))
			case 9:
				return compact(
					w.gcall("neo.setGasPerBlock", false, int64(10_0000_0000)),
					w.gcall("neo.setGasPerBlock", false, int64(10_0000_0001)),
					w.gcall("neo.setGasPerBlock", false, int64(0)),
					w.gcall("neo.setGasPerBlock", false, int64(-1)),
					w.gcall("neo.setGasPerBlock", true, int64(3)),
					w.gcall("management.setMinimumDeploymentFee", false, int64(-1)),
					w.gcall("management.setMinimumDeploymentFee", true, int64(7)),
					w.gcall("management.setMinimumDeploymentFee", false, int64(0)),
					w.gcall("management.setMinimumDeploymentFee", false, new(big.Int).Add(new(big.Int).Lsh(big.NewInt(1), 64), big.NewInt(3_0000_0000))))
			case 10: // B restarted before this block
				var many []int
				for i := 0; i < 33; i++ {
					many = append(many, i)
				}
				return compact(
					w.gdes(8, false, 1, 0),
					w.gdes(8, false, 2),       // already designated at this block
					w.gdes(4, false, 1, 2, 1), // duplicates
					w.gdes(16, false),         // empty
					w.gdes(32, false, many...),
					w.gdes(4, true, 0),
					w.gdes(5, false, 0),
					w.gdes(4, false, 3, 0, 2))
			case 11:
				// setFeePerByte(2^64+777): big.Int.Int64 keeps the low 64 bits, the call HALTs and sets 777
				wrap := new(big.Int).Add(new(big.Int).Lsh(big.NewInt(1), 64), big.NewInt(777))
				return compact(w.gdes(8, false, 2), w.gcall("neo.setGasPerBlock", false, int64(4_0000_0000)),
					w.committeeOp("policy.setFeePerByte", nativehashes.PolicyContract, "setFeePerByte", wrap.String(), true, false, wrap),
					w.committeeOp("policy.setStoragePrice", nativehashes.PolicyContract, "setStoragePrice", wrap.String(), true, false, wrap))
			}
			return nil
		},
		restarts: []uint32{5, 10, 12},
	})
}

func init() {
	corpus = append(corpus,
		corpusCase{
			// a candidate registration as the ONLY governance event of an epoch, where it changes the computed committee
			// (one voted candidate is not enough for a 2-seat committee, the second registration makes it elected):
			// registerCandidate must mark the committee outdated; B restarts at the epoch end and recomputes anyway
			name: "registration-only-epoch-then-restart", csize: 2, vcount: 1, extra: 2, blocks: 11,
			gen: func(c *caseRun, h uint32) []*op {
				w := c.w
				switch h {
				case 1:
					return compact(c.setupGasOnly(), w.opNeoTransfer(w.val.ScriptHash(), c.net.Account(2), 30_000_000, false))
				case 2:
					return compact(w.opRegister(0, false, false))
				case 3:
					return compact(w.opVote(2, 0, false))
				case 6:
					return compact(w.opRegister(3, false, false))
				}
				return nil
			},
			restarts: []uint32{8},
		},
		corpusCase{
			// (regression of the gasPerVoteCache wrong-key delete, fix 350d30d) a committee member with accumulated
			// reward per vote loses its votes, unregisters and is dropped; B restarts; the key registers again, is
			// voted back into the committee and accumulates reward from zero — a stale cached value would be added
			name: "candidate-dropped-then-back-in-committee", csize: 2, vcount: 1, extra: 2, blocks: 13,
			gen: func(c *caseRun, h uint32) []*op {
				w := c.w
				if h <= 3 {
					return prelude(c, h)
				}
				switch h {
				case 5:
					return compact(w.opVote(3, -1, false))
				case 6:
					return compact(w.opRegister(0, true, false))
				case 8:
					return compact(w.opRegister(0, false, false))
				case 9:
					return compact(w.opVote(3, 0, false))
				}
				return nil
			},
			restarts: []uint32{8},
		})
}

func init() {
	corpus = append(corpus, corpusCase{
		// (seeded change C01-m5) contracts whose manifests restrict permissions in ways only the stack-item round trip of
		// the manifest could change — an EMPTY method list, an explicit list next to an empty one, a group descriptor —
		// exercised AFTER a restart of replica B (its contract cache is rebuilt by Manifest.FromStackItem): forwarded
		// calls, a NEF-only update (re-serialises the cached manifest object), getContract
		name: "restricted-permission-restart-call", csize: 2, vcount: 1, extra: 2, blocks: 10,
		gen: func(c *caseRun, h uint32) []*op {
			w := c.w
			mg := descV{kind: 1, hash: nativehashes.ContractManagement}
			switch h {
			case 1:
				return compact(c.setupGasOnly())
			case 2:
				callee := w.opDeployV(0, &manV{perms: []permV{{desc: descV{kind: 0}, wild: true}}, safe: []string{"ver"}, groups: []int{1}})
				none := w.opDeployV(1, &manV{perms: []permV{{desc: descV{kind: 0}}}}) // "methods": []
				upd := w.opDeployV(2, &manV{perms: []permV{{desc: mg, methods: []string{"update"}}, {desc: descV{kind: 0}}}, trustsWild: true})
				return compact(callee, none, upd)
			case 3:
				return compact(w.opForward(1, 0, "put"), w.opForward(1, 0, "ver"), w.opForward(0, 1, "put"), w.opForward(2, 0, "put"))
			case 4: // B restarted before this block
				return compact(w.opForward(1, 0, "put"), w.opForward(2, 0, "del"), w.opForward(0, 2, "put"))
			case 5:
				return compact(w.opUpdateKeep(2), w.opUpdateKeep(1))
			case 6:
				return compact(w.opForward(2, 0, "put"), w.opForward(1, 0, "get"))
			case 7: // B restarted again
				return compact(w.opDeployV(1, &manV{perms: []permV{{desc: descV{kind: 2, key: 1}, methods: []string{"put"}}, {desc: descV{kind: 1, hash: w.slots[0].hash}}}, trusts: []descV{mg}}))
			case 8:
				return compact(w.opForward(1, 0, "put"), w.opForward(1, 0, "del"), w.opForward(1, 2, "put"), w.opDestroy(2))
			}
			return nil
		},
		restarts: []uint32{4, 7, 9},
	})
}

func init() {
	corpus = append(corpus, corpusCase{
		// (seeded change C01-m8) the same natively cached setting written twice in ONE block by two HALTed committee
		// transactions — the append-only gasPerBlock cache then holds two records of the same index, storage one —,
		// replica B restarted exactly at that height, the values read and used in the next block
		name: "setting-written-twice-restart-read", csize: 2, vcount: 1, extra: 2, blocks: 8,
		gen: func(c *caseRun, h uint32) []*op {
			w := c.w
			switch h {
			case 1:
				return compact(c.setupGasOnly())
			case 2:
				return compact(
					w.gcall("neo.setGasPerBlock", false, int64(3_0000_0000)),
					w.gcall("neo.setGasPerBlock", false, int64(7_0000_0000)),
					w.gcall("neo.setRegisterPrice", false, int64(11_0000_0000)),
					w.gcall("neo.setRegisterPrice", false, int64(12_0000_0000)),
					w.opPolicySetExact(0, 555), w.opPolicySetExact(0, 777),
					w.gcall("policy.setAttributeFee", false, int64(33), int64(100)),
					w.gcall("policy.setAttributeFee", false, int64(33), int64(200)))
			case 3: // B restarted before this block
				return compact(w.opReadSettings())
			case 4:
				return compact(w.opPolicySetExact(1, 50_0000), w.opPolicySetExact(1, 70_0000),
					w.opPolicySetExact(2, 4444), w.opPolicySetExact(2, 5555),
					w.gcall("neo.setGasPerBlock", false, int64(1_0000_0000)),
					w.gcall("neo.setGasPerBlock", false, int64(2_0000_0000)),
					w.gcall("neo.setGasPerBlock", false, int64(9_0000_0000)))
			case 5: // no restart: both replicas hold the duplicated records
				return compact(w.opReadSettings())
			case 6:
				return compact(w.opRegister(0, false, false), w.opRegister(0, true, false))
			case 7: // B restarted before this block
				return compact(w.opReadSettings())
			}
			return nil
		},
		restarts: []uint32{3, 7},
	})
}
