package main

import (
	"fmt"
	"math/big"

	"github.com/nspcc-dev/neo-go/pkg/vm/opcode"
)

func bi(v int64) *big.Int { return big.NewInt(v) }

func iarg(n *big.Int) arg { return arg{kind: 'i', i: n} }

// argsCase builds "args ; op" with integer arguments given deepest first. Operands outside the
// 256-bit range cannot be constructed, the caller filters them.
func (g *gen) intsCase(fam string, op opcode.Opcode, ns ...*big.Int) *vcase {
	c := &vcase{gas: -1, priced: true, family: fam, hasInts: true, iop: op, ints: ns}
	a := newAsm()
	viaScript := g.r.Bool()
	for _, n := range ns {
		if !inRange(n) {
			return nil
		}
		if viaScript {
			g.emitPrim(a, iarg(n))
		} else {
			c.args = append(c.args, iarg(n))
		}
	}
	a.op(op)
	c.script, _ = a.bytes()
	return c
}

var edgeTargets = []*big.Int{maxI, new(big.Int).Add(maxI, bi(1)), minI, new(big.Int).Sub(minI, bi(1)), bi(0)}

// results at the 2^256 edges: an implementation computing modulo 2^256 (uint256) wraps them to small
// values that would pass a range check made afterwards
var wrapTargets = []*big.Int{pow2(256), new(big.Int).Sub(pow2(256), bi(1)), new(big.Int).Neg(pow2(256)), new(big.Int).Add(pow2(256), maxI),
	new(big.Int).Add(pow2(256), bi(5)), new(big.Int).Sub(bi(5), pow2(256)), pow2(257), pow2(320)}

func (g *gen) delta() *big.Int { return bi(int64(g.r.Intn(3)) - 1) }

// correlated builds operand tuples whose *result* sits on a boundary.
func (g *gen) correlated() *vcase {
	for try := 0; try < 50; try++ {
		var c *vcase
		a := g.bigInt()
		t := new(big.Int).Add(edgeTargets[g.r.Intn(len(edgeTargets))], g.delta())
		wrap := g.r.Intn(6) == 0
		if wrap {
			t = new(big.Int).Add(wrapTargets[g.r.Intn(len(wrapTargets))], g.delta())
			// sums/differences of that size need operands at the ends of the range
			if g.r.Bool() {
				a = new(big.Int).Sub(maxI, bi(int64(g.r.Intn(3))))
			} else {
				a = new(big.Int).Add(minI, bi(int64(g.r.Intn(3))))
			}
			o.Count("correlated:wrap-target")
		}
		switch g.r.Intn(19) {
		case 16: // shared integer: x DUP op must not change the other copy
			c = g.aliasInt()
		case 17: // comparisons with Null operands
			c = g.nullCompare()
		case 18: // conditional jumps on typed operands, short and long forms
			c = g.jumpCase()
		case 0: // a + b = t
			c = g.intsCase("arith", opcode.ADD, a, new(big.Int).Sub(t, a))
		case 1: // a - b = t
			c = g.intsCase("arith", opcode.SUB, a, new(big.Int).Sub(a, t))
		case 2: // a * b ≈ t
			if wrap { // factors of about equal size: a = ±2^k + d, 2 <= k <= 254
				a = pow2(uint(g.r.Range(2, 254)))
				if g.r.Bool() {
					a.Neg(a)
				}
				a.Add(a, g.delta())
			}
			if a.Sign() == 0 {
				continue
			}
			b := new(big.Int).Quo(t, a)
			b.Add(b, g.delta())
			c = g.intsCase("arith", opcode.MUL, a, b)
		case 3: // shifts: a = ±2^(255-n) + d
			n := g.r.Intn(258)
			var x *big.Int
			if n <= 255 {
				x = pow2(uint(255 - n))
			} else {
				x = bi(int64(g.r.Intn(3)))
			}
			if g.r.Bool() {
				x.Neg(x)
			}
			x.Add(x, g.delta())
			op := opcode.SHL
			if g.r.Intn(3) == 0 {
				op = opcode.SHR
			}
			c = g.intsCase("shift", op, x, bi(int64(n)))
		case 4: // SHR of negatives / exact multiples
			n := g.r.Intn(257)
			x := new(big.Int).Mul(bi(int64(g.r.Intn(9))-4), pow2(uint(n%200)))
			x.Add(x, g.delta())
			c = g.intsCase("shift", opcode.SHR, x, bi(int64(n%200)+int64(g.r.Intn(3))-1))
		case 5: // POW near the range limit
			e := g.r.Intn(258) - 1
			if g.r.Bool() {
				e = g.r.Intn(9)
			}
			var base *big.Int
			if e >= 1 {
				base = iroot(pow2(255), e)
				base.Add(base, g.delta())
			} else {
				base = g.bigInt()
			}
			if g.r.Bool() {
				base.Neg(base)
			}
			c = g.intsCase("pow", opcode.POW, base, bi(int64(e)))
		case 6: // SQRT around perfect squares
			k := g.bigInt()
			k.Abs(k)
			k.Sqrt(k) // any k ≤ sqrt(2^255) is fine; the oracle below does not use Sqrt
			if g.r.Bool() {
				k = iroot(pow2(255), 2)
				k.Sub(k, bi(int64(g.r.Intn(3))))
			}
			sq := new(big.Int).Mul(k, k)
			sq.Add(sq, g.delta())
			c = g.intsCase("sqrt", opcode.SQRT, sq)
		case 7: // DIV / MOD sign and boundary combinations
			b := g.bigInt()
			switch g.r.Intn(5) {
			case 0:
				b = bi(-1)
			case 1:
				b = bi(0)
			case 2:
				b = new(big.Int).Add(a, g.delta())
			case 3:
				a = new(big.Int).Set(minI)
			}
			op := opcode.DIV
			if g.r.Bool() {
				op = opcode.MOD
			}
			c = g.intsCase("divmod", op, a, b)
		case 8: // MODMUL
			m := g.bigInt()
			if g.r.Intn(4) == 0 {
				m = bi(int64(g.r.Intn(5)) - 2)
			}
			c = g.intsCase("modmul", opcode.MODMUL, a, g.bigInt(), m)
		case 9: // MODPOW, inverse
			m := g.bigInt()
			if g.r.Bool() {
				m = bi(int64(g.r.Intn(40)) - 2)
			}
			b := g.bigInt()
			switch g.r.Intn(4) {
			case 0:
				b = bi(int64(g.r.Intn(50)) - 3)
			case 1:
				b = new(big.Int).Add(new(big.Int).Mul(m, bi(int64(g.r.Intn(4)))), g.delta())
			}
			c = g.intsCase("modpow", opcode.MODPOW, b, bi(-1), m)
		case 10: // MODPOW, non-negative exponent
			m := g.bigInt()
			if g.r.Bool() {
				m = bi(int64(g.r.Intn(40)) - 20)
			}
			e := g.bigInt()
			switch g.r.Intn(3) {
			case 0:
				e = bi(int64(g.r.Intn(8)) - 2)
			case 1:
				e.Abs(e)
			}
			b := g.bigInt()
			if g.r.Bool() {
				b = bi(int64(g.r.Intn(40)) - 20)
			}
			c = g.intsCase("modpow", opcode.MODPOW, b, e, m)
		case 11: // WITHIN boundaries
			lo, hi := g.bigInt(), g.bigInt()
			x := new(big.Int).Add([]*big.Int{lo, hi}[g.r.Intn(2)], g.delta())
			c = g.intsCase("compare", opcode.WITHIN, x, lo, hi)
		case 12: // comparisons of neighbours
			ops := []opcode.Opcode{opcode.LT, opcode.LE, opcode.GT, opcode.GE, opcode.MIN, opcode.MAX, opcode.NUMEQUAL, opcode.NUMNOTEQUAL}
			c = g.intsCase("compare", ops[g.r.Intn(len(ops))], a, new(big.Int).Add(a, g.delta()))
		case 13: // unary at the edges
			ops := []opcode.Opcode{opcode.ABS, opcode.NEGATE, opcode.INC, opcode.DEC, opcode.SIGN, opcode.INVERT, opcode.NZ}
			c = g.intsCase("arith", ops[g.r.Intn(len(ops))], t)
		case 14: // bitwise with sign patterns
			ops := []opcode.Opcode{opcode.AND, opcode.OR, opcode.XOR}
			b := g.bigInt()
			if g.r.Bool() {
				b = new(big.Int).Not(a)
			}
			c = g.intsCase("bitwise", ops[g.r.Intn(len(ops))], a, b)
		default: // Integer <-> ByteString conversions of encodings
			c = g.convCase()
		}
		if c != nil {
			return c
		}
	}
	return g.intsCase("arith", opcode.ADD, bi(1), bi(2))
}

// iroot = floor(n^(1/k)) by binary search (independent of the code under test).
func iroot(n *big.Int, k int) *big.Int {
	lo, hi := bi(0), new(big.Int).Add(n, bi(1))
	for new(big.Int).Sub(hi, lo).Cmp(bi(1)) > 0 {
		mid := new(big.Int).Add(lo, hi)
		mid.Rsh(mid, 1)
		if new(big.Int).Exp(mid, bi(int64(k)), nil).Cmp(n) <= 0 {
			lo = mid
		} else {
			hi = mid
		}
	}
	return lo
}

// convCase: CONVERT / implicit conversions on number encodings (minimal, padded, 32/33 bytes).
func (g *gen) convCase() *vcase {
	c := &vcase{gas: -1, priced: true, family: "convert"}
	a := newAsm()
	n := g.bigInt()
	enc := toLE(n)
	if n.Sign() == 0 && g.r.Bool() {
		enc = nil
	}
	// pad with sign bytes up to 31/32/33 bytes sometimes (non-minimal forms)
	if g.r.Intn(3) == 0 {
		pad := byte(0)
		if n.Sign() < 0 {
			pad = 0xff
		}
		want := []int{len(enc) + 1, 31, 32, 33}[g.r.Intn(4)]
		for len(enc) < want {
			enc = append(enc, pad)
		}
	}
	src := arg{kind: 's', bs: enc}
	if g.r.Intn(3) == 0 {
		src.kind = 'f'
	}
	switch g.r.Intn(6) {
	case 0: // bytes -> Integer -> ByteString (re-minimised)
		g.emitPrim(a, src)
		a.convert(tInt).convert(tBytes)
	case 1: // Integer -> ByteString -> Integer
		g.emitPrim(a, iarg(n))
		a.convert(tBytes).convert(tInt)
	case 2: // arithmetic on the byte string directly
		g.emitPrim(a, src)
		a.op([]opcode.Opcode{opcode.INC, opcode.NEGATE, opcode.ABS, opcode.SIGN, opcode.NZ, opcode.NOT, opcode.INVERT}[g.r.Intn(7)])
	case 3: // Integer -> Buffer, SIZE
		g.emitPrim(a, iarg(n))
		a.convert(tBuffer).op(opcode.DUP, opcode.SIZE)
	case 4: // Boolean conversions
		g.emitPrim(a, src)
		a.convert(tBool)
	default: // SIZE / PICKITEM 0 of an integer
		g.emitPrim(a, iarg(n))
		a.op(opcode.DUP, opcode.SIZE, opcode.SWAP, opcode.PUSH0, opcode.PICKITEM)
	}
	c.script, _ = a.bytes()
	return c
}

// spliceCase: offsets and lengths relative to the length of the string.
func (g *gen) spliceCase() *vcase {
	c := &vcase{gas: -1, priced: true, family: "splice"}
	a := newAsm()
	s := g.byteString(g.r.Intn(4) == 0)
	L := len(s)
	src := arg{kind: 's', bs: s}
	if g.r.Bool() {
		src.kind = 'f'
	}
	near := func(x int) *big.Int { return bi(int64(x + g.r.Intn(3) - 1)) }
	switch g.r.Intn(7) {
	case 0:
		o := g.r.Intn(L + 2)
		g.emitPrim(a, src)
		a.pushInt(bi(int64(o))).pushInt(near(L - o)).op(opcode.SUBSTR)
	case 1:
		g.emitPrim(a, src)
		a.pushInt(near([]int{0, L}[g.r.Intn(2)])).op(opcode.LEFT)
	case 2:
		g.emitPrim(a, src)
		a.pushInt(near([]int{0, L}[g.r.Intn(2)])).op(opcode.RIGHT)
	case 3: // CAT near MaxSize
		total := 131070 + g.r.Intn(3) - 1
		if g.r.Intn(4*bigDiv) != 0 {
			total = g.r.Intn(80)
		}
		l1 := g.r.Intn(total + 1)
		x := make([]byte, l1)
		y := make([]byte, total-l1)
		if l1 > 0 {
			x[l1-1] = 7
		}
		a.pushData(x).pushData(y).op(opcode.CAT)
	case 4: // NEWBUFFER sizes
		a.pushInt(near([]int{0, 1, 131070, 65536}[g.r.Intn(4)])).op(opcode.NEWBUFFER)
	case 5: // MEMCPY dst di src si n
		D := g.r.Intn(12)
		di := g.r.Intn(D + 2)
		si := g.r.Intn(L + 2)
		n := []int{0, L - si, D - di, 1}[g.r.Intn(4)] + g.r.Intn(3) - 1
		a.pushInt(bi(int64(D))).op(opcode.NEWBUFFER, opcode.DUP)
		a.pushInt(bi(int64(di)))
		g.emitPrim(a, src)
		a.pushInt(bi(int64(si))).pushInt(bi(int64(n))).op(opcode.MEMCPY)
	default: // MEMCPY within one buffer (overlap)
		buf := g.r.Bytes(g.r.Range(1, 12))
		B := len(buf)
		di, si := g.r.Intn(B+1), g.r.Intn(B+1)
		n := g.r.Intn(B + 2)
		a.pushData(buf).convert(tBuffer).op(opcode.DUP)
		a.pushInt(bi(int64(di))).op(opcode.OVER)
		a.pushInt(bi(int64(si))).pushInt(bi(int64(n))).op(opcode.MEMCPY)
	}
	c.script, _ = a.bytes()
	return c
}

// equalCase: EQUAL/NOTEQUAL on related operands (same reference, equal copies, one difference),
// including the comparable-size limits.
func (g *gen) equalCase() *vcase {
	c := &vcase{gas: -1, priced: true, family: "equal"}
	a := newAsm()
	op := opcode.EQUAL
	if g.r.Intn(4) == 0 {
		op = opcode.NOTEQUAL
	}
	sub := newAsm()
	sel := g.r.Intn(8)
	if sel < 2 && g.r.Intn(4*bigDiv) != 0 {
		sel = 3 + g.r.Intn(5) // the two big-string shapes are expensive: 1 in 4 of their share
	}
	switch sel {
	case 0: // big byte strings around the limit
		n := []int{65535, 65536, 65537}[g.r.Intn(3)]
		m := []int{n, 65536, 1, 65537}[g.r.Intn(4)]
		x, y := make([]byte, n), make([]byte, m)
		if g.r.Bool() && m > 0 {
			y[m-1] = 1
		}
		a.pushData(x)
		if g.r.Intn(4) == 0 {
			a.pushInt(bi(5)) // other type
		} else {
			a.pushData(y)
		}
		if g.r.Bool() {
			a.op(opcode.SWAP)
		}
		a.op(op)
		c.script, _ = a.bytes()
		return c
	case 1: // structs holding big byte strings: per-struct size budget
		k := g.r.Range(1, 3)
		n := []int{21845, 21846, 32768, 65535, 65536}[g.r.Intn(5)]
		for rep := 0; rep < 2; rep++ {
			for i := 0; i < k; i++ {
				a.pushData(make([]byte, n))
			}
			a.pushInt(bi(int64(k))).op(opcode.PACKSTRUCT)
		}
		a.op(op)
		c.script, _ = a.bytes()
		return c
	case 2: // the item-count budget: [S,S,S] vs [S',S',S'] with |S| around 681
		n := 679 + g.r.Intn(5)
		k := 3
		if g.r.Intn(4) == 0 {
			n = g.r.Intn(6)
			k = g.r.Range(1, 4)
		}
		for rep := 0; rep < 2; rep++ {
			a.pushInt(bi(int64(n))).op(opcode.NEWSTRUCT)
			for i := 1; i < k; i++ {
				a.op(opcode.DUP)
			}
			a.pushInt(bi(int64(k))).op(opcode.PACKSTRUCT)
		}
		a.op(op)
		c.script, _ = a.bytes()
		return c
	}
	g.emitAny(sub, 0)
	s1, _ := sub.bytes()
	switch g.r.Intn(4) {
	case 0: // same reference
		a.raw(s1...).op(opcode.DUP)
	case 1: // two equal copies
		a.raw(s1...).raw(s1...)
	case 2: // copy converted (struct<->array, bytes<->buffer ...)
		a.raw(s1...).raw(s1...).convert(allTypes[g.r.Intn(10)])
	default: // unrelated
		sub2 := newAsm()
		g.emitAny(sub2, 0)
		s2, _ := sub2.bytes()
		a.raw(s1...).raw(s2...)
	}
	a.op(op)
	c.script, _ = a.bytes()
	return c
}

// ---- short instruction sequences over a reduced instruction set ----

var seqOps = []opcode.Opcode{
	opcode.PUSH0, opcode.PUSH1, opcode.PUSH2, opcode.PUSHM1, opcode.PUSHNULL, opcode.PUSHT, opcode.PUSHF,
	opcode.DUP, opcode.DROP, opcode.SWAP, opcode.OVER, opcode.ROT, opcode.TUCK, opcode.NIP, opcode.DEPTH, opcode.PICK, opcode.ROLL, opcode.XDROP, opcode.REVERSE3, opcode.REVERSEN, opcode.CLEAR,
	opcode.ADD, opcode.SUB, opcode.MUL, opcode.DIV, opcode.MOD, opcode.NEGATE, opcode.ABS, opcode.INC, opcode.DEC, opcode.SIGN, opcode.SHL, opcode.SHR, opcode.POW, opcode.SQRT,
	opcode.MODMUL, opcode.MODPOW, opcode.INVERT, opcode.AND, opcode.OR, opcode.XOR, opcode.NOT, opcode.BOOLAND, opcode.BOOLOR, opcode.NZ,
	opcode.EQUAL, opcode.NOTEQUAL, opcode.NUMEQUAL, opcode.LT, opcode.GE, opcode.MIN, opcode.MAX, opcode.WITHIN,
	opcode.CAT, opcode.LEFT, opcode.RIGHT, opcode.SUBSTR, opcode.NEWBUFFER, opcode.SIZE, opcode.ISNULL,
	opcode.NEWARRAY0, opcode.NEWSTRUCT0, opcode.NEWMAP, opcode.NEWARRAY, opcode.NEWSTRUCT, opcode.PACK, opcode.PACKSTRUCT, opcode.PACKMAP, opcode.UNPACK,
	opcode.APPEND, opcode.SETITEM, opcode.PICKITEM, opcode.REMOVE, opcode.HASKEY, opcode.KEYS, opcode.VALUES, opcode.REVERSEITEMS, opcode.CLEARITEMS, opcode.POPITEM,
	opcode.THROW, opcode.ASSERT, opcode.NOP, opcode.RET,
}

// operand-bearing instructions used in sequences
func (g *gen) seqImm(a *asm) {
	switch g.r.Intn(6) {
	case 0:
		a.raw(byte(opcode.CONVERT), allTypes[g.r.Intn(10)])
	case 1:
		a.raw(byte(opcode.ISTYPE), allTypes[g.r.Intn(len(allTypes))])
	case 2:
		a.raw(byte(opcode.NEWARRAYT), allTypes[g.r.Intn(len(allTypes))])
	case 3:
		g.emitPrim(a, g.prim('i'))
	case 4:
		g.emitPrim(a, g.prim('b'))
	default:
		g.emitPrim(a, g.prim('k'))
	}
}

var seqStartPool = []arg{
	{kind: 'i', i: bi(0)}, {kind: 'i', i: bi(1)}, {kind: 'i', i: bi(-1)}, {kind: 'i', i: bi(2)}, {kind: 'i', i: bi(3)},
	{kind: 'i', i: maxI}, {kind: 'i', i: minI}, {kind: 'i', i: bi(255)}, {kind: 'i', i: bi(256)},
	{kind: 'n'}, {kind: 'b', b: true}, {kind: 'b', b: false},
	{kind: 's', bs: []byte{}}, {kind: 's', bs: []byte{1}}, {kind: 's', bs: []byte{0x80}}, {kind: 's', bs: []byte{1, 2, 3}},
	{kind: 'f', bs: []byte{}}, {kind: 'f', bs: []byte{9, 8}},
}

// seqCase: random sequence; `n` instructions after an initial stack.
func (g *gen) seqCase(n int) *vcase {
	c := &vcase{gas: genGas, priced: true, family: "seq"}
	a := newAsm()
	k := g.r.Intn(5)
	for i := 0; i < k; i++ {
		if g.r.Intn(4) == 0 {
			g.emitCollection(a, 1)
		} else {
			c.args = append(c.args, seqStartPool[g.r.Intn(len(seqStartPool))])
		}
	}
	// collections built by script come after the args, i.e. nearer the top
	for i := 0; i < n; i++ {
		if g.r.Intn(5) == 0 {
			g.seqImm(a)
		} else {
			a.op(seqOps[g.r.Intn(len(seqOps))])
		}
	}
	c.script, _ = a.bytes()
	return c
}

// exhaustive enumeration index -> sequence of exactly 3 reduced-set instructions on a start stack
func exhaustiveSeq(idx int, start []arg) *vcase {
	c := &vcase{gas: genGas, priced: true, family: "seq3"}
	a := newAsm()
	n := len(seqOps)
	for i := 0; i < 3; i++ {
		a.op(seqOps[idx%n])
		idx /= n
	}
	c.args = start
	c.script, _ = a.bytes()
	return c
}

func describe(c *vcase) string {
	return fmt.Sprintf("%s %x %v gas=%d", c.family, c.script, c.args, c.gas)
}

// genGas: gas limit of generated programs (a loop ends after ~20 000 cheap instructions);
// the corpus keeps 2^20 for the cases that need depth (1024 nested calls).
const genGas = 40000

// aliasInt: an integer (or byte string) is duplicated, one copy goes through an instruction, both
// copies stay observable: an instruction must never modify its operand in place.
func (g *gen) aliasInt() *vcase {
	c := &vcase{gas: -1, priced: true, family: "alias"}
	a := newAsm()
	v := iarg(g.bigInt())
	if g.r.Intn(5) == 0 {
		v = arg{kind: 's', bs: g.byteString(false)}
	}
	if g.r.Bool() {
		c.args = append(c.args, v)
	} else {
		g.emitPrim(a, v)
	}
	a.op(opcode.DUP)
	un := []opcode.Opcode{opcode.INC, opcode.DEC, opcode.NEGATE, opcode.ABS, opcode.INVERT, opcode.SIGN, opcode.SQRT, opcode.NOT, opcode.NZ, opcode.SIZE}
	bin := []opcode.Opcode{opcode.ADD, opcode.SUB, opcode.MUL, opcode.DIV, opcode.MOD, opcode.AND, opcode.OR, opcode.XOR, opcode.SHL, opcode.SHR, opcode.MIN, opcode.MAX, opcode.POW, opcode.CAT, opcode.EQUAL, opcode.NUMEQUAL}
	switch g.r.Intn(5) {
	case 0:
		a.op(un[g.r.Intn(len(un))])
	case 1:
		a.convert([]byte{tBytes, tBuffer, tInt, tBool}[g.r.Intn(4)])
	case 2: // x DUP x op : both operands are the same object
		a.op(opcode.DUP, bin[g.r.Intn(len(bin))])
	default:
		g.emitPrim(a, iarg(g.smallInt()))
		if g.r.Bool() {
			a.op(opcode.SWAP)
		}
		a.op(bin[g.r.Intn(len(bin))])
	}
	c.script, _ = a.bytes()
	return c
}

func (g *gen) nullCompare() *vcase {
	c := &vcase{gas: -1, priced: true, family: "compare"}
	a := newAsm()
	ops := []opcode.Opcode{opcode.LT, opcode.LE, opcode.GT, opcode.GE, opcode.NUMEQUAL, opcode.NUMNOTEQUAL, opcode.MIN, opcode.MAX, opcode.EQUAL, opcode.NOTEQUAL}
	vals := []arg{{kind: 'n'}, {kind: 'n'}, iarg(g.bigInt()), {kind: 'b', b: g.r.Bool()}, {kind: 's', bs: g.byteString(false)}, {kind: 'f', bs: []byte{1}}}
	g.emitPrim(a, vals[g.r.Intn(len(vals))])
	g.emitPrim(a, vals[g.r.Intn(len(vals))])
	a.op(ops[g.r.Intn(len(ops))])
	c.script, _ = a.bytes()
	return c
}

// jumpCase: <operands> JMPcc L ; PUSH1 ; L: PUSH2   (short and long forms, typed operands)
func (g *gen) jumpCase() *vcase {
	c := &vcase{gas: genGas, priced: true, family: "jump"}
	a := newAsm()
	short := []opcode.Opcode{opcode.JMP, opcode.JMPIF, opcode.JMPIFNOT, opcode.JMPEQ, opcode.JMPNE, opcode.JMPGT, opcode.JMPGE, opcode.JMPLT, opcode.JMPLE}
	i := g.r.Intn(len(short))
	switch {
	case i == 0:
	case i <= 2:
		g.emitPrim(a, g.prim('B'))
	default:
		x := g.bigInt()
		y := new(big.Int).Add(x, g.delta())
		if g.r.Intn(6) == 0 {
			g.emitPrim(a, g.prim('i'))
		} else {
			g.emitPrim(a, iarg(x))
		}
		if !inRange(y) {
			y = x
		}
		g.emitPrim(a, iarg(y))
	}
	target := "L"
	if g.r.Intn(10) == 0 {
		target = "E" // end of script: the jump itself faults when taken
	}
	if g.r.Bool() {
		a.jmp(short[i], target)
	} else {
		a.jmpL(opcode.Opcode(int(short[i])+1), target)
	}
	a.op(opcode.PUSH1).label("L").op(opcode.PUSH2).label("E")
	c.script, _ = a.bytes()
	return c
}
