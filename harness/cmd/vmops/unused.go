package main

// The generator class "operand validation on the unused path": an operand must be popped, converted and
// validated in the order and on EVERY path the specification says — also on the paths where its value is not
// needed (ASSERTMSG with a true condition still validates the message; BOOLAND with a false operand still
// converts the other one; a comparison with Null; a shift by 0; a zero count / zero length; a key looked up in
// an empty collection; a jump not taken …), and when two operands are both invalid the kind of failure
// (catchable throw or uncatchable FAULT) is decided by the order of the checks.
//
// Systematic part (seed-independent): for every instruction with two or more stack operands and every PAIR
// of operand positions, every pair of representatives of
//   steering values   0, 1, -1, false, true, Null, empty ByteString, empty Array, empty Map
//   invalid values    ByteString of 33 bytes (not convertible to Integer/Boolean), ByteString that is not
//                     UTF-8, Buffer, Array, InteropInterface, 2^31 (not an index)
// goes into the two positions, the other operands keep the values the instruction accepts. Instructions that
// can throw catchably and the jumps also run wrapped in TRY.

import (
	"github.com/nspcc-dev/neo-go/pkg/vm/opcode"
)

var unusedReps = []emitter{
	vInt(0), vInt(1), vInt(-1), vBool(false), vBool(true), vNull(), vBS(),
	func(a *asm, _ *vcase) { a.op(opcode.NEWARRAY0) }, func(a *asm, _ *vcase) { a.op(opcode.NEWMAP) },
	vBS(append(rep(0, 32), 1)...), vBS(0xff, 0xfe), vBuf(1, 2), vArr(vInt(1)), vInterop(), vInt(1 << 31),
}

type unusedCase struct {
	c    *vcase
	wrap bool
}

func buildUnusedPath() []unusedCase {
	var out []unusedCase
	for _, m := range matrixOps() {
		n := len(m.defs)
		if n < 2 {
			continue
		}
		imm := []byte(nil)
		if m.imm != nil {
			imm = m.imm[0]
		}
		wrap := catchable[m.op] || (m.op >= opcode.JMP && m.op <= opcode.JMPLEL) || m.op == opcode.ASSERTMSG
		for i := 0; i < n; i++ {
			for j := i + 1; j < n; j++ {
				for _, x := range unusedReps {
					for _, y := range unusedReps {
						ops := append([]emitter{}, m.defs...)
						ops[i], ops[j] = x, y
						c := m.buildCase(ops, imm)
						c.family = "unused-path"
						out = append(out, unusedCase{c, wrap})
					}
				}
			}
		}
	}
	return out
}
