package main

import (
	"encoding/binary"
	"math/big"

	"github.com/nspcc-dev/neo-go/pkg/encoding/bigint"
	"github.com/nspcc-dev/neo-go/pkg/vm/opcode"
)

// asm is a tiny assembler with labels for relative jumps. It deliberately does not use
// pkg/vm/emit (the emitter is part of the code under test in other properties and normalises
// operands; here every byte is chosen by the generator).
type asm struct {
	b      []byte
	labels map[string]int
	fix    []fixup
}

type fixup struct {
	at    int    // offset of the operand
	from  int    // offset of the instruction the operand is relative to
	label string // target
	wide  bool   // 4-byte operand
}

func newAsm() *asm { return &asm{labels: map[string]int{}} }

func (a *asm) op(ops ...opcode.Opcode) *asm {
	for _, o := range ops {
		a.b = append(a.b, byte(o))
	}
	return a
}

func (a *asm) raw(bs ...byte) *asm { a.b = append(a.b, bs...); return a }

func (a *asm) label(l string) *asm { a.labels[l] = len(a.b); return a }

// jmp emits a 1-byte-offset jump-like instruction (JMP*, CALL, ENDTRY) to a label.
func (a *asm) jmp(o opcode.Opcode, l string) *asm {
	from := len(a.b)
	a.b = append(a.b, byte(o), 0)
	a.fix = append(a.fix, fixup{at: from + 1, from: from, label: l})
	return a
}

// jmpL emits the 4-byte-offset form.
func (a *asm) jmpL(o opcode.Opcode, l string) *asm {
	from := len(a.b)
	a.b = append(a.b, byte(o), 0, 0, 0, 0)
	a.fix = append(a.fix, fixup{at: from + 1, from: from, label: l, wide: true})
	return a
}

// try emits TRY with catch/finally labels ("" = none).
func (a *asm) try(catch, finally string) *asm {
	from := len(a.b)
	a.b = append(a.b, byte(opcode.TRY), 0, 0)
	if catch != "" {
		a.fix = append(a.fix, fixup{at: from + 1, from: from, label: catch})
	}
	if finally != "" {
		a.fix = append(a.fix, fixup{at: from + 2, from: from, label: finally})
	}
	return a
}

func (a *asm) tryL(catch, finally string) *asm {
	from := len(a.b)
	a.b = append(a.b, byte(opcode.TRYL), 0, 0, 0, 0, 0, 0, 0, 0)
	if catch != "" {
		a.fix = append(a.fix, fixup{at: from + 1, from: from, label: catch, wide: true})
	}
	if finally != "" {
		a.fix = append(a.fix, fixup{at: from + 5, from: from, label: finally, wide: true})
	}
	return a
}

// bytes resolves the labels. ok=false if a short offset does not fit.
func (a *asm) bytes() ([]byte, bool) {
	out := append([]byte{}, a.b...)
	for _, f := range a.fix {
		t, ok := a.labels[f.label]
		if !ok {
			return nil, false
		}
		rel := t - f.from
		if f.wide {
			binary.LittleEndian.PutUint32(out[f.at:], uint32(int32(rel)))
		} else {
			if rel < -128 || rel > 127 {
				return nil, false
			}
			out[f.at] = byte(int8(rel))
		}
	}
	return out, true
}

// pushInt emits the shortest constant-push of n (PUSHM1..PUSH16, PUSHINT8..256).
// n must be within 256 bits.
func (a *asm) pushInt(n *big.Int) *asm {
	if n.IsInt64() {
		v := n.Int64()
		if v >= -1 && v <= 16 {
			return a.op(opcode.Opcode(int(opcode.PUSH0) + int(v)))
		}
	}
	enc := bigint.ToBytes(n) // minimal two's complement LE; the model decodes it independently
	return a.pushIntRaw(enc, n.Sign() < 0)
}

// pushIntRaw pads the encoding to the next PUSHINT size.
func (a *asm) pushIntRaw(enc []byte, neg bool) *asm {
	sizes := []int{1, 2, 4, 8, 16, 32}
	for i, s := range sizes {
		if len(enc) <= s {
			pad := byte(0)
			if neg {
				pad = 0xff
			}
			a.b = append(a.b, byte(int(opcode.PUSHINT8)+i))
			a.b = append(a.b, enc...)
			for k := len(enc); k < s; k++ {
				a.b = append(a.b, pad)
			}
			return a
		}
	}
	panic("integer too wide")
}

// pushData emits the shortest PUSHDATA for bs.
func (a *asm) pushData(bs []byte) *asm {
	switch {
	case len(bs) < 0x100:
		a.b = append(a.b, byte(opcode.PUSHDATA1), byte(len(bs)))
	case len(bs) < 0x10000:
		a.b = append(a.b, byte(opcode.PUSHDATA2), byte(len(bs)), byte(len(bs)>>8))
	default:
		a.b = append(a.b, byte(opcode.PUSHDATA4), 0, 0, 0, 0)
		binary.LittleEndian.PutUint32(a.b[len(a.b)-4:], uint32(len(bs)))
	}
	a.b = append(a.b, bs...)
	return a
}

func (a *asm) convert(t byte) *asm { return a.raw(byte(opcode.CONVERT), t) }
