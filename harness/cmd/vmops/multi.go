package main

// Multi-context cases: several scripts loaded one after the other (LoadScript / LoadScriptWithHash /
// LoadNEFMethod) before Run. The last one executes first; when it returns its evaluation stack is
// moved to the script below (checked against the expected number of return values), static slots,
// try stacks and Pointer identity are per script.

import (
	"math/big"

	"github.com/nspcc-dev/neo-go/pkg/vm/opcode"
)

func mkScript(build func(a *asm)) []byte {
	a := newAsm()
	build(a)
	s, ok := a.bytes()
	if !ok {
		panic("multi: bad labels")
	}
	return s
}

// fixed multi-script cases (run with the corpus)
func multiCorpus() []*vcase {
	var cs []*vcase
	add := func(fam string, main preScript, args []arg, pre ...preScript) {
		cs = append(cs, &vcase{pre: pre, rv: main.rv, script: main.script, args: args, gas: 1 << 20, priced: true, family: fam})
	}
	sc := func(rv int, build func(a *asm)) preScript { return preScript{rv, mkScript(build)} }
	push := func(ns ...int64) func(a *asm) {
		return func(a *asm) {
			for _, n := range ns {
				a.pushInt(big.NewInt(n))
			}
			a.op(opcode.RET)
		}
	}
	// return value counts
	for _, rv := range []int{-1, 0, 1} {
		for n := 0; n <= 2; n++ {
			add("multi", sc(rv, push([]int64{7, 8}[:n]...)), nil, sc(-1, func(a *asm) { a.op(opcode.DEPTH, opcode.RET) }))
			add("multi", sc(rv, push([]int64{7, 8}[:n]...)), []arg{iarg(bi(5))}, sc(1, push(1)))
		}
	}
	// the entry script's own rv is never checked
	add("multi", sc(-1, push(1)), nil, sc(1, push(2, 3)))
	add("multi", sc(-1, push(1)), nil, sc(0, push(2, 3)))
	// three scripts: results flow down
	add("multi", sc(-1, push(3)), nil, sc(-1, func(a *asm) { a.op(opcode.ADD, opcode.RET) }), sc(1, func(a *asm) { a.op(opcode.PUSH2, opcode.ADD, opcode.RET) }))
	// arguments belong to the top script only: the one below sees an empty stack
	add("multi", sc(0, func(a *asm) { a.op(opcode.DROP, opcode.RET) }), []arg{iarg(bi(5))}, sc(-1, func(a *asm) { a.op(opcode.DEPTH, opcode.RET) }))
	// static slots are per script
	stat := func(a *asm) { a.raw(byte(opcode.INITSSLOT), 1).op(opcode.PUSH5, opcode.STSFLD0, opcode.LDSFLD0, opcode.RET) }
	add("multi", sc(-1, stat), nil, sc(-1, stat))
	add("multi", sc(-1, stat), nil, sc(-1, func(a *asm) { a.op(opcode.LDSFLD0, opcode.RET) }))
	add("multi", sc(-1, func(a *asm) { a.op(opcode.LDSFLD0, opcode.RET) }), nil, sc(-1, stat))
	// a static array survives in the result after its script is unloaded
	add("multi", sc(1, func(a *asm) {
		a.raw(byte(opcode.INITSSLOT), 1).op(opcode.NEWARRAY0, opcode.DUP, opcode.STSFLD0, opcode.DUP, opcode.PUSH1, opcode.APPEND, opcode.RET)
	}), nil, sc(-1, func(a *asm) { a.op(opcode.DUP, opcode.PUSH2, opcode.APPEND, opcode.RET) }))
	// Pointer identity: a pointer made by another script cannot be called, unless the bytes are the same
	ptr := func(a *asm) { a.raw(byte(opcode.PUSHA), 0, 0, 0, 0).op(opcode.RET) }
	add("multi", sc(-1, ptr), nil, sc(-1, func(a *asm) { a.op(opcode.CALLA, opcode.RET) }))
	add("multi", sc(1, ptr), nil, sc(-1, ptr))
	same := func(a *asm) { // DEPTH 0: make a pointer to the end and return it; DEPTH 1: call it
		a.op(opcode.DEPTH).jmp(opcode.JMPIF, "call")
		a.jmpL(opcode.PUSHA, "fn").op(opcode.RET)
		a.label("call").op(opcode.CALLA, opcode.RET)
		a.label("fn").op(opcode.PUSH9, opcode.RET)
	}
	add("multi", sc(-1, same), nil, sc(-1, same))
	add("multi", sc(1, same), nil, sc(1, same))
	// exceptions: caught inside the script that throws; not catchable by the script below (its TRY has
	// not been entered yet); uncaught in the lower script after the upper one returned
	tryIn := func(a *asm) {
		a.try("C", "").op(opcode.PUSH1, opcode.THROW).label("C").op(opcode.PUSH2).jmp(opcode.ENDTRY, "E").label("E").op(opcode.RET)
	}
	add("multi", sc(-1, tryIn), nil, sc(-1, tryIn))
	add("multi", sc(-1, func(a *asm) { a.op(opcode.PUSH1, opcode.THROW) }), nil, sc(-1, tryIn))
	add("multi", sc(-1, push(4)), nil, sc(-1, func(a *asm) { a.op(opcode.THROW) }))
	add("multi", sc(1, push(4)), nil, sc(-1, func(a *asm) {
		a.try("C", "F").op(opcode.THROW).label("C").op(opcode.INC).jmp(opcode.ENDTRY, "E").label("F").op(opcode.PUSH8, opcode.ENDFINALLY).label("E").op(opcode.RET)
	}))
	// TRY / FINALLY across CALL inside the upper script, value handed down
	add("multi", sc(1, func(a *asm) {
		a.try("", "F").jmp(opcode.CALL, "fn").jmp(opcode.ENDTRY, "E")
		a.label("F").op(opcode.PUSH3, opcode.ADD, opcode.ENDFINALLY)
		a.label("E").op(opcode.RET)
		a.label("fn").op(opcode.PUSH4, opcode.RET)
	}), nil, sc(-1, func(a *asm) { a.op(opcode.DUP, opcode.MUL, opcode.RET) }))
	// an exception thrown in a CALLed function with a FINALLY there and the CATCH in the caller
	add("multi", sc(-1, func(a *asm) {
		a.try("C", "").jmp(opcode.CALL, "fn").jmp(opcode.ENDTRY, "E")
		a.label("C").op(opcode.PUSH9).jmp(opcode.ENDTRY, "E")
		a.label("E").op(opcode.RET)
		a.label("fn").try("", "F2").pushData([]byte("boom")).op(opcode.THROW)
		a.label("F2").op(opcode.PUSH6, opcode.ENDFINALLY)
	}), nil, sc(-1, func(a *asm) { a.op(opcode.DEPTH, opcode.RET) }))
	// ABORTMSG / ASSERTMSG / ASSERT in the upper script stop everything
	add("multi", sc(-1, func(a *asm) { a.pushData([]byte("stop")).op(opcode.ABORTMSG) }), nil, sc(-1, tryIn))
	add("multi", sc(-1, func(a *asm) { a.op(opcode.PUSHF).pushData([]byte("no")).op(opcode.ASSERTMSG, opcode.RET) }), nil, sc(-1, tryIn))
	add("multi", sc(-1, func(a *asm) { a.op(opcode.PUSHT).pushData([]byte("yes")).op(opcode.ASSERTMSG, opcode.PUSH3, opcode.RET) }), nil, sc(-1, tryIn))
	add("multi", sc(-1, func(a *asm) { a.op(opcode.PUSHT).pushData([]byte{0xff, 0xfe}).op(opcode.ASSERTMSG, opcode.RET) }), nil, sc(-1, push(1)))
	add("multi", sc(-1, func(a *asm) { a.op(opcode.PUSHNULL, opcode.ASSERT, opcode.RET) }), nil, sc(-1, push(1)))
	// the invocation stack limit counts all contexts of all scripts
	rec := func(a *asm) { a.label("top").jmp(opcode.CALL, "top") }
	add("multi", sc(-1, rec), nil, sc(-1, push(1)), sc(-1, push(2)))
	// the upper script runs off its end (implicit RET)
	add("multi", sc(1, func(a *asm) { a.op(opcode.PUSH1) }), nil, sc(-1, func(a *asm) { a.op(opcode.INC) }))
	// local slots of the upper script are gone; arguments are taken from the own stack only
	add("multi", sc(1, func(a *asm) { a.op(opcode.PUSH7).raw(byte(opcode.INITSLOT), 1, 1).op(opcode.LDARG0, opcode.STLOC0, opcode.LDLOC0, opcode.RET) }), nil,
		sc(-1, func(a *asm) { a.raw(byte(opcode.INITSLOT), 0, 1).op(opcode.LDARG0, opcode.RET) }))
	add("multi", sc(-1, push()), nil, sc(-1, func(a *asm) { a.raw(byte(opcode.INITSLOT), 0, 1).op(opcode.LDARG0, opcode.RET) }))
	return cs
}

// multiCase generates 2-3 scripts from small templates and structured programs.
func (g *gen) multiCase() *vcase {
	n := g.r.Range(2, 3)
	var ss []preScript
	for i := 0; i < n; i++ {
		rv := []int{-1, -1, 0, 1, 1}[g.r.Intn(5)]
		var s []byte
		top := i == n-1
		switch g.r.Intn(9) {
		case 0, 1: // a structured program (TRY/CALL/slots …)
			s = g.ctlCase().script
		case 2: // k results
			s = mkScript(func(a *asm) {
				k := g.r.Intn(3)
				for j := 0; j < k; j++ {
					g.emitAny(a, 1)
				}
				a.op(opcode.RET)
			})
		case 3: // consume what came from above
			s = mkScript(func(a *asm) {
				a.op([]opcode.Opcode{opcode.ADD, opcode.DEPTH, opcode.DROP, opcode.DUP, opcode.SIZE, opcode.INC, opcode.UNPACK, opcode.NOP}[g.r.Intn(8)])
				if g.r.Bool() {
					a.op(opcode.DEPTH, opcode.PACK)
				}
				a.op(opcode.RET)
			})
		case 4: // statics
			s = mkScript(func(a *asm) {
				if g.r.Intn(4) != 0 {
					a.raw(byte(opcode.INITSSLOT), byte(g.r.Range(1, 2)))
				}
				g.emitAny(a, 1)
				a.op(opcode.STSFLD0, opcode.LDSFLD0)
				if g.r.Bool() {
					a.op(opcode.LDSFLD1)
				}
				a.op(opcode.RET)
			})
		case 5: // pointers
			s = mkScript(func(a *asm) {
				if g.r.Bool() {
					a.op(opcode.DEPTH).jmp(opcode.JMPIF, "call")
				}
				a.jmpL(opcode.PUSHA, "fn").op(opcode.RET)
				a.label("call").op(opcode.CALLA, opcode.RET)
				a.label("fn").op(opcode.PUSH9, opcode.RET)
			})
		case 6: // exceptions
			s = mkScript(func(a *asm) {
				switch g.r.Intn(4) {
				case 0:
					g.emitAny(a, 1)
					a.op(opcode.THROW)
				case 1:
					a.try("C", "").op(opcode.PUSH1, opcode.THROW).label("C").op(opcode.PUSH2).jmp(opcode.ENDTRY, "E").label("E").op(opcode.RET)
				case 2:
					a.try("C", "F").jmp(opcode.CALL, "fn").jmp(opcode.ENDTRY, "E")
					a.label("C").op(opcode.PUSH9).jmp(opcode.ENDTRY, "E")
					a.label("F").op(opcode.PUSH3, opcode.ENDFINALLY)
					a.label("E").op(opcode.RET)
					a.label("fn").op(opcode.DEPTH)
					if g.r.Bool() {
						a.op(opcode.THROW)
					}
					a.op(opcode.RET)
				default:
					a.try("", "F").op(opcode.DEPTH, opcode.THROW).label("F").op(opcode.PUSH6, opcode.ENDFINALLY)
				}
			})
		case 7: // ABORT / ASSERT with messages
			s = mkScript(func(a *asm) {
				msg := [][]byte{[]byte("m"), {}, {0xff}, []byte("long message \xe2\x82\xac"), {0xc0, 0x80}}[g.r.Intn(5)]
				switch g.r.Intn(4) {
				case 0:
					a.pushData(msg).op(opcode.ABORTMSG)
				case 1:
					g.emitPrim(a, g.prim('B'))
					a.pushData(msg).op(opcode.ASSERTMSG, opcode.PUSH1, opcode.RET)
				case 2:
					g.emitPrim(a, g.prim('B'))
					a.op(opcode.ASSERT, opcode.PUSH1, opcode.RET)
				default:
					a.op(opcode.ABORT)
				}
			})
		default: // slots
			s = mkScript(func(a *asm) {
				na := g.r.Intn(3)
				for j := 0; j < na; j++ {
					if top || g.r.Bool() {
						p := &prog{g: g, a: a}
						p.pushSmall()
					}
				}
				a.raw(byte(opcode.INITSLOT), byte(g.r.Intn(3)), byte(na))
				a.op([]opcode.Opcode{opcode.LDARG0, opcode.LDLOC0, opcode.LDARG1, opcode.LDLOC1, opcode.DEPTH}[g.r.Intn(5)])
				if g.r.Bool() {
					a.op(opcode.DUP, opcode.STLOC0, opcode.LDLOC0)
				}
				a.op(opcode.RET)
			})
		}
		ss = append(ss, preScript{rv, s})
	}
	c := &vcase{pre: ss[:n-1], rv: ss[n-1].rv, script: ss[n-1].script, gas: genGas, priced: true, family: "multi"}
	k := g.r.Intn(3)
	for i := 0; i < k; i++ {
		c.args = append(c.args, seqStartPool[g.r.Intn(len(seqStartPool))])
	}
	return c
}

// budgetCorpus: the Struct clone budget (MaxClonableNumOfItems) is only reachable through sharing: a
// struct of k references to ONE struct of m fields holds 1+k+m references but costs k*(1+m) clone steps.
func budgetCorpus() []*vcase {
	var cs []*vcase
	shared := func(a *asm, k, m int64) { // s = [t × k], t = struct of m Nulls
		a.pushInt(big.NewInt(m)).op(opcode.NEWSTRUCT)
		for i := int64(1); i < k; i++ {
			a.op(opcode.DUP)
		}
		a.pushInt(big.NewInt(k)).op(opcode.PACKSTRUCT)
	}
	for _, km := range [][2]int64{{20, 99}, {23, 88}, {22, 92}, {23, 89}, {32, 63}, {10, 100}, {11, 100}, {45, 45}, {2, 1022}, {2, 1023}, {1, 2046}} {
		k, m := km[0], km[1]
		cs = append(cs, &vcase{script: mkScript(func(a *asm) { // APPEND
			shared(a, k, m)
			a.op(opcode.NEWARRAY0, opcode.DUP, opcode.ROT, opcode.APPEND, opcode.SIZE, opcode.RET)
		}), gas: 1 << 24, priced: true, family: "clone-budget"})
		cs = append(cs, &vcase{script: mkScript(func(a *asm) { // SETITEM into a map
			shared(a, k, m)
			a.op(opcode.NEWMAP, opcode.DUP, opcode.ROT, opcode.PUSH0, opcode.SWAP, opcode.SETITEM, opcode.SIZE, opcode.RET)
		}), gas: 1 << 24, priced: true, family: "clone-budget"})
		cs = append(cs, &vcase{script: mkScript(func(a *asm) { // VALUES of an array holding it
			shared(a, k, m)
			a.op(opcode.PUSH1, opcode.PACK, opcode.VALUES, opcode.SIZE, opcode.RET)
		}), gas: 1 << 24, priced: true, family: "clone-budget"})
		cs = append(cs, &vcase{script: mkScript(func(a *asm) { // EQUAL of two such structs: the comparison budget
			shared(a, k, m)
			shared(a, k, m)
			a.op(opcode.EQUAL, opcode.RET)
		}), gas: 1 << 24, priced: true, family: "clone-budget"})
	}
	return cs
}
