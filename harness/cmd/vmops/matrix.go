package main

// The coverage matrix of C13: opcode x operand position x operand type class x outcome class.
//
// The main clause of C13 (real VM = specification for every instruction) is a correspondence, so
// its strength is what the generator reaches. This file makes that reach a checked obligation:
// for EVERY valid opcode and EVERY operand position of it, one case per representative of every
// operand type class is generated (the other operands hold values the instruction accepts), each
// case is run plainly and — if it faults — wrapped in TRY (catchable or not), both runs go through
// the correspondence with the specification, and at the end the harness
//   * writes the full matrix to <out>/matrix.txt,
//   * fails (oracle key `coverage-hole`) if a cell (opcode, position, class) was not reached by a
//     run in which the real VM really started that opcode, if a valid opcode has no row, or if an
//     outcome class an instruction is known to have (HALT / catchable throw / uncatchable FAULT)
//     was not observed for it,
//   * fails (oracle key `catchability`) if an instruction other than PICKITEM, SETITEM, THROW
//     raised a catchable exception or one of those never did.
// The matrix is independent of the seed (it is part of the fixed corpus).

import (
	"fmt"
	"math/big"
	"os"
	"path/filepath"
	"sort"
	"strings"

	"github.com/nspcc-dev/neo-go/pkg/vm/opcode"
)

// emitter pushes one value; it may add pre-pushed arguments to the case (InteropInterface cannot be
// made by an instruction: it is passed as an argument and rolled up from the bottom of the stack).
type emitter func(a *asm, c *vcase)

func vInt(n int64) emitter { return func(a *asm, _ *vcase) { a.pushInt(big.NewInt(n)) } }
func vBig(n *big.Int) emitter {
	return func(a *asm, _ *vcase) { a.pushInt(n) }
}
func vBool(b bool) emitter {
	return func(a *asm, _ *vcase) {
		if b {
			a.op(opcode.PUSHT)
		} else {
			a.op(opcode.PUSHF)
		}
	}
}
func vBS(bs ...byte) emitter  { return func(a *asm, _ *vcase) { a.pushData(bs) } }
func vBuf(bs ...byte) emitter { return func(a *asm, _ *vcase) { a.pushData(bs).convert(tBuffer) } }
func vNull() emitter          { return func(a *asm, _ *vcase) { a.op(opcode.PUSHNULL) } }

// vSeq: Array (pack = PACK) or Struct (PACKSTRUCT) of the given elements, element 0 first.
func vSeq(pack opcode.Opcode, elems ...emitter) emitter {
	return func(a *asm, c *vcase) {
		for i := len(elems) - 1; i >= 0; i-- {
			elems[i](a, c)
		}
		a.pushInt(big.NewInt(int64(len(elems)))).op(pack)
	}
}
func vArr(elems ...emitter) emitter    { return vSeq(opcode.PACK, elems...) }
func vStruct(elems ...emitter) emitter { return vSeq(opcode.PACKSTRUCT, elems...) }
func ints(ns ...int64) []emitter {
	var es []emitter
	for _, n := range ns {
		es = append(es, vInt(n))
	}
	return es
}

// vMap: key/value pairs in insertion order.
func vMap(kv ...emitter) emitter {
	return func(a *asm, c *vcase) {
		for i := len(kv) - 2; i >= 0; i -= 2 {
			kv[i+1](a, c) // value
			kv[i](a, c)   // key on top
		}
		a.pushInt(big.NewInt(int64(len(kv) / 2))).op(opcode.PACKMAP)
	}
}

// vPointer: PUSHA of the function every matrix script carries at its end.
func vPointer() emitter { return func(a *asm, _ *vcase) { a.jmpL(opcode.PUSHA, "F") } }

// vInterop: argument at the bottom of the stack, rolled to the top.
func vInterop() emitter {
	return func(a *asm, c *vcase) {
		c.args = append([]arg{{kind: 'x'}}, c.args...)
		a.op(opcode.DEPTH, opcode.DEC, opcode.ROLL)
	}
}

// self-containing collections
func vArrSelf() emitter { // a = [a]
	return func(a *asm, _ *vcase) { a.op(opcode.NEWARRAY0, opcode.DUP, opcode.DUP, opcode.APPEND) }
}
func vStructSelf() emitter { // s = [arr], arr = [s] (APPEND/SETITEM clone a struct, PACK does not)
	return func(a *asm, _ *vcase) {
		a.op(opcode.NEWSTRUCT0, opcode.DUP, opcode.DUP, opcode.PUSH1, opcode.PACK, opcode.APPEND)
	}
}
func vMapSelf() emitter { // m = {0: m}
	return func(a *asm, _ *vcase) {
		a.op(opcode.NEWMAP, opcode.DUP, opcode.PUSH0, opcode.PUSH2, opcode.PICK, opcode.SETITEM)
	}
}

func rep(b byte, n int) []byte {
	out := make([]byte, n)
	for i := range out {
		out[i] = b
	}
	return out
}

type mclass struct {
	name string
	reps []emitter
}

var two255 = pow2(255)

// the operand type classes of the matrix
var mclasses = []mclass{
	{"int-small", []emitter{vInt(0), vInt(1), vInt(-1), vInt(5)}},
	{"int-edge", []emitter{vBig(maxI), vBig(minI), vBig(new(big.Int).Sub(maxI, bi(1))), vBig(new(big.Int).Add(minI, bi(1)))}},
	// the limit constants as operand values: maxSHLArg, MaxStackSize, MaxSize, int32
	{"int-limit", []emitter{vInt(256), vInt(257), vInt(2048), vInt(2049), vInt(131070), vInt(131071), vInt(1<<31 - 1), vInt(1 << 31), vInt(-(1 << 31)), vInt(-(1 << 31) - 1),
		vInt(255), vInt(65535), vInt(65536), vInt(127), vInt(128)}}, // … and the boundaries of narrow integers (uint8 / uint16 / int8)
	{"bool", []emitter{vBool(true), vBool(false)}},
	{"bs-empty", []emitter{vBS()}},
	{"bs-short", []emitter{vBS(1), vBS(1, 2, 0x83), vBS(0x80), vBS(2, 0, 0, 0)}},
	// 33 bytes: 2^256-1, 2^256, -2^256 … as numbers (not convertible: more than 32 bytes); 65 bytes: above MaxKeySize
	{"bs-long", []emitter{vBS(append(rep(0xff, 32), 0)...), vBS(append(rep(0, 32), 1)...), vBS(append(rep(0, 32), 0xff)...), vBS(rep(7, 65)...)}},
	// sign padding / non-minimal encodings, and the 32-byte encodings of the range ends
	{"bs-padded", []emitter{vBS(1, 0), vBS(0xff, 0), vBS(0xff, 0xff), vBS(append(rep(0, 31), 0x80)...), vBS(append(rep(0xff, 31), 0x7f)...), vBS(rep(0, 32)...)}},
	{"buffer", []emitter{vBuf(), vBuf(1, 2), vBuf(rep(9, 33)...)}},
	{"array-empty", []emitter{func(a *asm, _ *vcase) { a.op(opcode.NEWARRAY0) }}},
	{"array-nested", []emitter{vArr(vArr(vInt(1)), vInt(2)), vArr(vStruct(vInt(1)), vMap(vInt(1), vInt(2)), vNull())}},
	{"array-self", []emitter{vArrSelf()}},
	{"struct-empty", []emitter{func(a *asm, _ *vcase) { a.op(opcode.NEWSTRUCT0) }}},
	{"struct-nested", []emitter{vStruct(vStruct(vInt(1)), vInt(2)), vStruct(vArr(vInt(1)), vBS(1))}},
	{"struct-self", []emitter{vStructSelf()}},
	{"map-empty", []emitter{func(a *asm, _ *vcase) { a.op(opcode.NEWMAP) }}},
	{"map-nonempty", []emitter{vMap(vInt(1), vInt(2), vBS('s'), vInt(3)), vMapSelf()}},
	{"null", []emitter{vNull()}},
	{"pointer", []emitter{vPointer()}},
	{"interop", []emitter{vInterop()}},
}

// mop: one row group of the matrix.
type mop struct {
	op    opcode.Opcode
	defs  []emitter // default operands, deepest first (values the instruction accepts)
	imm   [][]byte  // immediate operand variants (nil = none)
	keep  int       // operand index that is DUPed before the instruction (-1: none) so that a mutation stays visible
	build func(m *mop, a *asm, imm []byte) // emits the instruction and what follows it (default: opcode + immediate)
	pre   func(a *asm)                     // emitted before the operands (slot initialisation)
}

var (
	dArr   = vArr(ints(10, 20, 30)...)
	dMap   = vMap(vInt(0), vInt(10), vInt(1), vInt(11))
	dBytes = vBS(1, 2, 3, 4, 5)
	dBuf   = vBuf(1, 2, 3, 4, 5)
)

func jmpBuild(long bool) func(m *mop, a *asm, _ []byte) {
	return func(m *mop, a *asm, _ []byte) {
		if long {
			a.jmpL(m.op, "J")
		} else {
			a.jmp(m.op, "J")
		}
		a.op(opcode.PUSH1).label("J").op(opcode.PUSH2)
	}
}

func slotPre(kind byte, n int) func(a *asm) {
	return func(a *asm) {
		switch kind {
		case 's':
			a.raw(byte(opcode.INITSSLOT), byte(n))
		case 'l':
			a.raw(byte(opcode.INITSLOT), byte(n), 0)
		default:
			for i := 0; i < n; i++ {
				a.op(opcode.PUSH0)
			}
			a.raw(byte(opcode.INITSLOT), 0, byte(n))
		}
	}
}

func matrixOps() []*mop {
	var ms []*mop
	add := func(op opcode.Opcode, defs ...emitter) *mop {
		m := &mop{op: op, defs: defs, keep: -1}
		ms = append(ms, m)
		return m
	}
	// constants
	for op := opcode.PUSHM1; op <= opcode.PUSH16; op++ {
		add(op)
	}
	add(opcode.PUSHINT8).imm = [][]byte{{0x7f}, {0x80}}
	add(opcode.PUSHINT16).imm = [][]byte{{0xff, 0x7f}, {0x00, 0x80}}
	add(opcode.PUSHINT32).imm = [][]byte{{0xff, 0xff, 0xff, 0x7f}, {0, 0, 0, 0x80}}
	add(opcode.PUSHINT64).imm = [][]byte{append(rep(0xff, 7), 0x7f), append(rep(0, 7), 0x80)}
	add(opcode.PUSHINT128).imm = [][]byte{append(rep(0xff, 15), 0x7f), append(rep(0, 15), 0x80)}
	add(opcode.PUSHINT256).imm = [][]byte{append(rep(0xff, 31), 0x7f), append(rep(0, 31), 0x80), rep(0xff, 32)}
	add(opcode.PUSHT)
	add(opcode.PUSHF)
	add(opcode.PUSHNULL)
	add(opcode.PUSHA).imm = [][]byte{{0, 0, 0, 0}, {5, 0, 0, 0}, {0xff, 0xff, 0xff, 0x7f}, {0, 0, 0, 0x80}} // position-independent faults (the TRY wrapper shifts the script)
	add(opcode.PUSHDATA1).imm = [][]byte{{0}, {2, 0xaa, 0xbb}}
	add(opcode.PUSHDATA2).imm = [][]byte{{0, 0}, {1, 0, 0xcc}}
	add(opcode.PUSHDATA4).imm = [][]byte{{0, 0, 0, 0}, {1, 0, 0, 0, 0xdd}, {0xff, 0xff, 0xff, 0x7f}}
	add(opcode.NOP)
	// jumps
	for op := opcode.JMP; op <= opcode.JMPLEL; op++ {
		long := (int(op)-int(opcode.JMP))%2 == 1
		var m *mop
		switch {
		case op == opcode.JMP || op == opcode.JMPL:
			m = add(op)
		case op <= opcode.JMPIFNOTL:
			m = add(op, vBool(true))
		default:
			m = add(op, vInt(3), vInt(3))
		}
		m.build = jmpBuild(long)
	}
	add(opcode.CALL).build = func(m *mop, a *asm, _ []byte) { a.jmp(m.op, "F") }
	add(opcode.CALLL).build = func(m *mop, a *asm, _ []byte) { a.jmpL(m.op, "F") }
	add(opcode.CALLA, vPointer())
	add(opcode.CALLT).imm = [][]byte{{0, 0}}
	add(opcode.SYSCALL).imm = [][]byte{{0, 0, 0, 0}}
	add(opcode.ABORT, vInt(1))
	add(opcode.ASSERT, vBool(true))
	add(opcode.THROW, vInt(1))
	add(opcode.ABORTMSG, vBS('m'))
	add(opcode.ASSERTMSG, vBool(true), vBS('m'))
	tryBuild := func(long, fin bool) func(m *mop, a *asm, _ []byte) {
		return func(m *mop, a *asm, _ []byte) {
			c, f := "C", ""
			if fin {
				f = "FIN"
			}
			if long {
				a.tryL(c, f)
			} else {
				a.try(c, f)
			}
			a.op(opcode.PUSH1)
			if long {
				a.jmpL(opcode.ENDTRYL, "E")
			} else {
				a.jmp(opcode.ENDTRY, "E")
			}
			a.label("C").op(opcode.PUSH2)
			a.jmp(opcode.ENDTRY, "E")
			if fin {
				a.label("FIN").op(opcode.PUSH3, opcode.ENDFINALLY)
			}
			a.label("E").op(opcode.PUSH4)
		}
	}
	add(opcode.TRY).build = tryBuild(false, false)
	add(opcode.TRYL).build = tryBuild(true, true)
	add(opcode.ENDTRY).build = tryBuild(false, true)
	add(opcode.ENDTRYL).build = tryBuild(true, false)
	add(opcode.ENDFINALLY).build = tryBuild(false, true)
	add(opcode.RET)
	// stack
	add(opcode.DEPTH, vInt(7))
	add(opcode.DROP, vInt(7))
	add(opcode.NIP, vInt(7), vInt(8))
	add(opcode.XDROP, vInt(7), vInt(8), vInt(1))
	add(opcode.CLEAR, vInt(7))
	add(opcode.DUP, vInt(7))
	add(opcode.OVER, vInt(7), vInt(8))
	add(opcode.PICK, vInt(7), vInt(8), vInt(1))
	add(opcode.TUCK, vInt(7), vInt(8))
	add(opcode.SWAP, vInt(7), vInt(8))
	add(opcode.ROT, vInt(7), vInt(8), vInt(9))
	add(opcode.ROLL, vInt(7), vInt(8), vInt(1))
	add(opcode.REVERSE3, vInt(7), vInt(8), vInt(9))
	add(opcode.REVERSE4, vInt(6), vInt(7), vInt(8), vInt(9))
	add(opcode.REVERSEN, vInt(7), vInt(8), vInt(9), vInt(2))
	// slots
	add(opcode.INITSSLOT).imm = [][]byte{{1}, {0}, {255}}
	m := add(opcode.INITSLOT, vInt(7))
	m.imm = [][]byte{{1, 1}, {0, 1}}
	m.build = func(m *mop, a *asm, imm []byte) { a.op(m.op).raw(imm...).op(opcode.LDARG0) }
	m = add(opcode.INITSLOT)
	m.imm = [][]byte{{0, 0}, {2, 0}}
	for _, sk := range []struct {
		base opcode.Opcode
		kind byte
	}{{opcode.LDSFLD0, 's'}, {opcode.LDLOC0, 'l'}, {opcode.LDARG0, 'a'}} {
		for i := 0; i <= 7; i++ {
			ld, st := sk.base+opcode.Opcode(i), sk.base+8+opcode.Opcode(i)
			var imm [][]byte
			idx := i
			if i == 7 { // the indexed forms LDSFLD/STSFLD …: slot 6, plus an index out of range
				imm = [][]byte{{6}, {7}}
				idx = 6
			}
			stFixed, ldFixed := sk.base+8+opcode.Opcode(idx), sk.base+opcode.Opcode(idx)
			// LD row: store the swept value with the fixed-index form, load it with the row's opcode
			m := add(ld, vInt(7))
			m.pre, m.imm = slotPre(sk.kind, 7), imm
			m.build = func(m *mop, a *asm, imm []byte) { a.op(stFixed).op(m.op).raw(imm...) }
			// ST row: store with the row's opcode, load with the fixed-index form
			m = add(st, vInt(7))
			m.pre, m.imm = slotPre(sk.kind, 7), imm
			m.build = func(m *mop, a *asm, imm []byte) { a.op(m.op).raw(imm...).op(ldFixed) }
		}
	}
	// splice
	add(opcode.NEWBUFFER, vInt(3))
	add(opcode.MEMCPY, dBuf, vInt(1), vBS(0xaa, 0xbb, 0xcc), vInt(0), vInt(2)).keep = 0
	add(opcode.CAT, vBS(1, 2), vBS(3))
	add(opcode.SUBSTR, dBytes, vInt(1), vInt(2))
	add(opcode.LEFT, dBytes, vInt(2))
	add(opcode.RIGHT, dBytes, vInt(2))
	// bitwise, arithmetic, comparison
	for _, op := range []opcode.Opcode{opcode.INVERT, opcode.SIGN, opcode.ABS, opcode.NEGATE, opcode.INC, opcode.DEC, opcode.SQRT, opcode.NZ} {
		add(op, vInt(9))
	}
	add(opcode.NOT, vBool(true))
	for _, op := range []opcode.Opcode{opcode.AND, opcode.OR, opcode.XOR, opcode.EQUAL, opcode.NOTEQUAL, opcode.ADD, opcode.SUB, opcode.MUL,
		opcode.DIV, opcode.MOD, opcode.NUMEQUAL, opcode.NUMNOTEQUAL, opcode.LT, opcode.LE, opcode.GT, opcode.GE, opcode.MIN, opcode.MAX} {
		add(op, vInt(7), vInt(3))
	}
	add(opcode.BOOLAND, vBool(true), vBool(true))
	add(opcode.BOOLOR, vBool(false), vBool(true))
	add(opcode.POW, vInt(3), vInt(2))
	add(opcode.SHL, vInt(5), vInt(1))
	add(opcode.SHR, vInt(5), vInt(1))
	add(opcode.MODMUL, vInt(3), vInt(4), vInt(5))
	add(opcode.MODPOW, vInt(3), vInt(4), vInt(5))
	add(opcode.WITHIN, vInt(3), vInt(1), vInt(5))
	// compound types
	add(opcode.PACKMAP, vInt(7), vInt(0), vInt(8), vInt(1), vInt(2))
	add(opcode.PACKSTRUCT, vInt(7), vInt(8), vInt(2))
	add(opcode.PACK, vInt(7), vInt(8), vInt(2))
	add(opcode.UNPACK, dArr)
	add(opcode.NEWARRAY0)
	add(opcode.NEWARRAY, vInt(2))
	add(opcode.NEWARRAYT, vInt(2)).imm = [][]byte{{tAny}, {tBool}, {tInt}, {tBytes}, {tBuffer}, {tArray}, {tStruct}, {tMap}, {tPointer}, {tInterop}, {0x01}, {0xff}}
	add(opcode.NEWSTRUCT0)
	add(opcode.NEWSTRUCT, vInt(2))
	add(opcode.NEWMAP)
	add(opcode.SIZE, dArr)
	add(opcode.HASKEY, dArr, vInt(1))
	add(opcode.HASKEY, dMap, vInt(1))
	add(opcode.KEYS, dMap)
	add(opcode.VALUES, dMap)
	add(opcode.VALUES, dArr)
	add(opcode.PICKITEM, dArr, vInt(1))
	add(opcode.PICKITEM, dMap, vInt(1))
	add(opcode.PICKITEM, dBytes, vInt(1))
	add(opcode.APPEND, dArr, vInt(7)).keep = 0
	add(opcode.SETITEM, dArr, vInt(1), vInt(7)).keep = 0
	add(opcode.SETITEM, dMap, vInt(1), vInt(7)).keep = 0
	add(opcode.SETITEM, dBuf, vInt(1), vInt(7)).keep = 0
	add(opcode.REVERSEITEMS, dArr).keep = 0
	add(opcode.REMOVE, dArr, vInt(1)).keep = 0
	add(opcode.REMOVE, dMap, vInt(1)).keep = 0
	add(opcode.CLEARITEMS, dArr).keep = 0
	add(opcode.POPITEM, dArr).keep = 0
	// types
	add(opcode.ISNULL, vInt(7))
	allT := [][]byte{{tAny}, {tPointer}, {tBool}, {tInt}, {tBytes}, {tBuffer}, {tArray}, {tStruct}, {tMap}, {tInterop}, {0x01}, {0xff}}
	add(opcode.ISTYPE, vInt(7)).imm = allT
	add(opcode.CONVERT, vInt(7)).imm = allT
	return ms
}

// mcase: one generated matrix case with its cell(s).
type mcase struct {
	c     *vcase
	op    opcode.Opcode
	cells []mcell
}

type mcell struct {
	pos   int
	class string
}

// buildScript assembles "pre ; operands ; [DUP] ; instruction ; RET ; F: PUSH7 RET".
func (m *mop) buildCase(operands []emitter, imm []byte) *vcase {
	c := &vcase{gas: 1 << 20, priced: true, family: "matrix"}
	a := newAsm()
	if m.pre != nil {
		m.pre(a)
	}
	for i, e := range operands {
		e(a, c)
		if i == m.keep {
			a.op(opcode.DUP)
		}
	}
	if m.build != nil {
		m.build(m, a, imm)
	} else {
		a.op(m.op)
		a.raw(imm...)
	}
	a.op(opcode.RET)
	a.label("F").op(opcode.PUSH7, opcode.RET)
	s, ok := a.bytes()
	if !ok {
		panic("matrix: label does not fit: " + m.op.String())
	}
	c.script = s
	return c
}

// heavyMatrix: include the case `RIGHT` with length 2^31-1 (the real VM allocates the 2 GB result before it finds
// the length out of range — reported to the coordinator; FAULT either way); only in the thorough tier, the quick
// tier must stay small on a shared machine.
var heavyMatrix = false

func buildMatrix() []*mcase {
	var out []*mcase
	skip := os.Getenv("VMOPS_MATRIX_SKIP") // self-test of the obligation: drop the rows of one opcode
	for _, m := range matrixOps() {
		if skip != "" && m.op.String() == skip {
			continue
		}
		imms := m.imm
		if imms == nil {
			imms = [][]byte{nil}
		}
		if len(m.defs) == 0 {
			for _, imm := range imms {
				out = append(out, &mcase{c: m.buildCase(nil, imm), op: m.op, cells: []mcell{{0, "none"}}})
			}
			continue
		}
		// the defaults themselves, with every immediate
		for _, imm := range imms {
			out = append(out, &mcase{c: m.buildCase(m.defs, imm), op: m.op})
		}
		for pos := range m.defs {
			for _, cl := range mclasses {
				for ri, r := range cl.reps {
					if !heavyMatrix && m.op == opcode.RIGHT && cl.name == "int-limit" && ri == 6 {
						continue
					}
					ops := append([]emitter{}, m.defs...)
					ops[pos] = r
					_ = ri
					for _, imm := range imms {
						out = append(out, &mcase{c: m.buildCase(ops, imm), op: m.op, cells: []mcell{{pos, cl.name}}})
					}
				}
			}
		}
		if m.build == nil {
			// stack underflow: the deepest pos+1 operands are missing
			for pos := range m.defs {
				m2 := *m
				m2.keep = -1
				out = append(out, &mcase{c: m2.buildCase(m.defs[pos+1:], imms[0]), op: m.op, cells: []mcell{{pos, "missing"}}})
			}
		}
		if len(m.defs) == 2 && m.build == nil {
			// binary instructions: every pair of classes (two representatives of each)
			for _, x := range mclasses {
				for xi, xe := range x.reps {
					for _, y := range mclasses {
						for yi, ye := range y.reps {
							if xi < 2 && yi < 2 {
								out = append(out, &mcase{c: m.buildCase([]emitter{xe, ye}, imms[0]), op: m.op,
									cells: []mcell{{0, x.name}, {1, y.name}}})
							}
						}
					}
				}
			}
		}
	}
	return out
}

// ---- bookkeeping ----

type cellKey struct {
	op    opcode.Opcode
	pos   int
	class string
}

var (
	matrixSeen  = map[cellKey]map[byte]int{} // outcome letter -> count
	matrixWant  = map[cellKey]bool{}
	matrixCases int
	matrixNoRun = 0 // cases in which the real VM never started the opcode of the row
)

func matrixRegister(mc *mcase) {
	for _, cl := range mc.cells {
		matrixWant[cellKey{mc.op, cl.pos, cl.class}] = true
	}
}

func matrixRecord(mc *mcase, outcome byte, ran bool) {
	matrixCases++
	o.Count("matrix:outcome:" + string(outcome))
	if !ran {
		matrixNoRun++
		return
	}
	for _, cl := range mc.cells {
		k := cellKey{mc.op, cl.pos, cl.class}
		if matrixSeen[k] == nil {
			matrixSeen[k] = map[byte]int{}
		}
		matrixSeen[k][outcome]++
		o.Count("matrix-class:" + cl.class + ":" + string(outcome))
	}
	if len(mc.cells) == 0 {
		k := cellKey{mc.op, -1, "defaults"}
		if matrixSeen[k] == nil {
			matrixSeen[k] = map[byte]int{}
		}
		matrixSeen[k][outcome]++
	}
}

// instructions that raise catchable exceptions (vm.go: the v.throw sites)
var catchable = map[opcode.Opcode]bool{opcode.PICKITEM: true, opcode.SETITEM: true, opcode.THROW: true}

// instructions that never complete
var neverHalts = map[opcode.Opcode]bool{opcode.ABORT: true, opcode.ABORTMSG: true, opcode.SYSCALL: true, opcode.CALLT: true, opcode.THROW: true}

// instructions with operands that accept an item of any type in every operand position (no FAULT
// can come from the operand classes of the matrix)
var neverFaults = map[opcode.Opcode]bool{
	opcode.DEPTH: true, opcode.DROP: true, opcode.NIP: true, opcode.CLEAR: true, opcode.DUP: true, opcode.OVER: true, opcode.TUCK: true,
	opcode.SWAP: true, opcode.ROT: true, opcode.REVERSE3: true, opcode.REVERSE4: true, opcode.ISNULL: true, opcode.THROW: true,
	opcode.EQUAL: true, opcode.NOTEQUAL: true,
}

func init() {
	// fixed-index slot instructions accept any item
	for op := opcode.LDSFLD0; op <= opcode.STARG; op++ {
		if (int(op)-int(opcode.LDSFLD0))%8 != 7 {
			neverFaults[op] = true
		}
	}
}

// matrixFinish prints the matrix and enforces the coverage obligations.
func matrixFinish(dir string, enforce bool) {
	rows := map[opcode.Opcode]bool{}
	perOp := map[opcode.Opcode]map[byte]int{}
	var keys []cellKey
	for k := range matrixWant {
		keys = append(keys, k)
	}
	for k := range matrixSeen {
		if !matrixWant[k] {
			keys = append(keys, k)
		}
	}
	sort.Slice(keys, func(i, j int) bool {
		a, b := keys[i], keys[j]
		if a.op != b.op {
			return a.op < b.op
		}
		if a.pos != b.pos {
			return a.pos < b.pos
		}
		return a.class < b.class
	})
	var sb strings.Builder
	sb.WriteString("# opcode/operand position (0 = deepest): class=outcomes  (H HALT, C catchable throw, F uncatchable FAULT, - not reached)\n")
	holes := 0
	var last cellKey
	first := true
	for _, k := range keys {
		rows[k.op] = true
		if first || k.op != last.op || k.pos != last.pos {
			if !first {
				sb.WriteByte('\n')
			}
			fmt.Fprintf(&sb, "%s/%d:", k.op, k.pos)
		}
		first, last = false, k
		seen := matrixSeen[k]
		s := ""
		for _, c := range []byte("HCF") {
			if seen[c] > 0 {
				s += string(c)
				if perOp[k.op] == nil {
					perOp[k.op] = map[byte]int{}
				}
				perOp[k.op][c] += seen[c]
			}
		}
		if s == "" {
			s = "-"
			holes++
			if enforce {
				o.Fail("coverage-hole", 0, "matrix cell not reached: %s operand %d class %s", k.op, k.pos, k.class)
			}
		}
		fmt.Fprintf(&sb, " %s=%s", k.class, s)
	}
	sb.WriteByte('\n')
	if dir != "" {
		_ = os.WriteFile(filepath.Join(dir, "matrix.txt"), []byte(sb.String()), 0o644)
	}
	arity := map[opcode.Opcode]int{}
	for _, m := range matrixOps() {
		if len(m.defs) > arity[m.op] {
			arity[m.op] = len(m.defs)
		}
	}
	for i := 0; i < 256; i++ {
		op := opcode.Opcode(i)
		if !opcode.IsValid(op) {
			continue
		}
		if !rows[op] {
			holes++
			if enforce {
				o.Fail("coverage-hole", 0, "opcode %s has no row in the matrix", op)
			}
			continue
		}
		got := perOp[op]
		miss := func(c byte, what string) {
			holes++
			if enforce {
				o.Fail("coverage-hole", 0, "opcode %s: outcome class %s never observed in the matrix", op, what)
			}
		}
		if !neverHalts[op] && got['H'] == 0 {
			miss('H', "HALT")
		}
		if arity[op] > 0 && !neverFaults[op] && got['F'] == 0 {
			miss('F', "uncatchable FAULT")
		}
		if neverHalts[op] && op != opcode.THROW && got['F'] == 0 {
			miss('F', "uncatchable FAULT")
		}
		if catchable[op] && got['C'] == 0 {
			miss('C', "catchable throw")
			if enforce {
				o.Fail("catchability", 0, "%s never raised a catchable exception in the matrix", op)
			}
		}
		if !catchable[op] && got['C'] > 0 && enforce {
			o.Fail("catchability", 0, "%s raised a catchable exception (only PICKITEM, SETITEM and THROW do)", op)
		}
		o.Add("matrix-row:"+op.String(), got['H']+got['C']+got['F'])
	}
	if matrixNoRun > 0 && enforce {
		o.Fail("coverage-hole", 0, "%d matrix cases faulted before the instruction of their row started", matrixNoRun)
	}
	o.Add("matrix:cases", matrixCases)
	o.Add("matrix:cells", len(matrixWant))
	o.Add("matrix:holes", holes)
	o.Add("matrix:not-reached-cases", matrixNoRun)
}
