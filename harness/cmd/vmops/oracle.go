package main

import (
	"fmt"
	"math/big"

	"github.com/nspcc-dev/neo-go/pkg/vm/opcode"
	"github.com/nspcc-dev/neo-go/pkg/vm/stackitem"
)

// The property's direct oracle on the real VM for integer instructions: the result found on the
// stack must satisfy the *mathematical characterisation* of the instruction (not a recomputation
// through the same math/big call the VM uses), and FAULT must occur exactly when the
// characterisation says so (operand error or result outside the 256-bit range).

type expect struct {
	fault bool
	check func(r *big.Int) string // "" = ok
	boolR *bool                   // expected Boolean result
}

func eqv(want *big.Int) func(*big.Int) string {
	return func(r *big.Int) string {
		if r.Cmp(want) != 0 {
			return "want " + want.String()
		}
		return ""
	}
}

func ranged(want *big.Int) expect {
	if !inRange(want) {
		return expect{fault: true}
	}
	return expect{check: eqv(want)}
}

func bexp(b bool) expect { return expect{boolR: &b} }

func sgn(n *big.Int) int { return n.Sign() }

// gcdSlow: Euclid by repeated subtraction of remainders computed with DivMod-free arithmetic.
func gcdOwn(a, b *big.Int) *big.Int {
	x, y := new(big.Int).Abs(a), new(big.Int).Abs(b)
	for y.Sign() != 0 {
		x, y = y, new(big.Int).Mod(x, y)
	}
	return x
}

// powModOwn: right-to-left binary exponentiation on non-negative numbers.
func powModOwn(b, e, m *big.Int) *big.Int {
	res := big.NewInt(1)
	res.Mod(res, m)
	base := new(big.Int).Mod(b, m)
	for i := 0; i < e.BitLen(); i++ {
		if e.Bit(i) == 1 {
			res.Mul(res, base).Mod(res, m)
		}
		base.Mul(base, base).Mod(base, m)
	}
	return res
}

// twos: 33-byte two's complement big-endian image for bitwise checks.
func twos(n *big.Int) []byte {
	m := new(big.Int).Lsh(big.NewInt(1), 264)
	x := new(big.Int).Mod(n, m) // Euclidean
	out := make([]byte, 33)
	x.FillBytes(out)
	return out
}

func fromTwos(b []byte) *big.Int {
	x := new(big.Int).SetBytes(b)
	if b[0]&0x80 != 0 {
		x.Sub(x, new(big.Int).Lsh(big.NewInt(1), 264))
	}
	return x
}

func bitwise(a, b *big.Int, f func(x, y byte) byte) *big.Int {
	x, y := twos(a), twos(b)
	for i := range x {
		x[i] = f(x[i], y[i])
	}
	return fromTwos(x)
}

// expectation for `op` applied to integer operands ns (deepest first).
func expectInts(op opcode.Opcode, ns []*big.Int) (expect, bool) {
	one := big.NewInt(1)
	var a, b, c *big.Int
	if len(ns) > 0 {
		a = ns[0]
	}
	if len(ns) > 1 {
		b = ns[1]
	}
	if len(ns) > 2 {
		c = ns[2]
	}
	switch op {
	case opcode.ADD:
		return ranged(new(big.Int).Add(a, b)), true
	case opcode.SUB:
		return ranged(new(big.Int).Sub(a, b)), true
	case opcode.MUL:
		return ranged(new(big.Int).Mul(a, b)), true
	case opcode.INC:
		return ranged(new(big.Int).Add(a, one)), true
	case opcode.DEC:
		return ranged(new(big.Int).Sub(a, one)), true
	case opcode.NEGATE:
		return ranged(new(big.Int).Neg(a)), true
	case opcode.ABS:
		if a.Sign() < 0 {
			return ranged(new(big.Int).Neg(a)), true
		}
		return ranged(a), true
	case opcode.SIGN:
		return ranged(big.NewInt(int64(sgn(a)))), true
	case opcode.INVERT:
		return ranged(new(big.Int).Sub(new(big.Int).Neg(a), one)), true
	case opcode.NZ:
		return bexp(a.Sign() != 0), true
	case opcode.DIV:
		if b.Sign() == 0 {
			return expect{fault: true}, true
		}
		if a.Cmp(minI) == 0 && b.Cmp(big.NewInt(-1)) == 0 {
			return expect{fault: true}, true // 2^255 does not fit
		}
		return expect{check: func(q *big.Int) string {
			r := new(big.Int).Sub(a, new(big.Int).Mul(q, b))
			if new(big.Int).Abs(r).Cmp(new(big.Int).Abs(b)) >= 0 {
				return "|a - q*b| >= |b|"
			}
			if r.Sign() != 0 && r.Sign() != a.Sign() {
				return "remainder sign differs from dividend (not truncated)"
			}
			return ""
		}}, true
	case opcode.MOD:
		if b.Sign() == 0 {
			return expect{fault: true}, true
		}
		return expect{check: func(r *big.Int) string {
			if new(big.Int).Abs(r).Cmp(new(big.Int).Abs(b)) >= 0 {
				return "|r| >= |b|"
			}
			if r.Sign() != 0 && r.Sign() != a.Sign() {
				return "remainder sign differs from dividend"
			}
			d := new(big.Int).Sub(a, r)
			if new(big.Int).Mod(d, new(big.Int).Abs(b)).Sign() != 0 {
				return "a - r not divisible by b"
			}
			return ""
		}}, true
	case opcode.SHL, opcode.SHR:
		if !b.IsInt64() || b.Int64() < 0 || b.Int64() > 256 {
			return expect{fault: true}, true
		}
		p := new(big.Int).Exp(big.NewInt(2), b, nil)
		if op == opcode.SHL {
			return ranged(new(big.Int).Mul(a, p)), true
		}
		return expect{check: func(q *big.Int) string {
			lo := new(big.Int).Mul(q, p)
			hi := new(big.Int).Add(lo, p)
			if lo.Cmp(a) > 0 || a.Cmp(hi) >= 0 {
				return "not floor(a / 2^n)"
			}
			return ""
		}}, true
	case opcode.POW:
		if !b.IsInt64() || b.Int64() < 0 || b.Int64() > 256 {
			return expect{fault: true}, true
		}
		r := big.NewInt(1)
		lim := new(big.Int).Lsh(big.NewInt(1), 300)
		for i := int64(0); i < b.Int64(); i++ {
			r.Mul(r, a)
			if new(big.Int).Abs(r).Cmp(lim) > 0 {
				return expect{fault: true}, true
			}
		}
		return ranged(r), true
	case opcode.SQRT:
		if a.Sign() < 0 {
			return expect{fault: true}, true
		}
		return expect{check: func(r *big.Int) string {
			if r.Sign() < 0 {
				return "negative root"
			}
			r1 := new(big.Int).Add(r, one)
			if new(big.Int).Mul(r, r).Cmp(a) > 0 || new(big.Int).Mul(r1, r1).Cmp(a) <= 0 {
				return "not r^2 <= n < (r+1)^2"
			}
			return ""
		}}, true
	case opcode.MODMUL:
		if c.Sign() == 0 {
			return expect{fault: true}, true
		}
		prod := new(big.Int).Mul(a, b)
		return expect{check: func(r *big.Int) string {
			if new(big.Int).Abs(r).Cmp(new(big.Int).Abs(c)) >= 0 {
				return "|r| >= |m|"
			}
			if r.Sign() != 0 && r.Sign() != prod.Sign() {
				return "sign differs from the product"
			}
			if new(big.Int).Mod(new(big.Int).Sub(prod, r), new(big.Int).Abs(c)).Sign() != 0 {
				return "not congruent"
			}
			return ""
		}}, true
	case opcode.MODPOW:
		base, e, m := a, b, c
		switch {
		case e.Cmp(big.NewInt(-1)) < 0:
			return expect{fault: true}, true
		case e.Cmp(big.NewInt(-1)) == 0:
			if base.Sign() <= 0 || m.Cmp(big.NewInt(2)) < 0 || gcdOwn(base, m).Cmp(one) != 0 {
				return expect{fault: true}, true
			}
			return expect{check: func(r *big.Int) string {
				if r.Sign() < 0 || r.Cmp(m) >= 0 {
					return "inverse not in [0, m)"
				}
				if new(big.Int).Mod(new(big.Int).Mul(r, base), m).Cmp(one) != 0 {
					return "r*b mod m != 1"
				}
				return ""
			}}, true
		default:
			if m.Sign() == 0 {
				return expect{fault: true}, true
			}
			am := new(big.Int).Abs(m)
			t := powModOwn(new(big.Int).Abs(base), e, am)
			if base.Sign() < 0 && e.Bit(0) == 1 {
				t.Neg(t)
			}
			return expect{check: eqv(t)}, true
		}
	case opcode.AND:
		return ranged(bitwise(a, b, func(x, y byte) byte { return x & y })), true
	case opcode.OR:
		return ranged(bitwise(a, b, func(x, y byte) byte { return x | y })), true
	case opcode.XOR:
		return ranged(bitwise(a, b, func(x, y byte) byte { return x ^ y })), true
	case opcode.NUMEQUAL:
		return bexp(a.Cmp(b) == 0), true
	case opcode.NUMNOTEQUAL:
		return bexp(a.Cmp(b) != 0), true
	case opcode.LT:
		return bexp(a.Cmp(b) < 0), true
	case opcode.LE:
		return bexp(a.Cmp(b) <= 0), true
	case opcode.GT:
		return bexp(a.Cmp(b) > 0), true
	case opcode.GE:
		return bexp(a.Cmp(b) >= 0), true
	case opcode.MIN:
		if a.Cmp(b) <= 0 {
			return ranged(a), true
		}
		return ranged(b), true
	case opcode.MAX:
		if a.Cmp(b) >= 0 {
			return ranged(a), true
		}
		return ranged(b), true
	case opcode.WITHIN: // x a b : a <= x < b
		return bexp(b.Cmp(a) <= 0 && a.Cmp(c) < 0), true
	}
	return expect{}, false
}

// checkInts compares the real VM's result with the expectation; returns a failure text or "".
func checkInts(op opcode.Opcode, ns []*big.Int, res vres) string {
	ex, ok := expectInts(op, ns)
	if !ok {
		return ""
	}
	if ex.fault {
		if !res.fault {
			return fmt.Sprintf("%s%v: expected FAULT, got %s", op, ns, res.obs)
		}
		return ""
	}
	if !res.halt || len(res.stack) != 1 {
		return fmt.Sprintf("%s%v: expected one result, got %s", op, ns, res.obs)
	}
	if ex.boolR != nil {
		bv, isB := res.stack[0].(stackitem.Bool)
		if !isB || bool(bv) != *ex.boolR {
			return fmt.Sprintf("%s%v: expected Boolean %v, got %s", op, ns, *ex.boolR, res.obs)
		}
		return ""
	}
	iv, isI := res.stack[0].(*stackitem.BigInteger)
	if !isI {
		return fmt.Sprintf("%s%v: expected an Integer, got %s", op, ns, res.obs)
	}
	if !inRange(iv.Big()) {
		return fmt.Sprintf("%s%v: result outside the 256-bit range: %s", op, ns, iv.Big())
	}
	if msg := ex.check(iv.Big()); msg != "" {
		return fmt.Sprintf("%s%v = %s: %s", op, ns, iv.Big(), msg)
	}
	return ""
}

// allInRange walks a result stack and reports an integer outside the 256-bit range.
func allInRange(st []stackitem.Item) string {
	seen := map[any]bool{}
	var bad string
	var visit func(it stackitem.Item)
	visit = func(it stackitem.Item) {
		switch t := it.(type) {
		case *stackitem.BigInteger:
			if !inRange(t.Big()) {
				bad = t.Big().String()
			}
		case *stackitem.Array:
			if !seen[t] {
				seen[t] = true
				for _, x := range t.Value().([]stackitem.Item) {
					visit(x)
				}
			}
		case *stackitem.Struct:
			if !seen[t] {
				seen[t] = true
				for _, x := range t.Value().([]stackitem.Item) {
					visit(x)
				}
			}
		case *stackitem.Map:
			if !seen[t] {
				seen[t] = true
				for _, e := range t.Value().([]stackitem.MapElement) {
					visit(e.Key)
					visit(e.Value)
				}
			}
		}
	}
	for _, x := range st {
		visit(x)
	}
	return bad
}
