package main

import (
	"fmt"
	"math/big"

	"github.com/nspcc-dev/neo-go/pkg/vm/stackitem"

	"verif/harness/internal/hx"
)

// Direct tie of pkg/vm/stackitem/conversion.go (checked conversions used by interops) and of the
// Try* methods: one primitive item, one conversion function.
var convFns = []string{"int64", "int32", "uint8", "uint16", "uint32", "uint64", "string", "uint160", "uint256", "bool", "bytes", "integer"}

var convIntEdges = []*big.Int{
	bi(0), bi(-1), bi(1), bi(255), bi(256), bi(65535), bi(65536), bi(-128), bi(-129),
	bi(1<<31 - 1), bi(1 << 31), bi(-(1 << 31)), bi(-(1 << 31) - 1), bi(1<<32 - 1), bi(1 << 32),
	new(big.Int).Sub(pow2(63), bi(1)), pow2(63), new(big.Int).Neg(pow2(63)), new(big.Int).Sub(new(big.Int).Neg(pow2(63)), bi(1)),
	new(big.Int).Sub(pow2(64), bi(1)), pow2(64),
}

// edges of each conversion function
var convFnEdges = map[string][]*big.Int{
	"int64":  {new(big.Int).Sub(pow2(63), bi(1)), new(big.Int).Neg(pow2(63))},
	"int32":  {bi(1<<31 - 1), bi(-(1 << 31))},
	"uint8":  {bi(0), bi(255)},
	"uint16": {bi(0), bi(65535)},
	"uint32": {bi(0), bi(1<<32 - 1)},
	"uint64": {bi(0), new(big.Int).Sub(pow2(64), bi(1))},
}

func (g *gen) convArg(fn string) arg {
	if e, ok := convFnEdges[fn]; ok && g.r.Intn(2) == 0 {
		return iarg(new(big.Int).Add(e[g.r.Intn(len(e))], bi(int64(g.r.Intn(3))-1)))
	}
	if (fn == "uint160" || fn == "uint256") && g.r.Intn(2) == 0 {
		n := map[string]int{"uint160": 20, "uint256": 32}[fn] + g.r.Intn(3) - 1
		return arg{kind: []byte{'s', 'f'}[g.r.Intn(2)], bs: g.r.Bytes(n)}
	}
	switch g.r.Intn(8) {
	case 0, 1, 2:
		n := new(big.Int).Add(convIntEdges[g.r.Intn(len(convIntEdges))], bi(int64(g.r.Intn(3))-1))
		return iarg(n)
	case 3:
		return iarg(g.bigInt())
	case 4:
		n := []int{19, 20, 21, 31, 32, 33, 0}[g.r.Intn(7)]
		return arg{kind: []byte{'s', 'f'}[g.r.Intn(2)], bs: g.r.Bytes(n)}
	case 5: // UTF-8 shapes
		pool := [][]byte{[]byte("ok"), {0xff}, {0xc0, 0x80}, {0xe2, 0x82, 0xac}, {0xed, 0xa0, 0x80}, {0xf0, 0x9f, 0x98, 0x80}, {0xf4, 0x90, 0x80, 0x80}, {0xe2, 0x82}, {}}
		return arg{kind: 's', bs: pool[g.r.Intn(len(pool))]}
	default:
		return g.prim('x')
	}
}

func convReal(fn string, a arg) string {
	return hx.Safe(func() string {
		it := a.item()
		showI := func(v any, err error) string {
			if err != nil {
				return "err"
			}
			return fmt.Sprintf("ok %d", v)
		}
		switch fn {
		case "int64":
			v, err := stackitem.ToInt64(it)
			return showI(v, err)
		case "int32":
			v, err := stackitem.ToInt32(it)
			return showI(v, err)
		case "uint8":
			v, err := stackitem.ToUint8(it)
			return showI(v, err)
		case "uint16":
			v, err := stackitem.ToUint16(it)
			return showI(v, err)
		case "uint32":
			v, err := stackitem.ToUint32(it)
			return showI(v, err)
		case "uint64":
			v, err := stackitem.ToUint64(it)
			return showI(v, err)
		case "string":
			v, err := stackitem.ToString(it)
			if err != nil {
				return "err"
			}
			return "ok " + hexs([]byte(v))
		case "uint160":
			v, err := stackitem.ToUint160(it)
			if err != nil {
				return "err"
			}
			return "ok " + hexs(v.BytesBE())
		case "uint256":
			v, err := stackitem.ToUint256(it)
			if err != nil {
				return "err"
			}
			return "ok " + hexs(v.BytesBE())
		case "bool":
			v, err := it.TryBool()
			if err != nil {
				return "err"
			}
			if v {
				return "ok 1"
			}
			return "ok 0"
		case "bytes":
			v, err := it.TryBytes()
			if err != nil {
				return "err"
			}
			return "ok " + hexs(v)
		default:
			v, err := it.TryInteger()
			if err != nil {
				return "err"
			}
			return "ok " + v.String()
		}
	})
}

// convCaseLines emits a handful of conversion lines for case k.
func (g *gen) convLines(k int) {
	n := g.r.Range(3, 8)
	for i := 0; i < n; i++ {
		fn := convFns[g.r.Intn(len(convFns))]
		a := g.convArg(fn)
		obs := convReal(fn, a)
		pipe.send(lineRec{k: k, family: "conversion.go", op: fmt.Sprintf("conv %s %s", fn, a.String()), obs: obs})
		o.Count("conv:" + fn)
		if obs == "err" {
			o.Count("conv:err")
		}
	}
}
