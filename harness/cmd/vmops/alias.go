package main

// The aliasing family: instructions that CREATE a Buffer / Array / Struct / Map (or a ByteString) from
// operands must give the result a fresh identity that shares no memory with an operand, and a ByteString
// never changes. Shape of every case:
//
//	INITSSLOT n ; for each operand: push it, DUP, STSFLD k   (a second reference to every operand)
//	<instruction>                                            (creates the result)
//	DUP ; STSFLD r                                           (a second reference to the result)
//	<in-place write>  to the result — or to one operand      (SETITEM, MEMCPY as destination, REVERSEITEMS,
//	                                                          APPEND, CLEARITEMS, REMOVE …)
//	LDSFLD 0 … LDSFLD r                                      (read everything back)
//
// with zero-length / full-length / identical (DUPed) operands, operands that are ByteStrings made by
// PUSHDATA (their bytes are the script itself), Buffers, Integers. Every case (like every case of the stream)
// runs TWICE on the same script bytes: the two outcomes must agree and the script bytes must be unchanged
// (oracle keys nondeterministic, script-self-modified); the correspondence compares with the specification
// (value semantics for ByteStrings, fresh identity for every created object).

import (
	"math/big"

	"github.com/nspcc-dev/neo-go/pkg/vm/opcode"
)

// aliasVal: an operand shape; kind 'b' byte-like (ByteString/Buffer/Integer), 'a' array, 't' struct, 'm' map.
type aliasVal struct {
	name string
	kind byte
	n    int // length
	e    emitter
	buf  bool // a Buffer (mutable bytes)
}

func bsN(n int, first byte) []byte {
	b := make([]byte, n)
	for i := range b {
		b[i] = first + byte(i)
	}
	return b
}

var aliasBytes = []aliasVal{
	{"bs0", 'b', 0, vBS(), false},
	{"bs1", 'b', 1, vBS(0x41), false},
	{"bs3", 'b', 3, vBS(bsN(3, 0x41)...), false},
	{"buf0", 'b', 0, vBuf(), true},
	{"buf1", 'b', 1, vBuf(0x61), true},
	{"buf3", 'b', 3, vBuf(bsN(3, 0x61)...), true},
	{"int0", 'b', 0, vInt(0), false},
	{"int5", 'b', 1, vInt(5), false},
}

var aliasSeqs = []aliasVal{
	{"arr0", 'a', 0, vArr(), false},
	{"arr2", 'a', 2, vArr(vInt(1), vBuf(7, 8)), false},
	{"arrS", 'a', 2, vArr(vStruct(vInt(1), vBuf(9)), vInt(2)), false},
	{"str0", 't', 0, vStruct(), false},
	{"str2", 't', 2, vStruct(vInt(1), vStruct(vBuf(3))), false},
	{"map0", 'm', 0, vMap(), false},
	{"map2", 'm', 2, vMap(vInt(1), vBuf(5, 6), vBS('k'), vStruct(vInt(4))), false},
}

// in-place writes to the item on top of the stack (which is consumed); what = result kind
// 'F' buffer, 'A' array/struct, 'M' map
func aliasWrites(kind byte) []func(a *asm) {
	switch kind {
	case 'F':
		return []func(a *asm){
			func(a *asm) { a.op(opcode.PUSH0).raw(byte(opcode.PUSHINT8), 0x5a).op(opcode.SETITEM) },
			func(a *asm) { a.op(opcode.REVERSEITEMS) },
			func(a *asm) { a.op(opcode.PUSH0).pushData([]byte{0x7e}).op(opcode.PUSH0, opcode.PUSH1, opcode.MEMCPY) },
			func(a *asm) { // write the LAST byte: SIZE-1
				a.op(opcode.DUP, opcode.SIZE, opcode.DEC).raw(byte(opcode.PUSHINT8), 0x21).op(opcode.SETITEM)
			},
		}
	case 'A':
		return []func(a *asm){
			func(a *asm) { a.op(opcode.PUSH9, opcode.APPEND) },
			func(a *asm) { a.op(opcode.REVERSEITEMS) },
			func(a *asm) { a.op(opcode.PUSH0, opcode.PUSH8, opcode.SETITEM) },
			func(a *asm) { a.op(opcode.CLEARITEMS) },
			func(a *asm) { a.op(opcode.PUSH0, opcode.REMOVE) },
			func(a *asm) { // write INTO element 0 if it is a Buffer/Array/Struct (shared element by specification)
				a.op(opcode.PUSH0, opcode.PICKITEM, opcode.REVERSEITEMS)
			},
		}
	default:
		return []func(a *asm){
			func(a *asm) { a.op(opcode.PUSH7, opcode.PUSH8, opcode.SETITEM) },
			func(a *asm) { a.op(opcode.PUSH1, opcode.PUSH8, opcode.SETITEM) },
			func(a *asm) { a.op(opcode.PUSH1, opcode.REMOVE) },
			func(a *asm) { a.op(opcode.CLEARITEMS) },
		}
	}
}

// aliasOp: an instruction creating something from operands. after(a, ops): emits the instruction
// (the operands are on the stack, deepest first); res: kind of the result on top afterwards
// ('F','A','M', or 'S' immutable ByteString / other: nothing to write to).
type aliasOp struct {
	name string
	ops  [][]aliasVal // operand choices per position
	emit func(a *asm, ops []aliasVal)
	res  byte
}

func pushN(a *asm, n int) { a.pushInt(big.NewInt(int64(n))) }

func aliasOps() []aliasOp {
	by, sq := aliasBytes, aliasSeqs
	arrs := []aliasVal{sq[0], sq[1], sq[2], sq[3], sq[4]}
	maps := []aliasVal{sq[5], sq[6]}
	bufs := []aliasVal{by[3], by[4], by[5]}
	return []aliasOp{
		{"CAT", [][]aliasVal{by, by}, func(a *asm, _ []aliasVal) { a.op(opcode.CAT) }, 'F'},
		{"SUBSTR-full", [][]aliasVal{by}, func(a *asm, o []aliasVal) { a.op(opcode.PUSH0); pushN(a, o[0].n); a.op(opcode.SUBSTR) }, 'F'},
		{"SUBSTR-zero", [][]aliasVal{by}, func(a *asm, o []aliasVal) { a.op(opcode.PUSH0, opcode.PUSH0, opcode.SUBSTR) }, 'F'},
		{"SUBSTR-tail", [][]aliasVal{by}, func(a *asm, o []aliasVal) {
			k := o[0].n
			if k > 0 {
				k = 1
			}
			pushN(a, k)
			pushN(a, o[0].n-k)
			a.op(opcode.SUBSTR)
		}, 'F'},
		{"LEFT-full", [][]aliasVal{by}, func(a *asm, o []aliasVal) { pushN(a, o[0].n); a.op(opcode.LEFT) }, 'F'},
		{"LEFT-zero", [][]aliasVal{by}, func(a *asm, o []aliasVal) { a.op(opcode.PUSH0, opcode.LEFT) }, 'F'},
		{"RIGHT-full", [][]aliasVal{by}, func(a *asm, o []aliasVal) { pushN(a, o[0].n); a.op(opcode.RIGHT) }, 'F'},
		{"RIGHT-zero", [][]aliasVal{by}, func(a *asm, o []aliasVal) { a.op(opcode.PUSH0, opcode.RIGHT) }, 'F'},
		{"CONVERT-buffer", [][]aliasVal{by}, func(a *asm, _ []aliasVal) { a.convert(tBuffer) }, 'F'},
		{"CONVERT-bytes", [][]aliasVal{by}, func(a *asm, _ []aliasVal) { a.convert(tBytes) }, 'S'},
		{"CONVERT-bytes-buffer", [][]aliasVal{by}, func(a *asm, _ []aliasVal) { a.convert(tBytes).convert(tBuffer) }, 'F'},
		{"NEWBUFFER", [][]aliasVal{{by[6], by[7]}}, func(a *asm, _ []aliasVal) { a.op(opcode.NEWBUFFER) }, 'F'},
		{"MEMCPY", [][]aliasVal{bufs, by}, func(a *asm, o []aliasVal) { // dst src -> dst (kept by DUP)
			// stack: dst src ; build dst(dup) 0 src 0 n
			n := o[1].n
			if o[0].n < n {
				n = o[0].n
			}
			a.op(opcode.SWAP, opcode.DUP, opcode.ROT) // dst dst src
			a.op(opcode.PUSH0, opcode.SWAP, opcode.PUSH0)
			pushN(a, n)
			a.op(opcode.MEMCPY) // leaves dst
		}, 'F'},
		{"PACK", [][]aliasVal{append(append([]aliasVal{}, by...), sq...), by}, func(a *asm, _ []aliasVal) { a.op(opcode.PUSH2, opcode.PACK) }, 'A'},
		{"PACKSTRUCT", [][]aliasVal{append(append([]aliasVal{}, by...), sq...), by}, func(a *asm, _ []aliasVal) { a.op(opcode.PUSH2, opcode.PACKSTRUCT) }, 'A'},
		{"PACKMAP", [][]aliasVal{append(append([]aliasVal{}, by[:6]...), sq...), {by[1], by[2], by[7]}}, func(a *asm, _ []aliasVal) { a.op(opcode.PUSH1, opcode.PACKMAP) }, 'M'},
		{"UNPACK-PACK", [][]aliasVal{arrs}, func(a *asm, _ []aliasVal) { a.op(opcode.UNPACK, opcode.PACK) }, 'A'},
		{"UNPACK-PACKMAP", [][]aliasVal{maps}, func(a *asm, _ []aliasVal) { a.op(opcode.UNPACK, opcode.PACKMAP) }, 'M'},
		{"VALUES", [][]aliasVal{sq}, func(a *asm, _ []aliasVal) { a.op(opcode.VALUES) }, 'A'},
		{"KEYS", [][]aliasVal{maps}, func(a *asm, _ []aliasVal) { a.op(opcode.KEYS) }, 'A'},
		{"CONVERT-struct", [][]aliasVal{arrs}, func(a *asm, _ []aliasVal) { a.convert(tStruct) }, 'A'},
		{"CONVERT-array", [][]aliasVal{arrs}, func(a *asm, _ []aliasVal) { a.convert(tArray) }, 'A'},
		{"APPEND-clone", [][]aliasVal{arrs, sq}, func(a *asm, _ []aliasVal) { // arr x -> arr (x appended, a Struct is cloned)
			a.op(opcode.OVER, opcode.SWAP, opcode.APPEND)
		}, 'A'},
		{"SETITEM-clone", [][]aliasVal{{sq[1], sq[2], sq[4]}, sq}, func(a *asm, _ []aliasVal) {
			a.op(opcode.OVER, opcode.SWAP, opcode.PUSH0, opcode.SWAP, opcode.SETITEM)
		}, 'A'},
		{"NEWARRAY", [][]aliasVal{{by[6], by[7]}}, func(a *asm, _ []aliasVal) { a.op(opcode.NEWARRAY) }, 'A'},
		{"NEWSTRUCT", [][]aliasVal{{by[6], by[7]}}, func(a *asm, _ []aliasVal) { a.op(opcode.NEWSTRUCT) }, 'A'},
		{"PICKITEM", [][]aliasVal{{sq[1], sq[2], sq[4]}}, func(a *asm, _ []aliasVal) { a.op(opcode.PUSH1, opcode.PICKITEM) }, 'X'},
		{"POPITEM", [][]aliasVal{{sq[1], sq[2], sq[4]}}, func(a *asm, _ []aliasVal) { a.op(opcode.POPITEM) }, 'X'},
		{"DUP", [][]aliasVal{append(append([]aliasVal{}, by...), sq...)}, func(a *asm, _ []aliasVal) { a.op(opcode.DUP, opcode.NIP) }, 'X'},
	}
}

func kindOfVal(v aliasVal) byte {
	switch {
	case v.buf:
		return 'F'
	case v.kind == 'a' || v.kind == 't':
		return 'A'
	case v.kind == 'm':
		return 'M'
	}
	return 'S'
}

// buildAliasCase: target = -1 write to the result, k >= 0 write to operand k (through its slot), -2 no write.
// same: the second operand is a DUP of the first (identical operands).
func buildAliasCase(op aliasOp, vals []aliasVal, same bool, target int, write func(a *asm)) *vcase {
	c := &vcase{gas: 1 << 22, priced: true, family: "alias"}
	a := newAsm()
	n := len(vals)
	a.raw(byte(opcode.INITSSLOT), byte(n+1))
	for k, v := range vals {
		if same && k == 1 {
			a.op(opcode.DUP)
		} else {
			v.e(a, c)
		}
		a.op(opcode.DUP).op(opcode.Opcode(int(opcode.STSFLD0) + k))
	}
	op.emit(a, vals)
	a.op(opcode.DUP).op(opcode.Opcode(int(opcode.STSFLD0) + n))
	switch {
	case target == -1:
		write(a) // consumes the result on top
	case target >= 0:
		a.op(opcode.DROP)
		a.op(opcode.Opcode(int(opcode.LDSFLD0) + target))
		write(a)
	default:
		a.op(opcode.DROP)
	}
	for k := 0; k <= n; k++ {
		a.op(opcode.Opcode(int(opcode.LDSFLD0) + k))
	}
	a.op(opcode.RET)
	a.label("F").op(opcode.PUSH7, opcode.RET)
	s, ok := a.bytes()
	if !ok {
		panic("alias: labels")
	}
	c.script = s
	return c
}

// aliasCorpus: the systematic part (seed-independent).
func aliasCorpus() []*vcase {
	var cs []*vcase
	// the scenario of the README of seeded/C13-m6: PUSHDATA "AB" ; DUP ; PUSH0 ; CAT (zero-length second
	// operand) ; write into the result ; read the first operand — and its Buffer / slot variants
	for _, first := range []emitter{vBS('A', 'B'), vBuf('A', 'B'), vInt(0x4241)} {
		for _, second := range []emitter{vBS(), vBuf(), vInt(0), vNull()} {
			for _, w := range aliasWrites('F') {
				c := &vcase{gas: 1 << 22, priced: true, family: "alias"}
				a := newAsm()
				first(a, c)
				a.op(opcode.DUP)
				second(a, c)
				a.op(opcode.CAT, opcode.DUP)
				w(a)
				a.op(opcode.RET)
				a.label("F").op(opcode.RET)
				c.script, _ = a.bytes()
				cs = append(cs, c)
			}
		}
	}
	for _, op := range aliasOps() {
		var rec func(pos int, vals []aliasVal)
		rec = func(pos int, vals []aliasVal) {
			if pos == len(op.ops) {
				sames := []bool{false}
				if len(vals) == 2 {
					sames = append(sames, true)
				}
				for _, same := range sames {
					vs := vals
					if same {
						vs = []aliasVal{vals[0], vals[0]}
					}
					cs = append(cs, buildAliasCase(op, vs, same, -2, nil))
					if op.res == 'F' || op.res == 'A' || op.res == 'M' {
						for _, w := range aliasWrites(op.res) {
							cs = append(cs, buildAliasCase(op, vs, same, -1, w))
						}
					}
					for k, v := range vs {
						if kk := kindOfVal(v); kk != 'S' {
							for _, w := range aliasWrites(kk) {
								cs = append(cs, buildAliasCase(op, vs, same, k, w))
							}
						}
					}
				}
				return
			}
			for _, v := range op.ops[pos] {
				rec(pos+1, append(append([]aliasVal{}, vals...), v))
			}
		}
		rec(0, nil)
	}
	return cs
}

// aliasCase: random member of the family with random operand contents and two writes.
func (g *gen) aliasCase() *vcase {
	ops := aliasOps()
	op := ops[g.r.Intn(len(ops))]
	var vals []aliasVal
	for _, choices := range op.ops {
		v := choices[g.r.Intn(len(choices))]
		if v.kind == 'b' && g.r.Intn(3) == 0 { // random contents / length
			n := []int{0, 1, 2, 5, 32, 33}[g.r.Intn(6)]
			bs := g.r.Bytes(n)
			if g.r.Bool() {
				v = aliasVal{"rbs", 'b', n, vBS(bs...), false}
			} else {
				v = aliasVal{"rbuf", 'b', n, vBuf(bs...), true}
			}
		}
		vals = append(vals, v)
	}
	same := len(vals) == 2 && g.r.Intn(4) == 0
	if same {
		vals[1] = vals[0]
	}
	target := -1
	var kind byte = op.res
	if g.r.Intn(3) == 0 || !(kind == 'F' || kind == 'A' || kind == 'M') {
		target = g.r.Intn(len(vals))
		kind = kindOfVal(vals[target])
	}
	if !(kind == 'F' || kind == 'A' || kind == 'M') {
		return buildAliasCase(op, vals, same, -2, nil)
	}
	ws := aliasWrites(kind)
	w1, w2 := ws[g.r.Intn(len(ws))], ws[g.r.Intn(len(ws))]
	return buildAliasCase(op, vals, same, target, func(a *asm) {
		if g.r.Bool() {
			a.op(opcode.DUP)
			w1(a)
		}
		w2(a)
	})
}
