package main

import (
	"fmt"
	"math/big"

	"github.com/nspcc-dev/neo-go/pkg/vm/opcode"
)

// Structured control-flow programs: blocks that keep the stack height, if/else, loops with a
// counter in a local, TRY/CATCH/FINALLY, THROW of various items, CALL/CALLA of generated
// functions (which may throw), slots. Mostly valid; a separate mutation pass flips bytes.

type prog struct {
	g      *gen
	a      *asm
	nl     int
	funcs  []string // labels of functions to be emitted
	budget int      // remaining statements
	locals int      // locals available in the current function (0 = no slot)
	args   int
	static int
}

func (p *prog) lbl() string { p.nl++; return fmt.Sprintf("L%d", p.nl) }

func (p *prog) pushSmall() {
	p.a.pushInt(big.NewInt(int64(p.g.r.Intn(9)) - 2))
}

// throwSomething pushes an item and throws it.
func (p *prog) throwSomething() {
	switch p.g.r.Intn(6) {
	case 0:
		p.a.op(opcode.PUSHNULL)
	case 1:
		p.a.pushData([]byte("err"))
	case 2:
		p.a.op(opcode.NEWARRAY0)
	case 3:
		p.a.pushData([]byte("e")).op(opcode.PUSH1, opcode.PACK)
	default:
		p.pushSmall()
	}
	p.a.op(opcode.THROW)
}

// stmt emits one height-neutral statement (h = number of known ints on the stack).
func (p *prog) stmt(depth int) {
	p.budget--
	g := p.g
	switch g.r.Intn(22) {
	case 0, 1: // arithmetic on fresh operands, result dropped or stored
		p.pushSmall()
		p.pushSmall()
		p.a.op([]opcode.Opcode{opcode.ADD, opcode.SUB, opcode.MUL, opcode.DIV, opcode.MOD, opcode.MAX}[g.r.Intn(6)])
		p.sink()
	case 2: // if / else
		if depth > 3 {
			return
		}
		els, end := p.lbl(), p.lbl()
		p.cond()
		p.a.jmp([]opcode.Opcode{opcode.JMPIFNOT, opcode.JMPIF}[g.r.Intn(2)], els)
		p.block(depth+1, 2)
		p.a.jmp(opcode.JMP, end)
		p.a.label(els)
		p.block(depth+1, 2)
		p.a.label(end)
	case 3: // compare-jump
		end := p.lbl()
		p.pushSmall()
		p.pushSmall()
		ops := []opcode.Opcode{opcode.JMPEQ, opcode.JMPNE, opcode.JMPGT, opcode.JMPGE, opcode.JMPLT, opcode.JMPLE}
		p.a.jmp(ops[g.r.Intn(len(ops))], end)
		p.block(depth+1, 2)
		p.a.label(end)
	case 4: // counted loop
		if depth > 2 || p.locals == 0 {
			return
		}
		top := p.lbl()
		k := g.r.Intn(p.locals)
		p.a.pushInt(big.NewInt(int64(g.r.Intn(4)))).raw(byte(opcode.STLOC), byte(k))
		p.a.label(top)
		p.block(depth+1, 2)
		p.a.raw(byte(opcode.LDLOC), byte(k)).op(opcode.DEC, opcode.DUP).raw(byte(opcode.STLOC), byte(k))
		p.a.op(opcode.PUSH0).jmp(opcode.JMPGT, top)
	case 5, 6, 7, 8: // try / catch / finally
		if depth > 3 {
			return
		}
		p.tryStmt(depth)
	case 9: // throw
		if g.r.Intn(3) != 0 {
			p.throwSomething()
		}
	case 10, 11: // call a function
		if len(p.funcs) == 0 {
			return
		}
		f := p.funcs[g.r.Intn(len(p.funcs))]
		switch g.r.Intn(3) {
		case 0:
			p.a.jmp(opcode.CALL, f)
		case 1:
			p.a.jmpL(opcode.CALLL, f)
		default:
			p.a.jmpL(opcode.PUSHA, f).op(opcode.CALLA)
		}
	case 12: // locals
		if p.locals == 0 {
			return
		}
		k := g.r.Intn(p.locals + 1) // may be out of range by one
		if g.r.Bool() {
			p.pushSmall()
			p.a.raw(byte(opcode.STLOC), byte(k))
		} else {
			p.a.raw(byte(opcode.LDLOC), byte(k)).op(opcode.DROP)
		}
	case 13: // short slot forms / args / statics
		switch g.r.Intn(4) {
		case 0:
			if p.args > 0 {
				p.a.op(opcode.Opcode(int(opcode.LDARG0) + g.r.Intn(p.args))).op(opcode.DROP)
			}
		case 1:
			if p.args > 0 {
				p.pushSmall()
				p.a.op(opcode.Opcode(int(opcode.STARG0) + g.r.Intn(p.args)))
			}
		case 2:
			if p.static > 0 {
				p.pushSmall()
				p.a.op(opcode.Opcode(int(opcode.STSFLD0) + g.r.Intn(p.static)))
			}
		default:
			if p.static > 0 {
				p.a.op(opcode.Opcode(int(opcode.LDSFLD0) + g.r.Intn(p.static)))
				p.sink()
			}
		}
	case 14: // leave something on the stack (the next statements see a deeper stack)
		p.pushSmall()
	case 15:
		p.a.op(opcode.NOP)
	case 16: // an early RET
		if g.r.Intn(4) == 0 {
			p.a.op(opcode.RET)
		}
	case 17: // ASSERT
		p.cond()
		p.a.op(opcode.ASSERT)
	case 18: // collection round trip that can throw a catchable exception
		p.a.pushInt(big.NewInt(int64(g.r.Intn(3)))).op(opcode.NEWARRAY)
		p.a.pushInt(big.NewInt(int64(g.r.Intn(4)) - 1)).op(opcode.PICKITEM)
		p.sink()
	case 19: // ENDTRY / ENDFINALLY out of place
		if g.r.Intn(6) == 0 {
			if g.r.Bool() {
				p.a.op(opcode.ENDFINALLY)
			} else {
				e := p.lbl()
				p.a.jmp(opcode.ENDTRY, e).label(e)
			}
		}
	default:
		p.pushSmall()
		p.a.op(opcode.DROP)
	}
}

func (p *prog) sink() {
	if p.locals > 0 && p.g.r.Bool() {
		p.a.raw(byte(opcode.STLOC), byte(p.g.r.Intn(p.locals)))
	} else {
		p.a.op(opcode.DROP)
	}
}

func (p *prog) cond() {
	switch p.g.r.Intn(4) {
	case 0:
		p.a.op(opcode.PUSHT)
	case 1:
		p.a.op(opcode.PUSHF)
	case 2:
		p.pushSmall()
	default:
		if p.locals > 0 {
			p.a.raw(byte(opcode.LDLOC), byte(p.g.r.Intn(p.locals)))
		} else {
			p.a.op(opcode.PUSHNULL)
		}
	}
}

func (p *prog) block(depth, maxStmts int) {
	n := p.g.r.Intn(maxStmts + 1)
	for i := 0; i < n && p.budget > 0; i++ {
		p.stmt(depth)
	}
}

func (p *prog) tryStmt(depth int) {
	g := p.g
	hasCatch := g.r.Intn(4) != 0
	hasFinally := g.r.Intn(2) == 0
	if !hasCatch && !hasFinally {
		hasFinally = true
	}
	c, f, end := "", "", p.lbl()
	if hasCatch {
		c = p.lbl()
	}
	if hasFinally {
		f = p.lbl()
	}
	if g.r.Intn(6) == 0 {
		// handlers placed *before* the TRY (negative offsets)
		over := p.lbl()
		p.a.jmp(opcode.JMP, over)
		if hasCatch {
			p.a.label(c)
			p.sink()
			p.block(depth+1, 2)
			p.a.jmp(opcode.ENDTRY, end)
		}
		if hasFinally {
			p.a.label(f)
			p.block(depth+1, 2)
			p.a.op(opcode.ENDFINALLY)
		}
		p.a.label(over)
		p.a.try(c, f)
		p.block(depth+1, 3)
		if g.r.Intn(2) == 0 {
			p.throwSomething()
		}
		p.a.jmp(opcode.ENDTRY, end)
		p.a.label(end)
		return
	}
	if g.r.Intn(5) == 0 {
		p.a.tryL(c, f)
	} else {
		p.a.try(c, f)
	}
	p.block(depth+1, 3)
	if g.r.Intn(3) == 0 {
		p.throwSomething()
	}
	if g.r.Intn(12) != 0 {
		p.a.jmp(opcode.ENDTRY, end)
	}
	if hasCatch {
		p.a.label(c)
		switch g.r.Intn(4) {
		case 0: // keep the exception on the stack
		case 1:
			p.a.op(opcode.DROP)
			p.throwSomething() // throw from catch
		default:
			p.sink()
		}
		p.block(depth+1, 2)
		if g.r.Intn(12) != 0 {
			if g.r.Intn(6) == 0 {
				p.a.jmpL(opcode.ENDTRYL, end)
			} else {
				p.a.jmp(opcode.ENDTRY, end)
			}
		}
	}
	if hasFinally {
		p.a.label(f)
		p.block(depth+1, 2)
		if g.r.Intn(8) == 0 {
			p.throwSomething() // throw from finally
		}
		if g.r.Intn(12) != 0 {
			p.a.op(opcode.ENDFINALLY)
		}
	}
	p.a.label(end)
}

// ctlCase generates one structured program.
func (g *gen) ctlCase() *vcase {
	for {
		p := &prog{g: g, a: newAsm(), budget: g.r.Range(4, 30)}
		nf := g.r.Intn(4)
		for i := 0; i < nf; i++ {
			p.funcs = append(p.funcs, fmt.Sprintf("F%d", i))
		}
		if g.r.Intn(3) == 0 {
			p.static = g.r.Range(1, 3)
			p.a.raw(byte(opcode.INITSSLOT), byte(p.static))
		}
		if g.r.Bool() {
			p.locals = g.r.Range(1, 3)
			p.a.raw(byte(opcode.INITSLOT), byte(p.locals), 0)
		}
		p.block(0, 8)
		p.a.op(opcode.RET)
		for i, f := range p.funcs {
			p.a.label(f)
			p.locals, p.args = 0, 0
			if g.r.Intn(3) != 0 {
				p.locals = g.r.Intn(3)
				p.args = g.r.Intn(3)
				for k := 0; k < p.args; k++ {
					if g.r.Intn(10) != 0 { // sometimes too few arguments on the stack
						p.pushSmall()
					}
				}
				p.a.raw(byte(opcode.INITSLOT), byte(p.locals), byte(p.args))
			}
			// a function may only call later functions (no unbounded recursion), except rarely
			saved := p.funcs
			if g.r.Intn(25) != 0 {
				p.funcs = p.funcs[i+1:]
			}
			p.budget += 6
			p.block(1, 5)
			p.funcs = saved
			if g.r.Intn(3) == 0 {
				p.pushSmall() // return value
			}
			p.a.op(opcode.RET)
		}
		s, ok := p.a.bytes()
		if !ok {
			continue // a short jump did not fit, try again
		}
		return &vcase{script: s, gas: genGas, priced: true, family: "control"}
	}
}

// mutate flips / replaces a few bytes of a script.
func (g *gen) mutate(c *vcase) *vcase {
	s := append([]byte{}, c.script...)
	if len(s) == 0 {
		return c
	}
	n := g.r.Range(1, 3)
	for i := 0; i < n; i++ {
		at := g.r.Intn(len(s))
		switch g.r.Intn(4) {
		case 0:
			s[at] = byte(g.r.U64())
		case 1:
			s[at] += byte(g.r.Intn(5)) - 2
		case 2:
			s = append(s[:at], s[at+1:]...)
			if len(s) == 0 {
				s = []byte{byte(opcode.NOP)}
			}
		default:
			s[at] = byte(seqOps[g.r.Intn(len(seqOps))])
		}
	}
	return &vcase{script: s, args: c.args, gas: genGas, priced: true, family: c.family + "-mut"}
}

// wrapTry embeds the script in TRY_L … ENDTRY_L with a catch block that leaves a marker:
// tells a catchable exception (HALT with the exception and the marker) from a fault.
func wrapTry(c *vcase) *vcase {
	a := newAsm()
	a.tryL("C", "")
	a.raw(c.script...)
	a.jmpL(opcode.ENDTRYL, "E")
	a.label("C").pushData([]byte("C"))
	a.label("E").op(opcode.RET)
	s, _ := a.bytes()
	return &vcase{pre: c.pre, rv: c.rv, script: s, args: c.args, gas: c.gas, priced: c.priced, family: c.family}
}

// randomBytes: the malformed stream.
func (g *gen) randomBytes() *vcase {
	n := g.r.Range(1, 24)
	s := g.r.Bytes(n)
	if g.r.Bool() { // bias to valid opcodes
		for i := range s {
			if g.r.Intn(3) != 0 {
				s[i] = byte(seqOps[g.r.Intn(len(seqOps))])
			}
		}
	}
	c := &vcase{script: s, gas: genGas, priced: true, family: "random"}
	k := g.r.Intn(4)
	for i := 0; i < k; i++ {
		c.args = append(c.args, seqStartPool[g.r.Intn(len(seqStartPool))])
	}
	return c
}

// heapCase: aliasing of compound objects. A few static slots ("registers") hold collections; the
// program stores one into another (APPEND / SETITEM / PACK* / VALUES / CONVERT), mutates through
// one reference and finally dumps every register: struct clone-on-store, shallow copies and shared
// references become observable. The generator tracks kind and length of every register so that
// most programs run to the end (1 in 12 operations ignores the tracking).
func (g *gen) heapCase() *vcase {
	a := newAsm()
	nr := g.r.Range(2, 5)
	a.raw(byte(opcode.INITSSLOT), byte(nr))
	ld := func(i int) { a.op(opcode.Opcode(int(opcode.LDSFLD0) + i)) }
	st := func(i int) { a.op(opcode.Opcode(int(opcode.STSFLD0) + i)) }
	kind := make([]byte, nr) // 'A' array, 'S' struct, 'M' map, '?' anything
	ln := make([]int, nr)    // -1 unknown
	for i := 0; i < nr; i++ {
		switch g.r.Intn(5) {
		case 0:
			a.op(opcode.NEWARRAY0)
			kind[i], ln[i] = 'A', 0
		case 1, 2:
			a.op(opcode.NEWSTRUCT0)
			kind[i], ln[i] = 'S', 0
		case 3:
			a.op(opcode.NEWMAP)
			kind[i], ln[i] = 'M', 0
		default:
			n := g.r.Intn(3)
			a.pushInt(big.NewInt(int64(n)))
			if g.r.Bool() {
				a.op(opcode.NEWARRAY)
				kind[i] = 'A'
			} else {
				a.op(opcode.NEWSTRUCT)
				kind[i] = 'S'
			}
			ln[i] = n
		}
		st(i)
	}
	// pick a register of one of the kinds (or any, when sloppy)
	pick := func(kinds string) int {
		sloppy := g.r.Intn(12) == 0
		for try := 0; try < 12; try++ {
			x := g.r.Intn(nr)
			if sloppy {
				return x
			}
			for k := 0; k < len(kinds); k++ {
				if kind[x] == kinds[k] {
					return x
				}
			}
		}
		return -1
	}
	idx := func(x int) { // an index into sequence register x
		n := ln[x]
		switch {
		case g.r.Intn(10) == 0:
			a.pushInt(big.NewInt(int64(n + g.r.Intn(2)))) // out of range by 0/1
		case n > 0:
			a.pushInt(big.NewInt(int64(g.r.Intn(n))))
		default:
			a.op(opcode.PUSH0)
		}
	}
	key := func() { g.emitPrim(a, g.keyPrim()) }
	n := g.r.Range(3, 16)
	for i := 0; i < n; i++ {
		switch g.r.Intn(16) {
		case 0, 1, 2: // x.append(y) / x.append(int)
			x := pick("AS")
			if x < 0 {
				continue
			}
			ld(x)
			if g.r.Intn(4) == 0 {
				a.pushInt(big.NewInt(int64(g.r.Intn(5))))
			} else {
				ld(g.r.Intn(nr))
			}
			a.op(opcode.APPEND)
			if ln[x] >= 0 {
				ln[x]++
			}
		case 3, 4, 5: // x[k] = y
			x := pick("ASM")
			if x < 0 || (kind[x] != 'M' && ln[x] == 0 && g.r.Intn(8) != 0) {
				continue
			}
			ld(x)
			if kind[x] == 'M' {
				key()
				ln[x] = -1
			} else {
				idx(x)
			}
			if g.r.Intn(4) == 0 {
				a.pushInt(big.NewInt(int64(g.r.Intn(5))))
			} else {
				ld(g.r.Intn(nr))
			}
			a.op(opcode.SETITEM)
		case 6: // z = values(x)
			x, z := pick("ASM"), g.r.Intn(nr)
			if x < 0 {
				continue
			}
			ld(x)
			a.op(opcode.VALUES)
			st(z)
			kind[z], ln[z] = 'A', ln[x]
		case 7: // z = convert(x)
			x, z := pick("AS"), g.r.Intn(nr)
			if x < 0 {
				continue
			}
			ld(x)
			if g.r.Bool() {
				a.convert(tArray)
				kind[z], ln[z] = 'A', ln[x]
			} else {
				a.convert(tStruct)
				kind[z], ln[z] = 'S', ln[x]
			}
			st(z)
		case 8: // z = x[k]
			x, z := pick("ASM"), g.r.Intn(nr)
			if x < 0 || (kind[x] != 'M' && ln[x] == 0) {
				continue
			}
			ld(x)
			if kind[x] == 'M' {
				key()
				if g.r.Intn(5) != 0 {
					a.op(opcode.HASKEY) // a missing key must not end the program
				} else {
					a.op(opcode.PICKITEM)
				}
			} else {
				idx(x)
				a.op(opcode.PICKITEM)
			}
			st(z)
			kind[z], ln[z] = '?', -1
		case 9: // z = pack(x, y)
			z := g.r.Intn(nr)
			ld(g.r.Intn(nr))
			ld(g.r.Intn(nr))
			if g.r.Bool() {
				a.op(opcode.PUSH2, opcode.PACK)
				kind[z] = 'A'
			} else {
				a.op(opcode.PUSH2, opcode.PACKSTRUCT)
				kind[z] = 'S'
			}
			ln[z] = 2
			st(z)
		case 10: // z = packmap
			z := g.r.Intn(nr)
			ld(g.r.Intn(nr))
			key()
			ld(g.r.Intn(nr))
			key()
			a.op(opcode.PUSH2, opcode.PACKMAP)
			st(z)
			kind[z], ln[z] = 'M', -1
		case 11: // remove
			x := pick("ASM")
			if x < 0 || (kind[x] != 'M' && ln[x] <= 0) {
				continue
			}
			ld(x)
			if kind[x] == 'M' {
				key()
			} else {
				idx(x)
				ln[x]--
			}
			a.op(opcode.REMOVE)
		case 12:
			x := pick("ASM")
			if x < 0 {
				continue
			}
			ld(x)
			if kind[x] != 'M' && g.r.Bool() {
				a.op(opcode.REVERSEITEMS) // not defined for maps (FAULT)
			} else {
				a.op(opcode.CLEARITEMS)
				ln[x] = 0
			}
		case 13: // z = popitem(x)
			x, z := pick("AS"), g.r.Intn(nr)
			if x < 0 || ln[x] <= 0 {
				continue
			}
			ld(x)
			a.op(opcode.POPITEM)
			ln[x]--
			st(z)
			kind[z], ln[z] = '?', -1
		case 14: // z = equal(x, y)
			z := g.r.Intn(nr)
			ld(g.r.Intn(nr))
			ld(g.r.Intn(nr))
			a.op(opcode.EQUAL)
			st(z)
			kind[z], ln[z] = '?', -1
		default: // z = keys(x) / unpack + pack round trip
			z := g.r.Intn(nr)
			if x := pick("M"); x >= 0 && g.r.Bool() {
				ld(x)
				a.op(opcode.KEYS)
				st(z)
				kind[z], ln[z] = 'A', -1
			} else if x := pick("AS"); x >= 0 {
				ld(x)
				a.op(opcode.UNPACK, opcode.PACK)
				st(z)
				kind[z], ln[z] = 'A', ln[x]
			}
		}
	}
	for i := 0; i < nr; i++ {
		ld(i)
	}
	s, _ := a.bytes()
	return &vcase{script: s, gas: 400000, priced: true, family: "heap"}
}

// mapCase: one map, a long sequence of insertions, removals and lookups with keys from a small
// pool (so that keys are hit again), then the map, its KEYS and VALUES are dumped: ordering,
// replacement in place, index bookkeeping after removal.
func (g *gen) mapCase() *vcase {
	a := newAsm()
	a.raw(byte(opcode.INITSSLOT), 1).op(opcode.NEWMAP, opcode.STSFLD0)
	nk := g.r.Range(2, 6)
	keys := make([]arg, nk)
	for i := range keys {
		keys[i] = keyPool[g.r.Intn(len(keyPool))]
	}
	key := func() { g.emitPrim(a, keys[g.r.Intn(nk)]) }
	n := g.r.Range(4, 20)
	results := 0
	for i := 0; i < n; i++ {
		switch g.r.Intn(11) {
		case 8: // CLEARITEMS: every later operation reuses keys that existed before the clear
			if i < 2 {
				continue
			}
			a.op(opcode.LDSFLD0, opcode.CLEARITEMS)
		case 9: // observe the whole map in the middle of the program
			a.op(opcode.LDSFLD0, []opcode.Opcode{opcode.KEYS, opcode.VALUES, opcode.SIZE}[g.r.Intn(3)])
		case 10: // remove and immediately re-add the same key (position moves to the end)
			k := keys[g.r.Intn(nk)]
			a.op(opcode.LDSFLD0)
			g.emitPrim(a, k)
			a.op(opcode.REMOVE, opcode.LDSFLD0)
			g.emitPrim(a, k)
			a.pushInt(big.NewInt(int64(100 + i)))
			a.op(opcode.SETITEM)
		case 0, 1, 2, 3:
			a.op(opcode.LDSFLD0)
			key()
			a.pushInt(big.NewInt(int64(i)))
			a.op(opcode.SETITEM)
		case 4, 5:
			a.op(opcode.LDSFLD0)
			key()
			a.op(opcode.REMOVE)
		case 6:
			a.op(opcode.LDSFLD0)
			key()
			a.op(opcode.HASKEY)
			results++
		default: // PICKITEM guarded by HASKEY
			l := fmt.Sprintf("m%d", i)
			k := keys[g.r.Intn(nk)]
			a.op(opcode.LDSFLD0)
			g.emitPrim(a, k)
			a.op(opcode.HASKEY).jmp(opcode.JMPIFNOT, l)
			a.op(opcode.LDSFLD0)
			g.emitPrim(a, k)
			a.op(opcode.PICKITEM)
			a.label(l)
		}
	}
	a.op(opcode.LDSFLD0, opcode.DUP, opcode.KEYS, opcode.SWAP, opcode.DUP, opcode.VALUES, opcode.SWAP, opcode.UNPACK)
	s, ok := a.bytes()
	if !ok {
		return g.mapCase()
	}
	return &vcase{script: s, gas: 400000, priced: true, family: "map"}
}

// slotCase: static / local / argument slots in every form (LDxxx0..6 and the operand form), indices
// at and beyond the slot size, values of all kinds; optionally a called function with its own
// locals/arguments sharing the static slot. Every slot is dumped at the end.
func (g *gen) slotCase() *vcase {
	a := newAsm()
	ns, nl, na := g.r.Intn(9), g.r.Intn(9), g.r.Intn(9)
	if g.r.Intn(10) == 0 {
		ns = []int{7, 8, 255}[g.r.Intn(3)]
	}
	for i := 0; i < na; i++ {
		a.pushInt(big.NewInt(int64(100 + i)))
	}
	if ns > 0 || g.r.Intn(10) == 0 {
		a.raw(byte(opcode.INITSSLOT), byte(ns))
	}
	if nl+na > 0 || g.r.Intn(10) == 0 {
		a.raw(byte(opcode.INITSLOT), byte(nl), byte(na))
	}
	type kindT struct {
		ld0, st0, ld, st opcode.Opcode
		n           int
	}
	kinds := []kindT{
		{opcode.LDSFLD0, opcode.STSFLD0, opcode.LDSFLD, opcode.STSFLD, ns},
		{opcode.LDLOC0, opcode.STLOC0, opcode.LDLOC, opcode.STLOC, nl},
		{opcode.LDARG0, opcode.STARG0, opcode.LDARG, opcode.STARG, na},
	}
	emit := func(k kindT, store bool, idx int) {
		base, long := k.ld0, k.ld
		if store {
			base, long = k.st0, k.st
		}
		if idx <= 6 && g.r.Intn(3) != 0 {
			a.op(opcode.Opcode(int(base) + idx))
		} else {
			a.raw(byte(long), byte(idx))
		}
	}
	pickIdx := func(n int) int {
		if n == 0 || g.r.Intn(12) == 0 {
			return n + g.r.Intn(2) // out of range
		}
		if n > 9 {
			return []int{0, 6, 7, n - 1}[g.r.Intn(4)]
		}
		return g.r.Intn(n)
	}
	body := func(steps int) {
		for i := 0; i < steps; i++ {
			k := kinds[g.r.Intn(3)]
			if k.n == 0 && g.r.Intn(6) != 0 {
				continue
			}
			switch g.r.Intn(5) {
			case 0, 1: // store a fresh value
				switch g.r.Intn(5) {
				case 0:
					g.emitAny(a, 1)
				default:
					a.pushInt(big.NewInt(int64(g.r.Intn(50))))
				}
				emit(k, true, pickIdx(k.n))
			case 2: // copy slot to slot
				k2 := kinds[g.r.Intn(3)]
				emit(k, false, pickIdx(k.n))
				emit(k2, true, pickIdx(k2.n))
			case 3: // load and keep
				emit(k, false, pickIdx(k.n))
			default: // increment in place
				j := pickIdx(k.n)
				emit(k, false, j)
				a.op(opcode.INC)
				emit(k, true, j)
			}
		}
	}
	body(g.r.Range(3, 14))
	withFn := g.r.Intn(3) == 0
	if withFn {
		a.pushInt(big.NewInt(7)).pushInt(big.NewInt(8)).jmp(opcode.CALL, "fn")
	}
	dump := func() {
		for _, k := range kinds {
			n := k.n
			if n > 9 {
				n = 8
			}
			for i := 0; i < n; i++ {
				emit(k, false, i)
			}
		}
	}
	dump()
	a.op(opcode.RET)
	if withFn {
		a.label("fn")
		saveL, saveA := kinds[1].n, kinds[2].n
		kinds[1].n, kinds[2].n = g.r.Intn(4), g.r.Intn(3)
		if kinds[1].n+kinds[2].n > 0 {
			a.raw(byte(opcode.INITSLOT), byte(kinds[1].n), byte(kinds[2].n))
		}
		body(g.r.Range(2, 8))
		a.op(opcode.RET)
		kinds[1].n, kinds[2].n = saveL, saveA
	}
	s, ok := a.bytes()
	if !ok {
		return g.slotCase()
	}
	return &vcase{script: s, gas: genGas, priced: true, family: "slots"}
}
