package main

import (
	"crypto/sha256"
	"encoding/hex"
	"fmt"
	"math/big"
	"strings"

	"github.com/nspcc-dev/neo-go/pkg/core/fee"
	"github.com/nspcc-dev/neo-go/pkg/crypto/hash"
	"github.com/nspcc-dev/neo-go/pkg/smartcontract/callflag"
	"github.com/nspcc-dev/neo-go/pkg/smartcontract/nef"
	"github.com/nspcc-dev/neo-go/pkg/util"
	"github.com/nspcc-dev/neo-go/pkg/vm"
	"github.com/nspcc-dev/neo-go/pkg/vm/opcode"
	"github.com/nspcc-dev/neo-go/pkg/vm/stackitem"
	"github.com/nspcc-dev/neo-go/pkg/vm/vmstate"
)

// arg is a primitive item pushed on the evaluation stack before Run.
type arg struct {
	kind byte // 'n' null, 'b' bool, 'i' integer, 's' byte string, 'f' buffer, 'x' interop interface
	b    bool
	i    *big.Int
	bs   []byte
}

func (a arg) String() string {
	switch a.kind {
	case 'n':
		return "n"
	case 'b':
		if a.b {
			return "b:1"
		}
		return "b:0"
	case 'i':
		return "i:" + a.i.String()
	case 's':
		return "s:" + hexs(a.bs)
	case 'x':
		return "x"
	default:
		return "f:" + hexs(a.bs)
	}
}

func (a arg) item() stackitem.Item {
	switch a.kind {
	case 'n':
		return stackitem.Null{}
	case 'b':
		return stackitem.NewBool(a.b)
	case 'i':
		return stackitem.NewBigInteger(new(big.Int).Set(a.i))
	case 's':
		return stackitem.NewByteArray(append([]byte{}, a.bs...))
	case 'x':
		return stackitem.NewInterop(struct{}{})
	default:
		return stackitem.NewBuffer(append([]byte{}, a.bs...))
	}
}

func hexs(b []byte) string {
	if len(b) == 0 {
		return "-"
	}
	return hex.EncodeToString(b)
}

// one case: script + arguments + gas settings
type vcase struct {
	// pre: scripts loaded before `script` (the first one is the entry script at the bottom of the
	// invocation stack); `script` is loaded last and executes first. rv: -1 (LoadScript), 1
	// (LoadScriptWithHash), 0 (LoadNEFMethod without a return value). The main script is loaded with rv.
	pre    []preScript
	rv     int
	script []byte
	args   []arg
	gas    int64 // -1 unlimited; otherwise limit in price-coefficient units
	priced bool
	family string // opcode family (oracle key)
	// integer-only single instruction cases carry their operands for the algebraic oracle
	hasInts bool
	iop     opcode.Opcode
	ints    []*big.Int
}

type preScript struct {
	rv     int
	script []byte
}

func (c *vcase) opLine() string {
	var sb strings.Builder
	p := 0
	if c.priced {
		p = 1
	}
	if len(c.pre) > 0 {
		fmt.Fprintf(&sb, "runm %d %d %d", c.gas, p, len(c.pre)+1)
		for _, s := range c.pre {
			fmt.Fprintf(&sb, " %d:%s", s.rv, hexs(s.script))
		}
		fmt.Fprintf(&sb, " %d:%s", c.mainRv(), hexs(c.script))
	} else {
		fmt.Fprintf(&sb, "run %d %d %s", c.gas, p, hexs(c.script))
	}
	for _, a := range c.args {
		sb.WriteByte(' ')
		sb.WriteString(a.String())
	}
	return sb.String()
}

// mainRv: a single-script case is always loaded by LoadScript (rv -1).
func (c *vcase) mainRv() int {
	if len(c.pre) == 0 {
		return -1
	}
	return c.rv
}

// loadReal loads one script the way the rv says.
func loadReal(v *vm.VM, rv int, b []byte) {
	switch rv {
	case 1:
		v.LoadScriptWithHash(b, hash.Hash160(b), callflag.NoneFlag)
	case 0:
		v.LoadNEFMethod(&nef.File{Script: b}, nil, util.Uint160{}, hash.Hash160(b), callflag.NoneFlag, false, 0, -1, nil, nil, false)
	default:
		v.LoadScript(b)
	}
}

// result of the real VM
type vres struct {
	ran    [256]bool // opcodes the VM started to execute in this run (trace runs only)
	lastOp int
	obs    string // canonical observation line
	halt   bool
	fault  bool
	panicd bool
	gas    int64
	stack  []stackitem.Item // top first (HALT only)
	refs   int
}

const priceBase = vm.ExecFeeFactorMultiplier // 1 coefficient unit = 1 Datoshi = 10000 picoGAS

func priceGetter(op opcode.Opcode, _ []byte) int64 { return fee.Opcode(priceBase, op) }

// instruction coverage of the real VM: how often each opcode was executed to completion and how
// often it was the instruction at which the VM faulted.
var (
	execOK    [256]int
	execFault [256]int
	trace     = false
)

// execReal runs the case on a fresh real VM.
func execReal(c *vcase) (res vres) {
	defer func() {
		if r := recover(); r != nil {
			res = vres{obs: "panic", panicd: true}
		}
	}()
	v := vm.New()
	if c.priced {
		v.SetPriceGetter(priceGetter)
	}
	v.SetGasLimit(c.gas) // multiplies a positive limit by ExecFeeFactorMultiplier; -1 = unlimited
	last := -1
	if trace {
		v.SetOnExecHook(func(_ util.Uint160, _ int, op opcode.Opcode) {
			if last >= 0 {
				execOK[last]++
			}
			last = int(op)
			res.ran[last] = true
		})
	}
	for _, s := range c.pre {
		loadReal(v, s.rv, s.script)
	}
	loadReal(v, c.mainRv(), c.script)
	for _, a := range c.args {
		v.Estack().PushItem(a.item())
	}
	_ = v.Run()
	if trace && last >= 0 {
		if v.State().HasFlag(vmstate.Fault) {
			execFault[last]++
		} else {
			execOK[last]++
		}
	}
	res.lastOp = last
	res.gas = v.GasConsumed()
	res.refs = v.VerifRefs()
	switch {
	case v.State() == vmstate.Halt:
		res.halt = true
		n := v.Estack().Len()
		res.stack = make([]stackitem.Item, 0, n)
		for i := 0; i < n; i++ {
			res.stack = append(res.stack, v.Estack().Peek(i).Item())
		}
		res.obs = fmt.Sprintf("HALT gas=%d %s", res.gas, showStack(res.stack))
	case v.State().HasFlag(vmstate.Fault):
		res.fault = true
		res.obs = fmt.Sprintf("FAULT gas=%d", res.gas)
	default:
		res.obs = "state:" + v.State().String()
	}
	return
}

// ---- canonical printing (must match Driver/Vmops.lean) ----

func showBytes(b []byte) string {
	if len(b) <= 40 {
		return hexs(b)
	}
	h := sha256.Sum256(b)
	return fmt.Sprintf("~%d:%s", len(b), hex.EncodeToString(h[:8]))
}

type printer struct {
	seen map[any]int
	sb   strings.Builder
}

func (p *printer) ref(x any) (int, bool) {
	if k, ok := p.seen[x]; ok {
		return k, true
	}
	k := len(p.seen)
	p.seen[x] = k
	return k, false
}

func (p *printer) item(it stackitem.Item) {
	switch t := it.(type) {
	case stackitem.Null:
		p.sb.WriteString("N")
	case stackitem.Bool:
		if bool(t) {
			p.sb.WriteString("B1")
		} else {
			p.sb.WriteString("B0")
		}
	case *stackitem.BigInteger:
		p.sb.WriteString("I" + t.Big().String())
	case *stackitem.ByteArray:
		p.sb.WriteString("S" + showBytes(t.Value().([]byte)))
	case *stackitem.Pointer:
		fmt.Fprintf(&p.sb, "P%d", t.Position())
	case *stackitem.Interop:
		p.sb.WriteString("X")
	case *stackitem.Buffer:
		if k, old := p.ref(t); old {
			fmt.Fprintf(&p.sb, "F#%d", k)
		} else {
			fmt.Fprintf(&p.sb, "F#%d=%s", k, showBytes(t.Value().([]byte)))
		}
	case *stackitem.Array:
		p.seq("A", t, t.Value().([]stackitem.Item))
	case *stackitem.Struct:
		p.seq("T", t, t.Value().([]stackitem.Item))
	case *stackitem.Map:
		if k, old := p.ref(t); old {
			fmt.Fprintf(&p.sb, "M#%d", k)
		} else {
			fmt.Fprintf(&p.sb, "M#%d{", k)
			for i, e := range t.Value().([]stackitem.MapElement) {
				if i > 0 {
					p.sb.WriteByte(',')
				}
				p.item(e.Key)
				p.sb.WriteByte(':')
				p.item(e.Value)
			}
			p.sb.WriteByte('}')
		}
	default:
		fmt.Fprintf(&p.sb, "?%T", it)
	}
}

func (p *printer) seq(tag string, id any, xs []stackitem.Item) {
	k, old := p.ref(id)
	if old {
		fmt.Fprintf(&p.sb, "%s#%d", tag, k)
		return
	}
	fmt.Fprintf(&p.sb, "%s#%d[", tag, k)
	for i, x := range xs {
		if i > 0 {
			p.sb.WriteByte(',')
		}
		p.item(x)
	}
	p.sb.WriteByte(']')
}

// showStack prints the items top first.
func showStack(st []stackitem.Item) string {
	p := &printer{seen: map[any]int{}}
	p.sb.WriteByte('[')
	for i, x := range st {
		if i > 0 {
			p.sb.WriteByte(' ')
		}
		p.item(x)
	}
	p.sb.WriteByte(']')
	return p.sb.String()
}

// walkRefs computes the number of references reachable from the result stack (spec count) and
// whether a cycle exists among compound items.
func walkRefs(st []stackitem.Item) (n int, cyclic bool) {
	seen := map[any]bool{}
	onPath := map[any]bool{}
	var visit func(it stackitem.Item)
	visit = func(it stackitem.Item) {
		n++
		var kids []stackitem.Item
		switch t := it.(type) {
		case *stackitem.Array:
			kids = t.Value().([]stackitem.Item)
		case *stackitem.Struct:
			kids = t.Value().([]stackitem.Item)
		case *stackitem.Map:
			for _, e := range t.Value().([]stackitem.MapElement) {
				kids = append(kids, e.Key, e.Value)
			}
		default:
			return
		}
		if onPath[it] {
			cyclic = true
		}
		if seen[it] {
			return
		}
		seen[it] = true
		onPath[it] = true
		for _, k := range kids {
			visit(k)
		}
		onPath[it] = false
	}
	for _, x := range st {
		visit(x)
	}
	return
}
