package main

import (
	"math/big"

	"github.com/nspcc-dev/neo-go/pkg/vm/opcode"

	"verif/harness/internal/prng"
)

// ---- boundary-biased operand values ----

func pow2(k uint) *big.Int { return new(big.Int).Lsh(big.NewInt(1), k) }

var intBoundaries []*big.Int

func init() {
	add := func(n *big.Int) { intBoundaries = append(intBoundaries, n) }
	for _, v := range []int64{0, 1, -1, 2, -2, 3, 7, 8, 16, 17, 127, 128, 129, -127, -128, -129, 255, 256, 257, -255, -256, -257,
		32767, 32768, -32768, -32769, 65535, 65536, 1<<31 - 1, 1 << 31, -(1 << 31), -(1 << 31) - 1, 1<<32 - 1, 1 << 32, 131070, 131071, 2048, 2049} {
		add(big.NewInt(v))
	}
	for _, k := range []uint{63, 64, 127, 128, 254, 255} {
		p := pow2(k)
		for _, d := range []int64{-2, -1, 0, 1} {
			x := new(big.Int).Add(p, big.NewInt(d))
			add(x)
			add(new(big.Int).Neg(x))
		}
	}
}

var (
	maxI = new(big.Int).Sub(pow2(255), big.NewInt(1))
	minI = new(big.Int).Neg(pow2(255))
)

func inRange(n *big.Int) bool { return n.Cmp(minI) >= 0 && n.Cmp(maxI) <= 0 }

type gen struct {
	r *prng.R
}

// bigInt returns an integer within the 256-bit range, biased to the boundaries.
func (g *gen) bigInt() *big.Int {
	for {
		var n *big.Int
		switch g.r.Intn(10) {
		case 0, 1, 2, 3:
			n = new(big.Int).Set(intBoundaries[g.r.Intn(len(intBoundaries))])
		case 4:
			n = new(big.Int).Add(intBoundaries[g.r.Intn(len(intBoundaries))], big.NewInt(int64(g.r.Intn(5))-2))
		case 5:
			n = big.NewInt(int64(g.r.Intn(41)) - 20)
		case 6: // ±2^k + d for any k: byte and word boundaries of the codecs
			n = pow2(uint(g.r.Intn(256)))
			if g.r.Bool() {
				n.Neg(n)
			}
			n.Add(n, big.NewInt(int64(g.r.Intn(5))-2))
		default:
			bits := g.r.Range(1, 255)
			n = new(big.Int).SetBytes(g.r.Bytes((bits + 7) / 8))
			n.Rsh(n, uint((8-bits%8)%8))
			if g.r.Bool() {
				n.Neg(n)
			}
		}
		if inRange(n) {
			return n
		}
	}
}

var shiftCounts = []int64{-1, 0, 1, 2, 7, 8, 9, 63, 64, 254, 255, 256, 257, 1<<31 - 1, 1 << 31, -(1 << 31)}

// smallInt: shift counts, sizes, indexes.
func (g *gen) smallInt() *big.Int {
	switch g.r.Intn(4) {
	case 0:
		return big.NewInt(shiftCounts[g.r.Intn(len(shiftCounts))])
	case 1:
		return big.NewInt(int64(g.r.Intn(12)) - 2)
	case 2:
		return big.NewInt(int64(g.r.Intn(300)))
	default:
		return g.bigInt()
	}
}

var sizeBoundaries = []int{0, 1, 2, 31, 32, 33, 63, 64, 65, 255, 256, 257}
var bigSizes = []int{65535, 65536, 65537, 131069, 131070}

// bigDiv thins out the cases carrying 64-128 kB strings (thorough tier: the stream would not fit)
var bigDiv = 1

// byteString returns a byte string biased to interesting lengths and contents.
func (g *gen) byteString(allowBig bool) []byte {
	var n int
	switch g.r.Intn(8) {
	case 0, 1, 2:
		n = sizeBoundaries[g.r.Intn(len(sizeBoundaries))]
	case 3:
		if allowBig && g.r.Intn(24*bigDiv) == 0 {
			n = bigSizes[g.r.Intn(len(bigSizes))]
		} else {
			n = g.r.Intn(70)
		}
	default:
		n = g.r.Intn(9)
	}
	b := make([]byte, n)
	switch g.r.Intn(6) {
	case 0: // zeros
	case 1: // all ff
		for i := range b {
			b[i] = 0xff
		}
	case 2: // minimal/non-minimal number forms: sign byte last
		if n > 0 {
			copy(b, g.r.Bytes(n))
			b[n-1] = []byte{0x00, 0x80, 0xff, 0x7f}[g.r.Intn(4)]
		}
	case 3: // -2^k form: zeros then 0x80
		if n > 0 {
			b[n-1] = 0x80
		}
	default:
		if n <= 4096 {
			copy(b, g.r.Bytes(n))
		} else {
			b[0], b[n-1] = byte(g.r.U64()), byte(g.r.U64())
		}
	}
	return b
}

// ---- values as script snippets ----

const (
	tAny     = 0x00
	tPointer = 0x10
	tBool    = 0x20
	tInt     = 0x21
	tBytes   = 0x28
	tBuffer  = 0x30
	tArray   = 0x40
	tStruct  = 0x41
	tMap     = 0x48
	tInterop = 0x60
)

var allTypes = []byte{tAny, tPointer, tBool, tInt, tBytes, tBuffer, tArray, tStruct, tMap, tInterop, 0x01, 0x22, 0x31, 0xff}

// prim generates a primitive value (also usable as a pre-pushed argument).
// hint: 'i' integer-like, 'n' small integer, 'b' bytes-like, 'B' boolean-like, 'k' key-like, 'x' anything.
func (g *gen) prim(hint byte) arg {
	k := hint
	// 1 in 8: ignore the hint (type confusion)
	if g.r.Intn(8) == 0 {
		k = 'x'
	}
	switch k {
	case 'i':
		switch g.r.Intn(12) {
		case 0:
			return arg{kind: 's', bs: g.byteString(false)}
		case 1:
			return arg{kind: 'b', b: g.r.Bool()}
		default:
			return arg{kind: 'i', i: g.bigInt()}
		}
	case 's': // index into a short stack / small count
		if g.r.Intn(10) < 7 {
			return arg{kind: 'i', i: big.NewInt(int64(g.r.Intn(7)) - 1)}
		}
		return arg{kind: 'i', i: g.smallInt()}
	case 'n':
		if g.r.Intn(12) == 0 {
			return arg{kind: 's', bs: g.byteString(false)}
		}
		return arg{kind: 'i', i: g.smallInt()}
	case 'b':
		switch g.r.Intn(8) {
		case 0:
			return arg{kind: 'i', i: g.bigInt()}
		case 1:
			return arg{kind: 'b', b: g.r.Bool()}
		case 2, 3:
			return arg{kind: 'f', bs: g.byteString(true)}
		default:
			return arg{kind: 's', bs: g.byteString(true)}
		}
	case 'B':
		if g.r.Intn(8) == 0 {
			return arg{kind: 'f', bs: g.r.Bytes(g.r.Intn(2))} // Buffer: true whatever it holds
		}
		switch g.r.Intn(6) {
		case 0:
			return arg{kind: 'i', i: g.bigInt()}
		case 1:
			return arg{kind: 's', bs: g.byteString(false)}
		case 2:
			return arg{kind: 'n'}
		default:
			return arg{kind: 'b', b: g.r.Bool()}
		}
	case 'k':
		if g.r.Intn(3) == 0 {
			return keyPool[g.r.Intn(len(keyPool))]
		}
		if g.r.Intn(12) == 0 {
			return arg{kind: 's', bs: make([]byte, 63+g.r.Intn(3))} // around MaxKeySize
		}
		switch g.r.Intn(5) {
		case 0:
			return arg{kind: 'b', b: g.r.Bool()}
		case 1, 2:
			return arg{kind: 'i', i: big.NewInt(int64(g.r.Intn(7)) - 1)}
		case 3:
			return arg{kind: 'i', i: g.bigInt()}
		default:
			return arg{kind: 's', bs: g.byteString(false)}
		}
	default:
		switch g.r.Intn(6) {
		case 0:
			return arg{kind: 'n'}
		case 1:
			return arg{kind: 'b', b: g.r.Bool()}
		case 2:
			return arg{kind: 'i', i: g.bigInt()}
		case 3:
			return arg{kind: 'f', bs: g.byteString(false)}
		default:
			return arg{kind: 's', bs: g.byteString(true)}
		}
	}
}

// emitPrim pushes the primitive by script.
func (g *gen) emitPrim(a *asm, v arg) {
	switch v.kind {
	case 'n':
		a.op(opcode.PUSHNULL)
	case 'b':
		if v.b {
			a.op(opcode.PUSHT)
		} else {
			a.op(opcode.PUSHF)
		}
	case 'i':
		if g.r.Intn(6) == 0 {
			// widest forms / through a byte string conversion
			a.pushIntRaw(toLE(v.i), v.i.Sign() < 0)
		} else {
			a.pushInt(v.i)
		}
	case 's':
		a.pushData(v.bs)
	default:
		a.pushData(v.bs).convert(tBuffer)
	}
}

// toLE is an independent minimal two's complement encoder (not the repo's).
func toLE(n *big.Int) []byte {
	if n.Sign() == 0 {
		return []byte{0}
	}
	var out []byte
	x := new(big.Int).Set(n)
	m := big.NewInt(256)
	for {
		lo := new(big.Int).Mod(x, m) // Euclidean: 0..255
		out = append(out, byte(lo.Int64()))
		x.Sub(x, lo)
		x.Div(x, m) // exact
		if x.Sign() == 0 && lo.Int64() < 128 {
			break
		}
		if x.Cmp(big.NewInt(-1)) == 0 && lo.Int64() >= 128 {
			break
		}
	}
	return out
}

// emitCollection builds an Array, Struct, Map (or Buffer/ByteString when flat) on the stack.
func (g *gen) emitCollection(a *asm, depth int) {
	switch g.r.Intn(12) {
	case 0:
		a.op(opcode.NEWARRAY0)
	case 1:
		a.op(opcode.NEWSTRUCT0)
	case 2:
		a.op(opcode.NEWMAP)
	case 3:
		a.pushInt(big.NewInt(int64(g.r.Intn(4)))).op(opcode.NEWARRAY)
	case 4:
		a.pushInt(big.NewInt(int64(g.r.Intn(4)))).op(opcode.NEWSTRUCT)
	case 5, 6, 7: // PACK / PACKSTRUCT of generated values
		n := g.r.Intn(4)
		for i := 0; i < n; i++ {
			g.emitAny(a, depth+1)
		}
		a.pushInt(big.NewInt(int64(n)))
		if g.r.Bool() {
			a.op(opcode.PACK)
		} else {
			a.op(opcode.PACKSTRUCT)
		}
	case 8, 9: // PACKMAP
		n := g.r.Intn(4)
		for i := 0; i < n; i++ {
			g.emitAny(a, depth+1)      // value
			g.emitPrim(a, g.keyPrim()) // key on top
		}
		a.pushInt(big.NewInt(int64(n))).op(opcode.PACKMAP)
	case 10:
		g.emitPrim(a, arg{kind: 'f', bs: g.byteString(false)})
	default:
		g.emitPrim(a, arg{kind: 's', bs: g.byteString(false)})
	}
}

// keyPool: map keys whose byte images collide across types (Integer 1, Boolean true, ByteString 01 …).
var keyPool = []arg{
	{kind: 'i', i: big.NewInt(0)}, {kind: 'i', i: big.NewInt(1)}, {kind: 'i', i: big.NewInt(-1)}, {kind: 'i', i: big.NewInt(255)}, {kind: 'i', i: big.NewInt(2)},
	{kind: 'b', b: false}, {kind: 'b', b: true},
	{kind: 's', bs: []byte{}}, {kind: 's', bs: []byte{0}}, {kind: 's', bs: []byte{1}}, {kind: 's', bs: []byte{0xff}}, {kind: 's', bs: []byte{0xff, 0}}, {kind: 's', bs: []byte{2}},
	{kind: 's', bs: make([]byte, 64)}, // MaxKeySize
}

func (g *gen) keyPrim() arg {
	if g.r.Intn(3) != 0 {
		return keyPool[g.r.Intn(len(keyPool))]
	}
	switch g.r.Intn(4) {
	case 0:
		return arg{kind: 'b', b: g.r.Bool()}
	case 1:
		return arg{kind: 's', bs: g.r.Bytes(g.r.Intn(3))}
	default:
		return arg{kind: 'i', i: big.NewInt(int64(g.r.Intn(5)))}
	}
}

// emitAny pushes any kind of value.
func (g *gen) emitAny(a *asm, depth int) {
	if depth < 3 && g.r.Intn(3) == 0 {
		g.emitCollection(a, depth)
		return
	}
	if g.r.Intn(20) == 0 {
		a.raw(byte(opcode.PUSHA), 0, 0, 0, 0) // pointer to itself
		return
	}
	g.emitPrim(a, g.prim('x'))
}

// ---- single instruction cases ----

type opSpec struct {
	op  opcode.Opcode
	sig string // operands deepest first: i n b B k x c(collection) F(buffer)
	fam string
	// keep: the operand at this index (a collection) is DUPed first so that a mutation stays observable
	keep int
	// imm: immediate operand generator (type byte)
	imm bool
}

var opSpecs = []opSpec{
	// arithmetic
	{opcode.SIGN, "i", "arith", -1, false}, {opcode.ABS, "i", "arith", -1, false}, {opcode.NEGATE, "i", "arith", -1, false},
	{opcode.INC, "i", "arith", -1, false}, {opcode.DEC, "i", "arith", -1, false},
	{opcode.ADD, "ii", "arith", -1, false}, {opcode.SUB, "ii", "arith", -1, false}, {opcode.MUL, "ii", "arith", -1, false},
	{opcode.DIV, "ii", "divmod", -1, false}, {opcode.MOD, "ii", "divmod", -1, false},
	{opcode.POW, "in", "pow", -1, false}, {opcode.SQRT, "i", "sqrt", -1, false},
	{opcode.MODMUL, "iii", "modmul", -1, false}, {opcode.MODPOW, "iii", "modpow", -1, false},
	{opcode.SHL, "in", "shift", -1, false}, {opcode.SHR, "in", "shift", -1, false},
	{opcode.NOT, "B", "bool", -1, false}, {opcode.BOOLAND, "BB", "bool", -1, false}, {opcode.BOOLOR, "BB", "bool", -1, false},
	{opcode.NZ, "i", "compare", -1, false}, {opcode.NUMEQUAL, "ii", "compare", -1, false}, {opcode.NUMNOTEQUAL, "ii", "compare", -1, false},
	{opcode.LT, "ii", "compare", -1, false}, {opcode.LE, "ii", "compare", -1, false}, {opcode.GT, "ii", "compare", -1, false}, {opcode.GE, "ii", "compare", -1, false},
	{opcode.MIN, "ii", "compare", -1, false}, {opcode.MAX, "ii", "compare", -1, false}, {opcode.WITHIN, "iii", "compare", -1, false},
	// bitwise
	{opcode.INVERT, "i", "bitwise", -1, false}, {opcode.AND, "ii", "bitwise", -1, false}, {opcode.OR, "ii", "bitwise", -1, false}, {opcode.XOR, "ii", "bitwise", -1, false},
	{opcode.EQUAL, "xx", "equal", -1, false}, {opcode.NOTEQUAL, "xx", "equal", -1, false},
	// splice
	{opcode.NEWBUFFER, "n", "splice", -1, false}, {opcode.MEMCPY, "Fnbnn", "splice", 0, false}, {opcode.CAT, "bb", "splice", -1, false},
	{opcode.SUBSTR, "bnn", "splice", -1, false}, {opcode.LEFT, "bn", "splice", -1, false}, {opcode.RIGHT, "bn", "splice", -1, false},
	// stack
	{opcode.DEPTH, "xx", "stack", -1, false}, {opcode.DROP, "xx", "stack", -1, false}, {opcode.NIP, "xxx", "stack", -1, false},
	{opcode.XDROP, "xxxs", "stack", -1, false}, {opcode.CLEAR, "xx", "stack", -1, false}, {opcode.DUP, "xx", "stack", -1, false},
	{opcode.OVER, "xxx", "stack", -1, false}, {opcode.PICK, "xxxs", "stack", -1, false}, {opcode.TUCK, "xxx", "stack", -1, false},
	{opcode.SWAP, "xxx", "stack", -1, false}, {opcode.ROT, "xxxx", "stack", -1, false}, {opcode.ROLL, "xxxs", "stack", -1, false},
	{opcode.REVERSE3, "xxxx", "stack", -1, false}, {opcode.REVERSE4, "xxxxx", "stack", -1, false}, {opcode.REVERSEN, "xxxxs", "stack", -1, false},
	// types
	{opcode.ISNULL, "x", "types", -1, false}, {opcode.ISTYPE, "x", "types", -1, true}, {opcode.CONVERT, "x", "convert", -1, true},
	// compound
	{opcode.PACKMAP, "xkxks", "compound", -1, false}, {opcode.PACKSTRUCT, "xxxs", "compound", -1, false}, {opcode.PACK, "xxxs", "compound", -1, false},
	{opcode.UNPACK, "c", "compound", -1, false}, {opcode.NEWARRAY0, "", "compound", -1, false}, {opcode.NEWARRAY, "n", "compound", -1, false},
	{opcode.NEWARRAYT, "n", "compound", -1, true}, {opcode.NEWSTRUCT0, "", "compound", -1, false}, {opcode.NEWSTRUCT, "n", "compound", -1, false},
	{opcode.NEWMAP, "", "compound", -1, false}, {opcode.SIZE, "x", "compound", -1, false}, {opcode.HASKEY, "ck", "compound", -1, false},
	{opcode.KEYS, "c", "compound", -1, false}, {opcode.VALUES, "c", "compound", -1, false}, {opcode.PICKITEM, "ck", "compound", -1, false},
	{opcode.APPEND, "cx", "compound", 0, false}, {opcode.SETITEM, "ckx", "compound", 0, false}, {opcode.REVERSEITEMS, "c", "compound", 0, false},
	{opcode.REMOVE, "ck", "compound", 0, false}, {opcode.CLEARITEMS, "c", "compound", 0, false}, {opcode.POPITEM, "c", "compound", 0, false},
	// control (single instruction forms)
	{opcode.ASSERT, "B", "control", -1, false}, {opcode.THROW, "x", "control", -1, false}, {opcode.ABORT, "x", "control", -1, false},
	{opcode.ABORTMSG, "b", "control", -1, false}, {opcode.ASSERTMSG, "Bb", "control", -1, false}, {opcode.NOP, "x", "control", -1, false},
}

// singleOp builds a case that applies one instruction to generated operands.
func (g *gen) singleOp(sp opSpec) *vcase {
	c := &vcase{gas: -1, priced: true, family: sp.fam}
	a := newAsm()
	// primitives only + coin: pass the operands as pre-pushed arguments
	asArgs := g.r.Bool()
	for i := 0; i < len(sp.sig); i++ {
		if sp.sig[i] == 'c' || sp.sig[i] == 'F' || sp.keep >= 0 {
			asArgs = false
		}
	}
	for i := 0; i < len(sp.sig); i++ {
		h := sp.sig[i]
		switch h {
		case 'c':
			g.emitCollection(a, 1)
		case 'F':
			if g.r.Intn(8) == 0 {
				g.emitAny(a, 1)
			} else {
				g.emitPrim(a, arg{kind: 'f', bs: g.byteString(false)})
			}
		case 'x':
			if asArgs {
				c.args = append(c.args, g.prim('x'))
			} else {
				g.emitAny(a, 1)
			}
		default:
			v := g.prim(h)
			// RIGHT with a length of hundreds of megabytes makes the real VM allocate the result before it finds
			// the length out of range (reported); kept out of the quick tier (shared machine), in the thorough one
			for !heavyMatrix && sp.op == opcode.RIGHT && h == 'n' && v.kind == 'i' && v.i.IsInt64() && v.i.Int64() >= 1<<26 && v.i.Int64() < 1<<31 {
				v = g.prim(h)
			}
			if asArgs {
				c.args = append(c.args, v)
			} else {
				g.emitPrim(a, v)
			}
		}
		if i == sp.keep {
			a.op(opcode.DUP)
		}
	}
	a.op(sp.op)
	if sp.imm {
		a.raw(allTypes[g.r.Intn(len(allTypes))])
	}
	c.script, _ = a.bytes()
	return c
}
